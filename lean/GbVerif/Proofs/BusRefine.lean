import GbVerif.Proofs.BusIo
import GbVerif.Props.C12
/-!
Refinement of the bus model to the banked byte-store spec (`Spec/BusSpec.lean`): an abstraction relation between
model states and spec memories that holds initially, is preserved by every write, and makes every read outside the
I/O window agree.
-/
namespace GbVerif.BusProofs
open GbVerif.Bus GbVerif.CartSpec

/-- abstraction relation: the controller registers are related as in C12, the ROM images coincide and each model
array is the corresponding range of the spec's cell function (an unwritten cell reads 0) -/
structure Rel (s : State) (m : BusSpec.Mem) : Prop where
  wf : WF s
  ctl : m.ctl = C12.ctlOf s.cart.kind
  romBanks : m.romBanks = s.cart.romBanks
  ramBytes : m.ramBytes = s.cram.size
  ramBanks : s.cart.ramBanks = s.cram.size / 0x2000
  rom : m.rom = s.rom
  regs : C12.Rel s.cart m.regs
  vram : ∀ i, i < 0x2000 → (m.cells (0x10000 + i)).getD 0 = s.vram.getD i 0
  cram : ∀ i, i < s.cram.size → i < 0x8000 → (m.cells (0x20000 + i)).getD 0 = s.cram.getD i 0
  wram : ∀ i, i < 0x2000 → (m.cells (0x200000 + i)).getD 0 = s.wram.getD i 0
  oam : ∀ i, i < 0xa0 → (m.cells (0x300000 + i)).getD 0 = s.oam.getD i 0
  hram : ∀ i, i < 127 → (m.cells (0x400000 + i)).getD 0 = s.hram.getD i 0
  ie : (m.cells 0x40007f).getD 0 = s.io.ie ||| s.io.ieUpper

theorem getD_replicate_zero (n i : Nat) : (Array.replicate n 0).getD i 0 = 0 := by
  simp only [Array.getD_eq_getD_getElem?, Array.getElem?_replicate]
  split <;> rfl

/-- the power-on states are related -/
theorem rel_create (k : Cart.Kind) (romBanks ramBytes : Nat) (rom : Nat → Nat) (h : 2 ≤ romBanks) :
    Rel (create k romBanks ramBytes rom)
      { ctl := C12.ctlOf k, romBanks := romBanks, ramBytes := ramBytes, rom := rom } where
  wf := wf_create k romBanks ramBytes rom h
  ctl := rfl
  romBanks := rfl
  ramBytes := by simp [create]
  ramBanks := by simp [create, Cart.init]
  rom := rfl
  regs := C12.rel_init k romBanks (ramBytes / 0x2000)
  vram := fun i _ => (getD_replicate_zero _ i).symm
  cram := fun i _ _ => (getD_replicate_zero _ i).symm
  wram := fun i _ => (getD_replicate_zero _ i).symm
  oam := fun i _ => (getD_replicate_zero _ i).symm
  hram := fun i _ => (getD_replicate_zero _ i).symm
  ie := by show (none : Option Nat).getD 0 = (0 ||| 0 : Nat); decide

/-! ### spec-side ladders -/

section spec
variable (m : BusSpec.Mem) (a : Nat)

theorem key_rom (h : a < 0x8000) : BusSpec.cellKey m a = none := by
  unfold BusSpec.cellKey; rw [if_pos h]
theorem key_vram (h1 : 0x8000 ≤ a) (h2 : a < 0xa000) : BusSpec.cellKey m a = some (0x10000 + (a - 0x8000)) := by
  unfold BusSpec.cellKey; rw [if_neg (by omega), if_pos h2]
theorem key_cram (h1 : 0xa000 ≤ a) (h2 : a < 0xc000) :
    BusSpec.cellKey m a = if ramBank m.ctl (m.ramBytes / 0x2000) m.regs * 0x2000 + (a - 0xa000) < m.ramBytes
      then some (0x20000 + (ramBank m.ctl (m.ramBytes / 0x2000) m.regs * 0x2000 + (a - 0xa000))) else none := by
  unfold BusSpec.cellKey; rw [if_neg (by omega), if_neg (by omega), if_pos h2]
theorem key_wram (h1 : 0xc000 ≤ a) (h2 : a < 0xe000) : BusSpec.cellKey m a = some (0x200000 + (a - 0xc000)) := by
  unfold BusSpec.cellKey; rw [if_neg (by omega), if_neg (by omega), if_neg (by omega), if_pos h2]
theorem key_echo (h1 : 0xe000 ≤ a) (h2 : a < 0xfe00) : BusSpec.cellKey m a = none := by
  unfold BusSpec.cellKey; rw [if_neg (by omega), if_neg (by omega), if_neg (by omega), if_neg (by omega), if_pos h2]
theorem key_oam (h1 : 0xfe00 ≤ a) (h2 : a < 0xfea0) : BusSpec.cellKey m a = some (0x300000 + (a - 0xfe00)) := by
  unfold BusSpec.cellKey
  rw [if_neg (by omega), if_neg (by omega), if_neg (by omega), if_neg (by omega), if_neg (by omega), if_pos h2]
theorem key_unused_io (h1 : 0xfea0 ≤ a) (h2 : a < 0xff80) : BusSpec.cellKey m a = none := by
  unfold BusSpec.cellKey
  rw [if_neg (by omega), if_neg (by omega), if_neg (by omega), if_neg (by omega), if_neg (by omega),
    if_neg (by omega), if_pos h2]
theorem key_hram (h1 : 0xff80 ≤ a) : BusSpec.cellKey m a = some (0x400000 + (a - 0xff80)) := by
  unfold BusSpec.cellKey
  rw [if_neg (by omega), if_neg (by omega), if_neg (by omega), if_neg (by omega), if_neg (by omega),
    if_neg (by omega), if_neg (by omega)]

theorem sread_rom0 (h : a < 0x4000) : BusSpec.read m a = m.rom a := by
  unfold BusSpec.read; rw [if_pos h]
theorem sread_romx (h1 : 0x4000 ≤ a) (h2 : a < 0x8000) :
    BusSpec.read m a = m.rom (romBank m.ctl m.romBanks m.regs * 0x4000 + (a - 0x4000)) := by
  unfold BusSpec.read; rw [if_neg (by omega), if_pos h2]
theorem sread_key {k : Nat} (h1 : 0x8000 ≤ a) (hk : BusSpec.cellKey m a = some k) :
    BusSpec.read m a = (m.cells k).getD 0 := by
  unfold BusSpec.read; rw [if_neg (by omega), if_neg (by omega), hk]
theorem sread_none (h1 : 0x8000 ≤ a) (hk : BusSpec.cellKey m a = none) :
    BusSpec.read m a = if 0xa000 ≤ a ∧ a < 0xc000 then 0xff else 0 := by
  unfold BusSpec.read; rw [if_neg (by omega), if_neg (by omega), hk]

theorem swrite_rom (v : Nat) (h : a < 0x8000) :
    BusSpec.write m a v = { m with regs := applyWrite m.ctl m.regs a v } := by
  unfold BusSpec.write; rw [if_pos h]
theorem swrite_key (v : Nat) {k : Nat} (h1 : 0x8000 ≤ a) (hk : BusSpec.cellKey m a = some k) :
    BusSpec.write m a v = { m with cells := fun j => if j = k then some v else m.cells j } := by
  unfold BusSpec.write; rw [if_neg (by omega), hk]
theorem swrite_none (v : Nat) (h1 : 0x8000 ≤ a) (hk : BusSpec.cellKey m a = none) : BusSpec.write m a v = m := by
  unfold BusSpec.write; rw [if_neg (by omega), hk]

end spec

/-- the spec's RAM bank is one of the four the controllers can select -/
theorem ramBank_lt4 (c : Cart.State) (r : Regs) (n : Nat) (h : C12.Rel c r) : ramBank (C12.ctlOf c.kind) n r < 4 := by
  unfold C12.Rel at h
  unfold ramBank C12.ctlOf
  by_cases hn : n = 0
  · rw [if_pos hn]; decide
  · rw [if_neg hn]
    have hpos : 0 < n := Nat.pos_of_ne_zero hn
    cases hk : c.kind <;> simp only [hk] at h ⊢
    · decide
    · obtain ⟨_, _, _, _, h5, _⟩ := h
      split
      · exact Nat.lt_of_le_of_lt (Nat.mod_le _ _) (by decide)
      · exact Nat.lt_of_le_of_lt (Nat.mod_le _ _) h5
    · obtain ⟨_, _, _, h4⟩ := h
      exact Nat.lt_of_le_of_lt (Nat.mod_le _ _) h4

/-- model and spec agree on the cartridge-RAM index behind an address -/
theorem cramIdx_spec {s : State} {m : BusSpec.Mem} (r : Rel s m) (a : Nat) :
    ramBank m.ctl (m.ramBytes / 0x2000) m.regs * 0x2000 + (a - 0xa000) = s.cramIdx a ∧
    ramBank m.ctl (m.ramBytes / 0x2000) m.regs < 4 := by
  have hb := (C12.banks_of_rel s.cart m.regs r.regs).2
  have h4 := ramBank_lt4 s.cart m.regs (s.cram.size / 0x2000) r.regs
  rw [r.ctl, r.ramBytes]
  rw [r.ramBanks] at hb
  simp only [State.cramIdx, hb]
  exact ⟨by omega, h4⟩

/-- **reads agree** outside the I/O window -/
theorem rel_read {s : State} {m : BusSpec.Mem} (r : Rel s m) (a : Nat) (ha : a < 65536)
    (hio : ¬ (0xff00 ≤ a ∧ a < 0xff80)) : read s a = .ok (BusSpec.read m a) := by
  have wf := r.wf
  rcases regions a ha with h | ⟨h1, h2⟩ | ⟨h1, h2⟩ | ⟨h1, h2⟩ | ⟨h1, h2⟩ | ⟨h1, h2⟩ | ⟨h1, h2⟩ | ⟨h1, h2⟩ | ⟨h1, h2⟩ | ⟨h1, h2⟩ | h
  · rw [read_rom0_wf wf h, sread_rom0 m a h, r.rom]
  · rw [read_romx_wf wf h1 h2, sread_romx m a h1 h2, r.rom, r.ctl, r.romBanks,
      ← (C12.banks_of_rel s.cart m.regs r.regs).1, Nat.mul_comm]
  · rw [read_vram_wf wf h1 h2, sread_key m a h1 (key_vram m a h1 h2), r.vram _ (by omega)]
  · obtain ⟨hidx, h4⟩ := cramIdx_spec r a
    rw [read_cram_wf wf h1 h2]
    have hk := key_cram m a h1 h2
    rw [hidx, r.ramBytes] at hk
    by_cases hi : s.cramIdx a < s.cram.size
    · rw [if_pos hi] at hk ⊢
      rw [sread_key m a (by omega) hk, r.cram _ hi (by rw [← hidx]; omega)]
    · rw [if_neg hi] at hk ⊢
      rw [sread_none m a (by omega) hk, if_pos ⟨h1, h2⟩]
  · rw [read_wram_wf wf h1 h2, sread_key m a (by omega) (key_wram m a h1 h2), r.wram _ (by omega)]
  · rw [read_echo s a h1 h2, sread_none m a (by omega) (key_echo m a h1 h2), if_neg (by omega)]
  · rw [read_oam_wf wf h1 h2, sread_key m a (by omega) (key_oam m a h1 h2), r.oam _ (by omega)]
  · rw [read_unused s a h1 h2, sread_none m a (by omega) (key_unused_io m a h1 (by omega)), if_neg (by omega)]
  · exact absurd ⟨h1, h2⟩ hio
  · rw [read_hram_wf wf h1 h2, sread_key m a (by omega) (key_hram m a h1), r.hram _ (by omega)]
  · subst h
    rw [read_ie s _ rfl, sread_key m _ (by omega) (key_hram m _ (by omega))]
    exact congrArg Except.ok r.ie.symm

/-! ### writes preserve the relation -/

theorem upd_same (cells : Nat → Option Nat) (arr : Array Nat) (base i0 v : Nat) (hi0 : i0 < arr.size) (i : Nat)
    (h : (cells (base + i)).getD 0 = arr.getD i 0) :
    ((fun j => if j = base + i0 then some v else cells j) (base + i)).getD 0 = (arr.setIfInBounds i0 v).getD i 0 := by
  rw [getD_sib]
  by_cases hi : i = i0
  · subst hi; simp [hi0]
  · have h1 : ¬ (base + i = base + i0) := by omega
    have h2 : ¬ (i0 = i ∧ i0 < arr.size) := fun hh => hi hh.1.symm
    simp only [h1, h2, if_false]; exact h

theorem upd_other (cells : Nat → Option Nat) (k v j : Nat) (hne : j ≠ k) :
    ((fun j => if j = k then some v else cells j) j).getD 0 = (cells j).getD 0 := by
  simp only [hne, if_false]

theorem upd_other_mem (m : BusSpec.Mem) (k v j : Nat) (hne : j ≠ k) :
    (({ m with cells := fun j => if j = k then some v else m.cells j } : BusSpec.Mem).cells j).getD 0 = (m.cells j).getD 0 :=
  upd_other m.cells k v j hne

theorem setByte_ie (io : Io) (a v : Nat) : (io.setByte a v).ie = io.ie ∧ (io.setByte a v).ieUpper = io.ieUpper := by
  unfold Io.setByte
  split <;> exact ⟨rfl, rfl⟩

/-- **one write step**: a model write and the spec write keep the states related -/
theorem rel_write {s s' : State} {m : BusSpec.Mem} (r : Rel s m) (a v : Nat) (ha : a < 65536) (hv : v < 256)
    (hw : write s a v = .ok s') : Rel s' (BusSpec.write m a v) := by
  have wf := r.wf
  rcases regions a ha with h | ⟨h1, h2⟩ | ⟨h1, h2⟩ | ⟨h1, h2⟩ | ⟨h1, h2⟩ | ⟨h1, h2⟩ | ⟨h1, h2⟩ | ⟨h1, h2⟩ | ⟨h1, h2⟩ | ⟨h1, h2⟩ | h
  -- controller registers (two regions of the case split)
  iterate 2
    have h8 : a < 0x8000 := by omega
    rw [write_rom s a v h8] at hw; injection hw with hw; subst hw
    rw [swrite_rom m a v h8]
    obtain ⟨hr, hk, hb, hm⟩ := C12.rel_step s.cart m.regs r.regs a v h8
    exact { wf := wf_write wf (write_rom s a v h8), ctl := by rw [hk]; exact r.ctl,
            romBanks := by rw [hb]; exact r.romBanks, ramBytes := r.ramBytes, ramBanks := by rw [hm]; exact r.ramBanks,
            rom := r.rom, regs := by rw [r.ctl]; exact hr,
            vram := r.vram, cram := r.cram, wram := r.wram, oam := r.oam, hram := r.hram, ie := r.ie }
  -- VRAM
  · rw [write_vram_wf wf v h1 h2] at hw; injection hw with hw; subst hw
    rw [swrite_key m a v h1 (key_vram m a h1 h2)]
    exact { wf := wf_set_vram wf _ (by simp), ctl := r.ctl, romBanks := r.romBanks, ramBytes := r.ramBytes,
            ramBanks := r.ramBanks, rom := r.rom, regs := r.regs,
            vram := fun i hi => upd_same _ _ _ _ _ (by rw [wf.vram]; omega) i (r.vram i hi),
            cram := fun i hi hi' => (upd_other _ _ _ _ (by omega)).trans (r.cram i hi hi'),
            wram := fun i hi => (upd_other _ _ _ _ (by omega)).trans (r.wram i hi),
            oam := fun i hi => (upd_other _ _ _ _ (by omega)).trans (r.oam i hi),
            hram := fun i hi => (upd_other _ _ _ _ (by omega)).trans (r.hram i hi),
            ie := (upd_other_mem m (0x10000 + (a - 0x8000)) v 0x40007f (by omega)).trans r.ie }
  -- cartridge RAM
  · obtain ⟨hidx, h4⟩ := cramIdx_spec r a
    rw [write_cram_wf wf v h1 h2] at hw; injection hw with hw; subst hw
    have hk := key_cram m a h1 h2
    rw [hidx, r.ramBytes] at hk
    by_cases hi0 : s.cramIdx a < s.cram.size
    · rw [if_pos hi0] at hk
      rw [swrite_key m a v (by omega) hk]
      have hlt : s.cramIdx a < 0x8000 := by rw [← hidx]; omega
      exact { wf := wf_set_cram wf _, ctl := r.ctl, romBanks := r.romBanks,
              ramBytes := by rw [Array.size_setIfInBounds]; exact r.ramBytes,
              ramBanks := by rw [Array.size_setIfInBounds]; exact r.ramBanks, rom := r.rom, regs := r.regs,
              vram := fun i hi => (upd_other _ _ _ _ (by omega)).trans (r.vram i hi),
              cram := fun i hi hi' => upd_same _ _ _ _ _ hi0 i (r.cram i (by simpa using hi) hi'),
              wram := fun i hi => (upd_other _ _ _ _ (by omega)).trans (r.wram i hi),
              oam := fun i hi => (upd_other _ _ _ _ (by omega)).trans (r.oam i hi),
              hram := fun i hi => (upd_other _ _ _ _ (by omega)).trans (r.hram i hi),
              ie := (upd_other_mem m (0x20000 + s.cramIdx a) v 0x40007f (by omega)).trans r.ie }
    · rw [if_neg hi0] at hk
      rw [swrite_none m a v (by omega) hk, sib_oob _ _ _ hi0]
      exact r
  -- WRAM
  · rw [write_wram_wf wf v h1 h2] at hw; injection hw with hw; subst hw
    rw [swrite_key m a v (by omega) (key_wram m a h1 h2)]
    exact { wf := wf_set_wram wf _ (by simp), ctl := r.ctl, romBanks := r.romBanks, ramBytes := r.ramBytes,
            ramBanks := r.ramBanks, rom := r.rom, regs := r.regs,
            vram := fun i hi => (upd_other _ _ _ _ (by omega)).trans (r.vram i hi),
            cram := fun i hi hi' => (upd_other _ _ _ _ (by omega)).trans (r.cram i hi hi'),
            wram := fun i hi => upd_same _ _ _ _ _ (by rw [wf.wram]; omega) i (r.wram i hi),
            oam := fun i hi => (upd_other _ _ _ _ (by omega)).trans (r.oam i hi),
            hram := fun i hi => (upd_other _ _ _ _ (by omega)).trans (r.hram i hi),
            ie := (upd_other_mem m (0x200000 + (a - 0xc000)) v 0x40007f (by omega)).trans r.ie }
  -- echo
  · rw [write_echo s a v h1 h2] at hw; injection hw with hw; subst hw
    rw [swrite_none m a v (by omega) (key_echo m a h1 h2)]; exact r
  -- OAM
  · rw [write_oam_wf wf v h1 h2] at hw; injection hw with hw; subst hw
    rw [swrite_key m a v (by omega) (key_oam m a h1 h2)]
    exact { wf := wf_set_oam wf _ (by simp), ctl := r.ctl, romBanks := r.romBanks, ramBytes := r.ramBytes,
            ramBanks := r.ramBanks, rom := r.rom, regs := r.regs,
            vram := fun i hi => (upd_other _ _ _ _ (by omega)).trans (r.vram i hi),
            cram := fun i hi hi' => (upd_other _ _ _ _ (by omega)).trans (r.cram i hi hi'),
            wram := fun i hi => (upd_other _ _ _ _ (by omega)).trans (r.wram i hi),
            oam := fun i hi => upd_same _ _ _ _ _ (by rw [wf.oam]; omega) i (r.oam i hi),
            hram := fun i hi => (upd_other _ _ _ _ (by omega)).trans (r.hram i hi),
            ie := (upd_other_mem m (0x300000 + (a - 0xfe00)) v 0x40007f (by omega)).trans r.ie }
  -- unused
  · rw [write_unused s a v h1 h2] at hw; injection hw with hw; subst hw
    rw [swrite_none m a v (by omega) (key_unused_io m a h1 (by omega))]; exact r
  -- I/O window: the spec memory does not change; the model changes registers that are outside the relation
  · rw [write_io s a v h1 h2] at hw
    rw [swrite_none m a v (by omega) (key_unused_io m a (by omega) h2)]
    split at hw
    · injection hw with hw; subst hw
      exact { wf := ⟨wf.1, wf.2, wf.3, wf.4, wf.5, wf.6⟩, ctl := r.ctl, romBanks := r.romBanks, ramBytes := r.ramBytes,
              ramBanks := r.ramBanks, rom := r.rom, regs := r.regs, vram := r.vram, cram := r.cram, wram := r.wram,
              oam := r.oam, hram := r.hram, ie := r.ie }
    · injection hw with hw; subst hw
      exact { wf := wf_set_io wf _, ctl := r.ctl, romBanks := r.romBanks, ramBytes := r.ramBytes,
              ramBanks := r.ramBanks, rom := r.rom, regs := r.regs, vram := r.vram, cram := r.cram, wram := r.wram,
              oam := r.oam, hram := r.hram,
              ie := by
                show _ = (s.io.setByte a v).ie ||| (s.io.setByte a v).ieUpper
                rw [(setByte_ie s.io a v).1, (setByte_ie s.io a v).2]; exact r.ie }
  -- HRAM
  · rw [write_hram_wf wf v h1 h2] at hw; injection hw with hw; subst hw
    rw [swrite_key m a v (by omega) (key_hram m a h1)]
    exact { wf := wf_set_hram wf _ (by simp), ctl := r.ctl, romBanks := r.romBanks, ramBytes := r.ramBytes,
            ramBanks := r.ramBanks, rom := r.rom, regs := r.regs,
            vram := fun i hi => (upd_other _ _ _ _ (by omega)).trans (r.vram i hi),
            cram := fun i hi hi' => (upd_other _ _ _ _ (by omega)).trans (r.cram i hi hi'),
            wram := fun i hi => (upd_other _ _ _ _ (by omega)).trans (r.wram i hi),
            oam := fun i hi => (upd_other _ _ _ _ (by omega)).trans (r.oam i hi),
            hram := fun i hi => upd_same _ _ _ _ _ (by rw [wf.hram]; omega) i (r.hram i hi),
            ie := (upd_other_mem m (0x400000 + (a - 0xff80)) v 0x40007f (by omega)).trans r.ie }
  -- IE
  · subst h
    rw [write_ie s _ v rfl] at hw; injection hw with hw; subst hw
    rw [swrite_key m _ v (by omega) (key_hram m _ (by omega))]
    exact { wf := wf_set_io wf _, ctl := r.ctl, romBanks := r.romBanks, ramBytes := r.ramBytes,
            ramBanks := r.ramBanks, rom := r.rom, regs := r.regs,
            vram := fun i hi => (upd_other _ _ _ _ (by omega)).trans (r.vram i hi),
            cram := fun i hi hi' => (upd_other _ _ _ _ (by omega)).trans (r.cram i hi hi'),
            wram := fun i hi => (upd_other _ _ _ _ (by omega)).trans (r.wram i hi),
            oam := fun i hi => (upd_other _ _ _ _ (by omega)).trans (r.oam i hi),
            hram := fun i hi => (upd_other _ _ _ _ (by omega)).trans (r.hram i hi),
            ie := by
              show ((fun j => if j = 0x400000 + (0xffff - 0xff80) then some v else m.cells j) 0x40007f).getD 0
                = (v &&& 0x1f) ||| (v &&& 0xe0)
              rw [and_1f_or_e0 v hv]; simp }

/-- a history of byte writes (address, value), run on the model -/
def runWrites (s : State) : List (Nat × Nat) → Except Panic State
  | [] => .ok s
  | w :: ws => write s w.1 w.2 >>= fun s1 => runWrites s1 ws

/-- …and on the spec -/
def specWrites (m : BusSpec.Mem) (ws : List (Nat × Nat)) : BusSpec.Mem :=
  ws.foldl (fun m w => BusSpec.write m w.1 w.2) m

/-- the relation along any history -/
theorem rel_history : ∀ (ws : List (Nat × Nat)) {s : State} {m : BusSpec.Mem}, Rel s m →
    (∀ w ∈ ws, w.1 < 65536 ∧ w.2 < 256) → ∃ s', runWrites s ws = .ok s' ∧ Rel s' (specWrites m ws)
  | [], s, m, r, _ => ⟨s, rfl, r⟩
  | w :: ws, s, m, r, h => by
    obtain ⟨hw1, hw2⟩ := h w List.mem_cons_self
    obtain ⟨s1, h1⟩ := write_total r.wf w.2 hw1
    have r1 := rel_write r w.1 w.2 hw1 hw2 h1
    obtain ⟨s2, h2, r2⟩ := rel_history ws r1 (fun x hx => h x (List.mem_cons_of_mem _ hx))
    exact ⟨s2, by simp only [runWrites, h1]; exact h2, r2⟩

end GbVerif.BusProofs
