import GbVerif.Proofs.X86SimMem
/-!
# The data side of LD (HL-),A (0x32)

The store twin of `sim_ldi_ldd true`: `st_body` for the write through HL, then the 16-bit decrement of the host's HL copy, stated
with an opaque decrement `k = 65535`; the interpreter's `+ 4294967295` is generalised away before the `Sim` fields are compared (with the
literals in place both the elaborator and the kernel unfold `Nat.add _ 4294967295` and run out of stack: that is what kept 0x32 out before).
-/
namespace GbVerif.X86
open GbVerif.JitCycles GbVerif.Interp
variable {β : Type}


theorem runOp_st_loc (B : BusOps β) (loc : Indirect) (g : Regs) (m : β) :
    runOp B (.LoadToIndirect loc .A) g m 1 = (do
      let m ← B.write m (getReg16 g (indirectReg loc)) (getReg g .A)
      let r := match loc with
        | .HLIncrement => { g with hl := u32 (g.hl + 1) &&& 0xffff }
        | .HLDecrement => { g with hl := u32 (g.hl + 4294967295) &&& 0xffff }
        | _ => g
      .ok (advance r 1, m, STATUS_NORMAL)) := by
  cases loc <;> rfl

theorem std_B (g : Regs) (st' : St β) (k X : Nat) 
    (hX : u16 (u16 g.hl + k) % 65536 = X % 65536)
    (hs' : Sim { (setReg16 g .HL (u16 (getReg16 g .HL + k))) with ip := g.ip + 1, cycles := g.cycles + 2 } st') :
    Sim { (advance { g with hl := X } 1) with cycles := (advance { g with hl := X } 1).cycles + 2 } st' := by
  exact ⟨hs'.af, hs'.hl.trans hX, hs'.de, hs'.bc, hs'.sp, hs'.ip, hs'.cy, hs'.size⟩
theorem std_arith (x k : Nat) (hk : k = 65535) :
    u16 (u16 x + k) % 65536 = (u32 (x + 4294967295) &&& 0xffff) % 65536 := by
  have e : u32 (x + 4294967295) &&& 0xffff = (x + 4294967295) % 4294967296 % 65536 := by
    show (x + 4294967295) % 4294967296 &&& 0xffff = _
    exact Nat.and_two_pow_sub_one_eq_mod _ 16
  rw [e]; unfold u16; omega

/-- **LD (HL-),A** -/
theorem sim_std (b1 b2 : Nat) : SimulatesMem 0x32 b1 b2 := by
  obtain ⟨_, _, _, ⟨hdecD, hbytesD, hopD⟩⟩ := table_sta b1 b2
  have main : ∀ (dec : Bool) (k : Nat), k = (if dec then 65535 else 1) → ∀ (β : Type) (B : BusOps β) (g : Regs) (fuel : Nat) (st st' : St β), Sim g st → st.pc = 0 →
      run B ((stBody 1 .A ++ [(40, Instr.incdec16 dec 1)]) ++ [(43, addIp 1), (47, addCy 2)]) 51 fuel st = .ok st' →
      B.write st.bus (getReg16 g .HL) (getReg g .A) = .ok st'.bus ∧
        Sim { (setReg16 g .HL (u16 (getReg16 g .HL + k))) with ip := g.ip + 1, cycles := g.cycles + 2 } st' ∧
        st'.stack = st.stack ∧ get st' 14 = get st 14 := by
    intro dec k hk β B g fuel st st' hsim hpc hrun
    have hst : straight ((stBody 1 .A ++ [(40, Instr.incdec16 dec 1)]) ++ [(43, addIp 1), (47, addCy 2)]) :=
      straight_app (straight_app (straight_stBody 1 .A) (straight_one _ _ (fun _ _ e => Instr.noConfusion e) (fun _ e => Instr.noConfusion e)))
        (tail_straight 43 47 1 2)
    have hex := run_execList B _ 51 rfl hst 15 0 rfl fuel st st' (by rw [hpc]; rfl) hrun
    rw [List.drop_zero] at hex
    obtain ⟨s13, hb, ht⟩ := execList_append B 51 _ _ st st' hex
    obtain ⟨s12, hb1, hb2⟩ := execList_append B _ _ (stBody 1 .A) st s13 hb
    obtain ⟨hwr, hs12, hk12, h14⟩ := st_body B 1 .HL .A g st s12 hsim hsim.hl hb1
    obtain ⟨s15, hi, hnil⟩ := execList_cons B _ _ _ _ _ _ hb2
    have := execList_nil B _ _ _ hnil
    subst this
    have hv := step_incdec16 B s12 s13 dec 1 _ (by decide) hs12.size hi
    obtain ⟨hs13, hu13⟩ := step16_sim B .HL _ (u16 (getReg16 g .HL + k)) g s12 s13 _ hs12 hi rfl
      (by intro e; cases e) (fun _ e => by cases e) (fun _ e => by cases e) (fun e => by cases e) (fun e => by cases e)
      (fun _ _ _ _ e => by cases e) (fun _ _ _ e => by cases e) (by
        show (get s13 1).toNat % 65536 = _
        rw [hv]
        have h1 := hs12.hl
        show ((get s12 1).toNat + _) % 65536 = u16 (u16 g.hl + _) % 65536
        unfold u16
        cases dec <;> simp only [Bool.false_eq_true, if_false, if_true] at hk ⊢ <;> omega)
    obtain ⟨hs', hu'⟩ := sim_tail B hs13 43 47 51 1 2 (by decide) (by decide) ht
    exact ⟨by rw [hu'.bus, hu13.bus]; exact hwr, ⟨hs'.af, hs'.hl, hs'.de, hs'.bc, hs'.sp, hs'.ip, hs'.cy, hs'.size⟩,
      by rw [hu'.stack, hu13.stack, hk12], by rw [hu'.r14, hu13.r14, h14]⟩
  refine ⟨_, hdecD, ?_⟩
  intro β B _ g fuel st st' hsim hpc _ _ hrun
  rw [hbytesD] at hrun
  rw [hopD]
  show ∃ g' m', runOp B (.LoadToIndirect .HLDecrement .A) g st.bus 1 = .ok (g', m', STATUS_NORMAL) ∧ Sim { g' with cycles := g'.cycles + 8 / 4 } st' ∧ _
  rw [show (8 : Nat) / 4 = 2 from rfl]
  obtain ⟨k, hk65⟩ : ∃ k : Nat, k = 65535 := ⟨_, rfl⟩
  obtain ⟨hwr, hs', hk, h14⟩ := main true k (by rw [hk65]; rfl) β B g fuel st st' hsim hpc hrun
  rw [runOp_st_loc]
  simp only [indirectReg, bind, Except.bind, hwr]
  have hX := std_arith g.hl k hk65
  generalize u32 (g.hl + 4294967295) &&& 0xffff = X at hX ⊢
  exact ⟨_, _, rfl, std_B g st' k X hX hs', rfl, hk, h14⟩

end GbVerif.X86
