import GbVerif.Proofs.X86SimMem
/-!
# The data side of LD (HL),n (0x36)

`stBody` with the source byte taken from the instruction's operand token (`mov dl, imm8`) instead of a guest register: the same
helper call, the same restores; the operand byte is read from the state's `op1` field, which pushes and moves leave alone.
-/
namespace GbVerif.X86
open GbVerif.JitCycles GbVerif.Interp
variable {β : Type}

theorem step_push_op1 (B : BusOps β) (s s1 : St β) (r len : Nat) (h : step B s (.push r) len = .ok s1) : s1.op1 = s.op1 := by
  simp only [step] at h
  injection h with h
  subst h
  rfl

theorem step_movq_op1 (B : BusOps β) (s s1 : St β) (d src len : Nat) (h : step B s (.mov .q d src) len = .ok s1) : s1.op1 = s.op1 := by
  simp only [step] at h
  injection h with h
  subst h
  rfl

theorem step_movabs_op1 (B : BusOps β) (s s1 : St β) (d p len : Nat) (h : step B s (.movabs d p) len = .ok s1) : s1.op1 = s.op1 := by
  simp only [step] at h
  injection h with h
  subst h
  rfl

def stiBody (addr : Nat) : List (Nat × Instr) :=
  [(0, Instr.push 0), (1, Instr.push 1), (2, Instr.push 2), (3, Instr.mov Size.q 6 addr), (6, Instr.movabs 7 512),
   (16, Instr.mov8i (R8.lo 2) 256), (18, Instr.aluI AluOp.and Size.q 2 [255, 0, 0, 0] false), (25, Instr.movabs 0 514),
   (35, Instr.callRax), (37, Instr.pop 2), (38, Instr.pop 1), (39, Instr.pop 0)]

theorem sti_body (B : BusOps β) (addr : Nat) (areg : Reg16) (nv : Nat) (hv : nv < 256) (g : Regs) (st s12 : St β) (hs : Sim g st) (hop : st.op1 = nv)
    (hareg : (get st addr).toNat % 65536 = getReg16 g areg)
    (hex : execList B 40 (stiBody addr) st = .ok s12) :
    B.write st.bus (getReg16 g areg) nv = .ok s12.bus ∧ Sim g s12 ∧ s12.stack = st.stack ∧ get s12 14 = get st 14 := by
  unfold stiBody at hex
  obtain ⟨s1, h1, hex⟩ := execList_cons B _ _ _ _ _ _ hex
  obtain ⟨s2, h2, hex⟩ := execList_cons B _ _ _ _ _ _ hex
  obtain ⟨s3, h3, hex⟩ := execList_cons B _ _ _ _ _ _ hex
  obtain ⟨s4, h4, hex⟩ := execList_cons B _ _ _ _ _ _ hex
  obtain ⟨s5, h5, hex⟩ := execList_cons B _ _ _ _ _ _ hex
  obtain ⟨s6, h6, hex⟩ := execList_cons B _ _ _ _ _ _ hex
  obtain ⟨s7, h7, hex⟩ := execList_cons B _ _ _ _ _ _ hex
  obtain ⟨s8, h8, hex⟩ := execList_cons B _ _ _ _ _ _ hex
  obtain ⟨s9, h9, hex⟩ := execList_cons B _ _ _ _ _ _ hex
  obtain ⟨s10, h10, hex⟩ := execList_cons B _ _ _ _ _ _ hex
  obtain ⟨s11, h11, hex⟩ := execList_cons B _ _ _ _ _ _ hex
  obtain ⟨s13, h12, hex⟩ := execList_cons B _ _ _ _ _ _ hex
  have := execList_nil B _ _ _ hex
  subst this
  have hsz := hs.size
  obtain ⟨r1, k1, b1, z1⟩ := step_push B st s1 0 _ h1
  obtain ⟨r2, k2, b2, z2⟩ := step_push B s1 s2 1 _ h2
  obtain ⟨r3, k3, b3, z3⟩ := step_push B s2 s3 2 _ h3
  have R3 : ∀ j, get s3 j = get st j := fun j => by rw [r3, r2, r1]
  have K3 : s3.stack = get st 2 :: get st 1 :: get st 0 :: st.stack := by rw [k3, k2, k1, r2 2, r1 2, r1 1]
  have Z3 : s3.r.size = 16 := by rw [z3, z2, z1]; exact hsz
  obtain ⟨v4, r4, k4, b4, z4⟩ := step_movq B s3 s4 6 addr _ (by omega) h4
  obtain ⟨v5, r5, k5, b5, z5⟩ := step_movabs B s4 s5 7 512 _ (by omega) h5
  have Z5 : s5.r.size = 16 := by rw [z5, z4]; exact Z3
  have R5 : ∀ j, 6 ≠ j → 7 ≠ j → get s5 j = get st j := fun j h6' h7' => by rw [r5 j h7', r4 j h6', R3]
  -- mov dl, imm
  have O5 : s5.op1 = st.op1 := by
    rw [step_movabs_op1 B _ _ _ _ _ h5, step_movq_op1 B _ _ _ _ _ h4, step_push_op1 B _ _ _ _ h3, step_push_op1 B _ _ _ _ h2, step_push_op1 B _ _ _ _ h1]
  have e6 : ∀ len, step B s5 (.mov8i (R8.lo 2) 256) len = .ok (set8 ({ s5 with pc := s5.pc + len } : St β) (R8.lo 2) s5.op1) := fun _ => rfl
  rw [e6] at h6
  injection h6 with h6
  rw [O5, hop] at h6
  have x6 : (get s6 2).toNat % 256 = nv := by
    rw [← h6, toNat_set8_lo _ _ _ (by show 2 < s5.r.size; omega)]
    have := (get s5 2).isLt
    show ((get s5 2).toNat - (get s5 2).toNat % 256 + nv % 256) % 2 ^ 64 % 256 = _
    omega
  have r6 : ∀ j, 2 ≠ j → get s6 j = get s5 j := by
    intro j hj; rw [← h6, get_set8_ne _ _ _ _ (by simpa [r8reg] using hj)]; rfl
  have k6 : s6.stack = s5.stack := by rw [← h6, stack_set8]
  have b6 : s6.bus = s5.bus := by rw [← h6, bus_set8]
  have z6 : s6.r.size = 16 := by rw [← h6, size_set8]; exact Z5
  obtain ⟨x7, r7, k7, b7, z7⟩ := step_mask_q8 B s6 s7 2 _ (by decide) z6 h7
  obtain ⟨v8, r8, k8, b8, z8⟩ := step_movabs B s7 s8 0 514 _ (by omega) h8
  have Z8 : s8.r.size = 16 := by rw [z8]; exact z7
  have a6 : get s8 6 = get st addr := by rw [r8 6 (by decide), r7 6 (by decide), r6 6 (by decide), r5 6 (by decide), v4, R3]
  have a2 : (get s8 2).toNat % 256 = nv := by rw [r8 2 (by decide), x7, x6]; exact Nat.mod_eq_of_lt hv
  obtain ⟨hwr, k9, Z9, r9⟩ := step_call_write B s8 s9 _ Z8 v8 h9
  have haddr : (get s8 6).toNat % 65536 = getReg16 g areg := by rw [a6]; exact hareg
  have B8 : s8.bus = st.bus := by rw [b8, b7, b6, b5, b4, b3, b2, b1]
  rw [haddr, a2, B8] at hwr
  have K9 : s9.stack = get st 2 :: get st 1 :: get st 0 :: st.stack := by rw [k9, k8, k7, k6, k5, k4]; exact K3
  obtain ⟨w10, t10, e10, k10, g10, q10, b10, z10⟩ := step_pop B s9 s10 2 _ (by rw [Z9]; decide) h10
  obtain ⟨w11, t11, e11, k11, g11, q11, b11, z11⟩ := step_pop B s10 s11 1 _ (by rw [z10, Z9]; decide) h11
  obtain ⟨w12, t12, e12, k12, g12, q12, b12, z12⟩ := step_pop B s11 s12 0 _ (by rw [z11, z10, Z9]; decide) h12
  rw [K9] at e10
  obtain ⟨a10, e10⟩ := List.cons.inj e10
  rw [k10, ← e10] at e11
  obtain ⟨a11, e11⟩ := List.cons.inj e11
  rw [k11, ← e11] at e12
  obtain ⟨a12, e12⟩ := List.cons.inj e12
  have G2 : get s12 2 = get st 2 := by rw [q12 2 (by decide), q11 2 (by decide), g10]; exact a10.symm
  have G1 : get s12 1 = get st 1 := by rw [q12 1 (by decide), g11]; exact a11.symm
  have G0 : get s12 0 = get st 0 := by rw [g12]; exact a12.symm
  have Rrest : ∀ j, j ∉ [0, 1, 2, 6, 7, 8, 9, 10, 11] → get s12 j = get st j := by
    intro j hj
    rw [q12 j (fun e => hj (by rw [← e]; simp)), q11 j (fun e => hj (by rw [← e]; simp)), q10 j (fun e => hj (by rw [← e]; simp)),
      r9 j hj, r8 j (fun e => hj (by rw [← e]; simp)), r7 j (fun e => hj (by rw [← e]; simp)), r6 j (fun e => hj (by rw [← e]; simp)),
      R5 j (fun e => hj (by rw [← e]; simp)) (fun e => hj (by rw [← e]; simp))]
  refine ⟨by rw [b12, b11, b10]; exact hwr, ⟨?_, ?_, ?_, ?_, ?_, ?_, ?_, ?_⟩, by rw [k12]; exact e12.symm, Rrest 14 (by decide)⟩
  · rw [G0]; exact hs.af
  · rw [G1]; exact hs.hl
  · rw [G2]; exact hs.de
  · rw [Rrest 3 (by decide)]; exact hs.bc
  · rw [Rrest 12 (by decide)]; exact hs.sp
  · rw [Rrest 13 (by decide)]; exact hs.ip
  · rw [Rrest 15 (by decide)]; exact hs.cy
  · rw [z12, z11, z10]; exact Z9

theorem straight_stiBody (addr : Nat) : straight (stiBody addr) := by
  intro p hp
  simp only [stiBody, List.mem_cons, List.not_mem_nil, or_false] at hp
  rcases hp with e | e | e | e | e | e | e | e | e | e | e | e <;> subst e <;>
    exact ⟨fun _ _ e => Instr.noConfusion e, fun _ e => Instr.noConfusion e⟩

theorem table_sthli (b1 b2 : Nat) :
    decodeCode (Gen.emitOp 0x36) = some (stiBody 1 ++ [(40, addIp 2), (44, addCy 3)]) ∧ bytesOf (Gen.emitOp 0x36) = 48 ∧
      Gen.decode 0x36 b1 b2 = (.LoadImmediateToHLIndirect b1, 2, 12) :=
  ⟨by decide +kernel, by decide +kernel, rfl⟩

/-- **LD (HL),n** (every operand byte) -/
theorem sim_sthli (b1 b2 : Nat) (hb1 : b1 < 256) : SimulatesMem 0x36 b1 b2 := by
  obtain ⟨hdec, hbytes, hop⟩ := table_sthli b1 b2
  refine ⟨_, hdec, ?_⟩
  intro β B _ g fuel st st' hsim hpc hop1 _ hrun
  rw [hbytes] at hrun
  rw [hop]
  show ∃ g' m', runOp B (.LoadImmediateToHLIndirect b1) g st.bus 2 = .ok (g', m', STATUS_NORMAL) ∧ Sim { g' with cycles := g'.cycles + 12 / 4 } st' ∧ _
  rw [show (12 : Nat) / 4 = 3 from rfl]
  have hex := run_execList B _ 48 rfl (straight_app (straight_stiBody 1) (tail_straight 40 44 2 3)) 14 0 rfl fuel st st' (by rw [hpc]; rfl) hrun
  rw [List.drop_zero] at hex
  obtain ⟨s12, hb, ht⟩ := execList_append B 48 _ (stiBody 1) st st' hex
  obtain ⟨hwr, hs12, hk12, h14⟩ := sti_body B 1 .HL b1 hb1 g st s12 hsim hop1 hsim.hl hb
  obtain ⟨hs', hu'⟩ := sim_tail B hs12 40 44 48 2 3 (by decide) (by decide) ht
  refine ⟨advance g 2, s12.bus, ?_, ⟨hs'.af, hs'.hl, hs'.de, hs'.bc, hs'.sp, hs'.ip, hs'.cy, hs'.size⟩,
    hu'.bus, by rw [hu'.stack, hk12], by rw [hu'.r14, h14]⟩
  show (do let m ← B.write st.bus (getReg16 g .HL) b1; _) = _
  simp only [bind, Except.bind, hwr]

end GbVerif.X86
