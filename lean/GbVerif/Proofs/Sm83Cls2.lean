import GbVerif.Proofs.Sm83Rel
import GbVerif.Proofs.Sm83Rot
import GbVerif.Proofs.Sm83Misc
/-!
Opcode classes, part 2: loads/stores through the bus, read-modify-write on (HL), LD (nn),SP, PUSH / POP.
-/
namespace GbVerif.C05
open GbVerif.Interp GbVerif.Sm83Bits
open GbVerif.SM83 (Cpu mkF flagZ flagN flagH flagC Outcome)

variable {β : Type} {B : BusOps β} {b0 b1 b2 : Nat}

/-! ### loads from memory -/

/-- LD r,(HL) -/
theorem cls_ld_r_hl (hB : ByteBus B) (reg : Reg8) (len clk cyc : Nat)
    (hd : Gen.decode b0 b1 b2 = (Op.LoadFromIndirect reg .HL, len, clk))
    (hs : ∀ c m, SM83.step (memOf B) c m b0 b1 b2 =
      (B.read m (SM83.hl c)).bind fun v => .ok (SM83.next (SM83.setR c (idx reg) v) len, m, cyc, .normal))
    (hclk : clk / 4 = cyc) : Refines B b0 b1 b2 :=
  cls_read hB _ len clk cyc (fun r => getReg16 r .HL) SM83.hl (fun v r => setReg r reg v) (fun v c => SM83.setR c (idx reg) v)
    hd hs (fun _ _ => rfl) hclk (fun c k hc => getHL_conc hc k)
    (fun v c k hv hc => ⟨setReg_conc hc k reg v hv, cwf_setR hc _ _ hv⟩)

/-- LD A,(BC) / LD A,(DE) -/
theorem cls_ld_a_ind (hB : ByteBus B) (op : Op) (rp : Reg16) (hrp : rp ≠ .AF) (len clk cyc : Nat)
    (hd : Gen.decode b0 b1 b2 = (op, len, clk))
    (hrun : ∀ r m, runOp B op r m len =
      (B.read m (getReg16 r rp)).bind fun v => .ok (advance (setReg r .A v) len, m, STATUS_NORMAL))
    (hs : ∀ c m, SM83.step (memOf B) c m b0 b1 b2 =
      (B.read m (SM83.getRP c (idx16 rp))).bind fun v => .ok (SM83.next { c with a := v } len, m, cyc, .normal))
    (hclk : clk / 4 = cyc) : Refines B b0 b1 b2 :=
  cls_read hB op len clk cyc (fun r => getReg16 r rp) (fun c => SM83.getRP c (idx16 rp)) (fun v r => setReg r .A v)
    (fun v c => { c with a := v })
    hd hs hrun hclk (fun c k hc => getReg16_conc hc k rp hrp)
    (fun v c k hv hc => ⟨setReg_conc hc k .A v hv, cwf_setA hc _ hv⟩)

/-- LD A,(HL+) / LD A,(HL-): `d` is the interpreter's u32 step, `D` the SM83 16-bit step -/
theorem cls_ld_a_hlstep (hB : ByteBus B) (d D : Nat) (hdD : ∀ x, (x + d) % 65536 = (x + D) % 65536) (op : Op) (len clk cyc : Nat)
    (hd : Gen.decode b0 b1 b2 = (op, len, clk))
    (hrun : ∀ r m, runOp B op r m len =
      (B.read m (getReg16 r .HL)).bind fun v =>
        .ok (advance { setReg r .A v with hl := u32 ((setReg r .A v).hl + d) &&& 0xffff } len, m, STATUS_NORMAL))
    (hs : ∀ c m, SM83.step (memOf B) c m b0 b1 b2 =
      (B.read m (SM83.hl c)).bind fun v =>
        .ok (SM83.next { SM83.setHL c ((SM83.hl c + D) % 65536) with a := v } len, m, cyc, .normal))
    (hclk : clk / 4 = cyc) : Refines B b0 b1 b2 :=
  cls_read hB op len clk cyc (fun r => getReg16 r .HL) SM83.hl
    (fun v r => { setReg r .A v with hl := u32 ((setReg r .A v).hl + d) &&& 0xffff })
    (fun v c => { SM83.setHL c ((SM83.hl c + D) % 65536) with a := v })
    hd hs hrun hclk (fun c k hc => getHL_conc hc k)
    (fun v c k hv hc => by
      have hc2 := cwf_setA hc v hv
      show { setReg (conc c k) .A v with hl := u32 ((setReg (conc c k) .A v).hl + d) &&& 0xffff } = _ ∧ _
      rw [setReg_conc hc k .A v hv]
      simp only [idx, SM83.setR]
      rw [hlStep_conc hc2 k d, hdD]
      exact ⟨rfl, cwf_setHL hc2 _⟩)

/-- LDH A,(n) / LD A,(nn): absolute address -/
theorem cls_ld_a_abs (hB : ByteBus B) (addrM addrS : Nat) (flag : Bool) (len clk cyc : Nat)
    (hd : Gen.decode b0 b1 b2 = (Op.LoadAFromMemory addrM flag, len, clk))
    (hs : ∀ c m, SM83.step (memOf B) c m b0 b1 b2 =
      (B.read m addrS).bind fun v => .ok (SM83.next { c with a := v } len, m, cyc, .normal))
    (haddr : addrM = addrS) (hclk : clk / 4 = cyc) : Refines B b0 b1 b2 :=
  cls_read hB _ len clk cyc (fun _ => addrM) (fun _ => addrS) (fun v r => setReg r .A v) (fun v c => { c with a := v })
    hd hs (fun _ _ => rfl) hclk (fun _ _ _ => haddr)
    (fun v c k hv hc => ⟨setReg_conc hc k .A v hv, cwf_setA hc _ hv⟩)

theorem high_c {c : Cpu} (hc : CWF c) (k : Nat) : 0xff00 ||| getReg (conc c k) .C = 0xff00 + c.c := by
  rw [getReg_conc hc]; exact or_lo 255 _ hc.hc

/-- LD A,(FF00+C) -/
theorem cls_ld_a_c (hB : ByteBus B) (len clk cyc : Nat)
    (hd : Gen.decode b0 b1 b2 = (Op.LoadFromHighMem, len, clk))
    (hs : ∀ c m, SM83.step (memOf B) c m b0 b1 b2 =
      (B.read m (0xff00 + c.c)).bind fun v => .ok (SM83.next { c with a := v } len, m, cyc, .normal))
    (hclk : clk / 4 = cyc) : Refines B b0 b1 b2 :=
  cls_read hB _ len clk cyc (fun r => 0xff00 ||| getReg r .C) (fun c => 0xff00 + c.c) (fun v r => setReg r .A v)
    (fun v c => { c with a := v })
    hd hs (fun _ _ => rfl) hclk (fun c k hc => high_c hc k)
    (fun v c k hv hc => ⟨setReg_conc hc k .A v hv, cwf_setA hc _ hv⟩)

/-- BIT y,(HL) -/
theorem cls_cb_bit_hl (hB : ByteBus B) (mask y len clk cyc : Nat)
    (hd : Gen.decode b0 b1 b2 = (Op.BitTestIndirect mask, len, clk))
    (hs : ∀ c m, SM83.step (memOf B) c m b0 b1 b2 =
      (B.read m (SM83.hl c)).bind fun v =>
        .ok (SM83.next { c with f := mkF (decide (v / 2 ^ y % 2 = 0)) false true (flagC c.f) } len, m, cyc, .normal))
    (hm : mask = 2 ^ y) (hclk : clk / 4 = cyc) : Refines B b0 b1 b2 :=
  cls_read hB _ len clk cyc (fun r => getReg16 r .HL) SM83.hl
    (fun v r => testZero (orF (applyMask r 0xe0) 0x20) (v &&& mask))
    (fun v c => { c with f := mkF (decide (v / 2 ^ y % 2 = 0)) false true (flagC c.f) })
    hd hs (fun _ _ => rfl) hclk (fun c k hc => getHL_conc hc k)
    (fun v c k _ hc => by subst hm; rw [bitFlags_conc hc]; exact ⟨rfl, cwf_mkF hc ..⟩)

/-! ### stores -/

theorem writeR6 (M : SM83.Mem β) (s : Cpu) (m : β) (v : Nat) :
    SM83.writeR M s m 6 v = (M.write m (SM83.hl s) v).bind fun m' => .ok (s, m') := rfl

/-- LD (HL),r and LD (HL),n: a byte written through `r[6]` -/
theorem cls_writeR (op : Op) (len clk cyc : Nat) (vm : Regs → Nat) (vs : Cpu → Nat)
    (hd : Gen.decode b0 b1 b2 = (op, len, clk))
    (hrun : ∀ r m, runOp B op r m len =
      (B.write m (getReg16 r .HL) (vm r)).bind fun m' => .ok (advance r len, m', STATUS_NORMAL))
    (hs : ∀ c m, SM83.step (memOf B) c m b0 b1 b2 =
      (SM83.writeR (memOf B) c m 6 (vs c)).bind fun x => .ok (SM83.next x.1 len, x.2, cyc, .normal))
    (hclk : clk / 4 = cyc)
    (hv : ∀ c k, CWF c → vm (conc c k) = vs c) : Refines B b0 b1 b2 := by
  intro c k m hc
  rw [hs, stepModel_eq B b0 b1 b2 _ m op len clk hd, hrun, getHL_conc hc, hv c k hc, writeR6]
  subst hclk
  show Rel k _ (((B.write m (SM83.hl c) (vs c)).bind fun m' => .ok (c, m')).bind _)
  cases hw : B.write m (SM83.hl c) (vs c) with
  | error e => simp only [Except.bind, Except.map, Rel]
  | ok m' =>
    simp only [Except.bind, Except.map, Rel, finish_advance]
    exact ⟨cwf_next hc len, rfl⟩

/-- LD (BC),A / LD (DE),A -/
theorem cls_st_a_ind (op : Op) (rp : Reg16) (hrp : rp ≠ .AF) (len clk cyc : Nat)
    (hd : Gen.decode b0 b1 b2 = (op, len, clk))
    (hrun : ∀ r m, runOp B op r m len =
      (B.write m (getReg16 r rp) (getReg r .A)).bind fun m' => .ok (advance r len, m', STATUS_NORMAL))
    (hs : ∀ c m, SM83.step (memOf B) c m b0 b1 b2 =
      (B.write m (SM83.getRP c (idx16 rp)) c.a).bind fun m' => .ok (SM83.next c len, m', cyc, .normal))
    (hclk : clk / 4 = cyc) : Refines B b0 b1 b2 :=
  cls_write op len clk cyc (fun r => getReg16 r rp) (fun c => SM83.getRP c (idx16 rp)) (fun r => getReg r .A) (fun c => c.a) id id
    hd hs hrun hclk (fun c k hc => ⟨getReg16_conc hc k rp hrp, getReg_conc hc k .A⟩) (fun _ _ hc => ⟨rfl, hc⟩)

/-- LD (HL+),A / LD (HL-),A -/
theorem cls_st_a_hlstep (d D : Nat) (hdD : ∀ x, (x + d) % 65536 = (x + D) % 65536) (op : Op) (len clk cyc : Nat)
    (hd : Gen.decode b0 b1 b2 = (op, len, clk))
    (hrun : ∀ r m, runOp B op r m len =
      (B.write m (getReg16 r .HL) (getReg r .A)).bind fun m' =>
        .ok (advance { r with hl := u32 (r.hl + d) &&& 0xffff } len, m', STATUS_NORMAL))
    (hs : ∀ c m, SM83.step (memOf B) c m b0 b1 b2 =
      (B.write m (SM83.hl c) c.a).bind fun m' => .ok (SM83.next (SM83.setHL c ((SM83.hl c + D) % 65536)) len, m', cyc, .normal))
    (hclk : clk / 4 = cyc) : Refines B b0 b1 b2 :=
  cls_write op len clk cyc (fun r => getReg16 r .HL) SM83.hl (fun r => getReg r .A) (fun c => c.a)
    (fun r => { r with hl := u32 (r.hl + d) &&& 0xffff }) (fun c => SM83.setHL c ((SM83.hl c + D) % 65536))
    hd hs hrun hclk (fun c k hc => ⟨getHL_conc hc k, getReg_conc hc k .A⟩)
    (fun c k hc => by rw [hlStep_conc hc k d, hdD]; exact ⟨rfl, cwf_setHL hc _⟩)

/-- LDH (n),A / LD (nn),A -/
theorem cls_st_a_abs (addrM addrS : Nat) (flag : Bool) (len clk cyc : Nat)
    (hd : Gen.decode b0 b1 b2 = (Op.LoadAToMemory addrM flag, len, clk))
    (hs : ∀ c m, SM83.step (memOf B) c m b0 b1 b2 =
      (B.write m addrS c.a).bind fun m' => .ok (SM83.next c len, m', cyc, .normal))
    (haddr : addrM = addrS) (hclk : clk / 4 = cyc) : Refines B b0 b1 b2 :=
  cls_write _ len clk cyc (fun _ => addrM) (fun _ => addrS) (fun r => getReg r .A) (fun c => c.a) id id
    hd hs (fun _ _ => rfl) hclk (fun c k hc => ⟨haddr, getReg_conc hc k .A⟩) (fun _ _ hc => ⟨rfl, hc⟩)

/-- LD (FF00+C),A -/
theorem cls_st_a_c (len clk cyc : Nat)
    (hd : Gen.decode b0 b1 b2 = (Op.LoadToHighMem, len, clk))
    (hs : ∀ c m, SM83.step (memOf B) c m b0 b1 b2 =
      (B.write m (0xff00 + c.c) c.a).bind fun m' => .ok (SM83.next c len, m', cyc, .normal))
    (hclk : clk / 4 = cyc) : Refines B b0 b1 b2 :=
  cls_write _ len clk cyc (fun r => 0xff00 ||| getReg r .C) (fun c => 0xff00 + c.c) (fun r => getReg r .A) (fun c => c.a) id id
    hd hs (fun _ _ => rfl) hclk (fun c k hc => ⟨high_c hc k, getReg_conc hc k .A⟩) (fun _ _ hc => ⟨rfl, hc⟩)

/-- LD (nn),SP: low byte at nn, high byte at nn+1 -/
theorem cls_ld_nn_sp (hb1 : b1 < 256) (hb2 : b2 < 256) (len clk cyc : Nat)
    (hd : Gen.decode b0 b1 b2 = (Op.LoadStackPointerToMemory (b1 + 256 * b2), len, clk))
    (hs : ∀ c m, SM83.step (memOf B) c m b0 b1 b2 =
      (B.write m (b2 * 256 + b1) (c.sp % 256)).bind fun m1 =>
        (B.write m1 ((b2 * 256 + b1 + 1) % 65536) (c.sp / 256)).bind fun m2 => .ok (SM83.next c len, m2, cyc, .normal))
    (hclk : clk / 4 = cyc) : Refines B b0 b1 b2 := by
  intro c k m hc
  have hrun : runOp B (Op.LoadStackPointerToMemory (b1 + 256 * b2)) (conc c k) m len =
      (B.write m (b1 + 256 * b2) (getReg16 (conc c k) .SP &&& 0xff)).bind fun m1 =>
        (B.write m1 (u16 (b1 + 256 * b2 + 1)) (getReg16 (conc c k) .SP >>> 8)).bind fun m2 =>
          .ok (advance (conc c k) len, m2, STATUS_NORMAL) := rfl
  have e : b1 + 256 * b2 = b2 * 256 + b1 := by omega
  rw [hs, stepModel_eq B b0 b1 b2 _ m _ len clk hd, hrun, getSP_conc hc, and_ff, shr8, e, u16]
  subst hclk
  cases h1 : B.write m (b2 * 256 + b1) (c.sp % 256) with
  | error e => simp only [Except.bind, Except.map, Rel]
  | ok m1 =>
    simp only [Except.bind]
    cases h2 : B.write m1 ((b2 * 256 + b1 + 1) % 65536) (c.sp / 256) with
    | error e => simp only [Except.map, Rel]
    | ok m2 =>
      simp only [Except.map, Rel, finish_advance]
      exact ⟨cwf_next hc len, rfl⟩

/-! ### read-modify-write on (HL) -/

theorem cls_rmw (hB : ByteBus B) (op : Op) (len clk cyc : Nat)
    (F : Nat → Regs → Nat × Regs) (S : Cpu → Cpu) (gv : Nat → Cpu → Nat) (P : Cpu → Nat → Cpu → Cpu) (g : Nat → Cpu → Cpu)
    (hd : Gen.decode b0 b1 b2 = (op, len, clk))
    (hrun : ∀ r m, runOp B op r m len = (rmwHL B r m F).bind fun x => .ok (advance x.1 len, x.2, STATUS_NORMAL))
    (hs : ∀ c m, SM83.step (memOf B) c m b0 b1 b2 =
      (B.read m (SM83.hl c)).bind fun v => (SM83.writeR (memOf B) (S c) m 6 (gv v c)).bind fun x =>
        .ok (P c v x.1, x.2, cyc, .normal))
    (hclk : clk / 4 = cyc)
    (hS : ∀ c, SM83.hl (S c) = SM83.hl c) (hP : ∀ v c, P c v (S c) = SM83.next (g v c) len)
    (hfg : ∀ v c k, v < 256 → CWF c → F v (conc c k) = (gv v c, conc (g v c) k) ∧ CWF (g v c)) : Refines B b0 b1 b2 := by
  intro c k m hc
  rw [hs, stepModel_eq B b0 b1 b2 _ m op len clk hd, hrun]
  subst hclk
  simp only [rmwHL, getHL_conc hc, bind, Except.bind, writeR6, hS]
  cases hr : B.read m (SM83.hl c) with
  | error e => simp only [Except.map, Rel]
  | ok v =>
    obtain ⟨e, w⟩ := hfg v c k (hB _ _ _ hr) hc
    simp only [e]
    show Rel k _ (Except.bind (Except.bind (B.write m (SM83.hl c) (gv v c)) _) _)
    cases hw : B.write m (SM83.hl c) (gv v c) with
    | error e => simp only [Except.map, Rel, Except.bind]
    | ok m' =>
      simp only [Except.map, Rel, finish_advance, pure, Except.pure, Except.bind, hP]
      exact ⟨cwf_next w len, rfl⟩

private theorem m256 (x : Nat) : x % 256 < 256 := Nat.mod_lt _ (by decide)

/-- INC (HL) -/
theorem cls_inc_hl (hB : ByteBus B) (len clk cyc : Nat)
    (hd : Gen.decode b0 b1 b2 = (Op.IncrementHLIndirect, len, clk))
    (hs : ∀ c m, SM83.step (memOf B) c m b0 b1 b2 =
      (B.read m (SM83.hl c)).bind fun v => (SM83.writeR (memOf B) c m 6 ((v + 1) % 256)).bind fun x =>
        .ok (SM83.next { x.1 with f := mkF (decide ((v + 1) % 256 = 0)) false (decide (v % 16 = 15)) (flagC x.1.f) } len,
          x.2, cyc, .normal))
    (hclk : clk / 4 = cyc) : Refines B b0 b1 b2 :=
  cls_rmw hB _ len clk cyc (fun v r => ((carryAdd v 1).1, incFlags v r)) id (fun v _ => (v + 1) % 256)
    (fun _ v s => SM83.next { s with f := mkF (decide ((v + 1) % 256 = 0)) false (decide (v % 16 = 15)) (flagC s.f) } len)
    (fun v c => { c with f := mkF (decide ((v + 1) % 256 = 0)) false (decide (v % 16 = 15)) (flagC c.f) })
    hd (fun _ _ => rfl) hs hclk (fun _ => rfl) (fun _ _ => rfl)
    (fun v c k _ hc => by rw [carryAdd1, incFlags_conc hc]; exact ⟨rfl, cwf_mkF hc ..⟩)

/-- DEC (HL) -/
theorem cls_dec_hl (hB : ByteBus B) (len clk cyc : Nat)
    (hd : Gen.decode b0 b1 b2 = (Op.DecrementHLIndirect, len, clk))
    (hs : ∀ c m, SM83.step (memOf B) c m b0 b1 b2 =
      (B.read m (SM83.hl c)).bind fun v => (SM83.writeR (memOf B) c m 6 ((v + 255) % 256)).bind fun x =>
        .ok (SM83.next { x.1 with f := mkF (decide ((v + 255) % 256 = 0)) true (decide (v % 16 = 0)) (flagC x.1.f) } len,
          x.2, cyc, .normal))
    (hclk : clk / 4 = cyc) : Refines B b0 b1 b2 :=
  cls_rmw hB _ len clk cyc (fun v r => ((carrySub v 1).1, decFlags v r)) id (fun v _ => (v + 255) % 256)
    (fun _ v s => SM83.next { s with f := mkF (decide ((v + 255) % 256 = 0)) true (decide (v % 16 = 0)) (flagC s.f) } len)
    (fun v c => { c with f := mkF (decide ((v + 255) % 256 = 0)) true (decide (v % 16 = 0)) (flagC c.f) })
    hd (fun _ _ => rfl) hs hclk (fun _ => rfl) (fun _ _ => rfl)
    (fun v c k hv hc => by rw [carrySub1 v hv, decFlags_conc hc k v hv]; exact ⟨rfl, cwf_mkF hc ..⟩)

/-- CB rotate / shift / swap on (HL) -/
theorem cls_cb_rot_hl (hB : ByteBus B) (y : Nat) (hy : y < 8) (op : Op) (len clk cyc : Nat)
    (hd : Gen.decode b0 b1 b2 = (op, len, clk))
    (hrun : ∀ r m, runOp B op r m len =
      (rmwHL B r m fun v r => ((rotModel y v r.af).1, flagsRot r (rotModel y v r.af) true)).bind fun x =>
        .ok (advance x.1 len, x.2, STATUS_NORMAL))
    (hs : ∀ c m, SM83.step (memOf B) c m b0 b1 b2 =
      (B.read m (SM83.hl c)).bind fun v => (SM83.writeR (memOf B) (SM83.next c len) m 6 (SM83.rot c.f y v).1).bind fun x =>
        .ok ({ x.1 with f := (SM83.rot c.f y v).2 }, x.2, cyc, .normal))
    (hclk : clk / 4 = cyc) : Refines B b0 b1 b2 :=
  cls_rmw hB op len clk cyc (fun v r => ((rotModel y v r.af).1, flagsRot r (rotModel y v r.af) true))
    (fun c => SM83.next c len) (fun v c => (SM83.rot c.f y v).1)
    (fun c v s => { s with f := (SM83.rot c.f y v).2 }) (fun v c => { c with f := (SM83.rot c.f y v).2 })
    hd hrun hs hclk (fun _ => rfl) (fun _ _ => rfl)
    (fun v c k hv hc => rotMem_conc hc k y v hy hv)

/-- RES y,(HL) -/
theorem cls_cb_res_hl (hB : ByteBus B) (mask y : Nat) (hy : y < 8) (len clk cyc : Nat)
    (hd : Gen.decode b0 b1 b2 = (Op.BitClearIndirect mask, len, clk))
    (hs : ∀ c m, SM83.step (memOf B) c m b0 b1 b2 =
      (B.read m (SM83.hl c)).bind fun v =>
        (SM83.writeR (memOf B) (SM83.next c len) m 6 (v - (v / 2 ^ y % 2) * 2 ^ y)).bind fun x => .ok (x.1, x.2, cyc, .normal))
    (hm : mask = 2 ^ y) (hclk : clk / 4 = cyc) : Refines B b0 b1 b2 :=
  cls_rmw hB _ len clk cyc (fun v r => (v &&& ((mask ^^^ 0xff) % 256), r))
    (fun c => SM83.next c len) (fun v _ => v - (v / 2 ^ y % 2) * 2 ^ y) (fun _ _ s => s) (fun _ c => c)
    hd (fun _ _ => rfl) hs hclk (fun _ => rfl) (fun _ _ => rfl)
    (fun v c k hv hc => by subst hm; rw [bit_clear v y hv hy]; exact ⟨rfl, hc⟩)

/-- SET y,(HL) -/
theorem cls_cb_set_hl (hB : ByteBus B) (mask y : Nat) (hy : y < 8) (len clk cyc : Nat)
    (hd : Gen.decode b0 b1 b2 = (Op.BitSetIndirect mask, len, clk))
    (hs : ∀ c m, SM83.step (memOf B) c m b0 b1 b2 =
      (B.read m (SM83.hl c)).bind fun v =>
        (SM83.writeR (memOf B) (SM83.next c len) m 6 (v + (1 - v / 2 ^ y % 2) * 2 ^ y)).bind fun x => .ok (x.1, x.2, cyc, .normal))
    (hm : mask = 2 ^ y) (hclk : clk / 4 = cyc) : Refines B b0 b1 b2 :=
  cls_rmw hB _ len clk cyc (fun v r => (v ||| mask, r))
    (fun c => SM83.next c len) (fun v _ => v + (1 - v / 2 ^ y % 2) * 2 ^ y) (fun _ _ s => s) (fun _ c => c)
    hd (fun _ _ => rfl) hs hclk (fun _ => rfl) (fun _ _ => rfl)
    (fun v c k hv hc => by subst hm; rw [bit_set v y hv hy]; exact ⟨rfl, hc⟩)

/-! ### PUSH / POP -/

theorem push16_eq (M : SM83.Mem β) (s : Cpu) (m : β) (v : Nat) :
    SM83.push16 M s m v =
      (M.write m ((s.sp + 65535) % 65536) (v / 256 % 256)).bind fun m1 =>
        (M.write m1 ((s.sp + 65534) % 65536) (v % 256)).bind fun m2 =>
          .ok ({ s with sp := (s.sp + 65534) % 65536 }, m2) := rfl

theorem pop16_eq (M : SM83.Mem β) (s : Cpu) (m : β) :
    SM83.pop16 M s m =
      (M.read m s.sp).bind fun lo => (M.read m ((s.sp + 1) % 65536)).bind fun hi =>
        .ok (hi * 256 + lo, { s with sp := (s.sp + 2) % 65536 }) := rfl

/-- PUSH rr: high byte at SP-1, low byte at SP-2, SP := SP-2 -/
theorem cls_push (reg : Reg16) (V : Cpu → Nat) (len clk cyc : Nat)
    (hd : Gen.decode b0 b1 b2 = (Op.Push reg, len, clk))
    (hs : ∀ c m, SM83.step (memOf B) c m b0 b1 b2 =
      (SM83.push16 (memOf B) c m (V c)).bind fun x => .ok (SM83.next x.1 len, x.2, cyc, .normal))
    (hclk : clk / 4 = cyc)
    (hV : ∀ c k, CWF c → getReg16 (conc c k) reg = V c) : Refines B b0 b1 b2 := by
  intro c k m hc
  have hrun : runOp B (Op.Push reg) (conc c k) m len =
      (push B (getReg16 (conc c k) reg) (conc c k) m).bind fun x => .ok (advance x.1 len, x.2, STATUS_NORMAL) := rfl
  rw [hs, stepModel_eq B b0 b1 b2 _ m _ len clk hd, hrun, hV c k hc, push_conc B hc, push16_eq]
  subst hclk
  show Rel k _ (Except.bind (Except.bind (B.write m ((c.sp + 65535) % 65536) (V c / 256 % 256)) _) _)
  cases h1 : B.write m ((c.sp + 65535) % 65536) (V c / 256 % 256) with
  | error e => simp only [Except.bind, Except.map, Rel]
  | ok m1 =>
    simp only [Except.bind]
    show Rel k _ (Except.bind (Except.bind (B.write m1 ((c.sp + 65534) % 65536) (V c % 256)) _) _)
    cases h2 : B.write m1 ((c.sp + 65534) % 65536) (V c % 256) with
    | error e => simp only [Except.bind, Except.map, Rel]
    | ok m2 =>
      simp only [Except.bind, Except.map, Rel, finish_advance]
      exact ⟨cwf_next (cwf_setSP hc _ (Nat.mod_lt _ (by decide))) len, rfl⟩

/-- POP rr: low byte from SP, high byte from SP+1, SP := SP+2; `G` places the 16-bit value -/
theorem cls_pop (hB : ByteBus B) (reg : Reg16) (G : Nat → Cpu → Cpu) (len clk cyc : Nat)
    (hd : Gen.decode b0 b1 b2 = (Op.Pop reg, len, clk))
    (hs : ∀ c m, SM83.step (memOf B) c m b0 b1 b2 =
      (SM83.pop16 (memOf B) c m).bind fun x => .ok (SM83.next (G x.1 x.2) len, m, cyc, .normal))
    (hclk : clk / 4 = cyc)
    (hG : ∀ v c k, v < 65536 → CWF c →
      setReg16 (conc c k) reg (if reg == .AF then v &&& 0xfff0 else v) = conc (G v c) k ∧ CWF (G v c)) :
    Refines B b0 b1 b2 := by
  intro c k m hc
  have hrun : runOp B (Op.Pop reg) (conc c k) m len =
      (pop B (conc c k) m).bind fun x =>
        .ok (advance (setReg16 x.2 reg (if reg == .AF then x.1 &&& 0xfff0 else x.1)) len, m, STATUS_NORMAL) := rfl
  rw [hs, stepModel_eq B b0 b1 b2 _ m _ len clk hd, hrun, pop_conc B hc, pop16_eq]
  subst hclk
  show Rel k _ (Except.bind (Except.bind (B.read m c.sp) _) _)
  cases h1 : B.read m c.sp with
  | error e => simp only [Except.bind, Except.map, Rel]
  | ok lo =>
    simp only [Except.bind]
    show Rel k _ (Except.bind (Except.bind (B.read m ((c.sp + 1) % 65536)) _) _)
    cases h2 : B.read m ((c.sp + 1) % 65536) with
    | error e => simp only [Except.bind, Except.map, Rel]
    | ok hi =>
      have hlo := hB _ _ _ h1
      have hhi := hB _ _ _ h2
      have hc2 := cwf_setSP hc ((c.sp + 2) % 65536) (Nat.mod_lt _ (by decide))
      obtain ⟨e, w⟩ := hG (hi * 256 + lo) _ k (by omega) hc2
      simp only [Except.bind, Except.map, Rel, pair_val hi lo hlo, e, finish_advance]
      exact ⟨cwf_next w len, rfl⟩

theorem pop_bc (v : Nat) (c : Cpu) (k : Nat) (hv : v < 65536) (hc : CWF c) :
    setReg16 (conc c k) .BC (if Reg16.BC == Reg16.AF then v &&& 0xfff0 else v) = conc { c with b := v / 256, c := v % 256 } k ∧
    CWF { c with b := v / 256, c := v % 256 } := by
  obtain ⟨ha, hf, hf0, hb, hc', hd, he, hh, hl, hsp, hpc⟩ := hc
  refine ⟨?_, ?_⟩
  · show setReg16 (conc c k) .BC v = _
    simp only [setReg16, conc, Regs.mk.injEq, true_and, and_true]; omega
  · constructor <;> first | assumption | (simp only []; omega)

theorem pop_de (v : Nat) (c : Cpu) (k : Nat) (hv : v < 65536) (hc : CWF c) :
    setReg16 (conc c k) .DE (if Reg16.DE == Reg16.AF then v &&& 0xfff0 else v) = conc { c with d := v / 256, e := v % 256 } k ∧
    CWF { c with d := v / 256, e := v % 256 } := by
  obtain ⟨ha, hf, hf0, hb, hc', hd, he, hh, hl, hsp, hpc⟩ := hc
  refine ⟨?_, ?_⟩
  · show setReg16 (conc c k) .DE v = _
    simp only [setReg16, conc, Regs.mk.injEq, true_and, and_true]; omega
  · constructor <;> first | assumption | (simp only []; omega)

theorem pop_hl (v : Nat) (c : Cpu) (k : Nat) (hv : v < 65536) (hc : CWF c) :
    setReg16 (conc c k) .HL (if Reg16.HL == Reg16.AF then v &&& 0xfff0 else v) = conc { c with h := v / 256, l := v % 256 } k ∧
    CWF { c with h := v / 256, l := v % 256 } := by
  obtain ⟨ha, hf, hf0, hb, hc', hd, he, hh, hl, hsp, hpc⟩ := hc
  refine ⟨?_, ?_⟩
  · show setReg16 (conc c k) .HL v = _
    simp only [setReg16, conc, Regs.mk.injEq, true_and, and_true]; omega
  · constructor <;> first | assumption | (simp only []; omega)

theorem and_f0 (x : Nat) (h : x < 256) : x &&& 0xf0 = x / 16 * 16 := by
  have := GbVerif.Enum.forall_lt_of_allRange (fun x => x &&& 0xf0 == x / 16 * 16) 8 (by decide +kernel) x h
  simpa using this

/-- POP AF: the low nibble of F is masked off -/
theorem pop_af (v : Nat) (c : Cpu) (k : Nat) (hv : v < 65536) (hc : CWF c) :
    setReg16 (conc c k) .AF (if Reg16.AF == Reg16.AF then v &&& 0xfff0 else v) =
      conc { c with a := v / 256, f := v % 256 / 16 * 16 } k ∧
    CWF { c with a := v / 256, f := v % 256 / 16 * 16 } := by
  obtain ⟨ha, hf, hf0, hb, hc', hd, he, hh, hl, hsp, hpc⟩ := hc
  have hm : v &&& 0xfff0 = v / 256 * 256 + v % 256 / 16 * 16 := by
    rw [and_split]
    simp only [Nat.reduceDiv, Nat.reduceMod, and_ff, and_f0 _ (Nat.mod_lt v (show 0 < 256 by decide))]
    omega
  refine ⟨?_, ?_⟩
  · show setReg16 (conc c k) .AF (v &&& 0xfff0) = _
    simp only [setReg16, conc, Regs.mk.injEq, true_and, and_true, hm]
  · constructor <;> first | assumption | (simp only []; omega)

end GbVerif.C05
