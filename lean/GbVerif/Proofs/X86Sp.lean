import GbVerif.Model.JitSp
import GbVerif.Proofs.X86Paths
import GbVerif.Proofs.X86Stack
/-
Soundness of the SP bookkeeping analysis (`JitSp.trSp`) for executions of the x86 model: the low 16 bits of r12.
-/
namespace GbVerif.X86
open GbVerif.JitCycles GbVerif.JitPaths GbVerif.JitSp
variable {β : Type}

theorem or_disjoint (q b k : Nat) (hb : b < 2 ^ k) : (q * 2 ^ k) ||| b = q * 2 ^ k + b := by
  rw [← Nat.shiftLeft_eq]
  exact (Nat.shiftLeft_add_eq_or_of_lt hb q).symm

def rol8 (v : Nat) : Nat := (v % 2 ^ 24) * 256 + v / 2 ^ 24
def ror8 (v : Nat) : Nat := (v % 256) * 2 ^ 24 + v / 256

theorem rol_eq (v : Nat) (fl : Flags) (hv : v < 2 ^ 32) : (shOp .rol 32 v 8 fl).1 = rol8 v := by
  have hs : (shOp .rol 32 v 8 fl).1 = (v * 2 ^ 8 % 2 ^ 32) ||| (v / 2 ^ (32 - 8)) := rfl
  rw [hs]
  have e : v * 2 ^ 8 % 2 ^ 32 = (v % 2 ^ 24) * 2 ^ 8 := by omega
  rw [e, or_disjoint _ _ 8 (by omega)]
  unfold rol8; omega

theorem ror_eq (v : Nat) (fl : Flags) (hv : v < 2 ^ 32) : (shOp .ror 32 v 8 fl).1 = ror8 v := by
  have hs : (shOp .ror 32 v 8 fl).1 = (v / 2 ^ 8) ||| (v * 2 ^ (32 - 8) % 2 ^ 32) := rfl
  rw [hs]
  have e : v * 2 ^ (32 - 8) % 2 ^ 32 = (v % 256) * 2 ^ 24 := by omega
  rw [e, Nat.or_comm, or_disjoint _ _ 24 (by omega)]
  unfold ror8; omega

theorem rol_ror (v : Nat) (hv : v < 2 ^ 32) : rol8 (ror8 v) = v := by unfold rol8 ror8; omega
theorem ror_rol (v : Nat) (hv : v < 2 ^ 32) : ror8 (rol8 v) = v := by unfold rol8 ror8; omega
theorem rol8_lt (v : Nat) (hv : v < 2 ^ 32) : rol8 v < 2 ^ 32 := by unfold rol8; omega
theorem ror8_lt (v : Nat) (hv : v < 2 ^ 32) : ror8 v < 2 ^ 32 := by unfold ror8; omega

theorem tokVal_small (t : St β) (n : Nat) (h : n < 256) : tokVal t n = n := by
  unfold tokVal
  have h1 : (n == 256) = false := by simp; omega
  have h2 : (n == 257) = false := by simp; omega
  simp only [h1, h2, Bool.false_eq_true, if_false]
  omega

set_option maxRecDepth 4000 in
/-- `sub r, n` (64-bit) with a literal `n < 128` -/
theorem step_sub_q (B : Interp.BusOps β) (s s' : St β) (r n len : Nat) (hr16 : r < 16) (hn : n < 128) (hs : s.r.size = 16)
    (h : step B s (.aluI .sub .q r [n] true) len = .ok s') : (get s' r).toNat = ((get s r).toNat + 2 ^ 64 - n) % 2 ^ 64 := by
  have himm : ∀ t : St β, immLE t [n] = n := by
    intro t; unfold immLE; simp only [List.foldr, tokVal_small t n (by omega), Nat.mul_zero, Nat.add_zero]
  have hlt : ¬ n ≥ 128 := by omega
  have hne : (AluOp.sub == AluOp.cmp) = false := by decide
  simp only [step, himm, hlt, if_false, if_true, bitsOf, hne, Bool.false_eq_true] at h
  injection h with h
  have hr := congrArg St.r h
  simp only [] at hr
  unfold get
  rw [← hr]
  show (get (setSz ({ s with pc := s.pc + len } : St β) .q r _) r).toNat = _
  simp only [setSz]
  rw [get_set_eq _ _ _ (by show r < s.r.size; omega)]
  rw [BitVec.toNat_ofNat]
  have ha : (get s r).toNat < 2 ^ 64 := (get s r).isLt
  have e1 : getSz ({ s with pc := s.pc + len } : St β) .q r = (get s r).toNat := by
    show (get s r).toNat % 2 ^ 64 = _
    exact Nat.mod_eq_of_lt ha
  simp only [aluOp, e1, Nat.sub_zero]
  rw [Nat.mod_mod, Nat.mod_eq_of_lt (show n < 2 ^ 64 by omega)]
  show ((get s r).toNat + 2 ^ 64 + 2 ^ 64 - n) % 2 ^ 64 = ((get s r).toNat + 2 ^ 64 - n) % 2 ^ 64
  omega

set_option maxRecDepth 4000 in
/-- `and r, 0xffff` (64-bit, imm32) -/
theorem step_mask_q (B : Interp.BusOps β) (s s' : St β) (r len : Nat) (hr16 : r < 16) (hs : s.r.size = 16)
    (h : step B s (.aluI .and .q r [255, 255, 0, 0] false) len = .ok s') : (get s' r).toNat = (get s r).toNat % 65536 := by
  have himm : ∀ t : St β, immLE t [255, 255, 0, 0] = 65535 := by
    intro t; unfold immLE
    simp only [List.foldr, tokVal_small t 255 (by omega), tokVal_small t 0 (by omega)]
  have hne : (AluOp.and == AluOp.cmp) = false := by decide
  simp only [step, himm, bitsOf, hne, Bool.false_eq_true, if_false] at h
  injection h with h
  have hr := congrArg St.r h
  simp only [] at hr
  unfold get
  rw [← hr]
  show (get (setSz ({ s with pc := s.pc + len } : St β) .q r _) r).toNat = _
  simp only [setSz]
  rw [get_set_eq _ _ _ (by show r < s.r.size; omega)]
  rw [BitVec.toNat_ofNat]
  have ha : (get s r).toNat < 2 ^ 64 := (get s r).isLt
  have e1 : getSz ({ s with pc := s.pc + len } : St β) .q r = (get s r).toNat := by
    show (get s r).toNat % 2 ^ 64 = _
    exact Nat.mod_eq_of_lt ha
  simp only [aluOp, e1]
  have hc : ((if (Size.q == Size.q && decide (65535 ≥ 2 ^ 31)) = true then 2 ^ 64 - 2 ^ 32 + 65535 else 65535) % 2 ^ 64) = 2 ^ 16 - 1 := by decide
  rw [hc, Nat.and_two_pow_sub_one_eq_mod]
  show (get s r).toNat % 2 ^ 16 % 2 ^ 64 = (get s r).toNat % 65536
  omega

set_option maxRecDepth 4000 in
/-- 16-bit `inc` / `dec` -/
theorem step_incdec16 (B : Interp.BusOps β) (s s' : St β) (dec : Bool) (r len : Nat) (hr16 : r < 16) (hs : s.r.size = 16)
    (h : step B s (.incdec16 dec r) len = .ok s') :
    (get s' r).toNat % 65536 = ((get s r).toNat + (if dec then 65535 else 1)) % 65536 := by
  simp only [step] at h
  injection h with h
  have hr := congrArg St.r h
  simp only [] at hr
  unfold get
  rw [← hr]
  show (get (setSz ({ s with pc := s.pc + len } : St β) .w r _) r).toNat % 65536 = ((get s r).toNat + _) % 65536
  simp only [setSz]
  rw [get_set_eq _ _ _ (by show r < s.r.size; omega)]
  rw [BitVec.toNat_ofNat]
  have ha : (get s r).toNat < 2 ^ 64 := (get s r).isLt
  have e0 : get ({ s with pc := s.pc + len } : St β) r = get s r := rfl
  have e1 : getSz ({ s with pc := s.pc + len } : St β) .w r = (get s r).toNat % 65536 := rfl
  rw [e0, e1]
  cases dec
  · simp only [aluOp, Bool.false_eq_true, if_false]
    show ((get s r).toNat - (get s r).toNat % 65536 + ((get s r).toNat % 65536 + 1 + 0) % 2 ^ 16 % 65536) % 2 ^ 64 % 65536 = _
    omega
  · simp only [aluOp, if_true]
    show ((get s r).toNat - (get s r).toNat % 65536 + ((get s r).toNat % 65536 + 2 ^ 16 + 2 ^ 16 - 1 - 0) % 2 ^ 16 % 65536) % 2 ^ 64 % 65536 = _
    omega

/-- 32-bit rotate by the literal 8 -/
theorem step_sh32_8 (B : Interp.BusOps β) (s s' : St β) (op : ShOp) (r len : Nat) (hr16 : r < 16) (hs : s.r.size = 16)
    (h : step B s (.sh32 op r 8) len = .ok s') :
    (get s' r).toNat = (shOp op 32 ((get s r).toNat % 2 ^ 32) 8 s.fl).1 % 2 ^ 32 := by
  simp only [step] at h
  injection h with h
  have hr := congrArg St.r h
  simp only [] at hr
  unfold get
  rw [← hr]
  show (get (setSz ({ s with pc := s.pc + len } : St β) .d r _) r).toNat = _
  simp only [setSz]
  rw [get_set_eq _ _ _ (by show r < s.r.size; omega)]
  rw [BitVec.toNat_ofNat]
  have e1 : getSz ({ s with pc := s.pc + len } : St β) .d r = (get s r).toNat % 2 ^ 32 := rfl
  have e2 : tokVal ({ s with pc := s.pc + len } : St β) 8 = 8 := rfl
  rw [e1, e2]
  show (shOp op 32 ((get s r).toNat % 2 ^ 32) 8 s.fl).1 % 2 ^ 32 % 2 ^ 64 = (shOp op 32 ((get s r).toNat % 2 ^ 32) 8 s.fl).1 % 2 ^ 32
  omega


/-- the relation carried along a run; `base` = r12 at the start of the template -/
def SpRel (base : Nat) (a : SpSt) (s : St β) : Prop :=
  if a.2 = 0 then (get s 12).toNat % 65536 = (base + a.1) % 65536
  else if a.2 = 1 then ∃ v, v < 2 ^ 32 ∧ (get s 12).toNat = rol8 v ∧ v % 65536 = (base + a.1) % 65536
  else if a.2 = 2 then ∃ v, v < 2 ^ 32 ∧ (get s 12).toNat = ror8 v ∧ v % 65536 = (base + a.1) % 65536
  else False

theorem spRel_of_get {base : Nat} {a : SpSt} {s s1 : St β} (h : get s1 12 = get s 12) (hR : SpRel base a s) : SpRel base a s1 := by
  unfold SpRel at hR ⊢; rw [h]; exact hR

theorem dest_ne_12 {ins : Instr} (hw : writesR12Otherwise ins = false)
    (h1 : ∀ n, ins ≠ .aluI .add .q 12 [n] true) (h2 : ∀ n, ins ≠ .aluI .sub .q 12 [n] true)
    (h3 : ins ≠ .aluI .and .q 12 [255, 255, 0, 0] false) (h4 : ∀ d, ins ≠ .incdec16 d 12)
    (h5 : ins ≠ .sh32 .rol 12 8) (h6 : ins ≠ .sh32 .ror 12 8) : destReg ins ≠ some 12 := by
  unfold writesR12Otherwise at hw
  split at hw
  · rename_i n; exact absurd rfl (h1 n)
  · rename_i n; exact absurd rfl (h2 n)
  · exact absurd rfl h3
  · rename_i d; exact absurd rfl (h4 d)
  · exact absurd rfl h5
  · exact absurd rfl h6
  · simpa using hw

theorem step_r12 (B : Interp.BusOps β) (s s1 : St β) (ins : Instr) (len : Nat) (h : step B s ins len = .ok s1)
    (hd : destReg ins ≠ some 12) : get s1 12 = get s 12 := by
  by_cases hc : ins = .callRax
  · subst hc
    have h' : callBus B ({ s with pc := s.pc + len } : St β) = .ok s1 := h
    exact callBus_frame B ({ s with pc := s.pc + len } : St β) s1 12 h' (by decide)
  · exact step_frame B s s1 ins _ 12 h hc hd

theorem sp_carries (B : Interp.BusOps β) (base : Nat) : Carries B trSp (SpRel (β := β) base) where
  pc := by intro a s pc' h; exact h
  step := by
    intro ins a a' s s1 len hj1 hj2 htr hR hsz hstep
    unfold trSp at htr
    split at htr
    · cases htr
    · rename_i hw
      have hw' : writesR12Otherwise ins = false := by simpa using hw
      split at htr
      · -- add r12, n
        rename_i n
        split at htr
        · cases htr
        · rename_i hc
          simp only [Bool.or_eq_true, decide_eq_true_eq, bne_iff_ne, ne_eq, not_or, Decidable.not_not] at hc
          injection htr with htr; subst htr
          have hadd := step_add_q B s s1 12 n len (by decide) (by omega) hsz hstep
          unfold SpRel at hR ⊢
          rw [if_pos hc.2] at hR
          rw [if_pos hc.2, hadd]
          show ((get s 12).toNat + n) % 2 ^ 64 % 65536 = (base + (a.1 + n) % 65536) % 65536
          omega
      · -- sub r12, n
        rename_i n
        split at htr
        · cases htr
        · rename_i hc
          simp only [Bool.or_eq_true, decide_eq_true_eq, bne_iff_ne, ne_eq, not_or, Decidable.not_not] at hc
          injection htr with htr; subst htr
          have hsub := step_sub_q B s s1 12 n len (by decide) (by omega) hsz hstep
          unfold SpRel at hR ⊢
          rw [if_pos hc.2] at hR
          rw [if_pos hc.2, hsub]
          show ((get s 12).toNat + 2 ^ 64 - n) % 2 ^ 64 % 65536 = (base + (a.1 + 65536 - n) % 65536) % 65536
          have := (get s 12).isLt
          omega
      · -- and r12, 0xffff
        split at htr
        · cases htr
        · rename_i hc
          simp only [bne_iff_ne, ne_eq, Decidable.not_not] at hc
          injection htr with htr; subst htr
          have hm := step_mask_q B s s1 12 len (by decide) hsz hstep
          unfold SpRel at hR ⊢
          rw [if_pos hc] at hR
          rw [if_pos hc, hm]
          omega
      · -- inc / dec r12w
        rename_i dec
        split at htr
        · cases htr
        · rename_i hc
          simp only [bne_iff_ne, ne_eq, Decidable.not_not] at hc
          injection htr with htr; subst htr
          have hm := step_incdec16 B s s1 dec 12 len (by decide) hsz hstep
          unfold SpRel at hR ⊢
          rw [if_pos hc] at hR
          rw [if_pos hc, hm]
          show ((get s 12).toNat + _) % 65536 = (base + (a.1 + _) % 65536) % 65536
          cases dec <;> simp only [Bool.false_eq_true, if_false, if_true] <;> omega
      · -- rol r12d, 8
        have hm := step_sh32_8 B s s1 .rol 12 len (by decide) hsz hstep
        rw [rol_eq _ _ (Nat.mod_lt _ (by decide))] at hm
        split at htr
        · rename_i hc
          have hc' : a.2 = 0 := by simpa using hc
          injection htr with htr; subst htr
          unfold SpRel at hR ⊢
          rw [if_pos hc'] at hR
          rw [if_neg (show ¬ (1 : Nat) = 0 by decide), if_pos rfl]
          refine ⟨(get s 12).toNat % 2 ^ 32, Nat.mod_lt _ (by decide), ?_, ?_⟩
          · rw [hm]; exact Nat.mod_eq_of_lt (rol8_lt _ (Nat.mod_lt _ (by decide)))
          · show (get s 12).toNat % 2 ^ 32 % 65536 = (base + a.1) % 65536
            omega
        · split at htr
          · rename_i hc0 hc
            have hc' : a.2 = 2 := by simpa using hc
            injection htr with htr; subst htr
            unfold SpRel at hR ⊢
            rw [if_neg (by omega), if_neg (by omega), if_pos hc'] at hR
            obtain ⟨v, hv, hx, hv16⟩ := hR
            rw [if_pos rfl, hm, hx, Nat.mod_eq_of_lt (ror8_lt v hv), rol_ror v hv, Nat.mod_eq_of_lt hv]
            exact hv16
          · cases htr
      · -- ror r12d, 8
        have hm := step_sh32_8 B s s1 .ror 12 len (by decide) hsz hstep
        rw [ror_eq _ _ (Nat.mod_lt _ (by decide))] at hm
        split at htr
        · rename_i hc
          have hc' : a.2 = 0 := by simpa using hc
          injection htr with htr; subst htr
          unfold SpRel at hR ⊢
          rw [if_pos hc'] at hR
          rw [if_neg (show ¬ (2 : Nat) = 0 by decide), if_neg (show ¬ (2 : Nat) = 1 by decide), if_pos rfl]
          refine ⟨(get s 12).toNat % 2 ^ 32, Nat.mod_lt _ (by decide), ?_, ?_⟩
          · rw [hm]; exact Nat.mod_eq_of_lt (ror8_lt _ (Nat.mod_lt _ (by decide)))
          · show (get s 12).toNat % 2 ^ 32 % 65536 = (base + a.1) % 65536
            omega
        · split at htr
          · rename_i hc0 hc
            have hc' : a.2 = 1 := by simpa using hc
            injection htr with htr; subst htr
            unfold SpRel at hR ⊢
            rw [if_neg (by omega), if_pos hc'] at hR
            obtain ⟨v, hv, hx, hv16⟩ := hR
            rw [if_pos rfl, hm, hx, Nat.mod_eq_of_lt (rol8_lt v hv), ror_rol v hv, Nat.mod_eq_of_lt hv]
            exact hv16
          · cases htr
      · -- everything else
        rename_i h1 h2 h3 h4 h5 h6
        injection htr with htr; subst htr
        exact spRel_of_get (step_r12 B s s1 _ _ hstep (dest_ne_12 hw' h1 h2 h3 h4 h5 h6)) hR

/-- **what `jitSp` means**: every complete run of the template changes the low 16 bits of r12 by one of the deltas of
the analysis (mod 2^16) -/
theorem jitSp_sound (B : Interp.BusOps β) (tokens : List Nat) (code : List (Nat × Instr)) (C : List Nat)
    (hdec : decodeCode tokens = some code) (hok : codeOk code (bytesOf tokens) = true) (hC : jitSp tokens = some C)
    (fr : Nat) (s s' : St β) (hsz : s.r.size = 16) (hpc : s.pc = offAt code (bytesOf tokens) 0)
    (hrun : run B code (bytesOf tokens) fr s = .ok s') :
    ∃ l ∈ C, (get s' 12).toNat % 65536 = ((get s 12).toNat + l) % 65536 := by
  have hR : SpRel (β := β) (get s 12).toNat (0, 0) s := by unfold SpRel; rw [if_pos rfl]; rfl
  obtain ⟨a', n, hR', hf, hn⟩ := analyse_sound B trSp (0, 0) (fun a => if a.2 == 0 then some a.1 else none) _
    (sp_carries B (get s 12).toNat) tokens code C hdec hok hC fr s s' hsz hpc hR hrun
  split at hf
  · rename_i hz
    injection hf with hf; subst hf
    unfold SpRel at hR'
    rw [if_pos (by simpa using hz)] at hR'
    exact ⟨a'.1, hn, hR'⟩
  · cases hf

end GbVerif.X86
