import GbVerif.Model.Header
import GbVerif.Spec.Header
import GbVerif.Proofs.Enum
/-! Lemmas for C19 (checksum fold, table facts, load decision). -/
namespace GbVerif.HeaderProofs
open GbVerif.Header GbVerif.Gen.HeaderTables GbVerif.HeaderSpec

/-- The wrapping fold, for any index list and any start value: adding back `Σ (b_i + 1)` gives the start value. -/
theorem checkLoop_sum (h : Header) (idx : List Nat) : ∀ c, c < 256 →
    checkLoop h c idx < 256 ∧ (checkLoop h c idx + (idx.map (fun i => h.byte i + 1)).sum) % 256 = c := by
  induction idx with
  | nil => intro c hc; simp [checkLoop]; omega
  | cons x xs ih =>
    intro c hc
    have hstep : wsub (wsub c (h.byte x)) 1 < 256 := by unfold wsub; omega
    obtain ⟨h1, h2⟩ := ih _ hstep
    have e : checkLoop h c (x :: xs) = checkLoop h (wsub (wsub c (h.byte x)) 1) xs := rfl
    rw [e]
    refine ⟨h1, ?_⟩
    simp only [List.map_cons, List.sum_cons]
    unfold wsub at h2 ⊢
    omega

/-- model fold = spec fold (the spec indexes the file, the model the buffer read at `headerFileOffset`) -/
theorem checkLoop_shift (f : RomFile) (idx : List Nat) (c : Nat) :
    checkLoop (headerOf f) c idx =
      (idx.map (headerFileOffset + ·)).foldl (fun x i => HeaderSpec.sub8 (HeaderSpec.sub8 x (f.byte i)) 1) c := by
  induction idx generalizing c with
  | nil => rfl
  | cons x xs ih =>
    simp only [checkLoop, List.foldl_cons, List.map_cons] at ih ⊢
    rw [ih]
    rfl

theorem romBanks_pos (code : Nat) : 2 ≤ romBanks code := by
  unfold romBanks
  repeat' split
  all_goals omega

/-- the standard's controller as the code's cartridge-state tag -/
def kindCode : Controller → Nat
  | .romOnly => 0 | .mbc1 => 1 | .mbc3 => 3 | _ => 99

/-- one code, all three regenerated tables against the standard (Bool, for kernel enumeration) -/
def tablesOk (code : Nat) : Bool :=
  (match romBanks? code with
   | some n => romBanks code == n && romBytes? code == some (romBanks code * romBankBytes)
   | none => romBanks code == 2 && romBytes? code == none) &&
  (match HeaderSpec.ramBytes? code with
   | some n => ramBytes code == n
   | none => ramBytes code == 0) &&
  (match cartKind code with
   | some k => (match controller? code with
                | some c => implemented c && kindCode c == k
                | none => false)
   | none => true)

theorem tablesOk_all (code : Nat) (h : code < 256) : tablesOk code = true :=
  Enum.forall_lt_of_allRange tablesOk 8 (by decide +kernel) code h

/-- a type byte the code builds a cartridge state for is a supported type of the standard (any `Nat`) -/
theorem cartKind_supported (t k : Nat) (h : cartKind t = some k) : typeSupported t = true := by
  unfold cartKind at h
  repeat' split at h
  all_goals first | (subst_vars; decide) | cases h

/-- a standard ROM size is exactly what the code computes from the same code byte (any `Nat`) -/
theorem romBytes_eq (code n : Nat) (h : romBytes? code = some n) : n = romBanks code * romBankBytes := by
  by_cases hc : code < 256
  · have t := tablesOk_all code hc
    simp only [tablesOk, Bool.and_eq_true] at t
    have t1 := t.1.1
    cases hb : romBanks? code with
    | none => rw [hb] at t1; simp [h] at t1
    | some m => rw [hb] at t1; simp [h] at t1; exact t1.2
  · unfold romBytes? at h
    repeat' split at h
    all_goals first | omega | cases h

end GbVerif.HeaderProofs
