import GbVerif.Model.Header
import GbVerif.Spec.Header
import GbVerif.Proofs.Enum
/-! Lemmas for C19 (checksum fold, table facts, load decision). -/
namespace GbVerif.HeaderProofs
open GbVerif.Header GbVerif.Gen.HeaderTables GbVerif.HeaderSpec

/-- The wrapping fold, for any index list and any start value: adding back `Σ (b_i + 1)` gives the start value. -/
theorem checkLoop_sum (h : Header) (idx : List Nat) : ∀ c, c < 256 →
    checkLoop h c idx < 256 ∧ (checkLoop h c idx + (idx.map (fun i => h.byte i + 1)).sum) % 256 = c := by
  induction idx with
  | nil => intro c hc; simp [checkLoop]; omega
  | cons x xs ih =>
    intro c hc
    have hstep : wsub (wsub c (h.byte x)) 1 < 256 := by unfold wsub; omega
    obtain ⟨h1, h2⟩ := ih _ hstep
    have e : checkLoop h c (x :: xs) = checkLoop h (wsub (wsub c (h.byte x)) 1) xs := rfl
    rw [e]
    refine ⟨h1, ?_⟩
    simp only [List.map_cons, List.sum_cons]
    unfold wsub at h2 ⊢
    omega

/-- model fold = spec fold (the spec indexes the file, the model the buffer read at `headerFileOffset`) -/
theorem checkLoop_shift (f : RomFile) (idx : List Nat) (c : Nat) :
    checkLoop (headerOf f) c idx =
      (idx.map (headerFileOffset + ·)).foldl (fun x i => HeaderSpec.sub8 (HeaderSpec.sub8 x (f.byte i)) 1) c := by
  induction idx generalizing c with
  | nil => rfl
  | cons x xs ih =>
    simp only [checkLoop, List.foldl_cons, List.map_cons] at ih ⊢
    rw [ih]
    rfl

theorem romBanks_pos (code : Nat) : 2 ≤ romBanks code := by
  unfold romBanks
  repeat' split
  all_goals omega

/-- the standard's controller as the code's cartridge-state tag -/
def kindCode : Controller → Nat
  | .romOnly => 0 | .mbc1 => 1 | .mbc3 => 3 | _ => 99

/-- one code, all three regenerated tables against the standard (Bool, for kernel enumeration) -/
def tablesOk (code : Nat) : Bool :=
  (match romBanks? code with
   | some n => romBanks code == n && romBytes? code == some (romBanks code * romBankBytes)
   | none => romBanks code == 2 && romBytes? code == none) &&
  (match HeaderSpec.ramBytes? code with
   | some n => ramBytes code == n
   | none => ramBytes code == 0) &&
  (match cartKind code with
   | some k => (match controller? code with
                | some c => implemented c && kindCode c == k
                | none => false)
   | none => true)

theorem tablesOk_all (code : Nat) (h : code < 256) : tablesOk code = true :=
  Enum.forall_lt_of_allRange tablesOk 8 (by decide +kernel) code h

/-- a type byte the code builds a cartridge state for is a supported type of the standard (any `Nat`) -/
theorem cartKind_supported (t k : Nat) (h : cartKind t = some k) : typeSupported t = true := by
  unfold cartKind at h
  repeat' split at h
  all_goals first | (subst_vars; decide) | cases h

/-- a standard ROM size is exactly what the code computes from the same code byte (any `Nat`) -/
theorem romBytes_eq (code n : Nat) (h : romBytes? code = some n) : n = romBanks code * romBankBytes := by
  by_cases hc : code < 256
  · have t := tablesOk_all code hc
    simp only [tablesOk, Bool.and_eq_true] at t
    have t1 := t.1.1
    cases hb : romBanks? code with
    | none => rw [hb] at t1; simp [h] at t1
    | some m => rw [hb] at t1; simp [h] at t1; exact t1.2
  · unfold romBytes? at h
    repeat' split at h
    all_goals first | omega | cases h

end GbVerif.HeaderProofs

/-! ### the title text (`Header::get_title`) -/
namespace GbVerif.Header

theorem lossyAux_ascii : ∀ (fuel : Nat) (l : List Nat), l.length ≤ fuel → (∀ b ∈ l, b < 0x80) → lossyAux fuel l = l
  | 0, l, hl, _ => by
    have : l = [] := List.eq_nil_of_length_eq_zero (by omega)
    subst this; rfl
  | fuel+1, [], _, _ => rfl
  | fuel+1, b :: bs, hl, h => by
    have hb := h b List.mem_cons_self
    have e : decodeOne b bs = ([b], 1) := by unfold decodeOne; rw [if_pos hb]
    show (decodeOne b bs).1 ++ lossyAux fuel (bs.drop ((decodeOne b bs).2 - 1)) = b :: bs
    rw [e]
    show [b] ++ lossyAux fuel (bs.drop 0) = b :: bs
    rw [List.drop_zero, lossyAux_ascii fuel bs (by simp only [List.length_cons] at hl; omega) (fun x hx => h x (List.mem_cons_of_mem _ hx))]
    rfl

/-- the Loading line shows an ASCII title as it is in the file -/
theorem utf8Lossy_ascii (l : List Nat) (h : ∀ b ∈ l, b < 0x80) : utf8Lossy l = l :=
  lossyAux_ascii l.length l (Nat.le_refl _) h

theorem decodeOne_bytes (b0 : Nat) (rest : List Nat) : ∀ x ∈ (decodeOne b0 rest).1, x ∈ b0 :: rest ∨ x ∈ replacement := by
  intro x hx
  unfold decodeOne at hx
  repeat' split at hx
  all_goals first
    | exact Or.inr hx
    | (simp only [List.mem_cons, List.not_mem_nil, or_false] at hx; left; simp only [List.mem_cons]; omega)
    | (simp only [List.mem_cons, List.not_mem_nil, or_false] at hx; left; simp only [List.mem_cons]
       rcases hx with h | h | h | h <;> simp [h])

/-- whatever the title bytes are, every byte `get_title` yields is a byte of the title or of U+FFFD (nothing else of
the header or of memory gets into the Loading line) -/
theorem lossyAux_bytes : ∀ (fuel : Nat) (l : List Nat), ∀ x ∈ lossyAux fuel l, x ∈ l ∨ x ∈ replacement := by
  intro fuel
  induction fuel with
  | zero => intro l x hx; cases hx
  | succ n ih =>
    intro l x hx
    cases l with
    | nil => cases hx
    | cons b0 rest =>
      have hx' : x ∈ (decodeOne b0 rest).1 ++ lossyAux n (rest.drop ((decodeOne b0 rest).2 - 1)) := hx
      rcases List.mem_append.mp hx' with h | h
      · exact decodeOne_bytes b0 rest x h
      · rcases ih _ x h with h | h
        · exact Or.inl (List.mem_cons_of_mem _ (List.mem_of_mem_drop h))
        · exact Or.inr h

theorem mem_trimNul {x : Nat} {l : List Nat} (h : x ∈ trimNul l) : x ∈ l := by
  unfold trimNul at h
  exact List.mem_reverse.mp ((List.dropWhile_sublist _).subset (List.mem_reverse.mp h))

end GbVerif.Header
