import GbVerif.Proofs.Sm83Main0
import GbVerif.Proofs.Sm83Main1
import GbVerif.Proofs.Sm83Main2
import GbVerif.Proofs.Sm83Main3
import GbVerif.Proofs.Sm83Main4
import GbVerif.Proofs.Sm83Main5
import GbVerif.Proofs.Sm83Main6
import GbVerif.Proofs.Sm83Main7
import GbVerif.Proofs.Sm83MainCB0
import GbVerif.Proofs.Sm83MainCB1
import GbVerif.Proofs.Sm83MainCB2
import GbVerif.Proofs.Sm83MainCB3
import GbVerif.Proofs.Sm83MainCB4
import GbVerif.Proofs.Sm83MainCB5
import GbVerif.Proofs.Sm83MainCB6
import GbVerif.Proofs.Sm83MainCB7
/-!
Assembly of the per-opcode refinements into the instruction-level refinement theorem, in the `conc`/`CWF` form
(`refines`) and in the `abs`/`WF` form (`step_refines`, `step_refines_model`), plus its corollaries.
-/
namespace GbVerif.C05
open GbVerif.Interp GbVerif.Enum GbVerif.Sm83Bits
open GbVerif.SM83 (Cpu Outcome)

variable {β : Type}

theorem refines_unprefixed {B : BusOps β} (hB : ByteBus B) : ∀ b0, b0 < 2 ^ 8 → Goal B b0 :=
  forall_lt_of_ptree (Goal B) 8
    ⟨⟨⟨main_0 hB, main_1 hB⟩, ⟨main_2 hB, main_3 hB⟩⟩, ⟨⟨main_4 hB, main_5 hB⟩, ⟨main_6 hB, main_7 hB⟩⟩⟩

theorem refines_cb {B : BusOps β} (hB : ByteBus B) : ∀ b1, b1 < 2 ^ 8 → GoalCB B b1 :=
  forall_lt_of_ptree (GoalCB B) 8
    ⟨⟨⟨main_cb_0 hB, main_cb_1 hB⟩, ⟨main_cb_2 hB, main_cb_3 hB⟩⟩,
     ⟨⟨main_cb_4 hB, main_cb_5 hB⟩, ⟨main_cb_6 hB, main_cb_7 hB⟩⟩⟩

/-- every defined encoding (245 unprefixed + 256 CB-prefixed first/second bytes, all operand bytes) -/
theorem refines {B : BusOps β} (hB : ByteBus B) (b0 b1 b2 : Nat) (h0 : b0 < 256) (h1 : b1 < 256) (h2 : b2 < 256)
    (hu : ¬ SM83.isUndefined b0 = true) : Refines B b0 b1 b2 := by
  by_cases hcb : b0 = 0xCB
  · subst hcb; exact refines_cb hB b1 h1 b2
  · exact refines_unprefixed hB b0 h0 b1 b2 h1 h2 hcb hu

theorem mem_eq (B : BusOps β) (M : SM83.Mem β) (hR : M.read = B.read) (hW : M.write = B.write) : M = memOf B := by
  cases M; simp only [memOf] at *; subst hR hW; rfl

/-- **Instruction-level refinement (spec ⟶ model).**  For any bus, any defined opcode with any operand bytes and
any well-formed register file: if the SM83 instruction produces state `c`, memory `m₁`, `cyc` machine cycles
and outcome `out`, the interpreter step produces registers `r'` with `abs r' = c`, the same memory, the matching
status, `WF r'`, and charges exactly `cyc` cycles; and if the SM83 instruction fails on a bus access the
interpreter fails with the same panic. -/
theorem step_refines (B : BusOps β) (M : SM83.Mem β) (hR : M.read = B.read) (hW : M.write = B.write) (hB : ByteBus B)
    (b0 b1 b2 : Nat) (h0 : b0 < 256) (h1 : b1 < 256) (h2 : b2 < 256) (hu : ¬ SM83.isUndefined b0 = true)
    (r : Regs) (hr : WF r) (m : β) :
    (∀ c m₁ cyc out, SM83.step M (abs r) m b0 b1 b2 = .ok (c, m₁, cyc, out) →
      ∃ r', stepModel B b0 b1 b2 r m = .ok (r', m₁, statusOf out) ∧ abs r' = c ∧ WF r' ∧ r'.cycles = r.cycles + cyc) ∧
    (∀ e, SM83.step M (abs r) m b0 b1 b2 = .error e → stepModel B b0 b1 b2 r m = .error e) := by
  have hM := mem_eq B M hR hW
  subst hM
  have h := refines hB b0 b1 b2 h0 h1 h2 hu (abs r) r.cycles m (cwf_abs hr)
  rw [conc_abs hr] at h
  constructor
  · intro c m₁ cyc out hs
    rw [hs] at h
    obtain ⟨w, e⟩ := h
    exact ⟨conc c (r.cycles + cyc), e, abs_conc w _, wf_conc w _, rfl⟩
  · intro e hs
    rw [hs] at h
    exact h

/-- **Instruction-level refinement (model ⟶ spec).**  Whenever the interpreter step succeeds, the SM83 instruction
succeeds from the abstracted state with the abstraction of the interpreter's result, the same memory, the status
and the cycle count; the new register file is well-formed. -/
theorem step_refines_model (B : BusOps β) (M : SM83.Mem β) (hR : M.read = B.read) (hW : M.write = B.write) (hB : ByteBus B)
    (b0 b1 b2 : Nat) (h0 : b0 < 256) (h1 : b1 < 256) (h2 : b2 < 256) (hu : ¬ SM83.isUndefined b0 = true)
    (r : Regs) (hr : WF r) (m : β) (r' : Regs) (m' : β) (st : Nat)
    (hm : stepModel B b0 b1 b2 r m = .ok (r', m', st)) :
    ∃ cyc out, SM83.step M (abs r) m b0 b1 b2 = .ok (abs r', m', cyc, out) ∧ st = statusOf out ∧ WF r' ∧
      r'.cycles = r.cycles + cyc := by
  obtain ⟨h1', h2'⟩ := step_refines B M hR hW hB b0 b1 b2 h0 h1 h2 hu r hr m
  cases hs : SM83.step M (abs r) m b0 b1 b2 with
  | error e => rw [h2' e hs] at hm; cases hm
  | ok x =>
    obtain ⟨c, m₁, cyc, out⟩ := x
    obtain ⟨r'', e, ha, hw, hc⟩ := h1' c m₁ cyc out hs
    rw [e] at hm
    simp only [Except.ok.injEq, Prod.mk.injEq] at hm
    obtain ⟨rfl, rfl, rfl⟩ := hm
    exact ⟨cyc, out, by rw [ha], rfl, hw, hc⟩

/-- `Cpu.runNextOp` is the fetch followed by `stepModel` on the real bus -/
theorem runNextOp_eq (r : Regs) (s : Bus.State) :
    Cpu.runNextOp r s =
      (Cpu.fetch3 s r.ip).bind fun b =>
        (stepModel Cpu.busOps b.1 b.2.1 b.2.2 r s).map fun x =>
          (x.1, x.2.1, x.2.2, Gen.isBlockEnd (Gen.decode b.1 b.2.1 b.2.2).1) := by
  unfold Cpu.runNextOp stepModel
  cases Cpu.fetch3 s r.ip with
  | error e => rfl
  | ok b =>
    obtain ⟨b0, b1, b2⟩ := b
    simp only [bind, Except.bind]
    cases runOp Cpu.busOps (Gen.decode b0 b1 b2).1 r s (Gen.decode b0 b1 b2).2.1 <;> rfl

/-- toy bus used in examples: a total byte memory -/
def toyBus : BusOps (Nat → Nat) :=
  ⟨fun m a => .ok (m a % 256), fun m a v => .ok (fun x => if x = a then v else m x)⟩

theorem toyBus_bytes : ByteBus toyBus := by
  intro m a v h
  simp only [toyBus, Except.ok.injEq] at h
  omega

end GbVerif.C05
