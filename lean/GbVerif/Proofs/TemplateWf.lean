import GbVerif.Proofs.X86Cycles
import GbVerif.Proofs.Enum
/-
Well-formedness of every emitted template for the soundness theorems of the path analyses (kernel-evaluated over the
table regenerated from the emitter): it decodes, byte offsets identify instructions uniquely, none is the end offset,
they do not decrease, and the first instruction sits at offset 0.
-/
namespace GbVerif.X86
open GbVerif.Enum GbVerif.JitCycles

def offsetsWf (t : List Nat) : Bool :=
  match decodeCode t with
  | none => false
  | some code => codeOk code (bytesOf t) && offAt code (bytesOf t) 0 == 0

theorem offsetsWf_unprefixed : ∀ b0, b0 < 2^8 → ((Gen.emitOp b0).isEmpty || offsetsWf (Gen.emitOp b0)) = true :=
  forall_lt_of_allRange (fun b0 => (Gen.emitOp b0).isEmpty || offsetsWf (Gen.emitOp b0)) 8 (by decide +kernel)

theorem offsetsWf_cb : ∀ b1, b1 < 2^8 → offsetsWf (Gen.emitCb b1) = true :=
  forall_lt_of_allRange (fun b1 => offsetsWf (Gen.emitCb b1)) 8 (by decide +kernel)

theorem offsetsWf_parts {t : List Nat} (h : offsetsWf t = true) :
    ∃ code, decodeCode t = some code ∧ codeOk code (bytesOf t) = true ∧ offAt code (bytesOf t) 0 = 0 := by
  unfold offsetsWf at h
  cases hdec : decodeCode t with
  | none => rw [hdec] at h; cases h
  | some code =>
    rw [hdec] at h
    simp only [Bool.and_eq_true, beq_iff_eq] at h
    exact ⟨code, rfl, h.1, h.2⟩

theorem offsetsWf_op {b0 : Nat} (hb : b0 < 2^8) (hne : (Gen.emitOp b0).isEmpty = false) : offsetsWf (Gen.emitOp b0) = true := by
  have := offsetsWf_unprefixed b0 hb
  rw [hne, Bool.false_or] at this
  exact this

end GbVerif.X86
