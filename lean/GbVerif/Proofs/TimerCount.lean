import GbVerif.Proofs.TimerRefine
/-!
Timer, part 3: how many times TIMA is clocked in `n` clocks (closed form), one tick per period for every
phase, exactly one interrupt request per overflow.
-/
namespace GbVerif.Timer
open GbVerif.TimerBits
open GbVerif.TimerSpec (Hw selBit period enabled signal tickTima tickTimaN edge writeTac)

theorem tickTimaN_elapsed : ∀ (m : Nat) (h : Hw) (e : Nat),
    tickTimaN m { h with elapsed := e } = ({ (tickTimaN m h).1 with elapsed := e }, (tickTimaN m h).2)
  | 0, h, e => rfl
  | m + 1, h, e => by
    simp only [tickTimaN]
    rw [tickTima_elapsed h e]
    simp only [tickTimaN_elapsed m (tickTima h).1 e]

theorem tickTimaN_frame : ∀ (m : Nat) (h : Hw),
    (tickTimaN m h).1.elapsed = h.elapsed ∧ (tickTimaN m h).1.tma = h.tma ∧ (tickTimaN m h).1.tac = h.tac
  | 0, h => ⟨rfl, rfl, rfl⟩
  | m + 1, h => by
    have h1 := tickTima_frame h
    have h2 := tickTimaN_frame m (tickTima h).1
    simp only [tickTimaN]
    exact ⟨by rw [h2.1, h1.1], by rw [h2.2.1, h1.2.1], by rw [h2.2.2, h1.2.2]⟩

/-- Closed form, spec level: while enabled, `n` clocks from elapsed count `e` clock TIMA exactly
`⌊(e+n)/P⌋ − ⌊e/P⌋` times (`P = 2^(k+1)` the selected period) and add `n` to the elapsed count. -/
theorem spec_clocks_closed_aux (k : Nat) (hk : k = 3 ∨ k = 5 ∨ k = 7 ∨ k = 9) :
    ∀ (n : Nat) (h : Hw), enabled h.tac = true → selBit h.tac = k →
    TimerSpec.clocks n h =
      ({ (tickTimaN ((h.elapsed + n) / 2 ^ (k + 1) - h.elapsed / 2 ^ (k + 1)) h).1 with elapsed := h.elapsed + n },
       (tickTimaN ((h.elapsed + n) / 2 ^ (k + 1) - h.elapsed / 2 ^ (k + 1)) h).2) := by
  intro n
  induction n with
  | zero =>
    intro h _ _
    simp only [Nat.add_zero, Nat.sub_self, tickTimaN, TimerSpec.clocks]
  | succ n ih =>
    intro h hen hsel
    have hfall : (signal h && !signal { h with elapsed := h.elapsed + 1 }) =
        decide ((h.elapsed + 1) / 2 ^ (k + 1) = h.elapsed / 2 ^ (k + 1) + 1) := by
      unfold signal
      simp only [hen, hsel, Bool.and_true]
      exact fall_iff_div _ k hk
    simp only [TimerSpec.clocks]
    rw [spec_clock_eq, hfall]
    by_cases hd : (h.elapsed + 1) / 2 ^ (k + 1) = h.elapsed / 2 ^ (k + 1) + 1
    · simp only [hd, decide_true, if_true]
      have hc : (h.elapsed + (n + 1)) / 2 ^ (k + 1) - h.elapsed / 2 ^ (k + 1) =
          ((h.elapsed + 1 + n) / 2 ^ (k + 1) - (h.elapsed + 1) / 2 ^ (k + 1)) + 1 := by
        rcases hk with rfl | rfl | rfl | rfl <;> simp only [Nat.reducePow, Nat.reduceAdd] at hd ⊢ <;> omega
      have hf := tickTima_frame h
      rw [ih _ (by simpa [hf.2.2] using hen) (by simpa [hf.2.2] using hsel), hc]
      simp only [tickTimaN, tickTimaN_elapsed]
      have : h.elapsed + 1 + n = h.elapsed + (n + 1) := by omega
      simp only [this]
    · simp only [hd, decide_false, if_false, Bool.false_eq_true, Bool.false_or]
      have hc : (h.elapsed + (n + 1)) / 2 ^ (k + 1) - h.elapsed / 2 ^ (k + 1) =
          ((h.elapsed + 1 + n) / 2 ^ (k + 1) - (h.elapsed + 1) / 2 ^ (k + 1)) := by
        rcases hk with rfl | rfl | rfl | rfl <;> simp only [Nat.reducePow, Nat.reduceAdd] at hd ⊢ <;> omega
      rw [ih _ (by simpa using hen) (by simpa using hsel), hc]
      simp only [tickTimaN_elapsed]
      have : h.elapsed + 1 + n = h.elapsed + (n + 1) := by omega
      simp only [this]

theorem spec_clocks_closed (n : Nat) (h : Hw) (hen : enabled h.tac = true) :
    TimerSpec.clocks n h =
      ({ (tickTimaN ((h.elapsed + n) / period h.tac - h.elapsed / period h.tac) h).1 with elapsed := h.elapsed + n },
       (tickTimaN ((h.elapsed + n) / period h.tac - h.elapsed / period h.tac) h).2) :=
  spec_clocks_closed_aux (selBit h.tac) (selBit_cases h.tac) n h hen rfl

/-- while disabled nothing but the divider moves -/
theorem spec_clocks_disabled : ∀ (n : Nat) (h : Hw), enabled h.tac = false →
    TimerSpec.clocks n h = ({ h with elapsed := h.elapsed + n }, false)
  | 0, h, _ => by simp only [TimerSpec.clocks, Nat.add_zero]
  | n + 1, h, hen => by
    simp only [TimerSpec.clocks]
    have : TimerSpec.clock h = ({ h with elapsed := h.elapsed + 1 }, false) := by
      rw [spec_clock_eq]; unfold signal; simp [hen]
    rw [this]
    simp only []
    rw [spec_clocks_disabled n { h with elapsed := h.elapsed + 1 } hen]
    have : h.elapsed + 1 + n = h.elapsed + (n + 1) := by omega
    simp only [this, Bool.or_false]

/-- one period, any phase: exactly one TIMA tick -/
theorem spec_one_tick_per_period (h : Hw) (hen : enabled h.tac = true) :
    TimerSpec.clocks (period h.tac) h =
      ({ (tickTima h).1 with elapsed := h.elapsed + period h.tac }, (tickTima h).2) := by
  rw [spec_clocks_closed _ h hen]
  have : (h.elapsed + period h.tac) / period h.tac - h.elapsed / period h.tac = 1 :=
    window_once h.elapsed (selBit h.tac) (selBit_cases h.tac)
  rw [this]
  simp [tickTimaN]

theorem period_cases (v : Nat) : period v = 16 ∨ period v = 64 ∨ period v = 256 ∨ period v = 1024 := by
  unfold period
  rcases selBit_cases v with e | e | e | e <;> rw [e] <;> simp

/-- overflow: a period window starting with TIMA = 0xFF reloads TMA and requests the interrupt -/
theorem spec_overflow_reload (h : Hw) (hen : enabled h.tac = true) (ht : h.tima = 255) :
    TimerSpec.clocks (period h.tac) h =
      ({ h with tima := h.tma, elapsed := h.elapsed + period h.tac }, true) := by
  rw [spec_one_tick_per_period h hen]
  unfold tickTima
  simp [ht]

/-- … and the request is made in exactly one clock of the window: wherever the window is cut in two,
exactly one of the two parts reports it -/
theorem spec_overflow_once (h : Hw) (hen : enabled h.tac = true) (ht : h.tima = 255) (a b : Nat)
    (hab : a + b = period h.tac) :
    ((TimerSpec.clocks a h).2 != (TimerSpec.clocks b (TimerSpec.clocks a h).1).2) = true := by
  have fa := spec_clocks_elapsed a h
  have hen' : enabled (TimerSpec.clocks a h).1.tac = true := by rw [fa.2.1]; exact hen
  rw [spec_clocks_closed b _ hen', fa.1, fa.2.1]
  rw [spec_clocks_closed a h hen]
  have hcount : ((h.elapsed + a) / period h.tac - h.elapsed / period h.tac = 1 ∧
        (h.elapsed + a + b) / period h.tac - (h.elapsed + a) / period h.tac = 0) ∨
      ((h.elapsed + a) / period h.tac - h.elapsed / period h.tac = 0 ∧
        (h.elapsed + a + b) / period h.tac - (h.elapsed + a) / period h.tac = 1) := by
    have hP := period_cases h.tac
    generalize period h.tac = P at hab hP
    rcases hP with rfl | rfl | rfl | rfl <;> omega
  have ht1 : (tickTima h).2 = true := by unfold tickTima; simp [ht]
  have ht2 : ∀ e, (tickTima { h with elapsed := e }).2 = true := by intro e; unfold tickTima; simp [ht]
  rcases hcount with ⟨c1, c2⟩ | ⟨c1, c2⟩
  · rw [c1, c2]; simp [tickTimaN, ht1]
  · rw [c1, c2]; simp [tickTimaN, ht2]

/-! ### the same, for the model (through the refinement) -/

theorem Wf.enabled_of_ne {s : State} (w : Wf s) (hen : s.enabledMask ≠ 0) :
    enabled s.controlValue = true ∧ s.timerClockMask = clockMaskOf s.controlValue := by
  rcases w.2.2.2.2 with h | h
  · exact absurd h.1 hen
  · refine ⟨?_, h.2⟩
    have := h.1
    rw [enabledMaskOf_eq] at this
    cases he : enabled s.controlValue
    · rw [he] at this; exact absurd this hen
    · rfl

/-- Model: one selected period of clocks from any divider phase, while enabled, is exactly one
`increment_counter` (TIMA + 1, or reload + interrupt when TIMA was 0xFF). -/
theorem run_period (s : State) (w : Wf s) (hen : s.enabledMask ≠ 0) :
    run (2 * s.timerClockMask) s =
      ({ (incrementCounter s).1 with cycleCount := (s.cycleCount + 2 * s.timerClockMask) % 65536 },
       (incrementCounter s).2) := by
  obtain ⟨he, hm⟩ := w.enabled_of_ne hen
  have hP : 2 * s.timerClockMask = period (abs s).tac := by rw [hm, two_mul_clockMaskOf]; rfl
  have r := refines_abs s w
  have rr := refines_run (2 * s.timerClockMask) r
  have ri := refines_inc r
  rw [hP, spec_one_tick_per_period (abs s) he] at rr
  have rt := refines_cc ri.1 ((abs s).elapsed + period (abs s).tac)
  have fi := incrementCounter_frame s
  have fr := run_frame (period (abs s).tac) s w.mask_lt
  rw [hP]
  apply Prod.ext
  · exact refines_inj rr.1 rt (by rw [fr.2.2.1]; exact fi.2.2.1.symm) (by rw [fr.2.2.2.1]; exact fi.2.2.2.1.symm)
  · rw [rr.2]; exact ri.2.symm

/-- Model: with TIMA = 0xFF, cut a period window anywhere: exactly one of the two batches returns the
timer interrupt flag. -/
theorem run_overflow_once (s : State) (w : Wf s) (hen : s.enabledMask ≠ 0) (hc : s.counter = 255) (a b : Nat)
    (hab : a + b = 2 * s.timerClockMask) :
    ((run a s).2 != (run b (run a s).1).2) = true := by
  obtain ⟨he, hm⟩ := w.enabled_of_ne hen
  have hP : 2 * s.timerClockMask = period (abs s).tac := by rw [hm, two_mul_clockMaskOf]; rfl
  have r := refines_abs s w
  have ra := refines_run a r
  have rb := refines_run b ra.1
  rw [ra.2, rb.2]
  exact spec_overflow_once (abs s) he hc a b (by rw [hab, hP])

/-- Model: while disabled only the divider moves and no flag is returned -/
theorem run_disabled (n : Nat) (s : State) (w : Wf s) (hd : s.enabledMask = 0) :
    run n s = ({ s with cycleCount := (s.cycleCount + n) % 65536 }, false) := by
  rw [run_eq_clocks n s w.mask_lt, norm_of_lt s w.1]
  exact clocks_disabled n s (by simp [hd]) w.1

/-! ### the two executable shortcuts of the spec used by the replay driver -/

theorem spec_clocksAcc_eq : ∀ (n : Nat) (h : Hw) (f : Bool),
    TimerSpec.clocksAcc n h f = ((TimerSpec.clocks n h).1, f || (TimerSpec.clocks n h).2)
  | 0, h, f => by simp [TimerSpec.clocksAcc, TimerSpec.clocks]
  | n + 1, h, f => by
    simp only [TimerSpec.clocksAcc, TimerSpec.clocks]
    rw [spec_clocksAcc_eq n, Bool.or_assoc]

theorem spec_clocksFast_eq (n : Nat) (h : Hw) : TimerSpec.clocksFast n h = TimerSpec.clocks n h := by
  unfold TimerSpec.clocksFast
  cases hen : enabled h.tac
  · rw [spec_clocks_disabled n h hen]; rfl
  · rw [spec_clocks_closed n h hen]; rfl

end GbVerif.Timer
