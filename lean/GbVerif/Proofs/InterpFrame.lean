import GbVerif.Proofs.CoreCycles
/-!
Frame lemma for the interpreter model: the bus state changes only through `B.write`, so any predicate on the bus that
every successful write preserves is preserved by `run_op`, for all 90 `Op` variants.
-/
namespace GbVerif.CoreProofs
open GbVerif.Interp

variable {β : Type} (B : BusOps β)

section
variable (P : β → Prop) (hw : ∀ m a v m', B.write m a v = .ok m' → P m → P m')
include hw

theorem push_inv {v : Nat} {r : Regs} {m : β} {p : Regs × β} (h : push B v r m = .ok p) (hp : P m) : P p.2 := by
  unfold push at h
  obtain ⟨m1, h1, h⟩ := bind_ok_elim h
  obtain ⟨m2, h2, h⟩ := bind_ok_elim h
  injection h with h; subst h
  exact hw _ _ _ _ h2 (hw _ _ _ _ h1 hp)

theorem rmwHL_inv {r : Regs} {m : β} {f : Nat → Regs → Nat × Regs} {p : Regs × β} (h : rmwHL B r m f = .ok p) (hp : P m) : P p.2 := by
  unfold rmwHL at h
  obtain ⟨v, _, h⟩ := bind_ok_elim h
  obtain ⟨m1, h1, h⟩ := bind_ok_elim h
  injection h with h; subst h
  exact hw _ _ _ _ h1 hp

theorem runOp_inv (op : Op) (r : Regs) (m : β) (len : Nat) (r' : Regs) (m' : β) (st : Nat)
    (h : runOp B op r m len = .ok (r', m', st)) (hp : P m) : P m' := by
  cases op
  all_goals simp only [runOp, bind, Except.bind, pure, Except.pure] at h
  all_goals (repeat' split at h)
  all_goals try contradiction
  all_goals try simp only [Except.ok.injEq, Prod.mk.injEq] at h
  all_goals try (obtain ⟨h1, h2, h3⟩ := h; subst h2)
  all_goals
    repeat (first
      | assumption
      | (apply hw; assumption)
      | (apply push_inv B P hw (p := (_, _)); assumption)
      | (apply rmwHL_inv B P hw (p := (_, _)); assumption))
end

end GbVerif.CoreProofs
