import GbVerif.Model.JitIp
import GbVerif.Proofs.X86Paths
import GbVerif.Proofs.X86Stack
/-
Soundness of the PC bookkeeping analysis (`JitIp.trIp`) for executions of the x86 model: r13 = start value + advance,
and every slot the symbolic stack marks as "r13 saved at advance x" holds start value + x.
-/
namespace GbVerif.X86
open GbVerif.JitCycles GbVerif.JitPaths GbVerif.JitIp
variable {β : Type}

/-- the relation carried along a run; `base` = r13 at the start of the template -/
def IpRel (base : Nat) (a : IpSt) (s : St β) : Prop :=
  (get s 13).toNat = (base + a.1) % 2 ^ 64 ∧ a.2.length ≤ s.stack.length ∧
  ∀ (k x : Nat), a.2[k]? = some (13, x) → ∃ w : W, s.stack[k]? = some w ∧ w.toNat = (base + x) % 2 ^ 64

theorem dest_ne_13 {ins : Instr} (hw : writesR13Otherwise ins = false) (hadd : ∀ n, ins ≠ .aluI .add .q 13 [n] true)
    (hpop : ∀ r, ins ≠ .pop r) : destReg ins ≠ some 13 := by
  unfold writesR13Otherwise at hw
  split at hw
  · rename_i n; exact absurd rfl (hadd n)
  · rename_i r; exact absurd rfl (hpop r)
  · simpa using hw

/-- r13 across one step of an instruction that is neither the increment nor a pop -/
theorem step_r13 (B : Interp.BusOps β) (s s1 : St β) (ins : Instr) (len : Nat) (h : step B s ins len = .ok s1)
    (hd : destReg ins ≠ some 13) : get s1 13 = get s 13 := by
  by_cases hc : ins = .callRax
  · subst hc
    have h' : callBus B ({ s with pc := s.pc + len } : St β) = .ok s1 := h
    exact callBus_frame B ({ s with pc := s.pc + len } : St β) s1 13 h' (by decide)
  · exact step_frame B s s1 ins _ 13 h hc hd

theorem ip_carries (B : Interp.BusOps β) (base : Nat) : Carries B trIp (IpRel (β := β) base) where
  pc := by
    intro a s pc' h
    obtain ⟨h1, h2, h3⟩ := h
    exact ⟨h1, h2, h3⟩
  step := by
    intro ins a a' s s1 len hj1 hj2 htr hR hsz hstep
    obtain ⟨hr13, hlen, hslots⟩ := hR
    unfold trIp at htr
    split at htr
    · cases htr
    · rename_i hw
      have hw' : writesR13Otherwise ins = false := by simpa using hw
      split at htr
      · -- add r13, n
        rename_i n
        split at htr
        · cases htr
        · rename_i hn
          injection htr with htr; subst htr
          have hadd := step_add_q B s s1 13 n len (by decide) (by omega) hsz hstep
          have hst : s1.stack = s.stack := step_stack B s s1 _ _ hstep (fun _ e => by cases e) (fun _ e => by cases e)
            (fun e => by cases e) (fun e => by cases e) (fun _ _ _ _ e => by cases e) (fun _ _ _ e => by cases e)
          refine ⟨?_, by rw [hst]; exact hlen, by rw [hst]; exact hslots⟩
          show (get s1 13).toNat = (base + (a.1 + n)) % 2 ^ 64
          rw [hadd, hr13]; omega
      · -- push r
        rename_i r
        injection htr with htr; subst htr
        have hfr : get s1 13 = get s 13 := step_r13 B s s1 _ _ hstep (by simp [destReg])
        simp only [step] at hstep
        injection hstep with hstep
        have hst : s1.stack = get s r :: s.stack := by rw [← hstep]; rfl
        refine ⟨by rw [hfr]; exact hr13, by rw [hst]; simp only [List.length_cons]; omega, ?_⟩
        intro k x hk
        rw [hst]
        cases k with
        | zero =>
          simp only [List.getElem?_cons_zero, Option.some.injEq, Prod.mk.injEq] at hk
          obtain ⟨e1, e2⟩ := hk
          subst e1; subst e2
          exact ⟨_, rfl, hr13⟩
        | succ k =>
          simp only [List.getElem?_cons_succ] at hk ⊢
          exact hslots k x hk
      · -- pushf
        injection htr with htr; subst htr
        have hfr : get s1 13 = get s 13 := step_r13 B s s1 _ _ hstep (by simp [destReg])
        simp only [step] at hstep
        injection hstep with hstep
        have hst : s1.stack = BitVec.ofNat 64 (flagsWord s.fl) :: s.stack := by rw [← hstep]
        refine ⟨by rw [hfr]; exact hr13, by rw [hst]; simp only [List.length_cons]; omega, ?_⟩
        intro k x hk
        rw [hst]
        cases k with
        | zero =>
          simp only [List.getElem?_cons_zero, Option.some.injEq, Prod.mk.injEq] at hk
          omega
        | succ k =>
          simp only [List.getElem?_cons_succ] at hk ⊢
          exact hslots k x hk
      · -- pop r
        rename_i r
        split at htr
        · rename_i r' x rest hstk
          simp only [step] at hstep
          split at hstep
          · rename_i w srest hs
            injection hstep with hstep
            have hs' : s.stack = w :: srest := hs
            have hst : s1.stack = srest := by rw [← hstep]; rfl
            have hlen' : rest.length ≤ srest.length := by
              rw [hstk, hs'] at hlen; simp only [List.length_cons] at hlen; omega
            have hslots' : ∀ (k x : Nat), rest[k]? = some (13, x) → ∃ w : W, srest[k]? = some w ∧ w.toNat = (base + x) % 2 ^ 64 := by
              intro k x hk
              have := hslots (k + 1) x (by rw [hstk]; simpa using hk)
              rw [hs'] at this; simpa using this
            split at htr
            · rename_i hr
              have hr' : r = 13 := by simpa using hr
              subst hr'
              split at htr
              · rename_i hr2
                have hr2' : r' = 13 := by simpa using hr2
                subst hr2'
                injection htr with htr; subst htr
                obtain ⟨w', hw1, hw2⟩ := hslots 0 x (by rw [hstk]; rfl)
                rw [hs'] at hw1
                simp only [List.getElem?_cons_zero, Option.some.injEq] at hw1
                subst hw1
                refine ⟨?_, by rw [hst]; exact hlen', by rw [hst]; exact hslots'⟩
                rw [← hstep]
                show (get (set _ 13 w) 13).toNat = _
                rw [get_set_eq _ _ _ (by show 13 < s.r.size; omega)]
                exact hw2
              · cases htr
            · rename_i hr
              have hr' : r ≠ 13 := by simpa using hr
              injection htr with htr; subst htr
              refine ⟨?_, by rw [hst]; exact hlen', by rw [hst]; exact hslots'⟩
              rw [← hstep]
              show (get (set _ r w) 13).toNat = _
              rw [get_set_ne _ _ _ _ hr']
              exact hr13
          · cases hstep
        · cases htr
      · -- popf
        split at htr
        · rename_i t rest hstk
          injection htr with htr; subst htr
          have hfr : get s1 13 = get s 13 := step_r13 B s s1 _ _ hstep (by simp [destReg])
          simp only [step] at hstep
          split at hstep
          · rename_i w srest hs
            injection hstep with hstep
            have hs' : s.stack = w :: srest := hs
            have hst : s1.stack = srest := by rw [← hstep]
            refine ⟨by rw [hfr]; exact hr13, ?_, ?_⟩
            · rw [hst]; rw [hstk, hs'] at hlen; simp only [List.length_cons] at hlen; show rest.length ≤ _; omega
            · intro k x hk
              rw [hst]
              have := hslots (k + 1) x (by rw [hstk]; simpa using hk)
              rw [hs'] at this; simpa using this
          · cases hstep
        · cases htr
      · -- store to [rsp+d]
        rename_i sz b d src
        split at htr
        · cases htr
        · rename_i hb
          have hb' : b = 4 := by simpa using hb
          subst hb'
          split at htr
          · rename_i r' x hslot
            split at htr
            · cases htr
            · rename_i hr'
              have hr'' : r' ≠ 13 := by simpa using hr'
              injection htr with htr; subst htr
              have hfr : get s1 13 = get s 13 := step_r13 B s s1 _ _ hstep (by simp [destReg])
              simp only [step, beq_self_eq_true, if_true] at hstep
              obtain ⟨w, hk, hst, _⟩ := stackWrite_stack hstep
              refine ⟨by rw [hfr]; exact hr13, by rw [hst, List.length_set]; exact hlen, ?_⟩
              intro k y hky
              rw [hst]
              have hne : d / 8 ≠ k := by
                intro e; subst e; rw [hslot] at hky
                simp only [Option.some.injEq, Prod.mk.injEq] at hky
                exact hr'' hky.1
              rw [List.getElem?_set_ne hne]
              exact hslots k y hky
          · cases htr
      · -- store8 to [rsp+d]
        rename_i b d src
        split at htr
        · cases htr
        · rename_i hb
          have hb' : b = 4 := by simpa using hb
          subst hb'
          split at htr
          · rename_i r' x hslot
            split at htr
            · cases htr
            · rename_i hr'
              have hr'' : r' ≠ 13 := by simpa using hr'
              injection htr with htr; subst htr
              have hfr : get s1 13 = get s 13 := step_r13 B s s1 _ _ hstep (by simp [destReg])
              simp only [step, beq_self_eq_true, if_true] at hstep
              obtain ⟨w, hk, hst, _⟩ := stackWrite_stack hstep
              refine ⟨by rw [hfr]; exact hr13, by rw [hst, List.length_set]; exact hlen, ?_⟩
              intro k y hky
              rw [hst]
              have hne : d / 8 ≠ k := by
                intro e; subst e; rw [hslot] at hky
                simp only [Option.some.injEq, Prod.mk.injEq] at hky
                exact hr'' hky.1
              rw [List.getElem?_set_ne hne]
              exact hslots k y hky
          · cases htr
      · -- everything else
        rename_i h1 h2 h3 h4 h5 h6 h7
        injection htr with htr; subst htr
        have hfr : get s1 13 = get s 13 := step_r13 B s s1 _ _ hstep (dest_ne_13 hw' h1 h4)
        have hst : s1.stack = s.stack := step_stack B s s1 _ _ hstep h2 h4 h3 h5 h6 h7
        exact ⟨by rw [hfr]; exact hr13, by rw [hst]; exact hlen, by rw [hst]; exact hslots⟩

/-- **what `jitIp` means**: every complete run of the template adds one of the advances of the analysis to r13 -/
theorem jitIp_sound (B : Interp.BusOps β) (tokens : List Nat) (code : List (Nat × Instr)) (C : List Nat)
    (hdec : decodeCode tokens = some code) (hok : codeOk code (bytesOf tokens) = true) (hC : jitIp tokens = some C)
    (fr : Nat) (s s' : St β) (hsz : s.r.size = 16) (hpc : s.pc = offAt code (bytesOf tokens) 0)
    (hrun : run B code (bytesOf tokens) fr s = .ok s') :
    ∃ l ∈ C, (get s' 13).toNat = ((get s 13).toNat + l) % 2 ^ 64 := by
  have hR : IpRel (β := β) (get s 13).toNat (0, []) s :=
    ⟨by show _ = ((get s 13).toNat + 0) % 2 ^ 64; rw [Nat.add_zero, Nat.mod_eq_of_lt (get s 13).isLt],
     Nat.zero_le _, fun k x hk => by simp at hk⟩
  obtain ⟨a', n, hR', hf, hn⟩ := analyse_sound B trIp (0, []) (fun a => some a.1) _ (ip_carries B (get s 13).toNat)
    tokens code C hdec hok hC fr s s' hsz hpc hR hrun
  injection hf with hf; subst hf
  exact ⟨a'.1, hn, hR'.1⟩

end GbVerif.X86
