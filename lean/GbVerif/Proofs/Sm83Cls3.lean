import GbVerif.Proofs.Sm83Rel
import GbVerif.Proofs.Sm83Misc
/-!
Opcode classes, part 3 (control flow): JP / JP cc / JP HL / JR / JR cc / CALL / CALL cc / RET / RET cc / RETI / RST —
program counter, stack bytes and stack pointer, taken and not-taken cycle counts.
-/
namespace GbVerif.C05
open GbVerif.Interp GbVerif.Sm83Bits
open GbVerif.SM83 (Cpu mkF flagZ flagN flagH flagC Outcome)

variable {β : Type} {B : BusOps β} {b0 b1 b2 : Nat}

/-- the SM83 condition index `cc[y]` of the interpreter's `JumpCondition` -/
def idxC : Cond → Nat
  | .NonZero => 0 | .Zero => 1 | .NoCarry => 2 | .Carry => 3 | .Always => 4

theorem cond_conc {c : Cpu} (hc : CWF c) (k : Nat) (cnd : Cond) (h : cnd ≠ .Always) :
    condHolds (conc c k).af cnd = SM83.cond c (idxC cnd) := by
  have hf := hc.hf
  have e1 : (c.a * 256 + c.f) / 128 % 2 = c.f / 128 % 2 := by omega
  have e2 : (c.a * 256 + c.f) / 16 % 2 = c.f / 16 % 2 := by omega
  have z : c.f / 128 % 2 = 0 ∨ c.f / 128 % 2 = 1 := by omega
  have y : c.f / 16 % 2 = 0 ∨ c.f / 16 % 2 = 1 := by omega
  cases cnd
  · exact absurd rfl h
  all_goals simp only [condHolds, idxC, SM83.cond, conc_af, and_80_ne, and_80_eq, and_10_ne, and_10_eq, flagZ, flagC, e1, e2]
  · rcases z with z | z <;> simp [z]
  · rcases y with y | y <;> simp [y]

theorem fin_ip (c : Cpu) (k ip clk : Nat) (m : β) (st : Nat) :
    finish clk ({ conc c k with ip := ip }, m, st) = (conc { c with pc := ip % 65536 } (k + clk / 4), m, st) := by
  simp only [finish, conc, and_ffff]

/-- the relative-jump target of the interpreter (u32 arithmetic, then the 16-bit PC mask) -/
theorem jr_target (pc off : Nat) (hpc : pc < 65536) (hoff : off < 256) :
    (if off &&& 0x80 == 0 then u32 (u32 (pc + 2) + off) else u32 (u32 (pc + 2) + 4294967296 - u16 ((off ^^^ 0xff) + 1))) % 65536 =
      (pc + 2 + (if off < 128 then off else off + 65280)) % 65536 := by
  rw [and_80_eq, xor_ff _ hoff]
  simp only [u32, u16]
  by_cases h : off < 128
  · have h1 : off / 128 % 2 = 0 := by omega
    simp only [h1, decide_true, if_true, h]; omega
  · have h1 : ¬ (off / 128 % 2 = 0) := by omega
    simp only [h1, decide_false, h, if_false, Bool.false_eq_true]; omega

/-! ### jumps -/

theorem cls_jp (hb1 : b1 < 256) (hb2 : b2 < 256) (len clk cyc : Nat)
    (hd : Gen.decode b0 b1 b2 = (Op.Jump .Always (b1 + 256 * b2), len, clk))
    (hs : ∀ c m, SM83.step (memOf B) c m b0 b1 b2 = .ok ({ c with pc := b2 * 256 + b1 }, m, cyc, .normal))
    (hclk : clk / 4 = cyc) : Refines B b0 b1 b2 := by
  intro c k m hc
  have hrun : runOp B (Op.Jump .Always (b1 + 256 * b2)) (conc c k) m len =
      .ok ({ conc c k with ip := b1 + 256 * b2 }, m, STATUS_NORMAL) := rfl
  have e : (b1 + 256 * b2) % 65536 = b2 * 256 + b1 := by omega
  rw [hs, stepModel_eq B b0 b1 b2 _ m _ len clk hd, hrun]
  subst hclk
  simp only [Except.map, Rel, fin_ip, e]
  exact ⟨cwf_setPC hc _ (by omega), rfl⟩

theorem cls_jp_cc (hb1 : b1 < 256) (hb2 : b2 < 256) (cnd : Cond) (hne : cnd ≠ .Always) (y len clk cycT cycN : Nat)
    (hd : Gen.decode b0 b1 b2 = (Op.Jump cnd (b1 + 256 * b2), len, clk))
    (hs : ∀ c m, SM83.step (memOf B) c m b0 b1 b2 =
      if SM83.cond c y = true then .ok ({ c with pc := b2 * 256 + b1 }, m, cycT, .normal)
      else .ok (SM83.next c len, m, cycN, .normal))
    (hy : idxC cnd = y) (hlen : len = 3) (hT : clk / 4 + 1 = cycT) (hN : clk / 4 = cycN) : Refines B b0 b1 b2 := by
  intro c k m hc
  have hrun : runOp B (Op.Jump cnd (b1 + 256 * b2)) (conc c k) m len =
      if cnd == .Always then .ok ({ conc c k with ip := b1 + 256 * b2 }, m, STATUS_NORMAL)
      else if condHolds (conc c k).af cnd then
        .ok ({ conc c k with ip := b1 + 256 * b2, cycles := (conc c k).cycles + 1 }, m, STATUS_NORMAL)
      else .ok ({ conc c k with ip := (conc c k).ip + 3 }, m, STATUS_NORMAL) := rfl
  have hne' : (cnd == Cond.Always) = false := by cases cnd <;> first | rfl | exact absurd rfl hne
  have e : (b1 + 256 * b2) % 65536 = b2 * 256 + b1 := by omega
  rw [hs, stepModel_eq B b0 b1 b2 _ m _ len clk hd, hrun, hne', cond_conc hc k cnd hne, hy]
  subst hT hN hlen
  simp only [Bool.false_eq_true, if_false]
  cases hcd : SM83.cond c y
  · simp only [Bool.false_eq_true, if_false, Except.map, Rel]
    refine ⟨cwf_next hc 3, ?_⟩
    simp only [finish, conc, SM83.next, and_ffff, statusOf]
  · simp only [if_true, Except.map, Rel]
    refine ⟨cwf_setPC hc _ (by omega), ?_⟩
    simp only [finish, conc, and_ffff, e, statusOf, Nat.add_assoc, Nat.add_comm (clk / 4) 1]

theorem cls_jphl (len clk cyc : Nat)
    (hd : Gen.decode b0 b1 b2 = (Op.JumpHL, len, clk))
    (hs : ∀ c m, SM83.step (memOf B) c m b0 b1 b2 = .ok ({ c with pc := SM83.hl c }, m, cyc, .normal))
    (hclk : clk / 4 = cyc) : Refines B b0 b1 b2 := by
  intro c k m hc
  have hrun : runOp B Op.JumpHL (conc c k) m len =
      .ok ({ conc c k with ip := getReg16 (conc c k) .HL }, m, STATUS_NORMAL) := rfl
  have hl := hl_lt hc
  rw [hs, stepModel_eq B b0 b1 b2 _ m _ len clk hd, hrun, getHL_conc hc]
  subst hclk
  simp only [Except.map, Rel, fin_ip, Nat.mod_eq_of_lt hl]
  exact ⟨cwf_setPC hc _ hl, rfl⟩

theorem cls_jr (hb1 : b1 < 256) (len clk cyc : Nat)
    (hd : Gen.decode b0 b1 b2 = (Op.JumpRelative .Always b1, len, clk))
    (hs : ∀ c m, SM83.step (memOf B) c m b0 b1 b2 =
      .ok ({ c with pc := (c.pc + 2 + (if b1 < 128 then b1 else b1 + 65280)) % 65536 }, m, cyc, .normal))
    (hclk : clk / 4 + 1 = cyc) : Refines B b0 b1 b2 := by
  intro c k m hc
  have hrun : runOp B (Op.JumpRelative .Always b1) (conc c k) m len =
      .ok ({ conc c k with
        ip := (if b1 &&& 0x80 == 0 then u32 (u32 ((conc c k).ip + 2) + b1)
               else u32 (u32 ((conc c k).ip + 2) + 4294967296 - u16 ((b1 ^^^ 0xff) + 1))),
        cycles := (conc c k).cycles + 1 }, m, STATUS_NORMAL) := rfl
  rw [hs, stepModel_eq B b0 b1 b2 _ m _ len clk hd, hrun]
  subst hclk
  simp only [Except.map, Rel]
  refine ⟨cwf_setPC hc _ (Nat.mod_lt _ (by decide)), ?_⟩
  simp only [finish, conc, and_ffff, jr_target c.pc b1 hc.hpc hb1, statusOf, Nat.add_assoc, Nat.add_comm (clk / 4) 1]

theorem cls_jr_cc (hb1 : b1 < 256) (cnd : Cond) (hne : cnd ≠ .Always) (y len clk cycT cycN : Nat)
    (hd : Gen.decode b0 b1 b2 = (Op.JumpRelative cnd b1, len, clk))
    (hs : ∀ c m, SM83.step (memOf B) c m b0 b1 b2 =
      if SM83.cond c y = true then
        .ok ({ c with pc := (c.pc + 2 + (if b1 < 128 then b1 else b1 + 65280)) % 65536 }, m, cycT, .normal)
      else .ok (SM83.next c len, m, cycN, .normal))
    (hy : idxC cnd = y) (hlen : len = 2) (hT : clk / 4 + 1 = cycT) (hN : clk / 4 = cycN) : Refines B b0 b1 b2 := by
  intro c k m hc
  have hrun : runOp B (Op.JumpRelative cnd b1) (conc c k) m len =
      if condHolds (conc c k).af cnd then
        .ok ({ conc c k with
          ip := (if b1 &&& 0x80 == 0 then u32 (u32 ((conc c k).ip + 2) + b1)
                 else u32 (u32 ((conc c k).ip + 2) + 4294967296 - u16 ((b1 ^^^ 0xff) + 1))),
          cycles := (conc c k).cycles + 1 }, m, STATUS_NORMAL)
      else .ok ({ conc c k with ip := u32 ((conc c k).ip + 2) }, m, STATUS_NORMAL) := rfl
  have hpc := hc.hpc
  rw [hs, stepModel_eq B b0 b1 b2 _ m _ len clk hd, hrun, cond_conc hc k cnd hne, hy]
  subst hT hN hlen
  cases hcd : SM83.cond c y
  · have e : u32 (c.pc + 2) % 65536 = (c.pc + 2) % 65536 := by simp only [u32]; omega
    simp only [Bool.false_eq_true, if_false, Except.map, Rel]
    refine ⟨cwf_next hc 2, ?_⟩
    simp only [finish, conc, SM83.next, and_ffff, e, statusOf]
  · simp only [if_true, Except.map, Rel]
    refine ⟨cwf_setPC hc _ (Nat.mod_lt _ (by decide)), ?_⟩
    simp only [finish, conc, and_ffff, jr_target c.pc b1 hpc hb1, statusOf, Nat.add_assoc, Nat.add_comm (clk / 4) 1]

/-! ### calls and returns -/

theorem push_gen (B : BusOps β) (r : Regs) (v : Nat) (m : β) :
    push B v r m =
      (B.write m (u16 (u16 r.sp + 65535)) ((v >>> 8) % 256)).bind fun m1 =>
        (B.write m1 (u16 (u16 (u16 r.sp + 65535) + 65535)) (v &&& 0xff)).bind fun m2 =>
          .ok ({ r with sp := u16 (u16 (u16 r.sp + 65535) + 65535) }, m2) := rfl

theorem pop_gen (B : BusOps β) (r : Regs) (m : β) :
    pop B r m =
      (B.read m (u16 r.sp)).bind fun lo => (B.read m (u16 (u16 r.sp + 1))).bind fun hi =>
        .ok ((hi <<< 8) ||| lo, { r with sp := u16 (u16 (u16 r.sp + 1) + 1) }) := rfl

theorem push_ip (B : BusOps β) {c : Cpu} (hc : CWF c) (k ip0 v : Nat) (m : β) :
    push B v { conc c k with ip := ip0 } m =
      (B.write m ((c.sp + 65535) % 65536) (v / 256 % 256)).bind fun m1 =>
        (B.write m1 ((c.sp + 65534) % 65536) (v % 256)).bind fun m2 =>
          .ok ({ conc { c with sp := (c.sp + 65534) % 65536 } k with ip := ip0 }, m2) := by
  have hsp := hc.hsp
  have e1 : u16 (u16 c.sp + 65535) = (c.sp + 65535) % 65536 := by simp only [u16]; omega
  have e2 : u16 (u16 (u16 c.sp + 65535) + 65535) = (c.sp + 65534) % 65536 := by simp only [u16]; omega
  rw [push_gen]
  show (B.write m (u16 (u16 c.sp + 65535)) ((v >>> 8) % 256)).bind (fun m1 =>
        (B.write m1 (u16 (u16 (u16 c.sp + 65535) + 65535)) (v &&& 0xff)).bind fun m2 =>
          .ok ({ conc c k with ip := ip0, sp := u16 (u16 (u16 c.sp + 65535) + 65535) }, m2)) = _
  rw [e2, e1, shr8, and_ff]
  simp only [conc]

theorem pop_ip (B : BusOps β) {c : Cpu} (hc : CWF c) (k ip0 : Nat) (m : β) :
    pop B { conc c k with ip := ip0 } m =
      (B.read m c.sp).bind fun lo => (B.read m ((c.sp + 1) % 65536)).bind fun hi =>
        .ok ((hi <<< 8) ||| lo, { conc { c with sp := (c.sp + 2) % 65536 } k with ip := ip0 }) := by
  have hsp := hc.hsp
  have e0 : u16 c.sp = c.sp := Nat.mod_eq_of_lt hsp
  have e1 : u16 (c.sp + 1) = (c.sp + 1) % 65536 := rfl
  have e2 : u16 ((c.sp + 1) % 65536 + 1) = (c.sp + 2) % 65536 := by simp only [u16]; omega
  rw [pop_gen]
  show (B.read m (u16 c.sp)).bind (fun lo => (B.read m (u16 (u16 c.sp + 1))).bind fun hi =>
        .ok ((hi <<< 8) ||| lo, { conc c k with ip := ip0, sp := u16 (u16 (u16 c.sp + 1) + 1) })) = _
  rw [e0, e1, e2]
  simp only [conc]

/-- push a return address and jump: stack bytes, SP, PC and cycles against `push16` -/
theorem push_jump (B : BusOps β) {c : Cpu} (hc : CWF c) (k ip0 v addr dk clk : Nat) (m : β) (haddr : addr < 65536) :
    Rel k (((push B v { conc c k with ip := ip0 } m).bind fun x =>
        (.ok ({ x.1 with ip := addr, cycles := x.1.cycles + dk }, x.2, STATUS_NORMAL) : Except Bus.Panic (Regs × β × Nat))).map
          (finish clk))
      ((SM83.push16 (memOf B) c m v).bind fun x => .ok ({ x.1 with pc := addr }, x.2, dk + clk / 4, .normal)) := by
  rw [push_ip B hc]
  show Rel k _ (Except.bind (Except.bind (B.write m ((c.sp + 65535) % 65536) (v / 256 % 256)) _) _)
  cases h1 : B.write m ((c.sp + 65535) % 65536) (v / 256 % 256) with
  | error e => simp only [Except.bind, Except.map, Rel]
  | ok m1 =>
    simp only [Except.bind]
    show Rel k _ (Except.bind (Except.bind (B.write m1 ((c.sp + 65534) % 65536) (v % 256)) _) _)
    cases h2 : B.write m1 ((c.sp + 65534) % 65536) (v % 256) with
    | error e => simp only [Except.bind, Except.map, Rel]
    | ok m2 =>
      simp only [Except.bind, Except.map, Rel]
      refine ⟨cwf_setPC (cwf_setSP hc _ (Nat.mod_lt _ (by decide))) _ haddr, ?_⟩
      simp only [finish, conc, and_ffff, Nat.mod_eq_of_lt haddr, Nat.add_assoc, statusOf]

/-- pop a return address and jump -/
theorem pop_jump (B : BusOps β) (hB : ByteBus B) {c : Cpu} (hc : CWF c) (k ip0 dk clk : Nat) (m : β) (out : Outcome) :
    Rel k (((pop B { conc c k with ip := ip0 } m).bind fun x =>
        (.ok ({ x.2 with ip := x.1, cycles := x.2.cycles + dk }, m, statusOf out) : Except Bus.Panic (Regs × β × Nat))).map
          (finish clk))
      ((SM83.pop16 (memOf B) c m).bind fun x => .ok ({ x.2 with pc := x.1 }, m, dk + clk / 4, out)) := by
  rw [pop_ip B hc]
  show Rel k _ (Except.bind (Except.bind (B.read m c.sp) _) _)
  cases h1 : B.read m c.sp with
  | error e => simp only [Except.bind, Except.map, Rel]
  | ok lo =>
    simp only [Except.bind]
    show Rel k _ (Except.bind (Except.bind (B.read m ((c.sp + 1) % 65536)) _) _)
    cases h2 : B.read m ((c.sp + 1) % 65536) with
    | error e => simp only [Except.bind, Except.map, Rel]
    | ok hi =>
      have hlo := hB _ _ _ h1
      have hhi := hB _ _ _ h2
      have hlt : hi * 256 + lo < 65536 := by omega
      simp only [Except.bind, Except.map, Rel, pair_val hi lo hlo]
      refine ⟨cwf_setPC (cwf_setSP hc _ (Nat.mod_lt _ (by decide))) _ hlt, ?_⟩
      simp only [finish, conc, and_ffff, Nat.mod_eq_of_lt hlt, Nat.add_assoc]

theorem cls_call (hb1 : b1 < 256) (hb2 : b2 < 256) (len clk cyc : Nat)
    (hd : Gen.decode b0 b1 b2 = (Op.Call .Always (b1 + 256 * b2), len, clk))
    (hs : ∀ c m, SM83.step (memOf B) c m b0 b1 b2 =
      (SM83.push16 (memOf B) c m ((c.pc + 3) % 65536)).bind fun x => .ok ({ x.1 with pc := b2 * 256 + b1 }, x.2, cyc, .normal))
    (hclk : 3 + clk / 4 = cyc) : Refines B b0 b1 b2 := by
  intro c k m hc
  have hrun : runOp B (Op.Call .Always (b1 + 256 * b2)) (conc c k) m len =
      (push B (u16 (u32 ((conc c k).ip + 3))) { conc c k with ip := u32 ((conc c k).ip + 3) } m).bind fun x =>
        .ok ({ x.1 with ip := b1 + 256 * b2, cycles := x.1.cycles + 3 }, x.2, STATUS_NORMAL) := rfl
  have hpc := hc.hpc
  have e : b1 + 256 * b2 = b2 * 256 + b1 := by omega
  have e2 : u16 (u32 (c.pc + 3)) = (c.pc + 3) % 65536 := by simp only [u16, u32]; omega
  rw [hs, stepModel_eq B b0 b1 b2 _ m _ len clk hd, hrun, conc_ip, e, e2]
  subst hclk
  exact push_jump B hc k _ _ _ 3 clk m (by omega)

theorem cls_call_cc (hb1 : b1 < 256) (hb2 : b2 < 256) (cnd : Cond) (hne : cnd ≠ .Always) (y len clk cycT cycN : Nat)
    (hd : Gen.decode b0 b1 b2 = (Op.Call cnd (b1 + 256 * b2), len, clk))
    (hs : ∀ c m, SM83.step (memOf B) c m b0 b1 b2 =
      if SM83.cond c y = true then
        (SM83.push16 (memOf B) c m ((c.pc + 3) % 65536)).bind fun x => .ok ({ x.1 with pc := b2 * 256 + b1 }, x.2, cycT, .normal)
      else .ok (SM83.next c len, m, cycN, .normal))
    (hy : idxC cnd = y) (hlen : len = 3) (hT : 3 + clk / 4 = cycT) (hN : clk / 4 = cycN) : Refines B b0 b1 b2 := by
  intro c k m hc
  have hrun : runOp B (Op.Call cnd (b1 + 256 * b2)) (conc c k) m len =
      if condHolds (conc c k).af cnd then
        (push B (u16 (u32 ((conc c k).ip + 3))) { conc c k with ip := u32 ((conc c k).ip + 3) } m).bind fun x =>
          .ok ({ x.1 with ip := b1 + 256 * b2, cycles := x.1.cycles + 3 }, x.2, STATUS_NORMAL)
      else .ok ({ conc c k with ip := u32 ((conc c k).ip + 3) }, m, STATUS_NORMAL) := rfl
  have hpc := hc.hpc
  have e : b1 + 256 * b2 = b2 * 256 + b1 := by omega
  have e2 : u16 (u32 (c.pc + 3)) = (c.pc + 3) % 65536 := by simp only [u16, u32]; omega
  rw [hs, stepModel_eq B b0 b1 b2 _ m _ len clk hd, hrun, cond_conc hc k cnd hne, hy, conc_ip, e, e2]
  subst hT hN hlen
  cases hcd : SM83.cond c y
  · have e3 : u32 (c.pc + 3) % 65536 = (c.pc + 3) % 65536 := by simp only [u32]; omega
    simp only [Bool.false_eq_true, if_false, Except.map, Rel]
    refine ⟨cwf_next hc 3, ?_⟩
    simp only [finish, conc, SM83.next, and_ffff, e3, statusOf]
  · simp only [if_true]
    exact push_jump B hc k _ _ _ 3 clk m (by omega)

theorem cls_rst (v len clk cyc : Nat) (hv : v < 65536)
    (hd : Gen.decode b0 b1 b2 = (Op.ResetVector v, len, clk))
    (hs : ∀ c m, SM83.step (memOf B) c m b0 b1 b2 =
      (SM83.push16 (memOf B) c m ((c.pc + 1) % 65536)).bind fun x => .ok ({ x.1 with pc := v }, x.2, cyc, .normal))
    (hclk : 0 + clk / 4 = cyc) : Refines B b0 b1 b2 := by
  intro c k m hc
  have hrun : runOp B (Op.ResetVector v) (conc c k) m len =
      (push B (u16 (u32 ((conc c k).ip + 1))) { conc c k with ip := u32 ((conc c k).ip + 1) } m).bind fun x =>
        .ok ({ x.1 with ip := v, cycles := x.1.cycles + 0 }, x.2, STATUS_NORMAL) := rfl
  have hpc := hc.hpc
  have e2 : u16 (u32 (c.pc + 1)) = (c.pc + 1) % 65536 := by simp only [u16, u32]; omega
  rw [hs, stepModel_eq B b0 b1 b2 _ m _ len clk hd, hrun, conc_ip, e2]
  subst hclk
  exact push_jump B hc k _ _ _ 0 clk m hv

theorem cls_ret (hB : ByteBus B) (len clk cyc : Nat)
    (hd : Gen.decode b0 b1 b2 = (Op.Return .Always, len, clk))
    (hs : ∀ c m, SM83.step (memOf B) c m b0 b1 b2 =
      (SM83.pop16 (memOf B) c m).bind fun x => .ok ({ x.2 with pc := x.1 }, m, cyc, .normal))
    (hclk : 3 + clk / 4 = cyc) : Refines B b0 b1 b2 := by
  intro c k m hc
  have hrun : runOp B (Op.Return .Always) (conc c k) m len =
      (pop B { conc c k with ip := (conc c k).ip + 1 } m).bind fun x =>
        .ok ({ x.2 with ip := x.1, cycles := x.2.cycles + 3 }, m, STATUS_NORMAL) := rfl
  rw [hs, stepModel_eq B b0 b1 b2 _ m _ len clk hd, hrun]
  subst hclk
  exact pop_jump B hB hc k _ 3 clk m .normal

theorem cls_ret_cc (hB : ByteBus B) (cnd : Cond) (hne : cnd ≠ .Always) (y len clk cycT cycN : Nat)
    (hd : Gen.decode b0 b1 b2 = (Op.Return cnd, len, clk))
    (hs : ∀ c m, SM83.step (memOf B) c m b0 b1 b2 =
      if SM83.cond c y = true then
        (SM83.pop16 (memOf B) c m).bind fun x => .ok ({ x.2 with pc := x.1 }, m, cycT, .normal)
      else .ok (SM83.next c len, m, cycN, .normal))
    (hy : idxC cnd = y) (hlen : len = 1) (hT : 3 + clk / 4 = cycT) (hN : clk / 4 = cycN) : Refines B b0 b1 b2 := by
  intro c k m hc
  have hrun : runOp B (Op.Return cnd) (conc c k) m len =
      if condHolds (conc c k).af cnd then
        (pop B { conc c k with ip := (conc c k).ip + 1 } m).bind fun x =>
          .ok ({ x.2 with ip := x.1, cycles := x.2.cycles + 3 }, m, STATUS_NORMAL)
      else .ok ({ conc c k with ip := (conc c k).ip + 1 }, m, STATUS_NORMAL) := rfl
  rw [hs, stepModel_eq B b0 b1 b2 _ m _ len clk hd, hrun, cond_conc hc k cnd hne, hy]
  subst hT hN hlen
  cases hcd : SM83.cond c y
  · simp only [Bool.false_eq_true, if_false, Except.map, Rel]
    refine ⟨cwf_next hc 1, ?_⟩
    simp only [finish, conc, SM83.next, and_ffff, statusOf]
  · simp only [if_true]
    exact pop_jump B hB hc k _ 3 clk m .normal

theorem cls_reti (hB : ByteBus B) (len clk cyc : Nat)
    (hd : Gen.decode b0 b1 b2 = (Op.ReturnFromInterrupt, len, clk))
    (hs : ∀ c m, SM83.step (memOf B) c m b0 b1 b2 =
      (SM83.pop16 (memOf B) c m).bind fun x => .ok ({ x.2 with pc := x.1 }, m, cyc, .reti))
    (hclk : 0 + clk / 4 = cyc) : Refines B b0 b1 b2 := by
  intro c k m hc
  have hrun : runOp B Op.ReturnFromInterrupt (conc c k) m len =
      (pop B { conc c k with ip := (conc c k).ip } m).bind fun x =>
        .ok ({ x.2 with ip := x.1, cycles := x.2.cycles + 0 }, m, statusOf .reti) := rfl
  rw [hs, stepModel_eq B b0 b1 b2 _ m _ len clk hd, hrun]
  subst hclk
  exact pop_jump B hB hc k _ 0 clk m .reti

end GbVerif.C05
