import GbVerif.Proofs.X86SimRmw
/-
C01, the bus side: BIT b,(HL).  The template reads (HL) into dl, reloads AF into ax, runs the register form of BIT on dl
(= the host location of E; r14b is scratch), stores al into the saved F and pops: no write-back.
-/
namespace GbVerif.X86
open GbVerif.JitCycles GbVerif.Interp
variable {β : Type}

/-- `test r8, mask` on the host location of a guest register: only the flags move -/
theorem step_test8_sim (B : BusOps β) (r : Reg8) (m : Nat) (hm : m < 256) (g : Regs) (st s1 : St β) (len : Nat) (hs : Sim g st)
    (h : step B st (.test8i (hostR8 r) m) len = .ok s1) :
    (∀ j, get s1 j = get st j) ∧ s1.bus = st.bus ∧ s1.stack = st.stack ∧ s1.r.size = st.r.size ∧
    s1.fl.zf = ((getReg g r &&& m) == 0) := by
  have e1 : step B st (.test8i (hostR8 r) m) len =
      .ok { ({ st with pc := st.pc + len } : St β) with fl := (aluOp .and 8 (get8 st (hostR8 r)) m st.fl).2 } := by
    simp only [step]
    rw [tokVal_lt _ _ hm]
    rfl
  rw [e1] at h
  injection h with h
  refine ⟨fun j => by rw [← h]; rfl, by rw [← h], by rw [← h], by rw [← h], ?_⟩
  rw [← h, ← get8_sim hs r]; rfl

def bitBodyAt (m : Nat) (r : Reg8) (o : Nat → Nat) : List (Nat × Instr) :=
  [(o 0, Instr.test8i (hostR8 r) m), (o 1, Instr.sete (R8.lo 14)), (o 2, Instr.sh8 ShOp.ror (R8.lo 14) 1),
   (o 3, Instr.alu8i AluOp.and (R8.lo 0) 16), (o 4, Instr.alu8i AluOp.or (R8.lo 0) 32), (o 5, Instr.alu8 AluOp.or (R8.lo 0) (R8.lo 14))]

theorem straight_bitBodyAt (m : Nat) (r : Reg8) (o : Nat → Nat) : straight (bitBodyAt m r o) := by
  intro p hp
  simp only [bitBodyAt, List.mem_cons, List.not_mem_nil, or_false] at hp
  rcases hp with e | e | e | e | e | e <;> subst e <;> exact ⟨fun _ _ e => Instr.noConfusion e, fun _ e => Instr.noConfusion e⟩

/-- the register form of BIT at any offsets -/
theorem bit_body_at (B : BusOps β) (m : Nat) (hm : m < 256) (r : Reg8) (o : Nat → Nat) (e : Nat) (g : Regs) (st s6 : St β) (hs : Sim g st)
    (h0 : g.af % 16 = 0) (hex : execList B e (bitBodyAt m r o) st = .ok s6) :
    Sim (testZero (orF (applyMask g 0xe0) 0x20) (getReg g r &&& m)) s6 ∧
    s6.bus = st.bus ∧ s6.stack = st.stack ∧ (get8 s6 (.lo 14) = 0 ∨ get8 s6 (.lo 14) = 0x80) := by
  unfold bitBodyAt at hex
  obtain ⟨s1, h1, hex⟩ := execList_cons B _ _ _ _ _ _ hex
  obtain ⟨s2, h2, hex⟩ := execList_cons B _ _ _ _ _ _ hex
  obtain ⟨s3, h3, hex⟩ := execList_cons B _ _ _ _ _ _ hex
  obtain ⟨s4, h4, hex⟩ := execList_cons B _ _ _ _ _ _ hex
  obtain ⟨s5, h5, hex⟩ := execList_cons B _ _ _ _ _ _ hex
  obtain ⟨s7, h6, hex⟩ := execList_cons B _ _ _ _ _ _ hex
  have := execList_nil B _ _ _ hex
  subst this
  have hsz := hs.size
  obtain ⟨r1, b1, st1, sz1, z1⟩ := step_test8_sim B r m hm g st s1 _ hs h1
  obtain ⟨v3, r3, b3, st3, sz3⟩ := step_sete_ror B s1 s2 s3 _ _ (by rw [sz1]; exact hsz) h2 h3
  obtain ⟨x4, r4, b4, st4, sz4⟩ := step_al B .and (Or.inl rfl) 16 (by decide) s3 s4 _ sz3 h4
  obtain ⟨x5, r5, b5, st5, sz5⟩ := step_al B .or (Or.inr (Or.inl rfl)) 32 (by decide) s4 s5 _ sz4 h5
  obtain ⟨x6, r6, b6, st6, sz6⟩ := step_or_al_r14 B s5 s6 _ sz5 h6
  have hf : (get st 0).toNat % 256 = g.af % 256 := by have := hs.af; omega
  have hhi : (get st 0).toNat / 256 % 256 = getReg g .A := by
    show _ = getHi g.af; rw [getHi_eq]; have := hs.af; omega
  rw [r3 0 (by decide), r1 0, hf, hhi] at x4
  have hA := getReg_lt g .A
  have l4 : (get s4 0).toNat % 256 = bitop .and (g.af % 256) 16 := by
    have hb := bitop_lt .and (g.af % 256) 16 (Nat.mod_lt _ (by decide)) (by decide)
    have : (get s4 0).toNat % 256 = (get s4 0).toNat % 65536 % 256 := by omega
    rw [this, x4]; omega
  have hi4 : (get s4 0).toNat / 256 % 256 = getReg g .A := by
    have hb := bitop_lt .and (g.af % 256) 16 (Nat.mod_lt _ (by decide)) (by decide)
    have : (get s4 0).toNat / 256 % 256 = (get s4 0).toNat % 65536 / 256 := by omega
    rw [this, x4]; omega
  rw [l4, hi4] at x5
  have hb5 := bitop_lt .or (bitop .and (g.af % 256) 16) 32 (bitop_lt .and (g.af % 256) 16 (Nat.mod_lt _ (by decide)) (by decide)) (by decide)
  have l5 : (get s5 0).toNat % 256 = bitop .or (bitop .and (g.af % 256) 16) 32 := by
    have : (get s5 0).toNat % 256 = (get s5 0).toNat % 65536 % 256 := by omega
    rw [this, x5]; omega
  have hi5 : (get s5 0).toNat / 256 % 256 = getReg g .A := by
    have : (get s5 0).toNat / 256 % 256 = (get s5 0).toNat % 65536 / 256 := by omega
    rw [this, x5]; omega
  have v5 : (get s5 14).toNat % 256 = (if s1.fl.zf then 0x80 else 0) := by
    rw [r5 14 (by decide), r4 14 (by decide)]; exact v3
  rw [l5, hi5, v5, z1, fBit_eq _ (Nat.mod_lt _ (by decide)) (by omega)] at x6
  have hg : g.af % 65536 = getReg g .A * 256 + g.af % 256 := by
    show g.af % 65536 = getHi g.af * 256 + g.af % 256
    rw [getHi_eq]; omega
  have i0 := applyMask_pack' g _ _ 0xe0 hA (Nat.mod_lt _ (by decide)) hg
  rw [show ((0xe0 ^^^ 0xff) % 256 : Nat) = 0x1f from rfl] at i0
  have c0 : g.af % 256 &&& 0x1f < 256 := Nat.lt_of_le_of_lt Nat.and_le_right (by decide)
  have i1 := orF_pack _ _ _ 0x20 c0 (by decide) i0
  have i2 := testZero_pack _ _ _ (getReg g r &&& m) (Nat.or_lt_two_pow (n := 8) c0 (by decide)) i1
  have hlt : (((g.af % 256 &&& 0x1f) ||| 0x20) ||| (if (getReg g r &&& m) == 0 then 0x80 else 0)) < 256 := by
    apply Nat.or_lt_two_pow (n := 8)
    · exact Nat.or_lt_two_pow (n := 8) c0 (by decide)
    · split <;> decide
  have rr : ∀ j, 0 ≠ j → 14 ≠ j → get s6 j = get st j := by
    intro j h0' h14
    rw [r6 j h0', r5 j h0', r4 j h0', r3 j h14, r1 j]
  obtain ⟨q1, q2, q3, q4, q5, q6⟩ := ((sameButAf_applyMask g 0xe0).trans (sameButAf_orF _ 0x20)).trans
    (sameButAf_testZero _ (getReg g r &&& m))
  refine ⟨⟨?_, ?_, ?_, ?_, ?_, ?_, ?_, sz6⟩, by rw [b6, b5, b4, b3, b1], by rw [st6, st5, st4, st3, st1], ?_⟩
  · rw [x6, i2]; omega
  · rw [rr 1 (by decide) (by decide), q3]; exact hs.hl
  · rw [rr 2 (by decide) (by decide), q2]; exact hs.de
  · rw [rr 3 (by decide) (by decide), q1]; exact hs.bc
  · rw [rr 12 (by decide) (by decide), q4]; exact hs.sp
  · rw [rr 13 (by decide) (by decide), q5]; exact hs.ip
  · rw [rr 15 (by decide) (by decide), q6]; exact hs.cy
  · show (get s6 14).toNat % 256 = 0 ∨ (get s6 14).toNat % 256 = 0x80
    rw [r6 14 (by decide), v5]
    cases s1.fl.zf
    · left; rfl
    · right; rfl

def rmrPost (o : Nat → Nat) : List (Nat × Instr) :=
  [(o 0, Instr.store8 4 16 (R8.lo 0)), (o 1, Instr.pop 2), (o 2, Instr.pop 1), (o 3, Instr.pop 0)]

/-- al replaces the saved F, rdx rcx rax are popped -/
theorem rmr_post (B : BusOps β) (o : Nat → Nat) (e : Nat) (sb s' : St β) (d2 d1 d0 : W) (rest : List W)
    (hk : sb.stack = d2 :: d1 :: d0 :: rest) (hsz : sb.r.size = 16) (hex : execList B e (rmrPost o) sb = .ok s') :
    get s' 2 = d2 ∧ get s' 1 = d1 ∧ (get s' 0).toNat % 65536 = (d0.toNat / 256 % 256) * 256 + (get sb 0).toNat % 256 ∧
    (∀ j, 0 ≠ j → 1 ≠ j → 2 ≠ j → get s' j = get sb j) ∧ s'.stack = rest ∧ s'.bus = sb.bus ∧ s'.r.size = 16 := by
  unfold rmrPost at hex
  obtain ⟨s1, h1, hex⟩ := execList_cons B _ _ _ _ _ _ hex
  obtain ⟨s6, h6, hex⟩ := execList_cons B _ _ _ _ _ _ hex
  obtain ⟨s7, h7, hex⟩ := execList_cons B _ _ _ _ _ _ hex
  obtain ⟨s8, h8, hex⟩ := execList_cons B _ _ _ _ _ _ hex
  have := execList_nil B _ _ _ hex
  subst this
  have hw : sb.stack[16 / 8]? = some d0 := by rw [hk]; rfl
  obtain ⟨r1, b1, z1, k1⟩ := step_store8_stack B sb s1 16 _ (.lo 0) d0 (by decide) hw h1
  rw [hk] at k1
  simp only [Nat.reduceDiv, Nat.reduceMod, List.set_cons_zero, List.set_cons_succ] at k1
  have Z1 : s1.r.size = 16 := by rw [z1]; exact hsz
  obtain ⟨w6, t6, e6, k6, g6, q6, b6, z6⟩ := step_pop B s1 s6 2 _ (by rw [Z1]; decide) h6
  obtain ⟨w7, t7, e7, k7, g7, q7, b7, z7⟩ := step_pop B s6 s7 1 _ (by rw [z6, Z1]; decide) h7
  obtain ⟨w8, t8, e8, k8, g8, q8, b8, z8⟩ := step_pop B s7 s' 0 _ (by rw [z7, z6, Z1]; decide) h8
  rw [k1] at e6
  obtain ⟨a6', e6⟩ := List.cons.inj e6
  rw [k6, ← e6] at e7
  obtain ⟨a7', e7⟩ := List.cons.inj e7
  rw [k7, ← e7] at e8
  obtain ⟨a8', e8⟩ := List.cons.inj e8
  refine ⟨by rw [q8 2 (by decide), q7 2 (by decide), g6]; exact a6'.symm, by rw [q8 1 (by decide), g7]; exact a7'.symm, ?_, ?_,
    by rw [k8]; exact e8.symm, by rw [b8, b7, b6, b1], by rw [z8, z7, z6]; exact Z1⟩
  · rw [g8, ← a8', BitVec.toNat_ofNat]
    have hx := d0.isLt
    have := poke_low16 d0.toNat (get8 sb (.lo 0)) 0 hx (by decide)
    simp only [Nat.zero_ne_one, if_false] at this
    rw [this]
    show d0.toNat / 256 % 256 * 256 + (get sb 0).toNat % 256 % 256 = _
    omega
  · intro j h0 h1' h2
    rw [q8 j h0, q7 j h1', q6 j h2, r1 j]

/-- read (HL) into dl, run the register form of a flags-only operation on E (= dl) with AF in ax, keep the flags -/
theorem rmr_wrap (B : BusOps β) (hB : ByteReads B) (mid : List (Nat × Instr)) (o : Nat → Nat) (e : Nat)
    (fr : Regs → Regs) (fi : Nat → Regs → Regs) (P : Regs → Prop) (hP : ∀ g1 g2 : Regs, g1.af = g2.af → P g1 → P g2)
    (H2 : ∀ g', (fr g').af = (fi (getReg g' .E) g').af)
    (H3 : ∀ (g1 g2 : Regs) v, g1.af = g2.af → (fi v g1).af = (fi v g2).af)
    (H4 : ∀ v g, SameButAf g (fi v g))
    (H5 : ∀ v (g : Regs), (fi v g).af % 65536 / 256 = g.af % 65536 / 256)
    (H6 : ∀ g', (fr g').bc = g'.bc ∧ (fr g').sp = g'.sp ∧ (fr g').ip = g'.ip ∧ (fr g').cycles = g'.cycles)
    (R : W → W → Prop)
    (hbody : ∀ (g' : Regs) (st0 s1 : St β), Sim g' st0 → P g' → execList B (headOff e (rmrPost o)) mid st0 = .ok s1 →
      Sim (fr g') s1 ∧ s1.bus = st0.bus ∧ s1.stack = st0.stack ∧ R (get st0 14) (get s1 14))
    (g : Regs) (st s' : St β) (hs : Sim g st) (hPg : P g)
    (hex : execList B e ((rmwPre ++ mid) ++ rmrPost o) st = .ok s') :
    ∃ v, B.read st.bus (getReg16 g .HL) = .ok v ∧ Sim (fi v g) s' ∧ s'.bus = st.bus ∧ s'.stack = st.stack ∧ R (get st 14) (get s' 14) := by
  obtain ⟨sb, hex1, hexp⟩ := execList_append B e _ _ st s' hex
  obtain ⟨sa, hpre, hbd⟩ := execList_append B _ _ rmwPre st sb hex1
  obtain ⟨v, hrd, hvlt, hdl, haf, hrest, hk, hb, hsz⟩ := rmw_pre B hB _ g st sa hs hpre
  have hsa : Sim ({ g with de := (get sa 2).toNat, hl := (get sa 1).toNat } : Regs) sa :=
    ⟨haf, rfl, rfl, by rw [hrest 3 (by decide)]; exact hs.bc,
     by rw [hrest 12 (by decide)]; exact hs.sp, by rw [hrest 13 (by decide)]; exact hs.ip, by rw [hrest 15 (by decide)]; exact hs.cy, hsz⟩
  have hE : getReg ({ g with de := (get sa 2).toNat, hl := (get sa 1).toNat } : Regs) .E = v := hdl
  obtain ⟨hsb, hubb, hubk, hR⟩ := hbody _ sa sb hsa (hP g _ rfl hPg) hbd
  have hkb : sb.stack = get st 2 :: get st 1 :: get st 0 :: st.stack := by rw [hubk]; exact hk
  obtain ⟨g2, g1, g0, hr', hk', hb', hz'⟩ := rmr_post B o e sb s' _ _ _ _ hkb hsb.size hexp
  have hfl : (get sb 0).toNat % 65536 = (fi v g).af % 65536 := by
    have h2 := H2 ({ g with de := (get sa 2).toNat, hl := (get sa 1).toNat } : Regs)
    rw [hE] at h2
    have h3 := H3 ({ g with de := (get sa 2).toNat, hl := (get sa 1).toNat } : Regs) g v rfl
    rw [hsb.af, h2, h3]
  obtain ⟨q1, q2, q3, q4, q5, q6⟩ := H4 v g
  obtain ⟨f1, f2, f3, f4⟩ := H6 ({ g with de := (get sa 2).toNat, hl := (get sa 1).toNat } : Regs)
  refine ⟨v, hrd, ⟨?_, ?_, ?_, ?_, ?_, ?_, ?_, hz'⟩, by rw [hb', hubb, hb], hk', ?_⟩
  · rw [g0]
    have h5 := H5 v g
    have ha := hs.af
    omega
  · rw [g1, q3]; exact hs.hl
  · rw [g2, q2]; exact hs.de
  · rw [hr' 3 (by decide) (by decide) (by decide), hsb.bc, f1, q1]
  · rw [hr' 12 (by decide) (by decide) (by decide), hsb.sp, f2, q4]
  · rw [hr' 13 (by decide) (by decide) (by decide), hsb.ip, f3, q5]
  · rw [hr' 15 (by decide) (by decide) (by decide), hsb.cy, f4, q6]
  · rw [hr' 14 (by decide) (by decide) (by decide), ← hrest 14 (by decide)]; exact hR

theorem straight_rmr (mid : List (Nat × Instr)) (o : Nat → Nat) (h : straight mid) : straight ((rmwPre ++ mid) ++ rmrPost o) := by
  refine straight_app (straight_app ?_ h) ?_
  · intro p hp
    simp only [rmwPre, List.mem_cons, List.not_mem_nil, or_false] at hp
    rcases hp with e | e | e | e | e | e | e | e | e <;> subst e <;> exact ⟨fun _ _ e => Instr.noConfusion e, fun _ e => Instr.noConfusion e⟩
  · intro p hp
    simp only [rmrPost, List.mem_cons, List.not_mem_nil, or_false] at hp
    rcases hp with e | e | e | e <;> subst e <;> exact ⟨fun _ _ e => Instr.noConfusion e, fun _ e => Instr.noConfusion e⟩

def bitHlOff (k : Nat) : Nat := [36, 39, 43, 46, 48, 50].getD k 0
def rmrOff (k : Nat) : Nat := [53, 57, 58, 59].getD k 0
def opcodeBitHl (b : Fin 8) : Nat := 0x46 + 8 * b.val

theorem table_bithl (b : Fin 8) (b2 : Nat) :
    decodeCode (Gen.emitCb (opcodeBitHl b)) = some (((rmwPre ++ bitBodyAt (bitMask b) .E bitHlOff) ++ rmrPost rmrOff) ++ [(60, addIp 2), (64, addCy 3)]) ∧
    bytesOf (Gen.emitCb (opcodeBitHl b)) = 68 ∧ Gen.decode 0xcb (opcodeBitHl b) b2 = (.BitTestIndirect (bitMask b), 2, 12) ∧
    codeOk (((rmwPre ++ bitBodyAt (bitMask b) .E bitHlOff) ++ rmrPost rmrOff) ++ [(60, addIp 2), (64, addCy 3)]) 68 = true := by
  have hb : b = 0 ∨ b = 1 ∨ b = 2 ∨ b = 3 ∨ b = 4 ∨ b = 5 ∨ b = 6 ∨ b = 7 := by
    obtain ⟨v, hv⟩ := b
    have : v = 0 ∨ v = 1 ∨ v = 2 ∨ v = 3 ∨ v = 4 ∨ v = 5 ∨ v = 6 ∨ v = 7 := by omega
    rcases this with e | e | e | e | e | e | e | e <;> subst e <;> simp
  rcases hb with e | e | e | e | e | e | e | e <;> subst e <;>
    exact ⟨by decide +kernel, by decide +kernel, rfl, rfl⟩

/-- `SimulatesCbMemS` from register files whose F has a clear low nibble (kept clear) -/
def SimulatesCbMemSF (b1 b2 : Nat) : Prop :=
  ∃ code, decodeCode (Gen.emitCb b1) = some code ∧
  ∀ (β : Type) (B : BusOps β), ByteReads B → ∀ (g : Regs) (fuel : Nat) (st st' : St β), Sim g st → g.af % 16 = 0 → st.pc = 0 →
    run B code (bytesOf (Gen.emitCb b1)) fuel st = .ok st' →
    ∃ g' m', runOp B (Gen.decode 0xcb b1 b2).1 g st.bus (Gen.decode 0xcb b1 b2).2.1 = .ok (g', m', STATUS_NORMAL) ∧
      Sim { g' with cycles := g'.cycles + (Gen.decode 0xcb b1 b2).2.2 / 4 } st' ∧ st'.bus = m' ∧ st'.stack = st.stack ∧
      (get8 st' (.lo 14) = 0 ∨ get8 st' (.lo 14) = 0x80)

theorem bitF_hiA (g : Regs) (x : Nat) : (testZero (orF (applyMask g 0xe0) 0x20) x).af % 65536 / 256 = g.af % 65536 / 256 := by
  have hA := getReg_lt g .A
  have hg : g.af % 65536 = getReg g .A * 256 + g.af % 256 := by
    show g.af % 65536 = getHi g.af * 256 + g.af % 256
    rw [getHi_eq]; omega
  have i0 := applyMask_pack' g _ _ 0xe0 hA (Nat.mod_lt _ (by decide)) hg
  rw [show ((0xe0 ^^^ 0xff) % 256 : Nat) = 0x1f from rfl] at i0
  have c0 : g.af % 256 &&& 0x1f < 256 := Nat.lt_of_le_of_lt Nat.and_le_right (by decide)
  have i1 := orF_pack _ _ _ 0x20 c0 (by decide) i0
  have i2 := testZero_pack _ _ _ x (Nat.or_lt_two_pow (n := 8) c0 (by decide)) i1
  have hlt : (((g.af % 256 &&& 0x1f) ||| 0x20) ||| (if x == 0 then 0x80 else 0)) < 256 := by
    apply Nat.or_lt_two_pow (n := 8)
    · exact Nat.or_lt_two_pow (n := 8) c0 (by decide)
    · split <;> decide
  exact hiA_pack _ _ _ hA hlt i2 g rfl

/-- **BIT b,(HL)** (8 bits): all states whose F has a clear low nibble, any bus; the status byte is left at 0 or 0x80 -/
theorem sim_bithl (b : Fin 8) (b2 : Nat) : SimulatesCbMemSF (opcodeBitHl b) b2 := by
  obtain ⟨hdec, hbytes, hop, hok⟩ := table_bithl b b2
  refine ⟨_, hdec, ?_⟩
  intro β B hB g fuel st st' hsim h0 hpc hrun
  rw [hbytes] at hrun
  rw [hop]
  show ∃ g' m', runOp B (.BitTestIndirect (bitMask b)) g st.bus 2 = .ok (g', m', STATUS_NORMAL) ∧ Sim { g' with cycles := g'.cycles + 12 / 4 } st' ∧ _
  rw [show (12 : Nat) / 4 = 3 from rfl]
  have hst : straight (((rmwPre ++ bitBodyAt (bitMask b) .E bitHlOff) ++ rmrPost rmrOff) ++ [(60, addIp 2), (64, addCy 3)]) :=
    straight_app (straight_rmr _ _ (straight_bitBodyAt _ _ _)) (tail_straight 60 64 2 3)
  have hex := run_execList B _ 68 hok hst 21 0 rfl fuel st st' (by rw [hpc]; rfl) hrun
  rw [List.drop_zero] at hex
  obtain ⟨s12, hb, ht⟩ := execList_append B 68 _ ((rmwPre ++ bitBodyAt (bitMask b) .E bitHlOff) ++ rmrPost rmrOff) st st' hex
  obtain ⟨v, hrd, hs12, hb12, hk12, h14⟩ := rmr_wrap B hB (bitBodyAt (bitMask b) .E bitHlOff) rmrOff 60
    (fun g' => testZero (orF (applyMask g' 0xe0) 0x20) (getReg g' .E &&& bitMask b))
    (fun v g => testZero (orF (applyMask g 0xe0) 0x20) (v &&& bitMask b))
    (fun g => g.af % 16 = 0) (fun g1 g2 h hp => by rw [← h]; exact hp)
    (fun _ => rfl)
    (fun g1 g2 v h => af_testZero _ _ _ (af_orF _ _ _ (af_applyMask _ _ _ h)))
    (fun v g => ((sameButAf_applyMask g 0xe0).trans (sameButAf_orF _ 0x20)).trans (sameButAf_testZero _ _))
    (fun v g => bitF_hiA g _)
    (fun g' => by
      obtain ⟨a, b', c, d⟩ := keep_sameButAf (((sameButAf_applyMask g' 0xe0).trans (sameButAf_orF _ 0x20)).trans (sameButAf_testZero _ (getReg g' .E &&& bitMask b)))
      exact ⟨a, b', c, d⟩)
    (fun _ b => b.toNat % 256 = 0 ∨ b.toNat % 256 = 0x80)
    (fun g' st0 s1 hs hp hex => bit_body_at B (bitMask b) (bitMask_lt b) .E bitHlOff _ g' st0 s1 hs hp hex)
    g st s12 hsim h0 hb
  obtain ⟨hs', hu'⟩ := sim_tail B hs12 60 64 68 2 3 (by decide) (by decide) ht
  refine ⟨advance (testZero (orF (applyMask g 0xe0) 0x20) (v &&& bitMask b)) 2, st.bus, ?_, ⟨hs'.af, hs'.hl, hs'.de, hs'.bc, hs'.sp, hs'.ip, hs'.cy, hs'.size⟩,
    by rw [hu'.bus, hb12], by rw [hu'.stack, hk12], ?_⟩
  · show (do let v ← B.read st.bus (getReg16 g .HL); _) = _
    simp only [bind, Except.bind, hrd]
  · have : get8 st' (.lo 14) = get8 s12 (.lo 14) := by
      show (get st' 14).toNat % 256 = (get s12 14).toNat % 256
      rw [hu'.r14]
    rw [this]; exact h14

/-! ### RL (HL), RR (HL) -/

def rtHlOff (k : Nat) : Nat := [0, 42, 43, 44, 47, 49, 52, 58, 63, 69, 71].getD k 0
def rmwOff8 (k : Nat) : Nat := [85, 89, 94, 104, 114, 116, 117, 118].getD k 0

def Rt2.opHl : Rt2 → Op
  | .rl => .RotateLeftIndirect | .rr => .RotateRightIndirect
def opcodeRtHl (k : Rt2) : Nat := k.base + 6

theorem table_rthl (k : Rt2) (b2 : Nat) :
    decodeCode (Gen.emitCb (opcodeRtHl k)) = some (((rmwPre ++ (rottBodyAt k .E 36 38 40 rtHlOff ++ zTail .E 73 75 79 82)) ++ rmwPost rmwOff8) ++ [(119, addIp 2), (123, addCy 4)]) ∧
    bytesOf (Gen.emitCb (opcodeRtHl k)) = 127 ∧ Gen.decode 0xcb (opcodeRtHl k) b2 = (k.opHl, 2, 16) := by
  cases k <;> exact ⟨by decide +kernel, by decide +kernel, rfl⟩

/-- **RL (HL), RR (HL)**: all states whose F has a clear low nibble, any bus; the status byte is left at 0 or 0x80 -/
theorem sim_rthl (k : Rt2) (b2 : Nat) : SimulatesCbMemSF (opcodeRtHl k) b2 := by
  obtain ⟨hdec, hbytes, hop⟩ := table_rthl k b2
  refine ⟨_, hdec, ?_⟩
  intro β B hB g fuel st st' hsim h0 hpc hrun
  rw [hbytes] at hrun
  rw [hop]
  show ∃ g' m', runOp B k.opHl g st.bus 2 = .ok (g', m', STATUS_NORMAL) ∧ Sim { g' with cycles := g'.cycles + 16 / 4 } st' ∧ _
  rw [show (16 : Nat) / 4 = 4 from rfl]
  have hlt256 : ∀ v af, v < 256 → (k.res v af).1 < 256 := fun v af hv =>
    (rotT_res k v hv af (mkFl (decide ((af % 256 &&& 16) + 240 + 0 ≥ 256))) rfl).2.2
  obtain ⟨v, bus', hrd, hwr, hs', hb', hk', h14'⟩ := rmw_finish B hB (rottBodyAt k .E 36 38 40 rtHlOff ++ zTail .E 73 75 79 82)
    (straight_app (straight_rottBodyAt k .E _ _ _ _) (straight_zTail .E _ _ _ _))
    rmwOff8 119 123 127 2 4 36 (by cases k <;> rfl) rfl (by decide) (by decide)
    (fun g' => flagsRot (setReg g' .E (k.res (getReg g' .E) g'.af).1) (k.res (getReg g' .E) g'.af) true)
    (fun v r => ((k.res v r.af).1, flagsRot r (k.res v r.af) true))
    (fun g => g.af % 16 = 0) (fun g1 g2 h hp => by rw [← h]; exact hp)
    (fun g' => by
      rw [getE_sameButAf (sameButAf_flagsRot _ _)]
      exact getReg_setReg_self g' .E _ (hlt256 _ _ (getReg_lt g' .E)))
    (fun g' => af_flagsRot _ _ _ _ rfl)
    (fun g1 g2 v h => by
      show (k.res v g1.af).1 = (k.res v g2.af).1 ∧ (flagsRot g1 (k.res v g1.af) true).af = (flagsRot g2 (k.res v g2.af) true).af
      rw [h]; exact ⟨rfl, af_flagsRot _ _ _ _ h⟩)
    (fun v g => sameButAf_flagsRot g _)
    (fun v g => by
      have hp := rotFlags_pack g (k.res v g.af)
      have hlt : (((g.af % 256 &&& 0x0f) ||| (if (k.res v g.af).2 then 0x10 else 0)) ||| (if (k.res v g.af).1 == 0 then 0x80 else 0)) < 256 := by
        apply Nat.or_lt_two_pow (n := 8)
        · apply Nat.or_lt_two_pow (n := 8)
          · exact Nat.lt_of_le_of_lt Nat.and_le_right (by decide)
          · split <;> decide
        · split <;> decide
      exact hiA_pack _ _ _ (getReg_lt g .A) hlt hp g rfl)
    (fun g' => by
      obtain ⟨a, b, c, d⟩ := keep_sameButAf (sameButAf_flagsRot (setReg g' .E (k.res (getReg g' .E) g'.af).1) (k.res (getReg g' .E) g'.af))
      exact ⟨a, b, c, d⟩)
    (fun _ b => b.toNat % 256 = 0 ∨ b.toNat % 256 = 0x80)
    (fun g' st0 s1 hs hp hex => rt_body_at B k .E 36 38 40 rtHlOff 73 75 79 82 _ g' st0 s1 hs hp hex)
    g fuel st st' hsim h0 hpc hrun
  refine ⟨advance (flagsRot g (k.res v g.af) true) 2, bus', ?_, ⟨hs'.af, hs'.hl, hs'.de, hs'.bc, hs'.sp, hs'.ip, hs'.cy, hs'.size⟩, hb', hk', h14'⟩
  cases k
  · show (do let (r, m) ← rmwHL B g st.bus (fun v r => let res := rlThrough v r.af; (res.1, flagsRot r res true)); _) = _
    simp only [rmwHL, bind, Except.bind, hrd, pure, Except.pure]
    have hwr' : B.write st.bus (getReg16 g .HL) (rlThrough v g.af).1 = .ok bus' := hwr
    simp only [hwr']
    rfl
  · show (do let (r, m) ← rmwHL B g st.bus (fun v r => let res := rrThrough v r.af; (res.1, flagsRot r res true)); _) = _
    simp only [rmwHL, bind, Except.bind, hrd, pure, Except.pure]
    have hwr' : B.write st.bus (getReg16 g .HL) (rrThrough v g.af).1 = .ok bus' := hwr
    simp only [hwr']
    rfl

end GbVerif.X86
