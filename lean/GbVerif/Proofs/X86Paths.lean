import GbVerif.Model.JitPaths
import GbVerif.Proofs.X86Cycles
/-
Soundness of the generic path walk `JitPaths.paths` for the executable x86 model: whatever relation `R` between
abstract states and machine states is (a) blind to the program counter and (b) carried by the transfer function across
every step of a non-jump instruction, every complete run of the code from a state related to `a` ends in a state
related to one of the abstract states the walk returns.
-/
namespace GbVerif.X86
open GbVerif.JitCycles GbVerif.JitPaths
variable {β : Type} {A : Type}

/-- what an instance has to show about its transfer function -/
structure Carries (B : Interp.BusOps β) (tr : Instr → A → Option A) (R : A → St β → Prop) : Prop where
  pc : ∀ a s pc', R a s → R a { s with pc := pc' }
  step : ∀ ins a a' s s1 len, (∀ c rel, ins ≠ .jcc c rel) → (∀ rel, ins ≠ .jmp rel) → tr ins a = some a' →
    R a s → s.r.size = 16 → step B s ins len = .ok s1 → R a' s1

theorem paths_sound (B : Interp.BusOps β) (tr : Instr → A → Option A) (R : A → St β → Prop) (hC : Carries B tr R)
    (code : List (Nat × Instr)) (endOff : Nat) (hok : codeOk code endOff = true) :
    ∀ (fa i : Nat) (a : A) (L : List A), paths tr code endOff i fa a = some L →
    ∀ (fr : Nat) (s s' : St β), s.r.size = 16 → s.pc = offAt code endOff i → R a s → run B code endOff fr s = .ok s' →
    ∃ a' ∈ L, R a' s' := by
  intro fa
  induction fa with
  | zero => intro i a L h; simp [paths] at h
  | succ fa ih =>
    intro i a L h fr s s' hsz hpc hR hrun
    cases fr with
    | zero => simp [run] at hrun
    | succ fr =>
    rw [paths] at h
    cases hget : code[i]? with
    | none =>
      rw [hget] at h; simp only [] at h
      split at h
      · injection h with h; subst h
        have hoe : offAt code endOff i = endOff := by unfold offAt; rw [hget]
        rw [run] at hrun
        have hpe : (s.pc == endOff) = true := by rw [hpc, hoe]; simp
        rw [hpe] at hrun; simp only [if_true] at hrun
        injection hrun with hrun; subst hrun
        exact ⟨a, List.mem_singleton.mpr rfl, hR⟩
      · cases h
    | some p =>
      obtain ⟨off, ins⟩ := p
      rw [hget] at h; simp only [] at h
      have hoff := offAt_of_get (endOff := endOff) hget
      obtain ⟨s1, hstep, hrun1⟩ := run_unfold B hok hget (hpc.trans hoff) hrun
      have hi : i < code.length := by
        rcases Nat.lt_or_ge i code.length with h' | h'
        · exact h'
        · rw [List.getElem?_eq_none h'] at hget; cases hget
      obtain ⟨_, _, hmono⟩ := codeOk_at hok hi
      rw [hoff] at hmono
      have hlen : off + (offAt code endOff (i + 1) - off) = offAt code endOff (i + 1) := by omega
      obtain ⟨hsz1, hpcn⟩ := step_size_pc B s s1 ins _ hstep
      rw [hsz] at hsz1
      have hspc : s.pc = off := hpc.trans hoff
      split at h
      · -- jcc
        rename_i c rel
        split at h
        · cases h
        · rename_i hrel
          have hrel' : rel < 128 := by omega
          split at h
          · rename_i j hidx
            have hidx' : indexOf code endOff (offAt code endOff (i + 1) + rel) = some j := hidx
            split at h
            · cases h
            · split at h
              · rename_i x y hx hy
                injection h with h; subst h
                simp only [step] at hstep
                injection hstep with hstep
                by_cases hcond : condHolds s.fl c = true
                · have hpc1 : s1.pc = offAt code endOff j := by
                    rw [indexOf_offAt hidx', ← hstep]
                    simp only [hcond, if_true]
                    show s.pc + _ + tokVal _ rel = _
                    rw [tokVal_lit _ _ hrel', hspc, hlen]
                  have hR1 : R a s1 := by
                    rw [← hstep]; simp only [hcond, if_true]
                    exact hC.pc _ _ _ (hC.pc _ _ _ hR)
                  obtain ⟨l, hl, he⟩ := ih j a y hy fr s1 s' hsz1 hpc1 hR1 hrun1
                  exact ⟨l, List.mem_append_right _ hl, he⟩
                · have hpc1 : s1.pc = offAt code endOff (i + 1) := by
                    rw [← hstep]
                    simp only [hcond, Bool.false_eq_true, if_false]
                    show s.pc + _ = _
                    rw [hspc, hlen]
                  have hR1 : R a s1 := by
                    rw [← hstep]; simp only [hcond, Bool.false_eq_true, if_false]
                    exact hC.pc _ _ _ hR
                  obtain ⟨l, hl, he⟩ := ih (i + 1) a x hx fr s1 s' hsz1 hpc1 hR1 hrun1
                  exact ⟨l, List.mem_append_left _ hl, he⟩
              · cases h
          · cases h
      · -- jmp
        rename_i rel
        split at h
        · cases h
        · rename_i hrel
          have hrel' : rel < 128 := by omega
          split at h
          · rename_i j hidx
            have hidx' : indexOf code endOff (offAt code endOff (i + 1) + rel) = some j := hidx
            split at h
            · cases h
            · simp only [step] at hstep
              injection hstep with hstep
              have hpc1 : s1.pc = offAt code endOff j := by
                rw [indexOf_offAt hidx', ← hstep]
                show s.pc + _ + tokVal _ rel = _
                rw [tokVal_lit _ _ hrel', hspc, hlen]
              have hR1 : R a s1 := by
                rw [← hstep]
                exact hC.pc _ _ _ (hC.pc _ _ _ hR)
              exact ih j a L h fr s1 s' hsz1 hpc1 hR1 hrun1
          · cases h
      · -- everything else: the transfer function
        rename_i hj1 hj2
        split at h
        · rename_i a' htr
          have hpc1 : s1.pc = offAt code endOff (i + 1) := by rw [hpcn hj1 hj2, hspc, hlen]
          have hR1 : R a' s1 := hC.step ins a a' s s1 _ hj1 hj2 htr hR hsz hstep
          exact ih (i + 1) a' L h fr s1 s' hsz1 hpc1 hR1 hrun1
        · cases h

theorem mem_mapAll {A B : Type} (f : A → Option B) : ∀ (l : List A) (l' : List B), mapAll f l = some l' →
    ∀ a ∈ l, ∃ b ∈ l', f a = some b
  | [], _, _, a, ha => by cases ha
  | x :: xs, l', h, a, ha => by
    unfold mapAll at h
    cases hx : f x with
    | none => rw [hx] at h; cases h
    | some y =>
      cases hxs : mapAll f xs with
      | none => rw [hx, hxs] at h; cases h
      | some ys =>
        rw [hx, hxs] at h
        injection h with h; subst h
        rcases List.mem_cons.mp ha with e | e
        · subst e; exact ⟨y, List.mem_cons_self, hx⟩
        · obtain ⟨b, hb, hf⟩ := mem_mapAll f xs ys hxs a e
          exact ⟨b, List.mem_cons_of_mem _ hb, hf⟩

/-- **what `analyse` means** on executions -/
theorem analyse_sound (B : Interp.BusOps β) (tr : Instr → A → Option A) (init : A) (fin : A → Option Nat)
    (R : A → St β → Prop) (hC : Carries B tr R)
    (tokens : List Nat) (code : List (Nat × Instr)) (C : List Nat)
    (hdec : decodeCode tokens = some code) (hok : codeOk code (bytesOf tokens) = true) (hA : analyse tr init fin tokens = some C)
    (fr : Nat) (s s' : St β) (hsz : s.r.size = 16) (hpc : s.pc = offAt code (bytesOf tokens) 0) (hR : R init s)
    (hrun : run B code (bytesOf tokens) fr s = .ok s') :
    ∃ a' n, R a' s' ∧ fin a' = some n ∧ n ∈ C := by
  unfold analyse at hA
  rw [hdec] at hA
  simp only [] at hA
  cases hL : paths tr code (bytesOf tokens) 0 (code.length + 2) init with
  | none => rw [hL] at hA; cases hA
  | some L =>
    rw [hL] at hA
    simp only [] at hA
    cases hM : mapAll fin L with
    | none => rw [hM] at hA; cases hA
    | some M =>
      rw [hM] at hA
      simp only [Option.map] at hA
      injection hA with hA; subst hA
      obtain ⟨a', ha', hR'⟩ := paths_sound B tr R hC code (bytesOf tokens) hok _ 0 init L hL fr s s' hsz hpc hR hrun
      obtain ⟨n, hn, hf⟩ := mem_mapAll fin L M hM a' ha'
      exact ⟨a', n, hR', hf, (mem_norm n M).mpr hn⟩

end GbVerif.X86
