import GbVerif.Proofs.X86SimAlu2
/-
C01, the data side, CB page: RES b,r and SET b,r for the seven registers and the eight bits (112 encodings).
-/
namespace GbVerif.X86
open GbVerif.JitCycles GbVerif.Interp
variable {β : Type}

/-- `Simulates` for a CB-prefixed encoding `CB b1` -/
def SimulatesCb (b1 b2 : Nat) : Prop :=
  ∃ code, decodeCode (Gen.emitCb b1) = some code ∧
  ∀ (β : Type) (B : BusOps β) (g : Regs) (m : β) (fuel : Nat) (st st' : St β), Sim g st → st.pc = 0 →
    run B code (bytesOf (Gen.emitCb b1)) fuel st = .ok st' →
    ∃ g', runOp B (Gen.decode 0xcb b1 b2).1 g m (Gen.decode 0xcb b1 b2).2.1 = .ok (g', m, STATUS_NORMAL) ∧
      Sim { g' with cycles := g'.cycles + (Gen.decode 0xcb b1 b2).2.2 / 4 } st' ∧ Untouched st st'

theorem sim_fl {g : Regs} {s : St β} (h : Sim g s) (fl : Flags) : Sim g { s with fl := fl } :=
  ⟨h.af, h.hl, h.de, h.bc, h.sp, h.ip, h.cy, h.size⟩

set_option maxRecDepth 4000 in
/-- `and/or r8, k` on the host location of a guest register -/
theorem step_bit_sim (B : BusOps β) (op : AluOp) (hop : op = .and ∨ op = .or) (r : Reg8) (k : Nat) (hk : k < 256) (g : Regs)
    (st s1 : St β) (len : Nat) (hs : Sim g st) (h : step B st (.alu8i op (hostR8 r) k) len = .ok s1) :
    Sim (setReg g r (bitop op (getReg g r) k)) s1 ∧ Untouched st s1 := by
  have hu : Untouched st s1 := untouched_step B st s1 _ _ h (by intro e; cases e)
    (by
      have hne : (op == .cmp) = false := by rcases hop with e | e <;> subst e <;> rfl
      simp only [destReg, hne, Bool.false_eq_true, if_false]; intro e; injection e with e; exact hostR8_ne14 r e)
    (fun _ e => by cases e) (fun _ e => by cases e) (fun e => by cases e) (fun e => by cases e)
    (fun _ _ _ _ e => by cases e) (fun _ _ _ e => by cases e)
  have hne : (op == .cmp) = false := by rcases hop with e | e <;> subst e <;> rfl
  have e1 : step B st (.alu8i op (hostR8 r) k) len =
      .ok { (set8 ({ st with pc := st.pc + len } : St β) (hostR8 r) (aluOp op 8 (get8 st (hostR8 r)) k st.fl).1) with
            fl := (aluOp op 8 (get8 st (hostR8 r)) k st.fl).2 } := by
    simp only [step, hne, Bool.false_eq_true, if_false]
    rw [tokVal_lt _ k hk]
    rfl
  rw [e1] at h
  injection h with h
  have hval : (aluOp op 8 (get8 st (hostR8 r)) k st.fl).1 = bitop op (getReg g r) k := by
    rw [get8_sim hs r]
    rcases hop with e | e <;> subst e <;> rfl
  refine ⟨?_, hu⟩
  rw [← h, hval]
  exact sim_fl (set8_sim (sim_pc hs _) r _ (bitop_lt op _ _ (getReg_lt g r) hk)) _

def bitMask (b : Fin 8) : Nat := 2 ^ b.val
def opcodeRes (b : Fin 8) (r : Reg8) : Nat := 0x80 + 8 * b.val + r8code r
def opcodeSet (b : Fin 8) (r : Reg8) : Nat := 0xc0 + 8 * b.val + r8code r

theorem table_res (b : Fin 8) (r : Reg8) (b2 : Nat) :
    decodeCode (Gen.emitCb (opcodeRes b r)) = some ([(0, Instr.alu8i AluOp.and (hostR8 r) ((bitMask b ^^^ 0xff) % 256))] ++ [(3, addIp 2), (7, addCy 2)]) ∧
    bytesOf (Gen.emitCb (opcodeRes b r)) = 11 ∧ Gen.decode 0xcb (opcodeRes b r) b2 = (.BitClear r (bitMask b), 2, 8) ∧
    decodeCode (Gen.emitCb (opcodeSet b r)) = some ([(0, Instr.alu8i AluOp.or (hostR8 r) (bitMask b))] ++ [(3, addIp 2), (7, addCy 2)]) ∧
    bytesOf (Gen.emitCb (opcodeSet b r)) = 11 ∧ Gen.decode 0xcb (opcodeSet b r) b2 = (.BitSet r (bitMask b), 2, 8) := by
  have hb : b = 0 ∨ b = 1 ∨ b = 2 ∨ b = 3 ∨ b = 4 ∨ b = 5 ∨ b = 6 ∨ b = 7 := by
    obtain ⟨v, hv⟩ := b
    have : v = 0 ∨ v = 1 ∨ v = 2 ∨ v = 3 ∨ v = 4 ∨ v = 5 ∨ v = 6 ∨ v = 7 := by omega
    rcases this with e | e | e | e | e | e | e | e <;> subst e <;> simp
  rcases hb with e | e | e | e | e | e | e | e <;> subst e <;> cases r <;>
    exact ⟨by decide +kernel, by decide +kernel, rfl, by decide +kernel, by decide +kernel, rfl⟩

theorem bitMask_lt (b : Fin 8) : bitMask b < 256 := by
  unfold bitMask
  have := b.isLt
  calc 2 ^ b.val ≤ 2 ^ 7 := Nat.pow_le_pow_right (by decide) (by omega)
    _ < 256 := by decide

/-- **RES b,r** (8 bits x 7 registers): all states -/
theorem sim_res (b : Fin 8) (r : Reg8) (b2 : Nat) : SimulatesCb (opcodeRes b r) b2 := by
  obtain ⟨hdec, hbytes, hop, _⟩ := table_res b r b2
  refine ⟨_, hdec, ?_⟩
  intro β B g m fuel st st' hsim hpc hrun
  rw [hbytes] at hrun
  rw [hop]
  show ∃ g', runOp B (.BitClear r (bitMask b)) g m 2 = .ok (g', m, STATUS_NORMAL) ∧ Sim { g' with cycles := g'.cycles + 8 / 4 } st' ∧ Untouched st st'
  rw [show (8 : Nat) / 4 = 2 from rfl]
  refine ⟨advance (setReg g r (getReg g r &&& ((bitMask b ^^^ 0xff) % 256))) 2, rfl, ?_⟩
  obtain ⟨h1, h2⟩ := sim_body B [(0, Instr.alu8i AluOp.and (hostR8 r) ((bitMask b ^^^ 0xff) % 256))] 3 7 11 2 2 g
    (setReg g r (getReg g r &&& ((bitMask b ^^^ 0xff) % 256))) rfl
    (straight_one _ _ (fun _ _ e => Instr.noConfusion e) (fun _ e => Instr.noConfusion e)) (by decide) (by decide)
    (body_one B 0 3 _ g _ (fun st s1 len hs h => step_bit_sim B .and (Or.inl rfl) r _ (Nat.mod_lt _ (by decide)) g st s1 len hs h))
    fuel st st' hsim (by rw [hpc]; rfl) hrun
  exact ⟨⟨h1.af, h1.hl, h1.de, h1.bc, h1.sp, h1.ip, h1.cy, h1.size⟩, h2⟩

/-- **SET b,r** (8 bits x 7 registers): all states -/
theorem sim_set (b : Fin 8) (r : Reg8) (b2 : Nat) : SimulatesCb (opcodeSet b r) b2 := by
  obtain ⟨_, _, _, hdec, hbytes, hop⟩ := table_res b r b2
  refine ⟨_, hdec, ?_⟩
  intro β B g m fuel st st' hsim hpc hrun
  rw [hbytes] at hrun
  rw [hop]
  show ∃ g', runOp B (.BitSet r (bitMask b)) g m 2 = .ok (g', m, STATUS_NORMAL) ∧ Sim { g' with cycles := g'.cycles + 8 / 4 } st' ∧ Untouched st st'
  rw [show (8 : Nat) / 4 = 2 from rfl]
  refine ⟨advance (setReg g r (getReg g r ||| bitMask b)) 2, rfl, ?_⟩
  obtain ⟨h1, h2⟩ := sim_body B [(0, Instr.alu8i AluOp.or (hostR8 r) (bitMask b))] 3 7 11 2 2 g
    (setReg g r (getReg g r ||| bitMask b)) rfl
    (straight_one _ _ (fun _ _ e => Instr.noConfusion e) (fun _ e => Instr.noConfusion e)) (by decide) (by decide)
    (body_one B 0 3 _ g _ (fun st s1 len hs h => step_bit_sim B .or (Or.inr rfl) r _ (bitMask_lt b) g st s1 len hs h))
    fuel st st' hsim (by rw [hpc]; rfl) hrun
  exact ⟨⟨h1.af, h1.hl, h1.de, h1.bc, h1.sp, h1.ip, h1.cy, h1.size⟩, h2⟩

end GbVerif.X86
