import GbVerif.Proofs.Sm83Leaf
/-! Refinement of the CB-prefixed opcodes CB 40..CB 5F (one goal per second byte). -/
namespace GbVerif.C05
open GbVerif.Interp GbVerif.Enum

set_option maxRecDepth 4000 in
theorem main_cb_2 {β : Type} {B : BusOps β} (hB : ByteBus B) : PTree (GoalCB B) 5 64 := by
  simp only [PTree]
  repeat' constructor
  all_goals (intro b2; sm83_leaf_cb hB)

end GbVerif.C05
