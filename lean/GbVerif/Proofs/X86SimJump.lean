import GbVerif.Proofs.X86SimMoves
/-
C01, the data side, the first block terminators: JP nn (`mov r13w, imm16 ; add r15, 4`) and JP HL (`mov r13w, cx ;
add r15, 1`).  No `add r13, len`: the template loads the guest PC.
-/
namespace GbVerif.X86
open GbVerif.JitCycles GbVerif.Interp
variable {β : Type}

/-- a host state whose registers other than r13 are those of `s` and whose r13 holds `v` in its low 16 bits -/
theorem sim_set_ip {g : Regs} {s s1 : St β} (h : Sim g s) (v : Nat)
    (hf : ∀ j, 13 ≠ j → get s1 j = get s j) (hv : (get s1 13).toNat % 65536 = v % 65536) (hsz : s1.r.size = 16) :
    Sim { g with ip := v } s1 :=
  ⟨by rw [hf 0 (by decide)]; exact h.af, by rw [hf 1 (by decide)]; exact h.hl, by rw [hf 2 (by decide)]; exact h.de,
   by rw [hf 3 (by decide)]; exact h.bc, by rw [hf 12 (by decide)]; exact h.sp, hv, by rw [hf 15 (by decide)]; exact h.cy, hsz⟩

/-- templates of the shape `ins ; add r15, cycles` where `ins` loads the guest PC -/
theorem sim_jump (B : BusOps β) (ins : Instr) (o2 e c : Nat) (g g1 : Regs)
    (hok : codeOk [(0, ins), (o2, addCy c)] e = true) (h1 : ∀ cc rel, ins ≠ .jcc cc rel) (h2 : ∀ rel, ins ≠ .jmp rel) (hc : c < 128)
    (fuel : Nat) (st st' : St β) (hsim : Sim g st) (hpc : st.pc = 0)
    (hstep : ∀ (s1 : St β) (len : Nat), step B st ins len = .ok s1 → Sim g1 s1 ∧ Untouched st s1)
    (hrun : run B [(0, ins), (o2, addCy c)] e fuel st = .ok st') :
    Sim { g1 with cycles := g1.cycles + c } st' ∧ Untouched st st' := by
  have hst : straight [(0, ins), (o2, addCy c)] := by
    intro q hq
    simp only [List.mem_cons, List.not_mem_nil, or_false] at hq
    rcases hq with e | e <;> subst e
    · exact ⟨h1, h2⟩
    · exact ⟨fun _ _ e => Instr.noConfusion e, fun _ e => Instr.noConfusion e⟩
  have hex := run_execList B _ _ hok hst 2 0 rfl fuel st st' (by rw [hpc]; rfl) hrun
  rw [List.drop_zero] at hex
  obtain ⟨s1, ha, hex⟩ := execList_cons B _ _ _ _ _ _ hex
  obtain ⟨s2, hb, hex⟩ := execList_cons B _ _ _ _ _ _ hex
  have := execList_nil B _ _ _ hex
  subst this
  obtain ⟨q1, u1⟩ := hstep s1 _ ha
  obtain ⟨q2, u2⟩ := sim_add_cycles B q1 c _ hc hb
  exact ⟨q2, u1.trans u2⟩

theorem table_jp (b1 b2 : Nat) :
    decodeCode (Gen.emitOp 0xc3) = some [(0, Instr.movi16 13 [256, 257]), (5, addCy 4)] ∧ bytesOf (Gen.emitOp 0xc3) = 9 ∧
    Gen.decode 0xc3 b1 b2 = (.Jump .Always (b1 + 256 * b2), 3, 16) ∧
    decodeCode (Gen.emitOp 0xe9) = some [(0, Instr.mov Size.w 13 1), (4, addCy 1)] ∧ bytesOf (Gen.emitOp 0xe9) = 8 ∧
    Gen.decode 0xe9 b1 b2 = (.JumpHL, 1, 4) :=
  ⟨by decide +kernel, by decide +kernel, rfl, by decide +kernel, by decide +kernel, rfl⟩

/-- **JP nn**: all states, every operand -/
theorem sim_jp (b1 b2 : Nat) : Simulates 0xc3 b1 b2 := by
  obtain ⟨hdec, hbytes, hop, _⟩ := table_jp b1 b2
  refine ⟨_, hdec, ?_⟩
  intro β B g m fuel st st' hsim hpc hop1 hop2 hrun
  rw [hbytes] at hrun
  rw [hop]
  show ∃ g', runOp B (.Jump .Always (b1 + 256 * b2)) g m 3 = .ok (g', m, STATUS_NORMAL) ∧ Sim { g' with cycles := g'.cycles + 16 / 4 } st' ∧ Untouched st st'
  rw [show (16 : Nat) / 4 = 4 from rfl]
  refine ⟨{ g with ip := b1 + 256 * b2 }, rfl, ?_⟩
  obtain ⟨h1, h2⟩ := sim_jump B (Instr.movi16 13 [256, 257]) 5 9 4 g { g with ip := b1 + 256 * b2 } rfl
    (fun _ _ e => Instr.noConfusion e) (fun _ e => Instr.noConfusion e) (by decide) fuel st st' hsim hpc
    (fun s1 len h => by
      have hu : Untouched st s1 := untouched_step B st s1 _ _ h (by intro e; cases e) (by simp [destReg])
        (fun _ e => by cases e) (fun _ e => by cases e) (fun e => by cases e) (fun e => by cases e)
        (fun _ _ _ _ e => by cases e) (fun _ _ _ e => by cases e)
      have e : step B st (.movi16 13 [256, 257]) len =
          .ok (setSz ({ st with pc := st.pc + len } : St β) .w 13 (st.op1 + 256 * (st.op2 + 256 * 0))) := rfl
      rw [e] at h; injection h with h
      refine ⟨sim_set_ip hsim _ ?_ ?_ ?_, hu⟩
      · intro j hj; rw [← h, get_setSz_ne _ _ _ _ _ hj]; rfl
      · rw [← h, toNat_setSz_w _ _ _ (by show 13 < st.r.size; rw [hsim.size]; decide), hop1, hop2]
        have := (get st 13).isLt
        show ((get st 13).toNat - (get st 13).toNat % 65536 + (b1 + 256 * (b2 + 256 * 0)) % 65536) % 2 ^ 64 % 65536 = _
        omega
      · rw [← h, size_setSz]; exact hsim.size)
    hrun
  exact ⟨⟨h1.af, h1.hl, h1.de, h1.bc, h1.sp, h1.ip, h1.cy, h1.size⟩, h2⟩

/-- **JP HL**: all states -/
theorem sim_jphl (b1 b2 : Nat) : Simulates 0xe9 b1 b2 := by
  obtain ⟨_, _, _, hdec, hbytes, hop⟩ := table_jp b1 b2
  refine ⟨_, hdec, ?_⟩
  intro β B g m fuel st st' hsim hpc _ _ hrun
  rw [hbytes] at hrun
  rw [hop]
  show ∃ g', runOp B .JumpHL g m 1 = .ok (g', m, STATUS_NORMAL) ∧ Sim { g' with cycles := g'.cycles + 4 / 4 } st' ∧ Untouched st st'
  rw [show (4 : Nat) / 4 = 1 from rfl]
  refine ⟨{ g with ip := getReg16 g .HL }, rfl, ?_⟩
  obtain ⟨h1, h2⟩ := sim_jump B (Instr.mov Size.w 13 1) 4 8 1 g { g with ip := getReg16 g .HL } rfl
    (fun _ _ e => Instr.noConfusion e) (fun _ e => Instr.noConfusion e) (by decide) fuel st st' hsim hpc
    (fun s1 len h => by
      have hu : Untouched st s1 := untouched_step B st s1 _ _ h (by intro e; cases e) (by simp [destReg])
        (fun _ e => by cases e) (fun _ e => by cases e) (fun e => by cases e) (fun e => by cases e)
        (fun _ _ _ _ e => by cases e) (fun _ _ _ e => by cases e)
      have e : step B st (.mov .w 13 1) len =
          .ok (setSz ({ st with pc := st.pc + len } : St β) .w 13 ((get st 1).toNat % 2 ^ 16)) := rfl
      rw [e] at h; injection h with h
      refine ⟨sim_set_ip hsim _ ?_ ?_ ?_, hu⟩
      · intro j hj; rw [← h, get_setSz_ne _ _ _ _ _ hj]; rfl
      · rw [← h, toNat_setSz_w _ _ _ (by show 13 < st.r.size; rw [hsim.size]; decide)]
        have := (get st 13).isLt
        have hh := hsim.hl
        show ((get st 13).toNat - (get st 13).toNat % 65536 + (get st 1).toNat % 2 ^ 16 % 65536) % 2 ^ 64 % 65536 = u16 g.hl % 65536
        unfold u16; omega
      · rw [← h, size_setSz]; exact hsim.size)
    hrun
  exact ⟨⟨h1.af, h1.hl, h1.de, h1.bc, h1.sp, h1.ip, h1.cy, h1.size⟩, h2⟩

end GbVerif.X86
