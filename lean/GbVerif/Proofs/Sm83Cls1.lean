import GbVerif.Proofs.Sm83Rel
import GbVerif.Proofs.Sm83Alu
import GbVerif.Proofs.Sm83Rot
import GbVerif.Proofs.Sm83Misc
/-!
Opcode classes, part 1 (data instructions): each lemma proves `Refines` for every encoding whose decoder entry,
`run_op` arm and SM83 semantics have the stated shape (the three shape hypotheses are closed by `rfl` on a
literal opcode with the operand bytes symbolic).
-/
namespace GbVerif.C05
open GbVerif.Interp GbVerif.Sm83Bits
open GbVerif.SM83 (Cpu mkF flagZ flagN flagH flagC Outcome)

variable {β : Type} {B : BusOps β} {b0 b1 b2 : Nat}

/-! ### guards (make a wrong class fail on the decoder entry, before any expensive unification) -/

def isIdOp : Op → Bool
  | .NoOp | .Stop | .Halt | .InterruptEnable | .InterruptDisable => true
  | _ => false

def isAluOp : Op → Bool
  | .Add8 .. | .AddWithCarry8 .. | .Sub8 .. | .SubWithCarry8 .. | .And8 .. | .Xor8 .. | .Or8 .. | .Compare8 ..
  | .AddAbsolute8 .. | .AddAbsoluteWithCarry8 .. | .SubAbsolute8 .. | .SubAbsoluteWithCarry8 .. | .AndAbsolute8 ..
  | .XorAbsolute8 .. | .OrAbsolute8 .. | .CompareAbsolute8 .. => true
  | _ => false

def isAluHLOp : Op → Bool
  | .AddIndirect | .AddIndirectWithCarry | .SubIndirect | .SubIndirectWithCarry | .AndIndirect | .XorIndirect
  | .OrIndirect | .CompareIndirect => true
  | _ => false

/-! ### no operand -/

/-- NOP, STOP, HALT, DI, EI: registers unchanged, PC advanced, status reported -/
theorem cls_id (op : Op) (len clk cyc : Nat) (out : Outcome) (st : Nat)
    (hd : Gen.decode b0 b1 b2 = (op, len, clk)) (hg : isIdOp op = true)
    (hs : ∀ c m, SM83.step (memOf B) c m b0 b1 b2 = .ok (SM83.next c len, m, cyc, out))
    (hrun : ∀ r m, runOp B op r m len = .ok (advance r len, m, st))
    (hclk : clk / 4 = cyc) (hst : statusOf out = st) : Refines B b0 b1 b2 :=
  cls_pure op len clk cyc out st id id hd hs hrun hclk hst (fun _ _ hc => ⟨rfl, hc⟩)

/-! ### 8-bit loads -/

theorem cls_ld_rr (d s : Reg8) (len clk cyc : Nat)
    (hd : Gen.decode b0 b1 b2 = (Op.Load8 d s, len, clk))
    (hs : ∀ c m, SM83.step (memOf B) c m b0 b1 b2 =
      .ok (SM83.next (SM83.setR c (idx d) (SM83.getR c (idx s))) len, m, cyc, .normal))
    (hclk : clk / 4 = cyc) : Refines B b0 b1 b2 :=
  cls_pure _ len clk cyc .normal _ (fun r => setReg r d (getReg r s)) (fun c => SM83.setR c (idx d) (SM83.getR c (idx s)))
    hd hs (fun _ _ => rfl) hclk rfl
    (fun c k hc => by rw [getReg_conc hc]; exact ⟨setReg_conc hc k d _ (getR_lt hc _), cwf_setR hc _ _ (getR_lt hc _)⟩)

theorem cls_ld_rn (hb1 : b1 < 256) (d : Reg8) (len clk cyc : Nat)
    (hd : Gen.decode b0 b1 b2 = (Op.Load8Immediate d b1, len, clk))
    (hs : ∀ c m, SM83.step (memOf B) c m b0 b1 b2 = .ok (SM83.next (SM83.setR c (idx d) b1) len, m, cyc, .normal))
    (hclk : clk / 4 = cyc) : Refines B b0 b1 b2 :=
  cls_pure _ len clk cyc .normal _ (fun r => setReg r d b1) (fun c => SM83.setR c (idx d) b1)
    hd hs (fun _ _ => rfl) hclk rfl
    (fun c k hc => ⟨setReg_conc hc k d _ hb1, cwf_setR hc _ _ hb1⟩)

/-! ### 8-bit ALU -/

/-- ALU A,r and ALU A,n -/
theorem cls_alu (op : Op) (len clk cyc y : Nat) (vm : Regs → Nat) (vs : Cpu → Nat)
    (hd : Gen.decode b0 b1 b2 = (op, len, clk)) (hg : isAluOp op = true)
    (hs : ∀ c m, SM83.step (memOf B) c m b0 b1 b2 = .ok (SM83.next (SM83.alu c y (vs c)) len, m, cyc, .normal))
    (hrun : ∀ r m, runOp B op r m len = .ok (advance (aluModel y r (vm r)) len, m, STATUS_NORMAL))
    (hclk : clk / 4 = cyc)
    (hv : ∀ c k, CWF c → vm (conc c k) = vs c ∧ vs c < 256) : Refines B b0 b1 b2 :=
  cls_pure op len clk cyc .normal _ (fun r => aluModel y r (vm r)) (fun c => SM83.alu c y (vs c)) hd hs hrun hclk rfl
    (fun c k hc => by
      obtain ⟨e, w⟩ := hv c k hc
      rw [e]; exact ⟨aluModel_conc hc k y _ w, cwf_alu hc y _ w⟩)

/-- ALU A,(HL) -/
theorem cls_alu_hl (hB : ByteBus B) (op : Op) (len clk cyc y : Nat)
    (hd : Gen.decode b0 b1 b2 = (op, len, clk)) (hg : isAluHLOp op = true)
    (hs : ∀ c m, SM83.step (memOf B) c m b0 b1 b2 =
      (B.read m (SM83.hl c)).bind fun v => .ok (SM83.next (SM83.alu c y v) len, m, cyc, .normal))
    (hrun : ∀ r m, runOp B op r m len =
      (B.read m (getReg16 r .HL)).bind fun v => .ok (advance (aluModel y r v) len, m, STATUS_NORMAL))
    (hclk : clk / 4 = cyc) : Refines B b0 b1 b2 :=
  cls_read hB op len clk cyc (fun r => getReg16 r .HL) SM83.hl (fun v r => aluModel y r v) (fun v c => SM83.alu c y v)
    hd hs hrun hclk (fun c k hc => getHL_conc hc k)
    (fun v c k hv hc => ⟨aluModel_conc hc k y v hv, cwf_alu hc y v hv⟩)

/-! ### INC / DEC r -/

theorem cls_inc8 (reg : Reg8) (len clk cyc : Nat)
    (hd : Gen.decode b0 b1 b2 = (Op.Increment8 reg, len, clk))
    (hs : ∀ c m, SM83.step (memOf B) c m b0 b1 b2 =
      .ok (SM83.next { SM83.setR c (idx reg) ((SM83.getR c (idx reg) + 1) % 256) with
        f := mkF (decide ((SM83.getR c (idx reg) + 1) % 256 = 0)) false (decide (SM83.getR c (idx reg) % 16 = 15)) (flagC c.f) } len,
        m, cyc, .normal))
    (hclk : clk / 4 = cyc) : Refines B b0 b1 b2 :=
  cls_pure _ len clk cyc .normal _
    (fun r => incFlags (getReg r reg) (setReg r reg (carryAdd (getReg r reg) 1).1)) _
    hd hs (fun _ _ => rfl) hclk rfl (fun c k hc => incReg_conc hc k reg)

theorem cls_dec8 (reg : Reg8) (len clk cyc : Nat)
    (hd : Gen.decode b0 b1 b2 = (Op.Decrement8 reg, len, clk))
    (hs : ∀ c m, SM83.step (memOf B) c m b0 b1 b2 =
      .ok (SM83.next { SM83.setR c (idx reg) ((SM83.getR c (idx reg) + 255) % 256) with
        f := mkF (decide ((SM83.getR c (idx reg) + 255) % 256 = 0)) true (decide (SM83.getR c (idx reg) % 16 = 0)) (flagC c.f) } len,
        m, cyc, .normal))
    (hclk : clk / 4 = cyc) : Refines B b0 b1 b2 :=
  cls_pure _ len clk cyc .normal _
    (fun r => decFlags (getReg r reg) (setReg r reg (carrySub (getReg r reg) 1).1)) _
    hd hs (fun _ _ => rfl) hclk rfl (fun c k hc => decReg_conc hc k reg)

/-! ### rotates on A, DAA, CPL, SCF, CCF -/

theorem cls_rotA (y : Nat) (hy : y < 8) (op : Op) (len clk cyc : Nat) (A : Cpu → Nat) (C : Cpu → Bool)
    (hd : Gen.decode b0 b1 b2 = (op, len, clk))
    (hrun : ∀ r m, runOp B op r m len = .ok (advance
      (flagsRot (setReg r .A (rotModel y (getReg r .A) r.af).1) (rotModel y (getReg r .A) r.af) false) len, m, STATUS_NORMAL))
    (hs : ∀ c m, SM83.step (memOf B) c m b0 b1 b2 =
      .ok (SM83.next { c with a := A c, f := mkF false false false (C c) } len, m, cyc, .normal))
    (hclk : clk / 4 = cyc)
    (hA : ∀ c, A c = (rotRes (if flagC c.f then 1 else 0) y c.a).1 ∧ C c = (rotRes (if flagC c.f then 1 else 0) y c.a).2) :
    Refines B b0 b1 b2 :=
  cls_pure op len clk cyc .normal _
    (fun r => flagsRot (setReg r .A (rotModel y (getReg r .A) r.af).1) (rotModel y (getReg r .A) r.af) false)
    (fun c => { c with a := A c, f := mkF false false false (C c) })
    hd hs hrun hclk rfl
    (fun c k hc => by
      simp only [(hA c).1, (hA c).2]
      exact rotA_conc hc k y hy)

theorem rra_val (c : Cpu) : c.a / 2 + (if flagC c.f = true then 128 else 0) = (rotRes (if flagC c.f then 1 else 0) 3 c.a).1 := by
  simp only [rotRes]; split <;> rfl

theorem cls_daa (len clk cyc : Nat)
    (hd : Gen.decode b0 b1 b2 = (Op.DAA, len, clk))
    (hs : ∀ c m, SM83.step (memOf B) c m b0 b1 b2 =
      .ok (SM83.next { c with a := (SM83.daa c.a c.f).1, f := (SM83.daa c.a c.f).2 } len, m, cyc, .normal))
    (hclk : clk / 4 = cyc) : Refines B b0 b1 b2 :=
  cls_pure _ len clk cyc .normal _ daa _ hd hs (fun _ _ => rfl) hclk rfl (fun c k hc => daa_conc hc k)

theorem cls_cpl (len clk cyc : Nat)
    (hd : Gen.decode b0 b1 b2 = (Op.ComplementA, len, clk))
    (hs : ∀ c m, SM83.step (memOf B) c m b0 b1 b2 =
      .ok (SM83.next { c with a := 255 - c.a, f := mkF (flagZ c.f) true true (flagC c.f) } len, m, cyc, .normal))
    (hclk : clk / 4 = cyc) : Refines B b0 b1 b2 :=
  cls_pure _ len clk cyc .normal _ (fun r => orF (orF (setReg r .A (u8 (getReg r .A ^^^ 0xff))) 0x40) 0x20) _
    hd hs (fun _ _ => rfl) hclk rfl (fun c k hc => cpl_conc hc k)

theorem cls_scf (len clk cyc : Nat)
    (hd : Gen.decode b0 b1 b2 = (Op.SetCarryFlag, len, clk))
    (hs : ∀ c m, SM83.step (memOf B) c m b0 b1 b2 =
      .ok (SM83.next { c with f := mkF (flagZ c.f) false false true } len, m, cyc, .normal))
    (hclk : clk / 4 = cyc) : Refines B b0 b1 b2 :=
  cls_pure _ len clk cyc .normal _ (fun r => orF (applyMask r 0x70) 0x10) _
    hd hs (fun _ _ => rfl) hclk rfl (fun c k hc => scf_conc hc k)

theorem cls_ccf (len clk cyc : Nat)
    (hd : Gen.decode b0 b1 b2 = (Op.ComplementCarryFlag, len, clk))
    (hs : ∀ c m, SM83.step (memOf B) c m b0 b1 b2 =
      .ok (SM83.next { c with f := mkF (flagZ c.f) false false (!flagC c.f) } len, m, cyc, .normal))
    (hclk : clk / 4 = cyc) : Refines B b0 b1 b2 :=
  cls_pure _ len clk cyc .normal _ (fun r => { applyMask r 0x60 with af := (applyMask r 0x60).af ^^^ 0x10 }) _
    hd hs (fun _ _ => rfl) hclk rfl (fun c k hc => ccf_conc hc k)

/-! ### 16-bit loads and arithmetic -/

theorem cls_ld16 (hb1 : b1 < 256) (hb2 : b2 < 256) (d : Reg16) (hdne : d ≠ .AF) (len clk cyc : Nat)
    (hd : Gen.decode b0 b1 b2 = (Op.Load16 d (b1 + 256 * b2), len, clk))
    (hs : ∀ c m, SM83.step (memOf B) c m b0 b1 b2 =
      .ok (SM83.next (SM83.setRP c (idx16 d) (b2 * 256 + b1)) len, m, cyc, .normal))
    (hclk : clk / 4 = cyc) : Refines B b0 b1 b2 :=
  cls_pure _ len clk cyc .normal _ (fun r => setReg16 r d (b1 + 256 * b2)) (fun c => SM83.setRP c (idx16 d) (b2 * 256 + b1))
    hd hs (fun _ _ => rfl) hclk rfl
    (fun c k hc => by
      have e : b1 + 256 * b2 = b2 * 256 + b1 := by omega
      rw [e]; exact ⟨setReg16_conc k d hdne _ (by omega), cwf_setRP hc _ _⟩)

theorem cls_incdec16 (d : Nat) (op : Op) (reg : Reg16) (hr : reg ≠ .AF) (len clk cyc : Nat)
    (hd : Gen.decode b0 b1 b2 = (op, len, clk))
    (hrun : ∀ r m, runOp B op r m len = .ok (advance (setReg16 r reg (u16 (getReg16 r reg + d))) len, m, STATUS_NORMAL))
    (hs : ∀ c m, SM83.step (memOf B) c m b0 b1 b2 =
      .ok (SM83.next (SM83.setRP c (idx16 reg) ((SM83.getRP c (idx16 reg) + d) % 65536)) len, m, cyc, .normal))
    (hclk : clk / 4 = cyc) : Refines B b0 b1 b2 :=
  cls_pure op len clk cyc .normal _ (fun r => setReg16 r reg (u16 (getReg16 r reg + d))) _
    hd hs hrun hclk rfl (fun c k hc => ⟨incdec16_conc hc k d reg hr, cwf_setRP hc _ _⟩)

theorem cls_addhl (src : Reg16) (hsrc : src ≠ .AF) (len clk cyc : Nat)
    (hd : Gen.decode b0 b1 b2 = (Op.AddHL src, len, clk))
    (hs : ∀ c m, SM83.step (memOf B) c m b0 b1 b2 =
      .ok (SM83.next { SM83.setHL c ((SM83.hl c + SM83.getRP c (idx16 src)) % 65536) with
        f := mkF (flagZ c.f) false (decide (SM83.hl c % 4096 + SM83.getRP c (idx16 src) % 4096 ≥ 4096))
          (decide (SM83.hl c + SM83.getRP c (idx16 src) ≥ 65536)) } len, m, cyc, .normal))
    (hclk : clk / 4 = cyc) : Refines B b0 b1 b2 :=
  cls_pure _ len clk cyc .normal _
    (fun r => testHalf (testCarry (applyMask (setReg16 r .HL (carryAdd16 (getReg16 r .HL) (getReg16 r src)).1) 0x70)
      (carryAdd16 (getReg16 r .HL) (getReg16 r src)).2.1) (carryAdd16 (getReg16 r .HL) (getReg16 r src)).2.2) _
    hd hs (fun _ _ => rfl) hclk rfl (fun c k hc => addHL_conc hc k src hsrc)

theorem cls_addsp (hb1 : b1 < 256) (len clk cyc : Nat)
    (hd : Gen.decode b0 b1 b2 = (Op.AddSP b1, len, clk))
    (hs : ∀ c m, SM83.step (memOf B) c m b0 b1 b2 =
      .ok (SM83.next { c with sp := (SM83.spPlus c.sp b1).1, f := (SM83.spPlus c.sp b1).2 } len, m, cyc, .normal))
    (hclk : clk / 4 = cyc) : Refines B b0 b1 b2 :=
  cls_pure _ len clk cyc .normal _
    (fun r => testHalf (testCarry (applyMask (setReg16 r .SP (addSigned (getReg16 r .SP) b1).1) 0xf0)
      (addSigned (getReg16 r .SP) b1).2.1) (addSigned (getReg16 r .SP) b1).2.2) _
    hd hs (fun _ _ => rfl) hclk rfl (fun c k hc => addSP_conc hc k b1 hb1)

theorem cls_ldhlsp (hb1 : b1 < 256) (len clk cyc : Nat)
    (hd : Gen.decode b0 b1 b2 = (Op.LoadStackOffset b1, len, clk))
    (hs : ∀ c m, SM83.step (memOf B) c m b0 b1 b2 =
      .ok (SM83.next { SM83.setHL c (SM83.spPlus c.sp b1).1 with f := (SM83.spPlus c.sp b1).2 } len, m, cyc, .normal))
    (hclk : clk / 4 = cyc) : Refines B b0 b1 b2 :=
  cls_pure _ len clk cyc .normal _
    (fun r => testHalf (testCarry (applyMask (setReg16 r .HL (addSigned (getReg16 r .SP) b1).1) 0xf0)
      (addSigned (getReg16 r .SP) b1).2.1) (addSigned (getReg16 r .SP) b1).2.2) _
    hd hs (fun _ _ => rfl) hclk rfl (fun c k hc => ldHLSP_conc hc k b1 hb1)

theorem cls_ldsphl (len clk cyc : Nat)
    (hd : Gen.decode b0 b1 b2 = (Op.LoadToStackPointer, len, clk))
    (hs : ∀ c m, SM83.step (memOf B) c m b0 b1 b2 = .ok (SM83.next { c with sp := SM83.hl c } len, m, cyc, .normal))
    (hclk : clk / 4 = cyc) : Refines B b0 b1 b2 :=
  cls_pure _ len clk cyc .normal _ (fun r => setReg16 r .SP (getReg16 r .HL)) _
    hd hs (fun _ _ => rfl) hclk rfl
    (fun c k hc => by rw [getHL_conc hc, setSP_conc]; exact ⟨rfl, cwf_setSP hc _ (hl_lt hc)⟩)

/-! ### CB-prefixed, register operand -/

theorem cls_cb_rot (y : Nat) (hy : y < 8) (op : Op) (reg : Reg8) (len clk cyc : Nat)
    (hd : Gen.decode b0 b1 b2 = (op, len, clk))
    (hrun : ∀ r m, runOp B op r m len = .ok (advance
      (flagsRot (setReg r reg (rotModel y (getReg r reg) r.af).1) (rotModel y (getReg r reg) r.af) true) len, m, STATUS_NORMAL))
    (hs : ∀ c m, SM83.step (memOf B) c m b0 b1 b2 =
      .ok (SM83.next { SM83.setR c (idx reg) (SM83.rot c.f y (SM83.getR c (idx reg))).1 with
        f := (SM83.rot c.f y (SM83.getR c (idx reg))).2 } len, m, cyc, .normal))
    (hclk : clk / 4 = cyc) : Refines B b0 b1 b2 :=
  cls_pure op len clk cyc .normal _
    (fun r => flagsRot (setReg r reg (rotModel y (getReg r reg) r.af).1) (rotModel y (getReg r reg) r.af) true) _
    hd hs hrun hclk rfl (fun c k hc => rotReg_conc hc k y hy reg)

theorem cls_cb_bit (reg : Reg8) (mask y len clk cyc : Nat)
    (hd : Gen.decode b0 b1 b2 = (Op.BitTest reg mask, len, clk))
    (hs : ∀ c m, SM83.step (memOf B) c m b0 b1 b2 =
      .ok (SM83.next { c with f := mkF (decide (SM83.getR c (idx reg) / 2 ^ y % 2 = 0)) false true (flagC c.f) } len, m, cyc, .normal))
    (hm : mask = 2 ^ y) (hclk : clk / 4 = cyc) : Refines B b0 b1 b2 :=
  cls_pure _ len clk cyc .normal _ (fun r => testZero (orF (applyMask r 0xe0) 0x20) (getReg r reg &&& mask)) _
    hd hs (fun _ _ => rfl) hclk rfl
    (fun c k hc => by subst hm; rw [getReg_conc hc, bitFlags_conc hc]; exact ⟨rfl, cwf_mkF hc ..⟩)

theorem cls_cb_set (reg : Reg8) (mask y len clk cyc : Nat) (hy : y < 8)
    (hd : Gen.decode b0 b1 b2 = (Op.BitSet reg mask, len, clk))
    (hs : ∀ c m, SM83.step (memOf B) c m b0 b1 b2 =
      .ok (SM83.next (SM83.setR c (idx reg) (SM83.getR c (idx reg) + (1 - SM83.getR c (idx reg) / 2 ^ y % 2) * 2 ^ y)) len, m, cyc, .normal))
    (hm : mask = 2 ^ y) (hclk : clk / 4 = cyc) : Refines B b0 b1 b2 :=
  cls_pure _ len clk cyc .normal _ (fun r => setReg r reg (getReg r reg ||| mask)) _
    hd hs (fun _ _ => rfl) hclk rfl
    (fun c k hc => by
      subst hm
      have hv := getR_lt hc (idx reg)
      have hl := bit_set_lt _ y hv hy
      rw [getReg_conc hc, setReg_conc hc k reg _ hl, bit_set _ y hv hy]
      rw [bit_set _ y hv hy] at hl
      exact ⟨rfl, cwf_setR hc _ _ hl⟩)

theorem cls_cb_res (reg : Reg8) (mask y len clk cyc : Nat) (hy : y < 8)
    (hd : Gen.decode b0 b1 b2 = (Op.BitClear reg mask, len, clk))
    (hs : ∀ c m, SM83.step (memOf B) c m b0 b1 b2 =
      .ok (SM83.next (SM83.setR c (idx reg) (SM83.getR c (idx reg) - (SM83.getR c (idx reg) / 2 ^ y % 2) * 2 ^ y)) len, m, cyc, .normal))
    (hm : mask = 2 ^ y) (hclk : clk / 4 = cyc) : Refines B b0 b1 b2 :=
  cls_pure _ len clk cyc .normal _ (fun r => setReg r reg (getReg r reg &&& ((mask ^^^ 0xff) % 256))) _
    hd hs (fun _ _ => rfl) hclk rfl
    (fun c k hc => by
      subst hm
      have hv := getR_lt hc (idx reg)
      have hl := bit_clear_lt _ ((2 ^ y ^^^ 0xff) % 256) hv
      rw [getReg_conc hc, setReg_conc hc k reg _ hl, bit_clear _ y hv hy]
      rw [bit_clear _ y hv hy] at hl
      exact ⟨rfl, cwf_setR hc _ _ hl⟩)

end GbVerif.C05
