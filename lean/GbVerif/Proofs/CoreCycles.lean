import GbVerif.Model.Core
import GbVerif.Props.C06
/-!
C09 (and C08): the cycle counter of the register file only grows inside `run_op` / `run_next_op` /
`run_code_block`, by at least one machine cycle per instruction (every decoder clock entry is ≥ 4 clocks) and by at
most 6 + 3 (largest table entry 24 clocks; a taken CALL/RET adds 3).
-/
namespace GbVerif.CoreProofs
open GbVerif.Interp

section regs
variable (r : Regs)

@[simp] theorem setReg_cycles (reg : Reg8) (v : Nat) : (setReg r reg v).cycles = r.cycles := by cases reg <;> rfl
@[simp] theorem setReg16_cycles (reg : Reg16) (v : Nat) : (setReg16 r reg v).cycles = r.cycles := by cases reg <;> rfl
@[simp] theorem applyMask_cycles (m : Nat) : (applyMask r m).cycles = r.cycles := rfl
@[simp] theorem orF_cycles (m : Nat) : (orF r m).cycles = r.cycles := rfl
@[simp] theorem testZero_cycles (v : Nat) : (testZero r v).cycles = r.cycles := by unfold testZero; split <;> rfl
@[simp] theorem testHalf_cycles (f : Bool) : (testHalf r f).cycles = r.cycles := by unfold testHalf; split <;> rfl
@[simp] theorem testCarry_cycles (f : Bool) : (testCarry r f).cycles = r.cycles := by unfold testCarry; split <;> rfl
@[simp] theorem setNeg_cycles : (setNeg r).cycles = r.cycles := rfl
@[simp] theorem flagsAdd_cycles (x : Nat × Bool × Bool) : (flagsAdd r x).cycles = r.cycles := by simp [flagsAdd]
@[simp] theorem flagsSub_cycles (x : Nat × Bool × Bool) : (flagsSub r x).cycles = r.cycles := by simp [flagsSub]
@[simp] theorem opAdd_cycles (v : Nat) (d : Reg8) : (opAdd r v d).cycles = r.cycles := by simp [opAdd]
@[simp] theorem opAdc_cycles (v : Nat) (d : Reg8) : (opAdc r v d).cycles = r.cycles := by simp [opAdc]
@[simp] theorem opSub_cycles (v : Nat) (d : Reg8) : (opSub r v d).cycles = r.cycles := by simp [opSub]
@[simp] theorem opSbc_cycles (v : Nat) (d : Reg8) : (opSbc r v d).cycles = r.cycles := by simp [opSbc]
@[simp] theorem opAnd_cycles (v : Nat) (d : Reg8) : (opAnd r v d).cycles = r.cycles := by simp [opAnd]
@[simp] theorem opXor_cycles (v : Nat) (d : Reg8) : (opXor r v d).cycles = r.cycles := by simp [opXor]
@[simp] theorem opOr_cycles (v : Nat) (d : Reg8) : (opOr r v d).cycles = r.cycles := by simp [opOr]
@[simp] theorem opCp_cycles (v : Nat) : (opCp r v).cycles = r.cycles := by simp [opCp]
@[simp] theorem flagsRot_cycles (x : Nat × Bool) (z : Bool) : (flagsRot r x z).cycles = r.cycles := by
  unfold flagsRot; simp only []; split <;> simp
@[simp] theorem daa_cycles : (daa r).cycles = r.cycles := rfl

end regs

/-- normalise `.cycles` of every register-file helper by rewriting (never by kernel unfolding: the register updates
contain `% 2^32` on symbolic values) and close the arithmetic goal -/
macro "cycs" : tactic => `(tactic| (
  simp only [setReg_cycles, setReg16_cycles, applyMask_cycles, orF_cycles, testZero_cycles, testHalf_cycles, testCarry_cycles,
    setNeg_cycles, flagsAdd_cycles, flagsSub_cycles, opAdd_cycles, opAdc_cycles, opSub_cycles, opSbc_cycles, opAnd_cycles,
    opXor_cycles, opOr_cycles, opCp_cycles, flagsRot_cycles, daa_cycles]))

macro "cyc" : tactic => `(tactic| (
  try simp only [advance]
  try simp only [setReg_cycles, setReg16_cycles, applyMask_cycles, orF_cycles, testZero_cycles, testHalf_cycles, testCarry_cycles,
    setNeg_cycles, flagsAdd_cycles, flagsSub_cycles, opAdd_cycles, opAdc_cycles, opSub_cycles, opSbc_cycles, opAnd_cycles,
    opXor_cycles, opOr_cycles, opCp_cycles, flagsRot_cycles, daa_cycles]
  omega))

theorem bind_ok_elim {ε α β : Type} {x : Except ε α} {f : α → Except ε β} {b : β} (h : (x >>= f) = .ok b) :
    ∃ a, x = .ok a ∧ f a = .ok b := by
  cases x with
  | error e => cases h
  | ok a => exact ⟨a, rfl, h⟩

variable {β : Type} (B : BusOps β)

theorem push_cycles {v : Nat} {r r' : Regs} {m m' : β} (h : push B v r m = .ok (r', m')) : r'.cycles = r.cycles := by
  unfold push at h
  obtain ⟨m1, _, h⟩ := bind_ok_elim h
  obtain ⟨m2, _, h⟩ := bind_ok_elim h
  injection h with h; injection h with h1 h2; subst h1; simp

theorem pop_cycles {r r' : Regs} {m : β} {v : Nat} (h : pop B r m = .ok (v, r')) : r'.cycles = r.cycles := by
  unfold pop at h
  obtain ⟨lo, _, h⟩ := bind_ok_elim h
  obtain ⟨hi, _, h⟩ := bind_ok_elim h
  injection h with h; injection h with h1 h2; subst h2; simp

theorem rmwHL_cycles {r r' : Regs} {m m' : β} {f : Nat → Regs → Nat × Regs} (hf : ∀ v r, (f v r).2.cycles = r.cycles)
    (h : rmwHL B r m f = .ok (r', m')) : r'.cycles = r.cycles := by
  unfold rmwHL at h
  obtain ⟨v, _, h⟩ := bind_ok_elim h
  obtain ⟨m1, _, h⟩ := bind_ok_elim h
  injection h with h; injection h with h1 h2; subst h1; exact hf _ _

theorem push_cycles' {v : Nat} {r : Regs} {m : β} {p : Regs × β} (h : push B v r m = .ok p) : p.1.cycles = r.cycles :=
  push_cycles B (r' := p.1) (m' := p.2) h

theorem pop_cycles' {r : Regs} {m : β} {p : Nat × Regs} (h : pop B r m = .ok p) : p.2.cycles = r.cycles :=
  pop_cycles B (v := p.1) (r' := p.2) h

theorem rmwHL_cycles' {r : Regs} {m : β} {f : Nat → Regs → Nat × Regs} {p : Regs × β} (h : rmwHL B r m f = .ok p)
    (hf : ∀ v r, (f v r).2.cycles = r.cycles) : p.1.cycles = r.cycles :=
  rmwHL_cycles B (r' := p.1) (m' := p.2) hf h

theorem leaf_adv {X r' : Regs} {len : Nat} {a b : β} {s t : Nat}
    (h : (Except.ok (advance X len, a, s) : Except Bus.Panic (Regs × β × Nat)) = .ok (r', b, t)) : r'.cycles = X.cycles := by
  injection h with h; injection h with h1; subst h1; rfl

/-- the generic leaf tactic: split the binds of `h`, read off the result, normalise `.cycles` -/
macro "leaf" h:ident : tactic => `(tactic| (
  (repeat' split at $h:ident)
  all_goals try contradiction
  all_goals try simp only [Except.ok.injEq, Prod.mk.injEq] at $h:ident
  all_goals try (obtain ⟨h1, h2, h3⟩ := $h:ident; subst h1 h2 h3)
  all_goals try (have hp := push_cycles' _ (by assumption); try simp only [] at hp)
  all_goals try (have hq := pop_cycles' _ (by assumption); try simp only [] at hq)
  all_goals try (have hr := rmwHL_cycles' _ (by assumption) (by intro v r; cycs))
  all_goals try (cyc; done)))

theorem runOp_cycles_to (loc : Indirect) (reg : Reg8) (r : Regs) (m : β) (len : Nat) (r' : Regs) (m' : β) (st : Nat)
    (h : runOp B (.LoadToIndirect loc reg) r m len = .ok (r', m', st)) : r.cycles ≤ r'.cycles ∧ r'.cycles ≤ r.cycles + 3 := by
  cases loc <;> simp only [runOp, bind, Except.bind] at h
  case HLDecrement =>
    -- the new HL is `u32 (hl + 0xffffffff) & 0xffff`: the kernel must never be asked to compare the register file
    -- holding it with `r` (it would unfold `%` on a symbolic value), so the cycles field is read off by a lemma
    split at h
    · contradiction
    · rw [leaf_adv h]; exact ⟨Nat.le_refl _, Nat.le_add_right _ _⟩
  all_goals leaf h


theorem runOp_cycles_from (reg : Reg8) (loc : Indirect) (r : Regs) (m : β) (len : Nat) (r' : Regs) (m' : β) (st : Nat)
    (h : runOp B (.LoadFromIndirect reg loc) r m len = .ok (r', m', st)) : r.cycles ≤ r'.cycles ∧ r'.cycles ≤ r.cycles + 3 := by
  cases loc <;> simp only [runOp, bind, Except.bind] at h
  all_goals
    split at h
    · contradiction
    · rw [leaf_adv h]
      first
        | (rw [setReg_cycles]; exact ⟨Nat.le_refl _, Nat.le_add_right _ _⟩)
        | (show r.cycles ≤ (setReg r reg _).cycles ∧ (setReg r reg _).cycles ≤ r.cycles + 3
           rw [setReg_cycles]; exact ⟨Nat.le_refl _, Nat.le_add_right _ _⟩)


theorem runOp_cycles (op : Op) (r : Regs) (m : β) (len : Nat) (r' : Regs) (m' : β) (st : Nat)
    (h : runOp B op r m len = .ok (r', m', st)) : r.cycles ≤ r'.cycles ∧ r'.cycles ≤ r.cycles + 3 := by
  cases op
  case LoadToIndirect loc reg => exact runOp_cycles_to B loc reg r m len r' m' st h
  case LoadFromIndirect reg loc => exact runOp_cycles_from B reg loc r m len r' m' st h
  all_goals simp only [runOp, bind, Except.bind, pure, Except.pure] at h
  all_goals leaf h

/-! ### decoder clocks: every entry is between 4 and 24 clocks, for every byte value (and any `Nat`) -/

theorem opClocks_big (b0 : Nat) (h : 255 ≤ b0) : Gen.opClocks b0 = 16 := by
  unfold Gen.opClocks
  rw [if_neg (by omega), if_neg (by omega), if_neg (by omega), if_neg (by omega), if_neg (by omega), if_neg (by omega),
    if_neg (by omega), if_neg (by omega)]

theorem cbOpClocks_big (b1 : Nat) (h : 255 ≤ b1) : Gen.cbOpClocks b1 = 8 := by
  unfold Gen.cbOpClocks
  rw [if_neg (by omega), if_neg (by omega), if_neg (by omega), if_neg (by omega), if_neg (by omega), if_neg (by omega),
    if_neg (by omega), if_neg (by omega)]

theorem opClocks_le : ∀ b0, b0 < 2^8 → Gen.opClocks b0 ≤ 24 := by
  intro b0 hb
  have := Enum.forall_lt_of_allRange (fun b0 => decide (Gen.opClocks b0 ≤ 24)) 8 (by decide +kernel) b0 hb
  exact of_decide_eq_true this

theorem cbOpClocks_le : ∀ b1, b1 < 2^8 → Gen.cbOpClocks b1 ≤ 16 := by
  intro b1 hb
  have := Enum.forall_lt_of_allRange (fun b1 => decide (Gen.cbOpClocks b1 ≤ 16)) 8 (by decide +kernel) b1 hb
  exact of_decide_eq_true this

/-- the clock entry `decode` returns: at least one machine cycle, at most six, a whole number of machine cycles -/
theorem decode_clocks (b0 b1 b2 : Nat) :
    4 ≤ (Gen.decode b0 b1 b2).2.2 ∧ (Gen.decode b0 b1 b2).2.2 ≤ 24 ∧ (Gen.decode b0 b1 b2).2.2 % 4 = 0 := by
  unfold Gen.decode
  split
  · show 4 ≤ Gen.cbOpClocks b1 ∧ Gen.cbOpClocks b1 ≤ 24 ∧ Gen.cbOpClocks b1 % 4 = 0
    by_cases hb : b1 < 256
    · have := C06.cb_clocks_pos b1 hb; have := cbOpClocks_le b1 hb; omega
    · rw [cbOpClocks_big b1 (by omega)]; omega
  · rename_i hne
    show 4 ≤ Gen.opClocks b0 ∧ Gen.opClocks b0 ≤ 24 ∧ Gen.opClocks b0 % 4 = 0
    by_cases hb : b0 < 256
    · have := C06.clocks_pos b0 hb hne; have := opClocks_le b0 hb; omega
    · rw [opClocks_big b0 (by omega)]; omega

/-- `run_next_op` charges between 1 and 9 machine cycles (table entry /4, +1 for a taken JP/JR, +3 for a taken CALL/RET) -/
theorem runNextOp_cycles {r r' : Regs} {s s' : Bus.State} {st : Nat} {e : Bool}
    (h : Cpu.runNextOp r s = .ok (r', s', st, e)) : r.cycles + 1 ≤ r'.cycles ∧ r'.cycles ≤ r.cycles + 9 := by
  unfold Cpu.runNextOp at h
  obtain ⟨⟨b0, b1, b2⟩, _, h⟩ := bind_ok_elim h
  have hk := decode_clocks b0 b1 b2
  simp only [] at h
  generalize Gen.decode b0 b1 b2 = d at h hk
  obtain ⟨op, len, clocks⟩ := d
  simp only [] at h hk
  obtain ⟨⟨r1, s1, st1⟩, h1, h⟩ := bind_ok_elim h
  have hc := runOp_cycles Cpu.busOps _ _ _ _ _ _ _ h1
  injection h with h; injection h with h2 h3; subst h2
  show r.cycles + 1 ≤ r1.cycles + clocks / 4 ∧ r1.cycles + clocks / 4 ≤ r.cycles + 9
  omega

/-- the block loop never lowers the cycle counter -/
theorem runCodeBlockAux_mono (start : Nat) : ∀ (fuel : Nat) (r : Regs) (s : Bus.State) (st : Nat) (r' : Regs) (s' : Bus.State) (st' : Nat),
    Cpu.runCodeBlockAux start r s st fuel = .ok (r', s', st') → r.cycles ≤ r'.cycles := by
  intro fuel
  induction fuel with
  | zero => intro r s st r' s' st' h; cases h
  | succ n ih =>
    intro r s st r' s' st' h
    rw [Cpu.runCodeBlockAux] at h
    split at h
    · injection h with h; injection h with h1; subst h1; exact Nat.le_refl _
    · obtain ⟨⟨r1, s1, st1, stop⟩, h1, h⟩ := bind_ok_elim h
      have hc := runNextOp_cycles h1
      simp only [] at h
      split at h
      · injection h with h; injection h with h2; subst h2; omega
      · have := ih _ _ _ _ _ _ h; omega

/-- `run_code_block` executes at least one instruction: the cycle counter grows by at least one machine cycle -/
theorem runCodeBlock_cycles {r r' : Regs} {s s' : Bus.State} {st : Nat} {fuel : Nat}
    (h : Cpu.runCodeBlock r s fuel = .ok (r', s', st)) : r.cycles + 1 ≤ r'.cycles := by
  unfold Cpu.runCodeBlock at h
  cases fuel with
  | zero => cases h
  | succ n =>
    rw [Cpu.runCodeBlockAux] at h
    have hne : (r.ip < 0x8000 && Cpu.romBlockMustEnd r.ip r.ip) = false := by
      unfold Cpu.romBlockMustEnd; simp
    rw [hne] at h
    simp only [Bool.false_eq_true, if_false] at h
    obtain ⟨⟨r1, s1, st1, stop⟩, h1, h⟩ := bind_ok_elim h
    have hc := runNextOp_cycles h1
    simp only [] at h
    split at h
    · injection h with h; injection h with h2; subst h2; omega
    · have := runCodeBlockAux_mono _ _ _ _ _ _ _ _ h; omega

end GbVerif.CoreProofs
