import GbVerif.Proofs.X86SimAlu2
/-
C01, the data side: the 8-bit ALU instructions on A with an immediate operand (ADD / SUB / AND / XOR / OR / CP n).
-/
namespace GbVerif.X86
open GbVerif.JitCycles GbVerif.Interp
variable {β : Type}

theorem table_imm (b1 b2 : Nat) :
    (decodeCode (Gen.emitOp 0xc6) = some (((0, Instr.alu8i AluOp.add (R8.hi 0) 256) :: pipeAt (aluOff 3) 15 240) ++ [(32, addIp 2), (36, addCy 2)]) ∧
      bytesOf (Gen.emitOp 0xc6) = 40 ∧ Gen.decode 0xc6 b1 b2 = (.AddAbsolute8 b1, 2, 8)) ∧
    (decodeCode (Gen.emitOp 0xd6) = some ((((0, Instr.alu8i AluOp.sub (R8.hi 0) 256) :: pipeAt (aluOff' 3) 15 240) ++ [(32, Instr.alu8i AluOp.or (R8.lo 0) 64)]) ++ [(34, addIp 2), (38, addCy 2)]) ∧
      bytesOf (Gen.emitOp 0xd6) = 42 ∧ Gen.decode 0xd6 b1 b2 = (.SubAbsolute8 b1, 2, 8)) ∧
    (decodeCode (Gen.emitOp 0xfe) = some ((((0, Instr.alu8i AluOp.cmp (R8.hi 0) 256) :: pipeAt (aluOff' 3) 15 240) ++ [(32, Instr.alu8i AluOp.or (R8.lo 0) 64)]) ++ [(34, addIp 2), (38, addCy 2)]) ∧
      bytesOf (Gen.emitOp 0xfe) = 42 ∧ Gen.decode 0xfe b1 b2 = (.CompareAbsolute8 b1, 2, 8)) ∧
    (decodeCode (Gen.emitOp 0xe6) = some ((((0, Instr.alu8i AluOp.and (R8.hi 0) 256) :: pipeAt (aluOff' 3) 63 192) ++ [(32, Instr.alu8i AluOp.and (R8.lo 0) 239), (34, Instr.alu8i AluOp.or (R8.lo 0) 32)]) ++ [(36, addIp 2), (40, addCy 2)]) ∧
      bytesOf (Gen.emitOp 0xe6) = 44 ∧ Gen.decode 0xe6 b1 b2 = (.AndAbsolute8 b1, 2, 8)) ∧
    (decodeCode (Gen.emitOp 0xee) = some ((((0, Instr.alu8i AluOp.xor (R8.hi 0) 256) :: pipeAt (aluOff' 3) 127 128) ++ [(32, Instr.alu8i AluOp.and (R8.lo 0) 143)]) ++ [(34, addIp 2), (38, addCy 2)]) ∧
      bytesOf (Gen.emitOp 0xee) = 42 ∧ Gen.decode 0xee b1 b2 = (.XorAbsolute8 b1, 2, 8)) ∧
    (decodeCode (Gen.emitOp 0xf6) = some ((((0, Instr.alu8i AluOp.or (R8.hi 0) 256) :: pipeAt (aluOff' 3) 127 128) ++ [(32, Instr.alu8i AluOp.and (R8.lo 0) 143)]) ++ [(34, addIp 2), (38, addCy 2)]) ∧
      bytesOf (Gen.emitOp 0xf6) = 42 ∧ Gen.decode 0xf6 b1 b2 = (.OrAbsolute8 b1, 2, 8)) := by
  refine ⟨⟨by decide +kernel, by decide +kernel, rfl⟩, ⟨by decide +kernel, by decide +kernel, rfl⟩, ⟨by decide +kernel, by decide +kernel, rfl⟩,
    ⟨by decide +kernel, by decide +kernel, rfl⟩, ⟨by decide +kernel, by decide +kernel, rfl⟩, ⟨by decide +kernel, by decide +kernel, rfl⟩⟩

/-- **ADD A,n** (every operand byte): all states -/
theorem sim_c6 (b1 b2 : Nat) (hb : b1 < 256) : Simulates 0xc6 b1 b2 := by
  obtain h := table_imm b1 b2
  obtain ⟨hdec, hbytes, hop⟩ := h.1
  refine ⟨_, hdec, ?_⟩
  intro β B g m fuel st st' hsim hpc hop1 _ hrun
  rw [hbytes] at hrun
  rw [hop]
  show ∃ g', runOp B (.AddAbsolute8 b1) g m 2 = .ok (g', m, STATUS_NORMAL) ∧ Sim { g' with cycles := g'.cycles + 8 / 4 } st' ∧ Untouched st st'
  rw [show (8 : Nat) / 4 = 2 from rfl]
  refine ⟨advance (opAdd g b1) 2, rfl, ?_⟩
  obtain ⟨h1, h2⟩ := sim_bodyP B (fun s => s.op1 = b1) ((0, Instr.alu8i AluOp.add (R8.hi 0) 256) :: pipeAt (aluOff 3) 15 240)
    32 36 40 2 2 g (opAdd g b1) rfl
    (straight_cons _ _ _ (fun _ _ e => Instr.noConfusion e) (fun _ e => Instr.noConfusion e) (straight_pipe _ _ _))
    (by decide) (by decide)
    (fun st0 s1 hs hp hex => add_body B _ _ (isAOp_imm B .add) b1 (aluOff 3) 32 g st0 s1 hs hp hex)
    fuel st st' hsim hop1 (by rw [hpc]; rfl) hrun
  exact ⟨⟨h1.af, h1.hl, h1.de, h1.bc, h1.sp, h1.ip, h1.cy, h1.size⟩, h2⟩

/-- **SUB n** (every operand byte): all states -/
theorem sim_d6 (b1 b2 : Nat) (hb : b1 < 256) : Simulates 0xd6 b1 b2 := by
  obtain h := table_imm b1 b2
  obtain ⟨hdec, hbytes, hop⟩ := h.2.1
  refine ⟨_, hdec, ?_⟩
  intro β B g m fuel st st' hsim hpc hop1 _ hrun
  rw [hbytes] at hrun
  rw [hop]
  show ∃ g', runOp B (.SubAbsolute8 b1) g m 2 = .ok (g', m, STATUS_NORMAL) ∧ Sim { g' with cycles := g'.cycles + 8 / 4 } st' ∧ Untouched st st'
  rw [show (8 : Nat) / 4 = 2 from rfl]
  refine ⟨advance (opSub g b1) 2, rfl, ?_⟩
  obtain ⟨h1, h2⟩ := sim_bodyP B (fun s => s.op1 = b1) (((0, Instr.alu8i AluOp.sub (R8.hi 0) 256) :: pipeAt (aluOff' 3) 15 240) ++ [(32, Instr.alu8i AluOp.or (R8.lo 0) 64)])
    34 38 42 2 2 g (opSub g b1) rfl
    (straight_app (straight_cons _ _ _ (fun _ _ e => Instr.noConfusion e) (fun _ e => Instr.noConfusion e) (straight_pipe _ _ _)) (straight_al _ _ _))
    (by decide) (by decide)
    (fun st0 s1 hs hp hex => sub_body B .sub (Or.inl rfl) _ _ (isAOp_imm B .sub) b1 (aluOff' 3) 34 g st0 s1 hs hp hb hex)
    fuel st st' hsim hop1 (by rw [hpc]; rfl) hrun
  exact ⟨⟨h1.af, h1.hl, h1.de, h1.bc, h1.sp, h1.ip, h1.cy, h1.size⟩, h2⟩

/-- **CP n** (every operand byte): all states -/
theorem sim_fe (b1 b2 : Nat) (hb : b1 < 256) : Simulates 0xfe b1 b2 := by
  obtain h := table_imm b1 b2
  obtain ⟨hdec, hbytes, hop⟩ := h.2.2.1
  refine ⟨_, hdec, ?_⟩
  intro β B g m fuel st st' hsim hpc hop1 _ hrun
  rw [hbytes] at hrun
  rw [hop]
  show ∃ g', runOp B (.CompareAbsolute8 b1) g m 2 = .ok (g', m, STATUS_NORMAL) ∧ Sim { g' with cycles := g'.cycles + 8 / 4 } st' ∧ Untouched st st'
  rw [show (8 : Nat) / 4 = 2 from rfl]
  refine ⟨advance (opCp g b1) 2, rfl, ?_⟩
  obtain ⟨h1, h2⟩ := sim_bodyP B (fun s => s.op1 = b1) (((0, Instr.alu8i AluOp.cmp (R8.hi 0) 256) :: pipeAt (aluOff' 3) 15 240) ++ [(32, Instr.alu8i AluOp.or (R8.lo 0) 64)])
    34 38 42 2 2 g (opCp g b1) rfl
    (straight_app (straight_cons _ _ _ (fun _ _ e => Instr.noConfusion e) (fun _ e => Instr.noConfusion e) (straight_pipe _ _ _)) (straight_al _ _ _))
    (by decide) (by decide)
    (fun st0 s1 hs hp hex => sub_body B .cmp (Or.inr rfl) _ _ (isAOp_imm B .cmp) b1 (aluOff' 3) 34 g st0 s1 hs hp hb hex)
    fuel st st' hsim hop1 (by rw [hpc]; rfl) hrun
  exact ⟨⟨h1.af, h1.hl, h1.de, h1.bc, h1.sp, h1.ip, h1.cy, h1.size⟩, h2⟩

/-- **AND n** (every operand byte): all states -/
theorem sim_e6 (b1 b2 : Nat) (hb : b1 < 256) : Simulates 0xe6 b1 b2 := by
  obtain h := table_imm b1 b2
  obtain ⟨hdec, hbytes, hop⟩ := h.2.2.2.1
  refine ⟨_, hdec, ?_⟩
  intro β B g m fuel st st' hsim hpc hop1 _ hrun
  rw [hbytes] at hrun
  rw [hop]
  show ∃ g', runOp B (.AndAbsolute8 b1) g m 2 = .ok (g', m, STATUS_NORMAL) ∧ Sim { g' with cycles := g'.cycles + 8 / 4 } st' ∧ Untouched st st'
  rw [show (8 : Nat) / 4 = 2 from rfl]
  refine ⟨advance (opAnd g b1) 2, rfl, ?_⟩
  obtain ⟨h1, h2⟩ := sim_bodyP B (fun s => s.op1 = b1) (((0, Instr.alu8i AluOp.and (R8.hi 0) 256) :: pipeAt (aluOff' 3) 63 192) ++ [(32, Instr.alu8i AluOp.and (R8.lo 0) 239), (34, Instr.alu8i AluOp.or (R8.lo 0) 32)])
    36 40 44 2 2 g (opAnd g b1) rfl
    (straight_app (straight_cons _ _ _ (fun _ _ e => Instr.noConfusion e) (fun _ e => Instr.noConfusion e) (straight_pipe _ _ _)) (straight_cons _ _ _ (fun _ _ e => Instr.noConfusion e) (fun _ e => Instr.noConfusion e) (straight_al _ _ _)))
    (by decide) (by decide)
    (fun st0 s1 hs hp hex => and_body B _ _ (isAOp_imm B .and) 63 192 239 (by decide) (by decide) (by decide) fAnd_eq' b1 (aluOff' 3) 36 g st0 s1 hs hp hex)
    fuel st st' hsim hop1 (by rw [hpc]; rfl) hrun
  exact ⟨⟨h1.af, h1.hl, h1.de, h1.bc, h1.sp, h1.ip, h1.cy, h1.size⟩, h2⟩

/-- **XOR n** (every operand byte): all states -/
theorem sim_ee (b1 b2 : Nat) (hb : b1 < 256) : Simulates 0xee b1 b2 := by
  obtain h := table_imm b1 b2
  obtain ⟨hdec, hbytes, hop⟩ := h.2.2.2.2.1
  refine ⟨_, hdec, ?_⟩
  intro β B g m fuel st st' hsim hpc hop1 _ hrun
  rw [hbytes] at hrun
  rw [hop]
  show ∃ g', runOp B (.XorAbsolute8 b1) g m 2 = .ok (g', m, STATUS_NORMAL) ∧ Sim { g' with cycles := g'.cycles + 8 / 4 } st' ∧ Untouched st st'
  rw [show (8 : Nat) / 4 = 2 from rfl]
  refine ⟨advance (opXor g b1) 2, rfl, ?_⟩
  obtain ⟨h1, h2⟩ := sim_bodyP B (fun s => s.op1 = b1) (((0, Instr.alu8i AluOp.xor (R8.hi 0) 256) :: pipeAt (aluOff' 3) 127 128) ++ [(32, Instr.alu8i AluOp.and (R8.lo 0) 143)])
    34 38 42 2 2 g (opXor g b1) rfl
    (straight_app (straight_cons _ _ _ (fun _ _ e => Instr.noConfusion e) (fun _ e => Instr.noConfusion e) (straight_pipe _ _ _)) (straight_al _ _ _))
    (by decide) (by decide)
    (fun st0 s1 hs hp hex => xo_body B .xor (Or.inl rfl) _ _ (isAOp_imm B .xor) b1 hb (aluOff' 3) 34 g st0 s1 hs hp hex)
    fuel st st' hsim hop1 (by rw [hpc]; rfl) hrun
  exact ⟨⟨h1.af, h1.hl, h1.de, h1.bc, h1.sp, h1.ip, h1.cy, h1.size⟩, h2⟩

/-- **OR n** (every operand byte): all states -/
theorem sim_f6 (b1 b2 : Nat) (hb : b1 < 256) : Simulates 0xf6 b1 b2 := by
  obtain h := table_imm b1 b2
  obtain ⟨hdec, hbytes, hop⟩ := h.2.2.2.2.2
  refine ⟨_, hdec, ?_⟩
  intro β B g m fuel st st' hsim hpc hop1 _ hrun
  rw [hbytes] at hrun
  rw [hop]
  show ∃ g', runOp B (.OrAbsolute8 b1) g m 2 = .ok (g', m, STATUS_NORMAL) ∧ Sim { g' with cycles := g'.cycles + 8 / 4 } st' ∧ Untouched st st'
  rw [show (8 : Nat) / 4 = 2 from rfl]
  refine ⟨advance (opOr g b1) 2, rfl, ?_⟩
  obtain ⟨h1, h2⟩ := sim_bodyP B (fun s => s.op1 = b1) (((0, Instr.alu8i AluOp.or (R8.hi 0) 256) :: pipeAt (aluOff' 3) 127 128) ++ [(32, Instr.alu8i AluOp.and (R8.lo 0) 143)])
    34 38 42 2 2 g (opOr g b1) rfl
    (straight_app (straight_cons _ _ _ (fun _ _ e => Instr.noConfusion e) (fun _ e => Instr.noConfusion e) (straight_pipe _ _ _)) (straight_al _ _ _))
    (by decide) (by decide)
    (fun st0 s1 hs hp hex => xo_body B .or (Or.inr rfl) _ _ (isAOp_imm B .or) b1 hb (aluOff' 3) 34 g st0 s1 hs hp hex)
    fuel st st' hsim hop1 (by rw [hpc]; rfl) hrun
  exact ⟨⟨h1.af, h1.hl, h1.de, h1.bc, h1.sp, h1.ip, h1.cy, h1.size⟩, h2⟩

end GbVerif.X86
