import GbVerif.Proofs.X86Flags
import GbVerif.Proofs.X86SimMoves
/-
C01, the data side, for the 8-bit ALU instructions on A: `op ah, src ; <flag conversion> ; [fix-up of F] ; tail`.
-/
namespace GbVerif.X86
open GbVerif.JitCycles GbVerif.Interp
variable {β : Type}

/-- the nine instructions of the flag conversion at the given offsets -/
def pipeAt (o : Nat → Nat) (keep take : Nat) : List (Nat × Instr) :=
  [(o 1, .pushf), (o 2, .pop 6), (o 3, .aluI .and .d 6 [81] true), (o 4, .sh32 .shl 6 1),
   (o 5, .aluI .add .d 6 [14] true), (o 6, .aluI .and .d 6 [240, 0, 0, 0] false), (o 7, .aluI .and .d 0 [keep, 255, 0, 0] false),
   (o 8, .aluI .and .d 6 [take, 0, 0, 0] false), (o 9, .alu .or .d 0 6)]

/-- what is left alone by an ALU template body: every register but rax and rsi, the bus, the host stack -/
structure Frame06 (s s' : St β) : Prop where
  regs : ∀ j, 0 ≠ j → 6 ≠ j → get s' j = get s j
  bus : s'.bus = s.bus
  stack : s'.stack = s.stack
  size : s'.r.size = 16

/-- `ins` is "A := A op operand" on the host (`cmp` leaves A), with the operand read off the state by `rd` -/
def IsAOp (B : BusOps β) (op : AluOp) (ins : Instr) (rd : St β → Nat) : Prop :=
  ∀ (s : St β) (len : Nat), step B s ins len =
    .ok { (if op == .cmp then ({ s with pc := s.pc + len } : St β)
           else set8 ({ s with pc := s.pc + len } : St β) (.hi 0) (aluOp op 8 (get8 s (.hi 0)) (rd s) s.fl).1) with
          fl := (aluOp op 8 (get8 s (.hi 0)) (rd s) s.fl).2 }

theorem isAOp_reg (B : BusOps β) (op : AluOp) (src : R8) : IsAOp B op (.alu8 op (.hi 0) src) (fun s => get8 s src) :=
  fun _ _ => rfl

theorem isAOp_imm (B : BusOps β) (op : AluOp) : IsAOp B op (.alu8i op (.hi 0) 256) (fun s => s.op1) :=
  fun _ _ => rfl

set_option maxRecDepth 4000 in
/-- `op ah, operand` followed by the flag conversion -/
theorem alu_then_pipe (B : BusOps β) (op : AluOp) (ins : Instr) (rd : St β → Nat) (hins : IsAOp B op ins rd) (keep take : Nat) (hk : keep < 256) (ht : take < 256)
    (o : Nat → Nat) (e : Nat) (s s' : St β) (hsz : s.r.size = 16)
    (hex : execList B e ((o 0, ins) :: pipeAt o keep take) s = .ok s') :
    (get s' 0).toNat % 65536 =
      (if op == .cmp then get8 s (.hi 0) else (aluOp op 8 (get8 s (.hi 0)) (rd s) s.fl).1 % 256) * 256 +
        (((get s 0).toNat % 256 &&& keep) ||| (conv (aluOp op 8 (get8 s (.hi 0)) (rd s) s.fl).2 &&& take)) ∧
    Frame06 s s' := by
  obtain ⟨s1, h1, hex⟩ := execList_cons B _ _ _ _ _ _ hex
  have e1 := hins s (headOff e (pipeAt o keep take) - o 0)
  rw [e1] at h1
  injection h1 with h1
  have hfl : s1.fl = (aluOp op 8 (get8 s (.hi 0)) (rd s) s.fl).2 := by rw [← h1]
  have hs1 : s1.r.size = 16 := by
    rw [← h1]; show (if op == .cmp then _ else _ : St β).r.size = 16
    split
    · exact hsz
    · rw [size_set8]; exact hsz
  have hb1 : s1.bus = s.bus := by
    rw [← h1]; show (if op == .cmp then _ else _ : St β).bus = s.bus
    split
    · rfl
    · rw [bus_set8]
  have hst1 : s1.stack = s.stack := by
    rw [← h1]; show (if op == .cmp then _ else _ : St β).stack = s.stack
    split
    · rfl
    · rw [stack_set8]
  have hr1 : ∀ j, 0 ≠ j → get s1 j = get s j := by
    intro j hj
    rw [← h1]; show get (if op == .cmp then _ else _ : St β) j = get s j
    split
    · rfl
    · rw [get_set8_ne _ _ _ _ (by simpa [r8reg] using hj)]; rfl
  have hx : (get s1 0).toNat % 65536 =
      (if op == .cmp then get8 s (.hi 0) else (aluOp op 8 (get8 s (.hi 0)) (rd s) s.fl).1 % 256) * 256 + (get s 0).toNat % 256 := by
    rw [← h1]; show (get (if op == .cmp then _ else _ : St β) 0).toNat % 65536 = _
    have hlt := (get s 0).isLt
    split
    · show (get s 0).toNat % 65536 = (get s 0).toNat / 256 % 256 * 256 + (get s 0).toNat % 256
      omega
    · rw [toNat_set8_hi _ _ _ (by show 0 < s.r.size; omega)]
      show ((get s 0).toNat - (get s 0).toNat / 256 % 256 * 256 + _ % 256 * 256) % 2 ^ 64 % 65536 = _
      omega
  obtain ⟨hv, hf, hb, hst, hsz'⟩ := flag_pipe B keep take hk ht (o 1) (o 2) (o 3) (o 4) (o 5) (o 6) (o 7) (o 8) (o 9) e s1 s' hs1 hex
  refine ⟨?_, ⟨fun j h0 h6 => by rw [hf j h0 h6, hr1 j h0], by rw [hb, hb1], by rw [hst, hst1], hsz'⟩⟩
  rw [hv, hfl]
  have hc := conv_lt (aluOp op 8 (get8 s (.hi 0)) (rd s) s.fl).2
  refine pipe_low16 _ keep _ _ _ hk (Nat.lt_of_le_of_lt Nat.and_le_left hc) (Nat.mod_lt _ (by decide)) ?_ hx
  split
  · show (get s 0).toNat / 256 % 256 < 256; omega
  · omega

/-! ### the interpreter's flag updates on (A, F) bytes -/

theorem mask_f0 : (0xff00 ||| ((0xf0 ^^^ 0xff) % 256) : Nat) = 255 * 256 + 0x0f := by decide

theorem and_255 (a : Nat) (ha : a < 256) : a &&& 255 = a := by
  have := Nat.and_two_pow_sub_one_eq_mod a 8
  rw [show (2 ^ 8 - 1 : Nat) = 255 from rfl] at this
  rw [this]; exact Nat.mod_eq_of_lt ha

theorem orF_pack (r : Regs) (a f bits : Nat) (hf : f < 256) (hb : bits < 256) (hr : r.af = a * 256 + f) :
    (orF r bits).af = a * 256 + (f ||| bits) := by
  show r.af ||| bits = _
  have e := pack_or a f 0 bits hf hb
  simp only [Nat.zero_mul, Nat.zero_add, Nat.or_zero] at e
  rw [hr]; exact e

theorem applyMask_pack (r : Regs) (a f mask : Nat) (ha : a < 256) (hf : f < 256) (hm : mask < 256) (hr : r.af = a * 256 + f) :
    (applyMask r mask).af = a * 256 + (f &&& ((mask ^^^ 0xff) % 256)) := by
  show r.af &&& (0xff00 ||| ((mask ^^^ 0xff) % 256)) = _
  have hk : (mask ^^^ 0xff) % 256 < 256 := Nat.mod_lt _ (by decide)
  have : (0xff00 ||| ((mask ^^^ 0xff) % 256) : Nat) = 255 * 256 + (mask ^^^ 0xff) % 256 := by
    have h1 : (0xff00 : Nat) = 255 * 256 + 0 := rfl
    have h2 : (mask ^^^ 0xff) % 256 = 0 * 256 + (mask ^^^ 0xff) % 256 := by omega
    rw [h1, h2, pack_or _ _ _ _ (by decide) hk]
    simp only [Nat.or_zero, Nat.zero_or]
    omega
  rw [hr, this, pack_and _ _ _ _ hf hk, and_255 a ha]

theorem testCarry_pack (r : Regs) (a f : Nat) (c : Bool) (hf : f < 256) (hr : r.af = a * 256 + f) :
    (testCarry r c).af = a * 256 + (f ||| (if c then 0x10 else 0)) := by
  cases c
  · simp only [testCarry, Bool.false_eq_true, if_false, Nat.or_zero]; exact hr
  · simp only [testCarry, if_true]; exact orF_pack r a f _ hf (by decide) hr

theorem testHalf_pack (r : Regs) (a f : Nat) (c : Bool) (hf : f < 256) (hr : r.af = a * 256 + f) :
    (testHalf r c).af = a * 256 + (f ||| (if c then 0x20 else 0)) := by
  cases c
  · simp only [testHalf, Bool.false_eq_true, if_false, Nat.or_zero]; exact hr
  · simp only [testHalf, if_true]; exact orF_pack r a f _ hf (by decide) hr

theorem testZero_pack (r : Regs) (a f x : Nat) (hf : f < 256) (hr : r.af = a * 256 + f) :
    (testZero r x).af = a * 256 + (f ||| (if x == 0 then 0x80 else 0)) := by
  unfold testZero
  cases hx : (x == 0)
  · simp only [Bool.false_eq_true, if_false, Nat.or_zero]; exact hr
  · simp only [if_true]; exact orF_pack r a f _ hf (by decide) hr

theorem setNeg_pack (r : Regs) (a f : Nat) (hf : f < 256) (hr : r.af = a * 256 + f) :
    (setNeg r).af = a * 256 + (f ||| 0x40) := orF_pack r a f _ hf (by decide) hr

theorem or_bit_lt (f : Nat) (c : Bool) (k : Nat) (hf : f < 256) (hk : k < 256) : f ||| (if c then k else 0) < 256 := by
  apply Nat.or_lt_two_pow (n := 8) hf
  split
  · exact hk
  · decide

/-- `flagsAdd` on (A, F) -/
theorem flagsAdd_pack (r : Regs) (a f x : Nat) (c h : Bool) (ha : a < 256) (hf : f < 256) (hr : r.af = a * 256 + f) :
    (flagsAdd r (x, c, h)).af =
      a * 256 + ((((f &&& 0x0f) ||| (if c then 0x10 else 0)) ||| (if h then 0x20 else 0)) ||| (if x == 0 then 0x80 else 0)) := by
  have h0 := applyMask_pack r a f 0xf0 ha hf (by decide) hr
  rw [show ((0xf0 ^^^ 0xff) % 256 : Nat) = 0x0f from rfl] at h0
  have b0 : f &&& 0x0f < 256 := Nat.lt_of_le_of_lt Nat.and_le_left hf
  have h1 := testCarry_pack _ a _ c b0 h0
  have b1 := or_bit_lt _ c 0x10 b0 (by decide)
  have h2 := testHalf_pack _ a _ h b1 h1
  have b2 := or_bit_lt _ h 0x20 b1 (by decide)
  exact testZero_pack _ a _ x b2 h2

/-- `flagsSub` on (A, F) -/
theorem flagsSub_pack (r : Regs) (a f x : Nat) (c h : Bool) (ha : a < 256) (hf : f < 256) (hr : r.af = a * 256 + f) :
    (flagsSub r (x, c, h)).af =
      a * 256 + (((((f &&& 0x0f) ||| (if c then 0x10 else 0)) ||| (if h then 0x20 else 0)) ||| 0x40) ||| (if x == 0 then 0x80 else 0)) := by
  have h0 := applyMask_pack r a f 0xf0 ha hf (by decide) hr
  rw [show ((0xf0 ^^^ 0xff) % 256 : Nat) = 0x0f from rfl] at h0
  have b0 : f &&& 0x0f < 256 := Nat.lt_of_le_of_lt Nat.and_le_left hf
  have h1 := testCarry_pack _ a _ c b0 h0
  have b1 := or_bit_lt _ c 0x10 b0 (by decide)
  have h2 := testHalf_pack _ a _ h b1 h1
  have b2 := or_bit_lt _ h 0x20 b1 (by decide)
  have h3 := setNeg_pack _ a _ b2 h2
  have b3 : _ ||| 0x40 < 256 := Nat.or_lt_two_pow (n := 8) b2 (by decide)
  exact testZero_pack _ a _ x b3 h3

/-! ### ADD A,r -/

/-- only AF changes -/
def SameButAf (g g' : Regs) : Prop :=
  g'.bc = g.bc ∧ g'.de = g.de ∧ g'.hl = g.hl ∧ g'.sp = g.sp ∧ g'.ip = g.ip ∧ g'.cycles = g.cycles

theorem sameButAf_orF (g : Regs) (b : Nat) : SameButAf g (orF g b) := ⟨rfl, rfl, rfl, rfl, rfl, rfl⟩
theorem sameButAf_applyMask (g : Regs) (b : Nat) : SameButAf g (applyMask g b) := ⟨rfl, rfl, rfl, rfl, rfl, rfl⟩
theorem SameButAf.trans {a b c : Regs} (h1 : SameButAf a b) (h2 : SameButAf b c) : SameButAf a c :=
  ⟨h2.1.trans h1.1, h2.2.1.trans h1.2.1, h2.2.2.1.trans h1.2.2.1, h2.2.2.2.1.trans h1.2.2.2.1,
   h2.2.2.2.2.1.trans h1.2.2.2.2.1, h2.2.2.2.2.2.trans h1.2.2.2.2.2⟩
theorem sameButAf_refl (g : Regs) : SameButAf g g := ⟨rfl, rfl, rfl, rfl, rfl, rfl⟩
theorem sameButAf_testCarry (g : Regs) (c : Bool) : SameButAf g (testCarry g c) := by
  cases c
  · exact sameButAf_refl g
  · exact sameButAf_orF g _
theorem sameButAf_testHalf (g : Regs) (c : Bool) : SameButAf g (testHalf g c) := by
  cases c
  · exact sameButAf_refl g
  · exact sameButAf_orF g _
theorem sameButAf_testZero (g : Regs) (x : Nat) : SameButAf g (testZero g x) := by
  unfold testZero; split
  · exact sameButAf_orF g _
  · exact sameButAf_refl g
theorem sameButAf_setA (g : Regs) (v : Nat) : SameButAf g (setReg g .A v) := ⟨rfl, rfl, rfl, rfl, rfl, rfl⟩
theorem sameButAf_flagsAdd (g : Regs) (res : Nat × Bool × Bool) : SameButAf g (flagsAdd g res) :=
  (((sameButAf_applyMask g _).trans (sameButAf_testCarry _ _)).trans (sameButAf_testHalf _ _)).trans (sameButAf_testZero _ _)
theorem sameButAf_flagsSub (g : Regs) (res : Nat × Bool × Bool) : SameButAf g (flagsSub g res) :=
  ((((sameButAf_applyMask g _).trans (sameButAf_testCarry _ _)).trans (sameButAf_testHalf _ _)).trans (sameButAf_orF _ _)).trans
    (sameButAf_testZero _ _)

/-- `Sim` after a body that changes rax (and rsi) on the host and AF on the guest -/
theorem sim_af {g g' : Regs} {s s' : St β} (h : Sim g s) (hf : Frame06 s s') (hg : SameButAf g g')
    (haf : (get s' 0).toNat % 65536 = g'.af % 65536) : Sim g' s' ∧ Untouched s s' := by
  obtain ⟨e1, e2, e3, e4, e5, e6⟩ := hg
  refine ⟨⟨haf, ?_, ?_, ?_, ?_, ?_, ?_, hf.size⟩, ⟨hf.bus, hf.stack, hf.regs 14 (by decide) (by decide)⟩⟩
  · rw [hf.regs 1 (by decide) (by decide), e3]; exact h.hl
  · rw [hf.regs 2 (by decide) (by decide), e2]; exact h.de
  · rw [hf.regs 3 (by decide) (by decide), e1]; exact h.bc
  · rw [hf.regs 12 (by decide) (by decide), e4]; exact h.sp
  · rw [hf.regs 13 (by decide) (by decide), e5]; exact h.ip
  · rw [hf.regs 15 (by decide) (by decide), e6]; exact h.cy

/-- the flag byte the host computes for ADD / ADC equals the interpreter's -/
theorem fAdd_eq (f : Nat) (z h c : Bool) :
    ((f &&& 0x0f) ||| (((if z then 0x80 else 0) + (if h then 0x20 else 0) + (if c then 0x10 else 0)) &&& 0xf0)) =
    ((((f &&& 0x0f) ||| (if c then 0x10 else 0)) ||| (if h then 0x20 else 0)) ||| (if z then 0x80 else 0)) := by
  cases c <;> cases h <;> cases z <;> simp [Nat.or_assoc]

theorem and_0f (a : Nat) : a &&& 0x0f = a % 16 := Nat.and_two_pow_sub_one_eq_mod a 4

theorem bit4_small : ∀ x, x < 64 → (x &&& 0x10 != 0) = decide (x % 32 ≥ 16) := by decide

theorem halfAdd_eq (a v cin : Nat) (hc : cin ≤ 1) :
    (((a &&& 0x0f) + (v &&& 0x0f) + cin) &&& 0x10 != 0) = decide (a % 16 + v % 16 + cin ≥ 16) := by
  rw [and_0f, and_0f, bit4_small _ (by omega)]
  apply decide_eq_decide.mpr
  omega

/-- host flags of the 8-bit add as the guest's flag bits -/
theorem conv_add (a v cin : Nat) (fl : Flags) :
    conv (aluOp (if cin = 1 then .adc else .add) 8 a v fl).2 =
      (if (a + v + (if cin = 1 then (if fl.cf then 1 else 0) else 0)) % 256 == 0 then 0x80 else 0) +
      (if decide (a % 16 + v % 16 + (if cin = 1 then (if fl.cf then 1 else 0) else 0) ≥ 16) then 0x20 else 0) +
      (if decide (a + v + (if cin = 1 then (if fl.cf then 1 else 0) else 0) ≥ 256) then 0x10 else 0) := by
  by_cases h : cin = 1
  · simp only [h, if_true]; rfl
  · simp only [h, if_false]; rfl

/-- the body of ADD A,v: `add ah, src` and the flag conversion -/
theorem add_body (B : BusOps β) (ins : Instr) (rd : St β → Nat) (hins : IsAOp B .add ins rd) (v : Nat) (o : Nat → Nat) (e : Nat) (g : Regs) (st s1 : St β) (hs : Sim g st)
    (hv : rd st = v)
    (hex : execList B e ((o 0, ins) :: pipeAt o 15 240) st = .ok s1) :
    Sim (opAdd g v) s1 ∧ Untouched st s1 := by
  obtain ⟨hx, hfr⟩ := alu_then_pipe B .add ins rd hins 15 240 (by decide) (by decide) o e st s1 hs.size hex
  have ha : get8 st (.hi 0) = getReg g .A := get8_sim hs .A
  rw [ha, hv] at hx
  have hop : (AluOp.add == AluOp.cmp) = false := rfl
  simp only [hop, Bool.false_eq_true, if_false] at hx
  have hf : (get st 0).toNat % 256 = g.af % 256 := by have := hs.af; omega
  rw [hf] at hx
  -- the interpreter's AF
  have hA := getReg_lt g .A
  have hi : (opAdd g v).af = u8 (getReg g .A + v) * 256 +
      ((((g.af % 256 &&& 0x0f) ||| (if decide (getReg g .A + v > 255) then 0x10 else 0)) |||
        (if (((getReg g .A &&& 0x0f) + (v &&& 0x0f)) &&& 0x10 != 0) then 0x20 else 0)) |||
        (if u8 (getReg g .A + v) == 0 then 0x80 else 0)) := by
    have hset : (setReg g .A (u8 (getReg g .A + v))).af = u8 (getReg g .A + v) * 256 + g.af % 256 := setHi_eq _ _
    exact flagsAdd_pack _ _ _ _ _ _ (Nat.mod_lt _ (by decide)) (Nat.mod_lt _ (by decide)) hset
  refine sim_af hs hfr ((sameButAf_setA g _).trans (sameButAf_flagsAdd _ _)) ?_
  rw [hx, hi]
  have hc := conv_add (getReg g .A) v 0 st.fl
  simp only [Nat.zero_ne_one, if_false, Nat.add_zero] at hc
  rw [hc, fAdd_eq]
  have h1 : (aluOp .add 8 (getReg g .A) v st.fl).1 % 256 = u8 (getReg g .A + v) := by
    show (getReg g .A + v + 0) % 2 ^ 8 % 256 = (getReg g .A + v) % 256
    omega
  have h2 := halfAdd_eq (getReg g .A) v 0 (by decide)
  simp only [Nat.add_zero] at h2
  have h3 : decide (getReg g .A + v ≥ 256) = decide (getReg g .A + v > 255) := decide_eq_decide.mpr (by omega)
  have h4 : ((getReg g .A + v) % 256 == 0) = (u8 (getReg g .A + v) == 0) := rfl
  rw [h1, h2, h3, h4]
  have hlt : ((((g.af % 256 &&& 0x0f) ||| (if decide (getReg g .A + v > 255) then 0x10 else 0)) |||
        (if decide (getReg g .A % 16 + v % 16 ≥ 16) then 0x20 else 0)) ||| (if u8 (getReg g .A + v) == 0 then 0x80 else 0)) < 256 := by
    apply Nat.or_lt_two_pow (n := 8)
    · apply Nat.or_lt_two_pow (n := 8)
      · apply Nat.or_lt_two_pow (n := 8)
        · exact Nat.lt_of_le_of_lt Nat.and_le_right (by decide)
        · split <;> decide
      · split <;> decide
    · split <;> decide
  have hu : u8 (getReg g .A + v) < 256 := Nat.mod_lt _ (by decide)
  omega

/-- offsets of the instructions of an ALU template whose first instruction is `n0` bytes long -/
def aluOff (n0 : Nat) (k : Nat) : Nat := [0, n0, n0 + 1, n0 + 2, n0 + 5, n0 + 7, n0 + 10, n0 + 16, n0 + 21, n0 + 27].getD k 0

theorem straight_pipe (o : Nat → Nat) (keep take : Nat) : straight (pipeAt o keep take) := by
  intro p hp
  simp only [pipeAt, List.mem_cons, List.not_mem_nil, or_false] at hp
  rcases hp with e | e | e | e | e | e | e | e | e <;> subst e <;> exact ⟨fun _ _ e => Instr.noConfusion e, fun _ e => Instr.noConfusion e⟩

theorem straight_cons (off : Nat) (ins : Instr) (l : List (Nat × Instr)) (h1 : ∀ c rel, ins ≠ .jcc c rel) (h2 : ∀ rel, ins ≠ .jmp rel)
    (hl : straight l) : straight ((off, ins) :: l) := by
  intro p hp
  rcases List.mem_cons.mp hp with e | e
  · subst e; exact ⟨h1, h2⟩
  · exact hl p e

def opcodeAdd (r : Reg8) : Nat := 0x80 + r8code r

theorem table_add (r : Reg8) (b1 b2 : Nat) :
    decodeCode (Gen.emitOp (opcodeAdd r)) =
      some (((0, .alu8 .add (.hi 0) (hostR8 r)) :: pipeAt (aluOff 2) 15 240) ++ [(31, addIp 1), (35, addCy 1)]) ∧
    bytesOf (Gen.emitOp (opcodeAdd r)) = 39 ∧ Gen.decode (opcodeAdd r) b1 b2 = (.Add8 .A r, 1, 4) := by
  cases r <;> exact ⟨by decide +kernel, by decide +kernel, rfl⟩

/-- **ADD A,r** (7 registers): all states -/
theorem sim_add (r : Reg8) (b1 b2 : Nat) : Simulates (opcodeAdd r) b1 b2 := by
  obtain ⟨hdec, hbytes, hop⟩ := table_add r b1 b2
  refine ⟨_, hdec, ?_⟩
  intro β B g m fuel st st' hsim hpc _ _ hrun
  rw [hbytes] at hrun
  rw [hop]
  show ∃ g', runOp B (.Add8 .A r) g m 1 = .ok (g', m, STATUS_NORMAL) ∧ Sim { g' with cycles := g'.cycles + 4 / 4 } st' ∧ Untouched st st'
  rw [show (4 : Nat) / 4 = 1 from rfl]
  refine ⟨advance (opAdd g (getReg g r)) 1, rfl, ?_⟩
  obtain ⟨h1, h2⟩ := sim_body B ((0, .alu8 .add (.hi 0) (hostR8 r)) :: pipeAt (aluOff 2) 15 240) 31 35 39 1 1 g (opAdd g (getReg g r)) rfl
    (straight_cons _ _ _ (fun _ _ e => Instr.noConfusion e) (fun _ e => Instr.noConfusion e) (straight_pipe _ _ _)) (by decide) (by decide)
    (fun st0 s1 hs hex => add_body B _ _ (isAOp_reg B .add (hostR8 r)) (getReg g r) (aluOff 2) 31 g st0 s1 hs (get8_sim hs r) hex)
    fuel st st' hsim (by rw [hpc]; rfl) hrun
  exact ⟨⟨h1.af, h1.hl, h1.de, h1.bc, h1.sp, h1.ip, h1.cy, h1.size⟩, h2⟩

end GbVerif.X86
