import GbVerif.Proofs.CoreCycles
/-!
The interpreter model on a guarded bus: `guard B g` is bus `B` with every write to an address outside `g` forbidden
(it fails).  Every `run_op` that succeeds on the guarded bus succeeds on `B` with the same result — so a statement about
"executions that perform no store to the cartridge" can be made as a statement about runs on the guarded bus (C03).
-/
namespace GbVerif.CoreProofs
open GbVerif.Interp

variable {β : Type} (B : BusOps β)

/-- bus `B` with writes allowed only where `g` holds -/
def guard (g : Nat → Bool) : BusOps β :=
  ⟨B.read, fun m a v => if g a then B.write m a v else .error (.explicit "guarded write")⟩

@[simp] theorem guard_read (g : Nat → Bool) (m : β) (a : Nat) : (guard B g).read m a = B.read m a := rfl

theorem guard_write_iff (g : Nat → Bool) (m : β) (a v : Nat) (n : β) :
    (guard B g).write m a v = .ok n ↔ (g a = true ∧ B.write m a v = .ok n) := by
  unfold guard
  simp only []
  split
  · simp [*]
  · simp [*]

theorem pop_guard (g : Nat → Bool) (r : Regs) (m : β) : pop (guard B g) r m = pop B r m := rfl

theorem push_guard (g : Nat → Bool) {v : Nat} {r : Regs} {m : β} {p : Regs × β} (h : push (guard B g) v r m = .ok p) :
    push B v r m = .ok p := by
  unfold push at h ⊢
  obtain ⟨m1, h1, h⟩ := bind_ok_elim h
  obtain ⟨m2, h2, h⟩ := bind_ok_elim h
  rw [guard_write_iff] at h1 h2
  simp only [bind, Except.bind, h1.2, h2.2]
  exact h

theorem rmwHL_guard (g : Nat → Bool) {r : Regs} {m : β} {f : Nat → Regs → Nat × Regs} {p : Regs × β}
    (h : rmwHL (guard B g) r m f = .ok p) : rmwHL B r m f = .ok p := by
  unfold rmwHL at h ⊢
  obtain ⟨v, h1, h⟩ := bind_ok_elim h
  obtain ⟨m1, h2, h⟩ := bind_ok_elim h
  rw [guard_write_iff] at h2
  rw [guard_read] at h1
  simp only [bind, Except.bind, h1, h2.2]
  exact h

/-- rewriting form: a successful guarded push / read-modify-write is the unguarded one (plus the guard facts, dropped) -/
theorem push_guard_eq (g : Nat → Bool) {v : Nat} {r : Regs} {m : β} {p : Regs × β} :
    (push (guard B g) v r m = .ok p) = (push (guard B g) v r m = .ok p ∧ push B v r m = .ok p) :=
  propext ⟨fun h => ⟨h, push_guard B g h⟩, fun h => h.1⟩

theorem rmwHL_guard_eq (g : Nat → Bool) {r : Regs} {m : β} {f : Nat → Regs → Nat × Regs} {p : Regs × β} :
    (rmwHL (guard B g) r m f = .ok p) = (rmwHL (guard B g) r m f = .ok p ∧ rmwHL B r m f = .ok p) :=
  propext ⟨fun h => ⟨h, rmwHL_guard B g h⟩, fun h => h.1⟩

theorem runOp_guard (g : Nat → Bool) (op : Op) (r : Regs) (m : β) (len : Nat) (x : Regs × β × Nat)
    (h : runOp (guard B g) op r m len = .ok x) : runOp B op r m len = .ok x := by
  cases op
  all_goals simp only [runOp, bind, Except.bind, pure, Except.pure, guard_read, pop_guard] at h ⊢
  all_goals (repeat' split at h)
  all_goals try contradiction
  all_goals (try simp only [guard_write_iff] at *)
  all_goals (try (have hp := push_guard B g (by assumption)))
  all_goals (try (have hm := rmwHL_guard B g (by assumption)))
  all_goals (first | exact h | (simp_all only [if_true, if_false, Bool.false_eq_true, ite_true, ite_false]) | simp_all)

end GbVerif.CoreProofs
