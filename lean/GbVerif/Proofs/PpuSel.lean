import GbVerif.Proofs.PpuObj
/-!
C15 stage (ii), second half: the selection loop of `find_current_line_sprites` returns the
spec's ≤ 10 objects in OAM order, each with the row the spec shows, and the swept line cache holds
the spec's winning opaque object pixel.
-/
namespace GbVerif.PpuSel
open GbVerif.Ppu GbVerif.FrameSpec GbVerif.PpuBits GbVerif.PpuObj

/-! ### hypotheses of the stage theorems -/

/-- every element is a byte -/
def IsBytes (a : Array Nat) : Prop := ∀ i, mem a i < 256

structure RegsOk (r : Ppu.Regs) : Prop where
  lcdc : r.lcdc < 256
  scx : r.scx < 256
  scy : r.scy < 256
  wx : r.wx < 256
  wy : r.wy < 256
  bgp : r.bgp < 256
  obp0 : r.obp0 < 256
  obp1 : r.obp1 < 256

theorem mem_replicate' (n v c : Nat) : mem (Array.replicate n v) c = if c < n then v else 0 := by
  unfold mem
  rw [Array.getD_eq_getD_getElem?, Array.getElem?_replicate]
  split <;> rfl

theorem isBytes_replicate (n v : Nat) (hv : v < 256) : IsBytes (Array.replicate n v) := by
  intro i; rw [mem_replicate']; split <;> omega

/-! ### LCDC decode -/

theorem bit1_all : ∀ v, v < 256 → (v &&& 0x02 == 0x02) = v.testBit 1 := by decide +kernel
theorem bit2_all : ∀ v, v < 256 → (v &&& 0x04 == 0x04) = v.testBit 2 := by decide +kernel
theorem bit3_all : ∀ v, v < 256 → (v &&& 0x08 == 0) = !v.testBit 3 := by decide +kernel
theorem bit5_all : ∀ v, v < 256 → (v &&& 0x20 == 0x20) = v.testBit 5 := by decide +kernel
theorem bit6_all : ∀ v, v < 256 → (v &&& 0x40 == 0) = !v.testBit 6 := by decide +kernel

theorem cfg_objectEnabled (r : Ppu.Regs) (h : RegsOk r) : (Cfg.ofRegs r).objectEnabled = lcdcBit (toSpec r) 1 :=
  bit1_all r.lcdc h.lcdc
theorem cfg_doubleHeight (r : Ppu.Regs) (h : RegsOk r) : (Cfg.ofRegs r).objectDoubleHeight = lcdcBit (toSpec r) 2 :=
  bit2_all r.lcdc h.lcdc
theorem cfg_windowEnabled (r : Ppu.Regs) (h : RegsOk r) : (Cfg.ofRegs r).windowEnabled = lcdcBit (toSpec r) 5 :=
  bit5_all r.lcdc h.lcdc
theorem cfg_bgMap (r : Ppu.Regs) (h : RegsOk r) : (Cfg.ofRegs r).bgMapOffset = mapBase (lcdcBit (toSpec r) 3) := by
  have := bit3_all r.lcdc h.lcdc
  show (if r.lcdc &&& 0x08 == 0 then 0x1800 else 0x1c00) = _
  rw [this]; unfold mapBase lcdcBit toSpec
  cases r.lcdc.testBit 3 <;> rfl
theorem cfg_windowMap (r : Ppu.Regs) (h : RegsOk r) : (Cfg.ofRegs r).windowMapOffset = mapBase (lcdcBit (toSpec r) 6) := by
  have := bit6_all r.lcdc h.lcdc
  show (if r.lcdc &&& 0x40 == 0 then 0x1800 else 0x1c00) = _
  rw [this]; unfold mapBase lcdcBit toSpec
  cases r.lcdc.testBit 6 <;> rfl

/-! ### the selection loop -/

/-- height used by the selection loop -/
def heightM (c : Cfg) : Nat := if c.objectDoubleHeight then 16 else 8

/-- the loop's "covers the line" test for OAM entry `i` -/
def onLineM (c : Cfg) (oam : Array Nat) (ly i : Nat) : Bool :=
  !(decide (ly + 16 < mem oam (4 * i)) || decide (ly + 16 - mem oam (4 * i) ≥ heightM c))

/-- the `ObjectAttributes` the loop builds for OAM entry `i` -/
def mkObj (c : Cfg) (vram oam : Array Nat) (ly i : Nat) : Obj :=
  let attr := mem oam (4 * i + 3)
  let line := ly + 16 - mem oam (4 * i)
  let line := if attr &&& 0x40 != 0 then heightM c - line - 1 else line
  let tile := if c.objectDoubleHeight then mem oam (4 * i + 2) &&& 0xfe else mem oam (4 * i + 2)
  let addr := (tile <<< 4) + line * 2
  let lo := mem vram addr
  let hi := mem vram (addr + 1)
  let flipX := attr &&& 0x20 != 0
  { hasPriority := attr &&& 0x80 == 0, palette := (attr &&& 0x10) >>> 4,
    rowData := interleave (if flipX then flipByte lo else lo) (if flipX then flipByte hi else hi),
    xCoord := mem oam (4 * i + 1) }

/-- first `budget` indices from `k` on (`fuel` of them) that satisfy `p` -/
def selFrom (p : Nat → Bool) : (fuel k budget : Nat) → List Nat
  | 0, _, _ => []
  | f + 1, k, b => if b = 0 then [] else if p k then k :: selFrom p f (k + 1) (b - 1) else selFrom p f (k + 1) b

theorem selFrom_eq (p : Nat → Bool) : ∀ fuel k b, selFrom p fuel k b = ((List.range' k fuel).filter p).take b := by
  intro fuel
  induction fuel with
  | zero => intro k b; simp [selFrom]
  | succ f ih =>
    intro k b
    rw [selFrom, List.range'_succ, List.filter_cons]
    by_cases hb : b = 0
    · simp [hb]
    · by_cases hp : p k = true
      · simp only [hb, hp, if_true, if_false]
        rw [List.take_cons (by omega), ih]
      · simp only [hb, hp, if_false, Bool.false_eq_true]
        rw [ih]

theorem selectLoop_spec (c : Cfg) (vram oam : Array Nat) (ly : Nat) (hv : vram.size = 8192) (ho : oam.size = 160)
    (hob : IsBytes oam) :
    ∀ (fuel k : Nat) (found : List Obj), k + fuel = 40 → found.length ≤ 10 →
      selectLoop c vram oam ly fuel (4 * k) found =
        .ok (found ++ (selFrom (onLineM c oam ly) fuel k (10 - found.length)).map (mkObj c vram oam ly)) := by
  intro fuel
  induction fuel with
  | zero => intro k found _ _; simp [selectLoop, selFrom, pure, Except.pure]
  | succ f ih =>
    intro k found hk hf
    rw [selectLoop, selFrom]
    by_cases hb : found.length < 10
    · have hc : 4 * k < 160 ∧ found.length < 10 := ⟨by omega, hb⟩
      have hb' : ¬ (10 - found.length = 0) := by omega
      rw [if_pos hc, if_neg hb']
      rw [rd_ok oam (4 * k) (by omega), rd_ok oam (4 * k + 1) (by omega), rd_ok oam (4 * k + 2) (by omega),
        rd_ok oam (4 * k + 3) (by omega)]
      simp only [bind, Except.bind]
      have e4 : 4 * k + 4 = 4 * (k + 1) := by omega
      have hH : (if c.objectDoubleHeight = true then 16 else 8) = heightM c := rfl
      simp only [hH]
      have hh : heightM c ≤ 16 := by unfold heightM; split <;> omega
      by_cases hon : onLineM c oam ly k = true
      · -- the object covers the line
        have hcond : ¬ (ly + 16 < mem oam (4 * k) ∨ ly + 16 - mem oam (4 * k) ≥ heightM c) := by
          unfold onLineM at hon
          intro h
          have : (decide (ly + 16 < mem oam (4 * k)) || decide (ly + 16 - mem oam (4 * k) ≥ heightM c)) = true := by
            rcases h with h | h
            · simp [h]
            · simp [h]
          rw [this] at hon; cases hon
        rw [if_neg hcond, if_pos hon]
        -- the row fetch is in range
        have hline : (if mem oam (4 * k + 3) &&& 0x40 != 0 then heightM c - (ly + 16 - mem oam (4 * k)) - 1
            else ly + 16 - mem oam (4 * k)) < 16 := by
          split <;> omega
        have htile : (if c.objectDoubleHeight then mem oam (4 * k + 2) &&& 0xfe else mem oam (4 * k + 2)) < 256 := by
          have := hob (4 * k + 2)
          split
          · exact Nat.lt_of_le_of_lt Nat.and_le_left this
          · exact this
        simp only [mkObj, List.map_cons]
        generalize (if mem oam (4 * k + 3) &&& 0x40 != 0 then heightM c - (ly + 16 - mem oam (4 * k)) - 1
            else ly + 16 - mem oam (4 * k)) = line at hline ⊢
        generalize (if c.objectDoubleHeight then mem oam (4 * k + 2) &&& 0xfe else mem oam (4 * k + 2)) = tile at htile ⊢
        have haddr : (tile <<< 4) + line * 2 + 1 < vram.size := by
          rw [Nat.shiftLeft_eq]; have : (2:Nat)^4 = 16 := by decide
          rw [this]; omega
        rw [getObjectRow, rd_ok vram _ (by omega), rd_ok vram _ haddr]
        simp only [bind, Except.bind, pure, Except.pure]
        rw [e4, ih (k + 1) _ (by omega) (by simp; omega)]
        simp only [List.length_append, List.length_cons, List.length_nil, List.append_assoc,
          List.cons_append, List.nil_append]
        have : 10 - (found.length + (0 + 1)) = 10 - found.length - 1 := by omega
        rw [this]
      · have hcond : (ly + 16 < mem oam (4 * k) ∨ ly + 16 - mem oam (4 * k) ≥ heightM c) := by
          unfold onLineM at hon
          by_cases h1 : ly + 16 < mem oam (4 * k)
          · exact Or.inl h1
          · by_cases h2 : ly + 16 - mem oam (4 * k) ≥ heightM c
            · exact Or.inr h2
            · exfalso; apply hon; simp [h1, h2]
        have hon' : onLineM c oam ly k = false := by simpa using hon
        rw [if_pos hcond, hon']
        simp only [Bool.false_eq_true, if_false]
        rw [e4, ih (k + 1) found (by omega) hf]
    · have hc : ¬ (4 * k < 160 ∧ found.length < 10) := fun h => hb h.2
      have hb' : 10 - found.length = 0 := by omega
      rw [if_neg hc, if_pos hb']
      simp [pure, Except.pure]

/-! ### translation to the reference -/

theorem attr_bits : ∀ a, a < 256 → (a &&& 0x20 != 0) = a.testBit 5 ∧ (a &&& 0x40 != 0) = a.testBit 6 ∧
    (a &&& 0x80 == 0) = !a.testBit 7 ∧ (a &&& 0x10) >>> 4 = (if a.testBit 4 then 1 else 0) := by decide +kernel

theorem tile_or_one : ∀ t, t < 256 → t ||| 1 = (t &&& 0xfe) + 1 := by decide +kernel

theorem heightM_eq (r : Ppu.Regs) (h : RegsOk r) : heightM (Cfg.ofRegs r) = objHeight (toSpec r) := by
  unfold heightM objHeight; rw [cfg_doubleHeight r h]

theorem onLine_eq (r : Ppu.Regs) (h : RegsOk r) (oam : Array Nat) (ly i : Nat) :
    onLineM (Cfg.ofRegs r) oam ly i = objOnLine (toSpec r) (mem oam) ly i := by
  unfold onLineM objOnLine objY
  rw [heightM_eq r h]
  by_cases h1 : ly + 16 < mem oam (4 * i)
  · have : ¬ (mem oam (4 * i) ≤ ly + 16) := by omega
    simp [h1, this]
  · by_cases h2 : ly + 16 - mem oam (4 * i) ≥ objHeight (toSpec r)
    · have : ¬ (ly + 16 < mem oam (4 * i) + objHeight (toSpec r)) := by omega
      simp [h2, this]
    · have a : mem oam (4 * i) ≤ ly + 16 := by omega
      have b : ly + 16 < mem oam (4 * i) + objHeight (toSpec r) := by omega
      simp [h1, h2, a, b]

theorem selected_eq (r : Ppu.Regs) (h : RegsOk r) (oam : Array Nat) (ly : Nat) :
    selFrom (onLineM (Cfg.ofRegs r) oam ly) 40 0 10 = selected (toSpec r) (mem oam) ly := by
  rw [selFrom_eq, selected, List.range_eq_range']
  congr 2
  funext i
  exact onLine_eq r h oam ly i

theorem selected_pairwise (r : FrameSpec.Regs) (oam : Mem) (ly : Nat) :
    (selected r oam ly).Pairwise (· < ·) := by
  unfold selected
  rw [List.range_eq_range']
  exact (List.Pairwise.filter _ (List.pairwise_lt_range' 1)).take

theorem selected_onLine (r : FrameSpec.Regs) (oam : Mem) (ly i : Nat) (hi : i ∈ selected r oam ly) :
    objOnLine r oam ly i = true := by
  unfold selected at hi
  exact (List.mem_filter.mp (List.mem_of_mem_take hi)).2

theorem tileRowColour_eq (vram : Mem) (a k : Nat) : tileRowColour vram a k = rowColour (vram a) (vram (a + 1)) k := rfl

/-- the row fetched by the loop shows, at cache cell `x + 8`, the colour the reference gives object
`i` at screen column `x` -/
theorem pixAt_mkObj (r : Ppu.Regs) (h : RegsOk r) (vram oam : Array Nat) (hvb : IsBytes vram) (hob : IsBytes oam)
    (ly i x : Nat) (hon : objOnLine (toSpec r) (mem oam) ly i = true) :
    pixAt (mkObj (Cfg.ofRegs r) vram oam ly i) (x + 8) = objColour (toSpec r) (mem vram) (mem oam) i x ly := by
  unfold pixAt objColour
  have hX : (mkObj (Cfg.ofRegs r) vram oam ly i).xCoord = objX (mem oam) i := rfl
  rw [hX]
  by_cases hcov : objX (mem oam) i ≤ x + 8 ∧ x + 8 < objX (mem oam) i + 8
  · rw [if_pos hcov, if_pos hcov]
    obtain ⟨a5, a6, _, _⟩ := attr_bits (mem oam (4 * i + 3)) (hob _)
    simp only [objOnLine, objY, Bool.and_eq_true] at hon
    have hon := And.intro (of_decide_eq_true hon.1) (of_decide_eq_true hon.2)
    have hk : x + 8 - objX (mem oam) i < 8 := by omega
    generalize x + 8 - objX (mem oam) i = k at hk
    -- the address
    have hHt := heightM_eq r h
    have hdbl := cfg_doubleHeight r h
    have haddr : ((if (Cfg.ofRegs r).objectDoubleHeight then mem oam (4 * i + 2) &&& 0xfe else mem oam (4 * i + 2)) <<< 4) +
        (if mem oam (4 * i + 3) &&& 0x40 != 0 then heightM (Cfg.ofRegs r) - (ly + 16 - mem oam (4 * i)) - 1
          else ly + 16 - mem oam (4 * i)) * 2 =
        (if objHeight (toSpec r) = 16 then
            (if (if (objAttr (mem oam) i).testBit 6 then objHeight (toSpec r) - 1 - (ly + 16 - objY (mem oam) i)
                  else ly + 16 - objY (mem oam) i) < 8 then objTile (mem oam) i &&& 0xfe else objTile (mem oam) i ||| 1)
          else objTile (mem oam) i) * 16 +
        2 * ((if (objAttr (mem oam) i).testBit 6 then objHeight (toSpec r) - 1 - (ly + 16 - objY (mem oam) i)
                  else ly + 16 - objY (mem oam) i) % 8) := by
      rw [hHt, hdbl, a6, Nat.shiftLeft_eq]
      unfold objAttr objTile objY
      have hor := tile_or_one (mem oam (4 * i + 2)) (hob _)
      have h2 : (2:Nat) ^ 4 = 16 := by decide
      rw [h2]
      have hH8 : lcdcBit (toSpec r) 2 = false → objHeight (toSpec r) = 8 := by intro e; simp [objHeight, e]
      have hH16 : lcdcBit (toSpec r) 2 = true → objHeight (toSpec r) = 16 := by intro e; simp [objHeight, e]
      have n816 : ¬ ((8:Nat) = 16) := by decide
      cases hb : lcdcBit (toSpec r) 2 <;> cases hf : (mem oam (4 * i + 3)).testBit 6
      · rw [hH8 hb] at hon ⊢
        simp only [if_true, if_false, Bool.false_eq_true, n816]
        omega
      · rw [hH8 hb] at hon ⊢
        simp only [if_true, if_false, Bool.false_eq_true, n816]
        omega
      · rw [hH16 hb] at hon ⊢
        simp only [if_true, if_false, Bool.false_eq_true]
        split
        · omega
        · rw [hor]; omega
      · rw [hH16 hb] at hon ⊢
        simp only [if_true, if_false, Bool.false_eq_true]
        split
        · omega
        · rw [hor]; omega
    simp only [mkObj]
    rw [haddr]
    generalize (if objHeight (toSpec r) = 16 then
            (if (if (objAttr (mem oam) i).testBit 6 then objHeight (toSpec r) - 1 - (ly + 16 - objY (mem oam) i)
                  else ly + 16 - objY (mem oam) i) < 8 then objTile (mem oam) i &&& 0xfe else objTile (mem oam) i ||| 1)
          else objTile (mem oam) i) * 16 +
        2 * ((if (objAttr (mem oam) i).testBit 6 then objHeight (toSpec r) - 1 - (ly + 16 - objY (mem oam) i)
                  else ly + 16 - objY (mem oam) i) % 8) = addr
    rw [tileRowColour_eq, a5]
    unfold objAttr
    cases hfx : (mem oam (4 * i + 3)).testBit 5
    · simp only [Bool.false_eq_true, if_false]
      exact shiftedOut_interleave _ _ k (hvb _) (hvb _) hk
    · simp only [if_true]
      rw [shiftedOut_interleave _ _ k (flip_eq _ (hvb _)).2.1 (flip_eq _ (hvb _)).2.1 hk]
      exact rowColour_flip _ _ k (hvb _) (hvb _) hk
  · rw [if_neg hcov, if_neg hcov]

/-! ### the cache byte -/

/-- the line-cache encoding of object `i`'s pixel at (x, ly): present, priority = not BG-over-OBJ,
palette, colour -/
def specByte (r : FrameSpec.Regs) (vram oam : Mem) (i x ly : Nat) : Nat :=
  0x80 + (if (objAttr oam i).testBit 7 then 0 else 0x40) + (if (objAttr oam i).testBit 4 then 4 else 0) +
    objColour r vram oam i x ly

/-- the reference's winning opaque object pixel at (x, ly) in the line-cache encoding (0: none) -/
def cacheByteSpec (r : FrameSpec.Regs) (vram oam : Mem) (x ly : Nat) : Nat :=
  match (if lcdcBit r 1 then winnerOf r vram oam (selected r oam ly) x ly else none) with
  | none => 0
  | some i => specByte r vram oam i x ly

theorem byte_enc : ∀ a, a < 256 → ∀ col, col < 4 →
    0x80 ||| (if (a &&& 0x80 == 0) = true then 0x40 else 0) ||| ((((a &&& 0x10) >>> 4) <<< 2) % 256) ||| col =
    0x80 + (if a.testBit 7 then 0 else 0x40) + (if a.testBit 4 then 4 else 0) + col := by decide +kernel

theorem tileRowColour_lt (vram : Mem) (a k : Nat) : tileRowColour vram a k < 4 := by
  unfold tileRowColour
  have := bit_lt (vram a) (7 - k); have := bit_lt (vram (a + 1)) (7 - k); omega

theorem objColour_lt (r : FrameSpec.Regs) (vram oam : Mem) (i x ly : Nat) : objColour r vram oam i x ly < 4 := by
  unfold objColour
  simp only []
  by_cases hc : objX oam i ≤ x + 8 ∧ x + 8 < objX oam i + 8
  · rw [if_pos hc]; exact tileRowColour_lt _ _ _
  · rw [if_neg hc]; omega

theorem objByte_mkObj (r : Ppu.Regs) (h : RegsOk r) (vram oam : Array Nat) (hvb : IsBytes vram) (hob : IsBytes oam)
    (ly i x : Nat) (hon : objOnLine (toSpec r) (mem oam) ly i = true) :
    objByte (mkObj (Cfg.ofRegs r) vram oam ly i) (x + 8) = specByte (toSpec r) (mem vram) (mem oam) i x ly := by
  unfold objByte specByte
  rw [pixAt_mkObj r h vram oam hvb hob ly i x hon]
  exact byte_enc (mem oam (4 * i + 3)) (hob _) _ (objColour_lt _ _ _ _ _ _)

/-! ### the winner -/

theorem winner_none (r : FrameSpec.Regs) (vram oam : Mem) (sel : List Nat) (x ly : Nat)
    (h : ∀ i ∈ sel, objColour r vram oam i x ly = 0) : winnerOf r vram oam sel x ly = none := by
  unfold winnerOf
  rw [List.find?_eq_none]
  intro i hi
  simp [h i hi]

theorem winner_some (r : FrameSpec.Regs) (vram oam : Mem) (sel : List Nat) (x ly : Nat)
    (hsorted : sel.Pairwise (· < ·)) (p : Nat) (hp : p < sel.length)
    (hop : objColour r vram oam sel[p] x ly ≠ 0)
    (hmin : ∀ q (hq : q < sel.length), objColour r vram oam sel[q] x ly ≠ 0 →
      objX oam sel[p] < objX oam sel[q] ∨ (objX oam sel[p] = objX oam sel[q] ∧ p ≤ q)) :
    winnerOf r vram oam sel x ly = some sel[p] := by
  have hmono : ∀ a b (ha : a < sel.length) (hb : b < sel.length), a < b → sel[a] < sel[b] :=
    fun a b ha hb hab => List.pairwise_iff_getElem.mp hsorted a b ha hb hab
  unfold winnerOf
  rw [List.find?_eq_some_iff_getElem]
  refine ⟨?_, p, hp, rfl, ?_⟩
  · simp only [Bool.and_eq_true, bne_iff_ne, ne_eq, List.all_eq_true, Bool.or_eq_true, beq_iff_eq]
    refine ⟨hop, ?_⟩
    intro j hj
    obtain ⟨q, hq, rfl⟩ := List.mem_iff_getElem.mp hj
    by_cases hc : objColour r vram oam sel[q] x ly = 0
    · exact Or.inl hc
    · right
      unfold beats
      rcases hmin q hq hc with h1 | ⟨h1, h2⟩
      · simp [h1]
      · have : sel[p] ≤ sel[q] := by
          rcases Nat.lt_or_ge p q with h3 | h3
          · exact Nat.le_of_lt (hmono p q hp hq h3)
          · have : p = q := by omega
            subst this; exact Nat.le_refl _
        simp [h1, this]
  · intro j hj
    have hjl : j < sel.length := by omega
    simp only [Bool.not_eq_true', Bool.and_eq_false_iff]
    by_cases hc : objColour r vram oam sel[j] x ly = 0
    · left; simp [hc]
    · right
      -- `sel[j]` does not beat `sel[p]`
      rw [List.all_eq_false]
      refine ⟨sel[p], List.getElem_mem hp, ?_⟩
      have hlt := hmono j p hjl hp hj
      simp only [Bool.or_eq_true, beq_iff_eq, not_or, Bool.not_eq_true]
      refine ⟨hop, ?_⟩
      unfold beats
      rcases hmin j hjl hc with h1 | ⟨h1, h2⟩
      · have a : ¬ objX oam sel[j] < objX oam sel[p] := by omega
        have b : ¬ objX oam sel[j] = objX oam sel[p] := by omega
        simp [a, b]
      · omega

/-! ### stage (ii) -/

theorem interleave_lt' (l h : Nat) : interleave l h < 65536 := by
  unfold interleave; exact Nat.mod_lt _ (by decide)

theorem findSprites_spec (r : Ppu.Regs) (h : RegsOk r) (vram oam : Array Nat) (hv : vram.size = 8192)
    (ho : oam.size = 160) (hvb : IsBytes vram) (hob : IsBytes oam) (ly : Nat) :
    ∃ cache, findCurrentLineSprites (Cfg.ofRegs r) vram oam ly = .ok cache ∧ cache.size = 176 ∧
      ∀ x, x < 160 → mem cache (x + 8) = cacheByteSpec (toSpec r) (mem vram) (mem oam) x ly := by
  unfold findCurrentLineSprites
  have hen := cfg_objectEnabled r h
  cases hE : (Cfg.ofRegs r).objectEnabled
  · -- objects disabled: the cache stays clear
    refine ⟨Array.replicate 176 0, by simp [pure, Except.pure], by simp, ?_⟩
    intro x _
    rw [mem_replicate]
    unfold cacheByteSpec
    rw [← hen, hE]; rfl
  · have hsel := selectLoop_spec (Cfg.ofRegs r) vram oam ly hv ho hob 40 0 [] rfl (by simp)
    simp only [Nat.mul_zero, List.nil_append, List.length_nil, Nat.sub_zero] at hsel
    rw [selected_eq r h oam ly] at hsel
    simp only [Bool.not_true, Bool.false_eq_true, if_false, bind, Except.bind, hsel]
    generalize hS : selected (toSpec r) (mem oam) ly = sel at hsel
    have hsorted : sel.Pairwise (· < ·) := hS ▸ selected_pairwise _ _ _
    have hon : ∀ i ∈ sel, objOnLine (toSpec r) (mem oam) ly i = true := by
      intro i hi; exact selected_onLine _ _ _ _ (hS ▸ hi)
    let objs := sel.map (mkObj (Cfg.ofRegs r) vram oam ly)
    have hlen : objs.length = sel.length := List.length_map _
    have hcb : ∀ x, cacheByteSpec (toSpec r) (mem vram) (mem oam) x ly =
        match winnerOf (toSpec r) (mem vram) (mem oam) sel x ly with
        | none => 0
        | some i => specByte (toSpec r) (mem vram) (mem oam) i x ly := by
      intro x; unfold cacheByteSpec; rw [← hen, hE, hS]; rfl
    by_cases h0 : (objs.length == 0) = true
    · -- no object on the line
      have hnil : sel = [] := by
        have : objs.length = 0 := by simpa using h0
        rw [hlen] at this
        exact List.eq_nil_of_length_eq_zero this
      refine ⟨Array.replicate 176 0, by simp only [objs] at h0; simp only [h0, if_true]; rfl, by simp, ?_⟩
      intro x _
      rw [mem_replicate, hcb, hnil]; rfl
    · have hrow : ∀ o ∈ objs, o.rowData < 65536 := by
        intro o ho
        obtain ⟨i, _, rfl⟩ := List.mem_map.mp ho
        exact interleave_lt' _ _
      obtain ⟨cache, h1, h2, h3⟩ := sweep_winner objs hrow
      refine ⟨cache, by simp only [objs] at h0 h1; simp only [h0, if_false]; exact h1, h2, ?_⟩
      intro x hx
      have hpix : ∀ q (hq : q < sel.length), pixAt (objs[q]'(by omega)) (x + 8) =
          objColour (toSpec r) (mem vram) (mem oam) sel[q] x ly := by
        intro q hq
        simp only [objs, List.getElem_map]
        exact pixAt_mkObj r h vram oam hvb hob ly _ x (hon _ (List.getElem_mem hq))
      rw [hcb]
      rcases h3 (x + 8) (by omega) with ⟨hz, hnone⟩ | ⟨p, ⟨hp, hop, hmin⟩, _, hval⟩
      · rw [hz, winner_none]
        intro i hi
        obtain ⟨q, hq, rfl⟩ := List.mem_iff_getElem.mp hi
        have := hnone q (by omega)
        simp only [opaqueAt, bne_eq_false_iff_eq] at this
        rw [← hpix q hq]; exact this
      · have hp' : p < sel.length := by omega
        rw [winner_some (toSpec r) (mem vram) (mem oam) sel x ly hsorted p hp' ?_ ?_]
        · rw [hval]
          simp only [objs, List.getElem_map]
          exact objByte_mkObj r h vram oam hvb hob ly _ x (hon _ (List.getElem_mem hp'))
        · rw [← hpix p hp']
          simpa [opaqueAt] using hop
        · intro q hq hcq
          have hoq : opaqueAt (x + 8) (objs[q]'(by omega)) = true := by
            simp only [opaqueAt, bne_iff_ne, ne_eq]; rw [hpix q hq]; exact hcq
          have := hmin q (by omega) hoq
          simp only [objs, List.getElem_map] at this
          exact this

end GbVerif.PpuSel
