import GbVerif.Proofs.PpuFrame
/-!
C15: composition — the 114 ticks of a line, the 144 lines of a frame, the VBlank before it.
-/
namespace GbVerif.PpuCompose
open GbVerif.Ppu GbVerif.FrameSpec GbVerif.PpuBits GbVerif.PpuObj GbVerif.PpuSel GbVerif.PpuLine GbVerif.PpuFrame

/-- hypotheses on the contents held constant over the frame -/
structure Contents (r : Ppu.Regs) (vram oam : Array Nat) : Prop where
  regs : RegsOk r
  vsize : vram.size = 8192
  osize : oam.size = 160
  vbytes : IsBytes vram
  obytes : IsBytes oam

/-- the machine right after mode 2 of line `ly` was entered -/
structure LineStart (r : Ppu.Regs) (vram oam : Array Nat) (ly : Nat) (s : State) : Prop where
  cfg : s.cfg = Cfg.ofRegs r
  mode : s.mode = .m2
  dots : s.dots = 0
  line : s.line = ly
  wsize : s.writing.size = 23040
  vsize : s.visible.size = 23040
  ocache : findCurrentLineSprites (Cfg.ofRegs r) vram oam ly = .ok s.objCache
  opix : s.objPix = 8

/-- … and 113 ticks later, one tick before the end of its HBlank -/
structure LineEnd (r : Ppu.Regs) (vram oam : Array Nat) (ly : Nat) (s0 s : State) : Prop where
  cfg : s.cfg = Cfg.ofRegs r
  mode : s.mode = .m0
  dots : s.dots = 184
  line : s.line = ly
  wsize : s.writing.size = 23040
  vis : s.visible = s0.visible
  done : ∀ x, x < 160 → mem s.writing (ly * 160 + x) = FrameSpec.pixel (toSpec r) (mem vram) (mem oam) x ly
  other : ∀ k, (k < ly * 160 ∨ ly * 160 + 160 ≤ k) → mem s.writing k = mem s0.writing k

theorem line_ticks (r : Ppu.Regs) (vram oam : Array Nat) (hC : Contents r vram oam) (ly : Nat) (hly : ly < 144)
    (s : State) (h : LineStart r vram oam ly s) :
    ∃ s', runTicks vram oam 113 s = .ok s' ∧ LineEnd r vram oam ly s s' := by
  -- mode 2: 19 idle ticks
  have H1 : runTicks vram oam 19 s = .ok { s with dots := s.dots + 4 * 19 } :=
    runTicks_idle vram oam 19 s (fun k hk => Or.inl ⟨h.mode, by rw [h.dots]; omega⟩)
  -- the set-up tick
  let s0 : State := { s with dots := s.dots + 4 * 19 + 4 - 80, mode := .m3 }
  have H2 : tick { s with dots := s.dots + 4 * 19 } vram oam = enterMode3 s0 vram :=
    tick_m2_last vram oam _ h.mode (by show s.dots + 4 * 19 + 4 ≥ 80; have := h.dots; omega)
  have hs0d : s0.dots = 0 := by show s.dots + 4 * 19 + 4 - 80 = 0; have := h.dots; omega
  obtain ⟨s3, H3, inv3, pipe3⟩ := enterMode3_inv vram oam r hC.regs hC.vsize hC.vbytes ly s0 h.cfg h.line h.wsize h.opix
  -- the object cache of the line
  have hco : CacheOk r vram oam ly s0.objCache := by
    obtain ⟨cache, c1, c2, c3⟩ := findSprites_spec r hC.regs vram oam hC.vsize hC.osize hC.vbytes hC.obytes ly
    rw [h.ocache] at c1
    cases c1
    exact ⟨c2, c3⟩
  -- forty drawing ticks
  obtain ⟨s4, H4, inv4⟩ := drawTicks_inv vram oam r hC.regs hC.vsize hC.vbytes ly hly 40 0 s3 s0 rfl hco
    (by rw [inv3.mode]) (by rw [inv3.dots, hs0d]) inv3 (fun _ => ⟨_, pipe3⟩)
  have hm4 : s4.mode = .m3 := by rw [inv4.mode]
  have hd4 : s4.dots = 160 := by rw [inv4.dots]
  -- six idle ticks, the switch to mode 0, 46 idle ticks
  have H5 : runTicks vram oam 6 s4 = .ok { s4 with dots := s4.dots + 4 * 6 } :=
    runTicks_idle vram oam 6 s4 (fun k hk => Or.inr (Or.inl ⟨hm4, by rw [hd4]; omega, by rw [hd4]; omega⟩))
  let s5 : State := { s4 with dots := s4.dots + 4 * 6 + 4 - 188, mode := .m0 }
  have H6 : tick { s4 with dots := s4.dots + 4 * 6 } vram oam = .ok s5 :=
    tick_m3_last vram oam _ hm4 (by show s4.dots + 4 * 6 + 4 ≥ 188; omega)
  have hs5d : s5.dots = 0 := by show s4.dots + 4 * 6 + 4 - 188 = 0; omega
  have H7 : runTicks vram oam 46 s5 = .ok { s5 with dots := s5.dots + 4 * 46 } :=
    runTicks_idle vram oam 46 s5 (fun k hk => Or.inr (Or.inr (Or.inl ⟨rfl, by rw [hs5d]; omega⟩)))
  refine ⟨{ s5 with dots := s5.dots + 4 * 46 }, ?_, ?_⟩
  · have e : (113 : Nat) = 19 + (1 + (40 + (6 + (1 + 46)))) := rfl
    rw [e, runTicks_then vram oam _ _ _ _ H1, runTicks_then vram oam 1 _ _ s3 (by rw [runTicks_one, H2, H3]),
      runTicks_then vram oam _ _ _ _ H4, runTicks_then vram oam _ _ _ _ H5,
      runTicks_then vram oam 1 _ _ s5 (by rw [runTicks_one, H6]), H7]
  · exact ⟨inv4.cfg, rfl, by show s5.dots + 4 * 46 = 184; omega, inv4.line, inv4.wsize, inv4.vis,
      inv4.done, inv4.other⟩

/-! ### the 144 lines -/

/-- start of line `ly` with the lines above it already drawn; `v0` is the visible buffer -/
structure FrameInv (r : Ppu.Regs) (vram oam : Array Nat) (ly : Nat) (v0 : Array Nat) (s : State) : Prop where
  start : LineStart r vram oam ly s
  vis : s.visible = v0
  done : ∀ l x, l < ly → x < 160 →
    mem s.writing (l * 160 + x) = FrameSpec.pixel (toSpec r) (mem vram) (mem oam) x l

theorem line_step (r : Ppu.Regs) (vram oam : Array Nat) (hC : Contents r vram oam) (ly : Nat) (hly : ly < 143)
    (v0 : Array Nat) (s : State) (h : FrameInv r vram oam ly v0 s) :
    ∃ s', runTicks vram oam 114 s = .ok s' ∧ FrameInv r vram oam (ly + 1) v0 s' := by
  obtain ⟨s1, H1, E⟩ := line_ticks r vram oam hC ly (by omega) s h.start
  obtain ⟨cache, c1, _, _⟩ := findSprites_spec r hC.regs vram oam hC.vsize hC.osize hC.vbytes hC.obytes (ly + 1)
  have hf : findCurrentLineSprites s1.cfg vram oam (s1.line + 1) = .ok cache := by rw [E.cfg, E.line]; exact c1
  have H2 := tick_m0_next vram oam s1 E.mode (by have := E.dots; omega) (by have := E.line; omega) cache hf
  refine ⟨_, by rw [show (114 : Nat) = 113 + 1 from rfl, runTicks_then vram oam _ _ _ _ H1, runTicks_one, H2], ?_, ?_, ?_⟩
  · exact ⟨E.cfg, rfl, by show s1.dots + 4 - 188 = 0; have := E.dots; omega, by show s1.line + 1 = ly + 1; rw [E.line],
      E.wsize, by show s1.visible.size = 23040; rw [E.vis]; exact h.start.vsize, c1, rfl⟩
  · show s1.visible = v0; rw [E.vis]; exact h.vis
  · intro l x hl hx
    show mem s1.writing (l * 160 + x) = _
    by_cases hll : l = ly
    · subst hll; exact E.done x hx
    · rw [E.other (l * 160 + x) (Or.inl (by omega))]; exact h.done l x (by omega) hx

theorem lines_run (r : Ppu.Regs) (vram oam : Array Nat) (hC : Contents r vram oam) (v0 : Array Nat) :
    ∀ (n ly : Nat) (s : State), ly + n = 143 → FrameInv r vram oam ly v0 s →
      ∃ s', runTicks vram oam (114 * n) s = .ok s' ∧ FrameInv r vram oam 143 v0 s' := by
  intro n
  induction n with
  | zero => intro ly s hn h; have : ly = 143 := by omega
            subst this; exact ⟨s, rfl, h⟩
  | succ n ih =>
    intro ly s hn h
    obtain ⟨s1, H1, h1⟩ := line_step r vram oam hC ly (by omega) v0 s h
    obtain ⟨s', H2, h2⟩ := ih (ly + 1) s1 (by omega) h1
    refine ⟨s', ?_, h2⟩
    rw [show 114 * (n + 1) = 114 + 114 * n by omega, runTicks_then vram oam _ _ _ _ H1]; exact H2

/-- the machine at VBlank entry (or at power-on) -/
structure VBlankEntry (s : State) : Prop where
  mode : s.mode = .m1
  line : s.line = 144
  dots : s.dots = 0
  wsize : s.writing.size = 23040
  vsize : s.visible.size = 23040

/-- the whole visible buffer equals the reference frame -/
def Presents (r : Ppu.Regs) (vram oam : Array Nat) (s : State) : Prop :=
  s.visible.size = 23040 ∧ ∀ l x, l < 144 → x < 160 →
    mem s.visible (l * 160 + x) = FrameSpec.pixel (toSpec r) (mem vram) (mem oam) x l

theorem frame_from_line0 (r : Ppu.Regs) (vram oam : Array Nat) (hC : Contents r vram oam) (v0 : Array Nat) (s : State)
    (h : FrameInv r vram oam 0 v0 s) :
    ∃ s', runTicks vram oam (144 * 114) s = .ok s' ∧ VBlankEntry s' ∧ s'.cfg = Cfg.ofRegs r ∧ Presents r vram oam s' := by
  obtain ⟨s1, H1, h1⟩ := lines_run r vram oam hC v0 143 0 s rfl h
  obtain ⟨s2, H2, E⟩ := line_ticks r vram oam hC 143 (by omega) s1 h1.start
  have H3 := tick_m0_vblank vram oam s2 E.mode (by have := E.dots; omega) (by have := E.line; omega)
  refine ⟨{ s2 with dots := s2.dots + 4 - 188, line := 144, mode := .m1, visible := s2.writing, writing := s2.visible },
    ?_, ?_, E.cfg, ?_, ?_⟩
  · rw [show 144 * 114 = 114 * 143 + (113 + 1) from rfl, runTicks_then vram oam _ _ _ _ H1,
      runTicks_then vram oam _ _ _ _ H2, runTicks_one, H3]
  · exact ⟨rfl, rfl, by show s2.dots + 4 - 188 = 0; have := E.dots; omega,
      by show s2.visible.size = 23040; rw [E.vis]; exact h1.start.vsize, E.wsize⟩
  · exact E.wsize
  · intro l x hl hx
    show mem s2.writing (l * 160 + x) = _
    by_cases hll : l = 143
    · subst hll; exact E.done x hx
    · rw [E.other (l * 160 + x) (Or.inl (by omega))]; exact h1.done l x (by omega) hx

/-! ### the VBlank before the frame -/

/-- `n` ticks inside the VBlank; `a` = ticks since VBlank entry -/
theorem vb_run (vram oam : Array Nat) : ∀ (n a : Nat) (s : State), a + n ≤ 1139 → s.mode = .m1 →
    s.line = 144 + a / 114 → s.dots = 4 * (a % 114) →
    runTicks vram oam n s = .ok { s with line := 144 + (a + n) / 114, dots := 4 * ((a + n) % 114) } := by
  intro n
  induction n with
  | zero =>
    intro a s _ _ hl hd
    obtain ⟨c, v, w, m, d, l, nx, tc, oc, op, wl⟩ := s
    simp only at hl hd
    subst hl hd
    rfl
  | succ n ih =>
    intro a s ha hm hl hd
    have e : a + (n + 1) = a + 1 + n := by omega
    by_cases hr : a % 114 < 113
    · have ht := tick_m1_idle vram oam s hm (by omega)
      simp only [runTicks, ht, bind, Except.bind]
      rw [ih (a + 1) ({ s with dots := s.dots + 4 } : State) (by omega) hm (by show s.line = _; omega) (by show s.dots + 4 = _; omega), e]
    · have ht := tick_m1_wrap vram oam s hm (by omega) (by omega)
      simp only [runTicks, ht, bind, Except.bind]
      rw [ih (a + 1) ({ s with dots := s.dots + 4 - 456, line := s.line + 1 } : State) (by omega) hm (by show s.line + 1 = _; omega) (by show s.dots + 4 - 456 = _; omega), e]

/-- from any point of the VBlank to the next VBlank entry: the frame presented is the reference -/
theorem vblank_then_frame (r : Ppu.Regs) (vram oam : Array Nat) (hC : Contents r vram oam) (a : Nat) (ha : a ≤ 1139)
    (s : State) (hm : s.mode = .m1) (hl : s.line = 144 + a / 114) (hd : s.dots = 4 * (a % 114))
    (hc : s.cfg = Cfg.ofRegs r) (hw : s.writing.size = 23040) (hv : s.visible.size = 23040) :
    ∃ s', runTicks vram oam (1140 - a + 144 * 114) s = .ok s' ∧ VBlankEntry s' ∧ s'.cfg = Cfg.ofRegs r ∧
      Presents r vram oam s' := by
  have H1 := vb_run vram oam (1139 - a) a s (by omega) hm hl hd
  have e1 : a + (1139 - a) = 1139 := by omega
  rw [e1] at H1
  obtain ⟨cache, c1, _, _⟩ := findSprites_spec r hC.regs vram oam hC.vsize hC.osize hC.vbytes hC.obytes 0
  let sC : State := { s with line := 144 + 1139 / 114, dots := 4 * (1139 % 114) }
  have H2 := tick_m1_last vram oam sC hm (by show 4 * (1139 % 114) + 4 ≥ 456; omega) (by show ¬ (144 + 1139 / 114 < 153); omega) cache (by show findCurrentLineSprites s.cfg vram oam 0 = _; rw [hc]; exact c1)
  have hF : FrameInv r vram oam 0 s.visible
      { sC with dots := sC.dots + 4 - 456, line := 0, mode := .m2, objCache := cache, objPix := 8 } :=
    ⟨⟨hc, rfl, by show 4 * (1139 % 114) + 4 - 456 = 0; omega, rfl, hw, hv, c1, rfl⟩, rfl, fun l x hl _ => by omega⟩
  obtain ⟨s', H3, r1, r2, r3⟩ := frame_from_line0 r vram oam hC s.visible _ hF
  refine ⟨s', ?_, r1, r2, r3⟩
  rw [show 1140 - a + 144 * 114 = (1139 - a) + (1 + 144 * 114) by omega, runTicks_then vram oam _ _ _ _ H1,
    runTicks_then vram oam 1 _ _ _ (by rw [runTicks_one, H2])]
  exact H3

/-! ### calling the setters again gives the same configuration as a fresh set-up -/

def chain8 (a : Array Nat) (r : Ppu.Regs) : Array Nat :=
  (((((((a.set! 0 (shade (r.obp0 &&& 3))).set! 1 (shade ((r.obp0 >>> 2) &&& 3))).set! 2
      (shade ((r.obp0 >>> 4) &&& 3))).set! 3 (shade ((r.obp0 >>> 6) &&& 3))).set! 4 (shade (r.obp1 &&& 3))).set! 5
      (shade ((r.obp1 >>> 2) &&& 3))).set! 6 (shade ((r.obp1 >>> 4) &&& 3))).set! 7 (shade ((r.obp1 >>> 6) &&& 3))

theorem applyRegs_eq (c : Cfg) (r : Ppu.Regs) :
    c.applyRegs r = { (Cfg.ofRegs r) with objectPalettes := chain8 c.objectPalettes r } := by
  simp only [Cfg.ofRegs, Cfg.applyRegs, Cfg.setObjPalette, Cfg.setBgp, Cfg.setLcdControl, chain8,
    show (0 &&& 7) * 4 = 0 from rfl, show (1 &&& 7) * 4 = 4 from rfl, Nat.zero_add, Nat.add_zero]

theorem getElem_eq_mem (a : Array Nat) (i : Nat) (h : i < a.size) : a[i] = mem a i := by
  simp [mem, Array.getD, h]

theorem chain8_ext (X Y : Array Nat) (r : Ppu.Regs) (hs : X.size = Y.size) (h : ∀ j, 8 ≤ j → mem X j = mem Y j) :
    chain8 X r = chain8 Y r := by
  apply Array.ext
  · simp [chain8, hs]
  · intro i h1 h2
    rw [getElem_eq_mem _ _ h1, getElem_eq_mem _ _ h2]
    have hsz : (chain8 Y r).size = Y.size := by simp [chain8]
    rw [hsz] at h2
    simp only [chain8, Array.set!_eq_setIfInBounds, mem_sib, Array.size_setIfInBounds, hs]
    by_cases h8 : 8 ≤ i
    · have : ¬ i = 7 ∧ ¬ i = 6 ∧ ¬ i = 5 ∧ ¬ i = 4 ∧ ¬ i = 3 ∧ ¬ i = 2 ∧ ¬ i = 1 ∧ ¬ i = 0 := by omega
      simp only [this.1, this.2.1, this.2.2.1, this.2.2.2.1, this.2.2.2.2.1, this.2.2.2.2.2.1, this.2.2.2.2.2.2.1,
        this.2.2.2.2.2.2.2, false_and, if_false]
      exact h i h8
    · have hi : i = 0 ∨ i = 1 ∨ i = 2 ∨ i = 3 ∨ i = 4 ∨ i = 5 ∨ i = 6 ∨ i = 7 := by omega
      rcases hi with rfl | rfl | rfl | rfl | rfl | rfl | rfl | rfl <;> simp [h2]

theorem applyRegs_ofRegs (r0 r : Ppu.Regs) : (Cfg.ofRegs r0).applyRegs r = Cfg.ofRegs r := by
  have hx : chain8 (Cfg.ofRegs r0).objectPalettes r = chain8 Cfg.new.objectPalettes r := by
    rw [objPalettes_eq r0]
    apply chain8_ext
    · simp [Cfg.new]
    · intro j hj
      have : ¬ j = 7 ∧ ¬ j = 6 ∧ ¬ j = 5 ∧ ¬ j = 4 ∧ ¬ j = 3 ∧ ¬ j = 2 ∧ ¬ j = 1 ∧ ¬ j = 0 := by omega
      simp only [Array.set!_eq_setIfInBounds, mem_sib, this.1, this.2.1, this.2.2.1, this.2.2.2.1, this.2.2.2.2.1,
        this.2.2.2.2.2.1, this.2.2.2.2.2.2.1, this.2.2.2.2.2.2.2, false_and, if_false, Cfg.new]
  have h1 := applyRegs_eq (Cfg.ofRegs r0) r
  have h2 := applyRegs_eq Cfg.new r
  rw [hx] at h1
  rw [h1, ← h2]
  rfl

/-! ### the frames the harness observes -/

theorem powerOn_entry (c : Cfg) : VBlankEntry (powerOn c) := ⟨rfl, rfl, rfl, by simp [powerOn], by simp [powerOn]⟩

/-- first frame after power-on -/
theorem first_frame (r : Ppu.Regs) (vram oam : Array Nat) (hC : Contents r vram oam) :
    ∃ s', renderFirst r vram oam = .ok s' ∧ VBlankEntry s' ∧ s'.cfg = Cfg.ofRegs r ∧ Presents r vram oam s' := by
  have hE := powerOn_entry (Cfg.ofRegs r)
  exact vblank_then_frame r vram oam hC 0 (by omega) (powerOn (Cfg.ofRegs r)) hE.mode hE.line hE.dots rfl hE.wsize hE.vsize

/-- any later frame on the same machine: `k` ticks of the VBlank with the old memories and registers,
then the setters are called and VRAM/OAM replaced -/
theorem next_frame (r : Ppu.Regs) (vramOld oamOld vram oam : Array Nat) (hC : Contents r vram oam) (s : State)
    (hE : VBlankEntry s) (r0 : Ppu.Regs) (hc : s.cfg = Cfg.ofRegs r0) (k : Nat) (hk : k ≤ 1139) :
    ∃ s', renderNext s r vramOld oamOld vram oam k = .ok s' ∧ VBlankEntry s' ∧ s'.cfg = Cfg.ofRegs r ∧
      Presents r vram oam s' := by
  have H1 := vb_run vramOld oamOld k 0 s (by omega) hE.mode (by rw [hE.line]) (by rw [hE.dots])
  simp only [Nat.zero_add] at H1
  unfold renderNext
  simp only [H1, bind, Except.bind]
  exact vblank_then_frame r vram oam hC k hk _ hE.mode rfl rfl
    (by show s.cfg.applyRegs r = _; rw [hc, applyRegs_ofRegs]) hE.wsize hE.vsize

/-- `Presents` as an equation with the reference frame -/
theorem presents_eq (r : Ppu.Regs) (vram oam : Array Nat) (s : State) (h : Presents r vram oam s) :
    s.visible = FrameSpec.frame (toSpec r) (mem vram) (mem oam) := by
  apply Array.ext
  · rw [h.1]; simp [FrameSpec.frame]
  · intro i h1 h2
    rw [getElem_eq_mem _ _ h1]
    simp only [FrameSpec.frame, Array.getElem_ofFn]
    have hi : i < 23040 := by rw [← h.1]; exact h1
    have := h.2 (i / 160) (i % 160) (by omega) (by omega)
    rw [show i / 160 * 160 + i % 160 = i by omega] at this
    exact this

end GbVerif.PpuCompose
