import GbVerif.Proofs.InterpMono
import GbVerif.Proofs.InterpFrame
/-!
Blocks that perform no store below 0x8000 (no write to the cartridge's registers): the interpreter model runs them
exactly as on a bus where such stores are forbidden, and the cartridge state — hence the ROM bank mapped at
0x4000–0x7FFF — is the same before every instruction fetch of the block as at block entry (C03).
-/
namespace GbVerif.CoreProofs
open GbVerif.Interp

/-- the real bus with stores below 0x8000 forbidden -/
def hiBus : BusOps Bus.State := guard Cpu.busOps (fun a => decide (0x8000 ≤ a))

/-- a store at or above 0x8000 does not touch the cartridge's registers -/
macro "wrc" h:ident : tactic => `(tactic| (
  obtain ⟨x, _, $h:ident⟩ := bind_ok_elim $h:ident
  injection $h:ident with $h:ident; subst $h:ident; rfl))

theorem write_hi_cart {s s' : Bus.State} {a v : Nat} (ha : 0x8000 ≤ a) (h : Bus.write s a v = .ok s') : s'.cart = s.cart := by
  unfold Bus.write at h
  rw [if_neg (by omega)] at h
  by_cases h2 : a < 0xa000
  · rw [if_pos h2] at h; wrc h
  rw [if_neg h2] at h
  by_cases h3 : a < 0xc000
  · rw [if_pos h3] at h
    simp only [] at h
    split at h
    · injection h with h; subst h; rfl
    · split at h
      · wrc h
      · injection h with h; subst h; rfl
  rw [if_neg h3] at h
  by_cases h4 : a < 0xd000
  · rw [if_pos h4] at h; wrc h
  rw [if_neg h4] at h
  by_cases h5 : a < 0xe000
  · rw [if_pos h5] at h; wrc h
  rw [if_neg h5] at h
  by_cases h6 : a < 0xfe00
  · rw [if_pos h6] at h; injection h with h; subst h; rfl
  rw [if_neg h6] at h
  by_cases h7 : a < 0xfea0
  · rw [if_pos h7] at h; wrc h
  rw [if_neg h7] at h
  by_cases h8 : a < 0xff00
  · rw [if_pos h8] at h; injection h with h; subst h; rfl
  rw [if_neg h8] at h
  by_cases h9 : a < 0xff80
  · rw [if_pos h9] at h
    split at h
    · injection h with h; subst h; rfl
    · injection h with h; subst h; rfl
  rw [if_neg h9] at h
  split at h
  · injection h with h; subst h; rfl
  · wrc h

theorem hiBus_write {s s' : Bus.State} {a v : Nat} (h : hiBus.write s a v = .ok s') : s'.cart = s.cart := by
  rw [hiBus, guard_write_iff] at h
  exact write_hi_cart (by simpa using h.1) h.2

theorem runOp_hi_cart {op : Op} {r r' : Regs} {s s' : Bus.State} {len st : Nat}
    (h : runOp hiBus op r s len = .ok (r', s', st)) : s'.cart = s.cart :=
  runOp_inv hiBus (fun m => m.cart = s.cart) (fun _ _ _ _ hw hp => (hiBus_write hw).trans hp) op r s len r' s' st h rfl

/-- `Cpu.runNextOp` on the guarded bus -/
def runNextOpHi (r : Regs) (s : Bus.State) : Except Bus.Panic (Regs × Bus.State × Nat × Bool) := do
  let (b0, b1, b2) ← Cpu.fetch3 s r.ip
  let (op, len, clocks) := Gen.decode b0 b1 b2
  let (r, s, status) ← runOp hiBus op r s len
  pure ({ r with ip := r.ip &&& 0xffff, cycles := r.cycles + clocks / 4 }, s, status, Gen.isBlockEnd op)

theorem runNextOpHi_spec {r : Regs} {s : Bus.State} {x : Regs × Bus.State × Nat × Bool} (h : runNextOpHi r s = .ok x) :
    Cpu.runNextOp r s = .ok x ∧ x.2.1.cart = s.cart := by
  unfold runNextOpHi at h
  unfold Cpu.runNextOp
  obtain ⟨⟨b0, b1, b2⟩, h0, h⟩ := bind_ok_elim h
  simp only [] at h
  simp only [bind, Except.bind, h0]
  generalize Gen.decode b0 b1 b2 = d at h ⊢
  obtain ⟨op, len, clocks⟩ := d
  simp only [] at h ⊢
  obtain ⟨⟨r1, s1, st1⟩, h1, h⟩ := bind_ok_elim h
  have hreal := runOp_guard Cpu.busOps _ op r s len _ h1
  simp only [hreal]
  refine ⟨h, ?_⟩
  injection h with h; subst h
  exact runOp_hi_cart h1

/-- the block loop on the guarded bus, recording the cartridge state in front of every instruction fetch -/
def runCodeBlockAuxHi (start : Nat) (r : Regs) (s : Bus.State) (status : Nat) :
    Nat → Except Bus.Panic ((Regs × Bus.State × Nat) × List Cart.State)
  | 0 => .error (.explicit "fuel")
  | fuel+1 =>
    if start < 0x8000 && Cpu.romBlockMustEnd start r.ip then pure ((r, s, status), [])
    else do
      let (r', s', st, stop) ← runNextOpHi r s
      if stop then pure ((r', s', st), [s.cart])
      else do
        let (res, tr) ← runCodeBlockAuxHi start r' s' st fuel
        pure (res, s.cart :: tr)

/-- a block without stores below 0x8000: the real block loop gives the same result, and the cartridge state in front of
every fetch (and at the end) is the one at block entry -/
theorem runCodeBlockAuxHi_spec (start : Nat) : ∀ (fuel : Nat) (r : Regs) (s : Bus.State) (st : Nat)
    (res : Regs × Bus.State × Nat) (tr : List Cart.State),
    runCodeBlockAuxHi start r s st fuel = .ok (res, tr) →
    Cpu.runCodeBlockAux start r s st fuel = .ok res ∧ (∀ c ∈ tr, c = s.cart) ∧ res.2.1.cart = s.cart := by
  intro fuel
  induction fuel with
  | zero => intro r s st res tr h; cases h
  | succ n ih =>
    intro r s st res tr h
    rw [runCodeBlockAuxHi] at h
    rw [Cpu.runCodeBlockAux]
    split at h
    · rename_i hc
      rw [if_pos hc]
      simp only [pure, Except.pure, Except.ok.injEq, Prod.mk.injEq] at h
      obtain ⟨rfl, rfl⟩ := h
      exact ⟨rfl, fun c hc => absurd hc (List.not_mem_nil), rfl⟩
    · rename_i hc
      rw [if_neg hc]
      obtain ⟨⟨r1, s1, st1, stop⟩, h1, h⟩ := bind_ok_elim h
      obtain ⟨hreal, hcart⟩ := runNextOpHi_spec h1
      simp only [bind, Except.bind, hreal]
      simp only [] at h hcart ⊢
      split at h
      · rename_i hs
        simp only [hs, if_true]
        simp only [pure, Except.pure, Except.ok.injEq, Prod.mk.injEq] at h
        obtain ⟨rfl, rfl⟩ := h
        refine ⟨rfl, ?_, hcart⟩
        intro c hc
        simpa using hc
      · rename_i hs
        simp only [hs, Bool.false_eq_true, if_false]
        obtain ⟨⟨res', tr'⟩, h2, h⟩ := bind_ok_elim h
        simp only [pure, Except.pure, Except.ok.injEq, Prod.mk.injEq] at h
        obtain ⟨rfl, rfl⟩ := h
        obtain ⟨i1, i2, i3⟩ := ih _ _ _ _ _ h2
        refine ⟨i1, ?_, i3.trans hcart⟩
        intro c hc
        rcases List.mem_cons.mp hc with rfl | hc
        · rfl
        · exact (i2 c hc).trans hcart

end GbVerif.CoreProofs
