import GbVerif.Proofs.X86SimMem
import GbVerif.Proofs.X86SimFlagOps
/-
C01, the bus side: the stores of A to an address that is not a register pair — LDH (n),A (0xFF00 + n), LD (nn),A and
LD (C),A (0xFF00 | C).  The template is `push rax rcx rdx ; <rsi := address> ; mov rdi, base ; mov dl, ah ;
mov rax, write_helper ; call rax ; pop rdx rcx rax`.
-/
namespace GbVerif.X86
open GbVerif.JitCycles GbVerif.Interp
variable {β : Type}

theorem step_push_ops (B : BusOps β) (s s1 : St β) (r len : Nat) (h : step B s (.push r) len = .ok s1) :
    s1.op1 = s.op1 ∧ s1.op2 = s.op2 := by
  simp only [step] at h
  injection h with h
  subst h
  exact ⟨rfl, rfl⟩

def stAbsTail (o : Nat → Nat) : List (Nat × Instr) :=
  [(o 0, Instr.movabs 7 512), (o 1, Instr.mov8 (R8.lo 2) (R8.hi 0)), (o 2, Instr.movabs 0 514), (o 3, Instr.callRax),
   (o 4, Instr.pop 2), (o 5, Instr.pop 1), (o 6, Instr.pop 0)]

def stAbsBody (apre : List (Nat × Instr)) (o : Nat → Nat) : List (Nat × Instr) :=
  ([(0, Instr.push 0), (1, Instr.push 1), (2, Instr.push 2)] ++ apre) ++ stAbsTail o

/-- what the address instructions must do: rsi's low 16 bits := `A`, nothing else moves -/
def AddrPre (B : BusOps β) (st : St β) (apre : List (Nat × Instr)) (A : Nat) : Prop :=
  ∀ (e : Nat) (s s2 : St β), s.r.size = 16 → (∀ j, get s j = get st j) → s.op1 = st.op1 → s.op2 = st.op2 →
    execList B e apre s = .ok s2 →
    (get s2 6).toNat % 65536 = A ∧ (∀ j, 6 ≠ j → get s2 j = get s j) ∧ s2.stack = s.stack ∧ s2.bus = s.bus ∧ s2.r.size = 16

set_option maxHeartbeats 1000000 in
theorem stabs_body (B : BusOps β) (apre : List (Nat × Instr)) (A : Nat) (o : Nat → Nat) (e : Nat) (g : Regs) (st s' : St β)
    (hs : Sim g st) (hpre : AddrPre B st apre A) (hex : execList B e (stAbsBody apre o) st = .ok s') :
    B.write st.bus A (getReg g .A) = .ok s'.bus ∧ Sim g s' ∧ s'.stack = st.stack ∧ get s' 14 = get st 14 := by
  unfold stAbsBody at hex
  obtain ⟨sp, hex1, hext⟩ := execList_append B e _ _ st s' hex
  obtain ⟨s3, hpush, hap⟩ := execList_append B _ _ [(0, Instr.push 0), (1, Instr.push 1), (2, Instr.push 2)] st sp hex1
  obtain ⟨s1, h1, hpush⟩ := execList_cons B _ _ _ _ _ _ hpush
  obtain ⟨s2, h2, hpush⟩ := execList_cons B _ _ _ _ _ _ hpush
  obtain ⟨s3', h3, hpush⟩ := execList_cons B _ _ _ _ _ _ hpush
  have := execList_nil B _ _ _ hpush
  subst this
  have hsz := hs.size
  obtain ⟨r1, k1, b1, z1⟩ := step_push B st s1 0 _ h1
  obtain ⟨r2, k2, b2, z2⟩ := step_push B s1 s2 1 _ h2
  obtain ⟨r3, k3, b3, z3⟩ := step_push B s2 s3 2 _ h3
  obtain ⟨p1, q1⟩ := step_push_ops B st s1 0 _ h1
  obtain ⟨p2, q2⟩ := step_push_ops B s1 s2 1 _ h2
  obtain ⟨p3, q3⟩ := step_push_ops B s2 s3 2 _ h3
  have R3 : ∀ j, get s3 j = get st j := fun j => by rw [r3, r2, r1]
  have K3 : s3.stack = get st 2 :: get st 1 :: get st 0 :: st.stack := by rw [k3, k2, k1, r2 2, r1 2, r1 1]
  have Z3 : s3.r.size = 16 := by rw [z3, z2, z1]; exact hsz
  obtain ⟨a4, r4, k4, b4, z4⟩ := hpre _ s3 sp Z3 R3 (by rw [p3, p2, p1]) (by rw [q3, q2, q1]) hap
  unfold stAbsTail at hext
  obtain ⟨s5, h5, hext⟩ := execList_cons B _ _ _ _ _ _ hext
  obtain ⟨s6, h6, hext⟩ := execList_cons B _ _ _ _ _ _ hext
  obtain ⟨s8, h8, hext⟩ := execList_cons B _ _ _ _ _ _ hext
  obtain ⟨s9, h9, hext⟩ := execList_cons B _ _ _ _ _ _ hext
  obtain ⟨s10, h10, hext⟩ := execList_cons B _ _ _ _ _ _ hext
  obtain ⟨s11, h11, hext⟩ := execList_cons B _ _ _ _ _ _ hext
  obtain ⟨s12, h12, hext⟩ := execList_cons B _ _ _ _ _ _ hext
  have := execList_nil B _ _ _ hext
  subst this
  obtain ⟨v5, r5, k5, b5, z5⟩ := step_movabs B sp s5 7 512 _ (by omega) h5
  have Z5 : s5.r.size = 16 := by rw [z5]; exact z4
  have R5 : ∀ j, 6 ≠ j → 7 ≠ j → get s5 j = get st j := fun j h6' h7' => by rw [r5 j h7', r4 j h6', R3]
  -- mov dl, ah
  rw [step_mov8_eq] at h6
  injection h6 with h6
  have hsrc : get8 ({ s5 with pc := s5.pc + (headOff e
      [(o 2, Instr.movabs 0 514), (o 3, Instr.callRax), (o 4, Instr.pop 2), (o 5, Instr.pop 1), (o 6, Instr.pop 0)] - o 1) } : St β) (hostR8 .A) = getReg g .A := by
    rw [← get8_sim hs .A]
    apply get8_of_regs
    intro j hj
    show get s5 j = get st j
    exact R5 j (by omega) (by omega)
  have hsrc' : get8 ({ s5 with pc := s5.pc + (headOff e
      [(o 2, Instr.movabs 0 514), (o 3, Instr.callRax), (o 4, Instr.pop 2), (o 5, Instr.pop 1), (o 6, Instr.pop 0)] - o 1) } : St β) (R8.hi 0) = getReg g .A := hsrc
  rw [hsrc'] at h6
  have hv := getReg_lt g .A
  have x6 : (get s6 2).toNat % 256 = getReg g .A := by
    rw [← h6, toNat_set8_lo _ _ _ (by show 2 < s5.r.size; omega)]
    have := (get s5 2).isLt
    show ((get s5 2).toNat - (get s5 2).toNat % 256 + getReg g .A % 256) % 2 ^ 64 % 256 = _
    omega
  have r6 : ∀ j, 2 ≠ j → get s6 j = get s5 j := by
    intro j hj; rw [← h6, get_set8_ne _ _ _ _ (by simpa [r8reg] using hj)]; rfl
  have k6 : s6.stack = s5.stack := by rw [← h6, stack_set8]
  have b6 : s6.bus = s5.bus := by rw [← h6, bus_set8]
  have z6 : s6.r.size = 16 := by rw [← h6, size_set8]; exact Z5
  obtain ⟨v8, r8, k8, b8, z8⟩ := step_movabs B s6 s8 0 514 _ (by omega) h8
  have Z8 : s8.r.size = 16 := by rw [z8]; exact z6
  have a6 : (get s8 6).toNat % 65536 = A := by rw [r8 6 (by decide), r6 6 (by decide), r5 6 (by decide)]; exact a4
  have a2 : (get s8 2).toNat % 256 = getReg g .A := by rw [r8 2 (by decide), x6]
  obtain ⟨hwr, k9, Z9, r9⟩ := step_call_write B s8 s9 _ Z8 v8 h9
  have B8 : s8.bus = st.bus := by rw [b8, b6, b5, b4, b3, b2, b1]
  rw [a6, a2, B8] at hwr
  have K9 : s9.stack = get st 2 :: get st 1 :: get st 0 :: st.stack := by rw [k9, k8, k6, k5, k4]; exact K3
  obtain ⟨w10, t10, e10, k10, g10, q10, b10, z10⟩ := step_pop B s9 s10 2 _ (by rw [Z9]; decide) h10
  obtain ⟨w11, t11, e11, k11, g11, q11, b11, z11⟩ := step_pop B s10 s11 1 _ (by rw [z10, Z9]; decide) h11
  obtain ⟨w12, t12, e12, k12, g12, q12, b12, z12⟩ := step_pop B s11 s' 0 _ (by rw [z11, z10, Z9]; decide) h12
  rw [K9] at e10
  obtain ⟨a10, e10⟩ := List.cons.inj e10
  rw [k10, ← e10] at e11
  obtain ⟨a11, e11⟩ := List.cons.inj e11
  rw [k11, ← e11] at e12
  obtain ⟨a12, e12⟩ := List.cons.inj e12
  have G2 : get s' 2 = get st 2 := by rw [q12 2 (by decide), q11 2 (by decide), g10]; exact a10.symm
  have G1 : get s' 1 = get st 1 := by rw [q12 1 (by decide), g11]; exact a11.symm
  have G0 : get s' 0 = get st 0 := by rw [g12]; exact a12.symm
  have Rrest : ∀ j, j ∉ [0, 1, 2, 6, 7, 8, 9, 10, 11] → get s' j = get st j := by
    intro j hj
    rw [q12 j (fun e => hj (by rw [← e]; simp)), q11 j (fun e => hj (by rw [← e]; simp)), q10 j (fun e => hj (by rw [← e]; simp)),
      r9 j hj, r8 j (fun e => hj (by rw [← e]; simp)), r6 j (fun e => hj (by rw [← e]; simp)),
      R5 j (fun e => hj (by rw [← e]; simp)) (fun e => hj (by rw [← e]; simp))]
  refine ⟨by rw [b12, b11, b10]; exact hwr, ⟨?_, ?_, ?_, ?_, ?_, ?_, ?_, ?_⟩, by rw [k12]; exact e12.symm, Rrest 14 (by decide)⟩
  · rw [G0]; exact hs.af
  · rw [G1]; exact hs.hl
  · rw [G2]; exact hs.de
  · rw [Rrest 3 (by decide)]; exact hs.bc
  · rw [Rrest 12 (by decide)]; exact hs.sp
  · rw [Rrest 13 (by decide)]; exact hs.ip
  · rw [Rrest 15 (by decide)]; exact hs.cy
  · rw [z12, z11, z10]; exact Z9

theorem straight_stAbsBody (apre : List (Nat × Instr)) (o : Nat → Nat) (h : straight apre) : straight (stAbsBody apre o) := by
  refine straight_app (straight_app ?_ h) ?_
  · intro p hp
    simp only [List.mem_cons, List.not_mem_nil, or_false] at hp
    rcases hp with e | e | e <;> subst e <;> exact ⟨fun _ _ e => Instr.noConfusion e, fun _ e => Instr.noConfusion e⟩
  · intro p hp
    simp only [stAbsTail, List.mem_cons, List.not_mem_nil, or_false] at hp
    rcases hp with e | e | e | e | e | e | e <;> subst e <;> exact ⟨fun _ _ e => Instr.noConfusion e, fun _ e => Instr.noConfusion e⟩

/-- `mov si, imm16` as address instruction -/
theorem addrPre_movi16 (B : BusOps β) (st : St β) (off : Nat) (t1 t2 : Nat) (A : Nat)
    (hA : (tokVal st t1 + 256 * (tokVal st t2 + 256 * 0)) % 65536 = A) :
    AddrPre B st [(off, Instr.movi16 6 [t1, t2])] A := by
  intro e s s2 hsz _ ho1 ho2 hex
  obtain ⟨s1, h1, hex⟩ := execList_cons B _ _ _ _ _ _ hex
  have := execList_nil B _ _ _ hex
  subst this
  have e1 : ∀ len, step B s (.movi16 6 [t1, t2]) len =
      .ok (setSz ({ s with pc := s.pc + len } : St β) .w 6 (tokVal ({ s with pc := s.pc + len } : St β) t1 + 256 * (tokVal ({ s with pc := s.pc + len } : St β) t2 + 256 * 0))) := fun _ => rfl
  rw [e1] at h1; injection h1 with h1
  have ht : ∀ (len t : Nat), tokVal ({ s with pc := s.pc + len } : St β) t = tokVal st t := by
    intro len t
    show (if t == 256 then s.op1 else if t == 257 then s.op2 else t % 256) = (if t == 256 then st.op1 else if t == 257 then st.op2 else t % 256)
    rw [ho1, ho2]
  rw [ht, ht] at h1
  refine ⟨?_, ?_, ?_, ?_, ?_⟩
  · rw [← h1, toNat_setSz_w _ _ _ (by show 6 < s.r.size; omega)]
    have := (get s 6).isLt
    show ((get s 6).toNat - (get s 6).toNat % 65536 + (tokVal st t1 + 256 * (tokVal st t2 + 256 * 0)) % 65536) % 2 ^ 64 % 65536 = A
    omega
  · intro j hj; rw [← h1, get_setSz_ne _ _ _ _ _ hj]; rfl
  · rw [← h1, stack_setSz]
  · rw [← h1, bus_setSz]
  · rw [← h1, size_setSz]; exact hsz

theorem table_stabs (b1 b2 : Nat) :
    (decodeCode (Gen.emitOp 0xe0) = some (stAbsBody [(3, Instr.movi16 6 [256, 255])] (fun k => [7, 17, 19, 29, 31, 32, 33].getD k 0) ++ [(34, addIp 2), (38, addCy 3)]) ∧
      bytesOf (Gen.emitOp 0xe0) = 42 ∧ Gen.decode 0xe0 b1 b2 = (.LoadAToMemory (65280 + b1) false, 2, 12)) ∧
    (decodeCode (Gen.emitOp 0xea) = some (stAbsBody [(3, Instr.movi16 6 [256, 257])] (fun k => [7, 17, 19, 29, 31, 32, 33].getD k 0) ++ [(34, addIp 3), (38, addCy 4)]) ∧
      bytesOf (Gen.emitOp 0xea) = 42 ∧ Gen.decode 0xea b1 b2 = (.LoadAToMemory (b1 + 256 * b2) true, 3, 16)) :=
  ⟨⟨by decide +kernel, by decide +kernel, rfl⟩, ⟨by decide +kernel, by decide +kernel, rfl⟩⟩

/-- **LDH (n),A**: all states, every operand byte -/
theorem sim_e0 (b1 b2 : Nat) (hb1 : b1 < 256) : SimulatesMem 0xe0 b1 b2 := by
  obtain ⟨⟨hdec, hbytes, hop⟩, _⟩ := table_stabs b1 b2
  refine ⟨_, hdec, ?_⟩
  intro β B _ g fuel st st' hsim hpc hop1 hop2 hrun
  rw [hbytes] at hrun
  rw [hop]
  show ∃ g' m', runOp B (.LoadAToMemory (65280 + b1) false) g st.bus 2 = .ok (g', m', STATUS_NORMAL) ∧ Sim { g' with cycles := g'.cycles + 12 / 4 } st' ∧ _
  rw [show (12 : Nat) / 4 = 3 from rfl]
  have hex := run_execList B _ 42 rfl (straight_app (straight_stAbsBody _ _ (straight_one _ _ (fun _ _ e => Instr.noConfusion e) (fun _ e => Instr.noConfusion e))) (tail_straight 34 38 2 3))
    13 0 rfl fuel st st' (by rw [hpc]; rfl) hrun
  rw [List.drop_zero] at hex
  obtain ⟨s12, hb, ht⟩ := execList_append B 42 _ (stAbsBody [(3, Instr.movi16 6 [256, 255])] (fun k => [7, 17, 19, 29, 31, 32, 33].getD k 0)) st st' hex
  obtain ⟨hwr, hs12, hk12, h14⟩ := stabs_body B _ (65280 + b1) _ _ g st s12 hsim
    (addrPre_movi16 B st 3 256 255 _ (by show (st.op1 + 256 * (255 + 256 * 0)) % 65536 = _; rw [hop1]; omega)) hb
  obtain ⟨hs', hu'⟩ := sim_tail B hs12 34 38 42 2 3 (by decide) (by decide) ht
  refine ⟨advance g 2, s12.bus, ?_, ⟨hs'.af, hs'.hl, hs'.de, hs'.bc, hs'.sp, hs'.ip, hs'.cy, hs'.size⟩,
    hu'.bus, by rw [hu'.stack, hk12], by rw [hu'.r14, h14]⟩
  show (do let m ← B.write st.bus (65280 + b1) (getReg g .A); _) = _
  simp only [bind, Except.bind, hwr]

/-- **LD (nn),A**: all states, every operand -/
theorem sim_ea (b1 b2 : Nat) (hb1 : b1 < 256) (hb2 : b2 < 256) : SimulatesMem 0xea b1 b2 := by
  obtain ⟨_, ⟨hdec, hbytes, hop⟩⟩ := table_stabs b1 b2
  refine ⟨_, hdec, ?_⟩
  intro β B _ g fuel st st' hsim hpc hop1 hop2 hrun
  rw [hbytes] at hrun
  rw [hop]
  show ∃ g' m', runOp B (.LoadAToMemory (b1 + 256 * b2) true) g st.bus 3 = .ok (g', m', STATUS_NORMAL) ∧ Sim { g' with cycles := g'.cycles + 16 / 4 } st' ∧ _
  rw [show (16 : Nat) / 4 = 4 from rfl]
  have hex := run_execList B _ 42 rfl (straight_app (straight_stAbsBody _ _ (straight_one _ _ (fun _ _ e => Instr.noConfusion e) (fun _ e => Instr.noConfusion e))) (tail_straight 34 38 3 4))
    13 0 rfl fuel st st' (by rw [hpc]; rfl) hrun
  rw [List.drop_zero] at hex
  obtain ⟨s12, hb, ht⟩ := execList_append B 42 _ (stAbsBody [(3, Instr.movi16 6 [256, 257])] (fun k => [7, 17, 19, 29, 31, 32, 33].getD k 0)) st st' hex
  obtain ⟨hwr, hs12, hk12, h14⟩ := stabs_body B _ (b1 + 256 * b2) _ _ g st s12 hsim
    (addrPre_movi16 B st 3 256 257 _ (by show (st.op1 + 256 * (st.op2 + 256 * 0)) % 65536 = _; rw [hop1, hop2]; omega)) hb
  obtain ⟨hs', hu'⟩ := sim_tail B hs12 34 38 42 3 4 (by decide) (by decide) ht
  refine ⟨advance g 3, s12.bus, ?_, ⟨hs'.af, hs'.hl, hs'.de, hs'.bc, hs'.sp, hs'.ip, hs'.cy, hs'.size⟩,
    hu'.bus, by rw [hu'.stack, hk12], by rw [hu'.r14, h14]⟩
  show (do let m ← B.write st.bus (b1 + 256 * b2) (getReg g .A); _) = _
  simp only [bind, Except.bind, hwr]

theorem or_ff00_word (x : Nat) (hx : x < 65536) : x ||| 0xff00 = 0xff00 ||| (x % 256) := by
  have := Enum.forall_lt_of_allRange (fun x => (x ||| 0xff00) == (0xff00 ||| (x % 256))) 16 (by decide +kernel) x hx
  simpa using this

set_option maxRecDepth 4000 in
/-- low word written by a 16-bit `op r, imm16` (not `cmp`) -/
theorem step_aluI_w (B : BusOps β) (s s1 : St β) (op : AluOp) (d : Nat) (imm : List Nat) (len : Nat)
    (hop : (op == .cmp) = false) (hd : d < s.r.size) (h : step B s (.aluI op .w d imm false) len = .ok s1) :
    (get s1 d).toNat % 65536 = (aluOp op 16 ((get s d).toNat % 2 ^ 16) (immLE s imm % 2 ^ 16) s.fl).1 % 65536 := by
  simp only [step, hop, bitsOf, Bool.false_eq_true, if_false] at h
  injection h with h
  have hr := congrArg St.r h
  simp only [] at hr
  unfold get
  rw [← hr]
  show (get (setSz ({ s with pc := s.pc + len } : St β) .w d _) d).toNat % 65536 = _
  rw [toNat_setSz_w ({ s with pc := s.pc + len } : St β) _ _ hd]
  have e1 : getSz ({ s with pc := s.pc + len } : St β) .w d = (get s d).toNat % 2 ^ 16 := rfl
  have e2 : immLE ({ s with pc := s.pc + len } : St β) imm = immLE s imm := rfl
  have e3 : (Size.w == Size.q) = false := rfl
  simp only [e1, e2, e3, Bool.false_and, Bool.false_eq_true, if_false]
  have := (get s d).isLt
  show ((get s d).toNat - (get s d).toNat % 65536 + (aluOp op 16 ((get s d).toNat % 2 ^ 16) (immLE s imm % 2 ^ 16) s.fl).1 % 65536) % 2 ^ 64 % 65536 =
    (aluOp op 16 ((get s d).toNat % 2 ^ 16) (immLE s imm % 2 ^ 16) s.fl).1 % 65536
  omega

/-- `mov si, bx ; or si, 0xff00` as address instructions -/
theorem addrPre_highC (B : BusOps β) (g : Regs) (st : St β) (hs : Sim g st) (o1 o2 : Nat) :
    AddrPre B st [(o1, Instr.mov Size.w 6 3), (o2, Instr.aluI AluOp.or Size.w 6 [0, 255] false)] (0xff00 ||| getReg g .C) := by
  intro e s s2 hsz hr _ _ hex
  obtain ⟨s1, h1, hex⟩ := execList_cons B _ _ _ _ _ _ hex
  obtain ⟨s3, h2, hex⟩ := execList_cons B _ _ _ _ _ _ hex
  have := execList_nil B _ _ _ hex
  subst this
  have e1 : ∀ len, step B s (.mov .w 6 3) len = .ok (setSz ({ s with pc := s.pc + len } : St β) .w 6 ((get s 3).toNat % 2 ^ 16)) := fun _ => rfl
  have h1' := h1
  rw [e1] at h1; injection h1 with h1
  have z1 : s1.r.size = 16 := by rw [← h1, size_setSz]; exact hsz
  have v1 : (get s1 6).toNat % 65536 = (get s 3).toNat % 65536 := by
    rw [← h1, toNat_setSz_w _ _ _ (by show 6 < s.r.size; omega)]
    have := (get s 6).isLt
    show ((get s 6).toNat - (get s 6).toNat % 65536 + (get s 3).toNat % 2 ^ 16 % 65536) % 2 ^ 64 % 65536 = _
    omega
  have r1 : ∀ j, 6 ≠ j → get s1 j = get s j := by intro j hj; rw [← h1, get_setSz_ne _ _ _ _ _ hj]; rfl
  have k1 : s1.stack = s.stack := by rw [← h1, stack_setSz]
  have b1 : s1.bus = s.bus := by rw [← h1, bus_setSz]
  have v2 := step_aluI_w B s1 s2 .or 6 [0, 255] _ rfl (by omega) h2
  have r2 : ∀ j, 6 ≠ j → get s2 j = get s1 j := fun j hj =>
    step_frame B s1 s2 _ _ j h2 (by intro e; cases e) (by simp only [destReg]; intro e; injection e with e; exact hj e)
  have k2 : s2.stack = s1.stack := step_stack B s1 s2 _ _ h2 (fun _ e => by cases e) (fun _ e => by cases e) (fun e => by cases e) (fun e => by cases e)
    (fun _ _ _ _ e => by cases e) (fun _ _ _ e => by cases e)
  have b2 : s2.bus = s1.bus := step_bus B s1 s2 _ _ h2 (by intro e; cases e)
  have z2 := (step_size_pc B s1 s2 _ _ h2).1
  refine ⟨?_, fun j hj => (r2 j hj).trans (r1 j hj), k2.trans k1, b2.trans b1, z2.trans z1⟩
  rw [v2]
  have himm : immLE s1 [0, 255] % 2 ^ 16 = 0xff00 := by
    show (tokVal s1 0 + 256 * (tokVal s1 255 + 256 * 0)) % 2 ^ 16 = 0xff00
    rw [tokVal_lt _ 0 (by decide), tokVal_lt _ 255 (by decide)]
  rw [himm]
  show ((get s1 6).toNat % 2 ^ 16 ||| 0xff00) % 65536 = _
  have hx : (get s1 6).toNat % 2 ^ 16 < 65536 := Nat.mod_lt _ (by decide)
  rw [or_ff00_word _ hx]
  have hbc := hs.bc
  rw [hr 3] at v1
  have hC : getReg g .C = g.bc % 256 := rfl
  have hlow : (get s1 6).toNat % 2 ^ 16 % 256 = getReg g .C := by rw [hC]; omega
  rw [hlow]
  have hclt := getReg_lt g .C
  exact Nat.mod_eq_of_lt (Nat.or_lt_two_pow (n := 16) (by decide) (by omega))

theorem table_e2 (b1 b2 : Nat) :
    decodeCode (Gen.emitOp 0xe2) = some (stAbsBody [(3, Instr.mov Size.w 6 3), (6, Instr.aluI AluOp.or Size.w 6 [0, 255] false)]
      (fun k => [11, 21, 23, 33, 35, 36, 37].getD k 0) ++ [(38, addIp 1), (42, addCy 2)]) ∧
    bytesOf (Gen.emitOp 0xe2) = 46 ∧ Gen.decode 0xe2 b1 b2 = (.LoadToHighMem, 1, 8) :=
  ⟨by decide +kernel, by decide +kernel, rfl⟩

/-- **LD (C),A**: all states -/
theorem sim_e2 (b1 b2 : Nat) : SimulatesMem 0xe2 b1 b2 := by
  obtain ⟨hdec, hbytes, hop⟩ := table_e2 b1 b2
  refine ⟨_, hdec, ?_⟩
  intro β B _ g fuel st st' hsim hpc _ _ hrun
  rw [hbytes] at hrun
  rw [hop]
  show ∃ g' m', runOp B .LoadToHighMem g st.bus 1 = .ok (g', m', STATUS_NORMAL) ∧ Sim { g' with cycles := g'.cycles + 8 / 4 } st' ∧ _
  rw [show (8 : Nat) / 4 = 2 from rfl]
  have hex := run_execList B _ 46 rfl (straight_app (straight_stAbsBody _ _ (straight_two _ _ _ _
      ⟨fun _ _ e => Instr.noConfusion e, fun _ e => Instr.noConfusion e⟩ ⟨fun _ _ e => Instr.noConfusion e, fun _ e => Instr.noConfusion e⟩)) (tail_straight 38 42 1 2))
    14 0 rfl fuel st st' (by rw [hpc]; rfl) hrun
  rw [List.drop_zero] at hex
  obtain ⟨s12, hb, ht⟩ := execList_append B 46 _ (stAbsBody [(3, Instr.mov Size.w 6 3), (6, Instr.aluI AluOp.or Size.w 6 [0, 255] false)]
      (fun k => [11, 21, 23, 33, 35, 36, 37].getD k 0)) st st' hex
  obtain ⟨hwr, hs12, hk12, h14⟩ := stabs_body B _ (0xff00 ||| getReg g .C) _ _ g st s12 hsim (addrPre_highC B g st hsim 3 6) hb
  obtain ⟨hs', hu'⟩ := sim_tail B hs12 38 42 46 1 2 (by decide) (by decide) ht
  refine ⟨advance g 1, s12.bus, ?_, ⟨hs'.af, hs'.hl, hs'.de, hs'.bc, hs'.sp, hs'.ip, hs'.cy, hs'.size⟩,
    hu'.bus, by rw [hu'.stack, hk12], by rw [hu'.r14, h14]⟩
  show (do let m ← B.write st.bus (0xff00 ||| getReg g .C) (getReg g .A); _) = _
  simp only [bind, Except.bind, hwr]

/-! ### the loads of A from an address that is not a register pair: LDH A,(n), LD A,(nn), LD A,(C) -/

def ldAbsTail (o : Nat → Nat) : List (Nat × Instr) :=
  [(o 0, Instr.movabs 7 512), (o 1, Instr.movabs 0 513), (o 2, Instr.callRax), (o 3, Instr.store8 4 17 (R8.lo 0)),
   (o 4, Instr.pop 2), (o 5, Instr.pop 1), (o 6, Instr.pop 0)]

def ldAbsBody (apre : List (Nat × Instr)) (o : Nat → Nat) : List (Nat × Instr) :=
  ([(0, Instr.push 0), (1, Instr.push 1), (2, Instr.push 2)] ++ apre) ++ ldAbsTail o

theorem straight_ldAbsBody (apre : List (Nat × Instr)) (o : Nat → Nat) (h : straight apre) : straight (ldAbsBody apre o) := by
  refine straight_app (straight_app ?_ h) ?_
  · intro p hp
    simp only [List.mem_cons, List.not_mem_nil, or_false] at hp
    rcases hp with e | e | e <;> subst e <;> exact ⟨fun _ _ e => Instr.noConfusion e, fun _ e => Instr.noConfusion e⟩
  · intro p hp
    simp only [ldAbsTail, List.mem_cons, List.not_mem_nil, or_false] at hp
    rcases hp with e | e | e | e | e | e | e <;> subst e <;> exact ⟨fun _ _ e => Instr.noConfusion e, fun _ e => Instr.noConfusion e⟩

set_option maxHeartbeats 1000000 in
theorem ldabs_body (B : BusOps β) (hB : ByteReads B) (apre : List (Nat × Instr)) (A : Nat) (o : Nat → Nat) (e : Nat) (g : Regs) (st s' : St β)
    (hs : Sim g st) (hpre : AddrPre B st apre A) (hex : execList B e (ldAbsBody apre o) st = .ok s') :
    ∃ v, B.read st.bus A = .ok v ∧ Sim (setReg g .A v) s' ∧ Untouched st s' := by
  unfold ldAbsBody at hex
  obtain ⟨sp, hex1, hext⟩ := execList_append B e _ _ st s' hex
  obtain ⟨s3, hpush, hap⟩ := execList_append B _ _ [(0, Instr.push 0), (1, Instr.push 1), (2, Instr.push 2)] st sp hex1
  obtain ⟨s1, h1, hpush⟩ := execList_cons B _ _ _ _ _ _ hpush
  obtain ⟨s2, h2, hpush⟩ := execList_cons B _ _ _ _ _ _ hpush
  obtain ⟨s3', h3, hpush⟩ := execList_cons B _ _ _ _ _ _ hpush
  have := execList_nil B _ _ _ hpush
  subst this
  have hsz := hs.size
  obtain ⟨r1, k1, b1, z1⟩ := step_push B st s1 0 _ h1
  obtain ⟨r2, k2, b2, z2⟩ := step_push B s1 s2 1 _ h2
  obtain ⟨r3, k3, b3, z3⟩ := step_push B s2 s3 2 _ h3
  obtain ⟨p1, q1⟩ := step_push_ops B st s1 0 _ h1
  obtain ⟨p2, q2⟩ := step_push_ops B s1 s2 1 _ h2
  obtain ⟨p3, q3⟩ := step_push_ops B s2 s3 2 _ h3
  have R3 : ∀ j, get s3 j = get st j := fun j => by rw [r3, r2, r1]
  have K3 : s3.stack = get st 2 :: get st 1 :: get st 0 :: st.stack := by rw [k3, k2, k1, r2 2, r1 2, r1 1]
  have Z3 : s3.r.size = 16 := by rw [z3, z2, z1]; exact hsz
  obtain ⟨a4, r4, k4, b4, z4⟩ := hpre _ s3 sp Z3 R3 (by rw [p3, p2, p1]) (by rw [q3, q2, q1]) hap
  unfold ldAbsTail at hext
  obtain ⟨s6, h6, hext⟩ := execList_cons B _ _ _ _ _ _ hext
  obtain ⟨s7, h7, hext⟩ := execList_cons B _ _ _ _ _ _ hext
  obtain ⟨s8, h8, hext⟩ := execList_cons B _ _ _ _ _ _ hext
  obtain ⟨s9, h9, hext⟩ := execList_cons B _ _ _ _ _ _ hext
  obtain ⟨s10, h10, hext⟩ := execList_cons B _ _ _ _ _ _ hext
  obtain ⟨s11, h11, hext⟩ := execList_cons B _ _ _ _ _ _ hext
  obtain ⟨s12, h12, hext⟩ := execList_cons B _ _ _ _ _ _ hext
  have := execList_nil B _ _ _ hext
  subst this
  obtain ⟨v6, r6, k6, b6, z6⟩ := step_movabs B sp s6 7 512 _ (by omega) h6
  obtain ⟨v7, r7, k7, b7, z7⟩ := step_movabs B s6 s7 0 513 _ (by omega) h7
  have Z7 : s7.r.size = 16 := by rw [z7, z6]; exact z4
  have a7 : get s7 7 = ptrVal 512 := by rw [r7 7 (by decide)]; exact v6
  have a6 : (get s7 6).toNat % 65536 = A := by rw [r7 6 (by decide), r6 6 (by decide)]; exact a4
  obtain ⟨v, hrd, hv8, b8, k8, Z8, r8⟩ := step_call_read B s7 s8 _ Z7 v7 a7 h8
  have hvlt : v < 256 := hB _ _ _ hrd
  have K8 : s8.stack = get st 2 :: get st 1 :: get st 0 :: st.stack := by rw [k8, k7, k6, k4]; exact K3
  have B7 : s7.bus = st.bus := by rw [b7, b6, b4, b3, b2, b1]
  have B8 : s8.bus = st.bus := by rw [b8]; exact B7
  have hal : get8 s8 (.lo 0) = v := by
    show (get s8 0).toNat % 256 = v
    have : (get s8 0).toNat % 256 = (get s8 0).toNat % 65536 % 256 := by omega
    rw [this, hv8]; omega
  have R8' : ∀ j, j ∉ [0, 1, 2, 6, 7, 8, 9, 10, 11] → get s8 j = get st j := by
    intro j hj
    rw [r8 j hj, r7 j (fun e => hj (by rw [← e]; simp)), r6 j (fun e => hj (by rw [← e]; simp)), r4 j (fun e => hj (by rw [← e]; simp)), R3]
  rw [a6, B7] at hrd
  refine ⟨v, hrd, ?_⟩
  have hw : s8.stack[17 / 8]? = some (get st 0) := by rw [K8]; rfl
  obtain ⟨r9, b9, z9, k9⟩ := step_store8_stack B s8 s9 17 _ (.lo 0) (get st 0) (by decide) hw h9
  rw [hal, K8] at k9
  obtain ⟨w10, t10, e10, k10, g10, q10, b10, z10⟩ := step_pop B s9 s10 2 _ (by rw [z9, Z8]; decide) h10
  obtain ⟨w11, t11, e11, k11, g11, q11, b11, z11⟩ := step_pop B s10 s11 1 _ (by rw [z10, z9, Z8]; decide) h11
  obtain ⟨w12, t12, e12, k12, g12, q12, b12, z12⟩ := step_pop B s11 s' 0 _ (by rw [z11, z10, z9, Z8]; decide) h12
  have Z12 : s'.r.size = 16 := by rw [z12, z11, z10, z9]; exact Z8
  have B12 : s'.bus = st.bus := by rw [b12, b11, b10, b9]; exact B8
  have Rrest : ∀ j, j ∉ [0, 1, 2, 6, 7, 8, 9, 10, 11] → get s' j = get st j := by
    intro j hj
    rw [q12 j (fun e => hj (by rw [← e]; simp)), q11 j (fun e => hj (by rw [← e]; simp)), q10 j (fun e => hj (by rw [← e]; simp)),
      r9 j, R8' j hj]
  have G2 : get s' 2 = w10 := by rw [q12 2 (by decide), q11 2 (by decide)]; exact g10
  have G1 : get s' 1 = w11 := by rw [q12 1 (by decide)]; exact g11
  have G0 : get s' 0 = w12 := g12
  have x0 := (get st 0).isLt
  have haf := hs.af
  simp only [Nat.reduceDiv, Nat.reduceMod, List.set_cons_zero, List.set_cons_succ] at k9
  rw [k9] at e10
  obtain ⟨a10, e10⟩ := List.cons.inj e10
  rw [k10, ← e10] at e11
  obtain ⟨a11, e11⟩ := List.cons.inj e11
  rw [k11, ← e11] at e12
  obtain ⟨a12, e12⟩ := List.cons.inj e12
  rw [← a10] at G2; rw [← a11] at G1; rw [← a12] at G0
  refine ⟨⟨?_, ?_, ?_, ?_, ?_, ?_, ?_, Z12⟩, ⟨B12, by rw [k12]; exact e12.symm, Rrest 14 (by decide)⟩⟩
  · rw [G0, BitVec.toNat_ofNat, poke_low16 _ _ _ x0 (by decide)]
    simp only [setReg, setHi_eq, if_true]
    omega
  · rw [G1]; exact hs.hl
  · rw [G2]; exact hs.de
  · rw [Rrest 3 (by decide)]; exact hs.bc
  · rw [Rrest 12 (by decide)]; exact hs.sp
  · rw [Rrest 13 (by decide)]; exact hs.ip
  · rw [Rrest 15 (by decide)]; exact hs.cy

theorem table_ldabs (b1 b2 : Nat) :
    (decodeCode (Gen.emitOp 0xf0) = some (ldAbsBody [(3, Instr.movi16 6 [256, 255])] (fun k => [7, 17, 27, 29, 33, 34, 35].getD k 0) ++ [(36, addIp 2), (40, addCy 3)]) ∧
      bytesOf (Gen.emitOp 0xf0) = 44 ∧ Gen.decode 0xf0 b1 b2 = (.LoadAFromMemory (65280 + b1) false, 2, 12)) ∧
    (decodeCode (Gen.emitOp 0xfa) = some (ldAbsBody [(3, Instr.movi16 6 [256, 257])] (fun k => [7, 17, 27, 29, 33, 34, 35].getD k 0) ++ [(36, addIp 3), (40, addCy 4)]) ∧
      bytesOf (Gen.emitOp 0xfa) = 44 ∧ Gen.decode 0xfa b1 b2 = (.LoadAFromMemory (b1 + 256 * b2) true, 3, 16)) ∧
    (decodeCode (Gen.emitOp 0xf2) = some (ldAbsBody [(3, Instr.mov Size.w 6 3), (6, Instr.aluI AluOp.or Size.w 6 [0, 255] false)]
        (fun k => [11, 21, 31, 33, 37, 38, 39].getD k 0) ++ [(40, addIp 1), (44, addCy 2)]) ∧
      bytesOf (Gen.emitOp 0xf2) = 48 ∧ Gen.decode 0xf2 b1 b2 = (.LoadFromHighMem, 1, 8)) :=
  ⟨⟨by decide +kernel, by decide +kernel, rfl⟩, ⟨by decide +kernel, by decide +kernel, rfl⟩, ⟨by decide +kernel, by decide +kernel, rfl⟩⟩

/-- **LDH A,(n)**: all states, every operand byte -/
theorem sim_f0 (b1 b2 : Nat) (hb1 : b1 < 256) : SimulatesMem 0xf0 b1 b2 := by
  obtain ⟨⟨hdec, hbytes, hop⟩, _⟩ := table_ldabs b1 b2
  refine ⟨_, hdec, ?_⟩
  intro β B hB g fuel st st' hsim hpc hop1 hop2 hrun
  rw [hbytes] at hrun
  rw [hop]
  show ∃ g' m', runOp B (.LoadAFromMemory (65280 + b1) false) g st.bus 2 = .ok (g', m', STATUS_NORMAL) ∧ Sim { g' with cycles := g'.cycles + 12 / 4 } st' ∧ _
  rw [show (12 : Nat) / 4 = 3 from rfl]
  have hex := run_execList B _ 44 rfl (straight_app (straight_ldAbsBody _ _ (straight_one _ _ (fun _ _ e => Instr.noConfusion e) (fun _ e => Instr.noConfusion e))) (tail_straight 36 40 2 3))
    13 0 rfl fuel st st' (by rw [hpc]; rfl) hrun
  rw [List.drop_zero] at hex
  obtain ⟨s12, hb, ht⟩ := execList_append B 44 _ (ldAbsBody [(3, Instr.movi16 6 [256, 255])] (fun k => [7, 17, 27, 29, 33, 34, 35].getD k 0)) st st' hex
  obtain ⟨v, hrd, hs12, hu12⟩ := ldabs_body B hB _ (65280 + b1) _ _ g st s12 hsim
    (addrPre_movi16 B st 3 256 255 _ (by show (st.op1 + 256 * (255 + 256 * 0)) % 65536 = _; rw [hop1]; omega)) hb
  obtain ⟨hs', hu'⟩ := sim_tail B hs12 36 40 44 2 3 (by decide) (by decide) ht
  refine ⟨advance (setReg g .A v) 2, st.bus, ?_, ⟨hs'.af, hs'.hl, hs'.de, hs'.bc, hs'.sp, hs'.ip, hs'.cy, hs'.size⟩,
    by rw [hu'.bus, hu12.bus], by rw [hu'.stack, hu12.stack], by rw [hu'.r14, hu12.r14]⟩
  show (do let v ← B.read st.bus (65280 + b1); _) = _
  simp only [bind, Except.bind, hrd]

/-- **LD A,(nn)**: all states, every operand -/
theorem sim_fa (b1 b2 : Nat) (hb1 : b1 < 256) (hb2 : b2 < 256) : SimulatesMem 0xfa b1 b2 := by
  obtain ⟨_, ⟨hdec, hbytes, hop⟩, _⟩ := table_ldabs b1 b2
  refine ⟨_, hdec, ?_⟩
  intro β B hB g fuel st st' hsim hpc hop1 hop2 hrun
  rw [hbytes] at hrun
  rw [hop]
  show ∃ g' m', runOp B (.LoadAFromMemory (b1 + 256 * b2) true) g st.bus 3 = .ok (g', m', STATUS_NORMAL) ∧ Sim { g' with cycles := g'.cycles + 16 / 4 } st' ∧ _
  rw [show (16 : Nat) / 4 = 4 from rfl]
  have hex := run_execList B _ 44 rfl (straight_app (straight_ldAbsBody _ _ (straight_one _ _ (fun _ _ e => Instr.noConfusion e) (fun _ e => Instr.noConfusion e))) (tail_straight 36 40 3 4))
    13 0 rfl fuel st st' (by rw [hpc]; rfl) hrun
  rw [List.drop_zero] at hex
  obtain ⟨s12, hb, ht⟩ := execList_append B 44 _ (ldAbsBody [(3, Instr.movi16 6 [256, 257])] (fun k => [7, 17, 27, 29, 33, 34, 35].getD k 0)) st st' hex
  obtain ⟨v, hrd, hs12, hu12⟩ := ldabs_body B hB _ (b1 + 256 * b2) _ _ g st s12 hsim
    (addrPre_movi16 B st 3 256 257 _ (by show (st.op1 + 256 * (st.op2 + 256 * 0)) % 65536 = _; rw [hop1, hop2]; omega)) hb
  obtain ⟨hs', hu'⟩ := sim_tail B hs12 36 40 44 3 4 (by decide) (by decide) ht
  refine ⟨advance (setReg g .A v) 3, st.bus, ?_, ⟨hs'.af, hs'.hl, hs'.de, hs'.bc, hs'.sp, hs'.ip, hs'.cy, hs'.size⟩,
    by rw [hu'.bus, hu12.bus], by rw [hu'.stack, hu12.stack], by rw [hu'.r14, hu12.r14]⟩
  show (do let v ← B.read st.bus (b1 + 256 * b2); _) = _
  simp only [bind, Except.bind, hrd]

/-- **LD A,(C)**: all states -/
theorem sim_f2 (b1 b2 : Nat) : SimulatesMem 0xf2 b1 b2 := by
  obtain ⟨_, _, ⟨hdec, hbytes, hop⟩⟩ := table_ldabs b1 b2
  refine ⟨_, hdec, ?_⟩
  intro β B hB g fuel st st' hsim hpc _ _ hrun
  rw [hbytes] at hrun
  rw [hop]
  show ∃ g' m', runOp B .LoadFromHighMem g st.bus 1 = .ok (g', m', STATUS_NORMAL) ∧ Sim { g' with cycles := g'.cycles + 8 / 4 } st' ∧ _
  rw [show (8 : Nat) / 4 = 2 from rfl]
  have hex := run_execList B _ 48 rfl (straight_app (straight_ldAbsBody _ _ (straight_two _ _ _ _
      ⟨fun _ _ e => Instr.noConfusion e, fun _ e => Instr.noConfusion e⟩ ⟨fun _ _ e => Instr.noConfusion e, fun _ e => Instr.noConfusion e⟩)) (tail_straight 40 44 1 2))
    14 0 rfl fuel st st' (by rw [hpc]; rfl) hrun
  rw [List.drop_zero] at hex
  obtain ⟨s12, hb, ht⟩ := execList_append B 48 _ (ldAbsBody [(3, Instr.mov Size.w 6 3), (6, Instr.aluI AluOp.or Size.w 6 [0, 255] false)]
      (fun k => [11, 21, 31, 33, 37, 38, 39].getD k 0)) st st' hex
  obtain ⟨v, hrd, hs12, hu12⟩ := ldabs_body B hB _ (0xff00 ||| getReg g .C) _ _ g st s12 hsim (addrPre_highC B g st hsim 3 6) hb
  obtain ⟨hs', hu'⟩ := sim_tail B hs12 40 44 48 1 2 (by decide) (by decide) ht
  refine ⟨advance (setReg g .A v) 1, st.bus, ?_, ⟨hs'.af, hs'.hl, hs'.de, hs'.bc, hs'.sp, hs'.ip, hs'.cy, hs'.size⟩,
    by rw [hu'.bus, hu12.bus], by rw [hu'.stack, hu12.stack], by rw [hu'.r14, hu12.r14]⟩
  show (do let v ← B.read st.bus (0xff00 ||| getReg g .C); _) = _
  simp only [bind, Except.bind, hrd]

end GbVerif.X86
