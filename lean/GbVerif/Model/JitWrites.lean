import GbVerif.Model.JitStatus
/-
C01 (bus writes of translated code, their number): translated code reaches the bus only through `call rax` with one of
the five helper pointers in rax (X86Wf).  `memory_write_byte` performs one byte write, `memory_write_word` and
`memory_push_word` two.  Over every path through the code of an instruction the number of byte writes must be the
number the interpreter model performs for that instruction (both branch outcomes) — which bytes and where is data.
-/
namespace GbVerif.JitWrites
open GbVerif.X86 GbVerif.JitCycles

/-- byte writes a helper performs (pointer tokens: 513 RD8, 514 WR8, 515 RD16, 516 WR16, 517 PUSH16) -/
def helperWrites (p : Nat) : Option Nat :=
  if p == 513 || p == 515 then some 0 else if p == 514 then some 1 else if p == 516 || p == 517 then some 2 else none

/-- byte-write counts over the paths from instruction `i` to the end of the code; `rax` = the helper pointer the last
`movabs rax, p` put there (a call with anything else in rax is refused) -/
def pathWrites (code : List (Nat × Instr)) (endOff : Nat) : Nat → Nat → Nat → Option Nat → Option (List Nat)
  | _, 0, _, _ => none
  | i, fuel+1, acc, rax =>
    match code[i]? with
    | none => if i == code.length then some [acc] else none
    | some (_, ins) =>
      let nextOff := match code[i+1]? with | some (o, _) => o | none => endOff
      match ins with
      | .jcc _ rel =>
        if rel ≥ 128 then none else
        match indexOf code endOff (nextOff + rel) with
        | some j => if j ≤ i then none else
          match pathWrites code endOff (i+1) fuel acc rax, pathWrites code endOff j fuel acc rax with
          | some a, some b => some (a ++ b)
          | _, _ => none
        | none => none
      | .jmp rel =>
        if rel ≥ 128 then none else
        match indexOf code endOff (nextOff + rel) with
        | some j => if j ≤ i then none else pathWrites code endOff j fuel acc rax
        | none => none
      | .movabs 0 p => pathWrites code endOff (i+1) fuel acc (some p)
      | .callRax =>
        match rax with
        | some p => match helperWrites p with
          | some n => pathWrites code endOff (i+1) fuel (acc + n) none
          | none => none
        | none => none
      | .pop 0 | .mov _ 0 _ | .load _ 0 _ _ | .movi16 0 _ => pathWrites code endOff (i+1) fuel acc none
      | _ => pathWrites code endOff (i+1) fuel acc rax

def jitWrites (tokens : List Nat) : Option (List Nat) :=
  match decodeCode tokens with
  | none => none
  | some code => (pathWrites code (bytesOf tokens) 0 (code.length + 2) 0 none).map norm

/-- a bus that counts its byte writes -/
def countBus : Interp.BusOps Nat := ⟨fun _ _ => .ok 0, fun m _ _ => .ok (m + 1)⟩

def interpWritesWith (op : Op) (len f : Nat) : Option Nat :=
  match Interp.runOp countBus op { af := f, sp := 0x8000 } 0 len with
  | .ok (_, m, _) => some m
  | .error _ => none

def interpWrites (op : Op) (len : Nat) : Option (List Nat) :=
  match interpWritesWith op len 0x00, interpWritesWith op len 0xf0 with
  | some a, some b => some (norm [a, b])
  | _, _ => none

end GbVerif.JitWrites
