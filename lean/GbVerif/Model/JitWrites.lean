import GbVerif.Model.JitStatus
import GbVerif.Model.JitPaths
/-
C01 (bus writes of translated code, their number): translated code reaches the bus only through `call rax` with one of
the five helper pointers in rax (X86Wf).  `memory_write_byte` performs one byte write, `memory_write_word` and
`memory_push_word` two.  Over every path through the code of an instruction the number of byte writes must be the
number the interpreter model performs for that instruction (both branch outcomes) — which bytes and where is data.
Walked by `JitPaths.paths`; soundness for executions of the x86 model: `Proofs/X86Writes.lean`.
-/
namespace GbVerif.JitWrites
open GbVerif.X86 GbVerif.JitCycles

/-- byte writes a helper performs (pointer tokens: 513 RD8, 514 WR8, 515 RD16, 516 WR16, 517 PUSH16) -/
def helperWrites (p : Nat) : Option Nat :=
  if p == 513 || p == 515 then some 0 else if p == 514 then some 1 else if p == 516 || p == 517 then some 2 else none

/-- abstract state: byte writes so far and the helper pointer the last `movabs rax, p` put into rax (`none` once
anything else wrote rax) -/
abbrev WrSt := Nat × Option Nat

/-- transfer function; a call with anything but a known helper pointer in rax is refused -/
def trWr (ins : Instr) (a : WrSt) : Option WrSt :=
  match ins with
  | .movabs 0 p => some (a.1, some p)
  | .callRax =>
    match a.2 with
    | some p => match helperWrites p with
      | some n => some (a.1 + n, none)
      | none => none
    | none => none
  | ins => if destReg ins == some 0 then some (a.1, none) else some a

def jitWrites (tokens : List Nat) : Option (List Nat) := JitPaths.analyse trWr (0, none) (fun a => some a.1) tokens

/-- a bus that counts its byte writes -/
def countBus : Interp.BusOps Nat := ⟨fun _ _ => .ok 0, fun m _ _ => .ok (m + 1)⟩

def interpWritesWith (op : Op) (len f : Nat) : Option Nat :=
  match Interp.runOp countBus op { af := f, sp := 0x8000 } 0 len with
  | .ok (_, m, _) => some m
  | .error _ => none

def interpWrites (op : Op) (len : Nat) : Option (List Nat) :=
  match interpWritesWith op len 0x00, interpWritesWith op len 0xf0 with
  | some a, some b => some (norm [a, b])
  | _, _ => none

end GbVerif.JitWrites
