import GbVerif.Model.Cpu
/-
Model of the translation cache (`src/cache/mod.rs`, `src/cache/blocks.rs`) as far as transparency is concerned:
which guest bytes a cached block was translated from, under which key it is stored, and which block a lookup returns.
The machine code itself is abstracted to the guest byte string it was translated from (ROM is immutable, so a
translation is a function of that string — the content of C01).
-/
namespace GbVerif.Cache

/-- a cached translation: the guest bytes it covers (`bytes_translated` of them, starting at its key address) -/
structure Block where
  src : List Nat
deriving DecidableEq, Repr

structure State where
  low : List (Nat × Block) := []      -- `rom_low`: key = (0 <<< 16) ||| addr
  high : List (Nat × Block) := []     -- `rom_high`: key = (current_bank <<< 16) ||| addr
  highBank : Nat := 1                 -- `rom_high.current_bank`

def key (bank addr : Nat) : Nat := bank * 65536 + addr

/-- `CodeCache::get_address_for_ip` for a ROM address -/
def lookup (c : State) (ip : Nat) : Option Block :=
  if ip < 0x4000 then c.low.lookup (key 0 ip) else c.high.lookup (key c.highBank ip)

/-- `insert_code_block` -/
def insert (c : State) (ip : Nat) (b : Block) : State :=
  if ip < 0x4000 then { c with low := (key 0 ip, b) :: c.low } else { c with high := (key c.highBank ip, b) :: c.high }

/-- byte of ROM visible at bus address `a < 0x8000` when `bank` is mapped at 0x4000–0x7FFF -/
def romAt (rom : Nat → Nat) (bank a : Nat) : Nat := if a < 0x4000 then rom a else rom (bank * 0x4000 + (a - 0x4000))

/-- the guest bytes `translate_code_block` consumes starting at `ip`: instructions until a block terminator, or until
the next instruction would start in the last two bytes of the ROM region or in the other region (`rom_block_must_end`) -/
def sourceBytes (rom : Nat → Nat) (bank : Nat) (ip : Nat) : Nat → Nat → List Nat
  | _, 0 => []
  | index, fuel+1 =>
    if Cpu.romBlockMustEnd ip index then []
    else
      let b0 := romAt rom bank index; let b1 := romAt rom bank (index + 1); let b2 := romAt rom bank (index + 2)
      let (op, len, _) := Gen.decode b0 b1 b2
      let bytes := (List.range len).map fun k => romAt rom bank (index + k)
      if Gen.isBlockEnd op then bytes else bytes ++ sourceBytes rom bank ip (index + len) fuel

def translate (rom : Nat → Nat) (bank ip : Nat) : Block := ⟨sourceBytes rom bank ip ip 0x4000⟩

/-- the jit arm of `Core::run_code_block` up to the call: select the bank, look up, translate on a miss.
Returns the new cache, the block that will run, and whether it was a hit. -/
def fetchBlock (rom : Nat → Nat) (c : State) (bank ip : Nat) : State × Block × Bool :=
  let c := { c with highBank := bank }
  match lookup c ip with
  | some b => (c, b, true)
  | none => let b := translate rom bank ip; (insert c ip b, b, false)

end GbVerif.Cache
