import GbVerif.Model.X86
import GbVerif.Model.Interp
/-
Semantics of the x86-64 subset of `Model/X86.lean`, as far as the emitted code depends on it:
sixteen 64-bit registers, CF PF AF ZF SF OF, the host stack as 64-bit slots addressed rsp-relative, and the
bus helpers behind `call rax` (System V: arguments rdi rsi rdx, result rax; rax rcx rdx rsi rdi r8–r11 and the
flags are clobbered with values the caller cannot rely on — they come from an explicit `junk` source).
Validated against the real CPU by the `c01.x86` correspondence (every emitted template executed natively and here).
-/
namespace GbVerif.X86

abbrev W := BitVec 64

structure Flags where
  cf : Bool := false
  pf : Bool := false
  af : Bool := false
  zf : Bool := false
  sf : Bool := false
  of : Bool := false
deriving DecidableEq, Repr, Inhabited

structure St (β : Type) where
  r : Array W                 -- 16 registers
  fl : Flags := {}
  stack : List W := []        -- host stack, top first (slot 0 = [rsp])
  bus : β
  pc : Nat := 0               -- byte offset inside the code being run
  op1 : Nat := 0              -- operand bytes of the guest instruction (immediate tokens 256 / 257)
  op2 : Nat := 0
  junk : Nat := 0xdead0000    -- source of "clobbered" values

inductive Fault where
  | bus (p : Bus.Panic)
  | stack (what : String)
  | bad (what : String)
deriving Repr

def tokVal {β} (s : St β) (t : Nat) : Nat := if t == 256 then s.op1 else if t == 257 then s.op2 else t % 256
def immLE {β} (s : St β) (ts : List Nat) : Nat := ts.foldr (fun t acc => tokVal s t + 256 * acc) 0

def get {β} (s : St β) (i : Nat) : W := s.r.getD i 0
def set {β} (s : St β) (i : Nat) (v : W) : St β := { s with r := s.r.setIfInBounds i v }

def get8 {β} (s : St β) : R8 → Nat
  | .lo r => (get s r).toNat % 256
  | .hi r => (get s r).toNat / 256 % 256
def set8 {β} (s : St β) (r : R8) (v : Nat) : St β :=
  match r with
  | .lo r => let x := (get s r).toNat; set s r (BitVec.ofNat 64 (x - x % 256 + v % 256))
  | .hi r => let x := (get s r).toNat; set s r (BitVec.ofNat 64 (x - (x / 256 % 256) * 256 + (v % 256) * 256))

def bitsOf : Size → Nat | .w => 16 | .d => 32 | .q => 64
def getSz {β} (s : St β) (sz : Size) (r : Nat) : Nat := (get s r).toNat % 2 ^ bitsOf sz
/-- writes of 32-bit operands zero the upper half; 16-bit writes keep it -/
def setSz {β} (s : St β) (sz : Size) (r : Nat) (v : Nat) : St β :=
  match sz with
  | .q => set s r (BitVec.ofNat 64 v)
  | .d => set s r (BitVec.ofNat 64 (v % 2 ^ 32))
  | .w => let x := (get s r).toNat; set s r (BitVec.ofNat 64 (x - x % 65536 + v % 65536))

def parity (v : Nat) : Bool :=
  let b := v % 256
  (b % 2 + b / 2 % 2 + b / 4 % 2 + b / 8 % 2 + b / 16 % 2 + b / 32 % 2 + b / 64 % 2 + b / 128 % 2) % 2 == 0

def signBit (n v : Nat) : Bool := v / 2 ^ (n - 1) % 2 == 1

/-- result and flags of a group-1 ALU operation on `n`-bit operands -/
def aluOp (op : AluOp) (n a b : Nat) (fl : Flags) : Nat × Flags :=
  let m := 2 ^ n
  let cin := if fl.cf then 1 else 0
  let logic (r : Nat) : Nat × Flags := (r, { cf := false, of := false, af := false, zf := r == 0, sf := signBit n r, pf := parity r })
  let addF (c : Nat) : Nat × Flags :=
    let full := a + b + c; let r := full % m
    (r, { cf := full ≥ m, af := a % 16 + b % 16 + c ≥ 16, zf := r == 0, sf := signBit n r, pf := parity r,
          of := signBit n a == signBit n b && signBit n r != signBit n a })
  let subF (c : Nat) : Nat × Flags :=
    let r := (a + m + m - b - c) % m
    (r, { cf := a < b + c, af := a % 16 < b % 16 + c, zf := r == 0, sf := signBit n r, pf := parity r,
          of := signBit n a != signBit n b && signBit n r != signBit n a })
  match op with
  | .add => addF 0 | .adc => addF cin | .sub => subF 0 | .sbb => subF cin | .cmp => subF 0
  | .and => logic (a &&& b) | .or => logic (a ||| b) | .xor => logic (a ^^^ b)

/-- shift / rotate of an `n`-bit value by `count` (only the counts the emitter uses: 1, 4 and 8) -/
def shOp (op : ShOp) (n v count : Nat) (fl : Flags) : Nat × Flags :=
  let m := 2 ^ n
  let c := count % 32
  if c == 0 then (v, fl) else
  let cin := if fl.cf then 1 else 0
  match op with
  | .rol =>
    let k := c % n; let r := (v * 2 ^ k % m) ||| (v / 2 ^ (n - k))
    (r, { fl with cf := r % 2 == 1, of := if c == 1 then signBit n r != (r % 2 == 1) else fl.of })
  | .ror =>
    let k := c % n; let r := (v / 2 ^ k) ||| (v * 2 ^ (n - k) % m)
    (r, { fl with cf := signBit n r, of := if c == 1 then signBit n r != signBit (n - 1) r else fl.of })
  | .rcl =>   -- count 1 only
    let r := (v * 2 % m) + cin
    (r, { fl with cf := signBit n v, of := signBit n r != signBit n v })
  | .rcr =>   -- count 1 only
    let r := v / 2 + cin * 2 ^ (n - 1)
    (r, { fl with cf := v % 2 == 1, of := signBit n r != signBit (n - 1) r })
  | .shl | .sal =>
    let r := v * 2 ^ c % m
    (r, { cf := v / 2 ^ (n - c) % 2 == 1, zf := r == 0, sf := signBit n r, pf := parity r, af := fl.af,
          of := if c == 1 then signBit n r != (v / 2 ^ (n - 1) % 2 == 1) else fl.of })
  | .shr =>
    let r := v / 2 ^ c
    (r, { cf := v / 2 ^ (c - 1) % 2 == 1, zf := r == 0, sf := signBit n r, pf := parity r, af := fl.af,
          of := if c == 1 then signBit n v else fl.of })
  | .sar =>
    let sign := if signBit n v then m - 2 ^ (n - c) else 0
    let r := v / 2 ^ c + sign
    (r, { cf := v / 2 ^ (c - 1) % 2 == 1, zf := r == 0, sf := signBit n r, pf := parity r, af := fl.af, of := if c == 1 then false else fl.of })

/-- RFLAGS image pushed by `pushfq` (bit 1 always set; IF set as in user mode) -/
def flagsWord (fl : Flags) : Nat :=
  (if fl.cf then 1 else 0) + 2 + (if fl.pf then 4 else 0) + (if fl.af then 16 else 0) + (if fl.zf then 64 else 0) +
  (if fl.sf then 128 else 0) + 0x200 + (if fl.of then 0x800 else 0)
def flagsOfWord (v : Nat) : Flags :=
  { cf := v % 2 == 1, pf := v / 4 % 2 == 1, af := v / 16 % 2 == 1, zf := v / 64 % 2 == 1, sf := v / 128 % 2 == 1, of := v / 0x800 % 2 == 1 }

def condHolds (fl : Flags) : Cc → Bool
  | .b => fl.cf | .e => fl.zf | .ne => !fl.zf
  | .le => fl.zf || fl.sf != fl.of | .g => !fl.zf && fl.sf == fl.of

/-- byte-granular access to the stack slots -/
def stackRead {β} (s : St β) (off nbytes : Nat) : Except Fault Nat :=
  let k := off / 8; let j := off % 8
  if j + nbytes > 8 then .error (.stack "access straddles two slots")
  else match s.stack[k]? with
    | some w => .ok (w.toNat / 2 ^ (8 * j) % 2 ^ (8 * nbytes))
    | none => .error (.stack s!"read below the frame: [rsp+{off}]")
def stackWrite {β} (s : St β) (off nbytes v : Nat) : Except Fault (St β) :=
  let k := off / 8; let j := off % 8
  if j + nbytes > 8 then .error (.stack "access straddles two slots")
  else match s.stack[k]? with
    | some w =>
      let x := w.toNat
      let old := x / 2 ^ (8 * j) % 2 ^ (8 * nbytes)
      let x' := x - old * 2 ^ (8 * j) + (v % 2 ^ (8 * nbytes)) * 2 ^ (8 * j)
      .ok { s with stack := s.stack.set k (BitVec.ofNat 64 x') }
    | none => .error (.stack s!"write below the frame: [rsp+{off}]")

def nextJunk {β} (s : St β) : W × St β :=
  (BitVec.ofNat 64 (s.junk * 0x100000001b3 + 0x9e3779b97f4a7c15), { s with junk := s.junk * 31 + 7 })

/-- host pointers as they appear in registers -/
def ptrVal (tok : Nat) : W := BitVec.ofNat 64 (0xf00d000000000000 + tok)

/-- the five bus helpers by pointer: result (low 16 bits of rax) and the bus afterwards -/
def helperCall {β} (B : Interp.BusOps β) (bus : β) (f addr val : Nat) : Except Fault (Nat × β) :=
  let lift {α} (x : Except Bus.Panic α) : Except Fault α := match x with | .ok v => .ok v | .error e => .error (.bus e)
  if f == (ptrVal 513).toNat then do let v ← lift (B.read bus addr); pure (v, bus)
  else if f == (ptrVal 514).toNat then do let b ← lift (B.write bus addr (val % 256)); pure (0, b)
  else if f == (ptrVal 515).toNat then do
    let lo ← lift (B.read bus addr); let hi ← lift (B.read bus ((addr + 1) % 65536)); pure (hi * 256 + lo, bus)
  else if f == (ptrVal 516).toNat then do
    let b ← lift (B.write bus addr (val % 256)); let b ← lift (B.write b ((addr + 1) % 65536) (val / 256 % 256)); pure (0, b)
  else if f == (ptrVal 517).toNat then do
    let b ← lift (B.write bus ((addr + 1) % 65536) (val / 256 % 256)); let b ← lift (B.write b addr (val % 256)); pure (0, b)
  else throw (.bad "call through an unknown pointer")

/-- `call rax`: the bus helper selected by the pointer in rax, System V argument registers -/
def callBus {β} (B : Interp.BusOps β) (s : St β) : Except Fault (St β) := do
  let f := (get s 0).toNat
  if get s 7 != ptrVal 512 then throw (.bad "call with rdi != memory base")
  let addr := (get s 6).toNat % 65536
  let val := (get s 2).toNat
  let (ret, bus) ← helperCall B s.bus f addr val
  -- clobber every caller-saved register and the flags; the result sits in the low bits of rax
  let s := { s with bus := bus }
  let mut s := s
  for i in [1, 2, 6, 7, 8, 9, 10, 11] do
    let (j, s') := nextJunk s; s := set s' i j
  let (j, s') := nextJunk s
  s := set s' 0 (BitVec.ofNat 64 (j.toNat - j.toNat % 65536 + ret % 65536))
  let (j, s') := nextJunk s
  pure { s' with fl := flagsOfWord j.toNat }

/-- one instruction; `len` is its length in bytes (pc advances by it unless a jump is taken) -/
def step {β} (B : Interp.BusOps β) (s : St β) (ins : Instr) (len : Nat) : Except Fault (St β) :=
  let s := { s with pc := s.pc + len }
  match ins with
  | .alu8 op d src =>
    let (r, fl) := aluOp op 8 (get8 s d) (get8 s src) s.fl
    .ok { (if op == .cmp then s else set8 s d r) with fl := fl }
  | .alu8i op d imm =>
    let (r, fl) := aluOp op 8 (get8 s d) (tokVal s imm) s.fl
    .ok { (if op == .cmp then s else set8 s d r) with fl := fl }
  | .aluI op sz d imm sx8 =>
    let n := bitsOf sz
    let v := immLE s imm
    let v := if sx8 then (if v ≥ 128 then 2 ^ n - 256 + v else v) else (if sz == .q && v ≥ 2 ^ 31 then 2 ^ 64 - 2 ^ 32 + v else v)
    let (r, fl) := aluOp op n (getSz s sz d) (v % 2 ^ n) s.fl
    .ok { (if op == .cmp then s else setSz s sz d r) with fl := fl }
  | .alu op sz d src =>
    let (r, fl) := aluOp op (bitsOf sz) (getSz s sz d) (getSz s sz src) s.fl
    .ok { (if op == .cmp then s else setSz s sz d r) with fl := fl }
  | .test8i r imm => let (_, fl) := aluOp .and 8 (get8 s r) (tokVal s imm) s.fl; .ok { s with fl := fl }
  | .not8 r => .ok (set8 s r (255 - get8 s r))
  | .incdec8 dec r =>
    let (v, fl) := aluOp (if dec then .sub else .add) 8 (get8 s r) 1 s.fl
    .ok { set8 s r v with fl := { fl with cf := s.fl.cf } }
  | .incdec16 dec r =>
    let (v, fl) := aluOp (if dec then .sub else .add) 16 (getSz s .w r) 1 s.fl
    .ok { setSz s .w r v with fl := { fl with cf := s.fl.cf } }
  | .sh8 op r c => let (v, fl) := shOp op 8 (get8 s r) (tokVal s c) s.fl; .ok { set8 s r v with fl := fl }
  | .sh32 op r c => let (v, fl) := shOp op 32 (getSz s .d r) (tokVal s c) s.fl; .ok { setSz s .d r v with fl := fl }
  | .mov8 d src => .ok (set8 s d (get8 s src))
  | .mov8i d imm => .ok (set8 s d (tokVal s imm))
  | .mov sz d src => .ok (setSz s sz d (getSz s sz src))
  | .movi16 d imm => .ok (setSz s .w d (immLE s imm))
  | .movabs d ptr => .ok (set s d (ptrVal ptr))
  | .load sz d base disp =>
    if base == 4 then do let v ← stackRead s disp (bitsOf sz / 8); pure (setSz s sz d v)
    else .error (.bad "load from a non-stack address inside a block")
  | .store sz base disp src =>
    if base == 4 then stackWrite s disp (bitsOf sz / 8) (getSz s sz src)
    else .error (.bad "store to a non-stack address inside a block")
  | .store8 base disp src =>
    if base == 4 then stackWrite s disp 1 (get8 s src) else .error (.bad "store8 to a non-stack address")
  | .sete r => .ok (set8 s r (if s.fl.zf then 1 else 0))
  | .bt r bit => .ok { s with fl := { s.fl with cf := (get s r).toNat / 2 ^ (tokVal s bit % 32) % 2 == 1 } }
  | .push r => .ok { s with stack := get s r :: s.stack }
  | .pop r => match s.stack with
    | w :: rest => .ok (set { s with stack := rest } r w)
    | [] => .error (.stack "pop below the frame")
  | .pushf => .ok { s with stack := BitVec.ofNat 64 (flagsWord s.fl) :: s.stack }
  | .popf => match s.stack with
    | w :: rest => .ok { s with stack := rest, fl := flagsOfWord w.toNat }
    | [] => .error (.stack "popf below the frame")
  | .jcc c rel => .ok (if condHolds s.fl c then { s with pc := s.pc + tokVal s rel } else s)
  | .jmp rel => .ok { s with pc := s.pc + tokVal s rel }
  | .callRax => callBus B s
  | .nop => .ok s
  | .jmpReg _ | .ret => .error (.bad "control leaves the block")

/-- run decoded code (byte offsets) from `s.pc` until pc reaches `endOff` -/
def run {β} (B : Interp.BusOps β) (code : List (Nat × Instr)) (endOff : Nat) : Nat → St β → Except Fault (St β)
  | 0, _ => .error (.bad "fuel")
  | fuel+1, s =>
    if s.pc == endOff then .ok s else
    match code.findIdx? (fun p => p.1 == s.pc) with
    | none => .error (.bad s!"pc {s.pc} is not an instruction boundary")
    | some i =>
      match code[i]? with
      | none => .error (.bad "index")
      | some (off, ins) =>
        let nextOff := match code[i+1]? with | some (o, _) => o | none => endOff
        match step B s ins (nextOff - off) with
        | .ok s' => run B code endOff fuel s'
        | .error e => .error e

end GbVerif.X86
