import GbVerif.Model.Core
import GbVerif.Model.Timer
import GbVerif.Model.Lcd
/-
The whole machine: `MemoryAreas::run_clock_cycles` (`src/mem.rs`) and `IO::run_clock_cycles` (`src/devices/io.rs`)
composed from the device models — OAM DMA (one byte per machine cycle, the devices caught up after every byte), the
timer (C13), the LCD line/mode machine (C14) with its count of completed frames, the joypad's pending request (C17) —
as the concrete device function `Sys.dev` of the core model (`Core.Dev`).  `Core.update Sys.dev` /
`Core.updateBlock Sys.dev` is then one step of `Core::update` of the real machine (pixel work left out: it feeds
nothing back into the CPU-visible state).  Tied by the `c09*` correspondence streams (registers, IF, LY, STAT, DIV,
frame counter after every step of generated programs).
-/
namespace GbVerif.Sys
open GbVerif

def timerOf (t : Bus.TimerRegs) : Timer.State := ⟨t.cycleCount, t.counter, t.modulo, t.enabledMask, t.clockMask, t.control⟩
def regsOfTimer (t : Timer.State) : Bus.TimerRegs :=
  { cycleCount := t.cycleCount, counter := t.counter, modulo := t.modulo, enabledMask := t.enabledMask,
    clockMask := t.timerClockMask, control := t.controlValue }

/-- `current_mode` (a `u8` that only ever holds 0..3) as the four-valued type of the LCD model -/
def modeOfNat : Nat → Lcd.Mode
  | 0 => .m0
  | 1 => .m1
  | 2 => .m2
  | _ => .m3

/-- the timing side of `VideoState` as the LCD model's state -/
def lcdOf (v : Bus.VideoRegs) : Lcd.State :=
  ⟨modeOfNat v.mode, v.dots, v.line, v.lyc, v.irqLyc, v.irqM2, v.irqM1, v.irqM0⟩

/-- how often `frames_completed += 1` runs in the next `n` iterations of the LCD loop: the iterations that enter VBlank
(the same branch ORs `InterruptFlag::vblank()` into the result, and nothing else sets that bit) -/
def vblanks : Nat → Lcd.State → Nat
  | 0, _ => 0
  | n+1, s => (if Lcd.hasVblank (Lcd.tick4 s).2 then 1 else 0) + vblanks n (Lcd.tick4 s).1

/-- `VideoState::run_clock_cycles(cycles)`: new registers and the interrupt flags returned -/
def videoRun (v : Bus.VideoRegs) (clocks : Nat) : Except Bus.Panic (Bus.VideoRegs × Nat) :=
  match Lcd.runClocks clocks (lcdOf v) with
  | none => .error (.overflow "video cycles_remaining")
  | some (l, f) =>
    .ok ({ v with mode := l.mode.toNat, dots := l.dots, line := l.line, frames := v.frames + vblanks (clocks / 4) (lcdOf v) }, f)

/-- `IO::run_clock_cycles(cycles)`: timer, LCD, joypad; the flags are ORed into IF -/
def ioRun (io : Bus.Io) (clocks : Nat) : Except Bus.Panic Bus.Io :=
  match Timer.runCycles (timerOf io.timer) clocks with
  | none => .error (.overflow "timer cycle_count")
  | some (t, tf) => do
    let (v, vf) ← videoRun io.video clocks
    let (jf, joy) := Joypad.takeIrq io.joy
    pure { io with timer := regsOfTimer t, video := v, joy := joy,
                   ifl := io.ifl ||| ((if tf then 4 else 0) ||| vf ||| (if jf then 0x10 else 0)) }

/-- the copy loop of `MemoryAreas::run_clock_cycles`: one byte, then the devices catch up with that machine cycle -/
def dmaLoop (s : Bus.State) (source off : Nat) : Nat → Except Bus.Panic (Bus.State × Nat)
  | 0 => .ok (s, off)
  | n+1 => do
    let s ← Bus.dmaCopyByte s source off
    let io ← ioRun s.io 4
    dmaLoop { s with io := io } source (off + 1) n

/-- `MemoryAreas::run_clock_cycles(cycles)` -/
def dev : Core.Dev := fun s clocks =>
  match s.dma with
  | none => do
    let io ← ioRun s.io clocks
    pure { s with io := io }
  | some (source, off) => do
    let n := min (0xa0 - off) (clocks / 4)
    let (s, off') ← dmaLoop s source off n
    let s := { s with dma := if off' < 0xa0 then some (source, off') else none }
    let io ← ioRun s.io (clocks - 4 * n)
    pure { s with io := io }

/-- what `Core::run_frame` polls: `VideoState::get_frames_completed` -/
def frames (c : Core.State) : Nat := c.bus.io.video.frames

end GbVerif.Sys
