import GbVerif.Model.X86Wf
import GbVerif.Model.X86Sem
import GbVerif.Model.JitPaths
/-
C01 ("control returns to the emulator with the host process intact"), per template: the discipline of `X86Wf.absStep`
(host stack depth, bus-call protocol, registers never written) walked by the generic path walk, so that
`Proofs/X86Host.lean` can lift it to executions of the x86 model: every complete run of a template leaves the host stack
exactly as it found it and rbp untouched, and calls only the five bus helpers with the memory base in rdi.
-/
namespace GbVerif.JitHost
open GbVerif.X86 GbVerif.X86Wf GbVerif.JitPaths

/-- `absStep`, and in addition an `[rsp+d]` access may not straddle two 8-byte slots -/
def trHost (ins : Instr) (a : Abs) : Option Abs :=
  match ins with
  | .load sz _ _ disp => if disp % 8 + bitsOf sz / 8 > 8 then none else absStep ins a
  | .store sz _ disp _ => if disp % 8 + bitsOf sz / 8 > 8 then none else absStep ins a
  | _ => absStep ins a

/-- 1 if every path through the template keeps the discipline and ends with a balanced stack -/
def hostOk (tokens : List Nat) : Option (List Nat) :=
  analyse trHost {} (fun a => if a.depth == 0 then some 0 else none) tokens

end GbVerif.JitHost
