/-
Model of the LCD line/mode machine of `src/devices/video/mod.rs` (hand-written, tied by the
`c14.*` correspondence streams): `VideoState::{new, run_clock_cycles, check_current_line,
check_mode_interrupt, get_lcd_status, set_lcd_status, set_ly_compare, get_ly, get_current_mode}`
with all pixel work (`find_current_line_sprites`, tile caches, line buffer, `swap_buffers`) left
out — none of it writes `current_mode`, `current_mode_dots`, `current_line`, `ly_compare` or the
four `interrupt_on_*` fields.  `u8`/`usize` values are `Nat`; every `+= 1` / `+= 4` / `-= n` below
is guarded in the code by a comparison that keeps it in range, so no wrap-around occurs.
-/
namespace GbVerif.Lcd

/-- `current_mode` is only ever assigned the constants 0, 1, 2, 3 (the `_` arm of the `match` in
`run_clock_cycles` is `unreachable_unchecked`), so it is modelled as a four-valued type. -/
inductive Mode where
  | m0   -- HBlank
  | m1   -- VBlank
  | m2   -- OAM search
  | m3   -- drawing
deriving DecidableEq, Repr

def Mode.toNat : Mode → Nat
  | .m0 => 0 | .m1 => 1 | .m2 => 2 | .m3 => 3

structure State where
  mode : Mode      -- `current_mode`
  dots : Nat       -- `current_mode_dots`
  line : Nat       -- `current_line`
  lyc : Nat        -- `ly_compare`
  irqLyc : Bool    -- `interrupt_on_lyc`
  irqM2 : Bool     -- `interrupt_on_mode_2`
  irqM1 : Bool     -- `interrupt_on_mode_1`
  irqM0 : Bool     -- `interrupt_on_mode_0`
deriving DecidableEq, Repr

/-- `InterruptFlag(u8)`: bit 0 = `vblank()`, bit 1 = `stat()`; `|=` is `|||`. -/
abbrev Flags := Nat

def fEmpty : Flags := 0
def fVblank : Flags := 1
def fStat : Flags := 2

/-- the flag byte requests the VBlank interrupt (bit 0) -/
def hasVblank (f : Flags) : Bool := f.testBit 0
/-- the flag byte requests the STAT interrupt (bit 1) -/
def hasStat (f : Flags) : Bool := f.testBit 1

/-- `VideoState::new()`: "start at the beginning of a vblank" -/
def powerOn : State := ⟨.m1, 0, 144, 0, false, false, false, false⟩

/-- `check_current_line` -/
def checkCurrentLine (s : State) : Flags :=
  if s.lyc == s.line then
    if s.irqLyc then fStat else fEmpty
  else fEmpty

/-- `check_mode_interrupt` -/
def checkModeInterrupt (s : State) : Flags :=
  if s.irqM2 && s.mode == .m2 then fStat
  else if s.irqM1 && s.mode == .m1 then fStat
  else if s.irqM0 && s.mode == .m0 then fStat
  else fEmpty

/-- one iteration of `while cycles_remaining > 0 { cycles_remaining -= 4; … }` in
`run_clock_cycles`; the result flags are what the iteration ORs into `interrupt_state`. -/
def tick4 (s : State) : State × Flags :=
  let s := { s with dots := s.dots + 4 }
  match s.mode with
  | .m0 =>
    if s.dots ≥ 188 then
      let s := { s with dots := s.dots - 188 }
      if s.line < 143 then
        let s := { s with line := s.line + 1, mode := .m2 }
        (s, checkModeInterrupt s ||| checkCurrentLine s)
      else
        let s := { s with line := 144, mode := .m1 }
        (s, checkModeInterrupt s ||| checkCurrentLine s ||| fVblank)
    else (s, fEmpty)
  | .m1 =>
    if s.dots ≥ 456 then
      let s := { s with dots := s.dots - 456 }
      if s.line < 153 then
        let s := { s with line := s.line + 1 }
        (s, checkCurrentLine s)
      else
        let s := { s with line := 0, mode := .m2 }
        (s, checkModeInterrupt s ||| checkCurrentLine s)
    else (s, fEmpty)
  | .m2 =>
    if s.dots ≥ 80 then
      ({ s with dots := s.dots - 80, mode := .m3 }, fEmpty)
    else (s, fEmpty)
  | .m3 =>
    if s.dots ≥ 188 then
      let s := { s with dots := s.dots - 188, mode := .m0 }
      (s, checkModeInterrupt s)
    else (s, fEmpty)

/-- `n` loop iterations, flags accumulated with `|=` starting from `acc` -/
def runAcc : Nat → State → Flags → State × Flags
  | 0, s, acc => (s, acc)
  | n+1, s, acc => let r := tick4 s; runAcc n r.1 (acc ||| r.2)

/-- `run_clock_cycles(ClockCycles(4 * n4))` -/
def run (n4 : Nat) (s : State) : State × Flags := runAcc n4 s fEmpty

/-- `run_clock_cycles(ClockCycles(c))` for any `c`: `cycles_remaining -= 4` on a `usize` that is
1, 2 or 3 underflows (panic with overflow checks, a 2^64-clock loop without), modelled as `none`. -/
def runClocks (c : Nat) (s : State) : Option (State × Flags) :=
  if c % 4 = 0 then some (run (c / 4) s) else none

/-- `set_lcd_status(v)` -/
def setStat (v : Nat) (s : State) : State × Flags :=
  let s := { s with irqLyc := v &&& 0x40 != 0, irqM2 := v &&& 0x20 != 0,
                    irqM1 := v &&& 0x10 != 0, irqM0 := v &&& 0x08 != 0 }
  (s, checkCurrentLine s)

/-- `set_ly_compare(v)` -/
def setLyc (v : Nat) (s : State) : State × Flags :=
  let s := { s with lyc := v }
  (s, checkCurrentLine s)

/-- `get_lcd_status` -/
def getStat (s : State) : Nat :=
  let status := 0
  let status := if s.irqLyc then status ||| 0x40 else status
  let status := if s.irqM2 then status ||| 0x20 else status
  let status := if s.irqM1 then status ||| 0x10 else status
  let status := if s.irqM0 then status ||| 0x08 else status
  let status := if s.lyc == s.line then status ||| 4 else status
  status ||| s.mode.toNat

/-- `get_ly` -/
def getLy (s : State) : Nat := s.line

/-- `get_current_mode` -/
def getMode (s : State) : Nat := s.mode.toNat

/-- the operations a guest / the emulator core can apply to the LCD registers modelled here -/
inductive Op where
  | run (n4 : Nat)      -- `run_clock_cycles(4 * n4)`
  | stat (v : Nat)      -- write FF41
  | lyc (v : Nat)       -- write FF45
deriving DecidableEq, Repr

def step (s : State) : Op → State × Flags
  | .run n => run n s
  | .stat v => setStat v s
  | .lyc v => setLyc v s

/-- total number of 4-clock ticks elapsed in an operation list -/
def ticksOf : List Op → Nat
  | [] => 0
  | .run n :: r => n + ticksOf r
  | _ :: r => ticksOf r

def exec (s : State) (ops : List Op) : State := ops.foldl (fun s o => (step s o).1) s

end GbVerif.Lcd
