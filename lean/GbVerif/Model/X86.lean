/-
The subset of x86-64 that the emitter produces (measured vocabulary, DESIGN §5 C01): instruction type and a
decoder over *token* lists (bytes 0..255; 256/257 = operand bytes of the guest instruction, still symbolic;
512.. = 8-byte host pointers).  The decoder follows the bytes (prefixes, REX, ModRM, SIB), not the comments
in the emitter source.  Import-free.
-/
namespace GbVerif.X86

/-- 8-bit register operand: low byte of GPR `r`, or the high byte `ah ch dh bh` of GPR 0..3 -/
inductive R8 where
  | lo (r : Nat)
  | hi (r : Nat)
deriving DecidableEq, Repr, Inhabited

inductive Size where | w | d | q
deriving DecidableEq, Repr, Inhabited

/-- group-1 ALU operations in `/n` order -/
inductive AluOp where | add | or | adc | sbb | and | sub | xor | cmp
deriving DecidableEq, Repr, Inhabited

/-- group-2 shifts/rotates in `/n` order (`/6` is an alias of shl) -/
inductive ShOp where | rol | ror | rcl | rcr | shl | shr | sal | sar
deriving DecidableEq, Repr, Inhabited

inductive Cc where | b | e | ne | le | g
deriving DecidableEq, Repr, Inhabited

/-- GPR numbers: 0 rax 1 rcx 2 rdx 3 rbx 4 rsp 5 rbp 6 rsi 7 rdi 8..15 r8..r15.  Immediates are token lists
(little endian), so that operand bytes of the guest instruction stay symbolic. -/
inductive Instr where
  | alu8 (op : AluOp) (dst src : R8)                  -- r/m8 ← r/m8 op r8 (register direct)
  | alu8i (op : AluOp) (dst : R8) (imm : Nat)         -- 80 /n ib, and the `al, imm8` short forms
  | aluI (op : AluOp) (sz : Size) (dst : Nat) (imm : List Nat) (sx8 : Bool)   -- 81/83 and the `eax, imm32` short forms
  | alu (op : AluOp) (sz : Size) (dst src : Nat)      -- r/m ← r/m op r (register direct)
  | test8i (r : R8) (imm : Nat)
  | not8 (r : R8)
  | incdec8 (dec : Bool) (r : R8)
  | incdec16 (dec : Bool) (r : Nat)
  | sh8 (op : ShOp) (r : R8) (count : Nat)
  | sh32 (op : ShOp) (r : Nat) (count : Nat)
  | mov8 (dst src : R8)
  | mov8i (dst : R8) (imm : Nat)
  | mov (sz : Size) (dst src : Nat)
  | movi16 (dst : Nat) (imm : List Nat)
  | movabs (dst : Nat) (ptr : Nat)
  | load (sz : Size) (dst base disp : Nat)            -- mov r, [base + disp8]
  | store (sz : Size) (base disp src : Nat)           -- mov [base + disp8], r
  | store8 (base disp : Nat) (src : R8)
  | sete (r : R8)
  | bt (r : Nat) (bit : Nat)
  | push (r : Nat) | pop (r : Nat) | pushf | popf
  | jcc (c : Cc) (rel : Nat) | jmp (rel : Nat)
  | callRax | jmpReg (r : Nat) | ret | nop
deriving DecidableEq, Repr, Inhabited

def aluOf (n : Nat) : AluOp :=
  match n with | 0 => .add | 1 => .or | 2 => .adc | 3 => .sbb | 4 => .and | 5 => .sub | 6 => .xor | _ => .cmp
def shOf (n : Nat) : ShOp :=
  match n with | 0 => .rol | 1 => .ror | 2 => .rcl | 3 => .rcr | 4 => .shl | 5 => .shr | 6 => .sal | _ => .sar

/-- 8-bit register named by a 3-bit field, its REX extension bit and whether any REX prefix is present -/
def r8Of (field : Nat) (ext : Bool) (hasRex : Bool) : R8 :=
  if ext then .lo (field + 8) else if hasRex || field < 4 then .lo field else .hi (field - 4)

structure Prefix where
  op16 : Bool := false
  rex : Option Nat := none      -- low nibble WRXB
deriving Repr

def Prefix.w (p : Prefix) : Bool := match p.rex with | some r => r / 8 % 2 == 1 | none => false
def Prefix.r (p : Prefix) : Bool := match p.rex with | some r => r / 4 % 2 == 1 | none => false
def Prefix.b (p : Prefix) : Bool := match p.rex with | some r => r % 2 == 1 | none => false
def Prefix.has (p : Prefix) : Bool := p.rex.isSome
def Prefix.size (p : Prefix) : Size := if p.w then .q else if p.op16 then .w else .d

/-- memory operand `[base + disp8]` / `[base]` decoded from ModRM (+SIB 0x24 for rsp): (base, disp, tokens used after ModRM) -/
def memOperand (md rm : Nat) (rest : List Nat) : Option (Nat × Nat × Nat) :=
  if rm == 4 then
    match md, rest with
    | 1, 0x24 :: d :: _ => some (4, d, 2)
    | 0, 0x24 :: _ => some (4, 0, 1)
    | _, _ => none
  else
    match md, rest with
    | 1, d :: _ => some (rm, d, 1)
    | 0, _ => if rm == 5 then none else some (rm, 0, 0)
    | _, _ => none

/-- one instruction from the front of a token list: the instruction and the number of tokens it occupies -/
def decode1 (ts : List Nat) : Option (Instr × Nat) :=
  -- prefixes
  let (p, ts, n0) : Prefix × List Nat × Nat :=
    match ts with
    | 0x66 :: t => ({ op16 := true }, t, 1)
    | t => ({}, t, 0)
  let (p, ts, n0) : Prefix × List Nat × Nat :=
    match ts with
    | x :: t => if 0x40 ≤ x && x ≤ 0x4f then ({ p with rex := some (x - 0x40) }, t, n0 + 1) else (p, ts, n0)
    | [] => (p, ts, n0)
  let ext (b : Bool) (f : Nat) : Nat := if b then f + 8 else f
  match ts with
  | [] => none
  | op :: rest =>
    let modrm (k : Nat → Nat → Nat → List Nat → Option (Instr × Nat)) : Option (Instr × Nat) :=
      match rest with
      | m :: r => if m < 256 then k (m / 64) (m / 8 % 8) (m % 8) r else none
      | [] => none
    -- ALU r/m8, r8 : 00 08 10 18 20 28 30 38
    if op < 0x40 && op % 8 == 0 then
      modrm fun md reg rm _ => if md == 3 then some (.alu8 (aluOf (op / 8)) (r8Of rm p.b p.has) (r8Of reg p.r p.has), n0 + 2) else none
    -- ALU r/m, r : 01 09 11 .. 39
    else if op < 0x40 && op % 8 == 1 then
      modrm fun md reg rm _ => if md == 3 then some (.alu (aluOf (op / 8)) p.size (ext p.b rm) (ext p.r reg), n0 + 2) else none
    -- ALU al, imm8 : 04 0c 14 .. 3c
    else if op < 0x40 && op % 8 == 4 then
      match rest with | i :: _ => some (.alu8i (aluOf (op / 8)) (.lo 0) i, n0 + 2) | [] => none
    -- ALU eax, imm32 : 05 0d .. 3d
    else if op < 0x40 && op % 8 == 5 then
      match rest with | a :: b :: c :: d :: _ => some (.aluI (aluOf (op / 8)) p.size 0 [a, b, c, d] false, n0 + 5) | _ => none
    else if 0x50 ≤ op && op ≤ 0x57 then some (.push (ext p.b (op - 0x50)), n0 + 1)
    else if 0x58 ≤ op && op ≤ 0x5f then some (.pop (ext p.b (op - 0x58)), n0 + 1)
    else if op == 0x72 then match rest with | d :: _ => some (.jcc .b d, n0 + 2) | [] => none
    else if op == 0x74 then match rest with | d :: _ => some (.jcc .e d, n0 + 2) | [] => none
    else if op == 0x75 then match rest with | d :: _ => some (.jcc .ne d, n0 + 2) | [] => none
    else if op == 0x7e then match rest with | d :: _ => some (.jcc .le d, n0 + 2) | [] => none
    else if op == 0x7f then match rest with | d :: _ => some (.jcc .g d, n0 + 2) | [] => none
    else if op == 0xeb then match rest with | d :: _ => some (.jmp d, n0 + 2) | [] => none
    else if op == 0x80 then
      modrm fun md reg rm r => match md, r with
        | 3, i :: _ => some (.alu8i (aluOf reg) (r8Of rm p.b p.has) i, n0 + 3)
        | _, _ => none
    else if op == 0x81 then
      modrm fun md reg rm r => if md != 3 then none else
        if p.op16 then match r with | a :: b :: _ => some (.aluI (aluOf reg) .w (ext p.b rm) [a, b] false, n0 + 4) | _ => none
        else match r with | a :: b :: c :: d :: _ => some (.aluI (aluOf reg) p.size (ext p.b rm) [a, b, c, d] false, n0 + 6) | _ => none
    else if op == 0x83 then
      modrm fun md reg rm r => match md, r with
        | 3, i :: _ => some (.aluI (aluOf reg) p.size (ext p.b rm) [i] true, n0 + 3)
        | _, _ => none
    else if op == 0x88 then
      modrm fun md reg rm r =>
        if md == 3 then some (.mov8 (r8Of rm p.b p.has) (r8Of reg p.r p.has), n0 + 2)
        else match memOperand md rm r with
          | some (base, disp, k) => some (.store8 (ext p.b base) disp (r8Of reg p.r p.has), n0 + 2 + k)
          | none => none
    else if op == 0x89 then
      modrm fun md reg rm r =>
        if md == 3 then some (.mov p.size (ext p.b rm) (ext p.r reg), n0 + 2)
        else match memOperand md rm r with
          | some (base, disp, k) => some (.store p.size (ext p.b base) disp (ext p.r reg), n0 + 2 + k)
          | none => none
    else if op == 0x8b then
      modrm fun md reg rm r =>
        if md == 3 then some (.mov p.size (ext p.r reg) (ext p.b rm), n0 + 2)
        else match memOperand md rm r with
          | some (base, disp, k) => some (.load p.size (ext p.r reg) (ext p.b base) disp, n0 + 2 + k)
          | none => none
    else if op == 0x90 then some (.nop, n0 + 1)
    else if op == 0x9c then some (.pushf, n0 + 1)
    else if op == 0x9d then some (.popf, n0 + 1)
    else if op == 0xa8 then match rest with | i :: _ => some (.test8i (.lo 0) i, n0 + 2) | [] => none
    else if 0xb0 ≤ op && op ≤ 0xb7 then
      match rest with | i :: _ => some (.mov8i (r8Of (op - 0xb0) p.b p.has) i, n0 + 2) | [] => none
    else if 0xb8 ≤ op && op ≤ 0xbf then
      if p.w then match rest with | ptr :: _ => if ptr ≥ 512 then some (.movabs (ext p.b (op - 0xb8)) ptr, n0 + 2) else none | [] => none
      else if p.op16 then match rest with | a :: b :: _ => some (.movi16 (ext p.b (op - 0xb8)) [a, b], n0 + 3) | _ => none
      else none
    else if op == 0xc0 then
      modrm fun md reg rm r => match md, r with
        | 3, i :: _ => some (.sh8 (shOf reg) (r8Of rm p.b p.has) i, n0 + 3)
        | _, _ => none
    else if op == 0xc1 then
      modrm fun md reg rm r => match md, r with
        | 3, i :: _ => if p.size == .d then some (.sh32 (shOf reg) (ext p.b rm) i, n0 + 3) else none
        | _, _ => none
    else if op == 0xc3 then some (.ret, n0 + 1)
    else if op == 0xd0 then
      modrm fun md reg rm _ => if md == 3 then some (.sh8 (shOf reg) (r8Of rm p.b p.has) 1, n0 + 2) else none
    else if op == 0xd1 then
      modrm fun md reg rm _ => if md == 3 && p.size == .d then some (.sh32 (shOf reg) (ext p.b rm) 1, n0 + 2) else none
    else if op == 0xf6 then
      modrm fun md reg rm r =>
        if md != 3 then none
        else if reg == 0 then match r with | i :: _ => some (.test8i (r8Of rm p.b p.has) i, n0 + 3) | [] => none
        else if reg == 2 then some (.not8 (r8Of rm p.b p.has), n0 + 2)
        else none
    else if op == 0xfe then
      modrm fun md reg rm _ => if md == 3 && reg < 2 then some (.incdec8 (reg == 1) (r8Of rm p.b p.has), n0 + 2) else none
    else if op == 0xff then
      modrm fun md reg rm _ =>
        if md != 3 then none
        else if reg < 2 then (if p.op16 then some (.incdec16 (reg == 1) (ext p.b rm), n0 + 2) else none)
        else if reg == 2 then (if rm == 0 && !p.b then some (.callRax, n0 + 2) else none)
        else if reg == 4 then some (.jmpReg (ext p.b rm), n0 + 2)
        else none
    else if op == 0x0f then
      match rest with
      | 0x94 :: m :: _ => if m < 256 && m / 64 == 3 then some (.sete (r8Of (m % 8) p.b p.has), n0 + 3) else none
      | 0xba :: m :: i :: _ => if m < 256 && m / 64 == 3 && m / 8 % 8 == 4 then some (.bt (ext p.b (m % 8)) i, n0 + 4) else none
      | _ => none
    else none

/-- size in bytes of a token (host pointers are 8-byte immediates) -/
def tokBytes (t : Nat) : Nat := if t ≥ 512 then 8 else 1
def bytesOf (ts : List Nat) : Nat := ts.foldl (fun a t => a + tokBytes t) 0

/-- decode a whole token list into instructions with their BYTE offsets; `none` if anything is outside the subset -/
def decodeAll : List Nat → Nat → Nat → Option (List (Nat × Instr))
  | _, _, 0 => none
  | [], _, _ => some []
  | ts, off, fuel+1 =>
    match decode1 ts with
    | none => none
    | some (i, n) => if n == 0 then none else
      match decodeAll (ts.drop n) (off + bytesOf (ts.take n)) fuel with
      | some rest => some ((off, i) :: rest)
      | none => none

def decodeCode (ts : List Nat) : Option (List (Nat × Instr)) := decodeAll ts 0 (ts.length + 1)

end GbVerif.X86
