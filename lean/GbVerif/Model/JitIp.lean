import GbVerif.Model.JitPaths
/-
C01 (program counter bookkeeping of translated code): r13 holds the guest PC inside a translated block.  For an
instruction that does not end its block, the emitted code may change r13 only through `add r13, imm8` — or by popping
back the value it pushed itself (the POP rr templates save and restore r13 around their helper call) — and along every
path through the code the immediates must add up to the instruction's length.  Read off the emitted code by the generic
path walk (`JitPaths.paths`) with the advance so far and a symbolic host stack for the save/restore as abstract state.
The called bus helpers are Rust `extern "sysv64"` functions: r13 is callee-saved (the same ABI assumption as in X86Wf).
Soundness for executions of the x86 model: `Proofs/X86Ip.lean`.
-/
namespace GbVerif.JitIp
open GbVerif.X86 GbVerif.JitCycles GbVerif.JitPaths

/-- does the instruction write r13 in any way other than `add r13, imm8` and `pop`? -/
def writesR13Otherwise : Instr → Bool
  | .aluI .add .q 13 [_] true => false
  | .pop _ => false
  | ins => destReg ins == some 13

/-- abstract state: the advance so far and the symbolic host stack (`(register tag, advance when pushed)`, flags = tag 100) -/
abbrev IpSt := Nat × List (Nat × Nat)

/-- transfer function; `none` on any other write to r13, a `pop r13` that does not take back what `push r13` saved, or a
store into the slot holding r13 (or outside the slots this code pushed) -/
def trIp (ins : Instr) (a : IpSt) : Option IpSt :=
  if writesR13Otherwise ins then none else
  match ins with
  | .aluI .add .q 13 [n] true => if n ≥ 128 then none else some (a.1 + n, a.2)
  | .push r => some (a.1, (r, a.1) :: a.2)
  | .pushf => some (a.1, (100, 0) :: a.2)
  | .pop r =>
    match a.2 with
    | (r', x) :: rest => if r == 13 then (if r' == 13 then some (x, rest) else none) else some (a.1, rest)
    | [] => none
  | .popf => match a.2 with | _ :: rest => some (a.1, rest) | [] => none
  | .store _ b d _ =>
    if b != 4 then none else
    match a.2[d / 8]? with
    | some (r', _) => if r' == 13 then none else some a
    | none => none
  | .store8 b d _ =>
    if b != 4 then none else
    match a.2[d / 8]? with
    | some (r', _) => if r' == 13 then none else some a
    | none => none
  | _ => some a

/-- the set of PC advances of the translated instruction with these tokens -/
def jitIp (tokens : List Nat) : Option (List Nat) := analyse trIp (0, []) (fun a => some a.1) tokens

end GbVerif.JitIp
