import GbVerif.Model.JitCycles
/-
C01 (program counter bookkeeping of translated code): r13 holds the guest PC inside a translated block.  For an
instruction that does not end its block, the emitted code may change r13 only through `add r13, imm8` — or by popping
back the value it pushed itself (the POP rr templates save and restore r13 around their helper call) — and along every
path through the code the immediates must add up to the instruction's length.  Read off the emitted code like
`JitCycles.pathSums` reads the cycle charges off `add r15, imm8`, with a symbolic host stack for the save/restore.
The called bus helpers are Rust `extern "sysv64"` functions: r13 is callee-saved (the same ABI assumption as in X86Wf).
-/
namespace GbVerif.JitIp
open GbVerif.X86 GbVerif.JitCycles

/-- does the instruction write r13 in any way other than `add r13, imm8` and `pop r13`? -/
def writesR13Otherwise : Instr → Bool
  | .aluI .add .q 13 [_] true => false
  | .aluI op _ 13 _ _ => op != .cmp
  | .alu op _ 13 _ => op != .cmp
  | .alu8 op (.lo 13) _ => op != .cmp
  | .alu8i op (.lo 13) _ => op != .cmp
  | .not8 (.lo 13) | .incdec8 _ (.lo 13) | .incdec16 _ 13 | .sh8 _ (.lo 13) _ | .sh32 _ 13 _ => true
  | .mov8 (.lo 13) _ | .mov8i (.lo 13) _ | .mov _ 13 _ | .movi16 13 _ | .movabs 13 _ | .load _ 13 _ _ | .sete (.lo 13) => true
  | _ => false

/-- all PC advances over the paths from instruction `i` to the end of the code, going forward with the advance so far
(`acc`) and the symbolic host stack (`(register tag, advance when pushed)`, flags = tag 100); `none` on a malformed jump,
any other write to r13, a `pop r13` that does not take back what `push r13` saved, or a store into the slot holding r13 -/
def pathSums (code : List (Nat × Instr)) (endOff : Nat) : Nat → Nat → Nat → List (Nat × Nat) → Option (List Nat)
  | _, 0, _, _ => none
  | i, fuel+1, acc, stack =>
    match code[i]? with
    | none => if i == code.length then some [acc] else none
    | some (_, ins) =>
      let nextOff := match code[i+1]? with | some (o, _) => o | none => endOff
      if writesR13Otherwise ins then none else
      match ins with
      | .jcc _ rel =>
        if rel ≥ 128 then none else
        match indexOf code endOff (nextOff + rel) with
        | some j => if j ≤ i then none else
          match pathSums code endOff (i+1) fuel acc stack, pathSums code endOff j fuel acc stack with
          | some a, some b => some (a ++ b)
          | _, _ => none
        | none => none
      | .jmp rel =>
        if rel ≥ 128 then none else
        match indexOf code endOff (nextOff + rel) with
        | some j => if j ≤ i then none else pathSums code endOff j fuel acc stack
        | none => none
      | .aluI .add .q 13 [n] true => if n ≥ 128 then none else pathSums code endOff (i+1) fuel (acc + n) stack
      | .push r => pathSums code endOff (i+1) fuel acc ((r, acc) :: stack)
      | .pushf => pathSums code endOff (i+1) fuel acc ((100, 0) :: stack)
      | .pop r =>
        match stack with
        | (r', a) :: rest =>
          if r == 13 then (if r' == 13 then pathSums code endOff (i+1) fuel a rest else none)
          else pathSums code endOff (i+1) fuel acc rest
        | [] => none
      | .popf => match stack with | _ :: rest => pathSums code endOff (i+1) fuel acc rest | [] => none
      | .store _ 4 d _ =>
        match stack[d / 8]? with
        | some (13, _) => none
        | some _ => pathSums code endOff (i+1) fuel acc stack
        | none => none
      | .store8 4 d _ =>
        match stack[d / 8]? with
        | some (13, _) => none
        | some _ => pathSums code endOff (i+1) fuel acc stack
        | none => none
      | _ => pathSums code endOff (i+1) fuel acc stack

/-- the set of PC advances of the translated instruction with these tokens -/
def jitIp (tokens : List Nat) : Option (List Nat) :=
  match decodeCode tokens with
  | none => none
  | some code => (pathSums code (bytesOf tokens) 0 (code.length + 2) 0 []).map norm

end GbVerif.JitIp
