/-
Mirror of `src/decoder/ops.rs`: the `Op` enum and its operand enums (constructor names kept as in Rust).
`tools/gen_ops.py` checks on every run that the Rust enums still have exactly these variants.
Immediates are raw `Nat`s: `u8`/`i8` operands are the operand byte (0..255; signedness is applied by the
instruction semantics), `u16` operands are `b1 + 256*b2`.
-/
namespace GbVerif

inductive Reg8 where | A | B | C | D | E | H | L
deriving DecidableEq, Repr, Inhabited

inductive Reg16 where | AF | BC | DE | HL | SP
deriving DecidableEq, Repr, Inhabited

inductive Indirect where | BC | DE | HL | HLIncrement | HLDecrement
deriving DecidableEq, Repr, Inhabited

inductive Cond where | Always | Zero | NonZero | Carry | NoCarry
deriving DecidableEq, Repr, Inhabited

inductive Op where
  | Invalid (code : Nat)
  | NoOp | Stop | Halt
  | Load16 (r : Reg16) (v : Nat)
  | LoadToIndirect (loc : Indirect) (r : Reg8)
  | LoadImmediateToHLIndirect (v : Nat)
  | LoadFromIndirect (r : Reg8) (loc : Indirect)
  | Increment16 (r : Reg16) | Decrement16 (r : Reg16)
  | Increment8 (r : Reg8) | Decrement8 (r : Reg8)
  | IncrementHLIndirect | DecrementHLIndirect
  | Load8 (d s : Reg8)
  | Load8Immediate (d : Reg8) (v : Nat)
  | Add8 (d s : Reg8) | AddWithCarry8 (d s : Reg8)
  | AddAbsolute8 (v : Nat) | AddAbsoluteWithCarry8 (v : Nat)
  | AddHL (r : Reg16)
  | AddIndirect | AddIndirectWithCarry
  | Sub8 (d s : Reg8) | SubAbsolute8 (v : Nat)
  | SubWithCarry8 (d s : Reg8) | SubAbsoluteWithCarry8 (v : Nat)
  | SubIndirect | SubIndirectWithCarry
  | And8 (d s : Reg8) | AndAbsolute8 (v : Nat) | AndIndirect
  | Or8 (d s : Reg8) | OrAbsolute8 (v : Nat) | OrIndirect
  | Xor8 (d s : Reg8) | XorAbsolute8 (v : Nat) | XorIndirect
  | Compare8 (r : Reg8) | CompareAbsolute8 (v : Nat) | CompareIndirect
  | RotateLeftCarryA | RotateLeftCarry (r : Reg8) | RotateLeftCarryIndirect
  | RotateLeftA | RotateLeft (r : Reg8) | RotateLeftIndirect
  | RotateRightCarryA | RotateRightCarry (r : Reg8) | RotateRightCarryIndirect
  | RotateRightA | RotateRight (r : Reg8) | RotateRightIndirect
  | ShiftLeft (r : Reg8) | ShiftLeftIndirect
  | ShiftRight (r : Reg8) | ShiftRightIndirect
  | ShiftRightLogical (r : Reg8) | ShiftRightLogicalIndirect
  | Swap (r : Reg8) | SwapIndirect
  | BitTest (r : Reg8) (mask : Nat) | BitTestIndirect (mask : Nat)
  | BitClear (r : Reg8) (mask : Nat) | BitClearIndirect (mask : Nat)
  | BitSet (r : Reg8) (mask : Nat) | BitSetIndirect (mask : Nat)
  | LoadStackPointerToMemory (addr : Nat)
  | AddSP (off : Nat)
  | LoadAToMemory (addr : Nat) (long : Bool)
  | LoadAFromMemory (addr : Nat) (long : Bool)
  | LoadToHighMem | LoadFromHighMem
  | LoadStackOffset (off : Nat)
  | LoadToStackPointer
  | DAA | ComplementA | ComplementCarryFlag | SetCarryFlag
  | Jump (c : Cond) (addr : Nat)
  | JumpHL
  | JumpRelative (c : Cond) (off : Nat)
  | Call (c : Cond) (addr : Nat)
  | Return (c : Cond)
  | ResetVector (v : Nat)
  | ReturnFromInterrupt | InterruptEnable | InterruptDisable
  | Push (r : Reg16) | Pop (r : Reg16)
deriving DecidableEq, Repr, Inhabited

end GbVerif
