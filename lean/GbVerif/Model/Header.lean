import GbVerif.Gen.HeaderTables
/-
Model of ROM loading: `load_rom` (src/main.rs), `open_rom_file` / `read_header` (src/system/mod.rs),
`Header::{valid_checksum, get_rom_bank_count, get_rom_size_bytes, get_ram_size_bytes, create_cart_state}`
(src/cart.rs, tables regenerated into `Gen/HeaderTables`), `MemoryAreas::with_rom_file` (src/mem.rs) and
`map_rom_file` (src/system/linux.rs).  Tied by the `c19.hdr` (in-process) and `c19.file` (real binary) streams.

`u8` values are `Nat`; a byte read from a file or from the header buffer is whatever the `byte` function says
(the theorems that need `< 256` say so).  OS assumptions (stated in the propdef): `lseek(fd, 0x100, SEEK_SET)` on a
regular file returns 0x100 even past EOF; `read_exact` of n bytes at offset o succeeds iff o + n ≤ length;
`mmap` of a regular file succeeds for any positive length, whatever the file's length.
-/
namespace GbVerif.Header
open GbVerif.Gen.HeaderTables

/-- the `#[repr(C, packed)] struct Header` seen as its `as_buffer()` bytes: `byte i` = `buffer[i]`, `i < headerSize`.
Every index used below is a generated constant below `headerSize` (`reads_in_range`), so no read can panic. -/
structure Header where
  byte : Nat → Nat

/-- `u8::wrapping_sub` -/
def wsub (a b : Nat) : Nat := (a + 256 - b % 256) % 256

/-- the loop of `valid_checksum`: `for i in lo..hi { check = check.wrapping_sub(buffer[i]); check = check.wrapping_sub(1) }` -/
def checkLoop (h : Header) (check : Nat) (idx : List Nat) : Nat :=
  idx.foldl (fun c i => wsub (wsub c (h.byte i)) 1) check

def checkValue (h : Header) : Nat :=
  checkLoop h 0 (List.range' checksumLo (checksumHi - checksumLo))

/-- `Header::valid_checksum`: `check == self.header_checksum` -/
def validChecksum (h : Header) : Bool := checkValue h == h.byte offChecksum

/-- all constant indices are inside the 80-byte buffer: the slice accesses of `valid_checksum` cannot panic -/
theorem reads_in_range : checksumLo ≤ checksumHi ∧ checksumHi ≤ headerSize ∧ offChecksum < headerSize ∧
    offCartType < headerSize ∧ offRomSize < headerSize ∧ offRamSize < headerSize := by decide

/-- `Header::get_rom_bank_count` -/
def romBankCount (h : Header) : Nat := romBanks (h.byte offRomSize)
/-- `Header::get_rom_size_bytes` -/
def romSizeBytes (h : Header) : Nat := romBankCount h * romBankBytes
/-- `Header::get_ram_size_bytes` -/
def ramSizeBytes (h : Header) : Nat := ramBytes (h.byte offRamSize)
/-- `Header::create_cart_state`: `none` = `panic!("Unsupported cart type")` -/
def cartState (h : Header) : Option Nat := cartKind (h.byte offCartType)

/-- what `load_rom` is given: a path that opens or not, and a regular file's length and content -/
structure RomFile where
  opens : Bool
  len : Nat
  byte : Nat → Nat

/-- the messages `load_rom` can `println!` before returning `None` -/
inductive Msg where
  | unableToOpen        -- open_rom_file
  | unableToReadFile    -- read_header: seek failed (not reachable for a regular file)
  | fileTooShort        -- read_header: seek position ≠ 0x100 (not reachable: lseek past EOF succeeds)
  | unableToReadHeader  -- read_header: read_exact of 80 bytes failed
  | corrupt             -- load_rom: !valid_checksum()
  | truncated           -- load_rom: file length < get_rom_size_bytes()
deriving DecidableEq, Repr

def Msg.text : Msg → String
  | .unableToOpen => "Unable to open file"
  | .unableToReadFile => "Unable to read ROM file"
  | .fileTooShort => "File too short. Are you sure this is a ROM file?"
  | .unableToReadHeader => "Unable to read ROM header"
  | .corrupt => "ROM file is corrupt: invalid header checksum"
  | .truncated => "ROM file is truncated: it is smaller than the ROM size declared in its header"

/-- what `MemoryAreas::with_rom_file` ends up with -/
structure Config where
  kind : Nat        -- 0 NullCartState, 1 MBC1CartState, 3 MBC3CartState
  romBanks : Nat    -- get_rom_bank_count()
  mappedLen : Nat   -- length of the `rom` slice = length passed to mmap
  ramBytes : Nat    -- length of `cart_ram`
deriving DecidableEq, Repr

inductive Outcome where
  | rejectedMsg (m : Msg)   -- message on stdout, `None` ⇒ main continues with the built-in fallback program
  | panic                   -- `panic!("Unsupported cart type")` after `Loading "<title>"`: exit code 101
  | accepted (cfg : Config)
deriving DecidableEq, Repr

/-- result of `rom_file.seek(SeekFrom::Start(off))` on a regular file -/
def seekPos (_f : RomFile) (off : Nat) : Nat := off

/-- the 80 bytes `read_exact` copies into the zeroed `Header` -/
def headerOf (f : RomFile) : Header := ⟨fun i => f.byte (headerFileOffset + i)⟩

/-- `load_rom`, step by step -/
def loadRom (f : RomFile) : Outcome :=
  -- system::open_rom_file
  if !f.opens then .rejectedMsg .unableToOpen
  -- system::read_header: seek, compare the position with 0x100
  else if seekPos f headerFileOffset != 0x100 then .rejectedMsg .fileTooShort
  -- read_exact(size_of::<Header>())
  else if f.len < headerFileOffset + headerSize then .rejectedMsg .unableToReadHeader
  else
    let h := headerOf f
    if !validChecksum h then .rejectedMsg .corrupt
    -- metadata().len() < header.get_rom_size_bytes()
    else if f.len < romSizeBytes h then .rejectedMsg .truncated
    -- println!("Loading ..."); Core::from_rom_file → MemoryAreas::with_rom_file
    else match cartState h with
      | none => .panic
      | some k =>
        -- get_rom_buffer(rom_file, rom_size) = mmap(NULL, rom_size, …, fd, 0): `rom.len() = rom_size`
        .accepted { kind := k, romBanks := romBankCount h, mappedLen := romSizeBytes h, ramBytes := ramSizeBytes h }

/-- the index into `rom` that `memory_read_byte` forms for a CPU address below 0x8000 when the
cartridge state reports ROM bank `bank` (src/mem.rs) -/
def busRomIndex (bank addr : Nat) : Nat :=
  if addr < 0x4000 then addr else 0x4000 * bank + (addr &&& 0x3fff)

end GbVerif.Header
