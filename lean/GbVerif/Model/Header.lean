import GbVerif.Gen.HeaderTables
/-
Model of ROM loading: `load_rom` (src/main.rs), `open_rom_file` / `read_header` (src/system/mod.rs),
`Header::{valid_checksum, get_rom_bank_count, get_rom_size_bytes, get_ram_size_bytes, create_cart_state}`
(src/cart.rs, tables regenerated into `Gen/HeaderTables`), `MemoryAreas::with_rom_file` (src/mem.rs) and
`map_rom_file` (src/system/linux.rs).  Tied by the `c19.hdr` (in-process) and `c19.file` (real binary) streams.

`u8` values are `Nat`; a byte read from a file or from the header buffer is whatever the `byte` function says
(the theorems that need `< 256` say so).  OS assumptions (stated in the propdef): `lseek(fd, 0x100, SEEK_SET)` on a
regular file returns 0x100 even past EOF; `read_exact` of n bytes at offset o succeeds iff o + n ≤ length;
`mmap` of a regular file succeeds for any positive length, whatever the file's length.
-/
namespace GbVerif.Header
open GbVerif.Gen.HeaderTables

/-- the `#[repr(C, packed)] struct Header` seen as its `as_buffer()` bytes: `byte i` = `buffer[i]`, `i < headerSize`.
Every index used below is a generated constant below `headerSize` (`reads_in_range`), so no read can panic. -/
structure Header where
  byte : Nat → Nat

/-- `u8::wrapping_sub` -/
def wsub (a b : Nat) : Nat := (a + 256 - b % 256) % 256

/-- the loop of `valid_checksum`: `for i in lo..hi { check = check.wrapping_sub(buffer[i]); check = check.wrapping_sub(1) }` -/
def checkLoop (h : Header) (check : Nat) (idx : List Nat) : Nat :=
  idx.foldl (fun c i => wsub (wsub c (h.byte i)) 1) check

def checkValue (h : Header) : Nat :=
  checkLoop h 0 (List.range' checksumLo (checksumHi - checksumLo))

/-- `Header::valid_checksum`: `check == self.header_checksum` -/
def validChecksum (h : Header) : Bool := checkValue h == h.byte offChecksum

/-- all constant indices are inside the 80-byte buffer: the slice accesses of `valid_checksum` cannot panic -/
theorem reads_in_range : checksumLo ≤ checksumHi ∧ checksumHi ≤ headerSize ∧ offChecksum < headerSize ∧
    offCartType < headerSize ∧ offRomSize < headerSize ∧ offRamSize < headerSize := by decide

/-- `Header::get_rom_bank_count` -/
def romBankCount (h : Header) : Nat := romBanks (h.byte offRomSize)
/-- `Header::get_rom_size_bytes` -/
def romSizeBytes (h : Header) : Nat := romBankCount h * romBankBytes
/-- `Header::get_ram_size_bytes` -/
def ramSizeBytes (h : Header) : Nat := ramBytes (h.byte offRamSize)
/-- `Header::create_cart_state`: `none` = `panic!("Unsupported cart type")` -/
def cartState (h : Header) : Option Nat := cartKind (h.byte offCartType)

/-- what `load_rom` is given: a path that opens or not, and a regular file's length and content -/
structure RomFile where
  opens : Bool
  len : Nat
  byte : Nat → Nat

/-- the messages `load_rom` can `println!` before returning `None` -/
inductive Msg where
  | unableToOpen        -- open_rom_file
  | unableToReadFile    -- read_header: seek failed (not reachable for a regular file)
  | fileTooShort        -- read_header: seek position ≠ 0x100 (not reachable: lseek past EOF succeeds)
  | unableToReadHeader  -- read_header: read_exact of 80 bytes failed
  | corrupt             -- load_rom: !valid_checksum()
  | truncated           -- load_rom: file length < get_rom_size_bytes()
deriving DecidableEq, Repr

def Msg.text : Msg → String
  | .unableToOpen => "Unable to open file"
  | .unableToReadFile => "Unable to read ROM file"
  | .fileTooShort => "File too short. Are you sure this is a ROM file?"
  | .unableToReadHeader => "Unable to read ROM header"
  | .corrupt => "ROM file is corrupt: invalid header checksum"
  | .truncated => "ROM file is truncated: it is smaller than the ROM size declared in its header"

/-- what `MemoryAreas::with_rom_file` ends up with -/
structure Config where
  kind : Nat        -- 0 NullCartState, 1 MBC1CartState, 3 MBC3CartState
  romBanks : Nat    -- get_rom_bank_count()
  mappedLen : Nat   -- length of the `rom` slice = length passed to mmap
  ramBytes : Nat    -- length of `cart_ram`
deriving DecidableEq, Repr

inductive Outcome where
  | rejectedMsg (m : Msg)   -- message on stdout, `None` ⇒ main continues with the built-in fallback program
  | panic                   -- `panic!("Unsupported cart type")` after `Loading "<title>"`: exit code 101
  | accepted (cfg : Config)
deriving DecidableEq, Repr

/-- result of `rom_file.seek(SeekFrom::Start(off))` on a regular file -/
def seekPos (_f : RomFile) (off : Nat) : Nat := off

/-- the 80 bytes `read_exact` copies into the zeroed `Header` -/
def headerOf (f : RomFile) : Header := ⟨fun i => f.byte (headerFileOffset + i)⟩

/-- `load_rom`, step by step -/
def loadRom (f : RomFile) : Outcome :=
  -- system::open_rom_file
  if !f.opens then .rejectedMsg .unableToOpen
  -- system::read_header: seek, compare the position with 0x100
  else if seekPos f headerFileOffset != 0x100 then .rejectedMsg .fileTooShort
  -- read_exact(size_of::<Header>())
  else if f.len < headerFileOffset + headerSize then .rejectedMsg .unableToReadHeader
  else
    let h := headerOf f
    if !validChecksum h then .rejectedMsg .corrupt
    -- metadata().len() < header.get_rom_size_bytes()
    else if f.len < romSizeBytes h then .rejectedMsg .truncated
    -- println!("Loading ..."); Core::from_rom_file → MemoryAreas::with_rom_file
    else match cartState h with
      | none => .panic
      | some k =>
        -- get_rom_buffer(rom_file, rom_size) = mmap(NULL, rom_size, …, fd, 0): `rom.len() = rom_size`
        .accepted { kind := k, romBanks := romBankCount h, mappedLen := romSizeBytes h, ramBytes := ramSizeBytes h }

/-! ### the title in the `Loading "<title>"` line

`Header::get_title` = `String::from_utf8_lossy(&self.title)` with the trailing NUL characters trimmed.  The title bytes
are whatever the file holds; `from_utf8_lossy` copies well-formed UTF-8 and puts U+FFFD (EF BF BD) for every maximal
ill-formed subpart (Unicode, Table 3-7: the lead byte decides which second bytes are allowed). -/

def isCont (b : Nat) : Bool := 0x80 ≤ b && b ≤ 0xbf

/-- second byte allowed after the lead byte of a three- or four-byte sequence -/
def secondOk (b0 b1 : Nat) : Bool :=
  if b0 == 0xe0 then 0xa0 ≤ b1 && b1 ≤ 0xbf
  else if b0 == 0xed then 0x80 ≤ b1 && b1 ≤ 0x9f
  else if b0 == 0xf0 then 0x90 ≤ b1 && b1 ≤ 0xbf
  else if b0 == 0xf4 then 0x80 ≤ b1 && b1 ≤ 0x8f
  else isCont b1

def replacement : List Nat := [0xef, 0xbf, 0xbd]

/-- the first chunk `from_utf8_lossy` produces from a non-empty byte list: what it emits and how many input bytes that
accounts for (a well-formed sequence is copied; a maximal ill-formed subpart becomes one U+FFFD) -/
def decodeOne (b0 : Nat) (rest : List Nat) : List Nat × Nat :=
  if b0 < 0x80 then ([b0], 1)
  else if 0xc2 ≤ b0 && b0 ≤ 0xdf then
    match rest with
    | b1 :: _ => if isCont b1 then ([b0, b1], 2) else (replacement, 1)
    | [] => (replacement, 1)
  else if 0xe0 ≤ b0 && b0 ≤ 0xef then
    match rest with
    | b1 :: r2 =>
      if secondOk b0 b1 then
        match r2 with
        | b2 :: _ => if isCont b2 then ([b0, b1, b2], 3) else (replacement, 2)
        | [] => (replacement, 2)
      else (replacement, 1)
    | [] => (replacement, 1)
  else if 0xf0 ≤ b0 && b0 ≤ 0xf4 then
    match rest with
    | b1 :: r2 =>
      if secondOk b0 b1 then
        match r2 with
        | b2 :: r3 =>
          if isCont b2 then
            match r3 with
            | b3 :: _ => if isCont b3 then ([b0, b1, b2, b3], 4) else (replacement, 3)
            | [] => (replacement, 3)
          else (replacement, 2)
        | [] => (replacement, 2)
      else (replacement, 1)
    | [] => (replacement, 1)
  else (replacement, 1)

/-- `String::from_utf8_lossy` on a byte list, as bytes (`fuel` ≥ the length of the list) -/
def lossyAux : Nat → List Nat → List Nat
  | 0, _ => []
  | fuel+1, l =>
    match l with
    | [] => []
    | b0 :: rest => (decodeOne b0 rest).1 ++ lossyAux fuel (rest.drop ((decodeOne b0 rest).2 - 1))

def utf8Lossy (l : List Nat) : List Nat := lossyAux l.length l

def trimNul (l : List Nat) : List Nat := (l.reverse.dropWhile (· == 0)).reverse

/-- the bytes `get_title()` returns for this header -/
def titleText (h : Header) : List Nat := trimNul (utf8Lossy ((List.range 11).map fun i => h.byte (0x34 + i)))


/-- the index into `rom` that `memory_read_byte` forms for a CPU address below 0x8000 when the
cartridge state reports ROM bank `bank` (src/mem.rs) -/
def busRomIndex (bank addr : Nat) : Nat :=
  if addr < 0x4000 then addr else 0x4000 * bank + (addr &&& 0x3fff)

end GbVerif.Header
