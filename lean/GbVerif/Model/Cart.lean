/-
Model of `src/cart.rs`: the `CartState` implementations (NullCartState, MBC1CartState, MBC3CartState)
and `Header::create_cart_state`.  Tied by the `c12` / `c10` / `c11` correspondence streams.
`usize` values are `Nat` (no overflow is reachable: every stored value is < 2^8).
-/
namespace GbVerif.Cart

inductive Kind where
  | none | mbc1 | mbc3
deriving DecidableEq, Repr

structure State where
  kind : Kind
  romBanks : Nat      -- `rom_banks`  (Header::get_rom_bank_count)
  ramBanks : Nat      -- `ram_banks`  (Header::get_ram_size_bytes / 0x2000)
  romBank : Nat       -- `rom_bank`
  ramBank : Nat       -- `ram_bank`
  ramEnabled : Bool   -- `ram_enabled`
  selectRam : Bool    -- `select_ram` (MBC1 only)
deriving DecidableEq, Repr

/-- `MBC1CartState::new` / `MBC3CartState::new` / `NullCartState::new` -/
def init (kind : Kind) (romBanks ramBanks : Nat) : State :=
  ⟨kind, romBanks, ramBanks, 1, 0, false, false⟩

/-- `CartState::write_rom(addr, value)` for `addr < 0x8000`, `value < 256` -/
def writeRom (s : State) (addr value : Nat) : State :=
  match s.kind with
  | .none => s
  | .mbc1 =>
    if addr < 0x2000 then { s with ramEnabled := value &&& 0x0a == 0x0a }
    else if addr < 0x4000 then { s with romBank := value &&& 0x1f }
    else if addr < 0x6000 then { s with ramBank := value &&& 0x03 }
    else { s with selectRam := value &&& 1 == 1 }
  | .mbc3 =>
    if addr < 0x2000 then { s with ramEnabled := value &&& 0x0a == 0x0a }
    else if addr < 0x4000 then { s with romBank := value &&& 0x7f }
    else if addr < 0x6000 then (if value < 4 then { s with ramBank := value } else s)
    else s

/-- `CartState::get_rom_bank` -/
def getRomBank (s : State) : Nat :=
  match s.kind with
  | .none => 1
  | .mbc1 =>
    let bank := if s.romBank == 0 then 1 else s.romBank
    let bank := if s.selectRam then bank else bank ||| (s.ramBank <<< 5)
    bank % s.romBanks
  | .mbc3 =>
    let bank := if s.romBank == 0 then 1 else s.romBank
    bank % s.romBanks

/-- `CartState::get_ram_bank` -/
def getRamBank (s : State) : Nat :=
  match s.kind with
  | .none => 0
  | .mbc1 => if s.selectRam && s.ramBanks > 0 then s.ramBank % s.ramBanks else 0
  | .mbc3 => if s.ramBanks > 0 then s.ramBank % s.ramBanks else 0

end GbVerif.Cart
