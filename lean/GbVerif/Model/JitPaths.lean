import GbVerif.Model.JitCycles
/-
The common skeleton of the bookkeeping analyses of translated code (C01): the code of one guest instruction is a DAG of
forward `rel8` jumps; an analysis walks every path with an abstract state `A`, a transfer function for the
instructions that are not jumps (it may refuse: `none`), and returns the abstract states at the end of the code.
`Proofs/X86Paths.lean` proves ONCE that such a walk covers every execution of the code on the x86 model, for any
relation between abstract and concrete states that the transfer function preserves.
-/
namespace GbVerif.JitPaths
open GbVerif.X86 GbVerif.JitCycles

def paths {A : Type} (tr : Instr → A → Option A) (code : List (Nat × Instr)) (endOff : Nat) : Nat → Nat → A → Option (List A)
  | _, 0, _ => none
  | i, fuel+1, a =>
    match code[i]? with
    | none => if i == code.length then some [a] else none
    | some (_, ins) =>
      let nextOff := match code[i+1]? with | some (o, _) => o | none => endOff
      match ins with
      | .jcc _ rel =>
        if rel ≥ 128 then none else
        match indexOf code endOff (nextOff + rel) with
        | some j => if j ≤ i then none else
          match paths tr code endOff (i+1) fuel a, paths tr code endOff j fuel a with
          | some x, some y => some (x ++ y)
          | _, _ => none
        | none => none
      | .jmp rel =>
        if rel ≥ 128 then none else
        match indexOf code endOff (nextOff + rel) with
        | some j => if j ≤ i then none else paths tr code endOff j fuel a
        | none => none
      | ins =>
        match tr ins a with
        | some a' => paths tr code endOff (i+1) fuel a'
        | none => none

/-- all of `l` mapped through `f`, `none` if `f` refuses one -/
def mapAll {A B : Type} (f : A → Option B) : List A → Option (List B)
  | [] => some []
  | x :: xs => match f x, mapAll f xs with
    | some y, some ys => some (y :: ys)
    | _, _ => none

/-- the analysis of one template: the sorted set of the results `fin` reads off the final abstract states -/
def analyse {A : Type} (tr : Instr → A → Option A) (init : A) (fin : A → Option Nat) (tokens : List Nat) : Option (List Nat) :=
  match decodeCode tokens with
  | none => none
  | some code =>
    match paths tr code (bytesOf tokens) 0 (code.length + 2) init with
    | none => none
    | some l => (mapAll fin l).map norm

end GbVerif.JitPaths
