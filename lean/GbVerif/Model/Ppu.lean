import GbVerif.Model.Tile
/-
Model of the pixel pipeline of `src/devices/video/{mod,tile,lcd}.rs` (hand-written, tied to the
code by the `c15` correspondence stream): the setters that configure it, `get_tile_address`,
`get_tile_row`, `get_object_row`, `find_current_line_sprites`, `cache_next_tile_row`,
`cache_next_window_tile_row`, one iteration of the `while cycles_remaining > 0` loop of
`run_clock_cycles` (all four modes, without the interrupt flags, which are C14's) and the
double buffer of `lcd.rs`.

`u8`/`u16`/`u64`/`usize` values are `Nat`; every place where the Rust value wraps or truncates
carries an explicit `%`.  Every slice/array index expression of the code is a `rd`/`wr` that
returns `Panic.oob` when the index is out of range (that nothing of the kind is reachable with
an 8 KiB VRAM and a 160-byte OAM is a theorem, `C15.line_no_panic`, not an assumption).
-/
namespace GbVerif.Ppu

inductive Panic where
  | oob            -- slice index out of range
deriving DecidableEq, Repr

/-- `a[i]` on a slice -/
@[inline] def rd (a : Array Nat) (i : Nat) : Except Panic Nat :=
  match a[i]? with
  | some v => .ok v
  | none => .error .oob

/-- `a[i] = v` on a slice -/
@[inline] def wr (a : Array Nat) (i v : Nat) : Except Panic (Array Nat) :=
  if i < a.size then .ok (a.set! i v) else .error .oob

/-- `const SHADES: [u8; 4] = [255, 170, 85, 0]`, indexed by a value that was masked with `& 3` -/
def shade (i : Nat) : Nat :=
  if i = 0 then 255 else if i = 1 then 170 else if i = 2 then 85 else 0

/-! ### configuration written by the setters (constant over a frame in C15) -/

structure Cfg where
  tileAddressOffset : Nat
  firstTileOffset : Nat
  bgMapOffset : Nat
  windowMapOffset : Nat
  objectDoubleHeight : Bool
  objectEnabled : Bool
  windowEnabled : Bool
  bgPalette : Array Nat        -- `[u8; 4]`
  objectPalettes : Array Nat   -- `[u8; 4 * 8]`
  scrollX : Nat
  scrollY : Nat
  windowX : Nat
  windowY : Nat
deriving Repr

/-- the configuration part of `VideoState::new()` -/
def Cfg.new : Cfg where
  tileAddressOffset := 0
  firstTileOffset := 0
  bgMapOffset := 0x1800
  windowMapOffset := 0x1800
  objectDoubleHeight := false
  objectEnabled := false
  windowEnabled := false
  bgPalette := #[0, 0, 0, 0]
  objectPalettes := Array.replicate 32 0
  scrollX := 0
  scrollY := 0
  windowX := 0
  windowY := 0

/-- `set_lcd_control` (the fields the pipeline reads; `lcd.enabled`, `bg_window_enabled` and
`lcd_control_value` are stored by the code but never read by the drawing code) -/
def Cfg.setLcdControl (c : Cfg) (value : Nat) : Cfg :=
  { c with
    windowMapOffset := if value &&& 0x40 == 0 then 0x1800 else 0x1c00
    windowEnabled := value &&& 0x20 == 0x20
    tileAddressOffset := if value &&& 0x10 == 0 then 0x800 else 0
    firstTileOffset := if value &&& 0x10 == 0 then 0x800 else 0
    bgMapOffset := if value &&& 0x08 == 0 then 0x1800 else 0x1c00
    objectDoubleHeight := value &&& 0x04 == 0x04
    objectEnabled := value &&& 0x02 == 0x02 }

/-- `set_bgp` -/
def Cfg.setBgp (c : Cfg) (value : Nat) : Cfg :=
  { c with bgPalette := #[shade (value &&& 3), shade ((value >>> 2) &&& 3),
                          shade ((value >>> 4) &&& 3), shade ((value >>> 6) &&& 3)] }

/-- `set_obj_palette(palette, value)` -/
def Cfg.setObjPalette (c : Cfg) (palette value : Nat) : Cfg :=
  let offset := (palette &&& 7) * 4
  let p := c.objectPalettes
  let p := p.set! (offset + 0) (shade (value &&& 3))
  let p := p.set! (offset + 1) (shade ((value >>> 2) &&& 3))
  let p := p.set! (offset + 2) (shade ((value >>> 4) &&& 3))
  let p := p.set! (offset + 3) (shade ((value >>> 6) &&& 3))
  { c with objectPalettes := p }

/-- the guest-visible registers C15 quantifies over (all bytes) -/
structure Regs where
  lcdc : Nat
  scx : Nat
  scy : Nat
  wx : Nat
  wy : Nat
  bgp : Nat
  obp0 : Nat
  obp1 : Nat
deriving Repr, DecidableEq

/-- the harness' register set-up on an existing `VideoState`: `set_lcd_control`, `set_bgp`,
`set_obj_palette(0/1)`, `set_scroll_x/y`, `set_window_x/y` -/
def Cfg.applyRegs (c : Cfg) (r : Regs) : Cfg :=
  let c := c.setLcdControl r.lcdc
  let c := c.setBgp r.bgp
  let c := c.setObjPalette 0 r.obp0
  let c := c.setObjPalette 1 r.obp1
  { c with scrollX := r.scx, scrollY := r.scy, windowX := r.wx, windowY := r.wy }

/-- `new` followed by the set-up sequence -/
def Cfg.ofRegs (r : Regs) : Cfg := Cfg.new.applyRegs r

/-! ### tile fetches -/

/-- `get_tile_address` -/
def getTileAddress (c : Cfg) (index : Nat) : Nat :=
  ((c.firstTileOffset + index * 16) &&& 0xfff) + c.tileAddressOffset

/-- `get_bg_tile` -/
def getBgTile (c : Cfg) (vram : Array Nat) (x y : Nat) : Except Panic Nat :=
  rd vram (c.bgMapOffset + (x + y * 32))

/-- `get_window_tile` -/
def getWindowTile (c : Cfg) (vram : Array Nat) (x y : Nat) : Except Panic Nat :=
  rd vram (c.windowMapOffset + (x + y * 32))

/-- `get_tile_row` -/
def getTileRow (c : Cfg) (vram : Array Nat) (tile row : Nat) : Except Panic Nat := do
  let address := getTileAddress c tile + row * 2
  let low ← rd vram address
  let high ← rd vram (address + 1)
  pure (interleave low high)

/-- `get_object_row` -/
def getObjectRow (vram : Array Nat) (tileIndex row : Nat) (flipX : Bool) : Except Panic Nat := do
  let address := (tileIndex <<< 4) + row * 2
  let lowRaw ← rd vram address
  let highRaw ← rd vram (address + 1)
  let low := if flipX then flipByte lowRaw else lowRaw
  let high := if flipX then flipByte highRaw else highRaw
  pure (interleave low high)

/-! ### `find_current_line_sprites` -/

/-- `struct ObjectAttributes` -/
structure Obj where
  palette : Nat
  xCoord : Nat
  rowData : Nat
  hasPriority : Bool
deriving Repr, DecidableEq

/-- the selection loop `while offset < 160 && objects_found.len() < 10`; `fuel` is its trip
bound (40: `offset` grows by 4 per trip) -/
def selectLoop (c : Cfg) (vram oam : Array Nat) (line : Nat) :
    (fuel : Nat) → (offset : Nat) → (found : List Obj) → Except Panic (List Obj)
  | 0, _, found => pure found
  | fuel + 1, offset, found =>
    if offset < 160 ∧ found.length < 10 then do
      let objectY ← rd oam offset
      let objectX ← rd oam (offset + 1)
      let tileIndex ← rd oam (offset + 2)
      let attributes ← rd oam (offset + 3)
      let objectHeight := if c.objectDoubleHeight then 16 else 8
      -- `object_line = current_line + 16 - object_y` in `isize`; `< 0 || >= height` → continue
      if line + 16 < objectY ∨ line + 16 - objectY ≥ objectHeight then
        selectLoop c vram oam line fuel (offset + 4) found
      else
        let objectLine := line + 16 - objectY
        let flipY := attributes &&& 0x40 != 0
        let flipX := attributes &&& 0x20 != 0
        let objectLine := if flipY then objectHeight - objectLine - 1 else objectLine
        -- 8x16 objects ignore bit 0 of the tile index (`fix:` 83bf9d5; before it the index was used as it is)
        let tileIndex := if c.objectDoubleHeight then tileIndex &&& 0xfe else tileIndex
        let rowData ← getObjectRow vram tileIndex objectLine flipX
        let obj : Obj := { hasPriority := attributes &&& 0x80 == 0,
                           palette := (attributes &&& 0x10) >>> 4,
                           rowData := rowData, xCoord := objectX }
        selectLoop c vram oam line fuel (offset + 4) (found ++ [obj])
    else pure found

/-- `for x in 0..8 { … }`: copy the eight pixels of one object into the line cache where no
earlier object is `present`; `x = 8 - n` -/
def drawObj (obj : Obj) (lineX : Nat) : (n : Nat) → (pixelData : Nat) → Array Nat → Except Panic (Array Nat)
  | 0, _, cache => pure cache
  | n + 1, pixelData, cache => do
    let offset := lineX + (7 - n)
    let cur ← rd cache offset
    let cache ←
      if cur &&& 0x80 == 0 then
        let priority := if obj.hasPriority then 0x40 else 0
        let palette := (obj.palette <<< 2) % 256
        let colorIndex := ((pixelData >>> 14) &&& 3) % 256
        if colorIndex != 0 then wr cache offset (0x80 ||| priority ||| palette ||| colorIndex)
        else pure cache
      else pure cache
    drawObj obj lineX n ((pixelData <<< 2) % 65536) cache

/-- `for obj_index in 0..total_objects { … }` at one `line_x`: objects starting here are drawn
and taken out of the set (`inner.take()`) -/
def sweepObjs (lineX : Nat) : List (Option Obj) → Array Nat → Nat →
    Except Panic (List (Option Obj) × Array Nat × Nat)
  | [], cache, drawn => pure ([], cache, drawn)
  | none :: rest, cache, drawn => do
    let (rest', cache, drawn) ← sweepObjs lineX rest cache drawn
    pure (none :: rest', cache, drawn)
  | some obj :: rest, cache, drawn =>
    if obj.xCoord != lineX then do
      let (rest', cache, drawn) ← sweepObjs lineX rest cache drawn
      pure (some obj :: rest', cache, drawn)
    else do
      let cache ← drawObj obj lineX 8 obj.rowData cache
      let (rest', cache, drawn) ← sweepObjs lineX rest cache (drawn + 1)
      pure (none :: rest', cache, drawn)

/-- `while line_x < 168 && drawn_count < total_objects`; `fuel` = 168 -/
def sweep (total : Nat) : (fuel : Nat) → (lineX : Nat) → List (Option Obj) → Array Nat → Nat →
    Except Panic (Array Nat)
  | 0, _, _, cache, _ => pure cache
  | fuel + 1, lineX, objs, cache, drawn =>
    if lineX < 168 ∧ drawn < total then do
      let (objs, cache, drawn) ← sweepObjs lineX objs cache drawn
      sweep total fuel (lineX + 1) objs cache drawn
    else pure cache

/-- `find_current_line_sprites`: the new `object_line_cache` (`current_obj_line_cache_pixel`
becomes 8, see `State`) -/
def findCurrentLineSprites (c : Cfg) (vram oam : Array Nat) (line : Nat) : Except Panic (Array Nat) := do
  let cache := Array.replicate 176 0
  if !c.objectEnabled then pure cache
  else
    let found ← selectLoop c vram oam line 40 0 []
    let total := found.length
    if total == 0 then pure cache
    else sweep total 168 0 (found.map some) cache 0

/-! ### the machine -/

inductive Mode where
  | m0 | m1 | m2 | m3
deriving DecidableEq, Repr

structure State where
  cfg : Cfg
  visible : Array Nat            -- `lcd.visible_buffer`
  writing : Array Nat            -- `lcd.writing_buffer`
  mode : Mode                    -- `current_mode` (only ever assigned 0..3)
  dots : Nat                     -- `current_mode_dots`
  line : Nat                     -- `current_line`
  nextTileX : Nat                -- `next_cached_tile_x`
  tileCache : Nat                -- `current_tile_cache: u16`
  objCache : Array Nat           -- `object_line_cache: [u8; 176]`
  objPix : Nat                   -- `current_obj_line_cache_pixel`
  windowLine : Option Nat        -- `current_window_line`
deriving Repr

/-- `VideoState::new()` followed by the setters -/
def powerOn (c : Cfg) : State where
  cfg := c
  visible := Array.replicate 23040 0
  writing := Array.replicate 23040 0
  mode := .m1
  dots := 0
  line := 144
  nextTileX := 0
  tileCache := 0
  objCache := Array.replicate 176 0
  objPix := 0
  windowLine := none

/-- `cache_next_tile_row` -/
def cacheNextTileRow (s : State) (vram : Array Nat) : Except Panic State := do
  let tileX := s.nextTileX
  let relativeTileLine := (s.line + s.cfg.scrollY) % 256      -- `wrapping_add` on `u8`
  let tileY := relativeTileLine >>> 3
  let tileIndex ← getBgTile s.cfg vram tileX tileY
  let tileRow := relativeTileLine &&& 7
  let row ← getTileRow s.cfg vram tileIndex tileRow
  pure { s with tileCache := row, nextTileX := (s.nextTileX + 1) % 32 }

/-- `cache_next_window_tile_row` -/
def cacheNextWindowTileRow (s : State) (vram : Array Nat) : Except Panic State := do
  let tileX := s.nextTileX
  let relativeTileLine := (s.line + 256 - s.cfg.windowY) % 256  -- `wrapping_sub` on `u8`
  let tileY := relativeTileLine >>> 3
  let tileIndex ← getWindowTile s.cfg vram tileX tileY
  let tileRow := relativeTileLine &&& 7
  let row ← getTileRow s.cfg vram tileIndex tileRow
  pure { s with tileCache := row, nextTileX := (s.nextTileX + 1) % 32 }

/-- the set-up performed when mode 2 ends -/
def enterMode3 (s : State) (vram : Array Nat) : Except Panic State := do
  let useWindow := !(!s.cfg.windowEnabled || s.line < s.cfg.windowY)
  let s := { s with windowLine := if useWindow then some (s.line - s.cfg.windowY) else none }
  if useWindow && s.cfg.windowX ≤ 7 then
    let firstWindowPixel := 7 - s.cfg.windowX
    let s := { s with nextTileX := 0 }
    let s ← cacheNextWindowTileRow s vram
    pure { s with tileCache := (s.tileCache <<< (firstWindowPixel * 2)) % 65536 }
  else
    let s := { s with nextTileX := (s.cfg.scrollX >>> 3) % 32 }
    let s ← cacheNextTileRow s vram
    let fineScrollX := s.cfg.scrollX &&& 7
    pure { s with tileCache := (s.tileCache <<< (fineScrollX * 2)) % 65536 }

/-- body of `while tile_x < 8 && dots_remaining > 0` (one pixel) followed by the
`if tile_x >= 8 { cache next tile; tile_x = 0 }` that the code executes as soon as the `while`
is left; returns the new `tile_x`.  (`tile_x < 8` holds whenever the `while` is entered: it is
masked with `& 7` at the start of the step and reset to 0 after every fetch.) -/
def pixelStep (drawWindow : Bool) (vram : Array Nat) (tileX writeIndex : Nat) (s : State) :
    Except Panic (Nat × State) := do
  let objectPixel ← rd s.objCache s.objPix
  let paletteIndex := (s.tileCache &&& 0xc000) >>> 14
  let bgColor ← rd s.cfg.bgPalette paletteIndex
  let objHasPriority := (objectPixel &&& 0x40) != 0 || paletteIndex == 0
  -- `get_writing_buffer_line(current_line)`: the slice `[line*160 .. line*160+160]`
  if s.line * 160 + 160 > s.writing.size ∨ writeIndex ≥ 160 then throw .oob
  let color ←
    if objectPixel &&& 0x80 != 0 && objHasPriority then
      let palOffset := ((objectPixel &&& 0x1c) >>> 2) * 4
      rd s.cfg.objectPalettes (palOffset + (objectPixel &&& 3))
    else pure bgColor
  let writing ← wr s.writing (s.line * 160 + writeIndex) color
  let s := { s with writing := writing, objPix := s.objPix + 1, tileCache := (s.tileCache <<< 2) % 65536 }
  let tileX := tileX + 1
  let writeIndex := writeIndex + 1
  let (tileX, s) :=
    if drawWindow && writeIndex + 7 == s.cfg.windowX then (8, { s with nextTileX := 0 })
    else (tileX, s)
  if tileX ≥ 8 then
    let s ← if drawWindow && writeIndex + 7 ≥ s.cfg.windowX then cacheNextWindowTileRow s vram
            else cacheNextTileRow s vram
    pure (0, s)
  else pure (tileX, s)

/-- the `loop { … }` of a mode-3 step: `dots` pixels starting at `writeIndex` -/
def drawDots (drawWindow : Bool) (vram : Array Nat) :
    (dots : Nat) → (tileX writeIndex : Nat) → State → Except Panic State
  | 0, _, _, s => pure s
  | dots + 1, tileX, writeIndex, s => do
    let (tileX, s) ← pixelStep drawWindow vram tileX writeIndex s
    drawDots drawWindow vram dots tileX (writeIndex + 1) s

/-- the drawing arm of mode 3 (`current_mode_dots <= 160 && current_line < 144`) -/
def drawStep (s : State) (vram : Array Nat) (previousDotCount : Nat) : Except Panic State :=
  let tileX := ((previousDotCount &&& 7) + (s.cfg.scrollX &&& 7)) &&& 7
  let windowX := s.cfg.windowX
  let drawWindow := s.windowLine.isSome
  let tileX := if drawWindow && previousDotCount + 7 ≥ windowX then (previousDotCount + 7 - windowX) &&& 7 else tileX
  drawDots drawWindow vram 4 tileX previousDotCount s

/-- one iteration of `while cycles_remaining > 0 { cycles_remaining -= 4; … }` -/
def tick (s : State) (vram oam : Array Nat) : Except Panic State :=
  let previousDotCount := s.dots
  let s := { s with dots := s.dots + 4 }
  match s.mode with
  | .m0 =>
    if s.dots ≥ 188 then
      let s := { s with dots := s.dots - 188 }
      if s.line < 143 then do
        let s := { s with line := s.line + 1, mode := .m2 }
        let cache ← findCurrentLineSprites s.cfg vram oam s.line
        pure { s with objCache := cache, objPix := 8 }
      else
        -- `lcd.swap_buffers()`
        pure { s with line := 144, mode := .m1, visible := s.writing, writing := s.visible }
    else pure s
  | .m1 =>
    if s.dots ≥ 456 then
      let s := { s with dots := s.dots - 456 }
      if s.line < 153 then pure { s with line := s.line + 1 }
      else do
        let s := { s with line := 0, mode := .m2 }
        let cache ← findCurrentLineSprites s.cfg vram oam s.line
        pure { s with objCache := cache, objPix := 8 }
    else pure s
  | .m2 =>
    if s.dots ≥ 80 then
      enterMode3 { s with dots := s.dots - 80, mode := .m3 } vram
    else pure s
  | .m3 =>
    if s.dots ≥ 188 then pure { s with dots := s.dots - 188, mode := .m0 }
    else if s.dots ≤ 160 ∧ s.line < 144 then drawStep s vram previousDotCount
    else pure s

/-- `n` iterations -/
def runTicks (vram oam : Array Nat) : Nat → State → Except Panic State
  | 0, s => pure s
  | n + 1, s => do
    let s ← tick s vram oam
    runTicks vram oam n s

/-- the frame the harness observes: power-on, 4560 clocks to line 0, 144 × 456 clocks to VBlank -/
def renderFirst (r : Regs) (vram oam : Array Nat) : Except Panic State :=
  runTicks vram oam (1140 + 144 * 114) (powerOn (Cfg.ofRegs r))

def renderFrame (r : Regs) (vram oam : Array Nat) : Except Panic (Array Nat) := do
  let s ← renderFirst r vram oam
  pure s.visible

/-- the next frame on the same machine (stream `c15.seq`): `vbTicks` ticks of the VBlank with the
old memories, then the setters are called and VRAM/OAM replaced, then the rest of the VBlank and
the 144 lines.  Nothing of the state is re-initialised. -/
def renderNext (s : State) (r : Regs) (vramOld oamOld vram oam : Array Nat) (vbTicks : Nat) : Except Panic State := do
  let s ← runTicks vramOld oamOld vbTicks s
  let s := { s with cfg := s.cfg.applyRegs r }
  runTicks vram oam (1140 - vbTicks + 144 * 114) s

end GbVerif.Ppu
