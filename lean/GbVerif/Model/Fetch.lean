import GbVerif.Model.Bus
/-
Model of the instruction-fetch view `get_executable_memory_slice(start, mem)[0]` of `src/mem.rs`: the first byte of
the slice both CPU engines decode from.  Slice-range panics (`&rom[a..b]` with `b > len`) and the explicit
`panic!("TRIED TO EXECUTE")` are explicit results.  `wram_bank` is the constant 1 of `MemoryAreas::with_rom_file`.
Tied by the `c10` stream (fields `fd`, `fe`).
-/
namespace GbVerif.Bus

/-- `get_executable_memory_slice(a, mem)[0]` -/
def fetchByte (s : State) (a : Nat) : Except Panic Nat :=
  if a < 0x4000 then
    -- &mem.rom[start..0x4000]
    if 0x4000 ≤ s.romLen then .ok (s.rom a) else .error (.oob "rom0 slice")
  else if a < 0x8000 then
    let bankStart := Cart.getRomBank s.cart * 0x4000
    let bankEnd := bankStart + 0x4000
    let offset := (a &&& 0x3fff) + bankStart
    -- &mem.rom[offset..bank_end]
    if bankEnd ≤ s.romLen then .ok (s.rom offset) else .error (.oob "romx slice")
  else if (0xc000 ≤ a ∧ a < 0xd000) ∨ (0xe000 ≤ a ∧ a < 0xf000) then
    -- &mem.work_ram[(start & 0xfff)..0x1000]
    if 0x1000 ≤ s.wram.size then rd "wram0" s.wram (a &&& 0xfff) else .error (.oob "wram0 slice")
  else if (0xd000 ≤ a ∧ a < 0xe000) ∨ (0xf000 ≤ a ∧ a < 0xfea0) then
    let bankStart := 1 * 0x1000
    let bankEnd := bankStart + 0x1000
    let offset := (a &&& 0xfff) + bankStart
    -- &mem.work_ram[offset..bank_end]
    if bankEnd ≤ s.wram.size then rd "wramx" s.wram offset else .error (.oob "wramx slice")
  else if 0xff80 ≤ a ∧ a < 0xffff then
    -- &mem.high_ram[(start & 0x7f)..]
    rd "hram" s.hram (a &&& 0x7f)
  else .error (.explicit "TRIED TO EXECUTE")

end GbVerif.Bus
