import GbVerif.Model.Interp
import GbVerif.Gen.DecoderOps
/-
Model of `interpreter::run_next_op` / `run_code_block` on the real bus: fetch view
(`mem::get_executable_memory_slice` + the straddling-instruction path), decode (regenerated table), `run_op`.
-/
namespace GbVerif.Cpu
open GbVerif.Interp

def busOps : BusOps Bus.State := ⟨Bus.read, Bus.write⟩

/-- number of bytes in `get_executable_memory_slice(start)`, or the `panic!("TRIED TO EXECUTE")` -/
def sliceLen (start : Nat) : Except Bus.Panic Nat :=
  if start < 0x4000 then .ok (0x4000 - start)
  else if start < 0x8000 then .ok (0x4000 - (start &&& 0x3fff))
  else if (0xc000 ≤ start ∧ start < 0xd000) ∨ (0xe000 ≤ start ∧ start < 0xf000) then .ok (0x1000 - (start &&& 0xfff))
  else if (0xd000 ≤ start ∧ start < 0xe000) ∨ (0xf000 ≤ start ∧ start < 0xfea0) then .ok (0x1000 - (start &&& 0xfff))
  else if 0xff80 ≤ start ∧ start < 0xffff then .ok (127 - (start &&& 0x7f))
  else .error (.explicit "TRIED TO EXECUTE")

/-- byte `k` of `get_executable_memory_slice(start)` (k < its length) -/
def sliceByte (s : Bus.State) (start k : Nat) : Except Bus.Panic Nat :=
  if start < 0x4000 then
    if start + k < s.romLen then .ok (s.rom (start + k)) else .error (.oob "rom0 slice")
  else if start < 0x8000 then
    let i := Cart.getRomBank s.cart * 0x4000 + (start &&& 0x3fff) + k
    if i < s.romLen then .ok (s.rom i) else .error (.oob "romx slice")
  else if (0xc000 ≤ start ∧ start < 0xd000) ∨ (0xe000 ≤ start ∧ start < 0xf000) then Bus.rd "wram0 slice" s.wram ((start &&& 0xfff) + k)
  else if (0xd000 ≤ start ∧ start < 0xe000) ∨ (0xf000 ≤ start ∧ start < 0xfea0) then Bus.rd "wramx slice" s.wram (0x1000 + (start &&& 0xfff) + k)
  else Bus.rd "hram slice" s.hram ((start &&& 0x7f) + k)

/-- the three bytes `run_next_op` hands to `decode` -/
def fetch3 (s : Bus.State) (ip : Nat) : Except Bus.Panic (Nat × Nat × Nat) := do
  let n ← sliceLen ip
  if n < 3 then do
    let b0 ← Bus.read s (ip % 65536)
    let b1 ← Bus.read s ((ip + 1) % 65536)
    let b2 ← Bus.read s ((ip + 2) % 65536)
    pure (b0, b1, b2)
  else do
    let b0 ← sliceByte s ip 0
    let b1 ← sliceByte s ip 1
    let b2 ← sliceByte s ip 2
    pure (b0, b1, b2)

/-- `run_next_op`: registers, bus, status, `is_block_end` -/
def runNextOp (r : Regs) (s : Bus.State) : Except Bus.Panic (Regs × Bus.State × Nat × Bool) := do
  let (b0, b1, b2) ← fetch3 s r.ip
  let (op, len, clocks) := Gen.decode b0 b1 b2
  let (r, s, status) ← runOp busOps op r s len
  pure ({ r with ip := r.ip &&& 0xffff, cycles := r.cycles + clocks / 4 }, s, status, Gen.isBlockEnd op)

/-- `mem::can_dynarec`: ROM addresses whose instruction cannot reach into the next region -/
def canDynarec (addr : Nat) : Bool := addr < 0x8000 && (addr &&& 0x3fff) < 0x3ffe

/-- `mem::rom_block_must_end`: a ROM block that started at `start` ends before the instruction at `addr` -/
def romBlockMustEnd (start addr : Nat) : Bool := addr != start && (!canDynarec addr || addr / 16384 != start / 16384)

/-- the loop of `run_code_block`: `start` is the PC the block began at, `status` the status of the last op -/
def runCodeBlockAux (start : Nat) (r : Regs) (s : Bus.State) (status : Nat) : Nat → Except Bus.Panic (Regs × Bus.State × Nat)
  | 0 => .error (.explicit "fuel")
  | fuel+1 =>
    -- ROM blocks end at the end of their 16 KiB region, as translated blocks do
    if start < 0x8000 && romBlockMustEnd start r.ip then pure (r, s, status)
    else do
      let (r, s, st, stop) ← runNextOp r s
      if stop then pure (r, s, st) else runCodeBlockAux start r s st fuel

/-- `run_code_block`: ops until a block end; `fuel` bounds the loop (a block cannot be longer than the address space) -/
def runCodeBlock (r : Regs) (s : Bus.State) (fuel : Nat) : Except Bus.Panic (Regs × Bus.State × Nat) :=
  runCodeBlockAux r.ip r s STATUS_NORMAL fuel

end GbVerif.Cpu
