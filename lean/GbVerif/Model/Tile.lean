/-
Model of `src/devices/video/tile.rs` (`interleave`) and of the X-flip expression of
`get_object_row` in `src/devices/video/mod.rs`: the 64-bit multiply tricks, literally.
`u64` values are `Nat` with an explicit `% 2^64` where the Rust operation wraps.
Kept in its own file so that the 2^16-case kernel enumeration over it (`Proofs/PpuInterleave`)
is not re-run when the pipeline model changes.
-/
namespace GbVerif.Ppu

def two64 : Nat := 0x10000000000000000

/-- `tile::interleave(low, high)` — the 64-bit multiply trick, literally -/
def interleave (low high : Nat) : Nat :=
  let accHigh := (high * 0x0101010101010101) % two64
  let accHigh := accHigh &&& 0x8040201008040201
  let accHigh := (accHigh * 0x0102040810204081) % two64
  let accHigh := accHigh >>> 48
  let accHigh := accHigh &&& 0xaaaa
  let accLow := (low * 0x0101010101010101) % two64
  let accLow := accLow &&& 0x8040201008040201
  let accLow := (accLow * 0x0102040810204081) % two64
  let accLow := accLow >>> 49
  let accLow := accLow &&& 0x5555
  (accHigh ||| accLow) % 65536

/-- the flip expression of `get_object_row`:
`(((b as u64 * 0x80200802) & 0x0884422110).wrapping_mul(0x0101010101) >> 32) as u8` -/
def flipByte (b : Nat) : Nat :=
  (((((b * 0x80200802) &&& 0x0884422110) * 0x0101010101) % two64) >>> 32) % 256

end GbVerif.Ppu
