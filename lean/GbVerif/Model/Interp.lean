import GbVerif.Model.Op
import GbVerif.Model.Bus
/-
Model of `src/interpreter/mod.rs` (`run_op` and every `interp_*` function, `run_next_op`, `run_code_block`)
and of `src/cpu.rs::Registers`.  Register fields are Rust `u32`s: `Nat`s with the masks the code applies.
Bus accesses go through an abstract bus (`BusOps`) so that the CPU model can be tied to the code for *any*
bus behaviour (trace-driven correspondence) and composed with `Bus.State` for the whole machine.
-/
namespace GbVerif.Interp

structure Regs where
  af : Nat := 0
  bc : Nat := 0
  de : Nat := 0
  hl : Nat := 0
  sp : Nat := 0
  ip : Nat := 0
  cycles : Nat := 0
deriving DecidableEq, Repr, Inhabited

def STATUS_NORMAL : Nat := 0
def STATUS_STOP : Nat := 1
def STATUS_HALT : Nat := 2
def STATUS_INTERRUPT_DISABLE : Nat := 3
def STATUS_INTERRUPT_ENABLE : Nat := 4
def STATUS_INTERRUPT_ENABLE_IMMEDIATE : Nat := 5

/-- the bus as the interpreter sees it: byte reads and writes on some state `β`, both may panic -/
structure BusOps (β : Type) where
  read : β → Nat → Except Bus.Panic Nat
  write : β → Nat → Nat → Except Bus.Panic β

def u8 (x : Nat) : Nat := x % 256
def u16 (x : Nat) : Nat := x % 65536
def u32 (x : Nat) : Nat := x % 4294967296

/-! ### `Registers` accessors (`cpu.rs`) -/
def getHi (p : Nat) : Nat := (p >>> 8) % 256          -- `(self.xx >> 8) as u8`
def getLo (p : Nat) : Nat := p % 256                   -- `(self.xx & 0xff) as u8`
def setHi (p v : Nat) : Nat := (p &&& 0x00ff) ||| (v <<< 8)
def setLo (p v : Nat) : Nat := (p &&& 0xff00) ||| v

def getReg (r : Regs) : Reg8 → Nat
  | .A => getHi r.af | .B => getHi r.bc | .C => getLo r.bc | .D => getHi r.de
  | .E => getLo r.de | .H => getHi r.hl | .L => getLo r.hl

def setReg (r : Regs) (reg : Reg8) (v : Nat) : Regs :=
  match reg with
  | .A => { r with af := setHi r.af v } | .B => { r with bc := setHi r.bc v } | .C => { r with bc := setLo r.bc v }
  | .D => { r with de := setHi r.de v } | .E => { r with de := setLo r.de v }
  | .H => { r with hl := setHi r.hl v } | .L => { r with hl := setLo r.hl v }

/-- `get_register_16(...) as u16` -/
def getReg16 (r : Regs) : Reg16 → Nat
  | .AF => u16 r.af | .BC => u16 r.bc | .DE => u16 r.de | .HL => u16 r.hl | .SP => u16 r.sp

def setReg16 (r : Regs) (reg : Reg16) (v : Nat) : Regs :=
  match reg with
  | .AF => { r with af := v } | .BC => { r with bc := v } | .DE => { r with de := v }
  | .HL => { r with hl := v } | .SP => { r with sp := v }

def indirectReg : Indirect → Reg16
  | .BC => .BC | .DE => .DE | _ => .HL

/-! ### flag helpers -/
/-- `apply_mask`: `af &= (0xff00 | !mask) as u32` — clears the masked flag bits and bits 16..31 -/
def applyMask (r : Regs) (mask : Nat) : Regs := { r with af := r.af &&& (0xff00 ||| ((mask ^^^ 0xff) % 256)) }
def orF (r : Regs) (bits : Nat) : Regs := { r with af := r.af ||| bits }
def testZero (r : Regs) (v : Nat) : Regs := if v == 0 then orF r 0x80 else r
def testHalf (r : Regs) (f : Bool) : Regs := if f then orF r 0x20 else r
def testCarry (r : Regs) (f : Bool) : Regs := if f then orF r 0x10 else r
def setNeg (r : Regs) : Regs := orF r 0x40
def carryIn (af : Nat) : Nat := if af &&& 0x10 != 0 then 1 else 0

/-! ### ALU primitives: (value, carry, half-carry) -/
def carryAdd (a b : Nat) : Nat × Bool × Bool :=
  (u8 (a + b), a + b > 255, ((a &&& 0x0f) + (b &&& 0x0f)) &&& 0x10 != 0)
def carryAdc (a b af : Nat) : Nat × Bool × Bool :=
  let e := carryIn af
  (u8 (a + b + e), a + b > 255 || u8 (a + b) + e > 255, ((a &&& 0x0f) + (b &&& 0x0f) + e) &&& 0x10 != 0)
/-- `wrapping_sub` on u8 nibbles then `& 0x10` -/
def carrySub (a b : Nat) : Nat × Bool × Bool :=
  (u8 (a + 256 - b), a < b, u8 ((a &&& 0x0f) + 256 - (b &&& 0x0f)) &&& 0x10 != 0)
def carrySbc (a b af : Nat) : Nat × Bool × Bool :=
  let e := carryIn af
  let p := u8 (a + 256 - b)
  (u8 (p + 256 - e), a < b || p < e, u8 (u8 ((a &&& 0x0f) + 256 - (b &&& 0x0f)) + 256 - e) &&& 0x10 != 0)
def carryAdd16 (a b : Nat) : Nat × Bool × Bool :=
  (u16 (a + b), a + b > 65535, ((a &&& 0x0fff) + (b &&& 0x0fff)) &&& 0x1000 != 0)

/-- flags after an 8-bit add-like result: mask 0xf0, then C, H, Z -/
def flagsAdd (r : Regs) (res : Nat × Bool × Bool) : Regs :=
  testZero (testHalf (testCarry (applyMask r 0xf0) res.2.1) res.2.2) res.1
def flagsSub (r : Regs) (res : Nat × Bool × Bool) : Regs :=
  testZero (setNeg (testHalf (testCarry (applyMask r 0xf0) res.2.1) res.2.2)) res.1

/-! ### 8-bit operations on A with an operand byte -/
def opAdd (r : Regs) (v : Nat) (dest : Reg8 := .A) : Regs :=
  let res := carryAdd (getReg r dest) v; flagsAdd (setReg r dest res.1) res
def opAdc (r : Regs) (v : Nat) (dest : Reg8 := .A) : Regs :=
  let res := carryAdc (getReg r dest) v r.af; flagsAdd (setReg r dest res.1) res
def opSub (r : Regs) (v : Nat) (dest : Reg8 := .A) : Regs :=
  let res := carrySub (getReg r dest) v; flagsSub (setReg r dest res.1) res
def opSbc (r : Regs) (v : Nat) (dest : Reg8 := .A) : Regs :=
  let res := carrySbc (getReg r dest) v r.af; flagsSub (setReg r dest res.1) res
def opAnd (r : Regs) (v : Nat) (dest : Reg8 := .A) : Regs :=
  let x := getReg r dest &&& v; testZero (orF (applyMask (setReg r dest x) 0xf0) 0x20) x
def opXor (r : Regs) (v : Nat) (dest : Reg8 := .A) : Regs :=
  let x := getReg r dest ^^^ v; testZero (applyMask (setReg r dest x) 0xf0) x
def opOr (r : Regs) (v : Nat) (dest : Reg8 := .A) : Regs :=
  let x := getReg r dest ||| v; testZero (applyMask (setReg r dest x) 0xf0) x
def opCp (r : Regs) (v : Nat) : Regs :=
  let res := carrySub (getReg r .A) v; flagsSub r res

/-! ### rotates / shifts: value ↦ (result, carry) -/
def rlThrough (v af : Nat) : Nat × Bool := (u8 (v <<< 1) ||| ((af &&& 0x10) >>> 4), v &&& 0x80 == 0x80)
def rlCircular (v : Nat) : Nat × Bool := (u8 (v <<< 1) ||| ((v &&& 0x80) >>> 7), (v &&& 0x80) >>> 7 != 0)
def rrThrough (v af : Nat) : Nat × Bool := ((v >>> 1) ||| u8 ((af &&& 0x10) <<< 3), v &&& 0x01 == 0x01)
def rrCircular (v : Nat) : Nat × Bool := ((v >>> 1) ||| u8 ((v &&& 0x01) <<< 7), u8 ((v &&& 0x01) <<< 7) != 0)
def sla (v : Nat) : Nat × Bool := (u8 (v <<< 1), v &&& 0x80 != 0)
def sra (v : Nat) : Nat × Bool := ((v >>> 1) ||| (v &&& 0x80), v &&& 0x01 != 0)
def srl (v : Nat) : Nat × Bool := (v >>> 1, v &&& 0x01 != 0)
def swapN (v : Nat) : Nat := (v >>> 4) ||| u8 ((v &&& 0x0f) <<< 4)

/-- flags of the CB rotates/shifts: mask 0xf0, C, Z -/
def flagsRot (r : Regs) (res : Nat × Bool) (withZero : Bool) : Regs :=
  let r := testCarry (applyMask r 0xf0) res.2
  if withZero then testZero r res.1 else r

/-- `interp_daa` -/
def daa (r : Regs) : Regs :=
  let a := getReg r .A
  let af := r.af
  let af :=
    if af &&& 0x20 != 0 || (af &&& 0x40 == 0 && a &&& 0x0f > 0x09) then
      if af &&& 0x40 == 0 then af + 0x0600
      else
        let af := u32 (af + 4294967296 - 0x0600)
        if af &&& 0x10 == 0 then af &&& 0xffff else af
    else af
  let af :=
    if af &&& 0x10 != 0 || (af &&& 0x40 == 0 && af &&& 0xffff00 > 0x9f00) then
      if af &&& 0x40 == 0 then af + 0x6000 else u32 (af + 4294967296 - 0x6000)
    else af
  let af := if af > 0xffff then af ||| 0x10 else af
  let af := af &&& 0xff50
  let af := if af &&& 0xff00 == 0 then af ||| 0x80 else af
  { r with af := af }

/-- signed-offset add used by ADD SP,e8 / LD HL,SP+e8: (result, carry, half) -/
def addSigned (value off : Nat) : Nat × Bool × Bool :=
  let result := if off &&& 0x80 == 0 then u16 (value + off) else u16 (value + 65536 - u16 ((off ^^^ 0xff) + 1))
  (result, ((value &&& 0xff) + (off &&& 0xff)) &&& 0x100 != 0, ((value &&& 0x0f) + (off &&& 0x0f)) &&& 0x10 != 0)

def condHolds (af : Nat) : Cond → Bool
  | .Always => true
  | .Zero => af &&& 0x80 != 0
  | .Carry => af &&& 0x10 != 0
  | .NonZero => af &&& 0x80 == 0
  | .NoCarry => af &&& 0x10 == 0

section
variable {β : Type} (B : BusOps β)

/-- `push`: high byte at SP-1, low byte at SP-2 -/
def push (value : Nat) (r : Regs) (m : β) : Except Bus.Panic (Regs × β) := do
  let a1 := u16 (getReg16 r .SP + 65535)
  let m ← B.write m a1 ((value >>> 8) % 256)
  let a2 := u16 (a1 + 65535)
  let m ← B.write m a2 (value &&& 0xff)
  pure (setReg16 r .SP a2, m)

/-- `pop` -/
def pop (r : Regs) (m : β) : Except Bus.Panic (Nat × Regs) := do
  let a := getReg16 r .SP
  let lo ← B.read m a
  let a := u16 (a + 1)
  let hi ← B.read m a
  let a := u16 (a + 1)
  pure ((hi <<< 8) ||| lo, setReg16 r .SP a)

def advance (r : Regs) (length : Nat) : Regs := { r with ip := r.ip + length }

/-- read-modify-write on (HL) -/
def rmwHL (r : Regs) (m : β) (f : Nat → Regs → Nat × Regs) : Except Bus.Panic (Regs × β) := do
  let addr := getReg16 r .HL
  let v ← B.read m addr
  let (res, r) := f v r
  let m ← B.write m addr res
  pure (r, m)

/-- `run_op(op, registers, mem, length)`: new registers, bus and status; `Op::Invalid` is `panic!` -/
def runOp (op : Op) (r : Regs) (m : β) (length : Nat) : Except Bus.Panic (Regs × β × Nat) :=
  let ok (r : Regs) (m : β) : Except Bus.Panic (Regs × β × Nat) := .ok (advance r length, m, STATUS_NORMAL)
  match op with
  | .NoOp => ok r m
  | .Load8 d s => ok (setReg r d (getReg r s)) m
  | .Load16 d v => ok (setReg16 r d v) m
  | .LoadToIndirect loc reg => do
    let m ← B.write m (getReg16 r (indirectReg loc)) (getReg r reg)
    let r := match loc with
      | .HLIncrement => { r with hl := u32 (r.hl + 1) &&& 0xffff }
      | .HLDecrement => { r with hl := u32 (r.hl + 4294967295) &&& 0xffff }
      | _ => r
    ok r m
  | .LoadImmediateToHLIndirect v => do let m ← B.write m (getReg16 r .HL) v; ok r m
  | .LoadFromIndirect reg loc => do
    let v ← B.read m (getReg16 r (indirectReg loc))
    let r := setReg r reg v
    let r := match loc with
      | .HLIncrement => { r with hl := u32 (r.hl + 1) &&& 0xffff }
      | .HLDecrement => { r with hl := u32 (r.hl + 4294967295) &&& 0xffff }
      | _ => r
    ok r m
  | .Load8Immediate reg v => ok (setReg r reg v) m
  | .Increment8 reg =>
    let res := carryAdd (getReg r reg) 1
    ok (testZero (testHalf (applyMask (setReg r reg res.1) 0xe0) res.2.2) res.1) m
  | .Decrement8 reg =>
    let res := carrySub (getReg r reg) 1
    ok (testZero (setNeg (testHalf (applyMask (setReg r reg res.1) 0xe0) res.2.2)) res.1) m
  | .Increment16 reg => ok (setReg16 r reg (u16 (getReg16 r reg + 1))) m
  | .Decrement16 reg => ok (setReg16 r reg (u16 (getReg16 r reg + 65535))) m
  | .IncrementHLIndirect => do
    let (r, m) ← rmwHL B r m fun v r =>
      let res := carryAdd v 1; (res.1, testZero (testHalf (applyMask r 0xe0) res.2.2) res.1)
    ok r m
  | .DecrementHLIndirect => do
    let (r, m) ← rmwHL B r m fun v r =>
      let res := carrySub v 1; (res.1, testZero (setNeg (testHalf (applyMask r 0xe0) res.2.2)) res.1)
    ok r m
  | .Add8 d s => ok (opAdd r (getReg r s) d) m
  | .AddWithCarry8 d s => ok (opAdc r (getReg r s) d) m
  | .AddHL src =>
    let res := carryAdd16 (getReg16 r .HL) (getReg16 r src)
    ok (testHalf (testCarry (applyMask (setReg16 r .HL res.1) 0x70) res.2.1) res.2.2) m
  | .AddAbsolute8 v => ok (opAdd r v) m
  | .AddAbsoluteWithCarry8 v => ok (opAdc r v) m
  | .AddIndirect => do let v ← B.read m (getReg16 r .HL); ok (opAdd r v) m
  | .AddIndirectWithCarry => do let v ← B.read m (getReg16 r .HL); ok (opAdc r v) m
  | .Sub8 d s => ok (opSub r (getReg r s) d) m
  | .SubWithCarry8 d s => ok (opSbc r (getReg r s) d) m
  | .SubAbsolute8 v => ok (opSub r v) m
  | .SubAbsoluteWithCarry8 v => ok (opSbc r v) m
  | .SubIndirect => do let v ← B.read m (getReg16 r .HL); ok (opSub r v) m
  | .SubIndirectWithCarry => do let v ← B.read m (getReg16 r .HL); ok (opSbc r v) m
  | .And8 d s => ok (opAnd r (getReg r s) d) m
  | .AndAbsolute8 v => ok (opAnd r v) m
  | .AndIndirect => do let v ← B.read m (getReg16 r .HL); ok (opAnd r v) m
  | .Xor8 d s => ok (opXor r (getReg r s) d) m
  | .XorAbsolute8 v => ok (opXor r v) m
  | .XorIndirect => do let v ← B.read m (getReg16 r .HL); ok (opXor r v) m
  | .Or8 d s => ok (opOr r (getReg r s) d) m
  | .OrAbsolute8 v => ok (opOr r v) m
  | .OrIndirect => do let v ← B.read m (getReg16 r .HL); ok (opOr r v) m
  | .Compare8 reg => ok (opCp r (getReg r reg)) m
  | .CompareAbsolute8 v => ok (opCp r v) m
  | .CompareIndirect => do let v ← B.read m (getReg16 r .HL); ok (opCp r v) m
  | .RotateLeftA => let res := rlThrough (getReg r .A) r.af; ok (flagsRot (setReg r .A res.1) res false) m
  | .RotateLeftCarryA => let res := rlCircular (getReg r .A); ok (flagsRot (setReg r .A res.1) res false) m
  | .RotateLeft reg => let res := rlThrough (getReg r reg) r.af; ok (flagsRot (setReg r reg res.1) res true) m
  | .RotateLeftIndirect => do
    let (r, m) ← rmwHL B r m fun v r => let res := rlThrough v r.af; (res.1, flagsRot r res true); ok r m
  | .RotateLeftCarry reg => let res := rlCircular (getReg r reg); ok (flagsRot (setReg r reg res.1) res true) m
  | .RotateLeftCarryIndirect => do
    let (r, m) ← rmwHL B r m fun v r => let res := rlCircular v; (res.1, flagsRot r res true); ok r m
  | .RotateRightA => let res := rrThrough (getReg r .A) r.af; ok (flagsRot (setReg r .A res.1) res false) m
  | .RotateRightCarryA => let res := rrCircular (getReg r .A); ok (flagsRot (setReg r .A res.1) res false) m
  | .RotateRight reg => let res := rrThrough (getReg r reg) r.af; ok (flagsRot (setReg r reg res.1) res true) m
  | .RotateRightIndirect => do
    let (r, m) ← rmwHL B r m fun v r => let res := rrThrough v r.af; (res.1, flagsRot r res true); ok r m
  | .RotateRightCarry reg => let res := rrCircular (getReg r reg); ok (flagsRot (setReg r reg res.1) res true) m
  | .RotateRightCarryIndirect => do
    let (r, m) ← rmwHL B r m fun v r => let res := rrCircular v; (res.1, flagsRot r res true); ok r m
  | .ShiftLeft reg => let res := sla (getReg r reg); ok (flagsRot (setReg r reg res.1) res true) m
  | .ShiftLeftIndirect => do
    let (r, m) ← rmwHL B r m fun v r => let res := sla v; (res.1, flagsRot r res true); ok r m
  | .ShiftRight reg => let res := sra (getReg r reg); ok (flagsRot (setReg r reg res.1) res true) m
  | .ShiftRightIndirect => do
    let (r, m) ← rmwHL B r m fun v r => let res := sra v; (res.1, flagsRot r res true); ok r m
  | .ShiftRightLogical reg => let res := srl (getReg r reg); ok (flagsRot (setReg r reg res.1) res true) m
  | .ShiftRightLogicalIndirect => do
    let (r, m) ← rmwHL B r m fun v r => let res := srl v; (res.1, flagsRot r res true); ok r m
  | .ComplementA => ok (orF (orF (setReg r .A (u8 (getReg r .A ^^^ 0xff))) 0x40) 0x20) m
  | .SetCarryFlag => ok (orF (applyMask r 0x70) 0x10) m
  | .ComplementCarryFlag => let r := applyMask r 0x60; ok { r with af := r.af ^^^ 0x10 } m
  | .BitSet reg mask => ok (setReg r reg (getReg r reg ||| mask)) m
  | .BitSetIndirect mask => do let (r, m) ← rmwHL B r m fun v r => (v ||| mask, r); ok r m
  | .BitClear reg mask => ok (setReg r reg (getReg r reg &&& ((mask ^^^ 0xff) % 256))) m
  | .BitClearIndirect mask => do let (r, m) ← rmwHL B r m fun v r => (v &&& ((mask ^^^ 0xff) % 256), r); ok r m
  | .BitTest reg mask => ok (testZero (orF (applyMask r 0xe0) 0x20) (getReg r reg &&& mask)) m
  | .BitTestIndirect mask => do
    let v ← B.read m (getReg16 r .HL)
    ok (testZero (orF (applyMask r 0xe0) 0x20) (v &&& mask)) m
  | .Swap reg => let x := swapN (getReg r reg); ok (testZero (applyMask (setReg r reg x) 0xf0) x) m
  | .SwapIndirect => do
    let (r, m) ← rmwHL B r m fun v r => let x := swapN v; (x, testZero (applyMask r 0xf0) x); ok r m
  | .LoadStackPointerToMemory addr => do
    let v := getReg16 r .SP
    let m ← B.write m addr (v &&& 0xff)
    let m ← B.write m (u16 (addr + 1)) (v >>> 8)
    ok r m
  | .LoadAToMemory addr _ => do let m ← B.write m addr (getReg r .A); ok r m
  | .LoadAFromMemory addr _ => do let v ← B.read m addr; ok (setReg r .A v) m
  | .LoadToHighMem => do let m ← B.write m (0xff00 ||| getReg r .C) (getReg r .A); ok r m
  | .LoadFromHighMem => do let v ← B.read m (0xff00 ||| getReg r .C); ok (setReg r .A v) m
  | .Push reg => do let (r, m) ← push B (getReg16 r reg) r m; ok r m
  | .Pop reg => do
    let (v, r) ← pop B r m
    let v := if reg == .AF then v &&& 0xfff0 else v
    ok (setReg16 r reg v) m
  | .AddSP off =>
    let res := addSigned (getReg16 r .SP) off
    ok (testHalf (testCarry (applyMask (setReg16 r .SP res.1) 0xf0) res.2.1) res.2.2) m
  | .LoadToStackPointer => ok (setReg16 r .SP (getReg16 r .HL)) m
  | .LoadStackOffset off =>
    let res := addSigned (getReg16 r .SP) off
    ok (testHalf (testCarry (applyMask (setReg16 r .HL res.1) 0xf0) res.2.1) res.2.2) m
  | .DAA => ok (daa r) m
  | .Jump c addr =>
    if c == .Always then .ok ({ r with ip := addr }, m, STATUS_NORMAL)
    else if condHolds r.af c then .ok ({ r with ip := addr, cycles := r.cycles + 1 }, m, STATUS_NORMAL)
    else .ok ({ r with ip := r.ip + 3 }, m, STATUS_NORMAL)
  | .JumpHL => .ok ({ r with ip := getReg16 r .HL }, m, STATUS_NORMAL)
  | .JumpRelative c off =>
    let ip := u32 (r.ip + 2)
    if condHolds r.af c then
      let ip := if off &&& 0x80 == 0 then u32 (ip + off) else u32 (ip + 4294967296 - u16 ((off ^^^ 0xff) + 1))
      .ok ({ r with ip := ip, cycles := r.cycles + 1 }, m, STATUS_NORMAL)
    else .ok ({ r with ip := ip }, m, STATUS_NORMAL)
  | .Call c addr => do
    let r := { r with ip := u32 (r.ip + 3) }
    if condHolds r.af c then
      let (r, m) ← push B (u16 r.ip) r m
      pure ({ r with ip := addr, cycles := r.cycles + 3 }, m, STATUS_NORMAL)
    else pure (r, m, STATUS_NORMAL)
  | .ResetVector v => do
    let r := { r with ip := u32 (r.ip + 1) }
    let (r, m) ← push B (u16 r.ip) r m
    pure ({ r with ip := v }, m, STATUS_NORMAL)
  | .Return c => do
    let r := { r with ip := r.ip + 1 }
    if condHolds r.af c then
      let (addr, r) ← pop B r m
      pure ({ r with ip := addr, cycles := r.cycles + 3 }, m, STATUS_NORMAL)
    else pure (r, m, STATUS_NORMAL)
  | .ReturnFromInterrupt => do
    let (addr, r) ← pop B r m
    pure ({ r with ip := addr }, m, STATUS_INTERRUPT_ENABLE_IMMEDIATE)
  | .Stop => .ok (advance r length, m, STATUS_STOP)
  | .Halt => .ok (advance r 1, m, STATUS_HALT)
  | .InterruptEnable => .ok (advance r 1, m, STATUS_INTERRUPT_ENABLE)
  | .InterruptDisable => .ok (advance r 1, m, STATUS_INTERRUPT_DISABLE)
  | .Invalid code => .error (.explicit s!"Invalid OP: {code}")

end

end GbVerif.Interp
