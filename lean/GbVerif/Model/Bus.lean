import GbVerif.Model.Cart
import GbVerif.Model.Joypad
/-
Model of `src/mem.rs` (address ladders `memory_read_byte` / `memory_write_byte`, word helpers, the fetch
view, OAM-DMA) and of the register side of `src/devices/io.rs` (`IO::get_byte` / `IO::set_byte`).
Rust panics (slice index out of range) are explicit: every access returns `Except Panic`.
Tied by the `c10`, `c11`, `c16` correspondence streams.
-/
namespace GbVerif.Bus

inductive Panic where
  | oob (what : String)      -- slice index out of range
  | overflow (what : String) -- arithmetic overflow with overflow checks on
  | explicit (what : String) -- `panic!`
deriving Repr, DecidableEq

/-- register side of the timer (`src/devices/timer.rs`), without the passage of time -/
structure TimerRegs where
  cycleCount : Nat := 0
  counter : Nat := 0
  modulo : Nat := 0
  enabledMask : Nat := 0
  clockMask : Nat := 0
  control : Nat := 0
deriving Repr, DecidableEq

/-- register side of the LCD controller (`src/devices/video/mod.rs`) -/
structure VideoRegs where
  lcdc : Nat := 0
  irqLyc : Bool := false
  irqM2 : Bool := false
  irqM1 : Bool := false
  irqM0 : Bool := false
  scy : Nat := 0
  scx : Nat := 0
  line : Nat := 144
  mode : Nat := 1
  lyc : Nat := 0
  bgp : Nat := 0
  obp0 : Nat := 0
  obp1 : Nat := 0
  wy : Nat := 0
  wx : Nat := 0
  dots : Nat := 0                -- `current_mode_dots` (timing side, advanced by `Sys.videoRun` only)
  frames : Nat := 0              -- `frames_completed`
deriving Repr, DecidableEq

structure Io where
  joy : Joypad.State := Joypad.init
  sb : Nat := 0
  sc : Nat := 0
  serialOut : List Nat := []     -- bytes written to stdout, oldest first
  timer : TimerRegs := {}
  ifl : Nat := 0                 -- `interrupt_flag`
  ie : Nat := 0                  -- `interrupt_mask` (5 bits)
  ieUpper : Nat := 0             -- `interrupt_mask_upper` (bits 5..7 as written)
  video : VideoRegs := {}
deriving Repr

/-- `VideoState::check_current_line` -/
def VideoRegs.checkLine (v : VideoRegs) : Nat := if v.lyc == v.line && v.irqLyc then 2 else 0

/-- `VideoState::get_lcd_status` -/
def VideoRegs.stat (v : VideoRegs) : Nat :=
  (if v.irqLyc then 0x40 else 0) ||| (if v.irqM2 then 0x20 else 0) ||| (if v.irqM1 then 0x10 else 0) |||
  (if v.irqM0 then 0x08 else 0) ||| (if v.lyc == v.line then 4 else 0) ||| v.mode

/-- `Timer::set_timer_control`; returns the new registers and the interrupt flag -/
def TimerRegs.setControl (t : TimerRegs) (flags : Nat) : TimerRegs × Nat :=
  let old := t.cycleCount &&& t.clockMask &&& t.enabledMask
  let en := if flags &&& 4 != 0 then 0xffff else 0
  let cm := match flags &&& 3 with
    | 1 => 1 <<< 3 | 2 => 1 <<< 5 | 3 => 1 <<< 7 | _ => 1 <<< 9
  let t' := { t with control := flags, enabledMask := en, clockMask := cm }
  if old != 0 && (t'.cycleCount &&& cm &&& en) == 0 then
    if t'.counter == 0xff then ({ t' with counter := t'.modulo }, 4) else ({ t' with counter := (t'.counter + 1) % 256 }, 0)
  else (t', 0)

/-- `IO::set_byte(addr, value)`; `addr` is `0xFF00 | low`, only the low byte matters -/
def Io.setByte (io : Io) (addr value : Nat) : Io :=
  match addr &&& 0xff with
  | 0x00 => { io with joy := Joypad.step io.joy (.select value) }
  | 0x01 => { io with sb := value }
  | 0x02 => { io with sc := value, serialOut := if value &&& 0x80 != 0 then io.serialOut ++ [io.sb] else io.serialOut }
  | 0x04 => { io with timer := { io.timer with cycleCount := 0 } }
  | 0x05 => { io with timer := { io.timer with counter := value } }
  | 0x06 => { io with timer := { io.timer with modulo := value } }
  | 0x07 => let (t, f) := io.timer.setControl value; { io with timer := t, ifl := io.ifl ||| f }
  | 0x0f => { io with ifl := value &&& 0x1f }
  | 0x40 => { io with video := { io.video with lcdc := value } }
  | 0x41 =>
    let v := { io.video with irqLyc := value &&& 0x40 != 0, irqM2 := value &&& 0x20 != 0,
                             irqM1 := value &&& 0x10 != 0, irqM0 := value &&& 0x08 != 0 }
    { io with video := v, ifl := io.ifl ||| v.checkLine }
  | 0x42 => { io with video := { io.video with scy := value } }
  | 0x43 => { io with video := { io.video with scx := value } }
  | 0x45 => let v := { io.video with lyc := value }; { io with video := v, ifl := io.ifl ||| v.checkLine }
  | 0x47 => { io with video := { io.video with bgp := value } }
  | 0x48 => { io with video := { io.video with obp0 := value } }
  | 0x49 => { io with video := { io.video with obp1 := value } }
  | 0x4a => { io with video := { io.video with wy := value } }
  | 0x4b => { io with video := { io.video with wx := value } }
  | _ => io

/-- `IO::get_byte(addr)` -/
def Io.getByte (io : Io) (addr : Nat) : Nat :=
  match addr &&& 0xff with
  | 0x00 => Joypad.getValue io.joy
  | 0x03 => 0xff
  | 0x04 => (io.timer.cycleCount &&& 0xff00) >>> 8
  | 0x05 => io.timer.counter
  | 0x06 => io.timer.modulo
  | 0x07 => io.timer.control
  | 0x0f => io.ifl ||| 0xe0
  | 0x40 => io.video.lcdc
  | 0x41 => io.video.stat
  | 0x42 => io.video.scy
  | 0x43 => io.video.scx
  | 0x44 => io.video.line
  | 0x45 => io.video.lyc
  | 0x47 => io.video.bgp
  | 0x48 => io.video.obp0
  | 0x49 => io.video.obp1
  | 0x4a => io.video.wy
  | 0x4b => io.video.wx
  | _ => 0xff

/-- `MemoryAreas` -/
structure State where
  cart : Cart.State
  romLen : Nat
  rom : Nat → Nat               -- immutable ROM image (index < romLen)
  vram : Array Nat              -- 0x2000
  cram : Array Nat              -- header RAM size
  wram : Array Nat              -- 0x2000 (bank 0 + bank `wram_bank` = 1)
  oam : Array Nat               -- 0xa0
  hram : Array Nat              -- 127
  io : Io := {}
  dmaReg : Nat := 0xff          -- `oam_dma_register`
  dma : Option (Nat × Nat) := none   -- `oam_dma`: (source, current_offset)

def rd (what : String) (a : Array Nat) (i : Nat) : Except Panic Nat :=
  if h : i < a.size then .ok a[i] else .error (.oob what)

def wr (what : String) (a : Array Nat) (i v : Nat) : Except Panic (Array Nat) :=
  if h : i < a.size then .ok (a.set i v) else .error (.oob what)

/-- `memory_read_byte(areas, addr)`, `addr < 65536` -/
def read (s : State) (addr : Nat) : Except Panic Nat :=
  if addr < 0x4000 then
    if addr < s.romLen then .ok (s.rom addr) else .error (.oob "rom0")
  else if addr < 0x8000 then
    let i := 0x4000 * Cart.getRomBank s.cart + (addr &&& 0x3fff)
    if i < s.romLen then .ok (s.rom i) else .error (.oob "romx")
  else if addr < 0xa000 then rd "vram" s.vram (addr &&& 0x1fff)
  else if addr < 0xc000 then
    let i := 0x2000 * Cart.getRamBank s.cart + (addr &&& 0x1fff)
    if s.cram.size == 0 then .ok 0xff
    else if i ≥ s.cram.size then .ok 0xff
    else rd "cram" s.cram i
  else if addr < 0xd000 then rd "wram0" s.wram (addr &&& 0xfff)
  else if addr < 0xe000 then rd "wramx" s.wram (0x1000 + (addr &&& 0xfff))
  else if addr < 0xfe00 then .ok 0
  else if addr < 0xfea0 then rd "oam" s.oam (addr &&& 0xff)
  else if addr < 0xff00 then .ok 0
  else if addr < 0xff80 then
    if addr == 0xff46 then .ok s.dmaReg else .ok (s.io.getByte addr)
  else if addr == 0xffff then .ok (s.io.ie ||| s.io.ieUpper)
  else rd "hram" s.hram (addr &&& 0x7f)

/-- `memory_write_byte(areas, addr, value)` -/
def write (s : State) (addr value : Nat) : Except Panic State :=
  if addr < 0x8000 then .ok { s with cart := Cart.writeRom s.cart addr value }
  else if addr < 0xa000 then do let a ← wr "vram" s.vram (addr &&& 0x1fff) value; pure { s with vram := a }
  else if addr < 0xc000 then
    let i := 0x2000 * Cart.getRamBank s.cart + (addr &&& 0x1fff)
    if s.cram.size == 0 then .ok s
    else if i < s.cram.size then do
      let a ← wr "cram" s.cram i value
      pure { s with cram := a }
    else .ok s
  else if addr < 0xd000 then do let a ← wr "wram0" s.wram (addr &&& 0xfff) value; pure { s with wram := a }
  else if addr < 0xe000 then do let a ← wr "wramx" s.wram (0x1000 + (addr &&& 0xfff)) value; pure { s with wram := a }
  else if addr < 0xfe00 then .ok s
  else if addr < 0xfea0 then do let a ← wr "oam" s.oam (addr &&& 0xff) value; pure { s with oam := a }
  else if addr < 0xff00 then .ok s
  else if addr < 0xff80 then
    if addr == 0xff46 then .ok { s with dmaReg := value, dma := some (value <<< 8, 0) }
    else .ok { s with io := s.io.setByte addr value }
  else if addr == 0xffff then .ok { s with io := { s.io with ie := value &&& 0x1f, ieUpper := value &&& 0xe0 } }
  else do let a ← wr "hram" s.hram (addr &&& 0x7f) value; pure { s with hram := a }

/-- `memory_read_word`: low byte at `addr`, high byte at `addr + 1` (wrapping) -/
def readWord (s : State) (addr : Nat) : Except Panic Nat := do
  let lo ← read s addr
  let hi ← read s ((addr + 1) % 65536)
  pure ((hi <<< 8) ||| lo)

/-- `memory_write_word` -/
def writeWord (s : State) (addr value : Nat) : Except Panic State := do
  let s ← write s addr (value &&& 0xff)
  write s ((addr + 1) % 65536) (value >>> 8)

/-- one iteration of the OAM-DMA copy loop of `MemoryAreas::run_clock_cycles` -/
def dmaCopyByte (s : State) (source off : Nat) : Except Panic State := do
  let v ← read s ((source + off) % 65536)
  write s (0xfe00 + off) v

def dmaLoop (s : State) (source off : Nat) : Nat → Except Panic (State × Nat)
  | 0 => .ok (s, off)
  | n+1 => do
    let s ← dmaCopyByte s source off
    dmaLoop s source (off + 1) n

/-- the DMA part of `MemoryAreas::run_clock_cycles(cycles)` -/
def runDma (s : State) (clocks : Nat) : Except Panic State :=
  match s.dma with
  | none => .ok s
  | some (source, off) => do
    let n := min (0xa0 - off) (clocks / 4)
    let (s, off) ← dmaLoop s source off n
    pure { s with dma := if off < 0xa0 then some (source, off) else none }

/-- `MemoryAreas::with_rom_file`: buffers sized from the header -/
def create (kind : Cart.Kind) (romBanks ramBytes : Nat) (rom : Nat → Nat) : State where
  cart := Cart.init kind romBanks (ramBytes / 0x2000)
  romLen := romBanks * 0x4000
  rom := rom
  vram := Array.replicate 0x2000 0
  cram := Array.replicate ramBytes 0
  wram := Array.replicate 0x2000 0
  oam := Array.replicate 0xa0 0
  hram := Array.replicate 127 0

end GbVerif.Bus
