import GbVerif.Model.Cpu
/-
Model of `src/emulator.rs::Core`: `handle_interrupt`, `run_interp`, `run_code_block`, `update`.
The passage of device time (`MemoryAreas::run_clock_cycles`) is a parameter `Dev`, so that the control
skeleton can be stated and proved for any device behaviour and instantiated with the device models.
-/
namespace GbVerif.Core
open GbVerif.Interp

inductive RunState where | Run | Stop | Halt
deriving DecidableEq, Repr, Inhabited

inductive Ime where | Enabled | Disabled | EnableNext
deriving DecidableEq, Repr, Inhabited

structure State where
  regs : Regs
  bus : Bus.State
  ime : Ime := .Disabled
  run : RunState := .Run
  lastBlockCycles : Nat := 0
  delivered : Nat := 0      -- ghost: clock cycles handed to the devices so far
  charged : Nat := 0        -- ghost: machine cycles charged to the CPU so far (ops, +5 per dispatch, +1 per halted step)

/-- `MemoryAreas::run_clock_cycles` -/
abbrev Dev := Bus.State → Nat → Except Bus.Panic Bus.State

def activeInterrupts (b : Bus.State) : Nat := b.io.ifl &&& b.io.ie

/-- `Core::handle_interrupt` -/
def handleInterrupt (c : State) : Except Bus.Panic State :=
  if activeInterrupts c.bus == 0 then .ok c
  else
    let c := { c with run := .Run }
    if c.ime != .Enabled then .ok c
    else do
      let c := { c with ime := .Disabled }
      let ip := c.regs.ip
      let sp1 := u32 (c.regs.sp + 4294967295) &&& 0xffff
      let bus ← Bus.write c.bus (sp1 % 65536) ((ip >>> 8) % 256)
      let ints := activeInterrupts bus
      let sp2 := u32 (sp1 + 4294967295) &&& 0xffff
      let bus ← Bus.write bus (sp2 % 65536) (ip &&& 0xff)
      let (vector, clear) : Nat × Nat :=
        if ints == 0 then (0x00, 0x00)
        else if ints &&& 1 != 0 then (0x40, 0x01)
        else if ints &&& 2 != 0 then (0x48, 0x02)
        else if ints &&& 4 != 0 then (0x50, 0x04)
        else if ints &&& 8 != 0 then (0x58, 0x08)
        else (0x60, 0x10)
      let bus := { bus with io := { bus.io with ifl := bus.io.ifl &&& ((clear ^^^ 0xff) % 256) } }
      pure { c with bus := bus, regs := { c.regs with sp := sp2, cycles := c.regs.cycles + 5, ip := vector },
                    charged := c.charged + 5 }

/-- the shared tail of `run_interp` / `run_code_block`: consume cycles, catch up devices, dispatch -/
def catchUp (dev : Dev) (c : State) (record : Bool) : Except Bus.Panic State := do
  let cycles := c.regs.cycles
  let c := { c with regs := { c.regs with cycles := 0 }, lastBlockCycles := if record then cycles else c.lastBlockCycles }
  let bus ← dev c.bus (cycles * 4)
  handleInterrupt { c with bus := bus, delivered := c.delivered + cycles * 4 }

/-- `Core::run_interp` -/
def runInterp (dev : Dev) (c : State) : Except Bus.Panic State := do
  let (r, b, status, _) ← Cpu.runNextOp c.regs c.bus
  let charged := c.charged + (r.cycles - c.regs.cycles)
  let ime := if c.ime == .EnableNext then .Enabled else c.ime
  let c := { c with regs := r, bus := b, ime := ime, charged := charged }
  let c :=
    if status == STATUS_STOP then { c with run := .Stop }
    else if status == STATUS_HALT then { c with run := .Halt }
    else if status == STATUS_INTERRUPT_DISABLE then { c with ime := .Disabled }
    else if status == STATUS_INTERRUPT_ENABLE then (if c.ime == .Disabled then { c with ime := .EnableNext } else c)
    else if status == STATUS_INTERRUPT_ENABLE_IMMEDIATE then { c with ime := .Enabled }
    else c
  catchUp dev c false

/-- `Core::run_code_block` with the interpreter as engine (`cfg(not(feature = "jit"))`, and PC ≥ 0x8000 with jit) -/
def runCodeBlockInterp (dev : Dev) (c : State) : Except Bus.Panic State := do
  let (r, b, status) ← Cpu.runCodeBlock c.regs c.bus 65536
  let charged := c.charged + (r.cycles - c.regs.cycles)
  let c := { c with regs := r, bus := b, charged := charged }
  let c :=
    if status == STATUS_STOP then { c with run := .Stop }
    else if status == STATUS_HALT then { c with run := .Halt }
    else if status == STATUS_INTERRUPT_DISABLE then { c with ime := .Disabled }
    else if status == STATUS_INTERRUPT_ENABLE || status == STATUS_INTERRUPT_ENABLE_IMMEDIATE then { c with ime := .Enabled }
    else c
  catchUp dev c true

/-- `Core::update` without the `jit` feature -/
def update (dev : Dev) (c : State) : Except Bus.Panic State :=
  match c.run with
  | .Run => runInterp dev c
  | _ => do
    let bus ← dev c.bus 4
    handleInterrupt { c with bus := bus, delivered := c.delivered + 4, charged := c.charged + 1 }

end GbVerif.Core
