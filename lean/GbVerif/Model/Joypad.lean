/-
Model of `src/devices/joypad.rs` (hand-written, tied by the `joy` correspondence
stream).  `u8` values are `Nat` kept below 256 by the operations themselves.
-/
namespace GbVerif.Joypad

structure State where
  action : Nat        -- `action_state`
  direction : Nat     -- `direction_state`
  selAction : Bool    -- `select_action`
  selDirection : Bool -- `select_direction`
  irq : Bool          -- `next_interrupt == InterruptFlag::joypad()`
deriving DecidableEq, Repr

def init : State := ⟨0, 0, false, false, false⟩

/-- `Joypad::get_value` -/
def getValue (s : State) : Nat :=
  let v := 0xc0
  let v := if s.selDirection then v ||| 0x10 ||| s.direction else v
  let v := if s.selAction then v ||| 0x20 ||| s.action else v
  (v ^^^ 0xff) % 256

/-- the eight `Button` variants, in declaration order A,B,Select,Start,Right,Left,Up,Down -/
inductive Action where
  | press (k : Fin 8)
  | release (k : Fin 8)
  | select (v : Nat)      -- `set_value(v)`
deriving DecidableEq, Repr

def bitOf (k : Fin 8) : Nat := 1 <<< (k.val % 4)

/-- `prev_value & !new_value != 0` on the low nibble (post-fix code). -/
def fell (prev new : Nat) : Bool := (prev &&& (new ^^^ 0xff)) % 256 != 0

/-- `set_value` once the two select bits have been extracted from the written byte -/
def stepSel (s : State) (selDir selAct : Bool) : State :=
  let prev := getValue s &&& 0x0f
  let s' := { s with selDirection := selDir, selAction := selAct }
  let new := getValue s' &&& 0x0f
  if fell prev new then { s' with irq := true } else s'

def step (s : State) : Action → State
  | .press k =>
    let prev := getValue s &&& 0x0f
    let s' := if k.val < 4 then { s with action := s.action ||| bitOf k }
              else { s with direction := s.direction ||| bitOf k }
    let new := getValue s' &&& 0x0f
    if fell prev new then { s' with irq := true } else s'
  | .release k =>
    if k.val < 4 then { s with action := s.action &&& (bitOf k ^^^ 0xff) }
    else { s with direction := s.direction &&& (bitOf k ^^^ 0xff) }
  | .select v => stepSel s (v &&& 0x10 == 0) (v &&& 0x20 == 0)

/-- `get_interrupt`: returns the flag and clears it -/
def takeIrq (s : State) : Bool × State := (s.irq, { s with irq := false })

end GbVerif.Joypad
