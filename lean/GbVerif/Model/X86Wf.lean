import GbVerif.Model.X86
import GbVerif.Gen.EmitTable
/-
Static well-formedness of the emitted code of ONE guest instruction (C01, `emit_wf`): a path-sensitive check over the
decoded template — forward jumps to instruction boundaries, host stack discipline, bus-call protocol, and which host
registers may be written.  Executable, so the kernel evaluates it on the regenerated table.
-/
namespace GbVerif.X86Wf
open GbVerif.X86

/-- registers an instruction writes (64-bit register numbers; partial writes count) -/
def writes : Instr → List Nat
  | .alu8 op d _ => if op == .cmp then [] else [match d with | .lo r => r | .hi r => r]
  | .alu8i op d _ => if op == .cmp then [] else [match d with | .lo r => r | .hi r => r]
  | .aluI op _ d _ _ => if op == .cmp then [] else [d]
  | .alu op _ d _ => if op == .cmp then [] else [d]
  | .not8 r | .incdec8 _ r | .sh8 _ r _ | .mov8 r _ | .mov8i r _ | .sete r => [match r with | .lo x => x | .hi x => x]
  | .incdec16 _ r | .sh32 _ r _ | .mov _ r _ | .movi16 r _ | .movabs r _ | .load _ r _ _ | .pop r => [r]
  | .callRax => [0, 1, 2, 6, 7, 8, 9, 10, 11]
  | _ => []

/-- the only ways a template may write r14 (the block's return status): a status move and the zero-flag idiom -/
def r14WriteOk : Instr → Bool
  | .mov8i (.lo 14) _ => true
  | .sete (.lo 14) => true
  | .sh8 .ror (.lo 14) 1 => true
  | _ => false

structure Abs where
  depth : Nat := 0            -- slots pushed by this template so far
  raxPtr : Bool := false      -- rax holds a bus-helper pointer
  rdiMem : Bool := false      -- rdi holds the memory base
deriving DecidableEq

def indexOf (code : List (Nat × Instr)) (endOff off : Nat) : Option Nat :=
  if off == endOff then some code.length else code.findIdx? (fun p => p.1 == off)

/-- abstract execution of one instruction; `none` = violation -/
def absStep (ins : Instr) (a : Abs) : Option Abs :=
  let w := writes ins
  -- rsp, rbp and r8–r11 are never written by a template (calls clobber r8–r11, which is why nothing lives there)
  if ins != .callRax && w.any (fun r => r == 4 || r == 5 || (8 ≤ r && r ≤ 11)) then none
  else if w.contains 14 && !r14WriteOk ins then none
  else
    let a' : Abs := { a with raxPtr := if w.contains 0 then false else a.raxPtr, rdiMem := if w.contains 7 then false else a.rdiMem }
    match ins with
    | .push _ | .pushf => some { a' with depth := a.depth + 1 }
    | .pop _ | .popf => if a.depth == 0 then none else some { a' with depth := a.depth - 1 }
    | .load _ _ base disp => if base == 4 && disp / 8 < a.depth then some a' else none
    | .store _ base disp _ => if base == 4 && disp / 8 < a.depth then some a' else none
    | .store8 base disp _ => if base == 4 && disp / 8 < a.depth then some a' else none
    | .movabs 0 p => if 513 ≤ p && p ≤ 517 then some { a' with raxPtr := true } else none
    | .movabs 7 512 => some { a' with rdiMem := true }
    | .movabs _ _ => none
    | .callRax => if a.raxPtr && a.rdiMem then some { a with raxPtr := false, rdiMem := false } else none
    | .ret | .jmpReg _ => none
    | _ => some a'

/-- every path from instruction `i` to the end of the template satisfies the discipline and ends with a balanced stack -/
def wfFrom (code : List (Nat × Instr)) (endOff : Nat) : Nat → Abs → Nat → Bool
  | _, _, 0 => false
  | i, a, fuel+1 =>
    match code[i]? with
    | none => i == code.length && a.depth == 0
    | some (_, ins) =>
      let nextOff := match code[i+1]? with | some (o, _) => o | none => endOff
      match absStep ins a with
      | none => false
      | some a' =>
        match ins with
        | .jcc _ rel =>
          rel < 128 && (match indexOf code endOff (nextOff + rel) with
            | some j => j > i && wfFrom code endOff (i+1) a' fuel && wfFrom code endOff j a' fuel
            | none => false)
        | .jmp rel =>
          rel < 128 && (match indexOf code endOff (nextOff + rel) with
            | some j => j > i && wfFrom code endOff j a' fuel
            | none => false)
        | _ => wfFrom code endOff (i+1) a' fuel

def wfTemplate (tokens : List Nat) : Bool :=
  match decodeCode tokens with
  | none => false
  | some code => wfFrom code (bytesOf tokens) 0 {} (code.length + 2)

/-- registers pushed by the prologue / popped by the epilogue, in order -/
def pushes (code : List (Nat × Instr)) : List Nat := code.filterMap fun p => match p.2 with | .push r => some r | _ => none
def pops (code : List (Nat × Instr)) : List Nat := code.filterMap fun p => match p.2 with | .pop r => some r | _ => none

end GbVerif.X86Wf
