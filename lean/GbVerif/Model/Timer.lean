/-
Model of `src/devices/timer.rs` (hand-written, tied by the `c13.*` correspondence streams).

`u8`/`u32` fields are `Nat`.  A `u8` *argument* `v` is represented by `v % 256` at the point where the
method stores it (the Rust type makes any other value unrepresentable).  `cycle_count` is a `u32` that the
code keeps below 0x10000 *between* calls only: inside the `while` loop of `run_cycles` it is incremented
without masking and `&= 0xffff` happens once, after the loop.  The model does the same (`tick` does not
mask, `run` masks at the end).

Rust panics: the harness profile has overflow checks on.  `self.cycle_count += cycles` (disabled fast
path) and the repeated `self.cycle_count += 1` (loop) both overflow the `u32` exactly when
`cycle_count + cycles ≥ 2^32`; `runCycles` returns `none` in that case.  `ClockCycles::as_u32` truncates
the `usize` argument (`% 2^32`).
-/
namespace GbVerif.Timer

structure State where
  cycleCount : Nat      -- `cycle_count: u32`
  counter : Nat         -- `counter: u8`  (TIMA)
  modulo : Nat          -- `modulo: u8`   (TMA)
  enabledMask : Nat     -- `enabled_mask: u32`
  timerClockMask : Nat  -- `timer_clock_mask: u32`
  controlValue : Nat    -- `control_value: u8` (TAC as written)
deriving DecidableEq, Repr

/-- `Timer::new` -/
def init : State := ⟨0, 0, 0, 0, 0, 0⟩

/-- `reset_divider` (any write to DIV) -/
def resetDivider (s : State) : State := { s with cycleCount := 0 }

/-- `get_divider`: `((cycle_count & 0xff00) >> 8) as u8` -/
def getDivider (s : State) : Nat := ((s.cycleCount &&& 0xff00) >>> 8) % 256

/-- `set_counter` -/
def setCounter (s : State) (v : Nat) : State := { s with counter := v % 256 }

def getCounter (s : State) : Nat := s.counter

/-- `set_modulo` -/
def setModulo (s : State) (v : Nat) : State := { s with modulo := v % 256 }

def getModulo (s : State) : Nat := s.modulo

def getTimerControl (s : State) : Nat := s.controlValue

/-- `increment_counter`; the Bool is `InterruptFlag::timer()` (true) / `empty()` (false) -/
def incrementCounter (s : State) : State × Bool :=
  if s.counter == 0xff then ({ s with counter := s.modulo }, true)
  else ({ s with counter := (s.counter + 1) % 256 }, false)

/-- the `match flags & 3` of `set_timer_control` -/
def clockMaskOf (flags : Nat) : Nat :=
  match flags &&& 3 with
  | 1 => 1 <<< 3
  | 2 => 1 <<< 5
  | 3 => 1 <<< 7
  | _ => 1 <<< 9

/-- `if flags & 4 != 0 { 0xffff } else { 0 }` -/
def enabledMaskOf (flags : Nat) : Nat := if flags &&& 4 != 0 then 0xffff else 0

/-- `set_timer_control` -/
def setTimerControl (s : State) (v : Nat) : State × Bool :=
  let flags := v % 256
  let oldMaskedBit := s.cycleCount &&& s.timerClockMask &&& s.enabledMask
  let s' := { s with controlValue := flags, enabledMask := enabledMaskOf flags, timerClockMask := clockMaskOf flags }
  if oldMaskedBit != 0 then
    let newMaskedBit := s'.cycleCount &&& s'.timerClockMask &&& s'.enabledMask
    if newMaskedBit == 0 then incrementCounter s' else (s', false)
  else (s', false)

/-- one trip of the `while to_increment > 0` loop (no masking of `cycle_count`, no look at `enabled_mask`) -/
def tick (s : State) : State × Bool :=
  let maskPrev := s.cycleCount &&& s.timerClockMask
  let s' := { s with cycleCount := s.cycleCount + 1 }
  let maskNew := s'.cycleCount &&& s'.timerClockMask
  if maskPrev != 0 && maskNew == 0 then incrementCounter s' else (s', false)

/-- the loop: `to_increment` trips, `flag |= …` -/
def loop : Nat → State → Bool → State × Bool
  | 0, s, f => (s, f)
  | n + 1, s, f => let r := tick s; loop n r.1 (f || r.2)

/-- `run_cycles` once `cycles: u32` is known and no `u32` overflow occurs -/
def run (cycles : Nat) (s : State) : State × Bool :=
  if s.enabledMask == 0 then
    ({ s with cycleCount := (s.cycleCount + cycles) &&& 0xffff }, false)
  else
    let r := loop cycles s false
    ({ r.1 with cycleCount := r.1.cycleCount &&& 0xffff }, r.2)

/-- `run_cycles(ClockCycles(clock))`; `none` = panic "attempt to add with overflow" -/
def runCycles (s : State) (clock : Nat) : Option (State × Bool) :=
  let cycles := clock % 2 ^ 32
  if s.cycleCount + cycles < 2 ^ 32 then some (run cycles s) else none

/-- the register/time operations the bus can perform on the timer -/
inductive Op where
  | div             -- write to DIV (0xFF04), value ignored
  | tima (v : Nat)  -- write to TIMA (0xFF05)
  | tma (v : Nat)   -- write to TMA (0xFF06)
  | tac (v : Nat)   -- write to TAC (0xFF07)
  | run (n : Nat)   -- `run_cycles` with a batch of `n` clocks (`n + cycle_count < 2^32`)
deriving DecidableEq, Repr

/-- one operation: new state and the interrupt flag it returned -/
def apply (s : State) : Op → State × Bool
  | .div => (resetDivider s, false)
  | .tima v => (setCounter s v, false)
  | .tma v => (setModulo s v, false)
  | .tac v => setTimerControl s v
  | .run n => run n s

/-- a history of operations: final state and the flags returned, in order -/
def exec : List Op → State → State × List Bool
  | [], s => (s, [])
  | op :: ops, s => let r := apply s op; let q := exec ops r.1; (q.1, r.2 :: q.2)

end GbVerif.Timer
