import GbVerif.Model.JitSp
/-
C01 (status returned by translated code): r14b is the status byte a translated block hands back to
`Core::run_code_block`, which reads it by its class (STOP, HALT, DI, EI — delayed or immediate —, anything else = normal).
A template writes r14b either with a status move (`mov r14b, imm`) or with the zero-flag idiom (`sete r14b ; ror r14b, 1`,
values 0 / 0x80: class normal); a block starts with r14 = 0.  Over every path through the code of an instruction, the class
of what the path leaves in r14b (normal if it leaves r14b alone) must be the class of the status the interpreter model
returns for that instruction.
-/
namespace GbVerif.JitStatus
open GbVerif.X86 GbVerif.JitCycles

def statusClass (st : Nat) : Nat :=
  if st == 1 then 1 else if st == 2 then 2 else if st == 3 then 3 else if st == 4 || st == 5 then 4 else 0

/-- status classes over the paths from instruction `i` to the end of the code; `cur` = class of what r14b holds now
(0 = untouched so far or idiom value) -/
def pathClasses (code : List (Nat × Instr)) (endOff : Nat) : Nat → Nat → Nat → Option (List Nat)
  | _, 0, _ => none
  | i, fuel+1, cur =>
    match code[i]? with
    | none => if i == code.length then some [cur] else none
    | some (_, ins) =>
      let nextOff := match code[i+1]? with | some (o, _) => o | none => endOff
      match ins with
      | .jcc _ rel =>
        if rel ≥ 128 then none else
        match indexOf code endOff (nextOff + rel) with
        | some j => if j ≤ i then none else
          match pathClasses code endOff (i+1) fuel cur, pathClasses code endOff j fuel cur with
          | some a, some b => some (a ++ b)
          | _, _ => none
        | none => none
      | .jmp rel =>
        if rel ≥ 128 then none else
        match indexOf code endOff (nextOff + rel) with
        | some j => if j ≤ i then none else pathClasses code endOff j fuel cur
        | none => none
      | .mov8i (.lo 14) v => if v ≥ 256 then none else pathClasses code endOff (i+1) fuel (statusClass v)
      | .sete (.lo 14) =>
        -- the idiom: must be followed at once by `ror r14b, 1`
        match code[i+1]? with
        | some (_, .sh8 .ror (.lo 14) 1) => pathClasses code endOff (i+2) fuel 0
        | _ => none
      | .sh8 _ (.lo 14) _ => none
      | _ => pathClasses code endOff (i+1) fuel cur

def jitStatus (tokens : List Nat) : Option (List Nat) :=
  match decodeCode tokens with
  | none => none
  | some code => (pathClasses code (bytesOf tokens) 0 (code.length + 2) 0).map norm

def interpStatusWith (op : Op) (len f : Nat) : Option Nat :=
  match Interp.runOp nullBus op { af := f, sp := 0x8000 } () len with
  | .ok (_, _, st) => some (statusClass st)
  | .error _ => none

def interpStatus (op : Op) (len : Nat) : Option (List Nat) :=
  match interpStatusWith op len 0x00, interpStatusWith op len 0xf0 with
  | some a, some b => some (norm [a, b])
  | _, _ => none

end GbVerif.JitStatus
