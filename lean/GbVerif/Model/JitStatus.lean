import GbVerif.Model.JitSp
import GbVerif.Model.JitPaths
/-
C01 (status returned by translated code): r14b is the status byte a translated block hands back to
`Core::run_code_block`, which reads it by its class (STOP, HALT, DI, EI — delayed or immediate —, anything else = normal).
A template writes r14b either with a status move (`mov r14b, imm`) or with the zero-flag idiom (`sete r14b ; ror r14b, 1`,
values 0 / 0x80: class normal); a block starts with r14 = 0.  Over every path through the code of an instruction, the class
of what the path leaves in r14b (normal if it leaves r14b alone) must be the class of the status the interpreter model
returns for that instruction.  Walked by `JitPaths.paths`; soundness for executions of the x86 model:
`Proofs/X86Status.lean`.
-/
namespace GbVerif.JitStatus
open GbVerif.X86 GbVerif.JitCycles

def statusClass (st : Nat) : Nat :=
  if st == 1 then 1 else if st == 2 then 2 else if st == 3 then 3 else if st == 4 || st == 5 then 4 else 0

/-- abstract state: the class of what r14b holds now (0 = untouched so far or idiom value); 100 = `sete r14b` has just
run and the `ror r14b, 1` of the idiom must come next -/
def pending : Nat := 100

/-- transfer function; any other write to r14 is refused, and so is anything but the rotate after `sete r14b` -/
def trSt (ins : Instr) (cur : Nat) : Option Nat :=
  match ins with
  | .mov8i (.lo 14) v => if cur == pending || v ≥ 256 then none else some (statusClass v)
  | .sete (.lo 14) => if cur == pending then none else some pending
  | .sh8 .ror (.lo 14) 1 => if cur == pending then some 0 else none
  | ins => if cur == pending || destReg ins == some 14 then none else some cur

def jitStatus (tokens : List Nat) : Option (List Nat) :=
  JitPaths.analyse trSt 0 (fun cur => if cur == pending then none else some cur) tokens

def interpStatusWith (op : Op) (len f : Nat) : Option Nat :=
  match Interp.runOp nullBus op { af := f, sp := 0x8000 } () len with
  | .ok (_, _, st) => some (statusClass st)
  | .error _ => none

def interpStatus (op : Op) (len : Nat) : Option (List Nat) :=
  match interpStatusWith op len 0x00, interpStatusWith op len 0xf0 with
  | some a, some b => some (norm [a, b])
  | _, _ => none

end GbVerif.JitStatus
