import GbVerif.Model.X86
import GbVerif.Model.Interp
import GbVerif.Gen.EmitTable
import GbVerif.Gen.DecoderOps
/-
C02: the machine cycles a translated instruction charges, read off the emitted code: the code of one guest
instruction is a DAG of forward `rel8` jumps; along every path the charge is the sum of the immediates of
`add r15, imm8` (r15 = accumulated cycles; nothing else writes r15).
-/
namespace GbVerif.JitCycles
open GbVerif.X86

/-- index of the instruction that starts at byte offset `off` (`code.length` for the end of the code) -/
def indexOf (code : List (Nat × Instr)) (endOff off : Nat) : Option Nat :=
  if off == endOff then some code.length else code.findIdx? (fun p => p.1 == off)

/-- does the instruction write r15 in any way other than `add r15, imm8`? -/
def writesR15Otherwise : Instr → Bool
  | .aluI .add .q 15 [_] true => false
  | .aluI op _ 15 _ _ => op != .cmp
  | .alu op _ 15 _ => op != .cmp
  | .alu8 op (.lo 15) _ => op != .cmp
  | .alu8i op (.lo 15) _ => op != .cmp
  | .not8 (.lo 15) | .incdec8 _ (.lo 15) | .incdec16 _ 15 | .sh8 _ (.lo 15) _ | .sh32 _ 15 _ => true
  | .mov8 (.lo 15) _ | .mov8i (.lo 15) _ | .mov _ 15 _ | .movi16 15 _ | .movabs 15 _ | .load _ 15 _ _ | .sete (.lo 15) | .pop 15 => true
  | _ => false

/-- all path sums from instruction `i` to the end of the code; `none` on a malformed jump (backward, into the middle
of an instruction, or symbolic displacement) or a write to r15 that is not a cycle increment -/
def pathSums (code : List (Nat × Instr)) (endOff : Nat) : Nat → Nat → Option (List Nat)
  | _, 0 => none
  | i, fuel+1 =>
    match code[i]? with
    | none => if i == code.length then some [0] else none
    | some (off, ins) =>
      let nextOff := match code[i+1]? with | some (o, _) => o | none => endOff
      if writesR15Otherwise ins then none else
      match ins with
      | .jcc _ rel =>
        if rel ≥ 128 then none else
        match indexOf code endOff (nextOff + rel) with
        | some j => if j ≤ i then none else
          match pathSums code endOff (i+1) fuel, pathSums code endOff j fuel with
          | some a, some b => some (a ++ b)
          | _, _ => none
        | none => none
      | .jmp rel =>
        if rel ≥ 128 then none else
        match indexOf code endOff (nextOff + rel) with
        | some j => if j ≤ i then none else pathSums code endOff j fuel
        | none => none
      | .aluI .add .q 15 [n] true =>
        if n ≥ 128 then none else (pathSums code endOff (i+1) fuel).map fun l => l.map (· + n)
      | .callRax | .push _ | .pop _ | .pushf | .popf | _ => pathSums code endOff (i+1) fuel

/-- insertion into a sorted duplicate-free list -/
def insertSorted (x : Nat) : List Nat → List Nat
  | [] => [x]
  | y :: ys => if x < y then x :: y :: ys else if x == y then y :: ys else y :: insertSorted x ys

/-- sorted, duplicate-free -/
def norm (l : List Nat) : List Nat := l.foldr insertSorted []

/-- the set of machine-cycle charges of the translated instruction with these tokens -/
def jitCycles (tokens : List Nat) : Option (List Nat) :=
  match decodeCode tokens with
  | none => none
  | some code => (pathSums code (bytesOf tokens) 0 (code.length + 2)).map norm

/-! ### the interpreter's charges, computed by running the interpreter model -/

def nullBus : Interp.BusOps Unit := ⟨fun _ _ => .ok 0, fun _ _ _ => .ok ()⟩

/-- cycles the interpreter model charges for `op` from flag byte `f` (decoder clocks/4 plus what `run_op` adds) -/
def interpCyclesWith (op : Op) (len clocks f : Nat) : Option Nat :=
  match Interp.runOp nullBus op { af := f, sp := 0xc000 } () len with
  | .ok (r, _, _) => some (r.cycles + clocks / 4)
  | .error _ => none

/-- both branch outcomes: all condition flags clear / all set -/
def interpCycles (op : Op) (len clocks : Nat) : Option (List Nat) :=
  match interpCyclesWith op len clocks 0x00, interpCyclesWith op len clocks 0xf0 with
  | some a, some b => some (norm [a, b])
  | _, _ => none

end GbVerif.JitCycles
