import GbVerif.Model.X86
import GbVerif.Model.Interp
import GbVerif.Gen.EmitTable
import GbVerif.Gen.DecoderOps
/-
C02: the machine cycles a translated instruction charges, read off the emitted code: the code of one guest
instruction is a DAG of forward `rel8` jumps; along every path the charge is the sum of the immediates of
`add r15, imm8` (r15 = accumulated cycles; nothing else writes r15).
-/
namespace GbVerif.JitCycles
open GbVerif.X86

/-- index of the instruction that starts at byte offset `off` (`code.length` for the end of the code) -/
def indexOf (code : List (Nat × Instr)) (endOff off : Nat) : Option Nat :=
  if off == endOff then some code.length else code.findIdx? (fun p => p.1 == off)

/-- the register an 8-bit operand lives in -/
def r8reg : R8 → Nat | .lo i => i | .hi i => i

/-- the general-purpose register an instruction writes (any width), if any; `call rax` is not listed: it clobbers the
caller-saved registers rax, rcx, rdx, rsi, rdi, r8-r11 only -/
def destReg : Instr → Option Nat
  | .alu8 op d _ | .alu8i op d _ => if op == .cmp then none else some (r8reg d)
  | .aluI op _ d _ _ | .alu op _ d _ => if op == .cmp then none else some d
  | .not8 r | .incdec8 _ r | .sh8 _ r _ | .mov8 r _ | .mov8i r _ | .sete r => some (r8reg r)
  | .incdec16 _ r | .sh32 _ r _ | .mov _ r _ | .movi16 r _ | .movabs r _ | .load _ r _ _ | .pop r => some r
  | _ => none

/-- does the instruction write r15 in any way other than `add r15, imm8`? -/
def writesR15Otherwise : Instr → Bool
  | .aluI .add .q 15 [_] true => false
  | ins => destReg ins == some 15

/-- all path sums from instruction `i` to the end of the code; `none` on a malformed jump (backward, into the middle
of an instruction, or symbolic displacement) or a write to r15 that is not a cycle increment -/
def pathSums (code : List (Nat × Instr)) (endOff : Nat) : Nat → Nat → Option (List Nat)
  | _, 0 => none
  | i, fuel+1 =>
    match code[i]? with
    | none => if i == code.length then some [0] else none
    | some (off, ins) =>
      let nextOff := match code[i+1]? with | some (o, _) => o | none => endOff
      if writesR15Otherwise ins then none else
      match ins with
      | .jcc _ rel =>
        if rel ≥ 128 then none else
        match indexOf code endOff (nextOff + rel) with
        | some j => if j ≤ i then none else
          match pathSums code endOff (i+1) fuel, pathSums code endOff j fuel with
          | some a, some b => some (a ++ b)
          | _, _ => none
        | none => none
      | .jmp rel =>
        if rel ≥ 128 then none else
        match indexOf code endOff (nextOff + rel) with
        | some j => if j ≤ i then none else pathSums code endOff j fuel
        | none => none
      | .aluI .add .q 15 [n] true =>
        if n ≥ 128 then none else (pathSums code endOff (i+1) fuel).map fun l => l.map (· + n)
      | .callRax | .push _ | .pop _ | .pushf | .popf | _ => pathSums code endOff (i+1) fuel

/-- insertion into a sorted duplicate-free list -/
def insertSorted (x : Nat) : List Nat → List Nat
  | [] => [x]
  | y :: ys => if x < y then x :: y :: ys else if x == y then y :: ys else y :: insertSorted x ys

/-- sorted, duplicate-free -/
def norm (l : List Nat) : List Nat := l.foldr insertSorted []

/-- the set of machine-cycle charges of the translated instruction with these tokens -/
def jitCycles (tokens : List Nat) : Option (List Nat) :=
  match decodeCode tokens with
  | none => none
  | some code => (pathSums code (bytesOf tokens) 0 (code.length + 2)).map norm

/-! ### the interpreter's charges, computed by running the interpreter model -/

def nullBus : Interp.BusOps Unit := ⟨fun _ _ => .ok 0, fun _ _ _ => .ok ()⟩

/-- cycles the interpreter model charges for `op` from flag byte `f` (decoder clocks/4 plus what `run_op` adds) -/
def interpCyclesWith (op : Op) (len clocks f : Nat) : Option Nat :=
  match Interp.runOp nullBus op { af := f, sp := 0xc000 } () len with
  | .ok (r, _, _) => some (r.cycles + clocks / 4)
  | .error _ => none

/-- both branch outcomes: all condition flags clear / all set -/
def interpCycles (op : Op) (len clocks : Nat) : Option (List Nat) :=
  match interpCyclesWith op len clocks 0x00, interpCyclesWith op len clocks 0xf0 with
  | some a, some b => some (norm [a, b])
  | _, _ => none

end GbVerif.JitCycles
