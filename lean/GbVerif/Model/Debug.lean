import GbVerif.Gen.DecoderTable
/-
Model of `src/debug/command.rs` (`normalize_command`, `parse_command`, `parse_address`) and of
`src/debug/disassembly/mod.rs` (`disassemble`), hand-written, tied by the `c20.*` correspondence streams.

Strings are `List Char` (Rust `&str` = sequence of Unicode scalar values; every function used here works
char by char).  The two places where Rust consults Unicode tables — `char::is_whitespace` (in `trim`,
`split_whitespace`) and `char::to_lowercase` (in `to_lowercase`) — are the fields of `Env`; `rust : Env` is the
instance the correspondence replays (`c20.uni` compares it with `std` for every scalar value) and the theorems
of `Props/C20.lean` hold for every `Env` that is right on ASCII.
-/
namespace GbVerif.Debug

/-- the part of Rust's Unicode tables the parser consults -/
structure Env where
  /-- `char::is_whitespace` -/
  isWhite : Char → Bool
  /-- `char::to_lowercase` (a char may lowercase to several) -/
  lower : Char → List Char

/-- Unicode `White_Space` (what `char::is_whitespace` implements) -/
def unicodeWhite (c : Char) : Bool :=
  let n := c.toNat
  (9 ≤ n && n ≤ 13) || n == 0x20 || n == 0x85 || n == 0xA0 || n == 0x1680 ||
  (0x2000 ≤ n && n ≤ 0x200A) || n == 0x2028 || n == 0x2029 || n == 0x202F || n == 0x205F || n == 0x3000

/-- `char::to_lowercase` as far as a comparison with an ASCII word can observe it: exact on ASCII, exact on the
one non-ASCII scalar whose lowercase form is ASCII (U+212A KELVIN SIGN ↦ `k`); every other scalar lowercases to
something containing a non-ASCII char, represented here by the scalar itself (`c20.uni` checks exactly this
claim for all 1 112 064 scalars). -/
def rustLower (c : Char) : List Char :=
  let n := c.toNat
  if 65 ≤ n ∧ n ≤ 90 then [Char.ofNat (n + 32)]
  else if n = 0x212A then ['k']
  else [c]

def rust : Env := ⟨unicodeWhite, rustLower⟩

/-- ASCII lowercase of a char (identity outside `A`–`Z`) -/
def asciiLower (c : Char) : Char := if 65 ≤ c.toNat ∧ c.toNat ≤ 90 then Char.ofNat (c.toNat + 32) else c

/-- What the theorems assume about the tables: Rust's documented behaviour on the 128 ASCII chars
(`is_whitespace`: space, `\t`, `\n`, U+000B, U+000C, `\r`; `to_lowercase`: `A`–`Z` ↦ `a`–`z`, identity otherwise).
Nothing is assumed about non-ASCII chars. -/
structure Env.AsciiOk (E : Env) : Prop where
  white : ∀ c : Char, c.toNat < 128 → E.isWhite c = (c.toNat == 32 || (9 ≤ c.toNat && c.toNat ≤ 13))
  lower : ∀ c : Char, c.toNat < 128 → E.lower c = [asciiLower c]

/-! ### `str` helpers -/

/-- `str::trim` (`trim_matches(char::is_whitespace)`) -/
def trim (E : Env) (s : List Char) : List Char :=
  ((s.dropWhile E.isWhite).reverse.dropWhile E.isWhite).reverse

/-- `str::split(pred)`: pieces between separator chars, empty pieces included -/
def splitOnP (p : Char → Bool) : List Char → List (List Char)
  | [] => [[]]
  | c :: cs =>
    if p c then [] :: splitOnP p cs
    else match splitOnP p cs with
      | seg :: segs => (c :: seg) :: segs
      | [] => [[c]]

/-- `str::split_whitespace` = `split(char::is_whitespace).filter(|s| !s.is_empty())` -/
def splitWhitespace (E : Env) (s : List Char) : List (List Char) :=
  (splitOnP E.isWhite s).filter (fun t => !t.isEmpty)

/-- `str::to_lowercase` (the final-sigma rule only chooses between two non-ASCII results and is not modelled) -/
def toLowercase (E : Env) (s : List Char) : List Char := s.flatMap E.lower

/-! ### `u16::from_str_radix` / `str::parse::<u16>` -/

/-- `(byte as char).to_digit(radix)` for radix ≤ 16; a non-ASCII char is a sequence of bytes ≥ 0x80, none a digit -/
def digitVal (radix : Nat) (c : Char) : Option Nat :=
  let n := c.toNat
  let v : Option Nat :=
    if 48 ≤ n ∧ n ≤ 57 then some (n - 48)
    else if 97 ≤ n ∧ n ≤ 102 then some (n - 87)
    else if 65 ≤ n ∧ n ≤ 70 then some (n - 55)
    else none
  match v with
  | some d => if d < radix then some d else none
  | none => none

/-- the digit loop of `from_str_radix` for `u16`: `checked_mul(radix)` then `checked_add(digit)`
(the unchecked fast path for short inputs computes the same value, it cannot overflow) -/
def digitsLoop (radix : Nat) : List Char → Nat → Option Nat
  | [], acc => some acc
  | c :: cs, acc =>
    match digitVal radix c with
    | none => none                                   -- InvalidDigit
    | some d =>
      if acc * radix > 65535 then none               -- PosOverflow (checked_mul)
      else if acc * radix + d > 65535 then none      -- PosOverflow (checked_add)
      else digitsLoop radix cs (acc * radix + d)

/-- `u16::from_str_radix(s, radix).ok()`: empty → Empty; a lone sign → InvalidDigit; one leading `+` is
skipped; `-` is not a sign for an unsigned type and is left to fail as a digit -/
def parseRadix (radix : Nat) (s : List Char) : Option Nat :=
  match s with
  | [] => none
  | [c] => if c = '+' ∨ c = '-' then none else digitsLoop radix [c] 0
  | c :: cs => if c = '+' then digitsLoop radix cs 0 else digitsLoop radix (c :: cs) 0

/-- `parse_address` -/
def parseAddress (E : Env) (token : List Char) : Option Nat :=
  let trimmed := trim E token
  if trimmed.take 2 = ['0', 'x'] then       -- `starts_with("0x")`, case-sensitive
    parseRadix 16 (trimmed.drop 2)          -- `get_unchecked(2..)`: "0x" is two bytes, in bounds, on a char boundary
  else parseRadix 10 trimmed                -- `token.trim().parse()`

/-! ### commands -/

/-- the variants `parse_command` can construct (`BreakClear`, `BreakList`, `ReadMemoryRange` are never built) -/
inductive Command where
  | breakSet (addr : Nat)
  | continue_
  | readMemory (addr : Nat)
  | readRegisters
  | step
deriving DecidableEq, Repr

/-- `normalize_command` (`String::from_str` cannot fail) -/
def normalizeCommand (E : Env) : Option (List Char) → Option (List Char)
  | none => none
  | some inner => some (toLowercase E (trim E inner))

def wBreak : List Char := ['b','r','e','a','k']
def wC : List Char := ['c']
def wContinue : List Char := ['c','o','n','t','i','n','u','e']
def wInfo : List Char := ['i','n','f','o']
def wReg : List Char := ['r','e','g']
def wRegisters : List Char := ['r','e','g','i','s','t','e','r','s']
def wP : List Char := ['p']
def wPrint : List Char := ['p','r','i','n','t']
def wS : List Char := ['s']
def wStep : List Char := ['s','t','e','p']

/-- `parse_command`; `tokens.next()` is `head?` and the iterator advances to `tail` -/
def parseCommand (E : Env) (line : List Char) : Option Command :=
  let tokens := splitWhitespace E line
  match normalizeCommand E tokens.head? with
  | none => none
  | some first =>
    let tokens := tokens.tail
    if first = wBreak then
      match tokens.head? with
      | none => none
      | some addrStr =>
        match parseAddress E addrStr with
        | none => none
        | some addr => some (.breakSet addr)
    else if first = wC ∨ first = wContinue then some .continue_
    else if first = wInfo then
      match normalizeCommand E tokens.head? with
      | none => none
      | some next => if next = wReg ∨ next = wRegisters then some .readRegisters else none
    else if first = wP ∨ first = wPrint then
      match tokens.head? with
      | none => none
      | some arg1 =>
        match parseAddress E arg1 with
        | none => none
        | some addr => some (.readMemory addr)
    else if first = wS ∨ first = wStep then some .step
    else none

/-! ### disassembly -/

/-- the ways `disassemble` can fail to return -/
inductive DisErr where
  /-- index out of bounds: `decode` indexes an operand byte, or the copy loop `instructions[cursor + i]`,
  beyond the end of the slice (the sequence stops inside an instruction) -/
  | oob
  /-- `bytes[i]` with `i ≥ 4` (no decoder length exceeds 3; kept explicit) -/
  | bytes4
  /-- recursion fuel exhausted: stands for the Rust loop not terminating, which needs a decoder length 0
  (impossible: every length is ≥ 1, `C20.disasm_total`; kept explicit, never defaulted) -/
  | fuel
deriving DecidableEq, Repr

/-- the observable fields of `Instruction` (`text` is not modelled) -/
structure Instr where
  address : Nat
  length : Nat
  bytes : List Nat     -- the first `length` entries of `bytes: [u8; 4]`
deriving DecidableEq, Repr

/-- length returned by `decode(&instructions[cursor..])` where the slice is `b0 :: rest`; `none` = it panics
on an out-of-range index before returning (`instrReads` is the highest index the selected arm touches) -/
def decodeLen (b0 : Nat) (rest : List Nat) : Option Nat :=
  let b1 := rest.headD 0
  -- covers the prefix byte at the very end: `decode_cb(&instructions[1..])` indexes `[0]` of an empty slice
  -- (`instrReads prefix _ ≥ 1`)
  if rest.length < Gen.instrReads b0 b1 then none
  else some (Gen.instrLen b0 b1)

/-- the `while cursor < instructions.len()` loop; `rest` is `instructions[cursor..]` -/
def disasmLoop : (fuel : Nat) → (address : Nat) → (rest : List Nat) → Except DisErr (List Instr)
  | _, _, [] => .ok []
  | 0, _, _ :: _ => .error .fuel
  | fuel + 1, address, b0 :: rest =>
    match decodeLen b0 rest with
    | none => .error .oob
    | some length =>
      if length > 4 then .error .bytes4
      else if (b0 :: rest).length < length then .error .oob     -- copy loop
      else
        match disasmLoop fuel ((address + length) % 65536) ((b0 :: rest).drop length) with
        | .error e => .error e
        | .ok out => .ok (⟨address, length, (b0 :: rest).take length⟩ :: out)

/-- `disassemble(initial_addr, instructions)` -/
def disassemble (initialAddr : Nat) (instructions : List Nat) : Except DisErr (List Instr) :=
  disasmLoop instructions.length initialAddr instructions

end GbVerif.Debug
