import GbVerif.Model.JitIp
import GbVerif.Model.JitPaths
/-
C01 (stack pointer bookkeeping of translated code): r12 holds the guest SP.  Apart from the three instructions that load
SP with a computed value (LD SP,nn / LD SP,HL / ADD SP,e), translated code changes r12 only by `add r12, n` / `sub r12, n`
/ 16-bit `inc` / `dec`, masks it with `and r12, 0xffff`, or rotates it by 8 and back (to read its high byte).  The net
change modulo 2^16 over every path through the code is read off the emitted code and compared with what the interpreter
model does to SP (both branch outcomes), like `JitCycles` does for the cycle charges.  Walked by `JitPaths.paths`;
soundness for executions of the x86 model: `Proofs/X86Sp.lean`.
-/
namespace GbVerif.JitSp
open GbVerif.X86 GbVerif.JitCycles

/-- writes to r12 that the delta analysis cannot account for -/
def writesR12Otherwise : Instr → Bool
  | .aluI .add .q 12 [_] true | .aluI .sub .q 12 [_] true => false
  | .aluI .and .q 12 [255, 255, 0, 0] false => false
  | .incdec16 _ 12 => false
  | .sh32 .rol 12 8 | .sh32 .ror 12 8 => false
  | ins => destReg ins == some 12

/-- abstract state: net SP change so far (mod 2^16) and `rot` = r12 is currently rotated by 8 to the left (1) or to the
right (2) (no arithmetic until it is rotated back; a path may not end rotated) -/
abbrev SpSt := Nat × Nat

def trSp (ins : Instr) (a : SpSt) : Option SpSt :=
  if writesR12Otherwise ins then none else
  match ins with
  | .aluI .add .q 12 [n] true => if n ≥ 128 || a.2 != 0 then none else some ((a.1 + n) % 65536, a.2)
  | .aluI .sub .q 12 [n] true => if n ≥ 128 || a.2 != 0 then none else some ((a.1 + 65536 - n) % 65536, a.2)
  | .aluI .and .q 12 [255, 255, 0, 0] false => if a.2 != 0 then none else some a
  | .incdec16 dec 12 => if a.2 != 0 then none else some ((a.1 + (if dec then 65535 else 1)) % 65536, a.2)
  | .sh32 .rol 12 8 => if a.2 == 0 then some (a.1, 1) else if a.2 == 2 then some (a.1, 0) else none
  | .sh32 .ror 12 8 => if a.2 == 0 then some (a.1, 2) else if a.2 == 1 then some (a.1, 0) else none
  | _ => some a

def jitSp (tokens : List Nat) : Option (List Nat) :=
  JitPaths.analyse trSp (0, 0) (fun a => if a.2 == 0 then some a.1 else none) tokens

/-- what the interpreter model does to SP (mod 2^16), from flag byte `f` -/
def interpSpWith (op : Op) (len f : Nat) : Option Nat :=
  match Interp.runOp nullBus op { af := f, sp := 0x8000 } () len with
  | .ok (r, _, _) => some ((r.sp + 65536 - 0x8000) % 65536)
  | .error _ => none

def interpSp (op : Op) (len : Nat) : Option (List Nat) :=
  match interpSpWith op len 0x00, interpSpWith op len 0xf0 with
  | some a, some b => some (norm [a, b])
  | _, _ => none

end GbVerif.JitSp
