import GbVerif.Model.JitIp
/-
C01 (stack pointer bookkeeping of translated code): r12 holds the guest SP.  Apart from the three instructions that load
SP with a computed value (LD SP,nn / LD SP,HL / ADD SP,e), translated code changes r12 only by `add r12, n` / `sub r12, n`
/ 16-bit `inc` / `dec`, masks it with `and r12, 0xffff`, or rotates it by 8 and back (to read its high byte).  The net
change modulo 2^16 over every path through the code is read off the emitted code and compared with what the interpreter
model does to SP (both branch outcomes), like `JitCycles` does for the cycle charges.
-/
namespace GbVerif.JitSp
open GbVerif.X86 GbVerif.JitCycles

/-- writes to r12 that the delta analysis cannot account for -/
def writesR12Otherwise : Instr → Bool
  | .aluI .add .q 12 [_] true | .aluI .sub .q 12 [_] true => false
  | .aluI .and .q 12 [255, 255, 0, 0] false => false
  | .incdec16 _ 12 => false
  | .sh32 .rol 12 8 | .sh32 .ror 12 8 => false
  | .aluI op _ 12 _ _ => op != .cmp
  | .alu op _ 12 _ => op != .cmp
  | .alu8 op (.lo 12) _ => op != .cmp
  | .alu8i op (.lo 12) _ => op != .cmp
  | .not8 (.lo 12) | .incdec8 _ (.lo 12) | .sh8 _ (.lo 12) _ | .sh32 _ 12 _ => true
  | .mov8 (.lo 12) _ | .mov8i (.lo 12) _ | .mov _ 12 _ | .movi16 12 _ | .movabs 12 _ | .load _ 12 _ _ | .sete (.lo 12) | .pop 12 => true
  | _ => false

/-- net SP changes (mod 2^16) over the paths from instruction `i` to the end of the code; `rot` = r12 is currently
rotated by 8 to the left (1) or to the right (2) (no arithmetic until it is rotated back; a path may not end rotated) -/
def pathDeltas (code : List (Nat × Instr)) (endOff : Nat) : Nat → Nat → Nat → Nat → Option (List Nat)
  | _, 0, _, _ => none
  | i, fuel+1, acc, rot =>
    match code[i]? with
    | none => if i == code.length && rot == 0 then some [acc] else none
    | some (_, ins) =>
      let nextOff := match code[i+1]? with | some (o, _) => o | none => endOff
      if writesR12Otherwise ins then none else
      match ins with
      | .jcc _ rel =>
        if rel ≥ 128 then none else
        match indexOf code endOff (nextOff + rel) with
        | some j => if j ≤ i then none else
          match pathDeltas code endOff (i+1) fuel acc rot, pathDeltas code endOff j fuel acc rot with
          | some a, some b => some (a ++ b)
          | _, _ => none
        | none => none
      | .jmp rel =>
        if rel ≥ 128 then none else
        match indexOf code endOff (nextOff + rel) with
        | some j => if j ≤ i then none else pathDeltas code endOff j fuel acc rot
        | none => none
      | .aluI .add .q 12 [n] true => if n ≥ 128 || rot != 0 then none else pathDeltas code endOff (i+1) fuel ((acc + n) % 65536) rot
      | .aluI .sub .q 12 [n] true => if n ≥ 128 || rot != 0 then none else pathDeltas code endOff (i+1) fuel ((acc + 65536 - n) % 65536) rot
      | .incdec16 dec 12 => if rot != 0 then none else pathDeltas code endOff (i+1) fuel ((acc + (if dec then 65535 else 1)) % 65536) rot
      | .sh32 .rol 12 8 => if rot == 0 then pathDeltas code endOff (i+1) fuel acc 1 else if rot == 2 then pathDeltas code endOff (i+1) fuel acc 0 else none
      | .sh32 .ror 12 8 => if rot == 0 then pathDeltas code endOff (i+1) fuel acc 2 else if rot == 1 then pathDeltas code endOff (i+1) fuel acc 0 else none
      | _ => pathDeltas code endOff (i+1) fuel acc rot

def jitSp (tokens : List Nat) : Option (List Nat) :=
  match decodeCode tokens with
  | none => none
  | some code => (pathDeltas code (bytesOf tokens) 0 (code.length + 2) 0 0).map norm

/-- what the interpreter model does to SP (mod 2^16), from flag byte `f` -/
def interpSpWith (op : Op) (len f : Nat) : Option Nat :=
  match Interp.runOp nullBus op { af := f, sp := 0x8000 } () len with
  | .ok (r, _, _) => some ((r.sp + 65536 - 0x8000) % 65536)
  | .error _ => none

def interpSp (op : Op) (len : Nat) : Option (List Nat) :=
  match interpSpWith op len 0x00, interpSpWith op len 0xf0 with
  | some a, some b => some (norm [a, b])
  | _, _ => none

end GbVerif.JitSp
