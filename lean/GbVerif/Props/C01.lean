import GbVerif.Model.Cache
import GbVerif.Model.X86Wf
import GbVerif.Model.JitIp
import GbVerif.Model.JitSp
import GbVerif.Model.JitStatus
import GbVerif.Model.JitWrites
import GbVerif.Proofs.Enum
import GbVerif.Proofs.TemplateWf
import GbVerif.Proofs.X86Ip
import GbVerif.Proofs.X86Sp
import GbVerif.Proofs.X86Status
import GbVerif.Proofs.X86Writes
import GbVerif.Proofs.X86Safe
import GbVerif.Proofs.X86SimMoves
import GbVerif.Proofs.X86SimAlu3
import GbVerif.Proofs.X86SimCb
import GbVerif.Proofs.X86SimBit
import GbVerif.Proofs.X86SimAdc
import GbVerif.Proofs.X86SimFlagOps
import GbVerif.Proofs.X86SimMem
import GbVerif.Proofs.X86SimMemDec
import GbVerif.Proofs.X86SimMemImm
import GbVerif.Proofs.X86SimMemAlu
import GbVerif.Proofs.X86SimRotT
import GbVerif.Proofs.X86SimJump
import GbVerif.Proofs.X86SimMemAbs
import GbVerif.Proofs.X86SimRmw
import GbVerif.Proofs.X86SimBitHl
/-!
C01 — translated blocks have the same architectural effect as the interpreter.
(Structural facts first; the x86 model and per-template simulation lemmas are added by `Proofs/X86*.lean`.)
-/
namespace GbVerif.C01

/-- the status byte as `Core::run_code_block` reads it: 4 and 5 both enable interrupts, anything unknown is "normal" -/
def statusClass (st : Nat) : Nat :=
  if st = 1 then 1 else if st = 2 then 2 else if st = 3 then 3 else if st = 4 ∨ st = 5 then 4 else 0

/-- RETI returns STATUS_INTERRUPT_ENABLE from translated code and STATUS_INTERRUPT_ENABLE_IMMEDIATE from the interpreter:
the same outcome for the block-stepped core -/
theorem reti_status_same_class : statusClass 4 = statusClass 5 := by decide

open GbVerif.Enum GbVerif.X86 GbVerif.X86Wf

/-- **emit_wf (unprefixed)**: for every defined unprefixed encoding the code produced by the real emitter (regenerated table)
decodes completely inside the modelled x86-64 subset; every `rel8` jump goes forward to an instruction boundary inside the
template or to its end; on every path pushes and pops balance, never pop below the entry depth, and `[rsp+d]` accesses stay
inside the slots the template itself pushed; `call rax` happens only with a bus-helper pointer in rax and the memory base in
rdi; rsp, rbp, r8–r11 are never written, r14 only by a status move or the zero-flag idiom; control never leaves the template
other than by falling off its end -/
theorem emit_wf_unprefixed : ∀ b0, b0 < 2^8 → ((Gen.emitOp b0).isEmpty || wfTemplate (Gen.emitOp b0)) = true :=
  forall_lt_of_allRange (fun b0 => (Gen.emitOp b0).isEmpty || wfTemplate (Gen.emitOp b0)) 8 (by decide +kernel)

/-- **emit_wf (CB page)** -/
theorem emit_wf_cb : ∀ b1, b1 < 2^8 → wfTemplate (Gen.emitCb b1) = true :=
  forall_lt_of_allRange (fun b1 => wfTemplate (Gen.emitCb b1)) 8 (by decide +kernel)

/-- **host_intact (static part)**: the entry stub saves rbx rbp r12–r15 (then the two arguments it needs later), the exit stub
pops the register-file pointer, restores exactly those six registers in reverse order and returns; the block tail pops the
exit stub's address and jumps to it -/
theorem host_frame_symmetric :
    (decodeCode Gen.emitPrologue).map pushes = some [3, 5, 12, 13, 14, 15, 7, 2] ∧
    (decodeCode Gen.emitEpilogue).map pops = some [7, 15, 14, 13, 12, 5, 3] ∧
    (decodeCode Gen.emitBlockEnd).map (fun c => c.map (·.2)) = some [.pop 7, .jmpReg 7] ∧
    ((decodeCode Gen.emitEpilogue).map fun c => c.getLast?.map (·.2)) = some (some .ret) := by
  decide +kernel


/-! ### program-counter bookkeeping of translated code -/

/-- for one unprefixed encoding that does not end its block: along every path through the emitted code, r13 (the guest
PC) is touched only by `add r13, imm8` and the immediates add up to the instruction's encoded length -/
def ipOkOp (b0 : Nat) : Bool :=
  let t := Gen.emitOp b0
  if t.isEmpty then true else
  let (op, len, _) := Gen.decode b0 0 0
  if Gen.isBlockEnd op then true else JitIp.jitIp t == some [len]

def ipOkCb (b1 : Nat) : Bool :=
  let (_, len, _) := Gen.decode 0xcb b1 0
  JitIp.jitIp (Gen.emitCb b1) == some [len]

/-- **ip_advance**: every translated instruction that does not end its block advances the guest PC by exactly its
encoded length, on every path through its code, and writes the PC register in no other way (all 501 encodings; the
tables are regenerated from the emitter and the decoder on every run) -/
theorem ip_advance_unprefixed : ∀ b0, b0 < 2^8 → ipOkOp b0 = true :=
  forall_lt_of_allRange ipOkOp 8 (by decide +kernel)

theorem ip_advance_cb : ∀ b1, b1 < 2^8 → ipOkCb b1 = true :=
  forall_lt_of_allRange ipOkCb 8 (by decide +kernel)

/-- non-vacuity: `LD A,n` is such an instruction and advances by 2; `JR NZ` ends its block and is exempt -/
example : Gen.isBlockEnd (Gen.decode 0x3e 0 0).1 = false ∧ JitIp.jitIp (Gen.emitOp 0x3e) = some [2] ∧
    Gen.isBlockEnd (Gen.decode 0x20 0 0).1 = true := by decide +kernel


/-! ### stack-pointer bookkeeping of translated code -/

/-- for one unprefixed encoding: the set of net changes (mod 2^16) of r12, the guest SP, over all paths through the
emitted code equals the set of changes the interpreter model makes to SP over both flag outcomes; the only encodings
whose code writes SP in a way the path analysis does not follow are the three that load it with a computed value
(LD SP,nn / ADD SP,e / LD SP,HL) -/
def spOkOp (b0 : Nat) : Bool :=
  let t := Gen.emitOp b0
  if t.isEmpty then true else
  let (op, len, _) := Gen.decode b0 0 0
  match JitSp.jitSp t with
  | some a => some a == JitSp.interpSp op len
  | none => b0 == 0x31 || b0 == 0xe8 || b0 == 0xf9

/-- **sp_delta**: PUSH, CALL (taken), RST move SP by −2, POP, RET (taken), RETI by +2, INC/DEC SP by ±1, not-taken CALL / RET
and every other instruction by 0 — in translated code on every path, exactly as in the interpreter, for every state
(the change does not depend on the state); r12 is written in no other way -/
theorem sp_delta_unprefixed : ∀ b0, b0 < 2^8 → spOkOp b0 = true :=
  forall_lt_of_allRange spOkOp 8 (by decide +kernel)

/-- no CB-prefixed instruction touches SP -/
theorem sp_delta_cb : ∀ b1, b1 < 2^8 → (JitSp.jitSp (Gen.emitCb b1) == some [0]) = true :=
  forall_lt_of_allRange (fun b1 => JitSp.jitSp (Gen.emitCb b1) == some [0]) 8 (by decide +kernel)

/-- non-vacuity: CALL NZ has the two outcomes 0 and −2, POP BC has +2 -/
example : JitSp.jitSp (Gen.emitOp 0xc4) = some [0, 65534] ∧ JitSp.jitSp (Gen.emitOp 0xc1) = some [2] := by decide +kernel


/-! ### the status a translated instruction returns -/

def statusOkOp (b0 : Nat) : Bool :=
  let t := Gen.emitOp b0
  if t.isEmpty then true else
  let (op, len, _) := Gen.decode b0 0 0
  (JitStatus.jitStatus t).isSome && JitStatus.jitStatus t == JitStatus.interpStatus op len

/-- **status_class**: over every path through the code of every instruction, the class of what the path leaves in the
status byte r14b (normal if it leaves it alone or writes it with the zero-flag idiom) is the class of the status the
interpreter model returns for that instruction: STOP, HALT, DI, EI/RETI set theirs, everything else — including every
instruction that merely precedes the terminator in a block — leaves a status of class normal -/
theorem status_class_unprefixed : ∀ b0, b0 < 2^8 → statusOkOp b0 = true :=
  forall_lt_of_allRange statusOkOp 8 (by decide +kernel)

theorem status_class_cb : ∀ b1, b1 < 2^8 → (JitStatus.jitStatus (Gen.emitCb b1) == some [0]) = true :=
  forall_lt_of_allRange (fun b1 => JitStatus.jitStatus (Gen.emitCb b1) == some [0]) 8 (by decide +kernel)

/-- non-vacuity: HALT returns class 2, RETI the EI class (the interpreter's 5 and the recompiler's 4 are one class), RLC B normal -/
example : JitStatus.jitStatus (Gen.emitOp 0x76) = some [2] ∧ JitStatus.jitStatus (Gen.emitOp 0xd9) = some [4] ∧
    JitStatus.interpStatus (Gen.decode 0xd9 0 0).1 1 = some [4] ∧ JitStatus.jitStatus (Gen.emitCb 0x00) = some [0] := by decide +kernel


/-! ### how many bytes a translated instruction writes to the bus -/

def writesOkOp (b0 : Nat) : Bool :=
  let t := Gen.emitOp b0
  if t.isEmpty then true else
  let (op, len, _) := Gen.decode b0 0 0
  (JitWrites.jitWrites t).isSome && JitWrites.jitWrites t == JitWrites.interpWrites op len

def writesOkCb (b1 : Nat) : Bool :=
  let (op, len, _) := Gen.decode 0xcb b1 0
  (JitWrites.jitWrites (Gen.emitCb b1)).isSome && JitWrites.jitWrites (Gen.emitCb b1) == JitWrites.interpWrites op len

/-- **write_count**: over every path through the code of every instruction, translated code calls the bus helpers for
exactly as many byte writes (one per `memory_write_byte`, two per `memory_write_word` / `memory_push_word`) as the
interpreter model performs for that instruction and branch outcome — 0, 1 or 2; an instruction that must not write
(e.g. BIT n,(HL), CP (HL), a not-taken CALL) does not -/
theorem write_count_unprefixed : ∀ b0, b0 < 2^8 → writesOkOp b0 = true :=
  forall_lt_of_allRange writesOkOp 8 (by decide +kernel)

theorem write_count_cb : ∀ b1, b1 < 2^8 → writesOkCb b1 = true :=
  forall_lt_of_allRange writesOkCb 8 (by decide +kernel)

/-- non-vacuity: CALL NZ writes 0 or 2 bytes, BIT 0,(HL) none, RES 0,(HL) one, LD (nn),SP two -/
example : JitWrites.jitWrites (Gen.emitOp 0xc4) = some [0, 2] ∧ JitWrites.jitWrites (Gen.emitCb 0x46) = some [0] ∧
    JitWrites.jitWrites (Gen.emitCb 0x86) = some [1] ∧ JitWrites.jitWrites (Gen.emitOp 0x08) = some [2] := by decide +kernel


/-! ### the four bookkeeping facts as statements about runs

Each analysis above is an instance of the generic path walk `JitPaths.paths`; `X86.paths_sound` proves once, by
induction over the walk, that it covers every execution of the code on the x86 model (`Model/X86Sem.lean`) for any
relation the transfer function carries, and `Proofs/X86Ip/Sp/Status/Writes.lean` show that for each transfer function
(frame lemmas over every modelled instruction and the bus-call helper; the arithmetic of `add`/`sub`/16-bit `inc`/`dec`/
`and 0xffff`/`rol`/`ror` by 8; the symbolic host stack).  Instantiated at all 501 templates, whose offsets the kernel
checks well-formed (`Proofs/TemplateWf.lean`): from ANY machine state with 16 registers, over ANY bus behaviour. -/

/-- **ip_advance on executions**: every complete run of the template of an instruction that does not end its block
leaves r13 = r13 + encoded length (mod 2^64) -/
theorem ip_run_unprefixed (b0 : Nat) (hb : b0 < 2^8) (hne : (Gen.emitOp b0).isEmpty = false)
    (hend : Gen.isBlockEnd (Gen.decode b0 0 0).1 = false) :
    ∃ code, decodeCode (Gen.emitOp b0) = some code ∧
    ∀ (β : Type) (B : Interp.BusOps β) (fuel : Nat) (s s' : St β), s.r.size = 16 → s.pc = 0 →
      run B code (bytesOf (Gen.emitOp b0)) fuel s = .ok s' →
      (get s' 13).toNat = ((get s 13).toNat + (Gen.decode b0 0 0).2.1) % 2 ^ 64 := by
  obtain ⟨code, hdec, hok, h0⟩ := offsetsWf_parts (offsetsWf_op hb hne)
  have h := ip_advance_unprefixed b0 hb
  unfold ipOkOp at h
  simp only [hne, Bool.false_eq_true, if_false, hend] at h
  have hC : JitIp.jitIp (Gen.emitOp b0) = some [(Gen.decode b0 0 0).2.1] := by simpa using h
  refine ⟨code, hdec, ?_⟩
  intro β B fuel s s' hsz hpc hrun
  obtain ⟨l, hl, he⟩ := jitIp_sound B _ code _ hdec hok hC fuel s s' hsz (by rw [hpc, h0]) hrun
  rw [List.mem_singleton.mp hl] at he
  exact he

theorem ip_run_cb (b1 : Nat) (hb : b1 < 2^8) :
    ∃ code, decodeCode (Gen.emitCb b1) = some code ∧
    ∀ (β : Type) (B : Interp.BusOps β) (fuel : Nat) (s s' : St β), s.r.size = 16 → s.pc = 0 →
      run B code (bytesOf (Gen.emitCb b1)) fuel s = .ok s' →
      (get s' 13).toNat = ((get s 13).toNat + (Gen.decode 0xcb b1 0).2.1) % 2 ^ 64 := by
  obtain ⟨code, hdec, hok, h0⟩ := offsetsWf_parts (offsetsWf_cb b1 hb)
  have h := ip_advance_cb b1 hb
  unfold ipOkCb at h
  have hC : JitIp.jitIp (Gen.emitCb b1) = some [(Gen.decode 0xcb b1 0).2.1] := by simpa using h
  refine ⟨code, hdec, ?_⟩
  intro β B fuel s s' hsz hpc hrun
  obtain ⟨l, hl, he⟩ := jitIp_sound B _ code _ hdec hok hC fuel s s' hsz (by rw [hpc, h0]) hrun
  rw [List.mem_singleton.mp hl] at he
  exact he

/-- **sp_delta on executions**: every complete run of the template of any instruction but the three that load SP with a
computed value changes the low 16 bits of r12 by one of the changes the interpreter model makes to SP -/
theorem sp_run_unprefixed (b0 : Nat) (hb : b0 < 2^8) (hne : (Gen.emitOp b0).isEmpty = false)
    (hnot : (b0 == 0x31 || b0 == 0xe8 || b0 == 0xf9) = false) :
    ∃ code C, decodeCode (Gen.emitOp b0) = some code ∧ JitSp.interpSp (Gen.decode b0 0 0).1 (Gen.decode b0 0 0).2.1 = some C ∧
    ∀ (β : Type) (B : Interp.BusOps β) (fuel : Nat) (s s' : St β), s.r.size = 16 → s.pc = 0 →
      run B code (bytesOf (Gen.emitOp b0)) fuel s = .ok s' →
      ∃ l ∈ C, (get s' 12).toNat % 65536 = ((get s 12).toNat + l) % 65536 := by
  obtain ⟨code, hdec, hok, h0⟩ := offsetsWf_parts (offsetsWf_op hb hne)
  have h := sp_delta_unprefixed b0 hb
  unfold spOkOp at h
  simp only [hne, Bool.false_eq_true, if_false] at h
  cases hj : JitSp.jitSp (Gen.emitOp b0) with
  | none => rw [hj] at h; simp only [] at h; rw [hnot] at h; cases h
  | some C =>
    rw [hj] at h
    have hi : JitSp.interpSp (Gen.decode b0 0 0).1 (Gen.decode b0 0 0).2.1 = some C := (by simpa using h : some C = _).symm
    refine ⟨code, C, hdec, hi, ?_⟩
    intro β B fuel s s' hsz hpc hrun
    exact jitSp_sound B _ code C hdec hok hj fuel s s' hsz (by rw [hpc, h0]) hrun

theorem sp_run_cb (b1 : Nat) (hb : b1 < 2^8) :
    ∃ code, decodeCode (Gen.emitCb b1) = some code ∧
    ∀ (β : Type) (B : Interp.BusOps β) (fuel : Nat) (s s' : St β), s.r.size = 16 → s.pc = 0 →
      run B code (bytesOf (Gen.emitCb b1)) fuel s = .ok s' →
      (get s' 12).toNat % 65536 = (get s 12).toNat % 65536 := by
  obtain ⟨code, hdec, hok, h0⟩ := offsetsWf_parts (offsetsWf_cb b1 hb)
  have hC : JitSp.jitSp (Gen.emitCb b1) = some [0] := by simpa using sp_delta_cb b1 hb
  refine ⟨code, hdec, ?_⟩
  intro β B fuel s s' hsz hpc hrun
  obtain ⟨l, hl, he⟩ := jitSp_sound B _ code _ hdec hok hC fuel s s' hsz (by rw [hpc, h0]) hrun
  rw [List.mem_singleton.mp hl, Nat.add_zero] at he
  exact he

/-- **status_class on executions**: from a state whose status byte is of class normal (a block starts with r14 = 0),
every complete run of the template leaves in r14b a status of a class the interpreter model returns for it -/
theorem status_run_unprefixed (b0 : Nat) (hb : b0 < 2^8) (hne : (Gen.emitOp b0).isEmpty = false) :
    ∃ code C, decodeCode (Gen.emitOp b0) = some code ∧ JitStatus.interpStatus (Gen.decode b0 0 0).1 (Gen.decode b0 0 0).2.1 = some C ∧
    ∀ (β : Type) (B : Interp.BusOps β) (fuel : Nat) (s s' : St β), s.r.size = 16 → s.pc = 0 →
      JitStatus.statusClass (r14b s) = 0 → run B code (bytesOf (Gen.emitOp b0)) fuel s = .ok s' →
      JitStatus.statusClass (r14b s') ∈ C := by
  obtain ⟨code, hdec, hok, h0⟩ := offsetsWf_parts (offsetsWf_op hb hne)
  have h := status_class_unprefixed b0 hb
  unfold statusOkOp at h
  simp only [hne, Bool.false_eq_true, if_false, Bool.and_eq_true] at h
  cases hj : JitStatus.jitStatus (Gen.emitOp b0) with
  | none => rw [hj] at h; exact absurd h.1 (by simp)
  | some C =>
    rw [hj] at h
    have hi : JitStatus.interpStatus (Gen.decode b0 0 0).1 (Gen.decode b0 0 0).2.1 = some C := (by simpa using h.2 : some C = _).symm
    refine ⟨code, C, hdec, hi, ?_⟩
    intro β B fuel s s' hsz hpc hcl hrun
    exact jitStatus_sound B _ code C hdec hok hj fuel s s' hsz (by rw [hpc, h0]) hcl hrun

theorem status_run_cb (b1 : Nat) (hb : b1 < 2^8) :
    ∃ code, decodeCode (Gen.emitCb b1) = some code ∧
    ∀ (β : Type) (B : Interp.BusOps β) (fuel : Nat) (s s' : St β), s.r.size = 16 → s.pc = 0 →
      JitStatus.statusClass (r14b s) = 0 → run B code (bytesOf (Gen.emitCb b1)) fuel s = .ok s' →
      JitStatus.statusClass (r14b s') = 0 := by
  obtain ⟨code, hdec, hok, h0⟩ := offsetsWf_parts (offsetsWf_cb b1 hb)
  have hC : JitStatus.jitStatus (Gen.emitCb b1) = some [0] := by simpa using status_class_cb b1 hb
  refine ⟨code, hdec, ?_⟩
  intro β B fuel s s' hsz hpc hcl hrun
  exact List.mem_singleton.mp (jitStatus_sound B _ code _ hdec hok hC fuel s s' hsz (by rw [hpc, h0]) hcl hrun)

/-- **write_count on executions**: over any bus with a counter of its byte writes, every complete run of the template
performs one of the numbers of byte writes the interpreter model performs for that instruction -/
theorem writes_run_unprefixed (b0 : Nat) (hb : b0 < 2^8) (hne : (Gen.emitOp b0).isEmpty = false) :
    ∃ code C, decodeCode (Gen.emitOp b0) = some code ∧ JitWrites.interpWrites (Gen.decode b0 0 0).1 (Gen.decode b0 0 0).2.1 = some C ∧
    ∀ (β : Type) (B : Interp.BusOps β) (fuel : Nat) (s s' : St (β × Nat)), s.r.size = 16 → s.pc = 0 →
      run (counted B) code (bytesOf (Gen.emitOp b0)) fuel s = .ok s' →
      ∃ l ∈ C, s'.bus.2 = s.bus.2 + l := by
  obtain ⟨code, hdec, hok, h0⟩ := offsetsWf_parts (offsetsWf_op hb hne)
  have h := write_count_unprefixed b0 hb
  unfold writesOkOp at h
  simp only [hne, Bool.false_eq_true, if_false, Bool.and_eq_true] at h
  cases hj : JitWrites.jitWrites (Gen.emitOp b0) with
  | none => rw [hj] at h; exact absurd h.1 (by simp)
  | some C =>
    rw [hj] at h
    have hi : JitWrites.interpWrites (Gen.decode b0 0 0).1 (Gen.decode b0 0 0).2.1 = some C := (by simpa using h.2 : some C = _).symm
    refine ⟨code, C, hdec, hi, ?_⟩
    intro β B fuel s s' hsz hpc hrun
    exact jitWrites_sound B _ code C hdec hok hj fuel s s' hsz (by rw [hpc, h0]) hrun

theorem writes_run_cb (b1 : Nat) (hb : b1 < 2^8) :
    ∃ code C, decodeCode (Gen.emitCb b1) = some code ∧ JitWrites.interpWrites (Gen.decode 0xcb b1 0).1 (Gen.decode 0xcb b1 0).2.1 = some C ∧
    ∀ (β : Type) (B : Interp.BusOps β) (fuel : Nat) (s s' : St (β × Nat)), s.r.size = 16 → s.pc = 0 →
      run (counted B) code (bytesOf (Gen.emitCb b1)) fuel s = .ok s' →
      ∃ l ∈ C, s'.bus.2 = s.bus.2 + l := by
  obtain ⟨code, hdec, hok, h0⟩ := offsetsWf_parts (offsetsWf_cb b1 hb)
  have h := write_count_cb b1 hb
  unfold writesOkCb at h
  simp only [Bool.and_eq_true] at h
  cases hj : JitWrites.jitWrites (Gen.emitCb b1) with
  | none => rw [hj] at h; exact absurd h.1 (by simp)
  | some C =>
    rw [hj] at h
    have hi : JitWrites.interpWrites (Gen.decode 0xcb b1 0).1 (Gen.decode 0xcb b1 0).2.1 = some C := (by simpa using h.2 : some C = _).symm
    refine ⟨code, C, hdec, hi, ?_⟩
    intro β B fuel s s' hsz hpc hrun
    exact jitWrites_sound B _ code C hdec hok hj fuel s s' hsz (by rw [hpc, h0]) hrun

/-! ### "control returns to the emulator with the host process intact", per template, on executions -/

/-- the host discipline of `X86Wf.absStep` (plus: no `[rsp+d]` access straddles two slots) holds on every path of every
template and every path ends with a balanced stack — the same walk `JitPaths.paths` as above -/
theorem host_discipline_unprefixed : ∀ b0, b0 < 2^8 → ((Gen.emitOp b0).isEmpty || JitHost.hostOk (Gen.emitOp b0) == some [0]) = true :=
  forall_lt_of_allRange (fun b0 => (Gen.emitOp b0).isEmpty || JitHost.hostOk (Gen.emitOp b0) == some [0]) 8 (by decide +kernel)

theorem host_discipline_cb : ∀ b1, b1 < 2^8 → (JitHost.hostOk (Gen.emitCb b1) == some [0]) = true :=
  forall_lt_of_allRange (fun b1 => JitHost.hostOk (Gen.emitCb b1) == some [0]) 8 (by decide +kernel)

/-- what holds of every run of the template `t` on the x86 model, from any state with 16 registers at pc 0 over any bus:
a complete run hands back the host stack exactly as it found it (same slots, same contents) and rbp untouched, and a run
with more fuel than the template has instructions never stops for any reason but the panic of a bus access — it never
pops below its frame, touches a stack slot it did not push, calls through anything but the five bus helpers with the
memory base in rdi, lands between two instructions, leaves the template, or loops -/
def HostIntact (t : List Nat) : Prop :=
  ∃ code, decodeCode t = some code ∧
    ∀ (β : Type) (B : Interp.BusOps β) (fuel : Nat) (s : St β), s.r.size = 16 → s.pc = 0 →
      (∀ s', run B code (bytesOf t) fuel s = .ok s' → s'.stack = s.stack ∧ get s' 5 = get s 5) ∧
      (∀ e, code.length < fuel → run B code (bytesOf t) fuel s = .error e → isBus e)

theorem hostIntact_of (t : List Nat) (hwf : offsetsWf t = true) (hh : (JitHost.hostOk t == some [0]) = true) : HostIntact t := by
  obtain ⟨code, hdec, hok, h0⟩ := offsetsWf_parts hwf
  have hC : JitHost.hostOk t = some [0] := by simpa using hh
  refine ⟨code, hdec, ?_⟩
  intro β B fuel s hsz hpc
  exact ⟨fun s' hrun => hostOk_sound B t code _ hdec hok hC fuel s s' hsz (by rw [hpc, h0]) hrun,
         fun e hf hrun => hostOk_safe B t code _ hdec hok hC fuel s e hsz (by rw [hpc, h0]) hf hrun⟩

/-- **host_intact on executions** (all 245 unprefixed templates) -/
theorem host_intact_run_unprefixed (b0 : Nat) (hb : b0 < 2^8) (hne : (Gen.emitOp b0).isEmpty = false) :
    HostIntact (Gen.emitOp b0) := by
  have h := host_discipline_unprefixed b0 hb
  rw [hne, Bool.false_or] at h
  exact hostIntact_of _ (offsetsWf_op hb hne) h

/-- **host_intact on executions** (all 256 CB-prefixed templates) -/
theorem host_intact_run_cb (b1 : Nat) (hb : b1 < 2^8) : HostIntact (Gen.emitCb b1) :=
  hostIntact_of _ (offsetsWf_cb b1 hb) (host_discipline_cb b1 hb)

/-- non-vacuity of the fault clause: on a bus whose writes panic, PUSH BC does stop — with the bus panic, nothing else -/
def panicBus : Interp.BusOps Unit := ⟨fun _ _ => .ok 0, fun _ _ _ => .error (.overflow "test")⟩
example : (match decodeCode (Gen.emitOp 0xc5) with
    | some code => (match run panicBus code (bytesOf (Gen.emitOp 0xc5)) 400
          { r := #[0,0,0x1234,0,0,0,0,ptrVal 512,0,0,0,0,0xc000,0x150,0,7], bus := (), stack := [1,2] } with
        | .error (.bus _) => true
        | _ => false)
    | none => false) = true := by decide +kernel


/-! ### the data side: translated code computes what the interpreter computes

`X86.Simulates b0 b1 b2`: from ANY host state related by `X86.Sim` to a guest register file `g` (guest registers in the low
16 bits of rax rcx rdx rbx r12 r13 r15; everything else arbitrary), over any bus, every complete run of the template of the
encoding `b0` with operand bytes `b1 b2` ends in a host state related to the register file `Interp.runOp` produces from
`g` (cycles included), with the bus, the host stack and the status byte untouched.  The statement for ALL register-only
encodings is `RegisterSimulation`; it is PROVED for the register-transfer family (70 encodings) and for the 8-bit
arithmetic and logic on A with a register or immediate operand, flags included (48 encodings; ADC / SBC: 16 more, `SimulatesF`; INC / DEC r, SCF, CCF: 16 more), and RES / SET b,r of the
CB page (112 encodings: `SimulatesCb`), LD r,(HL) / LD (HL),r and the accumulator loads / stores through BC, DE, HL+ / HL- through the bus helpers (21 encodings: `SimulatesMem`), the eight ALU operations on (HL) and BIT b,r (56 encodings: `SimulatesCbF`), and otherwise carried by the
native differential and the exhaustive `c01.grid`. -/

/-- the full statement for an encoding that touches no memory (not proved in general) -/
def RegisterSimulation : Prop :=
  ∀ b0 b1 b2, b0 < 256 → b1 < 256 → b2 < 256 → (Gen.emitOp b0).isEmpty = false → Simulates b0 b1 b2

/-- **simulation_partial**: LD r,r' (49), LD r,n (7, every operand), LD rr,nn (4, every operand), INC rr / DEC rr (8),
LD SP,HL and NOP — for all states -/
theorem simulation_partial :
    (∀ d s b1 b2, Simulates (opcodeLd8 d s) b1 b2) ∧
    (∀ r b1 b2, b1 < 256 → Simulates (opcodeLdI r) b1 b2) ∧
    (∀ p b1 b2, Simulates (opcodeLd16 p) b1 b2) ∧
    (∀ p b1 b2, Simulates (opcodeInc16 p) b1 b2 ∧ Simulates (opcodeDec16 p) b1 b2) ∧
    (∀ b1 b2, Simulates 0xf9 b1 b2) ∧ (∀ b1 b2, Simulates 0x00 b1 b2) :=
  ⟨sim_ld8, sim_ldi, sim_ld16, fun p b1 b2 => ⟨sim_incdec16 p false b1 b2, sim_incdec16 p true b1 b2⟩, sim_ld_sp_hl, sim_nop⟩


/-- **simulation_alu_partial**: ADD / SUB / AND / XOR / OR A,r and CP r for the seven registers, and their immediate
forms for every operand byte — result AND flags (Z N H C as the interpreter computes them, the low nibble of F kept) —
for all states.  The flags go through the host: `op ah, src` sets RFLAGS, nine instructions move ZF / AF / CF into the
guest's F layout (`X86.flag_pipe`), one or two more fix N and H -/
theorem simulation_alu_partial :
    (∀ r b1 b2, Simulates (opcodeAdd r) b1 b2 ∧ Simulates (opcodeSub r) b1 b2 ∧ Simulates (opcodeAnd r) b1 b2 ∧
      Simulates (opcodeXor r) b1 b2 ∧ Simulates (opcodeOr r) b1 b2 ∧ Simulates (opcodeCp r) b1 b2) ∧
    (∀ b1 b2, b1 < 256 → Simulates 0xc6 b1 b2 ∧ Simulates 0xd6 b1 b2 ∧ Simulates 0xe6 b1 b2 ∧ Simulates 0xee b1 b2 ∧
      Simulates 0xf6 b1 b2 ∧ Simulates 0xfe b1 b2) :=
  ⟨fun r b1 b2 => ⟨sim_add r b1 b2, sim_sub r b1 b2, sim_and r b1 b2, sim_xor r b1 b2, sim_or r b1 b2, sim_cp r b1 b2⟩,
   fun b1 b2 hb => ⟨sim_c6 b1 b2 hb, sim_d6 b1 b2 hb, sim_e6 b1 b2 hb, sim_ee b1 b2 hb, sim_f6 b1 b2 hb, sim_fe b1 b2 hb⟩⟩

/-- ADD A,B = 0x80, SUB L = 0x95, XOR A = 0xAF, CP E = 0xBB -/
example : opcodeAdd .B = 0x80 ∧ opcodeSub .L = 0x95 ∧ opcodeXor .A = 0xaf ∧ opcodeCp .E = 0xbb := by decide


/-- **simulation_cb_partial**: RES b,r and SET b,r for the eight bits and the seven registers (112 encodings of the CB
page) — for all states -/
theorem simulation_cb_partial : ∀ (b : Fin 8) (r : Reg8) (b2 : Nat), SimulatesCb (opcodeRes b r) b2 ∧ SimulatesCb (opcodeSet b r) b2 :=
  fun b r b2 => ⟨sim_res b r b2, sim_set b r b2⟩

/-- RES 0,B = CB 80, SET 7,A = CB FF, and the masks are the bit's -/
example : opcodeRes 0 .B = 0x80 ∧ opcodeSet 7 .A = 0xff ∧ bitMask 3 = 8 := by decide


/-- **simulation_bit_partial**: BIT b,r for the eight bits and the seven registers (56 encodings) — for all states whose F
has a clear low nibble (the template clears that nibble, the interpreter keeps it; no reachable register file has it
set: POP AF masks it, every flag-writing instruction clears or copies it); the template's scratch use of the status byte
leaves 0 or 0x80 there -/
theorem simulation_bit_partial : ∀ (b : Fin 8) (r : Reg8) (b2 : Nat), SimulatesCbF (opcodeBit b r) b2 := sim_bit

example : opcodeBit 7 .H = 0x7c := by decide


/-- **simulation_carry_partial**: ADC A,r / SBC A,r for the seven registers and ADC A,n / SBC A,n for every operand byte
(16 encodings) — result and flags, with the guest's carry carried into the host's CF by `and al,0x10 ; add al,0xf0` —
for all states whose F has a clear low nibble -/
theorem simulation_carry_partial :
    (∀ r b1 b2, SimulatesF (opcodeAdc r) b1 b2 ∧ SimulatesF (opcodeSbc r) b1 b2) ∧
    (∀ b1 b2, b1 < 256 → SimulatesF 0xce b1 b2 ∧ SimulatesF 0xde b1 b2) :=
  ⟨fun r b1 b2 => ⟨sim_adc r b1 b2, sim_sbc r b1 b2⟩, fun b1 b2 hb => ⟨sim_ce b1 b2 hb, sim_de b1 b2 hb⟩⟩

example : opcodeAdc .C = 0x89 ∧ opcodeSbc .A = 0x9f := by decide


/-- **simulation_inc_partial**: INC r / DEC r for the seven registers (register write, then Z N H from the host's ZF / AF
with the guest's C kept) and SCF / CCF / CPL — 17 encodings, for all states -/
theorem simulation_inc_partial :
    (∀ r b1 b2, Simulates (opcodeInc8 r) b1 b2 ∧ Simulates (opcodeDec8 r) b1 b2) ∧
    (∀ b1 b2, Simulates 0x37 b1 b2 ∧ Simulates 0x3f b1 b2 ∧ Simulates 0x2f b1 b2) :=
  ⟨fun r b1 b2 => ⟨sim_inc8 r b1 b2, sim_dec8 r b1 b2⟩, fun b1 b2 => ⟨sim_scf b1 b2, sim_ccf b1 b2, sim_cpl b1 b2⟩⟩

example : opcodeInc8 .A = 0x3c ∧ opcodeDec8 .B = 0x05 := by decide


/-- **simulation_mem_partial** (the bus side): LD r,(HL) and LD (HL),r for the seven registers (14 encodings), for all states
and any bus (reads returning bytes): the template saves the caller-saved guest registers on the host stack, calls
`memory_read_byte` / `memory_write_byte` with the address in rsi and the memory base in rdi, (for a load) pokes the result
into the stack slot of the saved register, and pops them back; the interpreter, run on the bus the host state carries,
performs the SAME access — same address, same byte — and both end with the same bus, related register files, the host
stack and the status byte as they were -/
theorem simulation_mem_partial : ∀ (r : Reg8) (b1 b2 : Nat), SimulatesMem (opcodeLdHl r) b1 b2 ∧ SimulatesMem (opcodeStHl r) b1 b2 :=
  fun r b1 b2 => ⟨sim_ldhl r b1 b2, sim_sthl r b1 b2⟩

/-- the same for the accumulator loads and stores through BC, DE and the auto-incrementing HL: LD A,(BC) / (DE) / (HL+) / (HL-),
LD (BC),A / (DE),A / (HL+),A (7 encodings; HL moves as in the interpreter) -/
theorem simulation_mem_a_partial (b1 b2 : Nat) :
    SimulatesMem 0x0a b1 b2 ∧ SimulatesMem 0x1a b1 b2 ∧ SimulatesMem 0x2a b1 b2 ∧ SimulatesMem 0x3a b1 b2 ∧
    SimulatesMem 0x02 b1 b2 ∧ SimulatesMem 0x12 b1 b2 ∧ SimulatesMem 0x22 b1 b2 :=
  ⟨sim_0a b1 b2, sim_1a b1 b2, sim_ldi_ldd false b1 b2, sim_ldi_ldd true b1 b2, sim_st_a false b1 b2, sim_st_a true b1 b2, sim_sti b1 b2⟩

/-- **simulation_mem_dec_partial**: LD (HL-),A (0x32), the decrementing twin of LD (HL+),A — the same bus write as the interpreter (address
HL, byte A), then HL one lower modulo 2^16 exactly as the interpreter's `(hl + 0xffffffff) & 0xffff`; host stack and status byte untouched
(`Proofs/X86SimMemDec.lean`: the literals are kept opaque so that neither the elaborator nor the kernel unfolds `Nat.add _ 4294967295`). -/
theorem simulation_mem_dec_partial (b1 b2 : Nat) : SimulatesMem 0x32 b1 b2 := sim_std b1 b2

/-- **simulation_mem_imm_partial**: LD (HL),n (0x36) for every operand byte — the template's helper call writes the operand byte (read
from the instruction stream, the state's `op1`) at HL, exactly the interpreter's bus write; registers, host stack and status byte untouched
(`Proofs/X86SimMemImm.lean`: `sti_body`, the store body with an immediate source). -/
theorem simulation_mem_imm_partial (b1 b2 : Nat) (h : b1 < 256) : SimulatesMem 0x36 b1 b2 := sim_sthli b1 b2 h

example : opcodeLdHl .A = 0x7e ∧ opcodeStHl .B = 0x70 := by decide


/-- **simulation_mem_alu_partial**: ADD / SUB / AND / XOR / OR A,(HL) and CP (HL) for all states, ADC / SBC A,(HL) for all states
whose F has a clear low nibble (8 encodings): the template reads the byte into dl with DE saved on the host stack, runs the
register form of the operation (the same body lemmas as `simulation_alu_partial`) and pops DE back; the interpreter
performs the same read -/
theorem simulation_mem_alu_partial (b1 b2 : Nat) :
    SimulatesMem 0x86 b1 b2 ∧ SimulatesMem 0x96 b1 b2 ∧ SimulatesMem 0xa6 b1 b2 ∧ SimulatesMem 0xae b1 b2 ∧ SimulatesMem 0xb6 b1 b2 ∧
    SimulatesMem 0xbe b1 b2 ∧ SimulatesMemF 0x8e b1 b2 ∧ SimulatesMemF 0x9e b1 b2 :=
  ⟨sim_86 b1 b2, sim_96 b1 b2, sim_a6 b1 b2, sim_ae b1 b2, sim_b6 b1 b2, sim_be b1 b2, sim_8e b1 b2, sim_9e b1 b2⟩

/-- **simulation_shift_partial**: SLA r / SRA r / SRL r and SWAP r for the seven registers (28 encodings of the CB page) —
the register write (`shl|sar|shr r8,1`, `rol r8,4`), then Z and C (Z only for SWAP) from the host's flags with F's low
nibble kept — for all states -/
theorem simulation_shift_partial : ∀ (r : Reg8) (b2 : Nat),
    (∀ k : Sh3, SimulatesCb (opcodeSh k r) b2) ∧ SimulatesCb (opcodeSwap r) b2 :=
  fun r b2 => ⟨fun k => sim_sh k r b2, sim_swap r b2⟩

/-- SLA B = CB 20, SRA A = CB 2F, SRL L = CB 3D, SWAP E = CB 33 -/
example : opcodeSh .sla .B = 0x20 ∧ opcodeSh .sra .A = 0x2f ∧ opcodeSh .srl .L = 0x3d ∧ opcodeSwap .E = 0x33 := by decide


/-- **simulation_rot_partial**: the rotates. RLCA / RRCA for all states; RLC r / RRC r for the seven registers for all states
(the template computes Z through `or r8,r8 ; sete r14b ; ror r14b,1 ; or al,r14b` and leaves 0 or 0x80 in the status byte,
class normal: `SimulatesCbS`); RLA / RRA and RL r / RR r for all states whose F has a clear low nibble (the guest's C is
moved into the host's CF by `and al,0x10 ; add al,0xf0`, which destroys F; the interpreter keeps F's low nibble) —
32 encodings -/
theorem simulation_rot_partial :
    (∀ (k : Rc2) b1 b2, Simulates (opcodeRcA k) b1 b2) ∧ (∀ (k : Rc2) r b2, SimulatesCbS (opcodeRc k r) b2) ∧
    (∀ (k : Rt2) b1 b2, SimulatesF (opcodeRtA k) b1 b2) ∧ (∀ (k : Rt2) r b2, SimulatesCbF (opcodeRt k r) b2) :=
  ⟨fun k b1 b2 => sim_rca k b1 b2, fun k r b2 => sim_rc k r b2, fun k b1 b2 => sim_rta k b1 b2, fun k r b2 => sim_rt k r b2⟩

/-- RLCA = 07, RRCA = 0F, RLA = 17, RRA = 1F; RLC B = CB 00, RRC A = CB 0F, RL C = CB 11, RR A = CB 1F -/
example : opcodeRcA .rlc = 0x07 ∧ opcodeRcA .rrc = 0x0f ∧ opcodeRtA .rl = 0x17 ∧ opcodeRtA .rr = 0x1f ∧
    opcodeRc .rlc .B = 0x00 ∧ opcodeRc .rrc .A = 0x0f ∧ opcodeRt .rl .C = 0x11 ∧ opcodeRt .rr .A = 0x1f := by decide

/-- **simulation_jump_partial**: the first block terminators — JP nn for every operand and JP HL, for all states: the template
loads the guest PC (`mov r13w, imm16` / `mov r13w, cx`) and charges the cycles; the interpreter sets `ip` to the same value -/
theorem simulation_jump_partial (b1 b2 : Nat) : Simulates 0xc3 b1 b2 ∧ Simulates 0xe9 b1 b2 :=
  ⟨sim_jp b1 b2, sim_jphl b1 b2⟩


/-- **simulation_mem_abs_partial** (the bus side, addresses that are not a register pair): LDH (n),A / LDH A,(n) for every
operand byte, LD (nn),A / LD A,(nn) for every operand, LD (C),A / LD A,(C) — 6 encodings, for all states and any bus: the
address is computed into rsi (`mov si, imm16` or `mov si, bx ; or si, 0xff00`), the helper is called with the registers
saved on the host stack, a load pokes the byte into the saved A; the interpreter performs the same access -/
theorem simulation_mem_abs_partial (b1 b2 : Nat) (h1 : b1 < 256) (h2 : b2 < 256) :
    SimulatesMem 0xe0 b1 b2 ∧ SimulatesMem 0xf0 b1 b2 ∧ SimulatesMem 0xea b1 b2 ∧ SimulatesMem 0xfa b1 b2 ∧
    SimulatesMem 0xe2 b1 b2 ∧ SimulatesMem 0xf2 b1 b2 :=
  ⟨sim_e0 b1 b2 h1, sim_f0 b1 b2 h1, sim_ea b1 b2 h1 h2, sim_fa b1 b2 h1 h2, sim_e2 b1 b2, sim_f2 b1 b2⟩

/-- **simulation_rmw_partial** (the bus side, read-modify-write on (HL)): RES b,(HL) and SET b,(HL) for the eight bits, SLA / SRA /
SRL / SWAP (HL), INC (HL) and DEC (HL), RLC (HL) and RRC (HL) (these two leave 0 or 0x80 in the status byte) — 24 encodings, for all
states and any bus. ONE wrapper (`X86.rmw_wrap`) covers them all: the
template reads (HL) into dl with rax rcx rdx on the host stack, reloads AF into ax, runs the REGISTER form of the operation on
dl (= the host location of E, so the body lemmas of `simulation_cb_partial` / `_shift_partial` / `_inc_partial` apply to a
register file whose E is the byte read), stores al into the saved F, reloads the address from the saved rcx, writes dl back and
pops; the interpreter's `rmwHL` with the (HL) form of the operation reads the same byte, writes the same byte to the same
address and ends in a related register file -/
theorem simulation_rmw_partial (b1 b2 : Nat) :
    (∀ b : Fin 8, SimulatesCbMem (opcodeResHl b) b2 ∧ SimulatesCbMem (opcodeSetHl b) b2) ∧
    (∀ k : Sh3, SimulatesCbMem (opcodeShHl k) b2) ∧ SimulatesCbMem 0x36 b2 ∧ SimulatesMem 0x34 b1 b2 ∧ SimulatesMem 0x35 b1 b2 ∧
    (∀ k : Rc2, SimulatesCbMemS (opcodeRcHl k) b2) :=
  ⟨fun b => ⟨sim_reshl b b2, sim_sethl b b2⟩, fun k => sim_shhl k b2, sim_swaphl b2, sim_inchl b1 b2, sim_dechl b1 b2, fun k => sim_rchl k b2⟩

/-- RES 0,(HL) = CB 86, SET 7,(HL) = CB FE, SLA (HL) = CB 26, SRA (HL) = CB 2E, SRL (HL) = CB 3E -/
example : opcodeResHl 0 = 0x86 ∧ opcodeSetHl 7 = 0xfe ∧ opcodeShHl .sla = 0x26 ∧ opcodeShHl .sra = 0x2e ∧ opcodeShHl .srl = 0x3e ∧
    opcodeRcHl .rlc = 0x06 ∧ opcodeRcHl .rrc = 0x0e := by decide

/-- **simulation_bithl_partial**: BIT b,(HL) for the eight bits, for all states whose F has a clear low nibble and any bus: the
read-only sibling of the wrapper (`X86.rmr_wrap`: read (HL) into dl, reload AF, run the register form of BIT on dl with r14b as
scratch, store al into the saved F, pop — no write-back); the bus is unchanged, the status byte is left at 0 or 0x80 -/
theorem simulation_bithl_partial (b2 : Nat) : ∀ b : Fin 8, SimulatesCbMemSF (opcodeBitHl b) b2 := fun b => sim_bithl b b2

example : opcodeBitHl 0 = 0x46 ∧ opcodeBitHl 7 = 0x7e := by decide

/-- **simulation_rthl_partial**: RL (HL) and RR (HL), for all states whose F has a clear low nibble and any bus: the wrapper of
`simulation_rmw_partial` around the register form of RL / RR at the template's offsets (`X86.rt_body_at`: carry preamble, rotate
through carry, flag conversion, Z tail); the status byte is left at 0 or 0x80 -/
theorem simulation_rthl_partial (b2 : Nat) : ∀ k : Rt2, SimulatesCbMemSF (opcodeRtHl k) b2 := fun k => sim_rthl k b2

example : opcodeRtHl .rl = 0x16 ∧ opcodeRtHl .rr = 0x1e := by decide

/-- the opcodes covered are the SM83's: LD B,C = 0x41, LD A,n = 0x3E, LD SP,nn = 0x31, DEC HL = 0x2B -/
example : opcodeLd8 .B .C = 0x41 ∧ opcodeLdI .A = 0x3e ∧ opcodeLd16 .SP = 0x31 ∧ opcodeDec16 .HL = 0x2b := by decide

/-- non-vacuity: a host state that is related to a guest register file, from which LD B,C does run to completion -/
def exGuest : Interp.Regs := { af := 0x01b0, bc := 0x0013, de := 0x00d8, hl := 0x014d, sp := 0xfffe, ip := 0x0150, cycles := 7 }
def exHost : St Unit :=
  { r := #[0xabcd01b0, 0x7777014d, 0x00d8, 0xffff0013, 0, 0, 0, 0, 0, 0, 0, 0, 0x1234fffe, 0x99990150, 0, 0x50007], bus := () }
example : Sim exGuest exHost := by constructor <;> decide
example : (match decodeCode (Gen.emitOp 0x41) with
    | some code => (match run JitCycles.nullBus code (bytesOf (Gen.emitOp 0x41)) 10 exHost with
        | .ok s' => (get s' 3).toNat % 65536 == 0x1313 && (get s' 13).toNat % 65536 == 0x151
        | .error _ => false)
    | none => false) = true := by decide +kernel

/-- non-vacuity: SUB B from the example state (A = 0x01, B = 0x00, F = 0xB0) runs and leaves AF = 0x01 / N set, others clear -/
example : (match decodeCode (Gen.emitOp 0x90) with
    | some code => (match run JitCycles.nullBus code (bytesOf (Gen.emitOp 0x90)) 20 exHost with
        | .ok s' => (get s' 0).toNat % 65536 == 0x0140
        | .error _ => false)
    | none => false) = true := by decide +kernel
example : (Interp.opSub exGuest (Interp.getReg exGuest .B)).af = 0x0140 := by decide


/-! non-vacuity of the run-level theorems: templates do run to completion on the model from a state that meets the
hypotheses (16 registers, pc = 0, r14b = 0, memory base in rdi), over a counting bus: PUSH BC (PC+1, SP−2, two byte writes),
CALL NZ taken (SP−2, two writes) and not taken (PC+3, nothing written), HALT (status class 2), POP BC (SP+2) -/
def exSt (f : Nat) : St (Unit × Nat) :=
  { r := #[BitVec.ofNat 64 f,0,0x1234,0,0,0,0,ptrVal 512,0,0,0,0,0xc000,0x150,0,7], bus := ((), 0), stack := [1,2] }
def exAfter (b0 f : Nat) : Option (Nat × Nat × Nat × Nat) :=
  match decodeCode (Gen.emitOp b0) with
  | none => none
  | some code => match run (counted JitCycles.nullBus) code (bytesOf (Gen.emitOp b0)) 400 (exSt f) with
    | .ok s' => some ((get s' 13).toNat, (get s' 12).toNat % 65536, r14b s', s'.bus.2)
    | .error _ => none
example : (exSt 0).r.size = 16 ∧ (exSt 0).pc = 0 ∧ JitStatus.statusClass (r14b (exSt 0)) = 0 := by decide
example : exAfter 0xc5 0 = some (0x150 + 1, 0xc000 - 2, 0, 2) := by decide +kernel
example : exAfter 0xc4 0x00 = some (0, 0xc000 - 2, 0, 2) ∧ exAfter 0xc4 0x80 = some (0x150 + 3, 0xc000, 0, 0) := by decide +kernel
example : exAfter 0x76 0 = some (0x150 + 1, 0xc000, 2, 0) ∧ exAfter 0xc1 0 = some (0x150 + 1, 0xc000 + 2, 0, 0) := by decide +kernel

end GbVerif.C01
