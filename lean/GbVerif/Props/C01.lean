import GbVerif.Model.Cache
/-!
C01 — translated blocks have the same architectural effect as the interpreter.
(Structural facts first; the x86 model and per-template simulation lemmas are added by `Proofs/X86*.lean`.)
-/
namespace GbVerif.C01

/-- the status byte as `Core::run_code_block` reads it: 4 and 5 both enable interrupts, anything unknown is "normal" -/
def statusClass (st : Nat) : Nat :=
  if st = 1 then 1 else if st = 2 then 2 else if st = 3 then 3 else if st = 4 ∨ st = 5 then 4 else 0

/-- RETI returns STATUS_INTERRUPT_ENABLE from translated code and STATUS_INTERRUPT_ENABLE_IMMEDIATE from the interpreter:
the same outcome for the block-stepped core -/
theorem reti_status_same_class : statusClass 4 = statusClass 5 := by decide

end GbVerif.C01
