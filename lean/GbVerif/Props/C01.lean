import GbVerif.Model.Cache
import GbVerif.Model.X86Wf
import GbVerif.Model.JitIp
import GbVerif.Model.JitSp
import GbVerif.Model.JitStatus
import GbVerif.Model.JitWrites
import GbVerif.Proofs.Enum
/-!
C01 — translated blocks have the same architectural effect as the interpreter.
(Structural facts first; the x86 model and per-template simulation lemmas are added by `Proofs/X86*.lean`.)
-/
namespace GbVerif.C01

/-- the status byte as `Core::run_code_block` reads it: 4 and 5 both enable interrupts, anything unknown is "normal" -/
def statusClass (st : Nat) : Nat :=
  if st = 1 then 1 else if st = 2 then 2 else if st = 3 then 3 else if st = 4 ∨ st = 5 then 4 else 0

/-- RETI returns STATUS_INTERRUPT_ENABLE from translated code and STATUS_INTERRUPT_ENABLE_IMMEDIATE from the interpreter:
the same outcome for the block-stepped core -/
theorem reti_status_same_class : statusClass 4 = statusClass 5 := by decide

open GbVerif.Enum GbVerif.X86 GbVerif.X86Wf

/-- **emit_wf (unprefixed)**: for every defined unprefixed encoding the code produced by the real emitter (regenerated table)
decodes completely inside the modelled x86-64 subset; every `rel8` jump goes forward to an instruction boundary inside the
template or to its end; on every path pushes and pops balance, never pop below the entry depth, and `[rsp+d]` accesses stay
inside the slots the template itself pushed; `call rax` happens only with a bus-helper pointer in rax and the memory base in
rdi; rsp, rbp, r8–r11 are never written, r14 only by a status move or the zero-flag idiom; control never leaves the template
other than by falling off its end -/
theorem emit_wf_unprefixed : ∀ b0, b0 < 2^8 → ((Gen.emitOp b0).isEmpty || wfTemplate (Gen.emitOp b0)) = true :=
  forall_lt_of_allRange (fun b0 => (Gen.emitOp b0).isEmpty || wfTemplate (Gen.emitOp b0)) 8 (by decide +kernel)

/-- **emit_wf (CB page)** -/
theorem emit_wf_cb : ∀ b1, b1 < 2^8 → wfTemplate (Gen.emitCb b1) = true :=
  forall_lt_of_allRange (fun b1 => wfTemplate (Gen.emitCb b1)) 8 (by decide +kernel)

/-- **host_intact (static part)**: the entry stub saves rbx rbp r12–r15 (then the two arguments it needs later), the exit stub
pops the register-file pointer, restores exactly those six registers in reverse order and returns; the block tail pops the
exit stub's address and jumps to it -/
theorem host_frame_symmetric :
    (decodeCode Gen.emitPrologue).map pushes = some [3, 5, 12, 13, 14, 15, 7, 2] ∧
    (decodeCode Gen.emitEpilogue).map pops = some [7, 15, 14, 13, 12, 5, 3] ∧
    (decodeCode Gen.emitBlockEnd).map (fun c => c.map (·.2)) = some [.pop 7, .jmpReg 7] ∧
    ((decodeCode Gen.emitEpilogue).map fun c => c.getLast?.map (·.2)) = some (some .ret) := by
  decide +kernel


/-! ### program-counter bookkeeping of translated code -/

/-- for one unprefixed encoding that does not end its block: along every path through the emitted code, r13 (the guest
PC) is touched only by `add r13, imm8` and the immediates add up to the instruction's encoded length -/
def ipOkOp (b0 : Nat) : Bool :=
  let t := Gen.emitOp b0
  if t.isEmpty then true else
  let (op, len, _) := Gen.decode b0 0 0
  if Gen.isBlockEnd op then true else JitIp.jitIp t == some [len]

def ipOkCb (b1 : Nat) : Bool :=
  let (_, len, _) := Gen.decode 0xcb b1 0
  JitIp.jitIp (Gen.emitCb b1) == some [len]

/-- **ip_advance**: every translated instruction that does not end its block advances the guest PC by exactly its
encoded length, on every path through its code, and writes the PC register in no other way (all 501 encodings; the
tables are regenerated from the emitter and the decoder on every run) -/
theorem ip_advance_unprefixed : ∀ b0, b0 < 2^8 → ipOkOp b0 = true :=
  forall_lt_of_allRange ipOkOp 8 (by decide +kernel)

theorem ip_advance_cb : ∀ b1, b1 < 2^8 → ipOkCb b1 = true :=
  forall_lt_of_allRange ipOkCb 8 (by decide +kernel)

/-- non-vacuity: `LD A,n` is such an instruction and advances by 2; `JR NZ` ends its block and is exempt -/
example : Gen.isBlockEnd (Gen.decode 0x3e 0 0).1 = false ∧ JitIp.jitIp (Gen.emitOp 0x3e) = some [2] ∧
    Gen.isBlockEnd (Gen.decode 0x20 0 0).1 = true := by decide +kernel


/-! ### stack-pointer bookkeeping of translated code -/

/-- for one unprefixed encoding: the set of net changes (mod 2^16) of r12, the guest SP, over all paths through the
emitted code equals the set of changes the interpreter model makes to SP over both flag outcomes; the only encodings
whose code writes SP in a way the path analysis does not follow are the three that load it with a computed value
(LD SP,nn / ADD SP,e / LD SP,HL) -/
def spOkOp (b0 : Nat) : Bool :=
  let t := Gen.emitOp b0
  if t.isEmpty then true else
  let (op, len, _) := Gen.decode b0 0 0
  match JitSp.jitSp t with
  | some a => some a == JitSp.interpSp op len
  | none => b0 == 0x31 || b0 == 0xe8 || b0 == 0xf9

/-- **sp_delta**: PUSH, CALL (taken), RST move SP by −2, POP, RET (taken), RETI by +2, INC/DEC SP by ±1, not-taken CALL / RET
and every other instruction by 0 — in translated code on every path, exactly as in the interpreter, for every state
(the change does not depend on the state); r12 is written in no other way -/
theorem sp_delta_unprefixed : ∀ b0, b0 < 2^8 → spOkOp b0 = true :=
  forall_lt_of_allRange spOkOp 8 (by decide +kernel)

/-- no CB-prefixed instruction touches SP -/
theorem sp_delta_cb : ∀ b1, b1 < 2^8 → (JitSp.jitSp (Gen.emitCb b1) == some [0]) = true :=
  forall_lt_of_allRange (fun b1 => JitSp.jitSp (Gen.emitCb b1) == some [0]) 8 (by decide +kernel)

/-- non-vacuity: CALL NZ has the two outcomes 0 and −2, POP BC has +2 -/
example : JitSp.jitSp (Gen.emitOp 0xc4) = some [0, 65534] ∧ JitSp.jitSp (Gen.emitOp 0xc1) = some [2] := by decide +kernel


/-! ### the status a translated instruction returns -/

def statusOkOp (b0 : Nat) : Bool :=
  let t := Gen.emitOp b0
  if t.isEmpty then true else
  let (op, len, _) := Gen.decode b0 0 0
  (JitStatus.jitStatus t).isSome && JitStatus.jitStatus t == JitStatus.interpStatus op len

/-- **status_class**: over every path through the code of every instruction, the class of what the path leaves in the
status byte r14b (normal if it leaves it alone or writes it with the zero-flag idiom) is the class of the status the
interpreter model returns for that instruction: STOP, HALT, DI, EI/RETI set theirs, everything else — including every
instruction that merely precedes the terminator in a block — leaves a status of class normal -/
theorem status_class_unprefixed : ∀ b0, b0 < 2^8 → statusOkOp b0 = true :=
  forall_lt_of_allRange statusOkOp 8 (by decide +kernel)

theorem status_class_cb : ∀ b1, b1 < 2^8 → (JitStatus.jitStatus (Gen.emitCb b1) == some [0]) = true :=
  forall_lt_of_allRange (fun b1 => JitStatus.jitStatus (Gen.emitCb b1) == some [0]) 8 (by decide +kernel)

/-- non-vacuity: HALT returns class 2, RETI the EI class (the interpreter's 5 and the recompiler's 4 are one class), RLC B normal -/
example : JitStatus.jitStatus (Gen.emitOp 0x76) = some [2] ∧ JitStatus.jitStatus (Gen.emitOp 0xd9) = some [4] ∧
    JitStatus.interpStatus (Gen.decode 0xd9 0 0).1 1 = some [4] ∧ JitStatus.jitStatus (Gen.emitCb 0x00) = some [0] := by decide +kernel


/-! ### how many bytes a translated instruction writes to the bus -/

def writesOkOp (b0 : Nat) : Bool :=
  let t := Gen.emitOp b0
  if t.isEmpty then true else
  let (op, len, _) := Gen.decode b0 0 0
  (JitWrites.jitWrites t).isSome && JitWrites.jitWrites t == JitWrites.interpWrites op len

def writesOkCb (b1 : Nat) : Bool :=
  let (op, len, _) := Gen.decode 0xcb b1 0
  (JitWrites.jitWrites (Gen.emitCb b1)).isSome && JitWrites.jitWrites (Gen.emitCb b1) == JitWrites.interpWrites op len

/-- **write_count**: over every path through the code of every instruction, translated code calls the bus helpers for
exactly as many byte writes (one per `memory_write_byte`, two per `memory_write_word` / `memory_push_word`) as the
interpreter model performs for that instruction and branch outcome — 0, 1 or 2; an instruction that must not write
(e.g. BIT n,(HL), CP (HL), a not-taken CALL) does not -/
theorem write_count_unprefixed : ∀ b0, b0 < 2^8 → writesOkOp b0 = true :=
  forall_lt_of_allRange writesOkOp 8 (by decide +kernel)

theorem write_count_cb : ∀ b1, b1 < 2^8 → writesOkCb b1 = true :=
  forall_lt_of_allRange writesOkCb 8 (by decide +kernel)

/-- non-vacuity: CALL NZ writes 0 or 2 bytes, BIT 0,(HL) none, RES 0,(HL) one, LD (nn),SP two -/
example : JitWrites.jitWrites (Gen.emitOp 0xc4) = some [0, 2] ∧ JitWrites.jitWrites (Gen.emitCb 0x46) = some [0] ∧
    JitWrites.jitWrites (Gen.emitCb 0x86) = some [1] ∧ JitWrites.jitWrites (Gen.emitOp 0x08) = some [2] := by decide +kernel

end GbVerif.C01
