import GbVerif.Proofs.PpuBits
import GbVerif.Proofs.PpuSel
/-!
C15 — the frame presented at VBlank equals the reference composition.
Property theorems only; lemmas are in `Proofs/Ppu*.lean`.
Model: `Model/Ppu.lean` (mirror of `src/devices/video/*.rs`); spec: `Spec/Frame.lean`.
-/
namespace GbVerif.C15
open GbVerif.Ppu GbVerif.FrameSpec GbVerif.PpuBits GbVerif.PpuObj GbVerif.PpuSel

/-! ### stage (i): bit tricks and tile addressing -/

/-- `tile::interleave` (64-bit multiply trick) is the bit interleave of its two arguments:
bit `2k` = bit `k` of `low`, bit `2k+1` = bit `k` of `high` (all 2^16 pairs, kernel-enumerated). -/
theorem interleave_spec (low high : Nat) (hl : low < 256) (hh : high < 256) :
    interleave low high = interleaveBits low high :=
  interleave_eq low high hl hh

/-- … hence after `c` two-bit left shifts of the 16-bit register its top two bits are the 2bpp colour
index of column `c` (0 = leftmost) of the tile row. -/
theorem interleave_pixel (low high c : Nat) (hl : low < 256) (hh : high < 256) (hc : c < 8) :
    ((interleave low high <<< (2 * c)) % 65536) / 16384 = bit low (7 - c) + 2 * bit high (7 - c) :=
  shiftedOut_interleave low high c hl hh hc

/-- the X-flip multiply trick of `get_object_row` is the bit reversal of a byte (all 256 bytes). -/
theorem flip_spec (b : Nat) (hb : b < 256) :
    flipByte b = reverseBits b ∧ ∀ k, k < 8 → bit (flipByte b) k = bit b (7 - k) :=
  ⟨(flip_eq b hb).1, (flip_eq b hb).2.2⟩

/-- `get_tile_address` after `set_lcd_control(lcdc)` is the LCDC.4 addressing of the hardware:
unsigned from 0x8000 when set, signed from 0x9000 when clear (all 256 indices × all 256 LCDC values). -/
theorem tile_address_spec (r : Ppu.Regs) (idx : Nat) (hl : r.lcdc < 256) (hi : idx < 256) :
    getTileAddress (Cfg.ofRegs r) idx = bgTileData (toSpec r) idx :=
  tileAddr_eq r idx hl hi

/-! ### stage (ii): the object line cache

Hypotheses of the stage theorems: all registers are bytes (`RegsOk`), VRAM is 8 KiB and OAM 160
bytes of bytes (`IsBytes`); `mem a` is the array `a` read as the reference's memory function. -/

/-- `find_current_line_sprites` never panics and leaves in `object_line_cache[x + 8]`, for every
screen column `x`, the reference's winning opaque object pixel at (x, ly) — selection of at most ten
objects in OAM order, 8×16 tile pairs, both flips, lowest X then lowest OAM index — encoded as
`present | priority (= not BG-over-OBJ) | palette | colour`, and 0 where the reference shows no object
(`cacheByteSpec`, which is defined from `FrameSpec.winnerOf`/`selected`/`objColour` only). -/
theorem object_cache_spec (r : Ppu.Regs) (vram oam : Array Nat) (ly : Nat) (hr : RegsOk r)
    (hv : vram.size = 8192) (ho : oam.size = 160) (hvb : IsBytes vram) (hob : IsBytes oam) :
    ∃ cache, findCurrentLineSprites (Cfg.ofRegs r) vram oam ly = .ok cache ∧ cache.size = 176 ∧
      ∀ x, x < 160 → mem cache (x + 8) = cacheByteSpec (toSpec r) (mem vram) (mem oam) x ly :=
  findSprites_spec r hr vram oam hv ho hvb hob ly

/-- the reference's `winnerOf`, read declaratively: the object it returns has an opaque pixel at
(x, ly) and beats (lower X, or equal X and lower OAM index) every candidate that has one. -/
theorem winner_is_least (r : FrameSpec.Regs) (vram oam : Mem) (sel : List Nat) (x ly i : Nat)
    (h : winnerOf r vram oam sel x ly = some i) :
    i ∈ sel ∧ objColour r vram oam i x ly ≠ 0 ∧
      ∀ j ∈ sel, objColour r vram oam j x ly ≠ 0 →
        objX oam i < objX oam j ∨ (objX oam i = objX oam j ∧ i ≤ j) := by
  unfold winnerOf at h
  have hm := List.mem_of_find?_eq_some h
  have hp := List.find?_some h
  simp only [Bool.and_eq_true, bne_iff_ne, ne_eq, List.all_eq_true, Bool.or_eq_true, beq_iff_eq] at hp
  refine ⟨hm, hp.1, ?_⟩
  intro j hj hc
  rcases hp.2 j hj with h0 | hb
  · exact absurd h0 hc
  · unfold beats at hb
    simp only [Bool.or_eq_true, Bool.and_eq_true, decide_eq_true_eq] at hb
    exact hb

/-- non-vacuity: registers and memories meeting the hypotheses on which an object pixel is shown
(forty 8×8 objects at Y=16, X=16, all opaque: ten are selected, OAM entry 0 wins at x=8, ly=0,
with OBP1 and priority over the BG: byte 0xC7). -/
example :
    let r : Ppu.Regs := ⟨0x83, 0, 0, 0, 0, 0xe4, 0xe4, 0xe4⟩
    let vram := Array.replicate 8192 255
    let oam := Array.replicate 160 16
    RegsOk r ∧ vram.size = 8192 ∧ oam.size = 160 ∧ IsBytes vram ∧ IsBytes oam ∧
      cacheByteSpec (toSpec r) (mem vram) (mem oam) 8 0 = 0xc7 := by
  refine ⟨⟨by decide, by decide, by decide, by decide, by decide, by decide, by decide, by decide⟩,
    by simp, by simp, isBytes_replicate _ _ (by decide), isBytes_replicate _ _ (by decide), ?_⟩
  decide +kernel

end GbVerif.C15
