import GbVerif.Proofs.PpuBits
/-!
C15 — the frame presented at VBlank equals the reference composition.
Property theorems only; lemmas are in `Proofs/Ppu*.lean`.
Model: `Model/Ppu.lean` (mirror of `src/devices/video/*.rs`); spec: `Spec/Frame.lean`.
-/
namespace GbVerif.C15
open GbVerif.Ppu GbVerif.FrameSpec GbVerif.PpuBits

/-! ### stage (i): bit tricks and tile addressing -/

/-- `tile::interleave` (64-bit multiply trick) is the bit interleave of its two arguments:
bit `2k` = bit `k` of `low`, bit `2k+1` = bit `k` of `high` (all 2^16 pairs, kernel-enumerated). -/
theorem interleave_spec (low high : Nat) (hl : low < 256) (hh : high < 256) :
    interleave low high = interleaveBits low high :=
  interleave_eq low high hl hh

/-- … hence after `c` two-bit left shifts of the 16-bit register its top two bits are the 2bpp colour
index of column `c` (0 = leftmost) of the tile row. -/
theorem interleave_pixel (low high c : Nat) (hl : low < 256) (hh : high < 256) (hc : c < 8) :
    ((interleave low high <<< (2 * c)) % 65536) / 16384 = bit low (7 - c) + 2 * bit high (7 - c) :=
  shiftedOut_interleave low high c hl hh hc

/-- the X-flip multiply trick of `get_object_row` is the bit reversal of a byte (all 256 bytes). -/
theorem flip_spec (b : Nat) (hb : b < 256) :
    flipByte b = reverseBits b ∧ ∀ k, k < 8 → bit (flipByte b) k = bit b (7 - k) :=
  ⟨(flip_eq b hb).1, (flip_eq b hb).2.2⟩

/-- `get_tile_address` after `set_lcd_control(lcdc)` is the LCDC.4 addressing of the hardware:
unsigned from 0x8000 when set, signed from 0x9000 when clear (all 256 indices × all 256 LCDC values). -/
theorem tile_address_spec (r : Ppu.Regs) (idx : Nat) (hl : r.lcdc < 256) (hi : idx < 256) :
    getTileAddress (Cfg.ofRegs r) idx = bgTileData (toSpec r) idx :=
  tileAddr_eq r idx hl hi

end GbVerif.C15
