import GbVerif.Proofs.PpuBits
import GbVerif.Proofs.PpuSel
import GbVerif.Proofs.PpuFrame
import GbVerif.Proofs.PpuCompose
/-!
C15 — the frame presented at VBlank equals the reference composition.
Property theorems only; lemmas are in `Proofs/Ppu*.lean`.
Model: `Model/Ppu.lean` (mirror of `src/devices/video/*.rs`); spec: `Spec/Frame.lean`.
-/
namespace GbVerif.C15
open GbVerif.Ppu GbVerif.FrameSpec GbVerif.PpuBits GbVerif.PpuObj GbVerif.PpuSel GbVerif.PpuLine GbVerif.PpuFrame GbVerif.PpuCompose

/-! ### stage (i): bit tricks and tile addressing -/

/-- `tile::interleave` (64-bit multiply trick) is the bit interleave of its two arguments:
bit `2k` = bit `k` of `low`, bit `2k+1` = bit `k` of `high` (all 2^16 pairs, kernel-enumerated). -/
theorem interleave_spec (low high : Nat) (hl : low < 256) (hh : high < 256) :
    interleave low high = interleaveBits low high :=
  interleave_eq low high hl hh

/-- … hence after `c` two-bit left shifts of the 16-bit register its top two bits are the 2bpp colour
index of column `c` (0 = leftmost) of the tile row. -/
theorem interleave_pixel (low high c : Nat) (hl : low < 256) (hh : high < 256) (hc : c < 8) :
    ((interleave low high <<< (2 * c)) % 65536) / 16384 = bit low (7 - c) + 2 * bit high (7 - c) :=
  shiftedOut_interleave low high c hl hh hc

/-- the X-flip multiply trick of `get_object_row` is the bit reversal of a byte (all 256 bytes). -/
theorem flip_spec (b : Nat) (hb : b < 256) :
    flipByte b = reverseBits b ∧ ∀ k, k < 8 → bit (flipByte b) k = bit b (7 - k) :=
  ⟨(flip_eq b hb).1, (flip_eq b hb).2.2⟩

/-- `get_tile_address` after `set_lcd_control(lcdc)` is the LCDC.4 addressing of the hardware:
unsigned from 0x8000 when set, signed from 0x9000 when clear (all 256 indices × all 256 LCDC values). -/
theorem tile_address_spec (r : Ppu.Regs) (idx : Nat) (hl : r.lcdc < 256) (hi : idx < 256) :
    getTileAddress (Cfg.ofRegs r) idx = bgTileData (toSpec r) idx :=
  tileAddr_eq r idx hl hi

/-! ### stage (ii): the object line cache

Hypotheses of the stage theorems: all registers are bytes (`RegsOk`), VRAM is 8 KiB and OAM 160
bytes of bytes (`IsBytes`); `mem a` is the array `a` read as the reference's memory function. -/

/-- `find_current_line_sprites` never panics and leaves in `object_line_cache[x + 8]`, for every
screen column `x`, the reference's winning opaque object pixel at (x, ly) — selection of at most ten
objects in OAM order, 8×16 tile pairs, both flips, lowest X then lowest OAM index — encoded as
`present | priority (= not BG-over-OBJ) | palette | colour`, and 0 where the reference shows no object
(`cacheByteSpec`, which is defined from `FrameSpec.winnerOf`/`selected`/`objColour` only). -/
theorem object_cache_spec (r : Ppu.Regs) (vram oam : Array Nat) (ly : Nat) (hr : RegsOk r)
    (hv : vram.size = 8192) (ho : oam.size = 160) (hvb : IsBytes vram) (hob : IsBytes oam) :
    ∃ cache, findCurrentLineSprites (Cfg.ofRegs r) vram oam ly = .ok cache ∧ cache.size = 176 ∧
      ∀ x, x < 160 → mem cache (x + 8) = cacheByteSpec (toSpec r) (mem vram) (mem oam) x ly :=
  findSprites_spec r hr vram oam hv ho hvb hob ly

/-- the reference's `winnerOf`, read declaratively: the object it returns has an opaque pixel at
(x, ly) and beats (lower X, or equal X and lower OAM index) every candidate that has one. -/
theorem winner_is_least (r : FrameSpec.Regs) (vram oam : Mem) (sel : List Nat) (x ly i : Nat)
    (h : winnerOf r vram oam sel x ly = some i) :
    i ∈ sel ∧ objColour r vram oam i x ly ≠ 0 ∧
      ∀ j ∈ sel, objColour r vram oam j x ly ≠ 0 →
        objX oam i < objX oam j ∨ (objX oam i = objX oam j ∧ i ≤ j) := by
  unfold winnerOf at h
  have hm := List.mem_of_find?_eq_some h
  have hp := List.find?_some h
  simp only [Bool.and_eq_true, bne_iff_ne, ne_eq, List.all_eq_true, Bool.or_eq_true, beq_iff_eq] at hp
  refine ⟨hm, hp.1, ?_⟩
  intro j hj hc
  rcases hp.2 j hj with h0 | hb
  · exact absurd h0 hc
  · unfold beats at hb
    simp only [Bool.or_eq_true, Bool.and_eq_true, decide_eq_true_eq] at hb
    exact hb

/-- non-vacuity: registers and memories meeting the hypotheses on which an object pixel is shown
(forty 8×8 objects at Y=16, X=16, all opaque: ten are selected, OAM entry 0 wins at x=8, ly=0,
with OBP1 and priority over the BG: byte 0xC7). -/
example :
    let r : Ppu.Regs := ⟨0x83, 0, 0, 0, 0, 0xe4, 0xe4, 0xe4⟩
    let vram := Array.replicate 8192 255
    let oam := Array.replicate 160 16
    RegsOk r ∧ vram.size = 8192 ∧ oam.size = 160 ∧ IsBytes vram ∧ IsBytes oam ∧
      cacheByteSpec (toSpec r) (mem vram) (mem oam) 8 0 = 0xc7 := by
  refine ⟨⟨by decide, by decide, by decide, by decide, by decide, by decide, by decide, by decide⟩,
    by simp, by simp, isBytes_replicate _ _ (by decide), isBytes_replicate _ _ (by decide), ?_⟩
  decide +kernel

/-! ### stages (iii)–(v): the pixel pipeline

`tpos`/`tcol`/`trow` (Proofs/PpuLine) say where pixel `i` of the line lies: position in its tile,
map column, fetched row register — of the window if the window is enabled, `ly ≥ WY` and
`i + 7 ≥ WX`, of the scrolled background otherwise.  `LineInv … i s` is the loop invariant on the
pixel index (line-buffer prefix `[0, i)` equals the reference, every other buffer cell untouched,
object-cache read position `8 + i`, configuration unchanged) and `Pipe … i s t` its shift-register
part (`tile_x = t`, register = rest of the current tile row, `next_cached_tile_x` = next column). -/

/-- (iii)+(v) BG and window: the colour index the shift register holds for pixel `i` is the
reference's BG/window colour at (i, ly) — every SCX/SCY (fine scroll, wrap at 256), both maps,
both tile-data modes, window left of / inside / right of the screen (all WX, WY). -/
theorem bg_window_colour_spec (r : Ppu.Regs) (vram : Array Nat) (ly i : Nat) (hr : RegsOk r)
    (hvb : IsBytes vram) (hly : ly < 144) :
    ((trow r vram ly i <<< (2 * tpos r ly i)) % 65536) / 16384 = bgWinColour (toSpec r) (mem vram) i ly :=
  shifted_spec r hr vram hvb ly i (by omega)

/-- (iv) object mixing: given the object-cache byte of stage (ii) and the BG/window colour index,
the pipeline's choice (object present ∧ (priority ∨ BG colour 0) → object palette, else BGP) is
the reference pixel, for all BGP/OBP0/OBP1. -/
theorem mixing_spec (r : Ppu.Regs) (vram oam : Mem) (x ly : Nat) :
    mixM (Cfg.ofRegs r) (cacheByteSpec (toSpec r) vram oam x ly) (bgWinColour (toSpec r) vram x ly) =
      .ok (FrameSpec.pixel (toSpec r) vram oam x ly) :=
  mix_spec r vram oam x ly

/-- one pixel of the mode-3 loop preserves the invariant (no panic; pixel `i` = reference pixel;
shift, window switch at `i + 1 + 7 = WX`, tile fetch when the tile is used up). -/
theorem pixel_step_spec (r : Ppu.Regs) (vram oam : Array Nat) (ly : Nat) (base : State) (i t : Nat) (s : State)
    (hr : RegsOk r) (hv : vram.size = 8192) (hvb : IsBytes vram) (hly : ly < 144)
    (hco : CacheOk r vram oam ly base.objCache) (hi : i < 160)
    (inv : LineInv r vram oam ly base i s) (pipe : Pipe r vram ly i s t) :
    ∃ t' s', pixelStep (active r ly) vram t i s = .ok (t', s') ∧ LineInv r vram oam ly base (i + 1) s' ∧
      (i + 1 < 160 → Pipe r vram ly (i + 1) s' t') :=
  pixelStep_inv r hr vram oam hv hvb ly hly base hco i t s hi inv pipe

/-- the mode 2→3 set-up establishes the invariant at pixel 0: window first tile shifted by `7 − WX`
pixels when the window is on the line and WX ≤ 7, otherwise the BG tile at SCX/8 shifted by the SCX
fine scroll. -/
theorem setup_spec (r : Ppu.Regs) (vram oam : Array Nat) (ly : Nat) (s0 : State) (hr : RegsOk r)
    (hv : vram.size = 8192) (hvb : IsBytes vram) (hc : s0.cfg = Cfg.ofRegs r) (hl : s0.line = ly)
    (hw : s0.writing.size = 23040) (hp : s0.objPix = 8) :
    ∃ s', enterMode3 s0 vram = .ok s' ∧ LineInv r vram oam ly s0 0 s' ∧ Pipe r vram ly 0 s' (tpos r ly 0) :=
  enterMode3_inv vram oam r hr hv hvb ly s0 hc hl hw hp

/-- `line_spec`: from the entry of mode 2 of line `ly` (`LineStart`: the object cache is the one
`find_current_line_sprites` produced, cursor 8) the next 113 ticks — 19 idle, set-up, 40 × 4 pixels,
6 idle, switch to mode 0, 46 idle — do not panic and leave the reference line in the writing buffer
(`LineEnd.done`: all 160 pixels equal `FrameSpec.pixel`; `LineEnd.other`: no other cell changed;
the visible buffer is untouched). -/
theorem line_spec (r : Ppu.Regs) (vram oam : Array Nat) (ly : Nat) (s : State) (hC : Contents r vram oam)
    (hly : ly < 144) (h : LineStart r vram oam ly s) :
    ∃ s', runTicks vram oam 113 s = .ok s' ∧ LineEnd r vram oam ly s s' :=
  line_ticks r vram oam hC ly hly s h

/-- `frame_spec`: for all VRAM, OAM and register contents (bytes; LCDC bits 1–6 free) held constant,
the frame the harness observes after power-on — 1140 ticks of VBlank, 144 lines, buffer swap at VBlank
entry — is the reference frame, and nothing panics. -/
theorem frame_spec (r : Ppu.Regs) (vram oam : Array Nat) (hC : Contents r vram oam) :
    renderFrame r vram oam = .ok (FrameSpec.frame (toSpec r) (mem vram) (mem oam)) := by
  obtain ⟨s', h1, _, _, h4⟩ := first_frame r vram oam hC
  simp only [renderFrame, h1, bind, Except.bind, pure, Except.pure]
  rw [presents_eq r vram oam s' h4]

/-- `frame_spec` for every later frame on the same machine (stream `c15.seq`): from any VBlank entry
whose configuration came from the setters (`Cfg.ofRegs r0`), with the registers set again and VRAM/OAM
replaced `k ≤ 1139` ticks into the VBlank, the next presented frame is the reference frame of the new
contents — whatever the previous frame left in the object line cache, its cursor, the window line, the
tile cache or the two buffers — and the machine is again at a VBlank entry of the same kind. -/
theorem frame_spec_next (r r0 : Ppu.Regs) (vramOld oamOld vram oam : Array Nat) (s : State) (k : Nat)
    (hC : Contents r vram oam) (hE : VBlankEntry s) (hc : s.cfg = Cfg.ofRegs r0) (hk : k ≤ 1139) :
    ∃ s', renderNext s r vramOld oamOld vram oam k = .ok s' ∧
      s'.visible = FrameSpec.frame (toSpec r) (mem vram) (mem oam) ∧ VBlankEntry s' ∧ s'.cfg = Cfg.ofRegs r := by
  obtain ⟨s', h1, h2, h3, h4⟩ := next_frame r vramOld oamOld vram oam hC s hE r0 hc k hk
  exact ⟨s', h1, presents_eq r vram oam s' h4, h2, h3⟩

/-- the power-on state is such a VBlank entry -/
theorem power_on_entry (r : Ppu.Regs) : VBlankEntry (powerOn (Cfg.ofRegs r)) ∧ (powerOn (Cfg.ofRegs r)).cfg = Cfg.ofRegs r :=
  ⟨powerOn_entry _, rfl⟩

/-- non-vacuity of `pixel_step_spec` (a mode-3 entry state meeting `LineInv`/`Pipe`/`CacheOk`) and of
`Contents` (hypothesis of `line_spec`, `frame_spec`, `frame_spec_next`): BG only, SCX = 3, SCY = 5, VRAM all 0xFF -/
example :
    let r : Ppu.Regs := ⟨0x91, 3, 5, 0, 0, 0xe4, 0xe4, 0xe4⟩
    let vram := Array.replicate 8192 255
    let oam := Array.replicate 160 0
    let s : State := { cfg := Cfg.ofRegs r, visible := Array.replicate 23040 0, writing := Array.replicate 23040 0,
                       mode := .m3, dots := 0, line := 0, nextTileX := (tcol r 0 0 + 1) % 32,
                       tileCache := (trow r vram 0 0 <<< (2 * tpos r 0 0)) % 65536,
                       objCache := Array.replicate 176 0, objPix := 8, windowLine := none }
    Contents r vram oam ∧ CacheOk r vram oam 0 s.objCache ∧ s.mode = .m3 ∧ s.dots = 0 ∧
      LineInv r vram oam 0 s 0 s ∧ Pipe r vram 0 0 s (tpos r 0 0) := by
  intro r vram oam s
  have hr : RegsOk r := ⟨by decide, by decide, by decide, by decide, by decide, by decide, by decide, by decide⟩
  have hvb : IsBytes vram := isBytes_replicate _ _ (by decide)
  have hob : IsBytes oam := isBytes_replicate _ _ (by decide)
  refine ⟨⟨hr, by simp [vram], by simp [oam], hvb, hob⟩, ?_, rfl, rfl, ?_, ⟨rfl, rfl, rfl⟩⟩
  · obtain ⟨cache, h1, h2, h3⟩ := findSprites_spec r hr vram oam (by simp [vram]) (by simp [oam]) hvb hob 0
    have hoff : (Cfg.ofRegs r).objectEnabled = false := by decide +kernel
    have : findCurrentLineSprites (Cfg.ofRegs r) vram oam 0 = .ok (Array.replicate 176 0) := by
      simp [findCurrentLineSprites, hoff, pure, Except.pure]
    rw [this] at h1
    cases h1
    exact ⟨h2, h3⟩
  · refine ⟨rfl, rfl, by simp [s], rfl, rfl, by decide +kernel, rfl, rfl, rfl, ?_, fun _ _ => rfl, Nat.mod_lt _ (by decide)⟩
    intro j hj; omega

/-- non-vacuity of `line_spec`: a state meeting `LineStart` (objects disabled, so the line cache is clear) -/
example :
    let r : Ppu.Regs := ⟨0x91, 3, 5, 0, 0, 0xe4, 0xe4, 0xe4⟩
    let vram := Array.replicate 8192 255
    let oam := Array.replicate 160 0
    LineStart r vram oam 7 { powerOn (Cfg.ofRegs r) with mode := .m2, line := 7, objPix := 8 } := by
  intro r vram oam
  have hoff : (Cfg.ofRegs r).objectEnabled = false := by decide +kernel
  refine ⟨rfl, rfl, rfl, rfl, by simp [powerOn], by simp [powerOn], ?_, rfl⟩
  simp [findCurrentLineSprites, hoff, pure, Except.pure, powerOn]

end GbVerif.C15
