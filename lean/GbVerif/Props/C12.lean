import GbVerif.Model.Cart
import GbVerif.Spec.Cart
import GbVerif.Proofs.NatBits
/-!
C12 — MBC1/MBC3 bank selection follows the controller's register protocol.
Refinement: for every cartridge configuration and every sequence of writes to 0x0000–0x7FFF the banks
the model exposes are those of the protocol spec.
-/
namespace GbVerif.C12
open GbVerif.Cart GbVerif.CartSpec

def ctlOf : Kind → Ctl
  | .none => .romOnly | .mbc1 => .mbc1 | .mbc3 => .mbc3

/-- the relation between a model state and the protocol registers -/
def Rel (s : State) (r : Regs) : Prop :=
  match s.kind with
  | .none => True
  | .mbc1 => s.romBank = r.lo ∧ s.ramBank = r.hi ∧ s.selectRam = (r.mode == 1) ∧ r.lo < 32 ∧ r.hi < 4 ∧ r.mode < 2
  | .mbc3 => s.romBank = r.lo ∧ s.ramBank = r.hi ∧ r.lo < 128 ∧ r.hi < 4

theorem rel_init (k : Kind) (rb mb : Nat) : Rel (init k rb mb) {} := by
  cases k <;> simp [Rel, init]

theorem and_1f (v : Nat) : v &&& 0x1f = v % 32 := Nat.and_two_pow_sub_one_eq_mod v 5
theorem and_7f (v : Nat) : v &&& 0x7f = v % 128 := Nat.and_two_pow_sub_one_eq_mod v 7
theorem and_03 (v : Nat) : v &&& 0x03 = v % 4 := Nat.and_two_pow_sub_one_eq_mod v 2
theorem and_01 (v : Nat) : v &&& 1 = v % 2 := Nat.and_two_pow_sub_one_eq_mod v 1

/-- one write preserves the relation (writes are to 0x0000–0x7FFF) -/
theorem rel_step (s : State) (r : Regs) (h : Rel s r) (addr value : Nat) (ha : addr < 0x8000) :
    Rel (writeRom s addr value) (applyWrite (ctlOf s.kind) r addr value) ∧ (writeRom s addr value).kind = s.kind
      ∧ (writeRom s addr value).romBanks = s.romBanks ∧ (writeRom s addr value).ramBanks = s.ramBanks := by
  unfold Rel writeRom applyWrite ctlOf at *
  cases hk : s.kind <;> simp only [hk] at h ⊢
  · simp
  · obtain ⟨h1, h2, h3, h4, h5, h6⟩ := h
    by_cases c1 : addr < 0x2000
    · simp [c1, h1, h2, h3, h4, h5, h6, hk, show ¬ (0x2000 ≤ addr) by omega, show ¬ (0x4000 ≤ addr) by omega, show ¬ (0x6000 ≤ addr) by omega]
    · by_cases c2 : addr < 0x4000
      · simp [c1, c2, h2, h3, h5, h6, hk, and_1f, show (0x2000 ≤ addr) by omega]; omega
      · by_cases c3 : addr < 0x6000
        · simp [c1, c2, c3, h1, h3, h4, h6, hk, and_03, show ¬ (0x2000 ≤ addr ∧ addr < 0x4000) by omega, show (0x4000 ≤ addr) by omega]; omega
        · have : value % 2 < 2 := Nat.mod_lt _ (by decide)
          simp [c1, c2, c3, h1, h2, h4, h5, hk, and_01, show ¬ (0x2000 ≤ addr ∧ addr < 0x4000) by omega,
            show ¬ (0x4000 ≤ addr ∧ addr < 0x6000) by omega, show (0x6000 ≤ addr ∧ addr < 0x8000) by omega]
          omega
  · obtain ⟨h1, h2, h3, h4⟩ := h
    by_cases c1 : addr < 0x2000
    · simp [c1, h1, h2, h3, h4, hk, show ¬ (0x2000 ≤ addr) by omega, show ¬ (0x4000 ≤ addr) by omega]
    · by_cases c2 : addr < 0x4000
      · simp [c1, c2, h2, h4, hk, and_7f, show (0x2000 ≤ addr) by omega]; omega
      · by_cases c3 : addr < 0x6000
        · by_cases c4 : value < 4
          · simp [c1, c2, c3, c4, h1, h3, hk, show ¬ (0x2000 ≤ addr ∧ addr < 0x4000) by omega, show (0x4000 ≤ addr) by omega]
          · simp [c1, c2, c3, c4, h1, h2, h3, h4, hk, show ¬ (0x2000 ≤ addr ∧ addr < 0x4000) by omega]
        · simp [c1, c2, c3, h1, h2, h3, h4, hk, show ¬ (0x2000 ≤ addr ∧ addr < 0x4000) by omega,
            show ¬ (0x4000 ≤ addr ∧ addr < 0x6000 ∧ value < 4) by omega]

def InRange (ws : List (Nat × Nat)) : Prop := ∀ w ∈ ws, w.1 < 0x8000

/-- the relation holds after any sequence of writes -/
theorem rel_writes (k : Kind) (rb mb : Nat) (ws : List (Nat × Nat)) (hw : InRange ws) :
    let s := ws.foldl (fun s w => writeRom s w.1 w.2) (init k rb mb)
    Rel s (regsAfter (ctlOf k) ws) ∧ s.kind = k ∧ s.romBanks = rb ∧ s.ramBanks = mb := by
  suffices ∀ (s : State) (r : Regs), Rel s r → s.kind = k → s.romBanks = rb → s.ramBanks = mb →
      let s' := ws.foldl (fun s w => writeRom s w.1 w.2) s
      Rel s' (ws.foldl (fun r w => applyWrite (ctlOf k) r w.1 w.2) r) ∧ s'.kind = k ∧ s'.romBanks = rb ∧ s'.ramBanks = mb from
    this _ _ (rel_init k rb mb) rfl rfl rfl
  induction ws with
  | nil => intro s r h hk h1 h2; exact ⟨h, hk, h1, h2⟩
  | cons w ws ih =>
    intro s r h hk h1 h2
    have hw' : InRange ws := fun x hx => hw x (List.mem_cons_of_mem _ hx)
    have := rel_step s r h w.1 w.2 (hw w (List.mem_cons_self))
    have hk2 := this.2.1.trans hk
    rw [hk] at this
    exact ih hw' _ _ this.1 hk2 (this.2.2.1.trans h1) (this.2.2.2.trans h2)

theorem shift_or (lo hi : Nat) (h : lo < 32) : lo ||| (hi <<< 5) = hi * 32 + lo := by
  have h' : lo < 2 ^ 5 := h
  rw [Nat.shiftLeft_eq, Nat.or_comm, Nat.mul_comm, ← Nat.two_pow_add_eq_or_of_lt h' hi]

/-- banks exposed by a related state are the protocol's banks -/
theorem banks_of_rel (s : State) (r : Regs) (h : Rel s r) :
    getRomBank s = romBank (ctlOf s.kind) s.romBanks r ∧ getRamBank s = ramBank (ctlOf s.kind) s.ramBanks r := by
  unfold Rel at h
  unfold getRomBank getRamBank romBank ramBank ctlOf nz
  cases hk : s.kind <;> simp only [hk] at h ⊢
  · simp
  · obtain ⟨h1, h2, h3, h4, h5, h6⟩ := h
    have hm : r.mode = 0 ∨ r.mode = 1 := by omega
    have hnz : (if r.lo = 0 then 1 else r.lo) < 32 := by split <;> omega
    rcases hm with hm | hm
    · simp [h1, h2, h3, hm, shift_or _ _ hnz]
    · simp [h1, h2, h3, hm]
      by_cases hz : s.ramBanks = 0 <;> simp [hz, Nat.pos_of_ne_zero]
  · obtain ⟨h1, h2, h3, h4⟩ := h
    simp [h1, h2]
    by_cases hz : s.ramBanks = 0 <;> simp [hz, Nat.pos_of_ne_zero]

/-- **C12**: after any sequence of writes to 0x0000–0x7FFF, for every controller type and every
ROM/RAM bank count, the visible ROM and RAM banks are the protocol's. -/
theorem mbc_refines (k : Kind) (romBanks ramBanks : Nat) (ws : List (Nat × Nat)) (hw : InRange ws) :
    let s := ws.foldl (fun s w => writeRom s w.1 w.2) (init k romBanks ramBanks)
    getRomBank s = romBank (ctlOf k) romBanks (regsAfter (ctlOf k) ws) ∧
    getRamBank s = ramBank (ctlOf k) ramBanks (regsAfter (ctlOf k) ws) := by
  intro s
  obtain ⟨hr, hk, h1, h2⟩ := rel_writes k romBanks ramBanks ws hw
  have := banks_of_rel _ _ hr
  simp only [hk, h1, h2] at this
  exact this

/-- the visible banks always exist in the cartridge -/
theorem rom_bank_in_range (k : Kind) (romBanks ramBanks : Nat) (hb : 2 ≤ romBanks) (ws : List (Nat × Nat)) :
    getRomBank (ws.foldl (fun s w => writeRom s w.1 w.2) (init k romBanks ramBanks)) < romBanks := by
  have hinv : ∀ s : State, s.romBanks = romBanks →
      (ws.foldl (fun s w => writeRom s w.1 w.2) s).romBanks = romBanks := by
    induction ws with
    | nil => intro s h; exact h
    | cons w ws ih =>
      intro s h; apply ih
      unfold writeRom; cases s.kind <;> simp only <;> repeat (first | exact h | split)
  have h := hinv (init k romBanks ramBanks) rfl
  generalize ws.foldl (fun s w => writeRom s w.1 w.2) (init k romBanks ramBanks) = s at h
  unfold getRomBank
  cases s.kind <;> simp only [h]
  · omega
  · exact Nat.mod_lt _ (by omega)
  · exact Nat.mod_lt _ (by omega)

/-- ROM-only cartridges ignore every write -/
theorem rom_only_ignores (rb mb : Nat) (ws : List (Nat × Nat)) :
    ws.foldl (fun s w => writeRom s w.1 w.2) (init .none rb mb) = init .none rb mb := by
  induction ws with
  | nil => rfl
  | cons w ws ih => simpa [List.foldl, writeRom, init] using ih

/-- non-vacuity: an MBC1 history that selects bank 0x21 in mode 0, then mode 1 with low register 0 -/
example : let ws := [(0x2000, 0x21), (0x4000, 1), (0x6000, 1), (0x2100, 0)]
    InRange ws ∧ getRomBank (ws.foldl (fun s w => writeRom s w.1 w.2) (init .mbc1 64 4)) = 1 ∧
    getRamBank (ws.foldl (fun s w => writeRom s w.1 w.2) (init .mbc1 64 4)) = 1 := by
  refine ⟨?_, by decide, by decide⟩
  intro w hw; simp at hw; rcases hw with h | h | h | h <;> subst h <;> decide

end GbVerif.C12
