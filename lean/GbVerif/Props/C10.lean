import GbVerif.Proofs.BusRefine
/-!
C10 — every bus address decodes to the documented Game Boy memory region.

Over the bus model (`Model/Bus.lean`, `Model/Fetch.lean`; mirrors of `memory_read_byte`, `memory_write_byte`,
`IO::{get,set}_byte`, `get_executable_memory_slice`) for every well-formed state (`C11.WF`: any cartridge kind,
ROM size, RAM size, banking-register state): RAM cells store independently, ROM never changes through the bus,
unmapped regions are constants that ignore writes, the listed I/O registers read back their defined bits, the
fetch view equals data reads on ROM/WRAM/HRAM, and the whole model refines the banked byte-store spec
(`Spec/BusSpec.lean`) along every write history.
Lemmas: `Proofs/BusBasic`, `BusWf`, `BusDma` (OAM), `BusFrame`, `BusIo`, `BusRefine`.
-/
namespace GbVerif.C10
open GbVerif.Bus GbVerif.BusProofs

/-- `a` is backed by a writable byte cell in state `s`: VRAM, cartridge RAM that exists behind the current RAM
bank, WRAM, OAM, HRAM or IE -/
def isCell (s : State) (a : Nat) : Prop :=
  (0x8000 ≤ a ∧ a < 0xa000) ∨ (0xa000 ≤ a ∧ a < 0xc000 ∧ s.cramIdx a < s.cram.size) ∨ (0xc000 ≤ a ∧ a < 0xe000) ∨
  (0xfe00 ≤ a ∧ a < 0xfea0) ∨ (0xff80 ≤ a ∧ a ≤ 0xffff)

/-- the I/O register window -/
def inIo (a : Nat) : Prop := 0xff00 ≤ a ∧ a < 0xff80

/-- closed form of a cell write: the state after it reads `v` at `a` and is unchanged at every other address -/
theorem store_both {s s' : State} {a v : Nat} (wf : WF s) (hv : v < 256) (hc : isCell s a) (hw : write s a v = .ok s') :
    read s' a = .ok v ∧ ∀ a', a' < 65536 → a' ≠ a → read s' a' = read s a' := by
  rcases hc with ⟨h1, h2⟩ | ⟨h1, h2, h3⟩ | ⟨h1, h2⟩ | ⟨h1, h2⟩ | ⟨h1, h2⟩
  · rw [write_vram_wf wf v h1 h2] at hw; injection hw with hw; subst hw
    refine ⟨?_, fun a' ha' hne => vram_write_frame wf _ v a' ha' (by omega)⟩
    have := vram_write_hit wf (a - 0x8000) v (by omega)
    rwa [show 0x8000 + (a - 0x8000) = a by omega] at this
  · rw [write_cram_wf wf v h1 h2] at hw; injection hw with hw; subst hw
    exact ⟨cram_write_hit wf a v ⟨h1, h2⟩ h3, fun a' ha' hne => cram_write_frame wf a v ⟨h1, h2⟩ a' ha' hne⟩
  · rw [write_wram_wf wf v h1 h2] at hw; injection hw with hw; subst hw
    refine ⟨?_, fun a' ha' hne => wram_write_frame wf _ v a' ha' (by omega)⟩
    have := wram_write_hit wf (a - 0xc000) v (by omega)
    rwa [show 0xc000 + (a - 0xc000) = a by omega] at this
  · rw [write_oam_wf wf v h1 h2] at hw; injection hw with hw; subst hw
    refine ⟨?_, fun a' ha' hne => oam_write_frame wf _ v a' ha' (by omega)⟩
    have := oam_write_hit wf (a - 0xfe00) v (by omega)
    rwa [show 0xfe00 + (a - 0xfe00) = a by omega] at this
  · by_cases he : a = 0xffff
    · subst he
      rw [write_ie s _ v rfl] at hw; injection hw with hw; subst hw
      refine ⟨?_, fun a' ha' hne => ie_write_frame _ _ a' ha' hne⟩
      rw [read_ie _ _ rfl]
      exact congrArg Except.ok (and_1f_or_e0 v hv)
    · rw [write_hram_wf wf v h1 (by omega)] at hw; injection hw with hw; subst hw
      refine ⟨?_, fun a' ha' hne => hram_write_frame wf _ v a' ha' (by omega)⟩
      have := hram_write_hit wf (a - 0xff80) v (by omega)
      rwa [show 0xff80 + (a - 0xff80) = a by omega] at this

/-- **store/load**: a byte written to VRAM, mapped cartridge RAM, WRAM, OAM, HRAM or IE is returned by the next
read of that address -/
theorem store_load {s s' : State} {a v : Nat} (wf : WF s) (hv : v < 256) (hc : isCell s a)
    (hw : write s a v = .ok s') : read s' a = .ok v := (store_both wf hv hc hw).1

/-- **frame**: …and changes what is read at no other address of the 64 KiB space (ROM windows, every other cell,
unmapped regions and the I/O registers included) -/
theorem store_frame {s s' : State} {a v a' : Nat} (wf : WF s) (hv : v < 256) (hc : isCell s a)
    (hw : write s a v = .ok s') (ha' : a' < 65536) (hne : a' ≠ a) : read s' a' = read s a' :=
  (store_both wf hv hc hw).2 a' ha' hne

/-- the ROM image and its length never change, whatever is written anywhere -/
theorem rom_immutable {s s' : State} {a v : Nat} (hw : write s a v = .ok s') : s'.rom = s.rom ∧ s'.romLen = s.romLen :=
  write_rom_fixed hw

/-- **ROM is constant**: a write at or above 0x8000 changes nothing that is read below 0x8000 -/
theorem rom_const {s s' : State} {a v a' : Nat} (wf : WF s) (ha : a < 65536) (h8 : 0x8000 ≤ a)
    (hw : write s a v = .ok s') (ha' : a' < 0x8000) : read s' a' = read s a' :=
  read_rom_congr (write_cart_fixed wf ha h8 hw) (write_rom_fixed hw).1 (write_rom_fixed hw).2 a' ha'

/-- a write below 0x8000 only moves the two banked windows: bank 0, every RAM cell, the unmapped regions and the
I/O registers read as before, no RAM array changes, and the banked ROM window still shows bytes of the same ROM -/
theorem rom_write_only_remaps {s s' : State} {a v : Nat} (wf : WF s) (ha : a < 0x8000) (hw : write s a v = .ok s') :
    (∀ a', a' < 65536 → ¬ (0x4000 ≤ a' ∧ a' < 0x8000) → ¬ (0xa000 ≤ a' ∧ a' < 0xc000) → read s' a' = read s a') ∧
    (s'.vram = s.vram ∧ s'.cram = s.cram ∧ s'.wram = s.wram ∧ s'.oam = s.oam ∧ s'.hram = s.hram ∧ s'.io = s.io) ∧
    (∀ a', 0x4000 ≤ a' → a' < 0x8000 → ∃ i, i < s.romLen ∧ read s' a' = .ok (s.rom i)) := by
  have wf' := wf_write wf hw
  rw [write_rom s a v ha] at hw; injection hw with hw; subst hw
  refine ⟨fun a' ha' h1 h2 => rom_write_frame _ a' ha' ⟨h1, h2⟩, ⟨rfl, rfl, rfl, rfl, rfl, rfl⟩, fun a' h1 h2 => ?_⟩
  refine ⟨_, ?_, read_romx_wf wf' h1 h2⟩
  have hb : 2 ≤ (Cart.writeRom s.cart a v).romBanks := wf'.banks
  have := getRomBank_lt (Cart.writeRom s.cart a v) hb
  have hl' : s.romLen = (Cart.writeRom s.cart a v).romBanks * 0x4000 := wf'.romLen
  show 0x4000 * Cart.getRomBank (Cart.writeRom s.cart a v) + (a' - 0x4000) < s.romLen
  omega

/-- **unmapped regions**: echo RAM 0xE000–0xFDFF and 0xFEA0–0xFEFF read 0 and ignore writes (the state is unchanged) -/
theorem unmapped_const (s : State) (a v : Nat) (h : (0xe000 ≤ a ∧ a < 0xfe00) ∨ (0xfea0 ≤ a ∧ a < 0xff00)) :
    read s a = .ok 0 ∧ write s a v = .ok s := by
  rcases h with ⟨h1, h2⟩ | ⟨h1, h2⟩
  · exact ⟨read_echo s a h1 h2, write_echo s a v h1 h2⟩
  · exact ⟨read_unused s a h1 h2, write_unused s a v h1 h2⟩

/-- unassigned I/O addresses (`BusSpec.ioUnassigned`: 0xFF03, 0xFF08–0xFF0E, 0xFF10–0xFF3F, 0xFF4C–0xFF7F) read 0xFF
and ignore writes -/
theorem io_unassigned (s : State) (low v : Nat) (h : low < 128) (hu : BusSpec.ioUnassigned low = true) :
    read s (0xff00 + low) = .ok 0xff ∧ write s (0xff00 + low) v = .ok s := by
  have hne : 0xff00 + low ≠ 0xff46 := by
    intro he; have : low = 0x46 := by omega
    subst this; revert hu; decide
  refine ⟨?_, ?_⟩
  · rw [read_io s _ (by omega) (by omega), if_neg (beq_ne hne), getByte_unassigned s.io low h hu]
  · rw [write_io s _ v (by omega) (by omega), if_neg (beq_ne hne), setByte_unassigned s.io low v h hu]

/-! ### I/O register read-back -/

/-- what the read-back statements need from the I/O state; true at power-on and kept by every bus write -/
def IoOk (s : State) : Prop := s.io.joy.action < 16 ∧ s.io.joy.direction < 16 ∧ s.io.video.mode < 4

/-- writing `v` to register 0xFF00+low and reading it back returns `v` on the register's defined bits -/
def ReadsBack (s : State) (low : Nat) : Prop :=
  ∀ v, v < 256 → ∃ s' x, write s (0xff00 + low) v = .ok s' ∧ read s' (0xff00 + low) = .ok x ∧
    x &&& BusSpec.ioMask low = v &&& BusSpec.ioMask low

/-- **I/O read-back** for P1, TIMA, TMA, TAC, IF, LCDC, STAT, SCY, SCX, LYC, BGP, OBP0, OBP1, WY, WX -/
theorem io_readback {s : State} (ok : IoOk s) :
    ReadsBack s 0x00 ∧ ReadsBack s 0x05 ∧ ReadsBack s 0x06 ∧ ReadsBack s 0x07 ∧ ReadsBack s 0x0f ∧
    ReadsBack s 0x40 ∧ ReadsBack s 0x41 ∧ ReadsBack s 0x42 ∧ ReadsBack s 0x43 ∧ ReadsBack s 0x45 ∧
    ReadsBack s 0x47 ∧ ReadsBack s 0x48 ∧ ReadsBack s 0x49 ∧ ReadsBack s 0x4a ∧ ReadsBack s 0x4b := by
  refine ⟨?_, ?_, ?_, ?_, ?_, ?_, ?_, ?_, ?_, ?_, ?_, ?_, ?_, ?_, ?_⟩
  · intro v hv; exact ⟨_, _, rfl, rfl, p1_readback s.io.joy v hv ok.2.1 ok.1⟩
  · intro v hv; exact ⟨_, _, rfl, rfl, rfl⟩
  · intro v hv; exact ⟨_, _, rfl, rfl, rfl⟩
  · intro v hv
    refine ⟨_, _, rfl, rfl, ?_⟩
    show (s.io.timer.setControl v).1.control &&& 7 = v &&& 7
    unfold TimerRegs.setControl; simp only []
    repeat' split
    all_goals rfl
  · intro v hv; exact ⟨_, _, rfl, rfl, if_readback v hv⟩
  · intro v hv; exact ⟨_, _, rfl, rfl, rfl⟩
  · intro v hv; exact ⟨_, _, rfl, rfl, stat_readback v hv s.io.video.mode ok.2.2 (s.io.video.lyc == s.io.video.line)⟩
  · intro v hv; exact ⟨_, _, rfl, rfl, rfl⟩
  · intro v hv; exact ⟨_, _, rfl, rfl, rfl⟩
  · intro v hv; exact ⟨_, _, rfl, rfl, rfl⟩
  · intro v hv; exact ⟨_, _, rfl, rfl, rfl⟩
  · intro v hv; exact ⟨_, _, rfl, rfl, rfl⟩
  · intro v hv; exact ⟨_, _, rfl, rfl, rfl⟩
  · intro v hv; exact ⟨_, _, rfl, rfl, rfl⟩
  · intro v hv; exact ⟨_, _, rfl, rfl, rfl⟩

/-- the 15 registers above are exactly those the spec gives a read-back mask -/
theorem io_mask_support (low : Nat) (h : BusSpec.ioMask low ≠ 0) :
    low ∈ [0x00, 0x05, 0x06, 0x07, 0x0f, 0x40, 0x41, 0x42, 0x43, 0x45, 0x47, 0x48, 0x49, 0x4a, 0x4b] := by
  unfold BusSpec.ioMask at h
  split at h <;> first | (exfalso; exact h rfl) | simp

/-- DIV (0xFF04): any write resets it, it then reads 0; LY (0xFF44) is read-only: a write changes nothing -/
theorem div_ly (s : State) (v : Nat) :
    (∃ s', write s 0xff04 v = .ok s' ∧ read s' 0xff04 = .ok 0) ∧
    (write s 0xff44 v = .ok s ∧ read s 0xff44 = .ok s.io.video.line) :=
  ⟨⟨{ s with io := s.io.setByte 0xff04 v }, rfl, (rfl : Except.ok ((0 &&& 0xff00) >>> 8) = Except.ok 0)⟩, rfl, rfl⟩

/-- `IoOk` holds in every created state and is kept by every write -/
theorem iook_create (k : Cart.Kind) (rb mb : Nat) (rom : Nat → Nat) : IoOk (create k rb mb rom) := by
  exact ⟨(by decide : (0 : Nat) < 16), (by decide : (0 : Nat) < 16), (by decide : (1 : Nat) < 4)⟩

theorem iook_write {s s' : State} {a v : Nat} (wf : WF s) (ok : IoOk s) (ha : a < 65536)
    (hw : write s a v = .ok s') : IoOk s' := by
  unfold IoOk
  rcases write_io_cases wf ha hw with h | h | h
  · rw [h]; exact ok
  · rw [h]; exact ok
  · rw [h, (setByte_buttons_mode s.io a v).1, (setByte_buttons_mode s.io a v).2.1, (setByte_buttons_mode s.io a v).2.2]
    exact ok

/-! ### instruction fetch -/

/-- **fetch = read** throughout ROM (both windows, any bank), work RAM and high RAM -/
theorem fetch_eq_read {s : State} {a : Nat} (wf : WF s)
    (h : a < 0x8000 ∨ (0xc000 ≤ a ∧ a < 0xe000) ∨ (0xff80 ≤ a ∧ a < 0xffff)) : fetchByte s a = read s a := by
  rcases h with h | ⟨h1, h2⟩ | ⟨h1, h2⟩
  · exact fetch_rom wf h
  · exact fetch_wram wf h1 h2
  · exact fetch_hram h1 h2

/-! ### refinement to the memory-map spec -/

/-- **the model refines the banked byte-store spec**: for every cartridge kind, ROM size ≥ 2 banks, RAM size and
ROM content, after every history of byte writes (any 16-bit addresses, any byte values — bank-register writes, RAM
writes, I/O writes, writes to unmapped regions) the history completes and every address outside the I/O window reads
exactly what the spec memory reads after the same history -/
theorem refines_spec (k : Cart.Kind) (romBanks ramBytes : Nat) (rom : Nat → Nat) (hb : 2 ≤ romBanks)
    (ws : List (Nat × Nat)) (hws : ∀ w ∈ ws, w.1 < 65536 ∧ w.2 < 256) :
    ∃ s', runWrites (create k romBanks ramBytes rom) ws = .ok s' ∧
      ∀ a, a < 65536 → ¬ inIo a →
        read s' a = .ok (BusSpec.read
          (specWrites { ctl := C12.ctlOf k, romBanks := romBanks, ramBytes := ramBytes, rom := rom } ws) a) := by
  obtain ⟨s', hrun, hrel⟩ := rel_history ws (rel_create k romBanks ramBytes rom hb) hws
  exact ⟨s', hrun, fun a ha hio => rel_read hrel a ha hio⟩

/-! ### non-vacuity -/

def exState : State := create .mbc1 4 0x8000 (fun i => i % 251)

example : WF exState ∧ IoOk exState := ⟨wf_create _ _ _ _ (by decide), iook_create _ _ _ _⟩
example : isCell exState 0x8000 := Or.inl ⟨by decide, by decide⟩
example : isCell exState 0xbfff :=
  Or.inr (Or.inl ⟨by decide, by decide, by simp [State.cramIdx, exState, create, Cart.init, Cart.getRamBank]⟩)
example : isCell exState 0xdfff ∧ isCell exState 0xfe9f ∧ isCell exState 0xffff :=
  ⟨Or.inr (Or.inr (Or.inl ⟨by decide, by decide⟩)), Or.inr (Or.inr (Or.inr (Or.inl ⟨by decide, by decide⟩))),
   Or.inr (Or.inr (Or.inr (Or.inr ⟨by decide, by decide⟩)))⟩
example (s : State) : ¬ isCell s 0xe000 ∧ ¬ isCell s 0x7fff ∧ ¬ isCell s 0xff46 := by
  simp only [isCell]; omega
/-- with 2 KiB of cartridge RAM only the first quarter of the window is backed by cells -/
example : isCell (create .none 2 0x800 (fun _ => 0)) 0xa7ff ∧ ¬ isCell (create .none 2 0x800 (fun _ => 0)) 0xa800 := by
  simp [isCell, State.cramIdx, create, Cart.init, Cart.getRamBank]
example : BusSpec.ioUnassigned 0x03 = true ∧ BusSpec.ioUnassigned 0x7f = true ∧ BusSpec.ioUnassigned 0x46 = false := by decide
/-- a history with a bank switch, RAM writes and an I/O write, on model and spec -/
example : let ws := [(0x2000, 3), (0xc123, 0x55), (0x6000, 1), (0x4000, 2), (0xa010, 0x66), (0xff47, 0xe4), (0xffff, 0xff)]
    (∀ w ∈ ws, w.1 < 65536 ∧ w.2 < 256) ∧
    BusSpec.read (specWrites { ctl := .mbc1, romBanks := 4, ramBytes := 0x8000, rom := fun i => i % 251 } ws) 0x4001
      = (3 * 0x4000 + 1) % 251 ∧
    BusSpec.read (specWrites { ctl := .mbc1, romBanks := 4, ramBytes := 0x8000, rom := fun i => i % 251 } ws) 0xa010 = 0x66 ∧
    BusSpec.read (specWrites { ctl := .mbc1, romBanks := 4, ramBytes := 0x8000, rom := fun i => i % 251 } ws) 0xffff = 0xff := by
  refine ⟨?_, by decide +kernel, by decide +kernel, by decide +kernel⟩
  intro w hw; simp at hw; rcases hw with h | h | h | h | h | h | h <;> subst h <;> decide

end GbVerif.C10
