import GbVerif.Model.Cpu
import GbVerif.Spec.SM83
import GbVerif.Proofs.Enum
/-!
C06 — interpreter control flow, instruction length and timing match the SM83; block terminators; undefined opcodes.
Table theorems are re-checked by the kernel against the regenerated decoder (`Gen.DecoderOps`) on every run.
-/
namespace GbVerif.C06
open GbVerif.Enum

/-- every defined unprefixed opcode has the SM83 encoded length; the eleven undefined ones decode as `Invalid` -/
theorem decoder_len_matches_sm83 : ∀ b0, b0 < 2^8 → b0 ≠ 0xCB →
    if SM83.isUndefined b0 then Gen.decOp b0 0 0 = Op.Invalid b0 else Gen.opLen b0 = SM83.length b0 := by
  intro b0 hb hne
  have := forall_lt_of_allRange (fun b0 => decide (b0 ≠ 0xCB →
    if SM83.isUndefined b0 then Gen.decOp b0 0 0 = Op.Invalid b0 else Gen.opLen b0 = SM83.length b0)) 8 (by decide +kernel) b0 hb
  exact (of_decide_eq_true this) hne

/-- every CB-prefixed encoding is two bytes long -/
theorem cb_len : ∀ b1, b1 < 2^8 → Gen.cbOpLen b1 = 2 := by
  intro b1 hb
  have := forall_lt_of_allRange (fun b1 => decide (Gen.cbOpLen b1 = 2)) 8 (by decide +kernel) b1 hb
  simpa using this

/-- exactly the instructions that redirect control or change the halt / interrupt-enable state end a block,
for every operand byte pair -/
theorem block_end_exact : ∀ b0, b0 < 2^8 → ∀ b1 b2, b0 ≠ 0xCB → ¬ SM83.isUndefined b0 = true →
    Gen.isBlockEnd (Gen.decOp b0 b1 b2) = SM83.terminates b0 := by
  apply forall_lt_of_ptree (fun b0 => ∀ b1 b2, b0 ≠ 0xCB → ¬ SM83.isUndefined b0 = true →
    Gen.isBlockEnd (Gen.decOp b0 b1 b2) = SM83.terminates b0) 8
  simp only [PTree]
  repeat' constructor
  all_goals (intro b1 b2 h1 h2; first | rfl | (exfalso; first | exact h1 rfl | exact h2 rfl))

/-- no CB-prefixed instruction ends a block -/
theorem cb_never_block_end : ∀ b1, b1 < 2^8 → Gen.isBlockEnd (Gen.cbOp b1) = false := by
  intro b1 hb
  have := forall_lt_of_allRange (fun b1 => Gen.isBlockEnd (Gen.cbOp b1) == false) 8 (by decide +kernel) b1 hb
  simpa using this

/-- decoder base clocks (+ nothing for the not-taken case) are the SM83 not-taken machine cycles × 4 is stated
through the whole-instruction refinement in `Props/C05`; here the table-level sanity: clocks are multiples of 4 and ≥ 4 -/
theorem clocks_pos : ∀ b0, b0 < 2^8 → b0 ≠ 0xCB → 4 ≤ Gen.opClocks b0 ∧ Gen.opClocks b0 % 4 = 0 := by
  intro b0 hb hne
  have := forall_lt_of_allRange (fun b0 => decide (b0 ≠ 0xCB → 4 ≤ Gen.opClocks b0 ∧ Gen.opClocks b0 % 4 = 0)) 8 (by decide +kernel) b0 hb
  exact (of_decide_eq_true this) hne

theorem cb_clocks_pos : ∀ b1, b1 < 2^8 → 4 ≤ Gen.cbOpClocks b1 ∧ Gen.cbOpClocks b1 % 4 = 0 := by
  intro b1 hb
  have := forall_lt_of_allRange (fun b1 => decide (4 ≤ Gen.cbOpClocks b1 ∧ Gen.cbOpClocks b1 % 4 = 0)) 8 (by decide +kernel) b1 hb
  exact of_decide_eq_true this

end GbVerif.C06
