import GbVerif.Model.Cpu
import GbVerif.Spec.SM83
import GbVerif.Proofs.Enum
import GbVerif.Proofs.Sm83Main
import GbVerif.Proofs.InterpLen
/-!
C06 — interpreter control flow, instruction length and timing match the SM83; block terminators; undefined opcodes.
Table theorems are re-checked by the kernel against the regenerated decoder (`Gen.DecoderOps`) on every run.
-/
namespace GbVerif.C06
open GbVerif.Enum GbVerif.Interp
open GbVerif.C05 (WF abs stepModel statusOf ByteBus memOf)

/-- every defined unprefixed opcode has the SM83 encoded length; the eleven undefined ones decode as `Invalid` -/
theorem decoder_len_matches_sm83 : ∀ b0, b0 < 2^8 → b0 ≠ 0xCB →
    if SM83.isUndefined b0 then Gen.decOp b0 0 0 = Op.Invalid b0 else Gen.opLen b0 = SM83.length b0 := by
  intro b0 hb hne
  have := forall_lt_of_allRange (fun b0 => decide (b0 ≠ 0xCB →
    if SM83.isUndefined b0 then Gen.decOp b0 0 0 = Op.Invalid b0 else Gen.opLen b0 = SM83.length b0)) 8 (by decide +kernel) b0 hb
  exact (of_decide_eq_true this) hne

/-- every CB-prefixed encoding is two bytes long -/
theorem cb_len : ∀ b1, b1 < 2^8 → Gen.cbOpLen b1 = 2 := by
  intro b1 hb
  have := forall_lt_of_allRange (fun b1 => decide (Gen.cbOpLen b1 = 2)) 8 (by decide +kernel) b1 hb
  simpa using this

/-- exactly the instructions that redirect control or change the halt / interrupt-enable state end a block,
for every operand byte pair -/
theorem block_end_exact : ∀ b0, b0 < 2^8 → ∀ b1 b2, b0 ≠ 0xCB → ¬ SM83.isUndefined b0 = true →
    Gen.isBlockEnd (Gen.decOp b0 b1 b2) = SM83.terminates b0 := by
  apply forall_lt_of_ptree (fun b0 => ∀ b1 b2, b0 ≠ 0xCB → ¬ SM83.isUndefined b0 = true →
    Gen.isBlockEnd (Gen.decOp b0 b1 b2) = SM83.terminates b0) 8
  simp only [PTree]
  repeat' constructor
  all_goals (intro b1 b2 h1 h2; first | rfl | (exfalso; first | exact h1 rfl | exact h2 rfl))

/-- no CB-prefixed instruction ends a block -/
theorem cb_never_block_end : ∀ b1, b1 < 2^8 → Gen.isBlockEnd (Gen.cbOp b1) = false := by
  intro b1 hb
  have := forall_lt_of_allRange (fun b1 => Gen.isBlockEnd (Gen.cbOp b1) == false) 8 (by decide +kernel) b1 hb
  simpa using this

/-- decoder base clocks (+ nothing for the not-taken case) are the SM83 not-taken machine cycles × 4 is stated
through the whole-instruction refinement in `Props/C05`; here the table-level sanity: clocks are multiples of 4 and ≥ 4 -/
theorem clocks_pos : ∀ b0, b0 < 2^8 → b0 ≠ 0xCB → 4 ≤ Gen.opClocks b0 ∧ Gen.opClocks b0 % 4 = 0 := by
  intro b0 hb hne
  have := forall_lt_of_allRange (fun b0 => decide (b0 ≠ 0xCB → 4 ≤ Gen.opClocks b0 ∧ Gen.opClocks b0 % 4 = 0)) 8 (by decide +kernel) b0 hb
  exact (of_decide_eq_true this) hne

theorem cb_clocks_pos : ∀ b1, b1 < 2^8 → 4 ≤ Gen.cbOpClocks b1 ∧ Gen.cbOpClocks b1 % 4 = 0 := by
  intro b1 hb
  have := forall_lt_of_allRange (fun b1 => decide (4 ≤ Gen.cbOpClocks b1 ∧ Gen.cbOpClocks b1 % 4 = 0)) 8 (by decide +kernel) b1 hb
  exact of_decide_eq_true this


/-! ### whole-instruction statements (from the refinement theorem of `Proofs/Sm83Main.lean`) -/

/-- **Program counter, stack and timing.**  For every defined instruction, whenever the interpreter step succeeds the
SM83 instruction succeeds from the abstracted state with the interpreter's new PC (`abs r'`.pc = `r'.ip`: PC + length,
or the architecturally defined jump / call / return / restart target), new SP, the same memory (so the same bytes at
the same stack addresses), the status for HALT / STOP / DI / EI / RETI, and the SM83 machine-cycle count — taken and
not-taken cases alike, since `SM83.step` charges them separately. -/
theorem control_refines {β : Type} (B : BusOps β) (hB : ByteBus B) (b0 b1 b2 : Nat) (h0 : b0 < 256) (h1 : b1 < 256)
    (h2 : b2 < 256) (hu : ¬ SM83.isUndefined b0 = true) (r : Regs) (hr : WF r) (m : β) (r' : Regs) (m' : β) (st : Nat)
    (hm : stepModel B b0 b1 b2 r m = .ok (r', m', st)) :
    ∃ cyc out, SM83.step (memOf B) (abs r) m b0 b1 b2 = .ok (abs r', m', cyc, out) ∧ st = statusOf out ∧ WF r' ∧
      r'.cycles = r.cycles + cyc :=
  C05.step_refines_model B (memOf B) rfl rfl hB b0 b1 b2 h0 h1 h2 hu r hr m r' m' st hm

/-- the interpreter charges exactly the SM83 machine cycles of the executed path -/
theorem cycles_match {β : Type} (B : BusOps β) (hB : ByteBus B) (b0 b1 b2 : Nat) (h0 : b0 < 256) (h1 : b1 < 256)
    (h2 : b2 < 256) (hu : ¬ SM83.isUndefined b0 = true) (r : Regs) (hr : WF r) (m : β) (r' : Regs) (m' : β) (st : Nat)
    (hm : stepModel B b0 b1 b2 r m = .ok (r', m', st)) :
    ∃ c m₁ cyc out, SM83.step (memOf B) (abs r) m b0 b1 b2 = .ok (c, m₁, cyc, out) ∧ r'.cycles = r.cycles + cyc := by
  obtain ⟨cyc, out, hs, _, _, hc⟩ := control_refines B hB b0 b1 b2 h0 h1 h2 hu r hr m r' m' st hm
  exact ⟨_, _, cyc, out, hs, hc⟩

/-- taken / not-taken example: JR NZ,+5 from 0x0150 costs 3 cycles and lands on 0x0157 when Z is clear, 2 cycles and
0x0152 when Z is set -/
example : (stepModel C05.toyBus 0x20 5 0 { af := 0x0000, sp := 0xFFFE, ip := 0x0150 } (fun _ => 0)).map (fun x => (x.1.ip, x.1.cycles))
    = .ok (0x0157, 3) := by rfl
example : (stepModel C05.toyBus 0x20 5 0 { af := 0x0080, sp := 0xFFFE, ip := 0x0150 } (fun _ => 0)).map (fun x => (x.1.ip, x.1.cycles))
    = .ok (0x0152, 2) := by rfl

/-- `cycles_match` on a concrete state: CALL NZ,0x1234 with Z clear from PC = 0xC000, SP = 0xD000 -/
example : ∃ c m₁ cyc out, SM83.step (memOf C05.toyBus) (abs { af := 0x0000, sp := 0xD000, ip := 0xC000, cycles := 4 }) (fun _ => 0) 0xC4 0x34 0x12
      = .ok (c, m₁, cyc, out) ∧ 10 = 4 + cyc :=
  cycles_match C05.toyBus C05.toyBus_bytes 0xC4 0x34 0x12 (by decide) (by decide) (by decide) (by decide)
    { af := 0x0000, sp := 0xD000, ip := 0xC000, cycles := 4 } (by unfold WF; decide) (fun _ => 0)
    { af := 0x0000, sp := 0xCFFE, ip := 0x1234, cycles := 10 }
    (fun x => if x = 0xCFFE then 0x03 else if x = 0xCFFF then 0xC0 else 0) 0 rfl

theorem terminates_cb : SM83.terminates 0xCB = false := by decide
theorem length_cb : SM83.length 0xCB = 2 := by decide

/-- every instruction that does not terminate a block advances the program counter by the SM83 encoded length,
modulo 65536 -/
theorem interp_len {β : Type} (B : BusOps β) (b0 b1 b2 : Nat) (h0 : b0 < 256) (h1 : b1 < 256)
    (hu : ¬ SM83.isUndefined b0 = true) (hnt : SM83.terminates b0 = false) (r : Regs) (m : β) (r' : Regs) (m' : β) (st : Nat)
    (hm : stepModel B b0 b1 b2 r m = .ok (r', m', st)) : r'.ip = (r.ip + SM83.length b0) % 65536 := by
  have key : ∀ op len clk, Gen.decode b0 b1 b2 = (op, len, clk) → Gen.isBlockEnd op = false → len = SM83.length b0 →
      r'.ip = (r.ip + SM83.length b0) % 65536 := by
    intro op len clk hd hbe hlen
    rw [C05.stepModel_eq B b0 b1 b2 r m op len clk hd] at hm
    cases hr : runOp B op r m len with
    | error e => rw [hr] at hm; cases hm
    | ok x =>
      obtain ⟨r0, m0, st0⟩ := x
      rw [hr] at hm
      simp only [Except.map, C05.finish, Except.ok.injEq, Prod.mk.injEq] at hm
      obtain ⟨rfl, _, _⟩ := hm
      have := runOp_ip B op r m len r0 m0 st0 hbe hr
      simp only [this, hlen, GbVerif.Sm83Bits.and_ffff]
  by_cases hcb : b0 = 0xCB
  · subst hcb
    exact key (Gen.cbOp b1) (Gen.cbOpLen b1) (Gen.cbOpClocks b1) rfl (cb_never_block_end b1 h1)
      (by rw [cb_len b1 h1, length_cb])
  · have hd : Gen.decode b0 b1 b2 = (Gen.decOp b0 b1 b2, Gen.opLen b0, Gen.opClocks b0) := by
      simp only [Gen.decode, Gen.prefixByteOps, hcb, if_false]
    have hl := decoder_len_matches_sm83 b0 h0 hcb
    have hu' : SM83.isUndefined b0 = false := by simpa using hu
    rw [hu'] at hl
    exact key _ _ _ hd (by rw [block_end_exact b0 h0 b1 b2 hcb hu]; exact hnt) (by simpa using hl)

/-- `interp_len` on a concrete state: LD (HL),n at PC = 0xFFFF wraps to 0x0001 -/
example : (0x0001 : Nat) = (0xFFFF + SM83.length 0x36) % 65536 :=
  interp_len C05.toyBus 0x36 0x77 0 (by decide) (by decide) (by decide) (by decide)
    { hl := 0xC000, ip := 0xFFFF } (fun _ => 0) { hl := 0xC000, ip := 0x0001, cycles := 3 }
    (fun x => if x = 0xC000 then 0x77 else 0) 0 rfl

/-! ### undefined opcodes -/

def isInvalid : Op → Bool
  | .Invalid _ => true
  | _ => false

/-- the decoder yields `Op::Invalid` exactly for the eleven undefined first bytes, whatever the operand bytes -/
theorem invalid_exact : ∀ b0, b0 < 2^8 → ∀ b1 b2, b0 ≠ 0xCB → isInvalid (Gen.decOp b0 b1 b2) = SM83.isUndefined b0 := by
  apply forall_lt_of_ptree (fun b0 => ∀ b1 b2, b0 ≠ 0xCB → isInvalid (Gen.decOp b0 b1 b2) = SM83.isUndefined b0) 8
  simp only [PTree]
  repeat' constructor
  all_goals (intro b1 b2 h1; first | rfl | (exfalso; exact h1 rfl))

/-- no CB-prefixed encoding is invalid -/
theorem cb_never_invalid : ∀ b1, b1 < 2^8 → isInvalid (Gen.cbOp b1) = false := by
  intro b1 hb
  have := forall_lt_of_allRange (fun b1 => isInvalid (Gen.cbOp b1) == false) 8 (by decide +kernel) b1 hb
  simpa using this

/-- an `Op::Invalid` is never executed as something else: `run_op` panics (and only `Invalid` makes it panic without
a bus access: every other arm either succeeds or forwards a bus panic) -/
theorem invalid_panics {β : Type} (B : BusOps β) (code : Nat) (r : Regs) (m : β) (len : Nat) :
    ∃ s, runOp B (.Invalid code) r m len = .error (.explicit s) := ⟨_, rfl⟩

/-- the eleven undefined opcodes make the interpreter step panic explicitly, for every operand and state -/
theorem undefined_invalid {β : Type} (B : BusOps β) (b0 b1 b2 : Nat) (h0 : b0 < 256) (hu : SM83.isUndefined b0 = true)
    (r : Regs) (m : β) : ∃ s, stepModel B b0 b1 b2 r m = .error (.explicit s) := by
  have hcb : b0 ≠ 0xCB := by intro h; subst h; exact absurd hu (by decide)
  have hi := invalid_exact b0 h0 b1 b2 hcb
  rw [hu] at hi
  have hd : Gen.decode b0 b1 b2 = (Gen.decOp b0 b1 b2, Gen.opLen b0, Gen.opClocks b0) := by
    simp only [Gen.decode, Gen.prefixByteOps, hcb, if_false]
  rw [C05.stepModel_eq B b0 b1 b2 r m _ _ _ hd]
  cases hop : Gen.decOp b0 b1 b2 <;> rw [hop] at hi <;> first | (cases hi; done) | exact ⟨_, rfl⟩

example : ∃ s, stepModel C05.toyBus 0xDD 1 2 { ip := 0x100 } (fun _ => 0) = .error (.explicit s) :=
  undefined_invalid C05.toyBus 0xDD 1 2 (by decide) (by decide) _ _

/-! ### stack bytes -/

/-- `push`: the high byte goes to SP−1, then the low byte to SP−2, SP := SP−2, all modulo 65536 -/
theorem push_bytes {β : Type} (B : BusOps β) (r : Regs) (v : Nat) (m : β) (hsp : r.sp < 65536) :
    push B v r m =
      (B.write m ((r.sp + 65535) % 65536) (v / 256 % 256)).bind fun m1 =>
        (B.write m1 ((r.sp + 65534) % 65536) (v % 256)).bind fun m2 =>
          .ok ({ r with sp := (r.sp + 65534) % 65536 }, m2) := by
  have e1 : u16 (u16 r.sp + 65535) = (r.sp + 65535) % 65536 := by simp only [u16]; omega
  have e2 : u16 (u16 (u16 r.sp + 65535) + 65535) = (r.sp + 65534) % 65536 := by simp only [u16]; omega
  rw [C05.push_gen, e2, e1, GbVerif.Sm83Bits.shr8, GbVerif.Sm83Bits.and_ff]

/-- `pop`: the low byte comes from SP, the high byte from SP+1, SP := SP+2, all modulo 65536 -/
theorem pop_bytes {β : Type} (B : BusOps β) (r : Regs) (m : β) (hsp : r.sp < 65536) :
    pop B r m =
      (B.read m r.sp).bind fun lo => (B.read m ((r.sp + 1) % 65536)).bind fun hi =>
        .ok ((hi <<< 8) ||| lo, { r with sp := (r.sp + 2) % 65536 }) := by
  have e0 : u16 r.sp = r.sp := Nat.mod_eq_of_lt hsp
  have e1 : u16 (r.sp + 1) = (r.sp + 1) % 65536 := rfl
  have e2 : u16 ((r.sp + 1) % 65536 + 1) = (r.sp + 2) % 65536 := by simp only [u16]; omega
  rw [C05.pop_gen, e0, e1, e2]

/-- stack bytes of every stack instruction, in one statement -/
theorem stack_bytes {β : Type} (B : BusOps β) (r : Regs) (v : Nat) (m : β) (hsp : r.sp < 65536) :
    (push B v r m =
      (B.write m ((r.sp + 65535) % 65536) (v / 256 % 256)).bind fun m1 =>
        (B.write m1 ((r.sp + 65534) % 65536) (v % 256)).bind fun m2 =>
          .ok ({ r with sp := (r.sp + 65534) % 65536 }, m2)) ∧
    (pop B r m =
      (B.read m r.sp).bind fun lo => (B.read m ((r.sp + 1) % 65536)).bind fun hi =>
        .ok ((hi <<< 8) ||| lo, { r with sp := (r.sp + 2) % 65536 })) :=
  ⟨push_bytes B r v m hsp, pop_bytes B r m hsp⟩

/-- wrap-around: pushing 0xBEEF with SP = 0x0001 writes 0xBE at 0x0000 and 0xEF at 0xFFFF, SP := 0xFFFF -/
example : (push C05.toyBus 0xBEEF { sp := 0x0001 } (fun _ => 0)).map (fun x => (x.1.sp, x.2 0x0000, x.2 0xFFFF)) = .ok (0xFFFF, 0xBE, 0xEF) := by
  rw [(stack_bytes C05.toyBus { sp := 0x0001 } 0xBEEF (fun _ => 0) (by decide)).1]; rfl

/-- PUSH rr pushes the register pair; CALL pushes the address of the next instruction (PC+3), RST pushes PC+1;
POP / RET / RETI pop -/
theorem push_uses_stack {β : Type} (B : BusOps β) (reg : Reg16) (r : Regs) (m : β) (len : Nat) :
    runOp B (.Push reg) r m len = (push B (getReg16 r reg) r m).bind fun x => .ok (advance x.1 len, x.2, STATUS_NORMAL) := rfl
theorem call_pushes_next {β : Type} (B : BusOps β) (addr : Nat) (r : Regs) (m : β) (len : Nat) :
    runOp B (.Call .Always addr) r m len =
      (push B (u16 (u32 (r.ip + 3))) { r with ip := u32 (r.ip + 3) } m).bind fun x =>
        .ok ({ x.1 with ip := addr, cycles := x.1.cycles + 3 }, x.2, STATUS_NORMAL) := rfl
theorem rst_pushes_next {β : Type} (B : BusOps β) (v : Nat) (r : Regs) (m : β) (len : Nat) :
    runOp B (.ResetVector v) r m len =
      (push B (u16 (u32 (r.ip + 1))) { r with ip := u32 (r.ip + 1) } m).bind fun x =>
        .ok ({ x.1 with ip := v }, x.2, STATUS_NORMAL) := rfl
theorem ret_pops {β : Type} (B : BusOps β) (r : Regs) (m : β) (len : Nat) :
    runOp B (.Return .Always) r m len =
      (pop B { r with ip := r.ip + 1 } m).bind fun x => .ok ({ x.2 with ip := x.1, cycles := x.2.cycles + 3 }, m, STATUS_NORMAL) := rfl

end GbVerif.C06
