import GbVerif.Model.Joypad
import GbVerif.Spec.Joypad
import GbVerif.Proofs.NatBits
/-!
C17 — P1 reflects the button matrix and the joypad interrupt fires on falling lines.
Property theorems only; the complete transition relation is enumerated by the kernel.
-/
namespace GbVerif.C17
open GbVerif.Joypad GbVerif.JoypadSpec

/-- representation invariant of reachable states: only the low nibble of each group is used -/
def Inv (s : State) : Prop := s.action < 16 ∧ s.direction < 16

instance (s : State) : Decidable (Inv s) := by unfold Inv; infer_instance

/-- abstraction: model state ↦ abstract button matrix -/
def abs (s : State) : Abs where
  held := fun k => if k.val < 4 then s.action.testBit k.val else s.direction.testBit (k.val - 4)
  bit4 := !s.selDirection
  bit5 := !s.selAction

def mk (a d : Fin 16) (sa sd irq : Bool) : State := ⟨a.val, d.val, sa, sd, irq⟩

theorem inv_mk (s : State) (h : Inv s) : ∃ a d, s = mk a d s.selAction s.selDirection s.irq :=
  ⟨⟨s.action, h.1⟩, ⟨s.direction, h.2⟩, rfl⟩

/-- the complete action alphabet with the select byte reduced to its two decoded bits -/
inductive Act where
  | press (k : Fin 8) | release (k : Fin 8) | sel (selDir selAct : Bool)

def stepA (s : State) : Act → State
  | .press k => step s (.press k)
  | .release k => step s (.release k)
  | .sel d a => stepSel s d a

def acts : List Act :=
  (List.finRange 8).map .press ++ (List.finRange 8).map .release ++
    [.sel false false, .sel false true, .sel true false, .sel true true]

/-- every action of the model is one of the 20 enumerated ones -/
theorem action_mem (s : State) (a : Action) : ∃ a' ∈ acts, step s a = stepA s a' := by
  cases a with
  | press k => exact ⟨.press k, by simp [acts], rfl⟩
  | release k => exact ⟨.release k, by simp [acts], rfl⟩
  | select v =>
    refine ⟨.sel (v &&& 0x10 == 0) (v &&& 0x20 == 0), ?_, rfl⟩
    cases (v &&& 0x10 == 0) <;> cases (v &&& 0x20 == 0) <;> simp [acts]

/-! ### finite enumerations (kernel-checked) -/

def allStates (P : State → Bool) : Bool :=
  (List.finRange 16).all fun a => (List.finRange 16).all fun d =>
    [false, true].all fun sa => [false, true].all fun sd => [false, true].all fun irq => P (mk a d sa sd irq)

theorem allStates_spec (P : State → Bool) (h : allStates P = true) (s : State) (hi : Inv s) : P s = true := by
  obtain ⟨a, d, hs⟩ := inv_mk s hi
  rw [hs]
  simp only [allStates, List.all_eq_true] at h
  exact h a (List.mem_finRange a) d (List.mem_finRange d) _ (by cases s.selAction <;> simp) _
    (by cases s.selDirection <;> simp) _ (by cases s.irq <;> simp)

/-- P1 read-back on bits 0..5 equals the spec for every reachable state -/
theorem p1_spec (s : State) (h : Inv s) (i : Fin 6) : (getValue s).testBit i.val = p1Bit (abs s) i := by
  have := allStates_spec (fun s => (List.finRange 6).all fun i => (getValue s).testBit i.val == p1Bit (abs s) i)
    (by decide +kernel) s h
  simp only [List.all_eq_true, beq_iff_eq] at this
  exact this i (List.mem_finRange i)

/-- the invariant holds initially and is preserved by every action -/
theorem inv_init : Inv init := by decide

theorem inv_step (s : State) (h : Inv s) (a : Action) : Inv (step s a) := by
  obtain ⟨a', ha', e⟩ := action_mem s a
  rw [e]
  have := allStates_spec (fun s => acts.all fun a => decide (Inv (stepA s a))) (by decide +kernel) s h
  simp only [List.all_eq_true, decide_eq_true_eq] at this
  exact this a' ha'

theorem inv_reachable (as : List Action) : Inv (as.foldl step init) := by
  suffices ∀ s, Inv s → Inv (as.foldl step s) from this _ inv_init
  induction as with
  | nil => intro s h; exact h
  | cons a as ih => intro s h; exact ih _ (inv_step s h a)

/-- The interrupt request is raised by an action exactly when some input line goes high → low,
for every reachable state (request not already pending) and every action. -/
theorem irq_iff_falling (s : State) (h : Inv s) (hq : s.irq = false) (a : Action) :
    (step s a).irq = someLineFalls (abs s) (abs (step s a)) := by
  obtain ⟨a', ha', e⟩ := action_mem s a
  rw [e]
  have := allStates_spec
    (fun s => acts.all fun a => s.irq || ((stepA s a).irq == someLineFalls (abs s) (abs (stepA s a))))
    (by decide +kernel) s h
  simp only [List.all_eq_true, Bool.or_eq_true, beq_iff_eq] at this
  rcases this a' ha' with h' | h'
  · rw [hq] at h'; cases h'
  · exact h'

/-- a pending request is never dropped by an action, and a take reports it exactly once -/
theorem irq_sticky (s : State) (h : Inv s) (a : Action) (hq : s.irq = true) : (step s a).irq = true := by
  obtain ⟨a', ha', e⟩ := action_mem s a
  rw [e]
  have := allStates_spec (fun s => acts.all fun a => !s.irq || (stepA s a).irq) (by decide +kernel) s h
  simp only [List.all_eq_true, Bool.or_eq_true, Bool.not_eq_true'] at this
  rcases this a' ha' with h' | h'
  · rw [hq] at h'; cases h'
  · exact h'

theorem irq_once (s : State) : (takeIrq s).1 = s.irq ∧ (takeIrq (takeIrq s).2).1 = false := by
  simp [takeIrq]

/-- the abstraction commutes with actions: pressing/releasing changes exactly that button -/
theorem abs_press (s : State) (h : Inv s) (k j : Fin 8) :
    (abs (step s (.press k))).held j = (if j = k then true else (abs s).held j) := by
  have := allStates_spec (fun s => (List.finRange 8).all fun k => (List.finRange 8).all fun j =>
    (abs (step s (.press k))).held j == (if j = k then true else (abs s).held j)) (by decide +kernel) s h
  simp only [List.all_eq_true, beq_iff_eq] at this
  exact this k (List.mem_finRange k) j (List.mem_finRange j)

theorem abs_release (s : State) (h : Inv s) (k j : Fin 8) :
    (abs (step s (.release k))).held j = (if j = k then false else (abs s).held j) := by
  have := allStates_spec (fun s => (List.finRange 8).all fun k => (List.finRange 8).all fun j =>
    (abs (step s (.release k))).held j == (if j = k then false else (abs s).held j)) (by decide +kernel) s h
  simp only [List.all_eq_true, beq_iff_eq] at this
  exact this k (List.mem_finRange k) j (List.mem_finRange j)

/-- a select write records exactly bits 4 and 5 of the written byte and touches no button -/
theorem abs_select (s : State) (v : Nat) :
    (abs (step s (.select v))).bit4 = v.testBit 4 ∧ (abs (step s (.select v))).bit5 = v.testBit 5
    ∧ (abs (step s (.select v))).held = (abs s).held := by
  simp only [step, stepSel, NatBits.and16_eq_zero, NatBits.and32_eq_zero]
  split <;> simp [abs]

/-- non-vacuity: a reachable state where a select change makes one line fall while another rises
(the case the former `new < prev` comparison missed) -/
example : let s := [Action.press 3, .press 4, .select 0x10].foldl step init
    Inv s ∧ (takeIrq s).2.irq = false ∧ (step (takeIrq s).2 (.select 0x20)).irq = true := by decide

end GbVerif.C17
