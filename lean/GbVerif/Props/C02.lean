import GbVerif.Model.JitCycles
import GbVerif.Proofs.Enum
import GbVerif.Proofs.X86Cycles
import GbVerif.Proofs.TemplateWf
/-!
C02 — the recompiler and the interpreter charge identical machine cycles.
Both tables are regenerated from the source on every run (`Gen.EmitTable` by RUNNING the emitter, `Gen.DecoderOps`
from the decoder arms); the kernel re-checks the equalities below against what the code says now.
-/
namespace GbVerif.C02
open GbVerif.Enum GbVerif.JitCycles GbVerif.X86

/-- the comparison for one unprefixed encoding: `true` iff the encoding is undefined/prefix, or the set of cycle
charges over all paths of the emitted code equals the set the interpreter model charges over both flag outcomes -/
def okOp (b0 : Nat) : Bool :=
  let t := Gen.emitOp b0
  if t.isEmpty then true else
  let (op, len, clk) := Gen.decode b0 0 0
  match jitCycles t, interpCycles op len clk with
  | some a, some b => a == b
  | _, _ => false

def okCb (b1 : Nat) : Bool :=
  let (op, len, clk) := Gen.decode 0xcb b1 0
  match jitCycles (Gen.emitCb b1), interpCycles op len clk with
  | some a, some b => a == b
  | _, _ => false

/-- **C02 (per instruction)**: for every unprefixed encoding the emitted code decodes inside the modelled subset,
its jumps are forward and land on instruction boundaries, r15 is written only by `add r15, imm8`, and the set of
totals over all paths equals the interpreter's set of charges (not taken / taken) -/
theorem cycles_eq_unprefixed : ∀ b0, b0 < 2^8 → okOp b0 = true :=
  forall_lt_of_allRange okOp 8 (by decide +kernel)

/-- the same for all 256 CB-prefixed encodings -/
theorem cycles_eq_cb : ∀ b1, b1 < 2^8 → okCb b1 = true :=
  forall_lt_of_allRange okCb 8 (by decide +kernel)


/-! ### what the analysis means on the executable x86 model

`jitCycles` is a static analysis of the emitted bytes.  `X86.jitCycles_sound` (in `Proofs/X86Cycles.lean`, by induction
over the analysis with a frame lemma over every modelled x86 instruction and the bus-call helper) shows that its
answer bounds every execution of the template on `Model/X86Sem.lean`; the two theorems below instantiate it at all 501
templates (each checked well-formed by the kernel: `Proofs/TemplateWf.lean`), so the equality of cycle charges is a
statement about runs, not about a syntactic pass. -/

/-- the statement about runs for one template `t` against the decoder entry `(op, len, clk)` -/
def RunsCharge (t : List Nat) (op : Op) (len clk : Nat) : Prop :=
  ∃ code C, decodeCode t = some code ∧ interpCycles op len clk = some C ∧
    ∀ (β : Type) (B : Interp.BusOps β) (fuel : Nat) (s s' : X86.St β), s.r.size = 16 → s.pc = 0 →
      X86.run B code (bytesOf t) fuel s = .ok s' →
      ∃ l ∈ C, (X86.get s' 15).toNat = ((X86.get s 15).toNat + l) % 2 ^ 64

theorem runsCharge_of (t : List Nat) (op : Op) (len clk : Nat) (hwf : offsetsWf t = true)
    (heq : (match jitCycles t, interpCycles op len clk with | some a, some b => a == b | _, _ => false) = true) :
    RunsCharge t op len clk := by
  obtain ⟨code, hdec, hwf⟩ := offsetsWf_parts hwf
  · cases hj : jitCycles t with
    | none => rw [hj] at heq; cases heq
    | some a =>
      cases hi : interpCycles op len clk with
      | none => rw [hj, hi] at heq; cases heq
      | some b =>
        rw [hj, hi] at heq
        have hab : a = b := by simpa using heq
        subst hab
        refine ⟨code, a, hdec, hi, ?_⟩
        intro β B fuel s s' hsz hpc hrun
        exact X86.jitCycles_sound B t code a hdec hwf.1 hj fuel s s' hsz (by rw [hpc, hwf.2]) hrun

/-- **C02 (per instruction, on executions)**: for every defined unprefixed encoding, EVERY complete run of its
emitted template on the x86 model - from any register file, flags, host stack, bus and operand bytes, over any bus
behaviour - leaves r15 (the guest cycle counter) increased, modulo 2^64, by one of the charges the interpreter
model makes for that encoding (not taken / taken) -/
theorem cycles_run_unprefixed (b0 : Nat) (hb : b0 < 2^8) (hne : (Gen.emitOp b0).isEmpty = false) :
    RunsCharge (Gen.emitOp b0) (Gen.decode b0 0 0).1 (Gen.decode b0 0 0).2.1 (Gen.decode b0 0 0).2.2 := by
  have hwf := offsetsWf_op hb hne
  have hok := cycles_eq_unprefixed b0 hb
  unfold okOp at hok
  simp only [hne, Bool.false_eq_true, if_false] at hok
  exact runsCharge_of _ _ _ _ hwf hok

/-- the same for all 256 CB-prefixed encodings -/
theorem cycles_run_cb (b1 : Nat) (hb : b1 < 2^8) :
    RunsCharge (Gen.emitCb b1) (Gen.decode 0xcb b1 0).1 (Gen.decode 0xcb b1 0).2.1 (Gen.decode 0xcb b1 0).2.2 :=
  runsCharge_of _ _ _ _ (offsetsWf_cb b1 hb) (by have := cycles_eq_cb b1 hb; unfold okCb at this; exact this)

/-! non-vacuity: templates do run to completion on the model from a state meeting the hypotheses (16 registers,
pc = 0), and the charge is the one of the branch outcome — NOP; JR NZ taken / not taken; CALL; RET NZ taken / not -/
def exSt (f : Nat) : X86.St Unit :=
  { r := #[BitVec.ofNat 64 f,0,0,0,0,0,0,0,0,0,0,0,0xc000,0x150,0,7], bus := (), stack := [1,2] }
def r15After (b0 f : Nat) : Option Nat :=
  match decodeCode (Gen.emitOp b0) with
  | none => none
  | some code => match X86.run nullBus code (bytesOf (Gen.emitOp b0)) 400 (exSt f) with
    | .ok s' => some (X86.get s' 15).toNat
    | .error _ => none
example : (exSt 0).r.size = 16 ∧ (exSt 0).pc = 0 := by decide
example : r15After 0x00 0 = some (7 + 1) := by decide +kernel
example : r15After 0x20 0x00 = some (7 + 3) ∧ r15After 0x20 0x80 = some (7 + 2) := by decide +kernel
example : r15After 0xcd 0 = some (7 + 6) := by decide +kernel
example : r15After 0xc0 0x00 = some (7 + 5) ∧ r15After 0xc0 0x80 = some (7 + 2) := by decide +kernel

/-- the table covers every defined encoding: the emitter produced code exactly for the opcodes the decoder defines -/
theorem table_covers_defined : ∀ b0, b0 < 2^8 → ((Gen.emitOp b0).isEmpty = (b0 == 0xcb || Gen.decOp b0 0 0 == Op.Invalid b0)) = true := by
  intro b0 hb
  have := forall_lt_of_allRange (fun b0 => (Gen.emitOp b0).isEmpty == (b0 == 0xcb || Gen.decOp b0 0 0 == Op.Invalid b0)) 8 (by decide +kernel) b0 hb
  simpa using this

/-- sums over blocks: if every instruction of a block (with its branch outcome) is charged the same by both engines,
so is the whole block, whatever its length -/
theorem block_cycles {α : Type} (ops : List α) (jit interp : α → Nat) (h : ∀ x ∈ ops, jit x = interp x) :
    (ops.map jit).sum = (ops.map interp).sum := by
  induction ops with
  | nil => rfl
  | cons x xs ih =>
    simp only [List.map_cons, List.sum_cons]
    rw [h x List.mem_cons_self, ih (fun y hy => h y (List.mem_cons_of_mem _ hy))]

end GbVerif.C02
