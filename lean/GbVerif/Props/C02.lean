import GbVerif.Model.JitCycles
import GbVerif.Proofs.Enum
/-!
C02 — the recompiler and the interpreter charge identical machine cycles.
Both tables are regenerated from the source on every run (`Gen.EmitTable` by RUNNING the emitter, `Gen.DecoderOps`
from the decoder arms); the kernel re-checks the equalities below against what the code says now.
-/
namespace GbVerif.C02
open GbVerif.Enum GbVerif.JitCycles

/-- the comparison for one unprefixed encoding: `true` iff the encoding is undefined/prefix, or the set of cycle
charges over all paths of the emitted code equals the set the interpreter model charges over both flag outcomes -/
def okOp (b0 : Nat) : Bool :=
  let t := Gen.emitOp b0
  if t.isEmpty then true else
  let (op, len, clk) := Gen.decode b0 0 0
  match jitCycles t, interpCycles op len clk with
  | some a, some b => a == b
  | _, _ => false

def okCb (b1 : Nat) : Bool :=
  let (op, len, clk) := Gen.decode 0xcb b1 0
  match jitCycles (Gen.emitCb b1), interpCycles op len clk with
  | some a, some b => a == b
  | _, _ => false

/-- **C02 (per instruction)**: for every unprefixed encoding the emitted code decodes inside the modelled subset,
its jumps are forward and land on instruction boundaries, r15 is written only by `add r15, imm8`, and the set of
totals over all paths equals the interpreter's set of charges (not taken / taken) -/
theorem cycles_eq_unprefixed : ∀ b0, b0 < 2^8 → okOp b0 = true :=
  forall_lt_of_allRange okOp 8 (by decide +kernel)

/-- the same for all 256 CB-prefixed encodings -/
theorem cycles_eq_cb : ∀ b1, b1 < 2^8 → okCb b1 = true :=
  forall_lt_of_allRange okCb 8 (by decide +kernel)

/-- the table covers every defined encoding: the emitter produced code exactly for the opcodes the decoder defines -/
theorem table_covers_defined : ∀ b0, b0 < 2^8 → ((Gen.emitOp b0).isEmpty = (b0 == 0xcb || Gen.decOp b0 0 0 == Op.Invalid b0)) = true := by
  intro b0 hb
  have := forall_lt_of_allRange (fun b0 => (Gen.emitOp b0).isEmpty == (b0 == 0xcb || Gen.decOp b0 0 0 == Op.Invalid b0)) 8 (by decide +kernel) b0 hb
  simpa using this

/-- sums over blocks: if every instruction of a block (with its branch outcome) is charged the same by both engines,
so is the whole block, whatever its length -/
theorem block_cycles {α : Type} (ops : List α) (jit interp : α → Nat) (h : ∀ x ∈ ops, jit x = interp x) :
    (ops.map jit).sum = (ops.map interp).sum := by
  induction ops with
  | nil => rfl
  | cons x xs ih =>
    simp only [List.map_cons, List.sum_cons]
    rw [h x List.mem_cons_self, ih (fun y hy => h y (List.mem_cons_of_mem _ hy))]

end GbVerif.C02
