import GbVerif.Proofs.BusWf
import GbVerif.Gen.HeaderTables
import GbVerif.Proofs.SysTotal
import GbVerif.Proofs.BusIo
/-!
C11 — no guest-controlled bus access can crash the emulator.

The bus model (`Model/Bus.lean`) makes every Rust panic of `memory_read_byte` / `memory_write_byte` / the word
helpers / the OAM-DMA loop explicit (`Except Panic`).  The theorems below say that from every state the guest can
reach — any supported cartridge type, any ROM-size and RAM-size code of the header tables (regenerated from
`cart.rs`), any history of bus accesses and DMA catch-ups — none of these panics is reachable.
Lemmas: `Proofs/BusBasic.lean`, `Proofs/BusWf.lean`.
-/
namespace GbVerif.C11
open GbVerif.Bus GbVerif.BusProofs

/-- Well-formedness: the buffer sizes `MemoryAreas::with_rom_file` creates (`Bus.create`); the cartridge RAM size
and every register value are unconstrained. -/
abbrev WF (s : State) : Prop := BusProofs.WF s

theorem wf_iff (s : State) : WF s ↔ (s.vram.size = 0x2000 ∧ s.wram.size = 0x2000 ∧ s.oam.size = 0xa0 ∧
    s.hram.size = 127 ∧ s.romLen = s.cart.romBanks * 0x4000 ∧ 2 ≤ s.cart.romBanks) :=
  ⟨fun ⟨a, b, c, d, e, f⟩ => ⟨a, b, c, d, e, f⟩, fun ⟨a, b, c, d, e, f⟩ => ⟨a, b, c, d, e, f⟩⟩

/-- every cartridge `with_rom_file` can build is well-formed: any controller kind, any RAM size, any ROM of ≥ 2 banks -/
theorem wf_create (k : Cart.Kind) (romBanks ramBytes : Nat) (rom : Nat → Nat) (h : 2 ≤ romBanks) :
    WF (create k romBanks ramBytes rom) := BusProofs.wf_create k romBanks ramBytes rom h

/-- every ROM-size code of `Header::get_rom_bank_count` (table regenerated from cart.rs) gives at least 2 banks -/
theorem header_rom_banks (code : Nat) : 2 ≤ Gen.HeaderTables.romBanks code := by
  unfold Gen.HeaderTables.romBanks; repeat' split
  all_goals decide

/-- a write that completes keeps the state well-formed (any address, any value, any banking state) -/
theorem wf_write {s s' : State} {a v : Nat} (wf : WF s) (h : write s a v = .ok s') : WF s' :=
  BusProofs.wf_write wf h

/-- the ROM bank register always selects a bank that exists, whatever was written to the controller -/
theorem rom_bank_in_range {s : State} (wf : WF s) : Cart.getRomBank s.cart < s.cart.romBanks :=
  getRomBank_lt s.cart wf.banks

/-- every byte read completes -/
theorem read_total {s : State} {a : Nat} (wf : WF s) (ha : a < 65536) : ∃ v, read s a = .ok v :=
  BusProofs.read_total wf ha

/-- every byte write completes (and the result is well-formed again) -/
theorem write_total {s : State} {a : Nat} (v : Nat) (wf : WF s) (ha : a < 65536) :
    ∃ s', write s a v = .ok s' ∧ WF s' := by
  obtain ⟨s', h⟩ := BusProofs.write_total wf v ha
  exact ⟨s', h, BusProofs.wf_write wf h⟩

/-- every 16-bit read completes, including the one at 0xFFFF whose high byte wraps to 0x0000 -/
theorem readWord_total {s : State} {a : Nat} (wf : WF s) (ha : a < 65536) : ∃ v, readWord s a = .ok v :=
  BusProofs.readWord_total wf ha

/-- every 16-bit write completes, including the one at 0xFFFF -/
theorem writeWord_total {s : State} {a : Nat} (v : Nat) (wf : WF s) (ha : a < 65536) :
    ∃ s', writeWord s a v = .ok s' ∧ WF s' := BusProofs.writeWord_total wf v ha

/-- the OAM-DMA catch-up never panics, for every source page (0xFF46 accepts any byte), progress and batch size -/
theorem dma_total {s : State} (wf : WF s) (clocks : Nat) : ∃ s', runDma s clocks = .ok s' ∧ WF s' :=
  BusProofs.runDma_total wf clocks

/-! ### histories -/

/-- what the guest (CPU, either engine) and the clock can do to the bus -/
inductive Op where
  | read (a : Nat)
  | write (a v : Nat)
  | readWord (a : Nat)
  | writeWord (a v : Nat)
  | clock (cycles : Nat)      -- `MemoryAreas::run_clock_cycles`: DMA catch-up

/-- addresses are `u16` -/
def Op.valid : Op → Prop
  | .read a => a < 65536
  | .write a _ => a < 65536
  | .readWord a => a < 65536
  | .writeWord a _ => a < 65536
  | .clock _ => True

def step (s : State) : Op → Except Panic State
  | .read a => do let _ ← read s a; pure s
  | .write a v => write s a v
  | .readWord a => do let _ ← readWord s a; pure s
  | .writeWord a v => writeWord s a v
  | .clock c => runDma s c

def run (s : State) : List Op → Except Panic State
  | [] => .ok s
  | op :: ops => do let s ← step s op; run s ops

theorem step_total {s : State} (wf : WF s) (op : Op) (hv : op.valid) : ∃ s', step s op = .ok s' ∧ WF s' := by
  cases op with
  | read a => obtain ⟨v, h⟩ := BusProofs.read_total wf (a := a) hv; exact ⟨s, by simp only [step, h]; rfl, wf⟩
  | write a v => exact write_total v wf hv
  | readWord a => obtain ⟨v, h⟩ := BusProofs.readWord_total wf (a := a) hv; exact ⟨s, by simp only [step, h]; rfl, wf⟩
  | writeWord a v => exact BusProofs.writeWord_total wf v hv
  | clock c => exact BusProofs.runDma_total wf c

/-- well-formedness is an invariant of every history, and no history panics -/
theorem wf_reachable : ∀ (ops : List Op) {s : State}, WF s → (∀ op ∈ ops, op.valid) →
    ∃ s', run s ops = .ok s' ∧ WF s'
  | [], s, wf, _ => ⟨s, rfl, wf⟩
  | op :: ops, s, wf, hv => by
    obtain ⟨s1, h1, wf1⟩ := step_total wf op (hv op List.mem_cons_self)
    obtain ⟨s2, h2, wf2⟩ := wf_reachable ops wf1 (fun o ho => hv o (List.mem_cons_of_mem _ ho))
    exact ⟨s2, by simp only [run, h1]; exact h2, wf2⟩

/-- `Header::create_cart_state` kind codes of `Gen.HeaderTables.cartKind` -/
def kindOfCode : Nat → Cart.Kind
  | 0 => .none
  | 1 => .mbc1
  | _ => .mbc3

/-- **C11**: for every cartridge type the loader accepts, every ROM-size and RAM-size code, every ROM content
and every history of byte/word reads and writes at any addresses with any values, interleaved with DMA catch-up
batches of any length, no access panics — and the same holds for every further access afterwards. -/
theorem no_crash (typeCode romCode ramCode k : Nat) (hk : Gen.HeaderTables.cartKind typeCode = some k)
    (rom : Nat → Nat) (ops : List Op) (hv : ∀ op ∈ ops, op.valid) :
    ∃ s', run (create (kindOfCode k) (Gen.HeaderTables.romBanks romCode) (Gen.HeaderTables.ramBytes ramCode) rom) ops
      = .ok s' ∧ WF s' :=
  have _ := hk
  wf_reachable ops (wf_create _ _ _ rom (header_rom_banks romCode)) hv

/-! ### the passage of time as the real machine composes it

`Op.clock` above is the OAM-DMA copy alone.  `MemoryAreas::run_clock_cycles` also runs the timer (a checked `u32`
addition), the LCD loop (`cycles_remaining -= 4` on a `usize`) and the joypad, byte by byte while a DMA is active
(`Sys.dev`, the device function the c09 / c04 / c10 streams tie to the code).  None of that can panic either. -/

open GbVerif.SysProofs in
/-- the invariant of the whole-machine histories: buffer sizes, and the timer counter in its 16 bits -/
def SysOk (s : State) : Prop := WF s ∧ TimerOk s

open GbVerif.SysProofs in
theorem sysOk_create (k : Cart.Kind) (romBanks ramBytes : Nat) (rom : Nat → Nat) (h : 2 ≤ romBanks) :
    SysOk (create k romBanks ramBytes rom) := ⟨wf_create k romBanks ramBytes rom h, by show (0 : Nat) < 65536; decide⟩

open GbVerif.SysProofs in
/-- a completed bus write keeps the invariant (a DIV write clears the counter, nothing else assigns it) -/
theorem sysOk_write {s s' : State} {a v : Nat} (ok : SysOk s) (ha : a < 65536) (h : write s a v = .ok s') : SysOk s' := by
  refine ⟨BusProofs.wf_write ok.1 h, ?_⟩
  rcases BusProofs.write_io_cases ok.1 ha h with e | e | e
  · show s'.io.timer.cycleCount < 65536; rw [e]; exact ok.2
  · show s'.io.timer.cycleCount < 65536; rw [e]; exact ok.2
  · show s'.io.timer.cycleCount < 65536; rw [e]; exact setByte_timerOk _ _ _ ok.2

/-- what the guest and the clock can do to the whole machine -/
inductive SysOp where
  | read (a : Nat)
  | write (a v : Nat)
  | readWord (a : Nat)
  | writeWord (a v : Nat)
  | time (clocks : Nat)      -- `MemoryAreas::run_clock_cycles(clocks)`: DMA, timer, LCD, joypad

/-- addresses are `u16`; the core hands over whole machine cycles, far below 2^32 clocks per step -/
def SysOp.valid : SysOp → Prop
  | .read a => a < 65536
  | .write a _ => a < 65536
  | .readWord a => a < 65536
  | .writeWord a _ => a < 65536
  | .time k => k % 4 = 0 ∧ k < 2 ^ 32 - 65536

def sysStep (s : State) : SysOp → Except Panic State
  | .read a => do let _ ← read s a; pure s
  | .write a v => write s a v
  | .readWord a => do let _ ← readWord s a; pure s
  | .writeWord a v => writeWord s a v
  | .time k => Sys.dev s k

def sysRun (s : State) : List SysOp → Except Panic State
  | [] => .ok s
  | op :: ops => do let s ← sysStep s op; sysRun s ops

open GbVerif.SysProofs in
theorem sysStep_total {s : State} (ok : SysOk s) (op : SysOp) (hv : op.valid) : ∃ s', sysStep s op = .ok s' ∧ SysOk s' := by
  cases op with
  | read a => obtain ⟨v, h⟩ := BusProofs.read_total ok.1 (a := a) hv; exact ⟨s, by simp only [sysStep, h]; rfl, ok⟩
  | write a v =>
    obtain ⟨s', h, _⟩ := write_total v ok.1 hv
    exact ⟨s', h, sysOk_write ok hv h⟩
  | readWord a => obtain ⟨v, h⟩ := BusProofs.readWord_total ok.1 (a := a) hv; exact ⟨s, by simp only [sysStep, h]; rfl, ok⟩
  | writeWord a v =>
    -- two byte writes
    obtain ⟨s1, h1, _⟩ := write_total (v &&& 0xff) ok.1 hv
    have ok1 := sysOk_write ok hv h1
    have ha2 : (a + 1) % 65536 < 65536 := Nat.mod_lt _ (by decide)
    obtain ⟨s2, h2, _⟩ := write_total (v >>> 8) ok1.1 ha2
    exact ⟨s2, by simp only [sysStep]; unfold writeWord; rw [h1]; exact h2, sysOk_write ok1 ha2 h2⟩
  | time k =>
    obtain ⟨s', h, wf', ht'⟩ := dev_total ok.1 ok.2 hv.1 hv.2
    exact ⟨s', h, wf', ht'⟩

/-- no history of bus accesses and time panics, and the invariant holds after it -/
theorem sys_reachable : ∀ (ops : List SysOp) {s : State}, SysOk s → (∀ op ∈ ops, op.valid) →
    ∃ s', sysRun s ops = .ok s' ∧ SysOk s'
  | [], s, ok, _ => ⟨s, rfl, ok⟩
  | op :: ops, s, ok, hv => by
    obtain ⟨s1, h1, ok1⟩ := sysStep_total ok op (hv op List.mem_cons_self)
    obtain ⟨s2, h2, ok2⟩ := sys_reachable ops ok1 (fun o ho => hv o (List.mem_cons_of_mem _ ho))
    exact ⟨s2, by simp only [sysRun, h1]; exact h2, ok2⟩

/-- **C11 with time**: for every cartridge the loader accepts and every history of byte/word accesses interleaved with
the passage of any amounts of time through the real device composition, nothing panics -/
theorem no_crash_sys (typeCode romCode ramCode k : Nat) (hk : Gen.HeaderTables.cartKind typeCode = some k)
    (rom : Nat → Nat) (ops : List SysOp) (hv : ∀ op ∈ ops, op.valid) :
    ∃ s', sysRun (create (kindOfCode k) (Gen.HeaderTables.romBanks romCode) (Gen.HeaderTables.ramBytes ramCode) rom) ops
      = .ok s' ∧ SysOk s' :=
  have _ := hk
  sys_reachable ops (sysOk_create _ _ _ rom (header_rom_banks romCode)) hv

/-! ### non-vacuity -/

/-- the model does panic outside the invariant: a ROM shorter than two banks, bank register beyond it -/
example : read (create .none 1 0 (fun _ => 0)) 0x4000 = .error (.oob "romx") := rfl
/-- …and the invariant is what excludes it -/
example : ¬ WF (create .none 1 0 (fun _ => 0)) := fun h => absurd h.banks (by decide)
example : WF (create .mbc1 4 0x8000 (fun i => i % 251)) := wf_create _ _ _ _ (by decide)
/-- the word accesses at 0xFFFF wrap to 0x0000 (IE low, ROM byte 0 high) -/
example : readWord (create .mbc3 72 0 (fun i => i + 7)) 0xffff = .ok 0x0700 := rfl
example : (Op.writeWord 0xffff 0x1234).valid ∧ (Op.read 0xa000).valid ∧ (Op.clock 644).valid := by
  exact ⟨(by decide : 0xffff < 65536), (by decide : 0xa000 < 65536), trivial⟩
example : Gen.HeaderTables.cartKind 0x13 = some 3 ∧ Gen.HeaderTables.romBanks 0x52 = 72 ∧
    Gen.HeaderTables.ramBytes 1 = 2048 := by decide

end GbVerif.C11
