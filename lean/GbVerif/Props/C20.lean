import GbVerif.Model.Debug
import GbVerif.Spec.Debug
import GbVerif.Proofs.DebugAddr
import GbVerif.Proofs.DebugCmd
import GbVerif.Proofs.DebugDisasm
/-!
C20 — debugger command parsing and disassembly.  Property theorems only.

`E : Env` are Rust's Unicode tables (`char::is_whitespace`, `char::to_lowercase`); every theorem holds for
**every** `E` that behaves as documented on the 128 ASCII chars (`E.AsciiOk`, nothing is assumed about
non-ASCII chars — in particular whitespace around words may be any chars `E` calls whitespace), for every
line / token of arbitrary Unicode chars.  `rust_ascii_ok` shows the instance the correspondence replays is one.

Interpretation fixed in DESIGN.md "C20": malformed = what Rust's integer grammar rejects; one leading `+` is
part of that grammar and accepted (`addr_plus`).
-/
namespace GbVerif.C20
open GbVerif.Debug GbVerif.DebugSpec GbVerif.DebugAddr GbVerif.DebugCmd GbVerif.DebugDisasm

/-- the replayed instance of the tables satisfies the assumption of all theorems below -/
theorem rust_ascii_ok : rust.AsciiOk := by
  have h : ∀ n, n < 128 →
      (unicodeWhite (Char.ofNat n) = ((Char.ofNat n).toNat == 32 || (9 ≤ (Char.ofNat n).toNat && (Char.ofNat n).toNat ≤ 13))
        ∧ rustLower (Char.ofNat n) = [asciiLower (Char.ofNat n)]) := by decide +kernel
  constructor
  · intro c hc; have := (h c.toNat hc).1; rwa [← char_eq_ofNat] at this
  · intro c hc; have := (h c.toNat hc).2; rwa [← char_eq_ofNat] at this

/-! ## Command lines: a result for every line -/

/-- **Totality and meaning.** `parse_command` is a total function (the model has no panic path: every Rust
operation in it is total, including `get_unchecked(2..)` after `starts_with("0x")`), and for *every* line its
answer is one the spec allows: exactly the spelled command if the line spells one; `none` if it does not and
its first two words are ASCII; and any address it carries is the value of the well-formed numeral in the
second word. -/
theorem parse_total (E : Env) (hE : E.AsciiOk) (line : List Char) :
    ∃ r : Option Command, parseCommand E line = r ∧ allows E.isWhite line (r.map toSpec) = true :=
  ⟨_, rfl, parse_allowed E hE line⟩

/-- On lines whose first two words are ASCII the parser *is* the spec.
Full statement (all lines) is false for the real tables: U+212A KELVIN SIGN lowercases to `k`, so
`breaK 5` is accepted as `break 5` (second example below) — hence `_partial`; `parse_total` is the
statement for all lines. -/
theorem parse_eq_spec_partial (E : Env) (hE : E.AsciiOk) (line : List Char)
    (h : ((tokens E.isWhite line).take 2).all (fun w => w.all isAscii) = true) :
    (parseCommand E line).map toSpec = command? E.isWhite line := by
  have := parse_allowed E hE line
  unfold allows at this
  simp only [Bool.and_eq_true] at this
  have h1 := this.1
  cases hc : command? E.isWhite line with
  | some c => rw [hc] at h1; simpa using h1
  | none => rw [hc] at h1; simpa [h] using h1

example : ((tokens rust.isWhite " \tInFo  REGisters x".toList).take 2).all (fun w => w.all isAscii) = true ∧
    parseCommand rust " \tInFo  REGisters x".toList = some .readRegisters := by decide +kernel

example : parseCommand rust "breaK 5".toList = some (.breakSet 5) ∧
    command? rust.isWhite "breaK 5".toList = none := by decide +kernel

/-! ## Command words regardless of letter case and surrounding whitespace -/

/-- Commands without argument: any whitespace (as `E` defines it, Unicode included) before, any ASCII letter case,
then end of line or whitespace and anything at all. -/
theorem cmd_case_ws_noarg (E : Env) (hE : E.AsciiOk) (pre w rest : List Char)
    (hpre : ∀ c ∈ pre, E.isWhite c = true)
    (hrest : rest = [] ∨ ∃ c r, rest = c :: r ∧ E.isWhite c = true) :
    ((foldAscii? w = some "c".toList ∨ foldAscii? w = some "continue".toList) →
        parseCommand E (pre ++ w ++ rest) = some .continue_) ∧
    ((foldAscii? w = some "s".toList ∨ foldAscii? w = some "step".toList) →
        parseCommand E (pre ++ w ++ rest) = some .step) := by
  obtain ⟨_, hc, hcont, _, _, _, hs, hstep, _, _⟩ := letters_words
  obtain ⟨_, e2, e3, _, _, _, e7, e8, _, _⟩ := words_eq
  rw [e2, e3, e7, e8]
  refine ⟨?_, ?_⟩
  · rintro (h | h)
    · rw [parse_line_word E hE pre w rest _ hpre h hc (by decide) hrest]; simp [chain, wC, wBreak]
    · rw [parse_line_word E hE pre w rest _ hpre h hcont (by decide) hrest]; simp [chain, wContinue, wBreak]
  · rintro (h | h)
    · rw [parse_line_word E hE pre w rest _ hpre h hs (by decide) hrest]
      simp [chain, wS, wBreak, wC, wContinue, wInfo, wP, wPrint]
    · rw [parse_line_word E hE pre w rest _ hpre h hstep (by decide) hrest]
      simp [chain, wStep, wBreak, wC, wContinue, wInfo, wP, wPrint]

example : foldAscii? "cOnTiNuE".toList = some "continue".toList ∧
    parseCommand rust "　\t cOnTiNuE  zzz".toList = some .continue_ := by decide +kernel

/-- Commands with an address: word in any case, whitespace, the address token, then end of line or whitespace
and anything; the address is whatever `parse_address` makes of the token (`addr_*` below). -/
theorem cmd_case_ws_addr (E : Env) (hE : E.AsciiOk) (pre w mid a rest : List Char)
    (hpre : ∀ c ∈ pre, E.isWhite c = true)
    (hmid : mid ≠ [] ∧ ∀ c ∈ mid, E.isWhite c = true)
    (ha : a ≠ [] ∧ ∀ c ∈ a, E.isWhite c = false)
    (hrest : rest = [] ∨ ∃ c r, rest = c :: r ∧ E.isWhite c = true) :
    (foldAscii? w = some "break".toList →
        parseCommand E (pre ++ w ++ (mid ++ a ++ rest)) = (parseAddress E a).map .breakSet) ∧
    ((foldAscii? w = some "p".toList ∨ foldAscii? w = some "print".toList) →
        parseCommand E (pre ++ w ++ (mid ++ a ++ rest)) = (parseAddress E a).map .readMemory) := by
  obtain ⟨hb, _, _, _, hp, hprint, _, _, _, _⟩ := letters_words
  obtain ⟨e1, _, _, _, e5, e6, _, _, _, _⟩ := words_eq
  rw [e1, e5, e6]
  have hsep := sep_of_white E mid (a ++ rest) hmid.1 hmid.2
  rw [← List.append_assoc] at hsep
  have h2 := sw_second E mid a rest hmid.2 ha.1 ha.2 hrest
  refine ⟨?_, ?_⟩
  · intro h
    rw [parse_line_word E hE pre w _ _ hpre h hb (by decide) hsep, h2]
    simp only [chain, if_true]
    cases parseAddress E a <;> rfl
  · rintro (h | h)
    · rw [parse_line_word E hE pre w _ _ hpre h hp (by decide) hsep, h2]
      simp only [chain, wP, wBreak, wC, wContinue, wInfo]
      cases parseAddress E a <;> simp
    · rw [parse_line_word E hE pre w _ _ hpre h hprint (by decide) hsep, h2]
      simp only [chain, wPrint, wBreak, wC, wContinue, wInfo, wP]
      cases parseAddress E a <;> simp

example : parseCommand rust "  BREAK\t0x00fF \n".toList = some (.breakSet 255) ∧
    parseCommand rust "Print +00077".toList = some (.readMemory 77) ∧
    parseCommand rust "p 65536".toList = none := by decide +kernel

/-- `info reg` / `info registers`, both words in any case. -/
theorem cmd_case_ws_info (E : Env) (hE : E.AsciiOk) (pre w mid w2 rest : List Char)
    (hpre : ∀ c ∈ pre, E.isWhite c = true)
    (hmid : mid ≠ [] ∧ ∀ c ∈ mid, E.isWhite c = true)
    (hrest : rest = [] ∨ ∃ c r, rest = c :: r ∧ E.isWhite c = true)
    (hw : foldAscii? w = some "info".toList)
    (hw2 : foldAscii? w2 = some "reg".toList ∨ foldAscii? w2 = some "registers".toList) :
    parseCommand E (pre ++ w ++ (mid ++ w2 ++ rest)) = some .readRegisters := by
  obtain ⟨_, _, _, hi, _, _, _, _, hr, hrs⟩ := letters_words
  obtain ⟨_, _, _, e4, _, _, _, _, e9, e10⟩ := words_eq
  rw [e4] at hw; rw [e9, e10] at hw2
  have hsep := sep_of_white E mid (w2 ++ rest) hmid.1 hmid.2
  rw [← List.append_assoc] at hsep
  have hk2 : ∃ k2, foldAscii? w2 = some k2 ∧ lettersOnly k2 ∧ k2 ≠ [] ∧ (k2 = wReg ∨ k2 = wRegisters) := by
    rcases hw2 with h | h
    · exact ⟨_, h, hr, by decide, Or.inl rfl⟩
    · exact ⟨_, h, hrs, by decide, Or.inr rfl⟩
  obtain ⟨k2, hf2, hl2, hne2, hk2⟩ := hk2
  have hnw2 := fold_not_white hE hf2 hl2
  have h2 := sw_second E mid w2 rest hmid.2 (fold_ne_nil hf2 hne2) hnw2 hrest
  rw [parse_line_word E hE pre w _ _ hpre hw hi (by decide) hsep, h2]
  have hn : normalizeCommand E (some w2) = some k2 := by
    simp only [normalizeCommand]
    rw [trim_id E w2 hnw2, toLowercase_fold hE hf2]
  unfold chain
  rw [if_neg (by decide), if_neg (by decide), if_pos rfl, hn]
  simp only
  rw [if_pos hk2]

example : parseCommand rust " iNFO \t rEGISTERs".toList = some .readRegisters := by decide +kernel

/-! ## Addresses -/

/-- **`parse_address` computes exactly the spec's 16-bit address of the trimmed token** — for every token of
arbitrary Unicode chars and every `Env` (no assumption at all): well-formed numerals below 65536 are accepted
with their value, everything else is rejected. -/
theorem addr_spec (E : Env) (tok : List Char) : parseAddress E tok = address? (trim E tok) :=
  parseAddress_eq E tok

/-- A decimal digit string — any number of leading zeros — parses to its positional value iff that is below 65536. -/
theorem addr_dec_value (E : Env) (hE : E.AsciiOk) (cs : List Char) (ds : List Nat) (hne : cs ≠ [])
    (h : digits? 10 cs = some ds) :
    parseAddress E cs = if valueOf 10 ds < 65536 then some (valueOf 10 ds) else none :=
  parseAddress_dec_digits hE hne h

/-- `0x` + a hexadecimal digit string — any leading zeros, any mix of letter case — parses to its positional
value iff that is below 65536. -/
theorem addr_hex_value (E : Env) (hE : E.AsciiOk) (cs : List Char) (ds : List Nat) (hne : cs ≠ [])
    (h : digits? 16 cs = some ds) :
    parseAddress E ('0' :: 'x' :: cs) = if valueOf 16 ds < 65536 then some (valueOf 16 ds) else none :=
  parseAddress_hex_digits hE hne h

example : digits? 16 "00fFfF".toList = some [0, 0, 15, 15, 15, 15] ∧ valueOf 16 [0, 0, 15, 15, 15, 15] = 65535 := by
  decide +kernel

/-- **Decimal round trip, all 65536 addresses**: Lean's own decimal rendering of `n` (`Nat.toDigits 10 n`, the
chars of `toString n`), preceded by any number of zeros, parses to exactly `n`. -/
theorem addr_dec_roundtrip (E : Env) (hE : E.AsciiOk) (n : Nat) (hn : n < 65536) (z : Nat) :
    parseAddress E (List.replicate z '0' ++ Nat.toDigits 10 n) = some n := by
  obtain ⟨ds, h1, h2⟩ := digits?_toDigits_dec n
  obtain ⟨ds', h3, h4⟩ := digits?_zeros_append (radix := 10) (by decide) z h1
  rw [parseAddress_dec_digits hE (by simp) h3, h4, h2, if_pos hn]

theorem addr_dec_roundtrip_string (E : Env) (hE : E.AsciiOk) (n : Nat) (hn : n < 65536) :
    parseAddress E (toString n).toList = some n := by
  have := addr_dec_roundtrip E hE n hn 0
  simpa using this

/-- **Hexadecimal round trip, all 65536 addresses**: `0x`, any number of zeros, then the hexadecimal rendering
of `n` with every letter independently in lower or upper case (`f` chooses per char) parses to exactly `n`. -/
theorem addr_hex_roundtrip (E : Env) (hE : E.AsciiOk) (n : Nat) (hn : n < 65536) (z : Nat)
    (f : Char → Char) (hf : ∀ c, f c = c ∨ f c = c.toUpper) :
    parseAddress E ('0' :: 'x' :: (List.replicate z '0' ++ (Nat.toDigits 16 n).map f)) = some n := by
  obtain ⟨ds, h1, h2⟩ := digits?_toDigits_hex f hf n
  obtain ⟨ds', h3, h4⟩ := digits?_zeros_append (radix := 16) (by decide) z h1
  rw [parseAddress_hex_digits hE (by simp) h3, h4, h2, if_pos hn]

example : Nat.toDigits 16 0xBEEF = "beef".toList ∧ (Nat.toDigits 16 0xBEEF).map Char.toUpper = "BEEF".toList := by
  decide +kernel

/-- Out-of-range numbers are rejected, in both notations, whatever the leading zeros / letter case. -/
theorem addr_reject_range (E : Env) (hE : E.AsciiOk) (n : Nat) (hn : 65536 ≤ n) (z : Nat)
    (f : Char → Char) (hf : ∀ c, f c = c ∨ f c = c.toUpper) :
    parseAddress E (List.replicate z '0' ++ Nat.toDigits 10 n) = none ∧
    parseAddress E ('0' :: 'x' :: (List.replicate z '0' ++ (Nat.toDigits 16 n).map f)) = none := by
  constructor
  · obtain ⟨ds, h1, h2⟩ := digits?_toDigits_dec n
    obtain ⟨ds', h3, h4⟩ := digits?_zeros_append (radix := 10) (by decide) z h1
    rw [parseAddress_dec_digits hE (by simp) h3, h4, h2, if_neg (by omega)]
  · obtain ⟨ds, h1, h2⟩ := digits?_toDigits_hex f hf n
    obtain ⟨ds', h3, h4⟩ := digits?_zeros_append (radix := 16) (by decide) z h1
    rw [parseAddress_hex_digits hE (by simp) h3, h4, h2, if_neg (by omega)]

/-- Empty and all-whitespace tokens are rejected. -/
theorem addr_reject_empty (E : Env) (tok : List Char) (h : ∀ c ∈ tok, E.isWhite c = true) :
    parseAddress E tok = none := by
  rw [parseAddress_eq, trim_white E tok h]; rfl

/-- Decimal notation (token not starting with `0x`): any character that is not a decimal digit or `+` — a
letter (hex digits included), `X`, `-`, an embedded space, a Unicode digit, … — makes the token rejected. -/
theorem addr_reject_nondecimal (E : Env) (tok : List Char) (c : Char) (hc : c ∈ trim E tok)
    (h0x : (trim E tok).take 2 ≠ ['0', 'x']) (hd : digit? 10 c = none) (hp : c ≠ '+') :
    parseAddress E tok = none := by
  rw [parseAddress_eq, address?_eq, if_neg h0x, numeral_none 10 _ c hc hd hp]; rfl

example : 'a' ∈ trim rust "12a".toList ∧ (trim rust "12a".toList).take 2 ≠ ['0', 'x'] ∧ digit? 10 'a' = none ∧
    'X' ∈ trim rust " 0X10".toList ∧ (trim rust " 0X10".toList).take 2 ≠ ['0', 'x'] ∧ digit? 10 'X' = none := by
  decide +kernel

/-- Any character that is not a hexadecimal digit, `+` or `x` — a letter, `X`, `-`, an embedded space, a
Unicode digit, … — anywhere in the trimmed token makes it rejected, in either notation. -/
theorem addr_reject_nondigit (E : Env) (tok : List Char) (c : Char) (hc : c ∈ trim E tok)
    (hd : digit? 16 c = none) (hp : c ≠ '+') (hx : c ≠ 'x') : parseAddress E tok = none := by
  have hd10 : digit? 10 c = none := by
    cases h : digit? 10 c with
    | none => rfl
    | some d => rw [digit?_10_16 h] at hd; cases hd
  by_cases ht : (trim E tok).take 2 = ['0', 'x']
  · rw [parseAddress_eq, address?_eq, if_pos ht]
    have : c ∈ (trim E tok).drop 2 := by
      have hsplit := List.take_append_drop 2 (trim E tok)
      rw [ht] at hsplit
      rw [← hsplit] at hc
      rcases List.mem_append.mp hc with h | h
      · rcases List.mem_cons.mp h with h | h
        · subst h; exact absurd hd (by decide)
        · rcases List.mem_cons.mp h with h | h
          · exact absurd h hx
          · cases h
      · exact h
    rw [numeral_none 16 _ c this hd hp]; rfl
  · exact addr_reject_nondecimal E tok c hc ht hd10 hp

example : 'g' ∈ trim rust "0x1g".toList ∧ digit? 16 'g' = none ∧ ' ' ∈ trim rust "0x1 2".toList ∧ digit? 16 ' ' = none ∧
    '٣' ∈ trim rust "٣".toList ∧ digit? 16 '٣' = none := by decide +kernel

/-- A `-` sign is rejected: directly, and after `0x`; whatever follows. -/
theorem addr_reject_minus (E : Env) (hE : E.AsciiOk) (s : List Char) :
    parseAddress E ('-' :: s) = none ∧ parseAddress E ('0' :: 'x' :: '-' :: s) = none := by
  have hm : E.isWhite '-' = false := not_white_of_mem hE (by decide)
  have h0 : E.isWhite '0' = false := not_white_of_mem hE (by decide)
  have hx : E.isWhite 'x' = false := not_white_of_mem hE (by decide)
  constructor
  · obtain ⟨s', hs'⟩ := trim_prefix E ['-'] s (by simp) (by simp [hm])
    exact addr_reject_nondigit E _ '-' (by rw [show '-' :: s = ['-'] ++ s from rfl, hs']; simp)
      (digit?_minus 16) (by decide) (by decide)
  · obtain ⟨s', hs'⟩ := trim_prefix E ['0', 'x', '-'] s (by simp) (by simp [hm, h0, hx])
    exact addr_reject_nondigit E _ '-' (by rw [show '0' :: 'x' :: '-' :: s = ['0', 'x', '-'] ++ s from rfl, hs']; simp)
      (digit?_minus 16) (by decide) (by decide)

example : parseAddress rust "12a".toList = none ∧ parseAddress rust "0X10".toList = none ∧
    parseAddress rust "1 2".toList = none ∧ parseAddress rust "٣".toList = none ∧
    parseAddress rust "0x".toList = none ∧ parseAddress rust "+".toList = none ∧
    parseAddress rust "++5".toList = none ∧ parseAddress rust "0x0x1".toList = none := by decide +kernel

/-- The fixed interpretation: one leading `+` belongs to the integer grammar and is accepted (both notations);
surrounding whitespace of the token is trimmed. -/
theorem addr_plus : parseAddress rust "+5".toList = some 5 ∧ parseAddress rust "0x+5".toList = some 5 ∧
    parseAddress rust " 12 ".toList = some 12 := by decide +kernel

/-! ## Disassembly -/

/-- what the theorems use of the generated decoder table: every length is 1, 2 or 3 and covers the operand
bytes the arm reads -/
theorem decoder_lengths (b0 b1 : Nat) (h0 : b0 < 256) (h1 : b1 < 256) :
    1 ≤ Gen.instrLen b0 b1 ∧ Gen.instrLen b0 b1 ≤ 3 ∧ Gen.instrReads b0 b1 + 1 ≤ Gen.instrLen b0 b1 :=
  instr_facts h0 h1

/-- **Tiling.** Disassembling the concatenation of any list of complete instructions (`Complete`: bytes of
which the first — after the prefix byte, the first two — select a decoder arm whose length is the number of
bytes), from any start address, returns exactly one entry per instruction, in order, whose bytes are that
instruction, whose length is the decoder's length for it and whose address is the start address plus the
lengths before it, modulo 2^16 (`layout`). -/
theorem disasm_tiles (a : Nat) (is : List (List Nat)) (his : ∀ i ∈ is, Complete i) :
    disassemble a is.flatten = .ok ((layout a is).map ofItem) :=
  loop_tiles is his is.flatten.length a (Nat.le_refl _)

example : Complete [0x01, 0x34, 0x12] ∧ Complete [0xCB, 0x7C] ∧ Complete [0x10, 0x00] ∧ Complete [0xD3] ∧
    disassemble 0xFFFE [0x01, 0x34, 0x12, 0xCB, 0x7C, 0x10, 0x00, 0xD3] =
      .ok [⟨0xFFFE, 3, [0x01, 0x34, 0x12]⟩, ⟨1, 2, [0xCB, 0x7C]⟩, ⟨3, 2, [0x10, 0x00]⟩, ⟨5, 1, [0xD3]⟩] := by
  refine ⟨⟨_, _, rfl, by decide, by decide, by decide⟩, ⟨_, _, rfl, by decide, by decide, by decide⟩,
    ⟨_, _, rfl, by decide, by decide, by decide⟩, ⟨_, _, rfl, by decide, by decide, by decide⟩, by rfl⟩

/-- the listed lengths sum to the size of the input, there is one entry per instruction, and entry `k` is
instruction `k` at address `a + (bytes before it) mod 2^16` with the decoder's length -/
theorem disasm_exact (a : Nat) (ha : a < 65536) (is : List (List Nat)) (his : ∀ i ∈ is, Complete i) :
    ∃ out, disassemble a is.flatten = .ok out ∧ out.length = is.length ∧
      (out.map (·.length)).sum = is.flatten.length ∧
      ∀ k (hk : k < is.length), ∃ b0 rest, is[k] = b0 :: rest ∧
        out[k]? = some ⟨(a + (is.take k).flatten.length) % 65536, Gen.instrLen b0 (rest.headD 0), is[k]⟩ := by
  refine ⟨_, disasm_tiles a is his, ?_, ?_, ?_⟩
  · simp [layout_length]
  · have := layout_sum a is
    simpa [List.map_map, ofItem, Function.comp_def] using this
  · intro k hk
    obtain ⟨b0, rest, hi, _, _, hlen⟩ := his is[k] (List.getElem_mem hk)
    refine ⟨b0, rest, hi, ?_⟩
    rw [List.getElem?_map, layout_get a ha is k hk, ← hlen]
    rfl

/-- On *arbitrary* bytes `disassemble` either returns or stops on an out-of-range index (the sequence ends
inside an instruction — outside the property's premise); it never loops and never overruns `bytes: [u8; 4]`. -/
theorem disasm_total (a : Nat) (bs : List Nat) (hb : ∀ b ∈ bs, b < 256) :
    (∃ out, disassemble a bs = .ok out) ∨ disassemble a bs = .error .oob :=
  loop_total bs.length a bs hb (Nat.le_refl _)

example : disassemble 0 [0x00, 0x01, 0x34] = .error .oob ∧ disassemble 0 [0xCB] = .error .oob := ⟨by rfl, by rfl⟩

end GbVerif.C20
