import GbVerif.Model.Bus
import GbVerif.Spec.Serial
import GbVerif.Proofs.NatBits
import GbVerif.Proofs.Enum
import GbVerif.Proofs.SerialMono
/-!
C18 — serial transfers appear on standard output in order; nothing else of the bus model writes to that stream.
-/
namespace GbVerif.C18
open GbVerif.Bus

theorem and80_lt (w : Nat) (hw : w < 256) : (w &&& 0x80 != 0) = (w / 128 % 2 == 1) := by
  have := GbVerif.Enum.forall_lt_of_allRange (fun w => (w &&& 0x80 != 0) == (w / 128 % 2 == 1)) 8 (by decide +kernel) w hw
  simpa using this

theorem and80 (v : Nat) : (v &&& 0x80 != 0) = (v / 128 % 2 == 1) := by
  have h : v &&& 0x80 = (v % 256) &&& 0x80 := NatBits.and_const_mod v 0x80 8 (by decide)
  have h2 : v / 128 % 2 = (v % 256) / 128 % 2 := by omega
  rw [h, h2]
  exact and80_lt _ (Nat.mod_lt _ (by decide))

/-- one I/O write moves the serial part of the model exactly as the spec's step -/
theorem io_step (io : Io) (a v : Nat) (ha : a = 0xff01 ∨ a = 0xff02) :
    ((io.setByte a v).sb, (io.setByte a v).serialOut) = SerialSpec.step (io.sb, io.serialOut) (a, v) := by
  rcases ha with rfl | rfl
  · simp [Io.setByte, SerialSpec.step]
  · have := and80 v
    by_cases h : v / 128 % 2 = 1
    · simp [Io.setByte, SerialSpec.step, this, h]
    · simp [Io.setByte, SerialSpec.step, this, h]

/-- **serial_log**: after any sequence of writes to 0xFF01/0xFF02 the bytes emitted are exactly the data-register contents
at each control write with bit 7 set, in program order -/
theorem serial_log (ws : List (Nat × Nat)) (hw : ∀ w ∈ ws, w.1 = 0xff01 ∨ w.1 = 0xff02) (io : Io) :
    let io' := ws.foldl (fun io w => io.setByte w.1 w.2) io
    (io'.sb, io'.serialOut) = ws.foldl SerialSpec.step (io.sb, io.serialOut) := by
  induction ws generalizing io with
  | nil => rfl
  | cons w ws ih =>
    simp only [List.foldl]
    rw [ih (fun x hx => hw x (List.mem_cons_of_mem _ hx)), io_step io w.1 w.2 (hw w List.mem_cons_self)]

/-- no other I/O register write emits anything: the output stream changes only through 0xFF02 -/
theorem core_silent_io (io : Io) (a v : Nat) (ha : a &&& 0xff ≠ 0x02) : (io.setByte a v).serialOut = io.serialOut := by
  unfold Io.setByte
  split <;> first | rfl | (exfalso; apply ha; assumption) | simp

/-- non-vacuity: "GB" as the fallback ROM sends it -/
example : SerialSpec.output [(0xff01, 0x47), (0xff02, 0x80), (0xff01, 0x42), (0xff02, 0x80), (0xff02, 0x7f)] = [0x47, 0x42] := by decide


/-! ### the whole machine

`serial_log` is about the I/O block alone.  For the whole machine (`Core.update Sys.dev`: every instruction, interrupt
dispatch, OAM DMA, timer, LCD, joypad) the bytes already emitted are never retracted or reordered, in either stepping
mode: the log after a step extends the log before it. -/

open GbVerif.Core GbVerif.CoreProofs GbVerif.SysProofs in
theorem serial_log_grows (c c' : Core.State) (h : update Sys.dev c = .ok c') : c.bus.io.serialOut <+: c'.bus.io.serialOut :=
  update_log h

open GbVerif.Core GbVerif.CoreProofs GbVerif.SysProofs in
theorem serial_log_grows_blockstep (c c' : Core.State) (h : updateBlock Sys.dev c = .ok c') :
    c.bus.io.serialOut <+: c'.bus.io.serialOut := updateBlock_log h

open GbVerif.SysProofs in
/-- the passage of time alone emits nothing -/
theorem time_is_silent (b b' : Bus.State) (k : Nat) (h : Sys.dev b k = .ok b') (l : List Nat) (hp : l <+: b.io.serialOut) :
    l <+: b'.io.serialOut := dev_log h hp

end GbVerif.C18
