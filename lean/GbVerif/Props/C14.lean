import GbVerif.Proofs.LcdSched
/-!
C14 — LCD line/mode schedule: LY advances every 456 clocks through 0..153 (frame = 70224 clocks),
lines 0..143 are mode 2/3/0 for 80/188/188 clocks, lines 144..153 are mode 1; VBlank is requested
exactly when LY becomes 144; STAT is requested on entry to an enabled mode and when LY becomes LYC
with the coincidence enable; STAT bits 0..2 reflect the schedule; all of it independent of how
the elapsed time is batched.  Property theorems only; lemmas are in `Proofs/Lcd*.lean`.

Time is counted in clocks since power-on (`VideoState::new()` = first clock of line 144).
`pos s = sched (4 * k)` says "model state `s` sits where the schedule is after `k` four-clock
ticks"; `lcd_closed_form*` show that every state reachable from power-on satisfies it.
-/
namespace GbVerif.C14
open GbVerif.Lcd GbVerif.LcdSpec GbVerif.LcdProofs

/-! ### batching -/

/-- a list of `run_clock_cycles` calls (sizes in 4-clock ticks), flags OR-ed by the caller -/
def runBatches : List Nat → State → State × Flags
  | [], s => (s, 0)
  | n :: r, s => ((runBatches r (run n s).1).1, (run n s).2 ||| (runBatches r (run n s).1).2)

/-- the same with sizes in clocks; a size that is not a multiple of 4 underflows in the code -/
def runClockBatches : List Nat → State → Option (State × Flags)
  | [], s => some (s, 0)
  | c :: r, s =>
    match runClocks c s with
    | none => none
    | some a =>
      match runClockBatches r a.1 with
      | none => none
      | some b => some (b.1, a.2 ||| b.2)

/-- Splitting elapsed time into two calls gives the same state and the OR of the flags. -/
theorem run_add (a b : Nat) (s : State) :
    run (a + b) s = ((run b (run a s).1).1, (run a s).2 ||| (run b (run a s).1).2) :=
  LcdProofs.run_add a b s

/-- Batch independence: any partition of the elapsed ticks into calls gives the state and the
OR-ed flags of one single call. -/
theorem batch_independent (bs : List Nat) : ∀ s : State, runBatches bs s = run bs.sum s := by
  induction bs with
  | nil => intro s; rfl
  | cons n r ih =>
    intro s
    rw [runBatches, ih, List.sum_cons, LcdProofs.run_add]

/-- two partitions of the same total agree -/
theorem partitions_agree (as bs : List Nat) (s : State) (h : as.sum = bs.sum) :
    runBatches as s = runBatches bs s := by
  rw [batch_independent, batch_independent, h]

theorem runClocks_mul4 (c : Nat) (s : State) (h : c % 4 = 0) : runClocks c s = some (run (c / 4) s) := by
  simp [runClocks, h]

/-- a batch that is not a multiple of 4 clocks is outside the property: the code underflows -/
theorem runClocks_not_mul4 (c : Nat) (s : State) (h : c % 4 ≠ 0) : runClocks c s = none := by
  simp [runClocks, h]

theorem clock_batches (cs : List Nat) : ∀ (s : State), (∀ c ∈ cs, c % 4 = 0) →
    runClockBatches cs s = some (run (cs.sum / 4) s) := by
  induction cs with
  | nil => intro s _; rfl
  | cons c r ih =>
    intro s h
    have hc : c % 4 = 0 := h c (List.mem_cons_self ..)
    have hr : ∀ x ∈ r, x % 4 = 0 := fun x hx => h x (List.mem_cons_of_mem _ hx)
    have hs : r.sum % 4 = 0 := by
      clear ih h
      induction r with
      | nil => rfl
      | cons x r ih =>
        have := hr x (List.mem_cons_self ..)
        have := ih (fun y hy => hr y (List.mem_cons_of_mem _ hy))
        rw [List.sum_cons]; omega
    rw [runClockBatches, runClocks_mul4 c s hc]
    simp only
    rw [ih _ hr]
    simp only
    rw [List.sum_cons, show (c + r.sum) / 4 = c / 4 + r.sum / 4 by omega, LcdProofs.run_add]

/-! ### closed form -/

/-- `∀ k`: after `k` ticks from power-on the model sits at `sched (4 k)`. -/
theorem lcd_closed_form_ticks (k : Nat) : pos (run k powerOn).1 = sched (4 * k) := by
  have := run_closed k powerOn 0 pos_powerOn
  simpa using this

/-- Closed form for all batch partitions (sizes in clocks, multiples of 4): the call sequence
succeeds and leaves (LY, mode, dots) = `sched (Σ batches)`. -/
theorem lcd_closed_form (cs : List Nat) (h : ∀ c ∈ cs, c % 4 = 0) :
    ∃ r, runClockBatches cs powerOn = some r ∧ pos r.1 = sched cs.sum := by
  refine ⟨_, clock_batches cs powerOn h, ?_⟩
  rw [lcd_closed_form_ticks]
  have hs : cs.sum % 4 = 0 := by
    induction cs with
    | nil => rfl
    | cons x r ih =>
      have := h x (List.mem_cons_self ..)
      have := ih (fun y hy => h y (List.mem_cons_of_mem _ hy))
      rw [List.sum_cons]; omega
  congr 1; omega

/-- Closed form for every history of runs interleaved with STAT and LYC writes (all enable masks,
all LYC values, written at any time): the position depends on the elapsed ticks only. -/
theorem lcd_closed_form_ops (ops : List Op) : pos (exec powerOn ops) = sched (4 * ticksOf ops) := by
  have := exec_closed ops powerOn 0 pos_powerOn
  simpa using this

/-- every boundary of the schedule lies on a multiple of 4 clocks, so observing it every 4 clocks
(as the code and the event definitions `…Ev (4k) (4k+4)` do) loses nothing -/
theorem sched_grid (t : Nat) :
    (sched t).line = (sched (t - t % 4)).line ∧ (sched t).mode = (sched (t - t % 4)).mode := by
  rw [sched_line, sched_line, sched_mode, sched_mode]
  have h1 : lyAt t = lyAt (t - t % 4) := by unfold lyAt; omega
  refine ⟨h1, ?_⟩
  unfold modeAt
  rw [← h1]
  have h2 : (t % 456 < 80) = ((t - t % 4) % 456 < 80) := by apply propext; omega
  have h3 : (t % 456 < 268) = ((t - t % 4) % 456 < 268) := by apply propext; omega
  simp only [h2, h3]

/-! ### frame length, LY sequence, mode durations -/

/-- LY after any history: it advances by one every 456 clocks, modulo 154, starting at 144. -/
theorem ly_every_456 (ops : List Op) :
    getLy (exec powerOn ops) = (144 + 4 * ticksOf ops / 456) % 154 := by
  have h := lcd_closed_form_ops ops
  have : (pos (exec powerOn ops)).line = lyAt (4 * ticksOf ops) := by rw [h, sched_line]
  exact this

/-- Within every frame period LY takes each value 0..153 on exactly one interval of 456 clocks
(114 ticks): `lyAt t = l` iff the clock within the period lies in line `l`'s slot (the period
starts at line 144, so line `l` is slot `(l + 10) % 154`). -/
theorem ly_slot (t l : Nat) (hl : l < 154) :
    lyAt t = l ↔ 456 * ((l + 10) % 154) ≤ t % 70224 ∧ t % 70224 < 456 * ((l + 10) % 154) + 456 := by
  unfold lyAt
  omega

/-- Lines 0..143 are mode 2 for 80 clocks, mode 3 for 188, mode 0 for 188; lines 144..153 are
mode 1 throughout (`modeAt` is that sentence; see `Spec/Lcd.lean`). -/
theorem line_modes (ops : List Op) :
    getMode (exec powerOn ops) = modeAt (4 * ticksOf ops) := by
  have h := lcd_closed_form_ops ops
  have : (pos (exec powerOn ops)).mode = modeAt (4 * ticksOf ops) := by rw [h, sched_mode]
  exact this

/-- `modeAt` spelled out: on a visible line the mode is decided by the clock within the line,
on lines 144..153 it is 1. -/
theorem line_modes_explicit (t : Nat) :
    (lyAt t ≥ 144 → modeAt t = 1) ∧
    (lyAt t < 144 → t % 456 < 80 → modeAt t = 2) ∧
    (lyAt t < 144 → 80 ≤ t % 456 → t % 456 < 268 → modeAt t = 3) ∧
    (lyAt t < 144 → 268 ≤ t % 456 → modeAt t = 0) ∧
    lyAt t < 154 := by
  refine ⟨?_, ?_, ?_, ?_, ?_⟩
  · intro h; simp [modeAt, h]
  · intro h1 h2
    have : ¬ lyAt t ≥ 144 := by omega
    simp [modeAt, this, h2]
  · intro h1 h2 h3
    have : ¬ lyAt t ≥ 144 := by omega
    have : ¬ t % 456 < 80 := by omega
    simp [modeAt, *]
  · intro h1 h2
    have : ¬ lyAt t ≥ 144 := by omega
    have : ¬ t % 456 < 80 := by omega
    have : ¬ t % 456 < 268 := by omega
    simp [modeAt, *]
  · unfold lyAt; omega

/-- The frame is exactly 70224 clocks: the schedule has that period, a run of 17556 ticks returns
every reachable state to itself, and no shorter time does (LY alone has minimal period 70224). -/
theorem frame_70224 :
    (∀ t, sched (t + 70224) = sched t) ∧
    (∀ s k, pos s = sched (4 * k) → (run 17556 s).1 = s) ∧
    (∀ p, (∀ t, lyAt (t + p) = lyAt t) → p % 70224 = 0) := by
  refine ⟨sched_period, run_frame_fixed, ?_⟩
  intro p h
  have h0 := h 0
  have h1 := h (456 - p % 456)
  simp only [lyAt] at h0 h1
  omega

/-! ### VBlank -/

/-- The tick from a scheduled position returns the VBlank flag iff LY goes 143 → 144 in it,
which is the last tick of every 17556-tick frame period and no other. -/
theorem vblank_once_at_144 (s : State) (k : Nat) (h : pos s = sched (4 * k)) :
    (hasVblank (tick4 s).2 = ((sched (4 * k)).line == 143 && (sched (4 * (k + 1))).line == 144)) ∧
    (hasVblank (tick4 s).2 = (k % 17556 == 17555)) := by
  refine ⟨?_, tick_vblank_iff s k h⟩
  rw [tick_vblank s k h, vblankEv_143]; rfl

/-- exactly one tick in every window of one frame raises VBlank -/
theorem vblank_once_per_frame (k : Nat) :
    ∃ j, j < 17556 ∧ vblankEv (4 * (k + j)) (4 * (k + j) + 4) = true ∧
      ∀ j', j' < 17556 → vblankEv (4 * (k + j')) (4 * (k + j') + 4) = true → j' = j := by
  refine ⟨(17555 + 17556 - k % 17556) % 17556, ?_, ?_, ?_⟩
  · omega
  · rw [vblankEv_iff]; simp only [beq_iff_eq]; omega
  · intro j' hj h
    rw [vblankEv_iff] at h; simp only [beq_iff_eq] at h; omega

/-- a batch returns the VBlank flag iff LY becomes 144 somewhere inside it -/
theorem vblank_batch (n : Nat) (s : State) (k : Nat) (h : pos s = sched (4 * k)) :
    hasVblank (run n s).2 = anyTick vblankEv k n := run_vblank n s k h

/-- register writes never request VBlank -/
theorem write_no_vblank (v : Nat) (s : State) :
    hasVblank (setStat v s).2 = false ∧ hasVblank (setLyc v s).2 = false := by
  simp only [setStat, setLyc, checkCurrentLine_eq, hasVblank_ofB, and_self]

/-! ### STAT -/

/-- The STAT flag of a tick, symbolic in the four enables and LYC: requested iff a mode whose
enable bit is set is entered, or LY changes to LYC with the coincidence enable set. -/
theorem stat_flag (s : State) (k : Nat) (h : pos s = sched (4 * k)) :
    hasStat (tick4 s).2 = statEv (enOf s) s.lyc (4 * k) (4 * k + 4) := tick_stat s k h

/-- the same as a proposition: STAT is requested in a tick iff a mode whose enable bit is set is
entered in it, or LY changes in it to a value equal to LYC while the coincidence enable is set -/
theorem stat_iff (s : State) (k : Nat) (h : pos s = sched (4 * k)) :
    hasStat (tick4 s).2 = true ↔
      ((sched (4 * k)).mode ≠ (sched (4 * k + 4)).mode ∧ (enOf s).forMode (sched (4 * k + 4)).mode = true) ∨
      ((sched (4 * k)).line ≠ (sched (4 * k + 4)).line ∧ (sched (4 * k + 4)).line = s.lyc ∧ s.irqLyc = true) := by
  rw [tick_stat s k h]
  simp only [statEv, statEvP, modeEnteredP, lyChangedP, Bool.or_eq_true, Bool.and_eq_true, bne_iff_ne, ne_eq,
    beq_iff_eq, enOf, and_assoc]

/-- mode part: with the coincidence enable clear, STAT is requested exactly on entry to a mode
whose enable bit is set -/
theorem stat_on_mode_entry (s : State) (k : Nat) (h : pos s = sched (4 * k)) (hl : s.irqLyc = false) :
    hasStat (tick4 s).2 =
      (modeEntered (4 * k) (4 * k + 4) && (enOf s).forMode (sched (4 * k + 4)).mode) := by
  rw [tick_stat s k h]
  simp [statEv, statEvP, modeEntered, enOf, hl]

/-- coincidence part: with the three mode enables clear, STAT is requested exactly when LY
changes to a value equal to LYC and the coincidence enable is set (any LYC, 0..255 and beyond) -/
theorem stat_on_lyc (s : State) (k : Nat) (h : pos s = sched (4 * k))
    (h2 : s.irqM2 = false) (h1 : s.irqM1 = false) (h0 : s.irqM0 = false) :
    hasStat (tick4 s).2 =
      (lyChanged (4 * k) (4 * k + 4) && (sched (4 * k + 4)).line == s.lyc && s.irqLyc) := by
  rw [tick_stat s k h]
  have : ∀ m, (enOf s).forMode m = false := by
    intro m
    simp only [Enables.forMode, enOf, h2, h1, h0]
    split <;> rfl
  simp only [statEv, statEvP, this, Bool.and_false, Bool.false_or]
  rfl

/-- a batch returns the STAT flag iff some tick inside it carries an enabled STAT event -/
theorem stat_batch (n : Nat) (s : State) (k : Nat) (h : pos s = sched (4 * k)) :
    hasStat (run n s).2 = anyTick (statEv (enOf s) s.lyc) k n := run_stat n s k h

/-- what the correspondence driver evaluates (`evScan`: one pass over the ticks of a batch with the
schedule computed once per tick) is exactly the pair of batch events above -/
theorem batch_events_scan (e : Enables) (lyc k n : Nat) :
    evScan e lyc (sched (4 * k)) k n false false =
      (sched (4 * (k + n)), anyTick vblankEv k n, anyTick (statEv e lyc) k n) := by
  rw [evScan_eq]; simp only [Bool.false_or]

/-- runs change neither LYC nor the enables, and return no flag other than VBlank / STAT -/
theorem run_keeps_regs (n : Nat) (s : State) :
    (run n s).1.lyc = s.lyc ∧ enOf (run n s).1 = enOf s ∧ (run n s).2 < 4 :=
  ⟨(run_regs n s).1, (run_regs n s).2, run_flags_lt n s⟩

/-- a STAT write stores exactly bits 6..3 as the four enables -/
theorem setStat_enables (v : Nat) (s : State) : enOf (setStat v s).1 = Enables.ofByte v :=
  setStat_enOf v s

/-! ### STAT read-back -/

/-- STAT bits 0..1 are the mode, bit 2 is LY = LYC, bits 3..6 the enables, bit 7 is 0 -/
theorem stat_bits (s : State) :
    getStat s % 4 = s.mode.toNat ∧ (getStat s).testBit 2 = (s.line == s.lyc) ∧
    (getStat s).testBit 3 = s.irqM0 ∧ (getStat s).testBit 4 = s.irqM1 ∧
    (getStat s).testBit 5 = s.irqM2 ∧ (getStat s).testBit 6 = s.irqLyc ∧ getStat s < 128 := by
  rw [getStat_eq]
  have h := statOf_bits s.mode s.irqLyc s.irqM2 s.irqM1 s.irqM0 (s.line == s.lyc)
  exact ⟨h.1, h.2.1, h.2.2.1, h.2.2.2.1, h.2.2.2.2.1, h.2.2.2.2.2.1, h.2.2.2.2.2.2.1⟩

/-- for every history from power-on, STAT bits 0..2 reflect the schedule at the elapsed time -/
theorem stat_bits_sched (ops : List Op) :
    getStat (exec powerOn ops) % 8 = statLow (exec powerOn ops).lyc (4 * ticksOf ops) := by
  have h := lcd_closed_form_ops ops
  generalize exec powerOn ops = s at h
  have hm : s.mode.toNat = (sched (4 * ticksOf ops)).mode := by rw [← h]; rfl
  have hl : s.line = (sched (4 * ticksOf ops)).line := by rw [← h]; rfl
  rw [getStat_eq, (statOf_bits _ _ _ _ _ _).2.2.2.2.2.2.2, statLow, ← hm, ← hl]

/-! ### non-vacuity of the hypotheses -/

/-- a reachable state meeting `pos s = sched (4 k)`: last tick of line 143 (k = 17555), LYC = 144,
coincidence and mode-1 enables set; its tick raises VBlank and STAT -/
example : let s : State := ⟨.m0, 184, 143, 144, true, false, true, false⟩
    pos s = sched (4 * 17555) ∧ hasVblank (tick4 s).2 = true ∧ hasStat (tick4 s).2 = true ∧
    pos (tick4 s).1 = sched (4 * 17556) := by decide

/-- the same state is what the model reaches from power-on with the two writes -/
example : exec powerOn ([.stat 0x50, .lyc 144] ++ [.run 17555]) = ⟨.m0, 184, 143, 144, true, false, true, false⟩ := by
  apply state_ext
  · rw [lcd_closed_form_ops]; decide
  · rw [exec_append_run, (run_regs 17555 _).1]; rfl
  · rw [exec_append_run, (run_regs 17555 _).2]; rfl

/-- `stat_on_mode_entry`'s hypotheses: entering mode 0 on line 5 with only the mode-0 enable -/
example : let s : State := ⟨.m3, 184, 5, 0, false, false, false, true⟩
    pos s = sched (4 * (1140 + 5 * 114 + 66)) ∧ s.irqLyc = false ∧ hasStat (tick4 s).2 = true := by decide

/-- `stat_on_lyc`'s hypotheses: LY 153 → 0 with LYC = 0 and only the coincidence enable -/
example : let s : State := ⟨.m1, 452, 153, 0, true, false, false, false⟩
    pos s = sched (4 * 1139) ∧ s.irqM2 = false ∧ s.irqM1 = false ∧ s.irqM0 = false ∧
    hasStat (tick4 s).2 = true := by decide

/-- `clock_batches` / `lcd_closed_form`: a list of multiples of 4 -/
example : ∀ c ∈ [4, 456, 70224, 80], c % 4 = 0 := by decide

end GbVerif.C14
