import GbVerif.Model.Cache
import GbVerif.Proofs.Enum
import GbVerif.Proofs.CartFrame
import GbVerif.Proofs.BlockWalk
/-!
C03 — the translation cache is transparent, including across ROM bank switches.
The cache model abstracts a translation to the guest bytes it was made from; transparency is then:
whatever the history of block executions and bank switches, the block handed to the CPU for (bank, ip) is the
translation of the bytes *currently* mapped at ip — the same block a cold cache would produce.
-/
namespace GbVerif.C03
open GbVerif.Cache

/-- coherence invariant: every cached block is the translation of the bank it is keyed under -/
def Coherent (rom : Nat → Nat) (c : State) : Prop :=
  (∀ k b, (k, b) ∈ c.low → ∃ a, a < 0x4000 ∧ Cpu.canDynarec a = true ∧ k = key 0 a ∧ ∀ bank, b = translate rom bank a) ∧
  (∀ k b, (k, b) ∈ c.high → ∃ bank a, 0x4000 ≤ a ∧ a < 0x10000 ∧ k = key bank a ∧ b = translate rom bank a)

theorem coherent_empty (rom : Nat → Nat) : Coherent rom {} := by
  constructor <;> intro k b h <;> cases h

theorem lookup_mem {α : Type} [BEq α] [LawfulBEq α] {β : Type} (l : List (α × β)) (k : α) (v : β) (h : l.lookup k = some v) :
    (k, v) ∈ l := by
  induction l with
  | nil => simp [List.lookup] at h
  | cons p l ih =>
    obtain ⟨k', v'⟩ := p
    simp only [List.lookup] at h
    split at h
    · rename_i heq
      have : k = k' := by simpa using heq
      cases h; subst this; exact List.mem_cons_self
    · exact List.mem_cons_of_mem _ (ih h)

theorem key_inj (b1 a1 b2 a2 : Nat) (h1 : a1 < 65536) (h2 : a2 < 65536) (h : key b1 a1 = key b2 a2) : b1 = b2 ∧ a1 = a2 := by
  unfold key at h; omega

/-- translations of bank-0 code do not depend on the switchable bank -/
def LowIndependent (rom : Nat → Nat) : Prop :=
  ∀ a, a < 0x4000 → Cpu.canDynarec a = true → ∀ b1 b2, translate rom b1 a = translate rom b2 a

theorem len_le_3 : ∀ b0, b0 < 2^8 → ∀ b1 b2, b1 < 2^8 → (Gen.decode b0 b1 b2).2.1 ≤ 3 := by
  intro b0 h0 b1 b2 h1
  have ha := GbVerif.Enum.forall_lt_of_allRange (fun b => decide (Gen.opLen b ≤ 3)) 8 (by decide +kernel) b0 h0
  have hb := GbVerif.Enum.forall_lt_of_allRange (fun b => decide (Gen.cbOpLen b ≤ 3)) 8 (by decide +kernel) b1 h1
  unfold Gen.decode
  split
  · exact of_decide_eq_true hb
  · exact of_decide_eq_true ha

theorem and_3fff (x : Nat) : x &&& 0x3fff = x % 16384 := Nat.and_two_pow_sub_one_eq_mod x 14

/-- a block that starts below 0x3FFE in bank 0 never reads a byte at or above 0x4000: it ends before the last two
bytes of the region, before the other region, and every instruction is at most three bytes long -/
theorem sourceBytes_indep (rom : Nat → Nat) (hrom : ∀ i, rom i < 256) (a : Nat) (ha' : a < 0x3ffe) (b1 b2 : Nat) :
    ∀ fuel index, sourceBytes rom b1 a index fuel = sourceBytes rom b2 a index fuel := by
  intro fuel
  induction fuel with
  | zero => intro index; rfl
  | succ fuel ih =>
    intro index
    unfold sourceBytes
    by_cases hm : Cpu.romBlockMustEnd a index = true
    · simp [hm]
    · simp only [hm, Bool.false_eq_true, if_false]
      have hi : index < 0x3ffe := by
        simp only [Cpu.romBlockMustEnd, Cpu.canDynarec, Bool.and_eq_true, Bool.or_eq_true, Bool.not_eq_true',
          decide_eq_true_eq, bne_iff_ne, ne_eq, decide_eq_false_iff_not, and_3fff, Bool.and_eq_false_iff] at hm
        by_cases he : index = a
        · omega
        · omega
      have hr : ∀ k, k ≤ 2 → ∀ b, romAt rom b (index + k) = rom (index + k) := by
        intro k hk b; unfold romAt; simp [show index + k < 0x4000 by omega]
      have h0 := hr 0 (by omega); have h1 := hr 1 (by omega); have h2 := hr 2 (by omega)
      simp only [Nat.add_zero] at h0
      rw [h0 b1, h0 b2, h1 b1, h1 b2, h2 b1, h2 b2]
      have hl := len_le_3 (rom index) (hrom _) (rom (index + 1)) (rom (index + 2)) (hrom _)
      generalize hd' : Gen.decode (rom index) (rom (index + 1)) (rom (index + 2)) = d at hl
      obtain ⟨op, len, clk⟩ := d
      simp only at hl ⊢
      have hb : (List.range len).map (fun k => romAt rom b1 (index + k)) = (List.range len).map (fun k => romAt rom b2 (index + k)) := by
        apply List.map_congr_left
        intro k hk
        have : k < len := List.mem_range.mp hk
        rw [hr k (by omega) b1, hr k (by omega) b2]
      rw [hb, ih]

theorem low_independent (rom : Nat → Nat) (hrom : ∀ i, rom i < 256) : LowIndependent rom := by
  intro a ha hd b1 b2
  have ha' : a < 0x3ffe := by
    simp only [Cpu.canDynarec, Bool.and_eq_true, decide_eq_true_eq, and_3fff] at hd
    omega
  show Block.mk _ = Block.mk _
  rw [sourceBytes_indep rom hrom a ha' b1 b2]

/-- **transparency step**: from a coherent cache, the block fetched for the current (bank, ip) is the translation of the
bytes currently mapped there, hit or miss, and the cache stays coherent -/
theorem fetch_transparent (rom : Nat → Nat) (hlow : LowIndependent rom) (c : State) (hc : Coherent rom c)
    (bank ip : Nat) (hip : ip < 0x8000) (hdyn : Cpu.canDynarec ip = true) :
    (fetchBlock rom c bank ip).2.1 = translate rom bank ip ∧ Coherent rom (fetchBlock rom c bank ip).1 := by
  unfold fetchBlock
  simp only []
  split
  · rename_i b hl
    simp only
    refine ⟨?_, ⟨hc.1, hc.2⟩⟩
    unfold lookup at hl
    by_cases hlo : ip < 0x4000
    · simp only [hlo, if_true] at hl
      obtain ⟨a, ha, -, hk, hb⟩ := hc.1 _ _ (lookup_mem _ _ _ hl)
      obtain ⟨-, rfl⟩ := key_inj 0 ip 0 a (by omega) (by omega) hk
      exact hb bank
    · simp only [hlo, if_false] at hl
      obtain ⟨bank', a, ha1, ha2, hk, hb⟩ := hc.2 _ _ (lookup_mem _ _ _ hl)
      obtain ⟨rfl, rfl⟩ := key_inj bank ip bank' a (by omega) ha2 hk
      exact hb
  · simp only
    refine ⟨trivial, ?_⟩
    unfold Cache.insert
    by_cases hlo : ip < 0x4000
    · simp only [hlo, if_true]
      refine ⟨?_, hc.2⟩
      intro k b hm
      rcases List.mem_cons.mp hm with h | h
      · cases h; exact ⟨ip, hlo, hdyn, rfl, fun bank' => hlow ip hlo hdyn bank bank'⟩
      · exact hc.1 k b h
    · simp only [hlo, if_false]
      refine ⟨hc.1, ?_⟩
      intro k b hm
      rcases List.mem_cons.mp hm with h | h
      · cases h; exact ⟨bank, ip, by omega, by omega, rfl, rfl⟩
      · exact hc.2 k b h

/-- a history: each step fetches the block for some (bank, ip) (the bank being whatever the MBC maps at that time) -/
def runHistory (rom : Nat → Nat) (c : State) : List (Nat × Nat) → State × List Block
  | [] => (c, [])
  | (bank, ip) :: rest =>
    let (c', b, _) := fetchBlock rom c bank ip
    let (c'', bs) := runHistory rom c' rest
    (c'', b :: bs)

/-- **C03**: for every history of (bank, ip) fetches — any interleaving of block executions and bank switches, any cache
age — the warm cache hands out exactly the blocks a cache emptied before every fetch would: the translations of the
bytes currently mapped. -/
theorem warm_eq_cold (rom : Nat → Nat) (hrom : ∀ i, rom i < 256) (h : List (Nat × Nat))
    (hh : ∀ p ∈ h, p.2 < 0x8000 ∧ Cpu.canDynarec p.2 = true)
    (c : State) (hc : Coherent rom c) :
    (runHistory rom c h).2 = h.map fun p => translate rom p.1 p.2 := by
  induction h generalizing c with
  | nil => rfl
  | cons p rest ih =>
    obtain ⟨bank, ip⟩ := p
    have hip := hh (bank, ip) List.mem_cons_self
    have ht := fetch_transparent rom (low_independent rom hrom) c hc bank ip hip.1 hip.2
    simp only [runHistory, List.map_cons]
    rw [ih (fun q hq => hh q (List.mem_cons_of_mem _ hq)) _ ht.2]
    rw [ht.1]

/-- non-vacuity: revisit after a switch and after switching back — three fetches at the same address, two banks -/
example (rom : Nat → Nat) (hrom : ∀ i, rom i < 256) :
    (runHistory rom {} [(1, 0x4000), (2, 0x4000), (1, 0x4000)]).2 =
      [translate rom 1 0x4000, translate rom 2 0x4000, translate rom 1 0x4000] :=
  warm_eq_cold rom hrom _ (by intro p hp; simp at hp; rcases hp with h | h | h <;> subst h <;> decide) {} (coherent_empty rom)


/-! ### inside a block

`warm_eq_cold` is about what is handed to the CPU when a block is *entered*.  The statement of C03 also covers every
program counter inside the block: the bytes translated at entry must still be the bytes mapped when each instruction is
reached.  That holds exactly as long as the block itself does not store below 0x8000 (the cartridge's registers): -/

open GbVerif.CoreProofs in
/-- **block_bank_stable_partial**: a block whose stores all go to 0x8000 and above (its run on the bus with stores below
0x8000 forbidden succeeds) runs the same on the real bus, and the cartridge state — so the ROM bank mapped at
0x4000–0x7FFF — in front of every instruction fetch of the block, and after it, is the one at block entry: every
instruction the interpreter executes in the block is fetched from the bank the translation was made from.
Partial: blocks that do store below 0x8000 from the switchable bank are the recorded finding (the translation goes on
in the old bank); for blocks located below 0x4000 such a store is harmless because they end before 0x4000
(`low_independent`). -/
theorem block_bank_stable_partial (r : Interp.Regs) (s : Bus.State) (fuel : Nat)
    (res : Interp.Regs × Bus.State × Nat) (tr : List Cart.State)
    (h : runCodeBlockAuxHi r.ip r s Interp.STATUS_NORMAL fuel = .ok (res, tr)) :
    Cpu.runCodeBlock r s fuel = .ok res ∧
    (∀ c ∈ tr, Cart.getRomBank c = Cart.getRomBank s.cart) ∧
    Cart.getRomBank res.2.1.cart = Cart.getRomBank s.cart := by
  obtain ⟨h1, h2, h3⟩ := runCodeBlockAuxHi_spec r.ip fuel r s _ res tr h
  exact ⟨h1, fun c hc => by rw [h2 c hc], by rw [h3]⟩

open GbVerif.CoreProofs GbVerif.BusProofs in
/-- **the interpreter runs what the translator translated** (`interp_walk_is_translation_partial`): for a block at a
translatable ROM address whose stores all go to 0x8000 and above, (1) the interpreter's `run_code_block` gives the
result of the guarded walk, and (2) the guest bytes it decoded, instruction by instruction, are exactly the bytes
`translate_code_block` consumes for that address under the bank mapped at entry — the same instruction boundaries and the
same block end.  So the cached translation is a translation of what the interpreter executes at *every* program counter
of the block, not only at its first.  Partial for the same reason as `block_bank_stable_partial`. -/
theorem interp_walk_is_translation_partial (r : Interp.Regs) (s : Bus.State) (res : Interp.Regs × Bus.State × Nat) (bytes : List Nat)
    (wf : BusProofs.WF s) (hrom : ∀ i, s.rom i < 256) (hd : Cpu.canDynarec r.ip = true)
    (h : walkHi r.ip r s Interp.STATUS_NORMAL 0x4000 = .ok (res, bytes)) :
    Cpu.runCodeBlock r s 65536 = .ok res ∧ translate s.rom (Cart.getRomBank s.cart) r.ip = ⟨bytes⟩ := by
  constructor
  · have := walkHi_real r.ip 0x4000 r s _ res bytes h
    have h2 := runCodeBlockAux_fuel r.ip 0x4000 49152 r s _ res this
    have e : (0x4000 : Nat) + 49152 = 65536 := by decide
    rw [e] at h2
    exact h2
  · have hs : r.ip < 0x8000 := (canDynarec_lt hd).1
    have := walkHi_source r.ip hs hd 0x4000 r s _ res bytes wf hrom h
    show Block.mk _ = Block.mk _
    rw [this]

/-- a bus for the examples: MBC1, 4 banks; bank 1 holds `LD (0xC000),A ; INC A ; HALT` at 0x4000,
bank 2 holds `LD (0x2100),A ; INC A ; HALT` at 0x4000 -/
def exBus : Bus.State :=
  Bus.create .mbc1 4 0 (fun i =>
    if i = 0x4000 then 0xea else if i = 0x4001 then 0x00 else if i = 0x4002 then 0xc0 else if i = 0x4003 then 0x3c else if i = 0x4004 then 0x76
    else if i = 0x8000 then 0xea else if i = 0x8001 then 0x00 else if i = 0x8002 then 0x21 else if i = 0x8003 then 0x3c else if i = 0x8004 then 0x76
    else 0)

open GbVerif.CoreProofs in
/-- non-vacuity: a banked block with a store to work RAM satisfies the hypothesis (three fetches, all under bank 1) -/
example : (runCodeBlockAuxHi 0x4000 { ip := 0x4000, af := 0x0300 } exBus Interp.STATUS_NORMAL 16).toOption.map
    (fun x => (x.1.1.ip, x.2.map Cart.getRomBank)) = some (0x4005, [1, 1, 1]) := by decide +kernel

open GbVerif.CoreProofs in
/-- non-vacuity: the bank-1 block of `exBus` — the interpreter's walk yields its five guest bytes, which are the translation's -/
example : (walkHi 0x4000 { ip := 0x4000, af := 0x0300 } exBus Interp.STATUS_NORMAL 0x4000).toOption.map (fun x => x.2) =
    some [0xea, 0x00, 0xc0, 0x3c, 0x76] ∧ (translate exBus.rom 1 0x4000).src = [0xea, 0x00, 0xc0, 0x3c, 0x76] := by
  decide +kernel

open GbVerif.CoreProofs in
/-- the boundary is sharp: the same block shape in bank 2 stores to 0x2100; the guarded run refuses it, and on the real
bus the bank mapped under the program counter changes in mid-block (A = 3: bank 3 after the first instruction) -/
example :
    let s2 : Bus.State := { exBus with cart := Cart.writeRom exBus.cart 0x2100 2 }
    (runCodeBlockAuxHi 0x4000 { ip := 0x4000, af := 0x0300 } s2 Interp.STATUS_NORMAL 16).toOption.isNone = true ∧
    Cart.getRomBank s2.cart = 2 ∧
    (Cpu.runNextOp { ip := 0x4000, af := 0x0300 } s2).toOption.map (fun x => Cart.getRomBank x.2.1.cart) = some 3 := by
  decide +kernel

end GbVerif.C03
