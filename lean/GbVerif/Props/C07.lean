import GbVerif.Model.Core
import GbVerif.Spec.Interrupt
import GbVerif.Proofs.CoreIrq
/-!
C07 — interrupt dispatch follows priority, masking and master-enable rules.

`dispatch_spec`: on every well-formed state the model of `Core::handle_interrupt` *is* the dispatch spec
(`InterruptSpec.dispatch`, written from the property text, IF/IE read and the return address pushed through the bus).
The clauses of the property are then stated outright about the model (`handleInterrupt`), each with a concrete state.

Well-formed (`WFc`): IF and IE are five-bit (every bus write keeps them so: `write_keeps_wf`), the upper IE bits are
stored apart, SP and PC are 16-bit, the bus buffers have the sizes `MemoryAreas::with_rom_file` gives them.
`activeInterrupts b` is IF ∧ IE exactly as the guest reads them at 0xFF0F / 0xFFFF (`pending_is_guest_view`).
-/
namespace GbVerif.C07
open GbVerif.Core GbVerif.CoreProofs

/-- the statement of C07: the model of `Core::handle_interrupt` equals the dispatch spec on every well-formed state -/
theorem dispatch_spec (c : State) (h : WFc c) : handleInterrupt c = InterruptSpec.dispatch c :=
  CoreProofs.dispatch_spec c h

/-- IF ∧ IE of the code (`get_active_interrupts`) is what the guest reads: (read 0xFF0F ∧ read 0xFFFF) mod 32 -/
theorem pending_is_guest_view (c : State) (h : WFc c) : InterruptSpec.pending c.bus = .ok (activeInterrupts c.bus) :=
  pending_eq c.bus h.io

/-- well-formedness is an invariant of bus writes (TAC/STAT/LYC writes OR in bit 2 or 1, IF/IE writes mask to five bits) -/
theorem write_keeps_wf (c : State) (h : WFc c) (a v : Nat) (ha : a < 65536) (b' : Bus.State) (hw : Bus.write c.bus a v = .ok b') :
    WFc { c with bus := b' } :=
  ⟨write_inv h.bus h.io ha hw, BusProofs.wf_write h.bus hw, h.sp, h.ip⟩

/-- nothing requested-and-enabled: `handle_interrupt` is the identity, whatever the master enable and run state -/
theorem idle_identity (c : State) (h : activeInterrupts c.bus = 0) : handleInterrupt c = .ok c :=
  handleInterrupt_idle c h

/-- master enable not on: only the run state changes (a halted or stopped CPU resumes); IF, IE, PC, SP, memory untouched -/
theorem masked_only_wakes (c : State) (h : activeInterrupts c.bus ≠ 0) (hi : c.ime ≠ .Enabled) :
    handleInterrupt c = .ok { c with run := .Run } :=
  handleInterrupt_masked c h hi

/-- `handle_interrupt` never panics from a well-formed state, and leaves a well-formed state -/
theorem total (c : State) (h : WFc c) : ∃ c', handleInterrupt c = .ok c' ∧ WFc c' := by
  by_cases h0 : activeInterrupts c.bus = 0
  · exact ⟨c, handleInterrupt_idle c h0, h⟩
  by_cases hi : c.ime = .Enabled
  · obtain ⟨b1, b2, _, _, i1, i2, w2, e⟩ := handleInterrupt_taken c h h0 hi
    exact ⟨_, e, wfc_dispatched c b1 b2 i2 w2 _ (Nat.mod_lt _ (by omega)) (and_lt32 i1.ifl)⟩
  · exact ⟨_, handleInterrupt_masked c h0 hi, ⟨h.io, h.bus, h.sp, h.ip⟩⟩

/-- "Whenever an interrupt is both requested in IF and enabled in IE, a halted or stopped CPU resumes" — and only then:
the run state afterwards is Run iff it was Run before or IF ∧ IE ≠ 0, whatever the master enable -/
theorem wake_iff (c c' : State) (h : WFc c) (hc : handleInterrupt c = .ok c') :
    c'.run = (if activeInterrupts c.bus ≠ 0 then .Run else c.run) := by
  by_cases h0 : activeInterrupts c.bus = 0
  · have hc := ok_inj (handleInterrupt_idle c h0) hc; subst hc; simp [h0]
  by_cases hi : c.ime = .Enabled
  · obtain ⟨b1, b2, _, _, _, _, _, e⟩ := handleInterrupt_taken c h h0 hi
    have hc := ok_inj (e) hc; subst hc; simp [h0, dispatched]
  · have hc := ok_inj (handleInterrupt_masked c h0 hi) hc; subst hc; simp [h0]

/-- a dispatch happened between `c` and `c'`: master enable cleared, two bytes pushed (SP − 2), five machine cycles -/
def Dispatched (c c' : State) : Prop :=
  c'.ime = .Disabled ∧ c'.regs.sp = (c.regs.sp + 65534) % 65536 ∧ c'.regs.cycles = c.regs.cycles + 5 ∧ c'.charged = c.charged + 5

/-- nothing but (possibly) the run state changed -/
def Untouched (c c' : State) : Prop :=
  c'.regs = c.regs ∧ c'.bus = c.bus ∧ c'.ime = c.ime ∧ c'.charged = c.charged

/-- "If and only if the master enable is on, the CPU also …": with a request pending, a dispatch happens exactly when
IME = Enabled; with IME off or only scheduled (EI pending) nothing but the run state changes -/
theorem dispatch_iff_ime (c c' : State) (h : WFc c) (hp : activeInterrupts c.bus ≠ 0) (hc : handleInterrupt c = .ok c') :
    (c.ime = .Enabled → Dispatched c c') ∧ (c.ime ≠ .Enabled → Untouched c c') ∧ (Dispatched c c' ↔ c.ime = .Enabled) := by
  by_cases hi : c.ime = .Enabled
  · obtain ⟨b1, b2, _, _, _, _, _, e⟩ := handleInterrupt_taken c h hp hi
    have hc := ok_inj (e) hc; subst hc
    have d : Dispatched c (dispatched c b1 b2 ((c.regs.sp + 65534) % 65536)) := ⟨rfl, rfl, rfl, rfl⟩
    exact ⟨fun _ => d, fun n => absurd hi n, fun _ => hi, fun _ => d⟩
  · have hc := ok_inj (handleInterrupt_masked c hp hi) hc; subst hc
    refine ⟨fun e => absurd e hi, fun _ => ⟨rfl, rfl, rfl, rfl⟩, fun d => ?_, fun e => absurd e hi⟩
    have := d.2.2.1; simp at this

/-- the two pushes of a dispatch, in the order the bus sees them: PC high byte at SP−1 first, then PC low byte at SP−2;
the final bus is the bus after the second push with (at most) one IF bit cleared -/
theorem high_byte_first (c c' : State) (h : WFc c) (hp : activeInterrupts c.bus ≠ 0) (hi : c.ime = .Enabled)
    (hc : handleInterrupt c = .ok c') :
    ∃ b1 b2, Bus.write c.bus ((c.regs.sp + 65535) % 65536) (c.regs.ip / 256) = .ok b1 ∧
             Bus.write b1 ((c.regs.sp + 65534) % 65536) (c.regs.ip % 256) = .ok b2 ∧
             c'.bus = { b2 with io := { b2.io with ifl := c'.bus.io.ifl } } := by
  obtain ⟨b1, b2, w1, w2, _, _, _, e⟩ := handleInterrupt_taken c h hp hi
  have hc := ok_inj (e) hc; subst hc
  exact ⟨b1, b2, w1, w2, rfl⟩

/-- priority: the source served is the lowest set bit `i` of IF ∧ IE *sampled after the high-byte push*
(0 VBlank, 1 STAT, 2 Timer, 3 Serial, 4 Joypad); PC becomes its vector 0x40 + 8·i -/
theorem priority_order (c c' : State) (h : WFc c) (hp : activeInterrupts c.bus ≠ 0) (hi : c.ime = .Enabled)
    (hc : handleInterrupt c = .ok c') (b1 : Bus.State)
    (hb1 : Bus.write c.bus ((c.regs.sp + 65535) % 65536) (c.regs.ip / 256) = .ok b1) (hp1 : activeInterrupts b1 ≠ 0) :
    ∃ i, i < 5 ∧ activeInterrupts b1 / 2^i % 2 = 1 ∧ (∀ j, j < i → activeInterrupts b1 / 2^j % 2 = 0) ∧
      c'.regs.ip = 0x40 + 8 * i := by
  obtain ⟨b1', b2, w1, _, i1, _, _, e⟩ := handleInterrupt_taken c h hp hi
  rw [hb1] at w1; injection w1 with w1; subst w1
  have hc := ok_inj (e) hc; subst hc
  obtain ⟨i, hi5, hset, hlow, hch⟩ := chain_lowest (activeInterrupts b1) (and_lt32 i1.ifl) hp1
  exact ⟨i, hi5, hset, hlow, by show (chain (activeInterrupts b1)).1 = _; rw [hch]⟩

/-- only the IF bit of the served source is cleared: with `b2` the bus after both pushes and `i` the served source,
IF afterwards is IF(b2) minus bit `i` (if it is still set there); every other bit of IF, IE and all of memory are as
the two pushes left them -/
theorem only_that_bit_cleared (c c' : State) (h : WFc c) (hp : activeInterrupts c.bus ≠ 0) (hi : c.ime = .Enabled)
    (hc : handleInterrupt c = .ok c') (b1 b2 : Bus.State)
    (hb1 : Bus.write c.bus ((c.regs.sp + 65535) % 65536) (c.regs.ip / 256) = .ok b1)
    (hb2 : Bus.write b1 ((c.regs.sp + 65534) % 65536) (c.regs.ip % 256) = .ok b2) (hp1 : activeInterrupts b1 ≠ 0) :
    ∃ i, i < 5 ∧ c'.regs.ip = 0x40 + 8 * i ∧
      c'.bus = { b2 with io := { b2.io with ifl := b2.io.ifl - (b2.io.ifl / 2^i % 2) * 2^i } } := by
  obtain ⟨b1', b2', w1, w2, i1, i2, _, e⟩ := handleInterrupt_taken c h hp hi
  rw [hb1] at w1; injection w1 with w1; subst w1
  rw [hb2] at w2; injection w2 with w2; subst w2
  have hc := ok_inj (e) hc; subst hc
  obtain ⟨i, hi5, _, _, hch⟩ := chain_lowest (activeInterrupts b1) (and_lt32 i1.ifl) hp1
  refine ⟨i, hi5, by show (chain (activeInterrupts b1)).1 = _; rw [hch], ?_⟩
  show Bus.State.mk .. = _
  simp only [hch, mask_bit _ i2.ifl i hi5]

/-- a dispatch charges five machine cycles (to the cycle counter the devices are caught up from, and to the ghost total);
anything else charges nothing -/
theorem five_cycles (c c' : State) (h : WFc c) (hc : handleInterrupt c = .ok c') :
    c'.regs.cycles = c.regs.cycles + (if activeInterrupts c.bus ≠ 0 ∧ c.ime = .Enabled then 5 else 0) ∧
    c'.charged = c.charged + (if activeInterrupts c.bus ≠ 0 ∧ c.ime = .Enabled then 5 else 0) := by
  by_cases h0 : activeInterrupts c.bus = 0
  · have hc := ok_inj (handleInterrupt_idle c h0) hc; subst hc; simp [h0]
  by_cases hi : c.ime = .Enabled
  · obtain ⟨b1, b2, _, _, _, _, _, e⟩ := handleInterrupt_taken c h h0 hi
    have hc := ok_inj (e) hc; subst hc; simp [h0, hi, dispatched]
  · have hc := ok_inj (handleInterrupt_masked c h0 hi) hc; subst hc; simp [hi]

/-- cancellation: if the high-byte push itself leaves no source pending (it landed on IE or IF), PC becomes 0x0000 and
no IF bit is cleared — the bus is exactly what the two pushes left -/
theorem cancellation (c c' : State) (h : WFc c) (hp : activeInterrupts c.bus ≠ 0) (hi : c.ime = .Enabled)
    (hc : handleInterrupt c = .ok c') (b1 b2 : Bus.State)
    (hb1 : Bus.write c.bus ((c.regs.sp + 65535) % 65536) (c.regs.ip / 256) = .ok b1)
    (hb2 : Bus.write b1 ((c.regs.sp + 65534) % 65536) (c.regs.ip % 256) = .ok b2) (hp1 : activeInterrupts b1 = 0) :
    c'.regs.ip = 0 ∧ c'.bus = b2 ∧ Dispatched c c' := by
  obtain ⟨b1', b2', w1, w2, i1, i2, _, e⟩ := handleInterrupt_taken c h hp hi
  rw [hb1] at w1; injection w1 with w1; subst w1
  rw [hb2] at w2; injection w2 with w2; subst w2
  have hc := ok_inj (e) hc; subst hc
  refine ⟨by show (chain (activeInterrupts b1)).1 = 0; rw [hp1]; rfl, ?_, rfl, rfl, rfl, rfl⟩
  show clr b2 (chain (activeInterrupts b1)).2 = b2
  rw [hp1]; exact clr_zero b2 i2

/-- SP after a dispatch is (SP − 2) mod 65536 (the u32 wrap of the register field is masked; repo d5e7cc8) -/
theorem sp_mod (c c' : State) (h : WFc c) (hp : activeInterrupts c.bus ≠ 0) (hi : c.ime = .Enabled)
    (hc : handleInterrupt c = .ok c') : c'.regs.sp = (c.regs.sp + 65536 - 2) % 65536 ∧ c'.regs.sp < 65536 := by
  obtain ⟨b1, b2, _, _, _, _, _, e⟩ := handleInterrupt_taken c h hp hi
  have hc := ok_inj (e) hc; subst hc
  exact ⟨rfl, Nat.mod_lt _ (by omega)⟩

/-- "Otherwise IF, IE, PC, SP and memory are unchanged": without (pending ∧ IME = Enabled) registers, bus, master enable
and charged cycles are untouched -/
theorem otherwise_unchanged (c c' : State) (hn : ¬ (activeInterrupts c.bus ≠ 0 ∧ c.ime = .Enabled))
    (hc : handleInterrupt c = .ok c') : Untouched c c' := by
  by_cases h0 : activeInterrupts c.bus = 0
  · have hc := ok_inj (handleInterrupt_idle c h0) hc; subst hc; exact ⟨rfl, rfl, rfl, rfl⟩
  · have hi : c.ime ≠ .Enabled := fun e => hn ⟨h0, e⟩
    have hc := ok_inj (handleInterrupt_masked c h0 hi) hc; subst hc; exact ⟨rfl, rfl, rfl, rfl⟩

/-! ### concrete states (the hypotheses are satisfiable; the boundary cases behave as stated) -/

/-- MBC1 cartridge, 4 ROM banks, 32 KiB RAM, as the c07 stream uses -/
def bus0 : Bus.State := Bus.create .mbc1 4 32768 (fun _ => 0)

def mk (ifl ie sp ip : Nat) (ime : Ime) (run : RunState) : State :=
  { regs := { sp := sp, ip := ip }, bus := { bus0 with io := { bus0.io with ifl := ifl, ie := ie } }, ime := ime, run := run }

theorem wf_mk (ifl ie sp ip : Nat) (ime : Ime) (run : RunState) (h1 : ifl < 32) (h2 : ie < 32) (h3 : sp < 65536) (h4 : ip < 65536) :
    WFc (mk ifl ie sp ip ime run) :=
  ⟨⟨h1, h2, rfl⟩, BusProofs.wf_set_io (BusProofs.wf_create .mbc1 4 32768 _ (by omega)) _, h3, h4⟩

/-- what the examples observe of a result -/
def obs (r : Except Bus.Panic State) : Option (Nat × Nat × Nat × Nat × Nat × Nat) :=
  match r with
  | .ok c => some (c.regs.ip, c.regs.sp, c.bus.io.ifl, c.bus.io.ie, c.regs.cycles, if c.run = .Run then 0 else 1)
  | .error _ => none

/-- Timer and Joypad pending, halted, IME on, SP in WRAM: wakes, vector 0x50, only bit 2 of IF cleared, SP−2, 5 cycles -/
example : obs (handleInterrupt (mk 0x14 0x1f 0xd000 0x1234 .Enabled .Halt)) = some (0x50, 0xcffe, 0x10, 0x1f, 5, 0) := by
  decide +kernel
/-- the same with IME off: only the wake-up -/
example : obs (handleInterrupt (mk 0x14 0x1f 0xd000 0x1234 .Disabled .Halt)) = some (0x1234, 0xd000, 0x14, 0x1f, 0, 0) := by
  decide +kernel
/-- SP = 0x0000: the high byte 0x12 lands on IE (0xFFFF) and disables the VBlank source: cancellation, PC = 0, IF kept;
SP wraps to 0xFFFE -/
example : obs (handleInterrupt (mk 0x01 0x01 0x0000 0x1234 .Enabled .Run)) = some (0x0000, 0xfffe, 0x01, 0x12, 5, 0) := by
  decide +kernel
/-- SP = 0xFF11: the low byte 0x08 lands on IF (0xFF0F) *after* the sample: Timer is served (vector 0x50), and the
clear applies to the IF value the push wrote (0x08: bit 2 no longer set, bit 3 kept) -/
example : obs (handleInterrupt (mk 0x04 0x04 0xff11 0x1208 .Enabled .Run)) = some (0x50, 0xff0f, 0x08, 0x04, 5, 0) := by
  decide +kernel
/-- SP = 0xFF10: the high byte lands on IF and withdraws the request: cancellation -/
example : obs (handleInterrupt (mk 0x04 0x04 0xff10 0x0034 .Enabled .Run)) = some (0x0000, 0xff0e, 0x00, 0x04, 5, 0) := by
  decide +kernel
example : WFc (mk 0x01 0x01 0x0000 0x1234 .Enabled .Run) := wf_mk _ _ _ _ _ _ (by omega) (by omega) (by omega) (by omega)
example : activeInterrupts (mk 0x01 0x01 0x0000 0x1234 .Enabled .Run).bus ≠ 0 := by decide +kernel

end GbVerif.C07
