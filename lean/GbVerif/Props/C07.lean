import GbVerif.Model.Core
import GbVerif.Spec.Interrupt
/-!
C07 — interrupt dispatch follows priority, masking and master-enable rules.
-/
namespace GbVerif.C07
open GbVerif.Core

/-- nothing requested-and-enabled: `handle_interrupt` is the identity, whatever the master enable and run state -/
theorem idle_identity (c : State) (h : activeInterrupts c.bus = 0) : handleInterrupt c = .ok c := by
  simp [handleInterrupt, h]

/-- master enable not on: only the run state changes (a halted or stopped CPU resumes); IF, IE, PC, SP, memory untouched -/
theorem masked_only_wakes (c : State) (h : activeInterrupts c.bus ≠ 0) (hi : c.ime ≠ .Enabled) :
    handleInterrupt c = .ok { c with run := .Run } := by
  simp [handleInterrupt, h, hi]

end GbVerif.C07
