import GbVerif.Proofs.CoreStep
import GbVerif.Proofs.CoreFrame
import GbVerif.Proofs.SysFrame
import GbVerif.Proofs.Machine
import GbVerif.Props.C06
/-!
C09 — CPU and device time stay in lock step and the frame loop makes progress.

`State.delivered` (clock cycles handed to `MemoryAreas::run_clock_cycles`) and `State.charged` (machine cycles charged to the
CPU: instructions, +5 per dispatch, +1 per suspended step) are ghost counters updated by the model of
`Core::update` / `run_interp` / `run_code_block` at the places where the code calls `run_clock_cycles` / adds to
`registers.cycles`.  Everything below holds for ANY device function `dev` (the passage of device time is a parameter of the model).
`update dev` is `Core::update` without the `jit` feature (one instruction per step), `updateBlock dev` with it (one block per
step, interpreter as the block engine).
-/
namespace GbVerif.C09
open GbVerif.Core GbVerif.CoreProofs GbVerif.LcdSpec GbVerif.SysProofs

/-- clocks delivered + 4 × (machine cycles charged but not yet delivered: the five cycles of a dispatch that ended the step)
= 4 × machine cycles charged -/
def TimeInv (c : State) : Prop := c.delivered + 4 * c.regs.cycles = 4 * c.charged

/-- holds at power-on (all three counters zero), whatever the rest of the state -/
theorem time_inv_init (c : State) (h1 : c.delivered = 0) (h2 : c.charged = 0) (h3 : c.regs.cycles = 0) : TimeInv c := by
  unfold TimeInv; omega

/-- preserved by `Core::run_interp` -/
theorem time_inv_run_interp (dev : Dev) (c c' : State) (hi : TimeInv c) (h : runInterp dev c = .ok c') : TimeInv c' :=
  runInterp_timeInv hi h

/-- preserved by `Core::run_code_block` (needs: the cycle counter only grows inside a block) -/
theorem time_inv_run_code_block (dev : Dev) (c c' : State) (hi : TimeInv c) (h : runCodeBlockInterp dev c = .ok c') : TimeInv c' :=
  runCodeBlockInterp_timeInv hi h

/-- preserved by `Core::update` (instruction-stepped build), running or suspended -/
theorem time_inv_update (dev : Dev) (c c' : State) (hi : TimeInv c) (h : update dev c = .ok c') : TimeInv c' :=
  update_timeInv hi h

/-- **time_inv**: after any number of emulator steps, for any device behaviour:
clocks delivered to the devices + 4 × pending dispatch cycles = 4 × machine cycles the CPU was charged -/
theorem time_inv (dev : Dev) (n : Nat) (c c' : State) (hi : TimeInv c) (h : iter (update dev) n c = .ok c') : TimeInv c' :=
  iter_invariant (P := TimeInv) (fun _ _ hp hs => update_timeInv hp hs) n c c' hi h

/-- the same under block stepping (`jit` build) -/
theorem time_inv_blocks (dev : Dev) (n : Nat) (c c' : State) (hi : TimeInv c) (h : iter (updateBlock dev) n c = .ok c') :
    TimeInv c' :=
  iter_invariant (P := TimeInv) (fun _ _ hp hs => updateBlock_timeInv hp hs) n c c' hi h

/-- per step: the clocks delivered during a step are four times the machine cycles consumed since the previous step's
catch-up — the step's own instruction (or 1 when suspended) plus the five cycles of a dispatch that ended the *previous*
step; a dispatch ending *this* step is charged now (`charged`) and delivered in the next step (`regs.cycles = 5`) -/
theorem step_accounting (dev : Dev) (c c' : State) (hi : TimeInv c) (h : update dev c = .ok c') :
    c'.delivered - c.delivered = 4 * ((c'.charged - c'.regs.cycles) - (c.charged - c.regs.cycles)) ∧
    c.delivered ≤ c'.delivered ∧ c.regs.cycles ≤ c.charged ∧ c'.regs.cycles ≤ c'.charged := by
  have h' := update_timeInv hi h
  have hp := update_progress h
  unfold CoreProofs.TimeInv at *
  unfold TimeInv at hi
  omega

/-- a suspended step (HALT / STOP) delivers exactly 4 clocks and charges exactly one machine cycle, +5 if it ends in a dispatch -/
theorem halted_step (dev : Dev) (c c' : State) (hr : c.run ≠ .Run) (h : update dev c = .ok c') :
    c'.delivered = c.delivered + 4 ∧ (c'.charged = c.charged + 1 ∨ c'.charged = c.charged + 1 + 5) := by
  refine ⟨update_halted_delivered hr h, ?_⟩
  obtain ⟨bus, _, h3⟩ := update_halted_shape hr h
  rcases handleInterrupt_outcomes h3 with ⟨_, rfl⟩ | ⟨_, _, rfl⟩ | ⟨_, _, b1, b2, sp2, rfl⟩
  · exact Or.inl rfl
  · exact Or.inl rfl
  · exact Or.inr rfl

/-- an interrupt dispatch charges five machine cycles (and nothing else does, inside `handle_interrupt`) -/
theorem dispatch_five (c c' : State) (h : handleInterrupt c = .ok c') :
    (c'.charged = c.charged ∧ c'.regs.cycles = c.regs.cycles) ∨
    (c'.charged = c.charged + 5 ∧ c'.regs.cycles = c.regs.cycles + 5 ∧ activeInterrupts c.bus ≠ 0 ∧ c.ime = .Enabled) := by
  rcases handleInterrupt_outcomes h with ⟨_, rfl⟩ | ⟨_, _, rfl⟩ | ⟨h0, hi, b1, b2, sp2, rfl⟩
  · exact Or.inl ⟨rfl, rfl⟩
  · exact Or.inl ⟨rfl, rfl⟩
  · exact Or.inr ⟨rfl, rfl, h0, hi⟩

/-- **catchup_before_sample**: in every step the devices are caught up (the `dev` call, with 4 × the machine cycles consumed)
*before* IF ∧ IE is sampled: the state `p` handed to `handle_interrupt` carries the bus that `dev` returned -/
theorem catchup_before_sample (dev : Dev) (c c' : State) (h : update dev c = .ok c') :
    ∃ (p : State) (b bus : Bus.State) (k : Nat), dev b (4 * k) = .ok bus ∧ p.bus = bus ∧ handleInterrupt p = .ok c' ∧
      p.delivered = c.delivered + 4 * k ∧ p.regs.cycles = (if c.run = .Run then 0 else c.regs.cycles) := by
  by_cases hr : c.run = .Run
  · rw [update_run dev c hr] at h
    obtain ⟨r, b, st, e, bus, _, h2, h3⟩ := runInterp_shape h
    refine ⟨_, b, bus, r.cycles, by rw [Nat.mul_comm]; exact h2, rfl, h3, ?_, by simp [hr, sampled]⟩
    show c.delivered + r.cycles * 4 = _; omega
  · obtain ⟨bus, h2, h3⟩ := update_halted_shape hr h
    exact ⟨_, c.bus, bus, 1, h2, rfl, h3, rfl, by simp [hr, sampledHalted]⟩

/-- the same for a block step -/
theorem catchup_before_sample_block (dev : Dev) (c c' : State) (h : runCodeBlockInterp dev c = .ok c') :
    ∃ (p : State) (b bus : Bus.State) (k : Nat), dev b (4 * k) = .ok bus ∧ p.bus = bus ∧ handleInterrupt p = .ok c' ∧
      p.delivered = c.delivered + 4 * k ∧ p.lastBlockCycles = k := by
  obtain ⟨r, b, st, bus, _, h2, h3⟩ := runCodeBlockInterp_shape h
  refine ⟨_, b, bus, r.cycles, by rw [Nat.mul_comm]; exact h2, rfl, h3, ?_, rfl⟩
  show c.delivered + r.cycles * 4 = _; omega

/-- every decoder clock entry is at least one machine cycle — for every byte value (C06.clocks_pos, C06.cb_clocks_pos)
and also for out-of-range table indices -/
theorem op_clocks_ge_4 (b0 b1 b2 : Nat) : 4 ≤ (Gen.decode b0 b1 b2).2.2 := (decode_clocks b0 b1 b2).1

/-- **progress**: every emulator step advances device time by at least one machine cycle (4 clocks) -/
theorem progress (dev : Dev) (c c' : State) (h : update dev c = .ok c') : c.delivered + 4 ≤ c'.delivered :=
  update_progress h

/-- progress under block stepping: a block executes at least one instruction -/
theorem progress_blocks (dev : Dev) (c c' : State) (h : updateBlock dev c = .ok c') : c.delivered + 4 ≤ c'.delivered :=
  updateBlock_progress h

/-- between steps the cycle counter holds at most the five cycles of a dispatch (an invariant), so an instruction-stepped
step delivers at most 56 clocks: 4 × (5 + 6 + 3) -/
theorem step_at_most_56 (dev : Dev) (c c' : State) (hs : Small c) (h : update dev c = .ok c') :
    c'.delivered ≤ c.delivered + 56 ∧ Small c' :=
  ⟨update_step_le hs h, update_small hs h⟩

/-- `Core::run_frame` on the model side: `tr i` is the core state when the loop reads the LCD's frame counter for the i-th time -/
structure FrameRun (step : State → Except Bus.Panic State) (tr : Nat → State) : Prop where
  steps : ∀ i, step (tr i) = .ok (tr (i + 1))

/-- a strictly advancing clock crosses the next multiple of the frame period, and the first sample at or after it is
less than one step beyond it -/
theorem crosses_frame (t : Nat → Nat) (hmono : ∀ i, t i + 4 ≤ t (i + 1)) :
    ∃ n, 0 < n ∧ t 0 / 70224 < t n / 70224 ∧ (∀ j, j < n → t j / 70224 = t 0 / 70224) ∧ t (n - 1) < (t 0 / 70224 + 1) * 70224 := by
  -- distance of sample i to the boundary, decreasing by at least 4 per step
  obtain ⟨B, hBdef⟩ : ∃ B, B = (t 0 / 70224 + 1) * 70224 := ⟨_, rfl⟩
  have hB0 : t 0 < B := by
    have := Nat.div_add_mod (t 0) 70224; have := Nat.mod_lt (t 0) (show 0 < 70224 by decide); omega
  have hlow : t 0 / 70224 * 70224 ≤ t 0 := Nat.div_mul_le_self _ _
  have hge : ∀ i, t 0 + 4 * i ≤ t i := by
    intro i; induction i with
    | zero => omega
    | succ i ih => have := hmono i; omega
  -- search: ∀ d, for every i whose samples up to i are all below B and B - t i ≤ d, a crossing index exists
  have key : ∀ d i, (∀ j, j ≤ i → t j < B) → B - t i ≤ d → ∃ n, i < n ∧ B ≤ t n ∧ (∀ j, j < n → t j < B) := by
    intro d
    induction d with
    | zero => intro i hi hd; have := hi i (Nat.le_refl _); omega
    | succ d ih =>
      intro i hi hd
      by_cases hn : t (i + 1) < B
      · have := hmono i
        obtain ⟨n, h1, h2, h3⟩ := ih (i + 1) (fun j hj => by
          by_cases hji : j ≤ i
          · exact hi j hji
          · have : j = i + 1 := by omega
            subst this; exact hn) (by omega)
        exact ⟨n, by omega, h2, h3⟩
      · refine ⟨i + 1, by omega, by omega, ?_⟩
        intro j hj; exact hi j (by omega)
  have h00 : ∀ j, j ≤ 0 → t j < B := by
    intro j hj
    have hj0 : j = 0 := by omega
    subst hj0; exact hB0
  obtain ⟨n, hn0, hn1, hn2⟩ := key (B - t 0) 0 h00 (Nat.le_refl _)
  have hdiv : ∀ x, t 0 / 70224 * 70224 ≤ x → x < B → x / 70224 = t 0 / 70224 := by
    intro x h1 h2
    have h3 : x < (t 0 / 70224 + 1) * 70224 := by rw [← hBdef]; exact h2
    have := Nat.div_add_mod x 70224; have := Nat.mod_lt x (show 0 < 70224 by decide)
    have hq : t 0 / 70224 ≤ x / 70224 := by
      apply Nat.le_div_iff_mul_le (by decide) |>.mpr; exact h1
    have hq2 : x / 70224 < t 0 / 70224 + 1 := Nat.div_lt_iff_lt_mul (by decide) |>.mpr h3
    omega
  refine ⟨n, hn0, ?_, ?_, ?_⟩
  · have : t 0 / 70224 + 1 ≤ t n / 70224 := Nat.le_div_iff_mul_le (by decide) |>.mpr (by rw [← hBdef]; exact hn1)
    omega
  · intro j hj
    have h1 := hn2 j hj
    have h2 : t 0 ≤ t j := by have := hge j; omega
    exact hdiv (t j) (by omega) h1
  · rw [← hBdef]; exact hn2 (n - 1) (by omega)

/-- **run_frame_terminates_partial**, for instruction stepping AND block stepping, with no bound on the block length.
`Core::run_frame` steps the machine until the LCD's count of completed frames changes.  Assumption (what is *not* proved
here — the composition of `dev` with the LCD model of C14): that count is the number of whole frame periods in the LCD's
clock, an offset `t0` plus the clocks delivered (`C14.vblank_once_per_frame` / `lcd_closed_form`: exactly one VBlank entry
per 70224 clocks, however the clocks are batched).  Then the loop ends at some sample `n`, every earlier sample still shows
the old count, and the last step before it started less than one frame period after the call: the call returns within one
frame period plus one step (inside the property's two frame periods plus one block). -/
theorem run_frame_terminates_partial (step : State → Except Bus.Panic State) (tr : Nat → State) (run : FrameRun step tr)
    (hprog : ∀ c c', step c = .ok c' → c.delivered + 4 ≤ c'.delivered)
    (frames : State → Nat) (t0 : Nat) (hlcd : ∀ i, frames (tr i) = (t0 + (tr i).delivered) / 70224) :
    ∃ n, 0 < n ∧ frames (tr n) ≠ frames (tr 0) ∧ (∀ j, j < n → frames (tr j) = frames (tr 0)) ∧
      (tr (n - 1)).delivered < (tr 0).delivered + 70224 := by
  obtain ⟨n, h0, h1, h2, h3⟩ := crosses_frame (fun i => t0 + (tr i).delivered)
    (fun i => by have := hprog _ _ (run.steps i); show t0 + _ + 4 ≤ t0 + _; omega)
  refine ⟨n, h0, ?_, ?_, ?_⟩
  · rw [hlcd, hlcd]; omega
  · intro j hj; rw [hlcd, hlcd]; exact h2 j hj
  · have := Nat.div_mul_le_self (t0 + (tr 0).delivered) 70224
    have hx : (t0 + (tr 0).delivered) / 70224 * 70224 + 70224 = ((t0 + (tr 0).delivered) / 70224 + 1) * 70224 := by
      rw [Nat.add_mul, Nat.one_mul]
    omega

/-- the bound in steps: every step delivers at least one machine cycle, so a call of `run_frame` takes at most 17556
steps (one per machine cycle of a frame period), instruction- or block-stepped -/
theorem run_frame_steps_le (step : State → Except Bus.Panic State) (tr : Nat → State) (run : FrameRun step tr)
    (hprog : ∀ c c', step c = .ok c' → c.delivered + 4 ≤ c'.delivered)
    (n : Nat) (hn : 0 < n) (h : (tr (n - 1)).delivered < (tr 0).delivered + 70224) : n ≤ 17556 := by
  have hge : ∀ i, (tr 0).delivered + 4 * i ≤ (tr i).delivered := by
    intro i
    induction i with
    | zero => omega
    | succ i ih => have := hprog _ _ (run.steps i); omega
  have := hge (n - 1)
  omega

/-- the instances: both step functions of the emulator make progress, whatever the devices do -/
theorem run_frame_terminates_update (dev : Dev) (tr : Nat → State) (run : FrameRun (update dev) tr)
    (frames : State → Nat) (t0 : Nat) (hlcd : ∀ i, frames (tr i) = (t0 + (tr i).delivered) / 70224) :
    ∃ n, 0 < n ∧ frames (tr n) ≠ frames (tr 0) ∧ (tr (n - 1)).delivered < (tr 0).delivered + 70224 := by
  obtain ⟨n, h0, h1, _, h3⟩ := run_frame_terminates_partial (update dev) tr run (fun c c' h => update_progress h) frames t0 hlcd
  exact ⟨n, h0, h1, h3⟩

theorem run_frame_terminates_blocks (dev : Dev) (tr : Nat → State) (run : FrameRun (updateBlock dev) tr)
    (frames : State → Nat) (t0 : Nat) (hlcd : ∀ i, frames (tr i) = (t0 + (tr i).delivered) / 70224) :
    ∃ n, 0 < n ∧ frames (tr n) ≠ frames (tr 0) ∧ (tr (n - 1)).delivered < (tr 0).delivered + 70224 := by
  obtain ⟨n, h0, h1, _, h3⟩ := run_frame_terminates_partial (updateBlock dev) tr run (fun c c' h => updateBlock_progress h) frames t0 hlcd
  exact ⟨n, h0, h1, h3⟩

/-! ### the whole machine: `Sys.dev` = OAM DMA + timer + LCD + joypad as `MemoryAreas::run_clock_cycles` composes them

`SysInv c` says: the LCD sits where the schedule of C14 puts it after `c.delivered` clocks and has counted
`c.delivered / 70224` completed frames.  It holds for a freshly created machine and is preserved by every step, whatever
the program does (all 90 instruction forms, every register write, OAM DMA, dispatch, HALT/STOP), instruction-stepped or
block-stepped: the assumption of `run_frame_terminates_partial` is a theorem for the real device function. -/

/-- one step keeps the LCD in lock step with the delivered clocks -/
theorem sys_inv_update (c c' : State) (h : update Sys.dev c = .ok c') (hi : SysInv c) : SysInv c' := update_inv h hi
theorem sys_inv_updateBlock (c c' : State) (h : updateBlock Sys.dev c = .ok c') (hi : SysInv c) : SysInv c' := updateBlock_inv h hi

/-- … hence every run of any length, from a freshly created machine -/
theorem sys_inv_reachable (kind : Cart.Kind) (romBanks ramBytes : Nat) (rom : Nat → Nat) (regs : Interp.Regs) (n : Nat) (c' : State)
    (h : iter (update Sys.dev) n { regs := regs, bus := Bus.create kind romBanks ramBytes rom } = .ok c') : SysInv c' := by
  have key : ∀ n c c', SysInv c → iter (update Sys.dev) n c = .ok c' → SysInv c' := by
    intro n
    induction n with
    | zero => intro c c' hi h; injection h with h; subst h; exact hi
    | succ n ih =>
      intro c c' hi h
      rw [iter] at h
      obtain ⟨c1, h1, h⟩ := bind_ok_elim h
      exact ih _ _ (update_inv h1 hi) h
  exact key n _ _ (sysInv_create kind romBanks ramBytes rom regs) h

/-- what the invariant says about the registers a program can read: LY and the STAT mode are those of the closed-form
schedule at the delivered clock total, the frame counter is the number of whole frame periods (C14 ∘ C09) -/
theorem sys_lcd_observables (c : State) (hi : SysInv c) :
    c.bus.io.video.line = lyAt c.delivered ∧ (Sys.modeOfNat c.bus.io.video.mode).toNat = modeAt c.delivered ∧
    Sys.frames c = c.delivered / 70224 := by
  obtain ⟨_, h2, h3⟩ := hi
  have hl : (GbVerif.LcdProofs.pos (Sys.lcdOf c.bus.io.video)).line = (sched c.delivered).line := by rw [h2]
  have hm : (GbVerif.LcdProofs.pos (Sys.lcdOf c.bus.io.video)).mode = (sched c.delivered).mode := by rw [h2]
  rw [GbVerif.LcdProofs.sched_line] at hl
  rw [GbVerif.LcdProofs.sched_mode] at hm
  exact ⟨hl, hm, h3⟩

/-- **run_frame_terminates** for the modelled machine, no assumption left: from any state satisfying the machine
invariant (in particular any state reachable from power-on), `Core::run_frame` — which steps until
`get_frames_completed` changes — returns; every earlier poll still shows the old count; the last step before the
change started less than one frame period after the call.  Instruction stepping. -/
theorem run_frame_terminates (tr : Nat → State) (run : FrameRun (update Sys.dev) tr) (h0 : SysInv (tr 0)) :
    ∃ n, 0 < n ∧ Sys.frames (tr n) ≠ Sys.frames (tr 0) ∧ (∀ j, j < n → Sys.frames (tr j) = Sys.frames (tr 0)) ∧
      (tr (n - 1)).delivered < (tr 0).delivered + 70224 := by
  have hall : ∀ i, SysInv (tr i) := by
    intro i
    induction i with
    | zero => exact h0
    | succ i ih => exact update_inv (run.steps i) ih
  exact run_frame_terminates_partial (update Sys.dev) tr run (fun c c' h => update_progress h) Sys.frames 0
    (fun i => by rw [Nat.zero_add]; exact (hall i).2.2)

/-- … and block stepping (`jit` feature), with no bound on the block length -/
theorem run_frame_terminates_blockstep (tr : Nat → State) (run : FrameRun (updateBlock Sys.dev) tr) (h0 : SysInv (tr 0)) :
    ∃ n, 0 < n ∧ Sys.frames (tr n) ≠ Sys.frames (tr 0) ∧ (∀ j, j < n → Sys.frames (tr j) = Sys.frames (tr 0)) ∧
      (tr (n - 1)).delivered < (tr 0).delivered + 70224 := by
  have hall : ∀ i, SysInv (tr i) := by
    intro i
    induction i with
    | zero => exact h0
    | succ i ih => exact updateBlock_inv (run.steps i) ih
  exact run_frame_terminates_partial (updateBlock Sys.dev) tr run (fun c c' h => updateBlock_progress h) Sys.frames 0
    (fun i => by rw [Nat.zero_add]; exact (hall i).2.2)

/-! ### one invariant for every reachable state of the machine

`MachineOk` = buffer sizes, timer / DMA bookkeeping in range (`BusOk`), the LCD on the schedule of the delivered clocks
(`SysInv`), time conservation (`TimeInv`), at most five cycles pending (`Small`).  It holds at power-on and is kept by
every successful step, instruction- or block-stepped, for every program (the only ways a step can fail in the model are
the panics of the code: an undefined opcode, execution from a non-executable area). -/

theorem machine_ok_update (c c' : State) (ok : MachineOk c) (h : update Sys.dev c = .ok c') : MachineOk c' :=
  update_machineOk ok h
theorem machine_ok_updateBlock (c c' : State) (ok : MachineOk c) (h : updateBlock Sys.dev c = .ok c') : MachineOk c' :=
  updateBlock_machineOk ok h

/-- every state reachable from a freshly created machine, by any number of steps of either kind in any order -/
theorem machine_ok_reachable (kind : Cart.Kind) (romBanks ramBytes : Nat) (rom : Nat → Nat) (regs : Interp.Regs)
    (hb : 2 ≤ romBanks) (hc : regs.cycles = 0) (steps : List Bool) :
    ∀ c', (steps.foldlM (fun c blk => if blk then updateBlock Sys.dev c else update Sys.dev c)
            ({ regs := regs, bus := Bus.create kind romBanks ramBytes rom } : State)) = .ok c' → MachineOk c' := by
  have key : ∀ (steps : List Bool) (c c' : State), MachineOk c →
      steps.foldlM (fun c blk => if blk then updateBlock Sys.dev c else update Sys.dev c) c = .ok c' → MachineOk c' := by
    intro steps
    induction steps with
    | nil => intro c c' ok h; injection h with h; subst h; exact ok
    | cons b rest ih =>
      intro c c' ok h
      simp only [List.foldlM, bind, Except.bind] at h
      split at h
      · cases h
      · rename_i c1 h1
        refine ih c1 c' ?_ h
        cases b with
        | true => simp only [if_true] at h1; exact updateBlock_machineOk ok h1
        | false => simp only [Bool.false_eq_true, if_false] at h1; exact update_machineOk ok h1
  intro c' h
  exact key steps _ c' (machineOk_create kind romBanks ramBytes rom regs hb hc) h

/-- what the invariant buys, at every reachable state: the passage of any amount of time cannot panic, catch-up
batches can be split or merged freely, and `run_frame` returns -/
theorem machine_ok_facts (c : State) (ok : MachineOk c) :
    (∀ k, k % 4 = 0 → k < 2 ^ 32 - 65536 → ∃ b', Sys.dev c.bus k = .ok b') ∧
    (∀ a b, a % 4 = 0 → b % 4 = 0 → 4 ≤ a → a + b < 2 ^ 32 - 65536 →
        Sys.dev c.bus (a + b) = (Sys.dev c.bus a).bind fun s1 => Sys.dev s1 b) ∧
    (∀ tr : Nat → State, tr 0 = c → FrameRun (updateBlock Sys.dev) tr →
        ∃ n, 0 < n ∧ n ≤ 17556 ∧ Sys.frames (tr n) ≠ Sys.frames c) := by
  obtain ⟨⟨wf, io, hd⟩, si, _, _⟩ := ok
  refine ⟨?_, ?_, ?_⟩
  · intro k hk hb
    obtain ⟨b', h, _⟩ := dev_total wf io.1 hk hb
    exact ⟨b', h⟩
  · intro a b ha hb ha4 hab
    exact dev_add wf io hd a b ha hb ha4 hab
  · intro tr h0 run
    obtain ⟨n, hn, hne, _, hlt⟩ := run_frame_terminates_blockstep tr run (by rw [h0]; exact si)
    refine ⟨n, hn, ?_, by rw [← h0]; exact hne⟩
    exact run_frame_steps_le (updateBlock Sys.dev) tr run (fun c c' h => updateBlock_progress h) n hn hlt

/-! ### concrete runs (the hypotheses are satisfiable; the counters move as stated) -/

/-- devices without behaviour: time passes, nothing is raised -/
def dev0 : Dev := fun b _ => .ok b

/-- ROM: `EI` at 0x100, `HALT` at 0x101, `NOP`s elsewhere; MBC1, 4 banks, 32 KiB RAM -/
def bus0 : Bus.State := Bus.create .mbc1 4 32768 (fun i => if i = 0x100 then 0xfb else if i = 0x101 then 0x76 else 0)

/-- power-on-like state with the Timer interrupt requested and enabled -/
def c0 : State := { regs := { sp := 0xdffe, ip := 0x100 }, bus := { bus0 with io := { bus0.io with ifl := 4, ie := 4 } } }

def obs (r : Except Bus.Panic State) : Option (Nat × Nat × Nat × Nat × Nat) :=
  match r with
  | .ok c => some (c.delivered, c.charged, c.regs.cycles, c.regs.ip, if c.run = .Run then 0 else 1)
  | .error _ => none

example : TimeInv c0 := time_inv_init c0 rfl rfl rfl
example : Small c0 := ⟨by decide, fun _ => rfl⟩
/-- EI: 4 clocks, 1 cycle, no dispatch yet -/
example : obs (iter (update dev0) 1 c0) = some (4, 1, 0, 0x101, 0) := by decide +kernel
/-- HALT with the request pending: the EI takes effect, dispatch at the end of the step: 2 cycles delivered, 7 charged, 5 pending -/
example : obs (iter (update dev0) 2 c0) = some (8, 7, 5, 0x50, 0) := by decide +kernel
/-- the NOP at the vector: the five dispatch cycles are delivered with it: 8 + 4·(5+1) clocks, 8 cycles -/
example : obs (iter (update dev0) 3 c0) = some (32, 8, 0, 0x51, 0) := by decide +kernel
/-- block stepping from the same state: the block is EI alone (EI ends a block) -/
example : obs (iter (updateBlock dev0) 1 c0) = some (4, 6, 5, 0x50, 0) := by decide +kernel

end GbVerif.C09
