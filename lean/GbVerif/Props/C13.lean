import GbVerif.Model.Timer
import GbVerif.Spec.Timer
import GbVerif.Proofs.Timer
import GbVerif.Proofs.TimerRefine
import GbVerif.Proofs.TimerCount
/-!
C13 — DIV/TIMA.  Property theorems only (lemmas in `Proofs/Timer*.lean`).

Model: `GbVerif.Timer` (mirror of `src/devices/timer.rs`: batched `run_cycles` with the disabled fast path and
the deferred `&= 0xffff`).  Spec: `GbVerif.TimerSpec` (one clock at a time, unbounded elapsed-clock count,
falling edge of `selected divider bit ∧ enable`).

Domain: `run n` is `run_cycles` for a batch that does not overflow the `u32` (`runCycles_eq_run`:
always the case for batches of at most 0xffff0000 clocks; `runCycles_panic_iff` says exactly when the
overflow-checked build panics).  Not part of the property and therefore of no theorem here: the TIMA tick a
DIV write can cause on hardware (model and spec both reset the divider without an edge).
-/
namespace GbVerif.C13
open GbVerif.Timer
open GbVerif.TimerSpec (Hw selBit period enabled signal tickTima tickTimaN writeTac)

/-! ### invariant -/

theorem wf_init : Wf init := by decide

/-- every operation (any written byte, any batch size) preserves the invariant -/
theorem wf_apply (s : State) (w : Wf s) (op : Op) : Wf (apply s op).1 :=
  (refines_apply (refines_abs s w) op).1.1

/-- every reachable state satisfies the invariant -/
theorem wf_reachable (ops : List Op) : Wf (exec ops init).1 :=
  (refines_exec ops refines_init).1.1

/-- in particular `cycle_count` is back below 2^16 after every operation and the clock mask is one of the four bits -/
theorem wf_bounds (s : State) (w : Wf s) :
    s.cycleCount < 65536 ∧ s.counter < 256 ∧ s.modulo < 256 ∧ s.controlValue < 256 ∧
    (s.timerClockMask = 0 ∨ s.timerClockMask = 8 ∨ s.timerClockMask = 32 ∨ s.timerClockMask = 128 ∨ s.timerClockMask = 512) ∧
    (s.enabledMask = 0 ∨ s.enabledMask = 0xffff) := by
  refine ⟨w.1, w.2.1, w.2.2.1, w.2.2.2.1, ?_, ?_⟩
  · rcases w.2.2.2.2 with h | h
    · exact Or.inl h.2.1
    · rw [h.2, clockMaskOf_eq]
      rcases selBit_cases s.controlValue with e | e | e | e <;> rw [e] <;> simp
  · rcases w.2.2.2.2 with h | h
    · exact Or.inl h.1
    · rw [h.1, enabledMaskOf_eq]; cases enabled s.controlValue <;> simp

/-- reachable, non-trivial states (enabled, mid-phase, TIMA about to overflow; and the power-on masks) -/
example : Wf (exec [.run 65400, .tac 5, .run 300, .tima 255, .tma 200, .run 77] init).1 := by decide +kernel
example : Wf (exec [.run 12345, .tima 7] init).1 ∧ (exec [.run 12345, .tima 7] init).1.timerClockMask = 0 := by
  decide +kernel

/-! ### batching -/

/-- Batching invariance: one `run_cycles` batch of `a + b` clocks leaves the same state as a batch of `a`
followed by a batch of `b`, and returns the OR of their flags — every reachable state (enabled or not,
every TAC, every divider phase), every `a`, `b`. -/
theorem run_add (a b : Nat) (s : State) (w : Wf s) : run (a + b) s = seq (run a s) (run b) :=
  Timer.run_add a b s w.mask_lt

/-- the same for states that need not be reachable: only `timer_clock_mask < 2^16` is used -/
theorem run_add_of_mask_lt (a b : Nat) (s : State) (hm : s.timerClockMask < 65536) :
    run (a + b) s = seq (run a s) (run b) :=
  Timer.run_add a b s hm

example : (⟨0x12345, 300, 7, 1, 0x8008, 999⟩ : State).timerClockMask < 65536 := by decide

/-- running a list of batches one after the other -/
def runBatches : List Nat → State → State × Bool
  | [], s => (s, false)
  | b :: bs, s => seq (run b s) (runBatches bs)

/-- Partition independence: however the same total time is split into catch-up batches, the resulting
state (hence DIV, TIMA) and the interrupt request are the same. -/
theorem partition_independent (bs : List Nat) (s : State) (w : Wf s) : runBatches bs s = run bs.sum s := by
  induction bs generalizing s with
  | nil =>
    simp only [runBatches, List.sum_nil]
    rw [run_eq_clocks 0 s w.mask_lt, norm_of_lt s w.1]; rfl
  | cons b bs ih =>
    simp only [runBatches, List.sum_cons]
    rw [run_add b bs.sum s w]
    have w' : Wf (run b s).1 := wf_apply s w (.run b)
    unfold seq
    rw [ih _ w']

theorem partitions_agree (bs cs : List Nat) (h : bs.sum = cs.sum) (s : State) (w : Wf s) :
    runBatches bs s = runBatches cs s := by
  rw [partition_independent bs s w, partition_independent cs s w, h]

/-! ### `run_cycles` proper: `usize → u32` truncation and the overflow check -/

/-- `run_cycles` panics (overflow-checked build) exactly when `cycle_count + (clock as u32)` leaves `u32` -/
theorem runCycles_panic_iff (s : State) (clock : Nat) :
    runCycles s clock = none ↔ s.cycleCount + clock % 2 ^ 32 ≥ 2 ^ 32 := by
  show (if s.cycleCount + clock % 2 ^ 32 < 2 ^ 32 then some (run (clock % 2 ^ 32) s) else none) = none ↔ _
  split <;> simp <;> omega

/-- no panic, and `run` is what happens, for every reachable state and batch ≤ 0xffff0000 -/
theorem runCycles_eq_run (s : State) (w : Wf s) (clock : Nat) (hc : clock ≤ 0xffff0000) :
    runCycles s clock = some (run clock s) := by
  have h1 : clock % 2 ^ 32 = clock := Nat.mod_eq_of_lt (by omega)
  have := w.1
  show (if s.cycleCount + clock % 2 ^ 32 < 2 ^ 32 then some (run (clock % 2 ^ 32) s) else none) = _
  rw [h1, if_pos (by omega)]

/-- batching invariance at the level of the real entry point -/
theorem runCycles_add (s : State) (w : Wf s) (a b : Nat) (hab : a + b ≤ 0xffff0000) :
    runCycles s (a + b) =
      (runCycles s a).bind fun r => (runCycles r.1 b).map fun q => (q.1, r.2 || q.2) := by
  have w' : Wf (run a s).1 := wf_apply s w (.run a)
  rw [runCycles_eq_run s w (a + b) hab, runCycles_eq_run s w a (by omega)]
  simp only [Option.bind_some]
  rw [runCycles_eq_run _ w' b (by omega), run_add a b s w]
  rfl

/-! ### refinement to the per-clock hardware spec -/

/-- a batch of `n` clocks is `n` single clocks of the spec machine, with the same interrupt request -/
theorem run_eq_spec (n : Nat) (s : State) (h : Hw) (r : Refines s h) :
    Refines (run n s).1 (TimerSpec.clocks n h).1 ∧ (run n s).2 = (TimerSpec.clocks n h).2 :=
  refines_run n r

example : Refines (exec [.run 65400, .tac 7, .run 300, .tima 250] init).1 ⟨65700, 250, 0, 7⟩ := by
  refine ⟨by decide +kernel, by decide +kernel, by decide +kernel, by decide +kernel, by decide +kernel⟩

/-- every history of register writes and batches, from power-on: the model state represents the spec state
and the two produce the same sequence of interrupt requests -/
theorem exec_eq_spec (ops : List Op) :
    Refines (exec ops init).1 (TimerSpec.exec (ops.map toEv) TimerSpec.init).1 ∧
    (exec ops init).2 = (TimerSpec.exec (ops.map toEv) TimerSpec.init).2 :=
  refines_exec ops refines_init

/-- what the four registers read back is what the spec machine holds -/
theorem registers_eq_spec (ops : List Op) :
    let s := (exec ops init).1
    let h := (TimerSpec.exec (ops.map toEv) TimerSpec.init).1
    getDivider s = TimerSpec.div h ∧ getCounter s = h.tima ∧ getModulo s = h.tma ∧ getTimerControl s = h.tac := by
  have r := (exec_eq_spec ops).1
  exact ⟨getDivider_refines r, r.2.2.1, r.2.2.2.1, r.2.2.2.2⟩

/-- DIV equals bits 8..15 of the number of clocks elapsed since DIV was last written (since power-on if
never), after every history of writes and batches of any size. -/
theorem div_spec (ops : List Op) :
    getDivider (exec ops init).1 = (TimerSpec.sinceDivWrite (ops.map toEv) / 256) % 256 := by
  have r := (exec_eq_spec ops).1
  rw [getDivider_refines r, sinceDivWrite_eq]
  unfold TimerSpec.div
  rw [spec_exec_elapsed]
  rfl

example : TimerSpec.sinceDivWrite ([Op.run 5, .div, .run 300, .tac 5, .run 1000].map toEv) = 1300 := by decide

/-! ### TIMA rate -/

/-- Closed form (spec): while enabled, `n` clocks starting `e` clocks after the last DIV write clock TIMA
exactly `⌊(e+n)/P⌋ − ⌊e/P⌋` times, `P` the selected period — i.e. once per period, on the falling edge. -/
theorem ticks_closed_form (n : Nat) (h : Hw) (hen : enabled h.tac = true) :
    TimerSpec.clocks n h =
      ({ (tickTimaN ((h.elapsed + n) / period h.tac - h.elapsed / period h.tac) h).1 with elapsed := h.elapsed + n },
       (tickTimaN ((h.elapsed + n) / period h.tac - h.elapsed / period h.tac) h).2) :=
  spec_clocks_closed n h hen

example : enabled 6 = true ∧ period 6 = 64 ∧ period 4 = 1024 ∧ period 5 = 16 ∧ period 7 = 256 := by decide

/-- One tick per period (model): in any window of exactly one selected period (1024/16/64/256 clocks =
`2 * timer_clock_mask`), from every divider phase and every TIMA/TMA, while enabled, the batch performs
exactly one `increment_counter`. -/
theorem one_tick_per_period (s : State) (w : Wf s) (hen : s.enabledMask ≠ 0) :
    run (2 * s.timerClockMask) s =
      ({ (incrementCounter s).1 with cycleCount := (s.cycleCount + 2 * s.timerClockMask) % 65536 },
       (incrementCounter s).2) :=
  run_period s w hen

example : let s := (exec [.run 12000, .tac 6, .run 345] init).1
    Wf s ∧ s.enabledMask ≠ 0 ∧ 2 * s.timerClockMask = 64 := by decide +kernel

/-- the same on the spec machine -/
theorem one_tick_per_period_spec (h : Hw) (hen : enabled h.tac = true) :
    TimerSpec.clocks (period h.tac) h =
      ({ (tickTima h).1 with elapsed := h.elapsed + period h.tac }, (tickTima h).2) :=
  spec_one_tick_per_period h hen

/-- while TAC bit 2 is clear nothing ticks: only the divider advances, no request -/
theorem disabled_no_tick (n : Nat) (s : State) (w : Wf s) (hd : s.enabledMask = 0) :
    run n s = ({ s with cycleCount := (s.cycleCount + n) % 65536 }, false) :=
  run_disabled n s w hd

example : let s := (exec [.tac 3, .run 77] init).1
    Wf s ∧ s.enabledMask = 0 := by decide +kernel

/-! ### overflow -/

/-- a clock requests the timer interrupt exactly when it is a falling edge of the selected signal with
TIMA = 0xFF; TIMA then holds TMA -/
theorem irq_iff_overflow_tick (s : State) (h : Hw) (r : Refines s h) :
    (run 1 s).2 = (signal h && !signal { h with elapsed := h.elapsed + 1 } && h.tima == 255) ∧
    ((run 1 s).2 = true → (run 1 s).1.counter = s.modulo) := by
  have rr := refines_run 1 r
  have hs : TimerSpec.clocks 1 h = ((TimerSpec.clock h).1, (TimerSpec.clock h).2 || false) := rfl
  rw [hs] at rr
  have hflag : (TimerSpec.clock h).2 =
      (signal h && !signal { h with elapsed := h.elapsed + 1 } && h.tima == 255) := by
    rw [spec_clock_eq]
    split
    · rename_i hc; rw [hc]; unfold tickTima; split <;> simp_all
    · rename_i hc; simp [hc]
  refine ⟨by rw [rr.2, Bool.or_false, hflag], ?_⟩
  intro ht
  rw [rr.2, Bool.or_false] at ht
  rw [rr.1.2.2.1, r.2.2.2.1]
  show (TimerSpec.clock h).1.tima = h.tma
  rw [hflag] at ht
  simp only [Bool.and_eq_true, beq_iff_eq] at ht
  rw [spec_clock_eq, if_pos (by simp [ht.1.1, ht.1.2])]
  unfold tickTima
  simp [ht.2]

/-- Overflow (model): with TIMA = 0xFF, a window of one period from any phase reloads TIMA from TMA and
returns the timer flag; and the flag is raised in exactly one clock of the window — wherever the window is
cut into two batches, exactly one of them returns it. -/
theorem overflow_reload_once (s : State) (w : Wf s) (hen : s.enabledMask ≠ 0) (hc : s.counter = 255) :
    run (2 * s.timerClockMask) s =
      ({ s with counter := s.modulo, cycleCount := (s.cycleCount + 2 * s.timerClockMask) % 65536 }, true) ∧
    ∀ a b, a + b = 2 * s.timerClockMask → ((run a s).2 != (run b (run a s).1).2) = true := by
  refine ⟨?_, fun a b hab => run_overflow_once s w hen hc a b hab⟩
  rw [run_period s w hen]
  unfold incrementCounter
  simp [hc]

example : let s := (exec [.tma 200, .tac 5, .run 5, .tima 255] init).1
    Wf s ∧ s.enabledMask ≠ 0 ∧ s.counter = 255 := by decide +kernel

/-- the same on the spec machine -/
theorem overflow_reload_once_spec (h : Hw) (hen : enabled h.tac = true) (ht : h.tima = 255) :
    TimerSpec.clocks (period h.tac) h = ({ h with tima := h.tma, elapsed := h.elapsed + period h.tac }, true) ∧
    ∀ a b, a + b = period h.tac →
      ((TimerSpec.clocks a h).2 != (TimerSpec.clocks b (TimerSpec.clocks a h).1).2) = true :=
  ⟨spec_overflow_reload h hen ht, fun a b hab => spec_overflow_once h hen ht a b hab⟩

/-! ### TAC write -/

/-- A TAC write ticks TIMA exactly when it turns `selected bit ∧ enable` from 1 to 0 (deselecting a high
bit, or disabling while the bit is high); otherwise it only stores the new control value and masks. -/
theorem tac_glitch (s : State) (w : Wf s) (v : Nat) :
    setTimerControl s v =
      if (signal (abs s) && !signal { abs s with tac := v % 256 }) = true
      then incrementCounter (withTac s v) else (withTac s v, false) := by
  have r := refines_abs s w
  have m := masked_eq_signal r
  have m' := masked_eq_signal (refines_tac r v)
  have m'' : ((withTac s v).cycleCount &&& (withTac s v).timerClockMask &&& (withTac s v).enabledMask == 0) =
      !signal { abs s with tac := v % 256 } := by
    rw [← m', bne, Bool.not_not]
  rw [setTimerControl_eq]
  simp only [m, m'']
  cases signal (abs s) <;> cases signal { abs s with tac := v % 256 } <;> rfl

/-- `set_timer_control` is the spec's TAC write -/
theorem tac_write_eq_spec (s : State) (h : Hw) (r : Refines s h) (v : Nat) :
    Refines (setTimerControl s v).1 (writeTac h v).1 ∧ (setTimerControl s v).2 = (writeTac h v).2 :=
  refines_setTimerControl r v

/-- non-vacuity: enabled at 16 clocks/tick with divider bit 3 high; writing TAC = 6 (bit 5, low) ticks TIMA;
writing TAC = 1 (disable) ticks TIMA; with TIMA = 0xFF the glitch reloads and requests the interrupt -/
example : let s := (exec [.tac 5, .run 8] init).1
    Wf s ∧ signal (abs s) = true ∧ (setTimerControl s 6).1.counter = 1 ∧ (setTimerControl s 1).1.counter = 1 ∧
    setTimerControl (setModulo (setCounter s 255) 9) 0 = (⟨8, 9, 9, 0, 512, 0⟩, true) := by decide +kernel

/-! ### the executable forms of the spec used by the replay driver are the spec -/

/-- the accumulator-passing clock loop is `clocks` -/
theorem clocksAcc_eq (n : Nat) (h : Hw) (f : Bool) :
    TimerSpec.clocksAcc n h f = ((TimerSpec.clocks n h).1, f || (TimerSpec.clocks n h).2) :=
  spec_clocksAcc_eq n h f

/-- the closed form the driver uses for long batches is `clocks`, for every state and length -/
theorem clocksFast_eq (n : Nat) (h : Hw) : TimerSpec.clocksFast n h = TimerSpec.clocks n h :=
  spec_clocksFast_eq n h

end GbVerif.C13
