import GbVerif.Model.Header
import GbVerif.Spec.Header
import GbVerif.Proofs.Header
/-!
C19 — ROM validation.  A file is accepted only with a matching header checksum; accepted files get the ROM size,
RAM size and controller of the cartridge-header standard; too short / corrupt / truncated / unsupported files are
rejected at load time, so that no ROM index the bus can form lies outside the mapping or the file.
Property theorems only (lemmas in `Proofs/Header.lean`; tables in `Gen/HeaderTables.lean`, regenerated from cart.rs).
-/
namespace GbVerif.C19
open GbVerif.Header GbVerif.Gen.HeaderTables GbVerif.HeaderSpec GbVerif.HeaderProofs

/-- `valid_checksum` holds exactly when the 25 bytes at header offsets 0x34..0x4C (file 0x134..0x14C), each plus
one, and the checksum byte add up to 0 modulo 256 — for every header content (fold lemma, no enumeration). -/
theorem checksum_spec (h : Header) (hc : h.byte 0x4d < 256) :
    validChecksum h = true ↔
      (((List.range' 0x34 25).map (fun i => h.byte i + 1)).sum + h.byte 0x4d) % 256 = 0 := by
  have e : List.range' checksumLo (checksumHi - checksumLo) = List.range' 0x34 25 := by decide
  have o : offChecksum = 0x4d := rfl
  obtain ⟨h1, h2⟩ := checkLoop_sum h (List.range' 0x34 25) 0 (by omega)
  simp only [validChecksum, checkValue, e, o, beq_iff_eq]
  constructor <;> intro hh <;> omega

/-- the model's checksum test on the header read from a file is the standard's test on that file
(`x = 0; for i in 0x134..=0x14C: x = x - rom[i] - 1; x == rom[0x14D]`) -/
theorem checksum_file_spec (f : RomFile) : validChecksum (headerOf f) = checksumOk f.byte := by
  have e : (List.range' checksumLo (checksumHi - checksumLo)).map (headerFileOffset + ·)
      = List.range' 0x134 (0x14C + 1 - 0x134) := by decide
  simp only [validChecksum, checkValue, checkLoop_shift, e, checksumOk, headerChecksum]
  rfl

/-- The regenerated tables are the cartridge-header standard, for all 256 codes: a ROM-size code of the standard
gives its bank count and `banks * 16 KiB` bytes, a RAM-size code its byte count, and a type byte the code accepts
names an implemented controller of the standard, with the matching cartridge state.  Codes outside the standard
get the smallest cartridge (2 banks, no RAM). -/
theorem sizes_spec (code : Nat) (h : code < 256) :
    (∀ n, romBanks? code = some n → romBanks code = n ∧ romBytes? code = some (romBanks code * romBankBytes)) ∧
    (romBanks? code = none → romBanks code = 2) ∧
    (∀ n, HeaderSpec.ramBytes? code = some n → ramBytes code = n) ∧
    (HeaderSpec.ramBytes? code = none → ramBytes code = 0) ∧
    (∀ k, cartKind code = some k → ∃ c, controller? code = some c ∧ implemented c = true ∧ kindCode c = k) := by
  have t := tablesOk_all code h
  simp only [tablesOk, Bool.and_eq_true] at t
  obtain ⟨⟨t1, t2⟩, t3⟩ := t
  refine ⟨?_, ?_, ?_, ?_, ?_⟩
  · intro n hn; rw [hn] at t1; simpa using t1
  · intro hn; rw [hn] at t1; simp at t1; exact t1.1
  · intro n hn; rw [hn] at t2; simpa using t2
  · intro hn; rw [hn] at t2; simpa using t2
  · intro k hk; rw [hk] at t3
    cases hc : controller? code with
    | none => rw [hc] at t3; cases t3
    | some c => rw [hc] at t3; simp at t3; exact ⟨c, rfl, t3.1, t3.2⟩

/-- Everything the property says must be rejected is rejected by `load_rom`: a file too short for a header, a
wrong header checksum, an unsupported cartridge type, a file smaller than its declared ROM size. -/
theorem reject_spec (f : RomFile) (h : mustReject f.byte f.len = true) : ∀ cfg, loadRom f ≠ .accepted cfg := by
  intro cfg hacc
  unfold loadRom at hacc
  simp only [] at hacc
  repeat' split at hacc
  all_goals try (cases hacc; done)
  rename_i hopen hseek hlen hchk hsize _ k hk
  simp only [mustReject, Bool.or_eq_true, decide_eq_true_eq, Bool.not_eq_true'] at h
  have hoff : headerFileOffset + headerSize = headerEnd := by decide
  rcases h with ((h | h) | h) | h
  · omega
  · rw [← checksum_file_spec] at h; simp [h] at hchk
  · have := cartKind_supported _ _ hk
    have e : (headerOf f).byte offCartType = f.byte 0x147 := rfl
    rw [e, h] at this; cases this
  · have e : (headerOf f).byte offRomSize = f.byte 0x148 := rfl
    cases hb : romBytes? (f.byte 0x148) with
    | none => rw [hb] at h; simp at h
    | some n =>
      rw [hb] at h
      have := romBytes_eq _ _ hb
      simp only [decide_eq_true_eq] at h
      simp only [romSizeBytes, romBankCount, e] at hsize
      omega

/-- What acceptance implies: the file opened, holds a whole header with a matching checksum, the configuration is
read off the regenerated tables, and the mapping is not longer than the file. -/
theorem accepted_spec (f : RomFile) (cfg : Config) (h : loadRom f = .accepted cfg) :
    f.opens = true ∧ headerEnd ≤ f.len ∧ checksumOk f.byte = true ∧
    cartKind (f.byte 0x147) = some cfg.kind ∧ cfg.romBanks = romBanks (f.byte 0x148) ∧
    cfg.mappedLen = cfg.romBanks * 0x4000 ∧ cfg.ramBytes = ramBytes (f.byte 0x149) ∧ cfg.mappedLen ≤ f.len := by
  unfold loadRom at h
  simp only [] at h
  repeat' split at h
  all_goals try (cases h; done)
  rename_i hopen hseek hlen hchk hsize _ k hk
  have hoff : headerFileOffset + headerSize = headerEnd := by decide
  injection h with h
  subst h
  rw [checksum_file_spec] at hchk
  refine ⟨by simpa using hopen, by omega, by simpa using hchk, hk, rfl, rfl, rfl, ?_⟩
  simp only [romSizeBytes] at hsize ⊢
  omega

/-- Accepted files get the standard's sizes and controller (header bytes are bytes). -/
theorem accepted_tables (f : RomFile) (cfg : Config) (h : loadRom f = .accepted cfg)
    (hb : ∀ i, f.byte i < 256) :
    (∀ n, romBanks? (f.byte 0x148) = some n → cfg.romBanks = n ∧ romBytes? (f.byte 0x148) = some cfg.mappedLen) ∧
    (∀ n, HeaderSpec.ramBytes? (f.byte 0x149) = some n → cfg.ramBytes = n) ∧
    (∃ c, controller? (f.byte 0x147) = some c ∧ implemented c = true ∧ kindCode c = cfg.kind) := by
  obtain ⟨_, _, _, hk, hr, hm, hram, _⟩ := accepted_spec f cfg h
  have s1 := sizes_spec _ (hb 0x148)
  have s2 := sizes_spec _ (hb 0x149)
  have s3 := sizes_spec _ (hb 0x147)
  refine ⟨?_, ?_, s3.2.2.2.2 _ hk⟩
  · intro n hn
    obtain ⟨a, b⟩ := s1.1 n hn
    refine ⟨by omega, ?_⟩
    rw [b, hm, hr]; rfl
  · intro n hn; rw [hram]; exact s2.2.2.1 n hn

/-- Accepted ⇒ the mapping fits in the file and every ROM index `memory_read_byte` can form for a CPU address
below 0x8000 and a bank below the declared bank count lies inside the mapping: no access beyond the file. -/
theorem accepted_safe (f : RomFile) (cfg : Config) (h : loadRom f = .accepted cfg) :
    cfg.mappedLen ≤ f.len ∧
    ∀ bank addr, bank < cfg.romBanks → addr < 0x8000 → busRomIndex bank addr < cfg.mappedLen := by
  obtain ⟨_, _, _, _, hr, hm, _, hle⟩ := accepted_spec f cfg h
  refine ⟨hle, ?_⟩
  intro bank addr hb ha
  have h2 := romBanks_pos (f.byte 0x148)
  unfold busRomIndex
  split
  · omega
  · have : addr &&& 0x3fff ≤ 0x3fff := Nat.and_le_right
    omega

/-- Conversely the loader is not vacuous: a file that opens, holds a header with a matching checksum and a type
the code supports, and is at least as long as its declared ROM size, is accepted with the table configuration. -/
theorem accept_complete (f : RomFile) (k : Nat) (ho : f.opens = true) (hl : headerEnd ≤ f.len)
    (hc : checksumOk f.byte = true) (hk : cartKind (f.byte 0x147) = some k)
    (hs : romBanks (f.byte 0x148) * 0x4000 ≤ f.len) :
    loadRom f = .accepted ⟨k, romBanks (f.byte 0x148), romBanks (f.byte 0x148) * 0x4000, ramBytes (f.byte 0x149)⟩ := by
  have hoff : headerFileOffset + headerSize = headerEnd := by decide
  have e1 : cartState (headerOf f) = some k := hk
  have e2 : ¬ f.len < headerFileOffset + headerSize := by omega
  have e3 : ¬ f.len < romSizeBytes (headerOf f) := by
    have : romSizeBytes (headerOf f) = romBanks (f.byte 0x148) * 0x4000 := rfl
    omega
  rw [← checksum_file_spec] at hc
  unfold loadRom
  simp only [ho, hc, e1, e2, e3, seekPos]
  rfl


/-! ### the title printed at load time

A file's eleven title bytes are arbitrary.  `get_title` (since /repo 7171639: `from_utf8_lossy`, trailing NULs trimmed)
is a total function of them — no title can make the load fail — and `title_bytes` / `title_ascii` say what it yields. -/

/-- the title bytes of a header -/
def titleField (h : Header) : List Nat := (List.range 11).map fun i => h.byte (0x34 + i)

/-- an ASCII title is shown as it is in the file, trailing NULs dropped -/
theorem title_ascii (h : Header) (ha : ∀ i, i < 11 → h.byte (0x34 + i) < 0x80) : titleText h = trimNul (titleField h) := by
  unfold titleText
  rw [utf8Lossy_ascii]
  · rfl
  · intro b hb
    obtain ⟨i, hi, e⟩ := List.mem_map.mp hb
    rw [← e]; exact ha i (List.mem_range.mp hi)

/-- whatever the title bytes are, every byte of the text `get_title` returns is one of the eleven title bytes or a byte
of U+FFFD — nothing else of the header or of memory gets into the Loading line -/
theorem title_bytes (h : Header) : ∀ x ∈ titleText h, x ∈ titleField h ∨ x ∈ [0xef, 0xbf, 0xbd] := by
  intro x hx
  exact lossyAux_bytes _ _ x (mem_trimNul hx)

/-- non-vacuity: a lone continuation byte, a cut-off three-byte sequence and a UTF-16 surrogate become U+FFFD; "É" stays -/
example : utf8Lossy [0x80] = [0xef, 0xbf, 0xbd] ∧ utf8Lossy [0x41, 0xc3, 0x89, 0x42] = [0x41, 0xc3, 0x89, 0x42] ∧
    utf8Lossy [0xe2, 0x82] = [0xef, 0xbf, 0xbd] ∧
    utf8Lossy [0xed, 0xa0, 0x80] = [0xef, 0xbf, 0xbd, 0xef, 0xbf, 0xbd, 0xef, 0xbf, 0xbd] := by decide

/-! ### non-vacuity: concrete files -/

/-- 64 KiB MBC1 image: type 0x01, ROM code 0x01, all other header bytes 0, checksum 0xE5 -/
def exFile (len : Nat) : RomFile :=
  ⟨true, len, fun i => if i = 0x147 then 1 else if i = 0x148 then 1 else if i = 0x14D then 0xE5 else 0⟩

example : loadRom (exFile 0x10000) = .accepted ⟨1, 4, 0x10000, 0⟩ := by decide +kernel
example : validChecksum (headerOf (exFile 0x10000)) = true ∧ (headerOf (exFile 0x10000)).byte 0x4d < 256 := by decide +kernel
-- one byte short of the declared 64 KiB: must be rejected, and is
example : mustReject (exFile 0xFFFF).byte 0xFFFF = true ∧ loadRom (exFile 0xFFFF) = .rejectedMsg .truncated := by decide +kernel
-- header cut off
example : mustReject (exFile 0x14F).byte 0x14F = true ∧ loadRom (exFile 0x14F) = .rejectedMsg .unableToReadHeader := by decide +kernel
-- wrong checksum byte
example : loadRom ⟨true, 0x10000, fun i => if i = 0x147 then 1 else if i = 0x148 then 1 else 0⟩ = .rejectedMsg .corrupt := by
  decide +kernel
-- MBC5 (0x19): valid checksum (0xCD), unsupported ⇒ controlled termination
example : loadRom ⟨true, 0x10000, fun i => if i = 0x147 then 0x19 else if i = 0x148 then 1 else if i = 0x14D then 0xCD else 0⟩
    = .panic := by decide +kernel
-- the hypotheses of `accept_complete` and the byte bound of `accepted_tables` are met by that file
example : (exFile 0x10000).opens = true ∧ headerEnd ≤ (exFile 0x10000).len ∧ checksumOk (exFile 0x10000).byte = true ∧
    cartKind ((exFile 0x10000).byte 0x147) = some 1 ∧ romBanks ((exFile 0x10000).byte 0x148) * 0x4000 ≤ (exFile 0x10000).len := by
  decide +kernel
example : ∀ i, (exFile 0x10000).byte i < 256 := by
  intro i; simp only [exFile]; repeat' split
  all_goals omega
-- unsupported type with a valid checksum: the spec demands rejection
example : mustReject (fun i => if i = 0x147 then 0x19 else if i = 0x148 then 1 else if i = 0x14D then 0xCD else 0) 0x10000 = true := by
  decide +kernel
-- the last byte of the last declared bank is inside the mapping and the file
example : busRomIndex 3 0x7fff = 0xffff := by decide +kernel
example : romBanks? 0x54 = some 96 ∧ romBanks 0x54 = 96 ∧ HeaderSpec.ramBytes? 4 = some 131072 ∧ cartKind 0x13 = some 3 := by decide +kernel

end GbVerif.C19
