import GbVerif.Model.Core
/-!
C04 — enabling the recompiler does not change what a guest program computes.
`Core::run_code_block` is one function with the execution engine as its only build-dependent part: the status
interpretation, cycle consumption, device catch-up and interrupt dispatch are literally shared.  The theorem is
therefore a congruence: if the two engines agree on every block (C01 ∧ C02 ∧ C03 on the blocks the recompiler handles,
identity elsewhere), the two machines agree after every number of steps.
-/
namespace GbVerif.C04
open GbVerif.Core GbVerif.Interp

/-- a block engine: registers and bus before ↦ registers, bus and status after (or a panic) -/
abbrev Engine := Regs → Bus.State → Except Bus.Panic (Regs × Bus.State × Nat)

/-- `Core::run_code_block` with the engine as a parameter (the interpreter instance is `Core.runCodeBlockInterp`) -/
def runCodeBlockWith (eng : Engine) (dev : Dev) (c : State) : Except Bus.Panic State := do
  let (r, b, status) ← eng c.regs c.bus
  let charged := c.charged + (r.cycles - c.regs.cycles)
  let c := { c with regs := r, bus := b, charged := charged }
  let c :=
    if status == STATUS_STOP then { c with run := .Stop }
    else if status == STATUS_HALT then { c with run := .Halt }
    else if status == STATUS_INTERRUPT_DISABLE then { c with ime := .Disabled }
    else if status == STATUS_INTERRUPT_ENABLE || status == STATUS_INTERRUPT_ENABLE_IMMEDIATE then { c with ime := .Enabled }
    else c
  catchUp dev c true

theorem interp_instance (dev : Dev) (c : State) :
    runCodeBlockWith (fun r b => Cpu.runCodeBlock r b 65536) dev c = runCodeBlockInterp dev c := rfl

/-- n steps of the block-stepped machine -/
def steps (eng : Engine) (dev : Dev) : Nat → State → Except Bus.Panic State
  | 0, c => .ok c
  | n+1, c => do let c' ← runCodeBlockWith eng dev c; steps eng dev n c'

/-- statuses are read only through their class: engines that agree up to the class of the status byte
(RETI: 4 from translated code, 5 from the interpreter) give the same step -/
def sameClass (a b : Nat) : Prop :=
  (a == STATUS_STOP) = (b == STATUS_STOP) ∧ (a == STATUS_HALT) = (b == STATUS_HALT) ∧
  (a == STATUS_INTERRUPT_DISABLE) = (b == STATUS_INTERRUPT_DISABLE) ∧
  ((a == STATUS_INTERRUPT_ENABLE || a == STATUS_INTERRUPT_ENABLE_IMMEDIATE) = (b == STATUS_INTERRUPT_ENABLE || b == STATUS_INTERRUPT_ENABLE_IMMEDIATE))

/-- **engine independence**: engines that agree on every block produce the same machine after every number of steps,
for every device behaviour -/
theorem engine_indep (e1 e2 : Engine) (h : ∀ r b, e1 r b = e2 r b) (dev : Dev) :
    ∀ n c, steps e1 dev n c = steps e2 dev n c := by
  intro n
  induction n with
  | zero => intro c; rfl
  | succ n ih =>
    intro c
    simp only [steps, runCodeBlockWith, h, ih]

/-- the same with agreement only up to the status class -/
theorem step_status_class (e1 e2 : Engine) (dev : Dev) (c : State) (r : Regs) (b : Bus.State) (s1 s2 : Nat)
    (h1 : e1 c.regs c.bus = .ok (r, b, s1)) (h2 : e2 c.regs c.bus = .ok (r, b, s2)) (hs : sameClass s1 s2) :
    runCodeBlockWith e1 dev c = runCodeBlockWith e2 dev c := by
  obtain ⟨ha, hb, hc, hd⟩ := hs
  simp only [runCodeBlockWith, h1, h2, bind, Except.bind, ha, hb, hc, hd]

/-- non-vacuity: the RETI statuses of the two engines are in the same class -/
example : sameClass STATUS_INTERRUPT_ENABLE STATUS_INTERRUPT_ENABLE_IMMEDIATE := by
  refine ⟨?_, ?_, ?_, ?_⟩ <;> decide

end GbVerif.C04
