import GbVerif.Model.Cpu
import GbVerif.Spec.SM83
import GbVerif.Proofs.Enum
import GbVerif.Proofs.Sm83Main
/-!
C05 — interpreter data semantics match the SM83 instruction set for all operands.

The interpreter model (`Model/Interp.lean`, mirror of `run_op`) is proved to refine the independent SM83
specification (`Spec/SM83.lean`) for every defined encoding (245 unprefixed + 256 CB-prefixed), every operand
byte, every register/flag value and every bus behaviour.  `abs` maps the interpreter's AF/BC/DE/HL/SP/IP fields
to A F B C D E H L SP PC; `WF` says every pair is a 16-bit value and the low nibble of F is zero (`C05.WF`,
`C05.abs` are defined in `Proofs/Sm83Abs.lean`).  The only hypothesis on the bus is that reads return bytes.
-/
namespace GbVerif.C05
open GbVerif.Enum GbVerif.Interp
open GbVerif.SM83 (Cpu mkF flagC)

/-- DAA: for every accumulator value and every flag nibble the interpreter's `interp_daa` produces the SM83
decimal-adjust result and flags (4096 cases enumerated by the kernel) -/
theorem daa_spec : ∀ n, n < 2^12 →
    let af := (n / 16) * 256 + (n % 16) * 16
    (daa { af := af }).af = (SM83.daa (af / 256) (af % 256)).1 * 256 + (SM83.daa (af / 256) (af % 256)).2 :=
  daa_enum

/-- the eight accumulator operations (ADD ADC SUB SBC AND XOR OR CP), for every accumulator, operand byte and flag
value: result and Z/N/H/C equal the SM83 `alu[y]` definition, and the register file stays well-formed -/
theorem alu_spec (r : Regs) (hr : WF r) (y v : Nat) (hv : v < 256) :
    abs (aluModel y r v) = SM83.alu (abs r) y v ∧ WF (aluModel y r v) := by
  have h := aluModel_conc (cwf_abs hr) r.cycles y v hv
  rw [conc_abs hr] at h
  have w := cwf_alu (cwf_abs hr) y v hv
  rw [h]; exact ⟨abs_conc w _, wf_conc w _⟩

example : WF { af := 0x3A10, bc := 0xC6FF, de := 1, hl := 0xFFFF, sp := 0xFFFE, ip := 0x0150 } := by unfold WF; decide
example : abs (aluModel 1 { af := 0x3A10, bc := 0xC6FF } 0xC6) = { a := 0x01, f := 0x30, b := 0xC6, c := 0xFF } := by decide

/-- the eight rotate/shift/swap primitives (RLC RRC RL RR SLA SRA SWAP SRL), for every byte and carry-in: result
and flags equal the SM83 `rot[y]` definition -/
theorem rot_spec (r : Regs) (hr : WF r) (y v : Nat) (hy : y < 8) (hv : v < 256) :
    ((rotModel y v r.af).1, mkF (decide ((rotModel y v r.af).1 = 0)) false false (rotModel y v r.af).2) =
      SM83.rot (abs r).f y v := by
  have h := rotModel_conc (cwf_abs hr) r.cycles y v hy hv
  rw [conc_abs hr] at h
  rw [h, rot_eq]

example : rotModel 2 0x80 0x0010 = (0x01, true) := by decide

/-- 16-bit add (ADD HL,rp): result modulo 65536, carry out of bit 15, half-carry out of bit 11 -/
theorem add16_spec (a b : Nat) :
    carryAdd16 a b = ((a + b) % 65536, decide (a + b ≥ 65536), decide (a % 4096 + b % 4096 ≥ 4096)) :=
  carryAdd16_eq a b

/-- SP + signed 8-bit offset (ADD SP,e / LD HL,SP+e): the 16-bit result is the SM83 sign-extended sum and the
carry / half-carry are those of the unsigned low-byte addition, for every SP and every offset byte -/
theorem sp_offset_spec (sp e : Nat) (he : e < 256) :
    addSigned sp e = ((SM83.spPlus sp e).1, decide (sp % 256 + e ≥ 256), decide (sp % 16 + e % 16 ≥ 16)) :=
  addSigned_eq sp e he

example : addSigned 0x0001 0xFF = (0x0000, true, true) := by decide

/-- POP AF: the low nibble of F is masked off, every other bit of the popped word is kept -/
theorem pop_af_masks_f (v : Nat) (c : Cpu) (k : Nat) (hv : v < 65536) (hc : CWF c) :
    setReg16 (conc c k) .AF (if Reg16.AF == Reg16.AF then v &&& 0xfff0 else v) =
      conc { c with a := v / 256, f := v % 256 / 16 * 16 } k ∧ CWF { c with a := v / 256, f := v % 256 / 16 * 16 } :=
  pop_af v c k hv hc

/-- **C05/C06 main theorem (spec ⟶ model).**  For any bus whose reads return bytes, any defined opcode `b0` with
any operand bytes `b1 b2`, and any well-formed register file `r`: if the SM83 instruction yields state `c`, memory
`m₁`, `cyc` machine cycles and outcome `out`, then the interpreter step (`decode`; `run_op`; PC mask; base clocks)
yields registers `r'` with `abs r' = c` (A, F incl. Z/N/H/C, B…L, SP, PC), the same memory, status `statusOf out`,
a well-formed `r'` and exactly `cyc` more cycles; a bus panic of the SM83 instruction is the interpreter's panic. -/
theorem step_refines_spec {β : Type} (B : BusOps β) (M : SM83.Mem β) (hR : M.read = B.read) (hW : M.write = B.write)
    (hB : ByteBus B) (b0 b1 b2 : Nat) (h0 : b0 < 256) (h1 : b1 < 256) (h2 : b2 < 256)
    (hu : ¬ SM83.isUndefined b0 = true) (r : Regs) (hr : WF r) (m : β) :
    (∀ c m₁ cyc out, SM83.step M (abs r) m b0 b1 b2 = .ok (c, m₁, cyc, out) →
      ∃ r', stepModel B b0 b1 b2 r m = .ok (r', m₁, statusOf out) ∧ abs r' = c ∧ WF r' ∧ r'.cycles = r.cycles + cyc) ∧
    (∀ e, SM83.step M (abs r) m b0 b1 b2 = .error e → stepModel B b0 b1 b2 r m = .error e) :=
  step_refines B M hR hW hB b0 b1 b2 h0 h1 h2 hu r hr m

/-- **Main theorem (model ⟶ spec).**  Whenever the interpreter step succeeds, the SM83 instruction run from the
abstracted registers succeeds with exactly the abstraction of the interpreter's new registers, the same memory,
status and cycle count. -/
theorem step_refines_impl {β : Type} (B : BusOps β) (M : SM83.Mem β) (hR : M.read = B.read) (hW : M.write = B.write)
    (hB : ByteBus B) (b0 b1 b2 : Nat) (h0 : b0 < 256) (h1 : b1 < 256) (h2 : b2 < 256)
    (hu : ¬ SM83.isUndefined b0 = true) (r : Regs) (hr : WF r) (m : β) (r' : Regs) (m' : β) (st : Nat)
    (hm : stepModel B b0 b1 b2 r m = .ok (r', m', st)) :
    ∃ cyc out, SM83.step M (abs r) m b0 b1 b2 = .ok (abs r', m', cyc, out) ∧ st = statusOf out ∧ WF r' ∧
      r'.cycles = r.cycles + cyc :=
  step_refines_model B M hR hW hB b0 b1 b2 h0 h1 h2 hu r hr m r' m' st hm

/-- register pairs always hold values in 0..65535 (and F keeps a zero low nibble): well-formedness is preserved
by every defined instruction -/
theorem regs_wf {β : Type} (B : BusOps β) (hB : ByteBus B) (b0 b1 b2 : Nat) (h0 : b0 < 256) (h1 : b1 < 256) (h2 : b2 < 256)
    (hu : ¬ SM83.isUndefined b0 = true) (r : Regs) (hr : WF r) (m : β) (r' : Regs) (m' : β) (st : Nat)
    (hm : stepModel B b0 b1 b2 r m = .ok (r', m', st)) : WF r' := by
  obtain ⟨_, _, _, _, w, _⟩ := step_refines_model B (memOf B) rfl rfl hB b0 b1 b2 h0 h1 h2 hu r hr m r' m' st hm
  exact w

/-- `Cpu.runNextOp` (the model tied to the real `run_next_op`) is the fetch followed by `stepModel` on the real bus -/
theorem run_next_op_is_step (r : Regs) (s : Bus.State) :
    Cpu.runNextOp r s =
      (Cpu.fetch3 s r.ip).bind fun b =>
        (stepModel Cpu.busOps b.1 b.2.1 b.2.2 r s).map fun x =>
          (x.1, x.2.1, x.2.2, Gen.isBlockEnd (Gen.decode b.1 b.2.1 b.2.2).1) :=
  runNextOp_eq r s

/-! ### a concrete instance of the hypotheses: the total byte memory `toyBus` of `Proofs/Sm83Main.lean` as the bus -/

/-- SBC A,(HL) with A = 0x10, carry set, (HL) = 0x0F: the interpreter gives A = 0x00, F = Z N H (0xE0), PC + 1, 2 cycles,
and this is what the theorem predicts from the SM83 instruction -/
example :
    (stepModel toyBus 0x9E 0 0 { af := 0x1010, hl := 0xC000, sp := 0xFFFE, ip := 0xFFFF, cycles := 7 } (fun _ => 0x0F)).map
      (fun x => (x.1, x.2.2)) = .ok ({ af := 0x00E0, hl := 0xC000, sp := 0xFFFE, ip := 0x0000, cycles := 9 }, 0) := by
  rfl

example : ∃ r', stepModel toyBus 0x9E 0 0 { af := 0x1010, hl := 0xC000, sp := 0xFFFE, ip := 0xFFFF, cycles := 7 } (fun _ => 0x0F) =
    .ok (r', fun _ => 0x0F, 0) ∧ WF r' ∧ r'.cycles = 7 + 2 := by
  have h := (step_refines_spec toyBus (memOf toyBus) rfl rfl toyBus_bytes 0x9E 0 0 (by decide) (by decide) (by decide)
    (by decide) { af := 0x1010, hl := 0xC000, sp := 0xFFFE, ip := 0xFFFF, cycles := 7 } (by unfold WF; decide) (fun _ => 0x0F)).1
    _ _ 2 .normal rfl
  obtain ⟨r', e, _, w, c⟩ := h
  exact ⟨r', e, w, c⟩

end GbVerif.C05
