import GbVerif.Model.Cpu
import GbVerif.Spec.SM83
import GbVerif.Proofs.Enum
/-!
C05 — interpreter data semantics match the SM83 instruction set for all operands.
-/
namespace GbVerif.C05
open GbVerif.Enum GbVerif.Interp

/-- well-formed register file: every pair is a 16-bit value and the low nibble of F is zero -/
def WF (r : Regs) : Prop :=
  r.af < 65536 ∧ r.af % 16 = 0 ∧ r.bc < 65536 ∧ r.de < 65536 ∧ r.hl < 65536 ∧ r.sp < 65536 ∧ r.ip < 65536

/-- DAA: for every accumulator value and every flag nibble the interpreter's `interp_daa` produces the SM83
decimal-adjust result and flags (4096 cases enumerated by the kernel) -/
theorem daa_spec : ∀ n, n < 2^12 →
    let af := (n / 16) * 256 + (n % 16) * 16
    (daa { af := af }).af = (SM83.daa (af / 256) (af % 256)).1 * 256 + (SM83.daa (af / 256) (af % 256)).2 := by
  intro n hn
  have := forall_lt_of_allRange (fun n =>
    let af := (n / 16) * 256 + (n % 16) * 16
    (daa { af := af }).af == (SM83.daa (af / 256) (af % 256)).1 * 256 + (SM83.daa (af / 256) (af % 256)).2) 12 (by decide +kernel) n hn
  simpa using this

end GbVerif.C05
