import GbVerif.Proofs.BusDma
import GbVerif.Proofs.SysBatch
/-!
C16 — OAM DMA copies exactly 160 bytes, one per machine cycle.

Over the bus model (`Model/Bus.lean`: `write` at 0xFF46, `dmaCopyByte`, `dmaLoop`, `runDma` mirror
`memory_write_byte` and the copy loop of `MemoryAreas::run_clock_cycles`).  A catch-up batch of `c` clocks performs
`min (160 - progress) (c / 4)` copy steps; each step reads one source byte through `Bus.read` — the normal memory
map in the state *at that step* — and stores it with `Bus.write` at 0xFE00+offset.
Lemmas: `Proofs/BusDma.lean` (on top of `Proofs/BusBasic.lean`, `Proofs/BusWf.lean`).
-/
namespace GbVerif.C16
open GbVerif.Bus GbVerif.BusProofs

/-- number of bytes copied so far: the offset of an active transfer, 160 when it is finished (or none was started) -/
def progress (s : State) : Nat := match s.dma with
  | some (_, off) => off
  | none => 160

/-- the DMA state the guest can produce: a page-aligned 16-bit source and fewer than 160 bytes done -/
def DmaOk (s : State) : Prop := ∀ src off, s.dma = some (src, off) → off < 160 ∧ ∃ page, page < 256 ∧ src = page * 256

/-- a write to 0xFF46 (re)starts the transfer at offset 0 from page `v`, whatever the progress was; nothing else
changes except the register's read-back value -/
theorem dma_restart (s : State) (v : Nat) :
    write s 0xff46 v = .ok { s with dmaReg := v, dma := some (v * 256, 0) } := by
  rw [show v * 256 = v <<< 8 by rw [Nat.shiftLeft_eq]]; rfl

/-- every other write leaves the transfer alone (source bytes and bank registers may change under it) -/
theorem dma_survives_write {s s' : State} {a v : Nat} (wf : WF s) (ha : a < 65536) (hne : a ≠ 0xff46)
    (h : write s a v = .ok s') : s'.dma = s.dma := write_keeps_dma wf ha hne h

/-- `DmaOk` holds initially and is kept by every byte write and every batch -/
theorem dmaok_create (k : Cart.Kind) (rb mb : Nat) (rom : Nat → Nat) : DmaOk (create k rb mb rom) := by
  intro src off h; cases h

theorem dmaok_write {s s' : State} {a v : Nat} (wf : WF s) (ok : DmaOk s) (ha : a < 65536) (hv : v < 256)
    (h : write s a v = .ok s') : DmaOk s' := by
  by_cases hne : a = 0xff46
  · subst hne
    rw [dma_restart] at h; injection h with h; subst h
    intro src off hd; injection hd with hd; injection hd with h1 h2
    exact ⟨by omega, v, hv, h1.symm⟩
  · intro src off hd; rw [write_keeps_dma wf ha hne h] at hd; exact ok src off hd

/-- **one batch, in full**: from progress `off`, a batch of `c` clocks copies bytes `off … min (off + c/4) 160 - 1`:
afterwards each of these OAM bytes reads what its source address XX00+i read, through the whole memory map
(ROM banks, cartridge RAM banks, echo, I/O registers, OAM itself), in the state before the batch; every other
address of the 64 KiB space reads as before; every state component other than OAM and the DMA progress is
untouched; the transfer stays active exactly while fewer than 160 bytes are done. -/
theorem dma_batch {s : State} (wf : WF s) {page off : Nat} (hp : page < 256) (hd : s.dma = some (page * 256, off))
    (ho : off ≤ 160) (c : Nat) :
    ∃ o, o.size = 160 ∧
      runDma s c = .ok { s with oam := o, dma := if off + c / 4 < 160 then some (page * 256, off + c / 4) else none } ∧
      (∀ i, off ≤ i → i < min (off + c / 4) 160 → read { s with oam := o } (0xfe00 + i) = read s (page * 256 + i)) ∧
      (∀ a, a < 65536 → ¬ (0xfe00 + off ≤ a ∧ a < 0xfe00 + min (off + c / 4) 160) → read { s with oam := o } a = read s a) := by
  obtain ⟨o, hsz, hrun, hframe, hcopy⟩ := runDma_spec wf page off hp hd ho c
  exact ⟨o, hsz.trans wf.oam, hrun, hcopy, hframe⟩

/-- after `k` machine cycles exactly `min (off + k) 160` bytes are done, and the transfer is over iff that is 160 -/
theorem dma_progress {s : State} (wf : WF s) {page off : Nat} (hp : page < 256) (hd : s.dma = some (page * 256, off))
    (ho : off ≤ 160) (k : Nat) :
    ∃ s', runDma s (4 * k) = .ok s' ∧ progress s' = min (off + k) 160 ∧ (s'.dma = none ↔ 160 ≤ off + k) := by
  obtain ⟨o, _, hrun, _, _⟩ := dma_batch wf hp hd ho (4 * k)
  rw [show 4 * k / 4 = k by omega] at hrun
  refine ⟨_, hrun, ?_, ?_⟩
  · by_cases h : off + k < 160
    · simp only [progress, if_pos h]; omega
    · simp only [progress, if_neg h]; omega
  · show (if off + k < 160 then some (page * 256, off + k) else none) = none ↔ 160 ≤ off + k
    by_cases h : off + k < 160
    · rw [if_pos h]; exact ⟨fun h' => (by cases h'), fun h' => (by omega)⟩
    · rw [if_neg h]; exact ⟨fun _ => by omega, fun _ => rfl⟩

/-- **the whole transfer**: writing XX to 0xFF46 and letting at least 160 machine cycles pass (in one batch) leaves
OAM[i] = what XX00+i read, for all 160 bytes, ends the transfer, and changes nothing outside OAM -/
theorem dma_copies_160 {s s0 : State} (wf : WF s) {page : Nat} (hp : page < 256) (hw : write s 0xff46 page = .ok s0)
    {c : Nat} (hc : 640 ≤ c) :
    ∃ s', runDma s0 c = .ok s' ∧ s'.dma = none ∧
      (∀ i, i < 160 → read s' (0xfe00 + i) = read s0 (page * 256 + i)) ∧
      (∀ a, a < 65536 → ¬ (0xfe00 ≤ a ∧ a < 0xfea0) → read s' a = read s0 a) := by
  have wf0 := wf_write wf hw
  rw [dma_restart] at hw; injection hw with hw
  have hd : s0.dma = some (page * 256, 0) := by rw [← hw]
  obtain ⟨o, _, hrun, hcopy, hframe⟩ := dma_batch wf0 hp hd (by omega) c
  rw [if_neg (by omega)] at hrun
  refine ⟨_, hrun, rfl, ?_, ?_⟩
  · intro i hi; exact hcopy i (by omega) (by omega)
  · intro a ha hout; exact hframe a ha (by omega)

/-- **frame**: a batch changes no state component except OAM and the DMA progress — cartridge registers, VRAM,
cartridge RAM, WRAM, HRAM, IE, every I/O register and the serial output are identical, for every source page -/
theorem dma_frame {s s' : State} (wf : WF s) (ok : DmaOk s) {c : Nat} (h : runDma s c = .ok s') :
    s' = { s with oam := s'.oam, dma := s'.dma } ∧ s'.oam.size = 160 := by
  cases hd : s.dma with
  | none => rw [runDma_none hd] at h; injection h with h; subst h; exact ⟨rfl, wf.oam⟩
  | some p =>
    obtain ⟨src, off⟩ := p
    obtain ⟨ho, page, hp, rfl⟩ := ok src off hd
    obtain ⟨o, hsz, hrun, _, _⟩ := dma_batch wf hp hd (by omega) c
    rw [hrun] at h; injection h with h; subst h; exact ⟨rfl, hsz⟩

/-- a finished (or never started) transfer does nothing: OAM stays as it is until 0xFF46 is written again -/
theorem dma_idle {s : State} (h : s.dma = none) (c : Nat) : runDma s c = .ok s := runDma_none h c

/-- **batch additivity**, stated for the model function exactly: a batch of `a` clocks followed by a batch of `b`
clocks is the batch of `a + b` clocks whenever `a` is a whole number of machine cycles (the model divides by 4,
as the code does) — for every state, including results that are panics -/
theorem dma_run_add (s : State) (a b : Nat) (ha : a % 4 = 0) :
    (runDma s a >>= fun s1 => runDma s1 b) = runDma s (a + b) := runDma_add s a b ha

/-- consecutive batches -/
def runBatches (s : State) : List Nat → Except Panic State
  | [] => .ok s
  | c :: cs => runDma s c >>= fun s1 => runBatches s1 cs

/-- **batch invariance**: any split of a stretch of time into batches of whole machine cycles gives the result of
the single batch -/
theorem dma_split_invariant (s : State) (c : Nat) (cs : List Nat) (h : ∀ x ∈ c :: cs, x % 4 = 0) :
    runBatches s (c :: cs) = runDma s (c :: cs).sum := by
  induction cs generalizing s c with
  | nil =>
    show (runDma s c >>= fun s1 => Except.ok s1) = runDma s (c + 0)
    cases runDma s c <;> rfl
  | cons d ds ih =>
    have hd : ∀ x ∈ d :: ds, x % 4 = 0 := fun x hx => h x (List.mem_cons_of_mem _ hx)
    show (runDma s c >>= fun s1 => runBatches s1 (d :: ds)) = runDma s (c + (d :: ds).sum)
    rw [← runDma_add s c _ (h c List.mem_cons_self)]
    cases runDma s c with
    | error e => rfl
    | ok s1 => exact ih s1 d hd

/-- two splits of the same stretch of time agree -/
theorem dma_partition_invariant (s : State) (c d : Nat) (cs ds : List Nat) (h1 : ∀ x ∈ c :: cs, x % 4 = 0)
    (h2 : ∀ x ∈ d :: ds, x % 4 = 0) (hs : (c :: cs).sum = (d :: ds).sum) :
    runBatches s (c :: cs) = runBatches s (d :: ds) := by
  rw [dma_split_invariant s c cs h1, dma_split_invariant s d ds h2, hs]

/-! ### the real catch-up: DMA interleaved with the devices

`runDma` above is the copy alone.  In `MemoryAreas::run_clock_cycles` the timer, the LCD and the joypad catch up after
every copied byte (since /repo 451a8b9), so that a source inside the I/O page (DIV, LY, STAT, IF …) is read at its own
machine cycle.  For that whole composition (`Sys.dev`, tied to the code by the c09 / c04 / c10 streams) the result is
independent of the batching as well — OAM, the other memory, the timer, the LCD position and frame count, IF: -/

open GbVerif.SysProofs in
/-- the invariants the theorem needs hold at power-on … -/
theorem sys_ok_create (k : Cart.Kind) (rb mb : Nat) (rom : Nat → Nat) :
    IoOk (create k rb mb rom).io ∧ SysProofs.DmaOk (create k rb mb rom) :=
  ⟨⟨by show (0 : Nat) < 65536; decide, by show (0 : Nat) < 65536; decide⟩, fun _ _ h => by cases h⟩

open GbVerif.SysProofs in
/-- … and are kept by every bus write and every catch-up: they hold in every reachable state -/
theorem sys_ok_write {s s' : State} {a v : Nat} (wf : WF s) (ha : a < 65536) (ok : IoOk s.io) (hd : SysProofs.DmaOk s)
    (h : write s a v = .ok s') : IoOk s'.io ∧ SysProofs.DmaOk s' := write_keeps wf ha ok hd h

open GbVerif.SysProofs in
theorem sys_ok_time {s s' : State} (wf : WF s) (ok : IoOk s.io) (hd : SysProofs.DmaOk s) {k : Nat} (hk : k % 4 = 0)
    (hb : k < 2 ^ 32 - 65536) (h : Sys.dev s k = .ok s') : WF s' ∧ IoOk s'.io ∧ SysProofs.DmaOk s' :=
  dev_keeps wf ok hd hk hb h

open GbVerif.SysProofs in
/-- **the transfer touches no other memory**, for the real catch-up: whatever amount of time passes, with or without a
transfer running, the cartridge registers, ROM, video RAM, cartridge RAM, work RAM and high RAM are exactly as before;
OAM changes only while a transfer is active (the I/O block and the DMA bookkeeping are what time is *for*) -/
theorem dev_touches_only_oam_io {s s' : State} (wf : WF s) (hd : SysProofs.DmaOk s) {k : Nat} (h : Sys.dev s k = .ok s') :
    s'.cart = s.cart ∧ s'.rom = s.rom ∧ s'.vram = s.vram ∧ s'.cram = s.cram ∧ s'.wram = s.wram ∧ s'.hram = s.hram ∧
    (s.dma = none → s'.oam = s.oam) := by
  obtain ⟨e, er, eo⟩ := dev_rest wf hd h
  simp only [rest, Prod.mk.injEq] at e
  exact ⟨e.1, er, e.2.2.1, e.2.2.2.1, e.2.2.2.2.1, e.2.2.2.2.2.1, eo⟩

open GbVerif.SysProofs in
/-- **whole-machine batch independence**: `a + b` clocks in one catch-up = `a` clocks, then `b` clocks, for every DMA
source page (the I/O page included), every progress, with or without a transfer running -/
theorem dev_batch_add {s : State} (wf : WF s) (ok : IoOk s.io) (hd : SysProofs.DmaOk s) (a b : Nat)
    (ha : a % 4 = 0) (hb : b % 4 = 0) (ha4 : 4 ≤ a) (hab : a + b < 2 ^ 32 - 65536) :
    Sys.dev s (a + b) = (Sys.dev s a).bind fun s1 => Sys.dev s1 b := dev_add wf ok hd a b ha hb ha4 hab

open GbVerif.SysProofs in
/-- … hence any partition of a stretch of time into batches of whole machine cycles -/
theorem dev_partition_invariant {s : State} (wf : WF s) (ok : IoOk s.io) (hd : SysProofs.DmaOk s) (ks : List Nat) (hne : ks ≠ [])
    (hks : ∀ k ∈ ks, k % 4 = 0 ∧ 4 ≤ k) (hsum : ks.sum < 2 ^ 32 - 65536) :
    devBatches ks s = Sys.dev s ks.sum := dev_partition ks wf ok hd hne hks hsum

/-! ### non-vacuity -/

/-- a concrete cartridge: MBC1, 4 ROM banks holding `i % 251`, 8 KiB RAM -/
def exState : State := create .mbc1 4 0x2000 (fun i => i % 251)

/-- the I/O page as source: 160 machine cycles in one batch, split 1 + 159 and split 80 + 80 copy the same bytes
(P1, SB, SC, the unmapped 0xFF03, then DIV as it stands in the fifth machine cycle …) -/
example : (write exState 0xff46 0xff >>= fun s => Sys.dev s 640 >>= fun s => pure (s.oam.toList.take 8)).toOption =
    some [63, 255, 255, 255, 0, 0, 0, 0] := by decide +kernel
example : (write exState 0xff46 0xff >>= fun s => Sys.dev s 4 >>= fun s => Sys.dev s 636 >>= fun s => pure (s.oam.toList.take 8)).toOption =
    some [63, 255, 255, 255, 0, 0, 0, 0] := by decide +kernel

example : WF exState ∧ DmaOk exState := ⟨wf_create _ _ _ _ (by decide), dmaok_create _ _ _ _⟩
/-- DMA from ROM page 0x41 (bank 1): after 8 clocks two bytes are in OAM, the third is not, the transfer is active -/
example : (write exState 0xff46 0x41 >>= fun s => runDma s 8 >>= fun s =>
    pure (s.oam[0]!, s.oam[1]!, s.oam[2]!, progress s)).toOption = some (0x4100 % 251, 0x4101 % 251, 0, 2) := by decide +kernel
/-- …and after 640 clocks it is finished, in one batch or in three -/
example : (write exState 0xff46 0x41 >>= fun s => runBatches s [640] >>= fun s => pure (s.oam[159]!, progress s)).toOption
    = some (0x419f % 251, 160) := by decide +kernel
example : (write exState 0xff46 0x41 >>= fun s => runBatches s [16, 620, 4] >>= fun s => pure (s.oam[159]!, progress s)).toOption
    = some (0x419f % 251, 160) := by decide +kernel
/-- a source byte changed between two batches is copied with its new value if its turn had not come yet -/
example : (write exState 0xff46 0xc0 >>= fun s => runDma s 8 >>= fun s => write s 0xc001 7 >>= fun s =>
    write s 0xc005 9 >>= fun s => runDma s 640 >>= fun s => pure (s.oam[1]!, s.oam[5]!)).toOption = some (0, 9) := by decide +kernel

end GbVerif.C16
