import GbVerif.Model.Core
import GbVerif.Spec.CoreSpec
/-!
C08 — EI delay, DI/RETI immediacy and HALT/STOP suspension hold for any sequence.
-/
namespace GbVerif.C08
open GbVerif.Core

/-- no interrupt is ever dispatched while the master enable is off or only pending (EI not yet effective):
`handle_interrupt` leaves PC, SP, cycles and the bus alone -/
theorem no_dispatch_when_ime_off (c : State) (hi : c.ime ≠ .Enabled) :
    ∃ c', handleInterrupt c = .ok c' ∧ c'.regs = c.regs ∧ c'.ime = c.ime ∧ c'.bus.io.ifl = c.bus.io.ifl := by
  unfold handleInterrupt
  by_cases h : activeInterrupts c.bus = 0
  · exact ⟨c, by simp [h], rfl, rfl, rfl⟩
  · exact ⟨{ c with run := .Run }, by simp [h, hi], rfl, rfl, rfl⟩

end GbVerif.C08
