import GbVerif.Model.Core
import GbVerif.Spec.CoreSpec
import GbVerif.Proofs.CoreStep
import GbVerif.Proofs.CoreRefine
/-!
C08 — EI delay, DI/RETI immediacy and HALT/STOP suspension hold for any sequence.

All theorems are about the model of `Core::update` / `run_interp` / `handle_interrupt` (instruction-stepped build) and hold
for ANY device function `dev` and from ANY core state — hence along any instruction sequence: every step of a run is an
instance.  A `run_interp` step is described by its parts:
  `hx : Cpu.runNextOp c.regs c.bus = .ok (r, b, st, e)`   the instruction: registers, bus, status (0 normal, 1 STOP, 2 HALT,
                                                          3 DI, 4 EI, 5 RETI), block-end flag
  `hd : dev b (r.cycles * 4) = .ok bus`                   the device catch-up
  `h  : runInterp dev c = .ok c'`                         the whole step (instruction, status, catch-up, interrupt check)
"No dispatch in this step" is: `c'.regs = { r with cycles := 0 }` (PC, SP and all registers as the instruction left them) and
`c'.bus = bus` (IF, IE, memory as the devices left them).
-/
namespace GbVerif.C08
open GbVerif.Core GbVerif.CoreProofs GbVerif.Interp

/-- no interrupt is ever dispatched while the master enable is off or only pending (EI not yet effective):
`handle_interrupt` leaves PC, SP, cycles and the bus alone -/
theorem no_dispatch_when_ime_off (c : State) (hi : c.ime ≠ .Enabled) :
    ∃ c', handleInterrupt c = .ok c' ∧ c'.regs = c.regs ∧ c'.ime = c.ime ∧ c'.bus = c.bus := by
  by_cases h : activeInterrupts c.bus = 0
  · exact ⟨c, handleInterrupt_idle c h, rfl, rfl, rfl⟩
  · exact ⟨{ c with run := .Run }, handleInterrupt_masked c h hi, rfl, rfl, rfl⟩

/-- the same lifted to a whole step: if the master enable is not Enabled once the instruction's status has been applied
(`imeAfter`), the step's interrupt check changes neither PC/SP/registers nor IF/IE/memory, whatever is pending -/
theorem no_dispatch_in_step (dev : Dev) (c c' : State) (r : Regs) (b bus : Bus.State) (st : Nat) (e : Bool)
    (hx : Cpu.runNextOp c.regs c.bus = .ok (r, b, st, e)) (hd : dev b (r.cycles * 4) = .ok bus)
    (h : runInterp dev c = .ok c') (hi : imeAfter c.ime st ≠ .Enabled) :
    c'.regs = { r with cycles := 0 } ∧ c'.bus = bus ∧ c'.ime = imeAfter c.ime st ∧ c'.charged = c.charged + (r.cycles - c.regs.cycles) := by
  rw [runInterp_of hx hd] at h
  have := handleInterrupt_no_dispatch h hi
  exact ⟨this.1, this.2.1, this.2.2.1, this.2.2.2.1⟩

/-- and in a suspended step -/
theorem no_dispatch_in_halted_step (dev : Dev) (c c' : State) (bus : Bus.State) (hr : c.run ≠ .Run)
    (hd : dev c.bus 4 = .ok bus) (h : update dev c = .ok c') (hi : c.ime ≠ .Enabled) :
    c'.regs = c.regs ∧ c'.bus = bus ∧ c'.ime = c.ime := by
  rw [update_halted_of hr hd] at h
  have := handleInterrupt_no_dispatch h hi
  exact ⟨this.1, this.2.1, this.2.2.1⟩

/-- a dispatch needs IME = Enabled at the interrupt check: contrapositive over a step, stated on the charged cycles -/
theorem dispatch_only_when_enabled (dev : Dev) (c c' : State) (r : Regs) (b bus : Bus.State) (st : Nat) (e : Bool)
    (hx : Cpu.runNextOp c.regs c.bus = .ok (r, b, st, e)) (hd : dev b (r.cycles * 4) = .ok bus)
    (h : runInterp dev c = .ok c') (hdisp : c'.regs.cycles ≠ 0) : imeAfter c.ime st = .Enabled ∧ activeInterrupts bus ≠ 0 := by
  rw [runInterp_of hx hd] at h
  rcases handleInterrupt_outcomes h with ⟨_, rfl⟩ | ⟨_, _, rfl⟩ | ⟨h0, hi, _⟩
  · exact absurd rfl hdisp
  · exact absurd rfl hdisp
  · exact ⟨hi, h0⟩

/-- EI from Disabled: the master enable is only *scheduled* (EnableNext) and this step dispatches nothing, even with an
enabled request pending -/
theorem ei_no_dispatch_this_step (dev : Dev) (c c' : State) (r : Regs) (b bus : Bus.State) (e : Bool)
    (hx : Cpu.runNextOp c.regs c.bus = .ok (r, b, STATUS_INTERRUPT_ENABLE, e)) (hd : dev b (r.cycles * 4) = .ok bus)
    (h : runInterp dev c = .ok c') (hi : c.ime = .Disabled) :
    c'.ime = .EnableNext ∧ c'.regs = { r with cycles := 0 } ∧ c'.bus = bus := by
  have hn : imeAfter c.ime STATUS_INTERRUPT_ENABLE ≠ .Enabled := by rw [hi]; decide
  have := no_dispatch_in_step dev c c' r b bus _ e hx hd h hn
  rw [hi] at this
  exact ⟨this.2.2.1, this.1, this.2.1⟩

/-- the instruction after EI: when it completes the master enable is on (unless it is DI), so a request pending after the
catch-up is dispatched at the end of *this* step -/
theorem ei_effective_after_next (dev : Dev) (c c' : State) (r : Regs) (b bus : Bus.State) (st : Nat) (e : Bool)
    (hx : Cpu.runNextOp c.regs c.bus = .ok (r, b, st, e)) (hd : dev b (r.cycles * 4) = .ok bus)
    (h : runInterp dev c = .ok c') (hi : c.ime = .EnableNext) (hst : st ≠ STATUS_INTERRUPT_DISABLE) :
    (activeInterrupts bus ≠ 0 → c'.ime = .Disabled ∧ c'.regs.cycles = 5 ∧ c'.run = .Run ∧
        c'.regs.ip ∈ [0x00, 0x40, 0x48, 0x50, 0x58, 0x60]) ∧
    (activeInterrupts bus = 0 → c'.ime = .Enabled ∧ c'.regs = { r with cycles := 0 }) := by
  rw [runInterp_of hx hd] at h
  have hen : (sampled (afterOp c r b st) bus false).ime = .Enabled := by
    show imeAfter c.ime st = .Enabled
    rw [hi]; exact imeAfter_pending st hst
  constructor
  · intro h0
    have := handleInterrupt_dispatch h h0 hen
    exact ⟨this.2.1, this.2.2.1, this.1, this.2.2.2.2⟩
  · intro h0
    have := handleInterrupt_quiet h h0
    subst this
    exact ⟨hen, rfl⟩

/-- **ei_takes_effect_after_next**, over two consecutive steps of any run: `EI` executed with IME off, then any instruction
other than DI.  Nothing is dispatched at the end of the EI step although a request may be pending; with a request pending
after the second instruction's catch-up, the dispatch happens at the end of the second step -/
theorem ei_takes_effect_after_next (dev : Dev) (c0 c1 c2 : State)
    (r1 : Regs) (b1 bus1 : Bus.State) (e1 : Bool) (r2 : Regs) (b2 bus2 : Bus.State) (st2 : Nat) (e2 : Bool)
    (hi : c0.ime = .Disabled)
    (hx1 : Cpu.runNextOp c0.regs c0.bus = .ok (r1, b1, STATUS_INTERRUPT_ENABLE, e1)) (hd1 : dev b1 (r1.cycles * 4) = .ok bus1)
    (h1 : runInterp dev c0 = .ok c1)
    (hx2 : Cpu.runNextOp c1.regs c1.bus = .ok (r2, b2, st2, e2)) (hd2 : dev b2 (r2.cycles * 4) = .ok bus2)
    (h2 : runInterp dev c1 = .ok c2) (hst : st2 ≠ STATUS_INTERRUPT_DISABLE) (hp : activeInterrupts bus2 ≠ 0) :
    (c1.regs.ip = r1.ip ∧ c1.regs.sp = r1.sp ∧ c1.bus = bus1 ∧ c1.regs.cycles = 0) ∧
    (c2.regs.cycles = 5 ∧ c2.ime = .Disabled ∧ c2.regs.ip ∈ [0x00, 0x40, 0x48, 0x50, 0x58, 0x60]) := by
  have s1 := ei_no_dispatch_this_step dev c0 c1 r1 b1 bus1 e1 hx1 hd1 h1 hi
  have s2 := (ei_effective_after_next dev c1 c2 r2 b2 bus2 st2 e2 hx2 hd2 h2 s1.1 hst).1 hp
  refine ⟨⟨?_, ?_, s1.2.2, ?_⟩, s2.2.1, s2.1, s2.2.2.2⟩ <;> rw [s1.2.1]

/-- DI takes effect immediately: whatever the master enable was (on, off, or scheduled by an EI just before), after a DI
step it is off and the step dispatched nothing -/
theorem di_immediate (dev : Dev) (c c' : State) (r : Regs) (b bus : Bus.State) (e : Bool)
    (hx : Cpu.runNextOp c.regs c.bus = .ok (r, b, STATUS_INTERRUPT_DISABLE, e)) (hd : dev b (r.cycles * 4) = .ok bus)
    (h : runInterp dev c = .ok c') :
    c'.ime = .Disabled ∧ c'.regs = { r with cycles := 0 } ∧ c'.bus = bus := by
  have hn : imeAfter c.ime STATUS_INTERRUPT_DISABLE ≠ .Enabled := by rw [imeAfter_di]; decide
  have := no_dispatch_in_step dev c c' r b bus _ e hx hd h hn
  rw [imeAfter_di] at this
  exact ⟨this.2.2.1, this.1, this.2.1⟩

/-- RETI takes effect immediately: the master enable is on *before the interrupt check of the same step*, so a request
pending after the catch-up is dispatched at the end of the RETI step itself -/
theorem reti_immediate (dev : Dev) (c c' : State) (r : Regs) (b bus : Bus.State) (e : Bool)
    (hx : Cpu.runNextOp c.regs c.bus = .ok (r, b, STATUS_INTERRUPT_ENABLE_IMMEDIATE, e)) (hd : dev b (r.cycles * 4) = .ok bus)
    (h : runInterp dev c = .ok c') :
    (activeInterrupts bus ≠ 0 → c'.ime = .Disabled ∧ c'.regs.cycles = 5 ∧ c'.regs.ip ∈ [0x00, 0x40, 0x48, 0x50, 0x58, 0x60]) ∧
    (activeInterrupts bus = 0 → c'.ime = .Enabled ∧ c'.regs = { r with cycles := 0 }) := by
  rw [runInterp_of hx hd] at h
  have hen : (sampled (afterOp c r b STATUS_INTERRUPT_ENABLE_IMMEDIATE) bus false).ime = .Enabled := imeAfter_reti c.ime
  constructor
  · intro h0
    have := handleInterrupt_dispatch h h0 hen
    exact ⟨this.2.1, this.2.2.1, this.2.2.2.2⟩
  · intro h0
    have := handleInterrupt_quiet h h0
    subst this
    exact ⟨hen, rfl⟩

/-- HALT / STOP enter the suspended state (unless an enabled request is pending after the catch-up, which wakes the CPU
at once — the case the property excludes) -/
theorem halt_enters (dev : Dev) (c c' : State) (r : Regs) (b bus : Bus.State) (st : Nat) (e : Bool)
    (hx : Cpu.runNextOp c.regs c.bus = .ok (r, b, st, e)) (hd : dev b (r.cycles * 4) = .ok bus)
    (h : runInterp dev c = .ok c') (hst : st = STATUS_HALT ∨ st = STATUS_STOP) (h0 : activeInterrupts bus = 0) :
    c'.run = (if st = STATUS_HALT then .Halt else .Stop) ∧ c'.regs = { r with cycles := 0 } := by
  rw [runInterp_of hx hd] at h
  have := handleInterrupt_quiet h h0
  subst this
  rcases hst with rfl | rfl <;> exact ⟨rfl, rfl⟩

/-- **halt_suspends**: while suspended with no enabled request after the device catch-up, a step executes no instruction:
every register (PC, SP, AF..HL), the master enable and the run state are unchanged, the bus is what the devices left,
exactly 4 clocks are delivered and one machine cycle is charged -/
theorem halt_suspends (dev : Dev) (c c' : State) (bus : Bus.State) (hr : c.run ≠ .Run) (hd : dev c.bus 4 = .ok bus)
    (h0 : activeInterrupts bus = 0) (h : update dev c = .ok c') :
    c'.regs = c.regs ∧ c'.run = c.run ∧ c'.ime = c.ime ∧ c'.bus = bus ∧ c'.delivered = c.delivered + 4 ∧ c'.charged = c.charged + 1 := by
  rw [update_halted_of hr hd] at h
  have := handleInterrupt_quiet h h0
  subst this
  exact ⟨rfl, rfl, rfl, rfl, rfl, rfl⟩

/-- over any number of steps: as long as the CPU stays suspended, no instruction executes — registers unchanged, 4 clocks and
one machine cycle per step -/
theorem halt_suspends_n (dev : Dev) : ∀ (n : Nat) (c c' : State), iter (update dev) n c = .ok c' →
    (∀ k ck, k ≤ n → iter (update dev) k c = .ok ck → ck.run ≠ .Run) →
    c'.regs = c.regs ∧ c'.ime = c.ime ∧ c'.delivered = c.delivered + 4 * n ∧ c'.charged = c.charged + n := by
  intro n
  induction n with
  | zero => intro c c' h _; injection h with h; subst h; exact ⟨rfl, rfl, rfl, rfl⟩
  | succ n ih =>
    intro c c' h hs
    obtain ⟨c1, h1, h2⟩ := bind_ok_elim h
    have hr : c.run ≠ .Run := hs 0 c (by omega) rfl
    have hr1 : c1.run ≠ .Run := hs 1 c1 (by omega) (by show (update dev c >>= iter (update dev) 0) = _; rw [h1]; rfl)
    obtain ⟨bus, hd, h3⟩ := update_halted_shape hr h1
    -- still suspended after the step: nothing was pending (a pending request sets the run state to Run)
    have h0 : activeInterrupts bus = 0 := by
      rcases handleInterrupt_outcomes h3 with ⟨h0, _⟩ | ⟨_, _, e⟩ | ⟨_, _, _, _, _, e⟩
      · exact h0
      · subst e; exact absurd rfl hr1
      · subst e; exact absurd rfl hr1
    have s1 := halt_suspends dev c c1 bus hr hd h0 h1
    have s2 := ih c1 c' h2 (fun k ck hk hck => hs (k + 1) ck (by omega) (by show (update dev c >>= iter (update dev) k) = _; rw [h1]; exact hck))
    refine ⟨s2.1.trans s1.1, s2.2.1.trans s1.2.2.1, ?_, ?_⟩
    · rw [s2.2.2.1, s1.2.2.2.2.1]; omega
    · rw [s2.2.2.2, s1.2.2.2.2.2]; omega

/-- **halt_resumes**: when an enabled request is present after the catch-up of a suspended step, the run state becomes Run;
with the master enable off (or only scheduled) all registers are unchanged — the next step fetches at the unchanged PC, the
instruction following HALT/STOP; with the master enable on the step ends in a dispatch (PC at the vector, +5 cycles) -/
theorem halt_resumes (dev : Dev) (c c' : State) (bus : Bus.State) (hr : c.run ≠ .Run) (hd : dev c.bus 4 = .ok bus)
    (h0 : activeInterrupts bus ≠ 0) (h : update dev c = .ok c') :
    c'.run = .Run ∧
    (c.ime ≠ .Enabled → c'.regs = c.regs ∧ c'.ime = c.ime ∧ c'.bus = bus ∧ update dev c' = runInterp dev c') ∧
    (c.ime = .Enabled → c'.ime = .Disabled ∧ c'.regs.cycles = c.regs.cycles + 5 ∧
        c'.regs.ip ∈ [0x00, 0x40, 0x48, 0x50, 0x58, 0x60]) := by
  rw [update_halted_of hr hd] at h
  rcases handleInterrupt_outcomes h with ⟨h1, _⟩ | ⟨_, hi, e⟩ | ⟨_, hi, b1, b2, sp2, e⟩
  · exact absurd h1 h0
  · subst e
    exact ⟨rfl, fun _ => ⟨rfl, rfl, rfl, update_run dev _ rfl⟩, fun he => absurd he hi⟩
  · have hd' := handleInterrupt_dispatch h h0 hi
    exact ⟨hd'.1, fun hn => absurd hi hn, fun _ => ⟨hd'.2.1, hd'.2.2.1, hd'.2.2.2.2⟩⟩

/-- HALT is a one-byte instruction: the PC it leaves — where execution resumes — is the address following it -/
theorem halt_pc (β : Type) (B : BusOps β) (r : Regs) (m : β) (len : Nat) :
    runOp B .Halt r m len = .ok ({ r with ip := r.ip + 1 }, m, STATUS_HALT) := rfl

/-- **update_refines_spec_partial**: one step of the model (with devices that only let time pass: `dev = fun b _ => .ok b`)
is one step of the step spec `CoreSpec.step` (SM83.step + the IME rule + the dispatch spec) under the abstraction `absS`
(registers through `C05.abs`, IME / run state / bus / charged cycles as they are, "dispatched" = cycle counter non-zero).
HYPOTHESIS `hI` (not an axiom; an explicit premise): the instruction-level refinement — whenever `run_next_op` returns, the
three bytes at PC read through the bus and `SM83.step` on the abstracted registers give the abstracted result, the same bus,
the status as outcome, and as machine cycles the growth of the cycle counter.  It is the composition of
`C05.step_refines_impl` (Proofs/Sm83Main.lean: `stepModel` refines `SM83.step` for byte-valued buses) with
`C10.fetch_eq_read` (the fetch view equals the data read in ROM/WRAM/HRAM) and the byte-valuedness of the bus model's
memories, neither of which is composed here.  See `CoreRefine.InstrRefines`. -/
theorem update_refines_spec_partial (hI : InstrRefines) (c c' : State) (hw : WFs c)
    (h : update noTime c = .ok c') : CoreSpec.step (absS c) = .ok (some (absS c')) ∧ WFs c' :=
  CoreProofs.update_refines hI c c' hw h

/-! ### concrete runs: the hypotheses are satisfiable and the steps behave as stated -/

/-- a toy device: counts its calls in the TIMA register and requests the Timer interrupt at the third call -/
def dev3 : Dev := fun b _ =>
  .ok { b with io := { b.io with timer := { b.io.timer with counter := b.io.timer.counter + 1 },
                                 ifl := b.io.ifl ||| (if b.io.timer.counter == 2 then 4 else 0) } }

def rom (code : List Nat) : Nat → Nat := fun i => if i < 0x100 then 0 else code.getD (i - 0x100) 0

/-- code at 0x100, Timer enabled in IE, requested in IF iff `ifl = 4`; stack in WRAM (zero-filled: RETI returns to 0x0000) -/
def mk (code : List Nat) (ifl : Nat) (ime : Ime) : State :=
  let b := Bus.create .mbc1 4 32768 (rom code)
  { regs := { sp := 0xdff0, ip := 0x100 }, bus := { b with io := { b.io with ifl := ifl, ie := 4 } }, ime := ime }

def imeCode : Ime → Nat | .Enabled => 0 | .Disabled => 1 | .EnableNext => 2

/-- (PC, IME, run state ≠ Run, IF, cycle counter) after `n` steps -/
def obs (dev : Dev) (n : Nat) (c : State) : Option (Nat × Nat × Nat × Nat × Nat) :=
  match iter (update dev) n c with
  | .ok c => some (c.regs.ip, imeCode c.ime, (if c.run = .Run then 0 else 1), c.bus.io.ifl, c.regs.cycles)
  | .error _ => none

/-- EI; NOP; NOP with the Timer pending: after EI nothing is dispatched (PC 0x101, IME = EnableNext) … -/
example : obs noTime 1 (mk [0xfb, 0x00, 0x00] 4 .Disabled) = some (0x101, 2, 0, 4, 0) := by decide +kernel
/-- … the dispatch happens when the following NOP has completed (PC = vector 0x50, IF bit cleared, 5 cycles pending) -/
example : obs noTime 2 (mk [0xfb, 0x00, 0x00] 4 .Disabled) = some (0x50, 1, 0, 0, 5) := by decide +kernel
/-- EI; DI: the DI cancels the scheduled enable: no dispatch, IME off -/
example : obs noTime 3 (mk [0xfb, 0xf3, 0x00] 4 .Disabled) = some (0x103, 1, 0, 4, 0) := by decide +kernel
/-- EI; EI; NOP: the second EI does not restart the delay: dispatch at the end of the second EI -/
example : obs noTime 2 (mk [0xfb, 0xfb, 0x00] 4 .Disabled) = some (0x50, 1, 0, 0, 5) := by decide +kernel
/-- RETI with the Timer pending: dispatch at the end of the RETI step itself (return address 0x0000 pushed again) -/
example : obs noTime 1 (mk [0xd9] 4 .Disabled) = some (0x50, 1, 0, 0, 5) := by decide +kernel
/-- DI with IME on and the Timer pending: no dispatch in the DI step -/
example : obs noTime 1 (mk [0xf3] 4 .Enabled) = some (0x101, 1, 0, 4, 0) := by decide +kernel
/-- HALT, nothing pending, device `dev3`: suspended at the PC after HALT (0x101) through the second call … -/
example : obs dev3 2 (mk [0x76, 0x00] 0 .Disabled) = some (0x101, 1, 1, 0, 0) := by decide +kernel
/-- … the third call raises the Timer request: the CPU wakes, IME off so PC stays at the instruction after HALT … -/
example : obs dev3 3 (mk [0x76, 0x00] 0 .Disabled) = some (0x101, 1, 0, 4, 0) := by decide +kernel
/-- … and the next step executes it -/
example : obs dev3 4 (mk [0x76, 0x00] 0 .Disabled) = some (0x102, 1, 0, 4, 0) := by decide +kernel
/-- the same with IME on: the wake-up step ends in the handler -/
example : obs dev3 3 (mk [0x76, 0x00] 0 .Enabled) = some (0x50, 1, 0, 0, 5) := by decide +kernel
/-- STOP (two bytes) suspends the same way -/
example : obs dev3 2 (mk [0x10, 0x00, 0x00] 0 .Disabled) = some (0x102, 1, 1, 0, 0) := by decide +kernel

/-- the refinement's well-formedness is satisfiable -/
example : WFs (mk [0xfb, 0x00] 4 .Disabled) :=
  ⟨by unfold C05.WF; decide, BusProofs.wf_set_io (BusProofs.wf_create .mbc1 4 32768 _ (by omega)) _, ⟨by decide, by decide, rfl⟩,
   fun h => absurd rfl h⟩

end GbVerif.C08
