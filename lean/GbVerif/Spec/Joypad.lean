/-
Spec for C17, written from the property text (not from the code):
an abstract button matrix, two select bits, four input lines.
-/
namespace GbVerif.JoypadSpec

/-- abstract joypad: which of the 8 buttons are held (0..3 = A,B,Select,Start = action group;
4..7 = Right,Left,Up,Down = direction group) and the last written select bits (bit4, bit5). -/
structure Abs where
  held : Fin 8 → Bool
  bit4 : Bool      -- written bit 4 (0 selects directions)
  bit5 : Bool      -- written bit 5 (0 selects actions)

/-- line `i` (0..3) is low exactly when a held button of a selected group sits on it -/
def lineLow (a : Abs) (i : Fin 4) : Bool :=
  (!a.bit4 && a.held ⟨i.val + 4, by omega⟩) || (!a.bit5 && a.held ⟨i.val, by omega⟩)

/-- what a read of P1 must return on bits 0..5 -/
def p1Bit (a : Abs) (i : Fin 6) : Bool :=
  if h : i.val < 4 then !lineLow a ⟨i.val, h⟩
  else if i.val = 4 then a.bit4 else a.bit5

/-- some line goes from high to low between two abstract states -/
def someLineFalls (a b : Abs) : Bool :=
  (List.finRange 4).any fun i => !lineLow a i && lineLow b i

end GbVerif.JoypadSpec

namespace GbVerif.JoypadSpec

/-- the three kinds of single actions, at the level of the property text -/
inductive Ev where
  | press (k : Fin 8) | release (k : Fin 8) | write (v : Nat)

def Abs.apply (a : Abs) : Ev → Abs
  | .press k => { a with held := fun j => if j = k then true else a.held j }
  | .release k => { a with held := fun j => if j = k then false else a.held j }
  | .write v => { a with bit4 := v.testBit 4, bit5 := v.testBit 5 }

/-- bits 0..5 of the value a P1 read must return -/
def p1Value (a : Abs) : Nat :=
  (List.finRange 6).foldl (fun acc i => if p1Bit a i then acc ||| (1 <<< i.val) else acc) 0

end GbVerif.JoypadSpec
