import GbVerif.Spec.SM83
import GbVerif.Spec.Interrupt
/-
Spec of one emulator step at instruction granularity (C08, C09), assembled from the ISA spec (`SM83.step`),
the interrupt-dispatch spec (C07) and the rules in the property text:
 * EI enables dispatch only after the following instruction has completed; DI and RETI act immediately;
 * HALT / STOP suspend instruction execution until an enabled interrupt is requested;
 * time: each step charges the instruction's machine cycles (1 for a suspended step, +5 per dispatch) and the
   devices receive 4 clocks per machine cycle.
Instruction bytes are fetched through ordinary bus reads.
-/
namespace GbVerif.CoreSpec
open GbVerif.Core

structure S where
  cpu : SM83.Cpu
  bus : Bus.State
  ime : Ime := .Disabled          -- .EnableNext = "EI executed, takes effect after the next instruction"
  run : RunState := .Run
  charged : Nat := 0              -- machine cycles charged so far
  dispatched : Bool := false      -- the last step ended with an interrupt dispatch (its 5 cycles are delivered next step)

def mem : SM83.Mem Bus.State := ⟨Bus.read, Bus.write⟩

/-- interrupt check at the end of a step: C07's dispatch on the spec state -/
def irq (s : S) : Except Bus.Panic S := do
  let c : Core.State := { regs := { sp := s.cpu.sp, ip := s.cpu.pc }, bus := s.bus, ime := s.ime, run := s.run }
  let c' ← InterruptSpec.dispatch c
  pure { s with cpu := { s.cpu with sp := c'.regs.sp, pc := c'.regs.ip }, bus := c'.bus, ime := c'.ime, run := c'.run,
                charged := s.charged + c'.regs.cycles, dispatched := c'.regs.cycles != 0 }

/-- one step; `none` for the instruction outcome means an undefined opcode was reached -/
def step (s : S) : Except Bus.Panic (Option S) := do
  match s.run with
  | .Run =>
    let b0 ← Bus.read s.bus s.cpu.pc
    let b1 ← Bus.read s.bus ((s.cpu.pc + 1) % 65536)
    let b2 ← Bus.read s.bus ((s.cpu.pc + 2) % 65536)
    let (cpu, bus, cyc, out) ← SM83.step mem s.cpu s.bus b0 b1 b2
    if out == .undefined then return none
    -- an EI executed by the *previous* instruction takes effect now that this one has completed
    let ime := if s.ime == .EnableNext then .Enabled else s.ime
    let ime := match out with
      | .di => .Disabled
      | .reti => .Enabled
      | .ei => if ime == .Disabled then .EnableNext else ime
      | _ => ime
    let run := match out with | .halt => .Halt | .stop => .Stop | _ => .Run
    let s' ← irq { s with cpu := cpu, bus := bus, ime := ime, run := run, charged := s.charged + cyc }
    return some s'
  | _ =>
    let s' ← irq { s with charged := s.charged + 1 }
    return some s'

end GbVerif.CoreSpec
