/-
Spec for C20, written from the property text (not from the code):

* what a well-formed 16-bit address numeral is and which number it denotes (decimal, or `0x` + hexadecimal;
  Rust's integer grammar: one optional leading `+`, at least one digit, nothing else);
* which lines are commands: words separated by whitespace, command words compared without regard to ASCII
  letter case, and what a parser is *allowed* to answer for a line (`allows`);
* how a concatenation of complete instructions is laid out in the address space (`layout`).
-/
namespace GbVerif.DebugSpec

/-! ### numerals -/

def digitChars : List Char := ['0','1','2','3','4','5','6','7','8','9','a','b','c','d','e','f']
def digitCharsUpper : List Char := ['0','1','2','3','4','5','6','7','8','9','A','B','C','D','E','F']

/-- position of `c` in `l` -/
def indexIn (c : Char) : List Char → Option Nat
  | [] => none
  | d :: ds => if c = d then some 0 else (indexIn c ds).map (· + 1)

/-- position of a character among the sixteen digit characters, lower or upper case -/
def digitIndex (c : Char) : Option Nat :=
  match indexIn c digitChars with
  | some i => some i
  | none => indexIn c digitCharsUpper

/-- the digit a character denotes in the given radix, if any -/
def digit? (radix : Nat) (c : Char) : Option Nat :=
  match digitIndex c with
  | some d => if d < radix then some d else none
  | none => none

/-- all digits of a numeral, most significant first -/
def digits? (radix : Nat) : List Char → Option (List Nat)
  | [] => some []
  | c :: cs => match digit? radix c, digits? radix cs with
    | some d, some ds => some (d :: ds)
    | _, _ => none

/-- positional value, most significant digit first -/
def valueOf (radix : Nat) : List Nat → Nat
  | [] => 0
  | d :: ds => d * radix ^ ds.length + valueOf radix ds

/-- a numeral without its optional single leading `+` -/
def stripPlus : List Char → List Char
  | '+' :: r => r
  | s => s

/-- the number a numeral denotes: optional single `+`, then one or more digits -/
def numeral? (radix : Nat) (s : List Char) : Option Nat :=
  let body := stripPlus s
  if body.isEmpty then none
  else match digits? radix body with
    | some ds => some (valueOf radix ds)
    | none => none

/-- keep a value only if it fits 16 bits -/
def fit16 : Option Nat → Option Nat
  | some n => if n < 65536 then some n else none
  | none => none

/-- the number a token denotes: `0x` + hexadecimal numeral, or a decimal numeral -/
def rawAddress? (tok : List Char) : Option Nat :=
  match tok with
  | '0' :: 'x' :: r => numeral? 16 r
  | _ => numeral? 10 tok

/-- the 16-bit address a token denotes, if it is a well-formed numeral below 65536 -/
def address? (tok : List Char) : Option Nat := fit16 (rawAddress? tok)

/-! ### command lines -/

inductive Cmd where
  | breakSet (addr : Nat)
  | continue_
  | readMemory (addr : Nat)
  | readRegisters
  | step
deriving DecidableEq, Repr

/-- Unicode `White_Space` (PropList.txt): the 25 code points -/
def whiteSpaceCodes : List Nat :=
  [0x9, 0xA, 0xB, 0xC, 0xD, 0x20, 0x85, 0xA0, 0x1680, 0x2000, 0x2001, 0x2002, 0x2003, 0x2004, 0x2005, 0x2006,
   0x2007, 0x2008, 0x2009, 0x200A, 0x2028, 0x2029, 0x202F, 0x205F, 0x3000]

def whiteSpace (c : Char) : Bool := whiteSpaceCodes.contains c.toNat

/-- words of a line: maximal runs of non-whitespace characters, in order (`cur` = current run, reversed) -/
def tokensAux (white : Char → Bool) : List Char → List Char → List (List Char)
  | [], cur => if cur.isEmpty then [] else [cur.reverse]
  | c :: cs, cur =>
    if white c then (if cur.isEmpty then tokensAux white cs [] else cur.reverse :: tokensAux white cs [])
    else tokensAux white cs (c :: cur)

def tokens (white : Char → Bool) (s : List Char) : List (List Char) := tokensAux white s []

def isAscii (c : Char) : Bool := c.toNat < 128

/-- ASCII case folding of a word; `none` if the word contains a non-ASCII char (no such word is a spelling of
an ASCII command word in any letter case) -/
def foldAscii? (w : List Char) : Option (List Char) :=
  if w.all isAscii then
    some (w.map fun c => if 'A'.toNat ≤ c.toNat ∧ c.toNat ≤ 'Z'.toNat then Char.ofNat (c.toNat + 32) else c)
  else none

/-- what follows a command word -/
inductive Shape where
  | noArg (c : Cmd)
  | addrArg (mk : Nat → Cmd)
  | subWord (subs : List (List Char)) (c : Cmd)

/-- the command words -/
def table : List (List Char × Shape) :=
  [ ("break".toList, .addrArg .breakSet),
    ("c".toList, .noArg .continue_), ("continue".toList, .noArg .continue_),
    ("info".toList, .subWord ["reg".toList, "registers".toList] .readRegisters),
    ("p".toList, .addrArg .readMemory), ("print".toList, .addrArg .readMemory),
    ("s".toList, .noArg .step), ("step".toList, .noArg .step) ]

def lookup (k : List Char) : List (List Char × Shape) → Option Shape
  | [] => none
  | (w, sh) :: rest => if k = w then some sh else lookup k rest

/-- meaning of a line given its (case-folded) first word, its (case-folded) second word and the address its
second word denotes -/
def interp (first second : Option (List Char)) (addr : Option Nat) : Option Cmd :=
  match first with
  | none => none
  | some k =>
    match lookup k table with
    | none => none
    | some (.noArg c) => some c
    | some (.addrArg mk) => addr.map mk
    | some (.subWord subs c) =>
      match second with
      | some s => if subs.contains s then some c else none
      | none => none

/-- the command a line spells, if it spells one -/
def command? (white : Char → Bool) (line : List Char) : Option Cmd :=
  let ts := tokens white line
  interp (ts.head?.bind foldAscii?) (ts.tail.head?.bind foldAscii?) (ts.tail.head?.bind address?)

/-- the address a returned command carries -/
def Cmd.addr? : Cmd → Option Nat
  | .breakSet a => some a
  | .readMemory a => some a
  | _ => none

/-- What a parser may answer for `line` (property text: recognise command words regardless of letter case and
surrounding whitespace; parse every address to exactly its value, reject malformed/out-of-range numbers):

1. a line that spells a command gets exactly that command;
2. a line whose first two words are ASCII and that does not spell a command gets `none`
   (for words with non-ASCII letters the text does not say whether a Unicode case mapping may make them a
   spelling of a command word — Rust's `to_lowercase` maps U+212A KELVIN SIGN to `k` — so recognition there is
   not constrained);
3. whatever is answered, a carried address is the value of the well-formed numeral in the second word. -/
def allows (white : Char → Bool) (line : List Char) (r : Option Cmd) : Bool :=
  let ts := tokens white line
  (match command? white line with
   | some c => r == some c
   | none =>
     let ascii2 := (ts.take 2).all (fun w => w.all isAscii)
     !ascii2 || r == none) &&
  (match r with
   | some c => (match c.addr? with
     | some a => ts.tail.head?.bind address? == some a
     | none => true)
   | none => true)

/-! ### disassembly -/

/-- one listed instruction: where it starts, how long it is, its bytes -/
structure Item where
  address : Nat
  length : Nat
  bytes : List Nat
deriving DecidableEq, Repr

/-- instructions laid out back to back from `addr` in a 16-bit address space -/
def layout (addr : Nat) : List (List Nat) → List Item
  | [] => []
  | i :: is => ⟨addr, i.length, i⟩ :: layout ((addr + i.length) % 65536) is

end GbVerif.DebugSpec
