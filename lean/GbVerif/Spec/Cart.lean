/-
Spec for C12, from the controller register protocol as the property states it (classic two-mode
MBC1 description: bank 0 always at 0x0000–0x3FFF), not from the code.
-/
namespace GbVerif.CartSpec

inductive Ctl where | romOnly | mbc1 | mbc3
deriving DecidableEq, Repr

/-- the protocol-level registers, as functions of the whole write history -/
structure Regs where
  lo : Nat := 1       -- MBC1: low 5 bits / MBC3: 7 bits, as last written (power-on 1)
  hi : Nat := 0       -- MBC1: 2-bit upper register / MBC3: RAM bank register (< 4)
  mode : Nat := 0     -- MBC1 mode select

def applyWrite (c : Ctl) (r : Regs) (addr value : Nat) : Regs :=
  match c with
  | .romOnly => r
  | .mbc1 =>
    if 0x2000 ≤ addr ∧ addr < 0x4000 then { r with lo := value % 32 }
    else if 0x4000 ≤ addr ∧ addr < 0x6000 then { r with hi := value % 4 }
    else if 0x6000 ≤ addr ∧ addr < 0x8000 then { r with mode := value % 2 }
    else r
  | .mbc3 =>
    if 0x2000 ≤ addr ∧ addr < 0x4000 then { r with lo := value % 128 }
    else if 0x4000 ≤ addr ∧ addr < 0x6000 ∧ value < 4 then { r with hi := value }
    else r

def regsAfter (c : Ctl) (ws : List (Nat × Nat)) : Regs :=
  ws.foldl (fun r w => applyWrite c r w.1 w.2) {}

/-- bank number 0 is translated to 1 -/
def nz (b : Nat) : Nat := if b = 0 then 1 else b

/-- ROM bank visible at 0x4000–0x7FFF, reduced to the cartridge's `romBanks` banks -/
def romBank (c : Ctl) (romBanks : Nat) (r : Regs) : Nat :=
  match c with
  | .romOnly => 1
  | .mbc1 => (if r.mode = 0 then r.hi * 32 + nz r.lo else nz r.lo) % romBanks
  | .mbc3 => nz r.lo % romBanks

/-- RAM bank visible at 0xA000–0xBFFF, reduced to the cartridge's `ramBanks` 8 KiB banks
(0 when the cartridge has less than one full bank) -/
def ramBank (c : Ctl) (ramBanks : Nat) (r : Regs) : Nat :=
  if ramBanks = 0 then 0 else
  match c with
  | .romOnly => 0
  | .mbc1 => (if r.mode = 0 then 0 else r.hi) % ramBanks
  | .mbc3 => r.hi % ramBanks

end GbVerif.CartSpec
