/-
Spec for C19, written from the cartridge-header standard (Pan Docs, "The Cartridge Header") and the
property text — not from the code.  A ROM image is a function from file offsets to bytes plus a length.
-/
namespace GbVerif.HeaderSpec

/-- 8-bit subtraction -/
def sub8 (a b : Nat) : Nat := (a + 256 - b % 256) % 256

/-- Pan Docs 014D: `x = 0; for i in 0x134..=0x14C: x = x - rom[i] - 1` (8-bit) -/
def headerChecksum (rom : Nat → Nat) : Nat :=
  (List.range' 0x134 (0x14C + 1 - 0x134)).foldl (fun x i => sub8 (sub8 x (rom i)) 1) 0

/-- "the boot ROM verifies that this byte (0x14D) matches the computed value" -/
def checksumOk (rom : Nat → Nat) : Bool := headerChecksum rom == rom 0x14D

/-- Pan Docs 0148: ROM size in bytes — `32 KiB << n` for n = 0..8, and 1.1 / 1.2 / 1.5 MiB for 0x52..0x54 -/
def romBytes? (code : Nat) : Option Nat :=
  if code ≤ 8 then some ((32 * 1024) <<< code)
  else if code = 0x52 then some (72 * 16 * 1024)
  else if code = 0x53 then some (80 * 16 * 1024)
  else if code = 0x54 then some (96 * 16 * 1024)
  else none

/-- Pan Docs 0148: number of 16 KiB banks — 2, 4, …, 512 and 72 / 80 / 96 -/
def romBanks? (code : Nat) : Option Nat :=
  if code ≤ 8 then some (2 <<< code)
  else if code = 0x52 then some 72
  else if code = 0x53 then some 80
  else if code = 0x54 then some 96
  else none

/-- Pan Docs 0149: cartridge RAM size — none, 2 KiB, 8 KiB, 32 KiB, 128 KiB, 64 KiB -/
def ramBytes? (code : Nat) : Option Nat :=
  if code = 0 then some 0
  else if code = 1 then some (2 * 1024)
  else if code = 2 then some (8 * 1024)
  else if code = 3 then some (32 * 1024)
  else if code = 4 then some (128 * 1024)
  else if code = 5 then some (64 * 1024)
  else none

/-- memory bank controllers named by the cartridge-type byte -/
inductive Controller where
  | romOnly | mbc1 | mbc2 | mmm01 | mbc3 | mbc5 | mbc6 | mbc7 | camera | tama5 | huc3 | huc1
deriving DecidableEq, Repr

/-- Pan Docs 0147: cartridge type → controller (RAM / battery / timer / rumble variants share the controller) -/
def controller? (t : Nat) : Option Controller :=
  if t = 0x00 then some .romOnly
  else if 0x01 ≤ t ∧ t ≤ 0x03 then some .mbc1
  else if 0x05 ≤ t ∧ t ≤ 0x06 then some .mbc2
  else if 0x08 ≤ t ∧ t ≤ 0x09 then some .romOnly      -- ROM+RAM, ROM+RAM+BATTERY
  else if 0x0B ≤ t ∧ t ≤ 0x0D then some .mmm01
  else if 0x0F ≤ t ∧ t ≤ 0x13 then some .mbc3
  else if 0x19 ≤ t ∧ t ≤ 0x1E then some .mbc5
  else if t = 0x20 then some .mbc6
  else if t = 0x22 then some .mbc7
  else if t = 0xFC then some .camera
  else if t = 0xFD then some .tama5
  else if t = 0xFE then some .huc3
  else if t = 0xFF then some .huc1
  else none

/-- the controllers this emulator implements (property text: everything else is "an unsupported type") -/
def implemented : Controller → Bool
  | .romOnly | .mbc1 | .mbc3 => true
  | _ => false

/-- a type byte the emulator may accept: it names an implemented controller -/
def typeSupported (t : Nat) : Bool :=
  match controller? t with
  | some c => implemented c
  | none => false

/-- smallest file that contains the whole header: 0x100 + 80 -/
def headerEnd : Nat := 0x150

/-- The property's rejection rule: a file of `len` bytes with content `rom` must NOT be accepted when it is
too short to hold a header, its header checksum is wrong, its type is unsupported, or it is smaller than the
ROM size its header declares. -/
def mustReject (rom : Nat → Nat) (len : Nat) : Bool :=
  len < headerEnd || !checksumOk rom || !typeSupported (rom 0x147) ||
    (match romBytes? (rom 0x148) with
     | some n => len < n
     | none => false)

/-- what a run of the emulator on a file looks like from outside -/
inductive Observed where
  | rejected      -- a message at load time, or a controlled termination (exit code, e.g. a Rust panic = 101)
  | accepted      -- the guest program runs
  | fault         -- killed by a signal (SIGBUS / SIGSEGV / SIGABRT …) at any time
deriving DecidableEq, Repr

/-- the property on one observed run -/
def allowed (rom : Nat → Nat) (len : Nat) : Observed → Bool
  | .rejected => true
  | .accepted => !mustReject rom len
  | .fault => false

end GbVerif.HeaderSpec
