/-
Spec for C18 from the property text: the bytes that must appear on standard output, as a function of the
sequence of guest writes to the serial data (0xFF01) and control (0xFF02) registers.
-/
namespace GbVerif.SerialSpec

/-- (latched data byte, output so far) after one write -/
def step (st : Nat × List Nat) (w : Nat × Nat) : Nat × List Nat :=
  if w.1 = 0xff01 then (w.2, st.2)                                   -- data register alone: nothing is emitted
  else if w.1 = 0xff02 then (if w.2 / 128 % 2 = 1 then (st.1, st.2 ++ [st.1]) else st)   -- control with bit 7: emit the byte then held
  else st

def output (ws : List (Nat × Nat)) : List Nat := (ws.foldl step (0, [])).2

end GbVerif.SerialSpec
