/-! Bit numbering used by the frame reference (`Spec/Frame.lean`); in its own file so that the
2^16-case enumeration about `interleave` does not depend on the rest of the reference. -/
namespace GbVerif.FrameSpec

/-- value (0/1) of bit `k` of a byte -/
def bit (v k : Nat) : Nat := v / 2 ^ k % 2

end GbVerif.FrameSpec
