import GbVerif.Model.Bus
/-
SM83 instruction-set spec, written from the ISA definition (opcode bit patterns x/y/z/p/q, arithmetic
flag definitions), independently of the emulator's `Op` enum, decoder tables and interpreter.
One function `step` gives, for an opcode and its operand bytes, the architectural effect on
A F B C D E H L SP PC, memory (through an abstract bus), the machine cycles taken, and the
control outcome (normal / halt / stop / DI / EI / RETI).
-/
namespace GbVerif.SM83

structure Cpu where
  a : Nat := 0
  f : Nat := 0      -- Z N H C in bits 7..4, low nibble always 0
  b : Nat := 0
  c : Nat := 0
  d : Nat := 0
  e : Nat := 0
  h : Nat := 0
  l : Nat := 0
  sp : Nat := 0
  pc : Nat := 0
deriving DecidableEq, Repr, Inhabited

inductive Outcome where
  | normal | stop | halt | di | ei | reti | undefined
deriving DecidableEq, Repr

structure Mem (β : Type) where
  read : β → Nat → Except Bus.Panic Nat
  write : β → Nat → Nat → Except Bus.Panic β

def flagZ (f : Nat) : Bool := f / 128 % 2 = 1
def flagN (f : Nat) : Bool := f / 64 % 2 = 1
def flagH (f : Nat) : Bool := f / 32 % 2 = 1
def flagC (f : Nat) : Bool := f / 16 % 2 = 1
def mkF (z n h c : Bool) : Nat := (if z then 128 else 0) + (if n then 64 else 0) + (if h then 32 else 0) + (if c then 16 else 0)

def hl (s : Cpu) : Nat := s.h * 256 + s.l
def bc (s : Cpu) : Nat := s.b * 256 + s.c
def de (s : Cpu) : Nat := s.d * 256 + s.e
def setHL (s : Cpu) (v : Nat) : Cpu := { s with h := v / 256 % 256, l := v % 256 }

/-- 8-bit register operand `r[z]`: 0..7 = B C D E H L (HL) A; 6 is handled by the callers -/
def getR (s : Cpu) : Nat → Nat
  | 0 => s.b | 1 => s.c | 2 => s.d | 3 => s.e | 4 => s.h | 5 => s.l | _ => s.a
def setR (s : Cpu) (i v : Nat) : Cpu :=
  match i with
  | 0 => { s with b := v } | 1 => { s with c := v } | 2 => { s with d := v } | 3 => { s with e := v }
  | 4 => { s with h := v } | 5 => { s with l := v } | _ => { s with a := v }

/-- register pair `rp[p]`: BC DE HL SP -/
def getRP (s : Cpu) : Nat → Nat
  | 0 => bc s | 1 => de s | 2 => hl s | _ => s.sp
def setRP (s : Cpu) (p v : Nat) : Cpu :=
  match p with
  | 0 => { s with b := v / 256 % 256, c := v % 256 }
  | 1 => { s with d := v / 256 % 256, e := v % 256 }
  | 2 => setHL s v
  | _ => { s with sp := v % 65536 }

/-- condition `cc[y]`: NZ Z NC C -/
def cond (s : Cpu) : Nat → Bool
  | 0 => !flagZ s.f | 1 => flagZ s.f | 2 => !flagC s.f | _ => flagC s.f

/-- the eight ALU operations `alu[y]` on A and an operand: ADD ADC SUB SBC AND XOR OR CP -/
def alu (s : Cpu) (y v : Nat) : Cpu :=
  let a := s.a
  let cy := if flagC s.f then 1 else 0
  match y with
  | 0 => { s with a := (a + v) % 256, f := mkF ((a + v) % 256 = 0) false (a % 16 + v % 16 ≥ 16) (a + v ≥ 256) }
  | 1 => { s with a := (a + v + cy) % 256, f := mkF ((a + v + cy) % 256 = 0) false (a % 16 + v % 16 + cy ≥ 16) (a + v + cy ≥ 256) }
  | 2 => { s with a := (a + 256 - v) % 256, f := mkF (a = v) true (a % 16 < v % 16) (a < v) }
  | 3 => { s with a := (a + 512 - v - cy) % 256, f := mkF ((a + 512 - v - cy) % 256 = 0) true (a % 16 < v % 16 + cy) (a < v + cy) }
  | 4 => { s with a := a &&& v, f := mkF (a &&& v = 0) false true false }
  | 5 => { s with a := a ^^^ v, f := mkF (a ^^^ v = 0) false false false }
  | 6 => { s with a := a ||| v, f := mkF (a ||| v = 0) false false false }
  | _ => { s with f := mkF (a = v) true (a % 16 < v % 16) (a < v) }

/-- the eight CB rotate/shift operations `rot[y]`: RLC RRC RL RR SLA SRA SWAP SRL; (result, flags) -/
def rot (f y v : Nat) : Nat × Nat :=
  let cy := if flagC f then 1 else 0
  let res : Nat × Bool := match y with
    | 0 => ((v * 2) % 256 + v / 128, v / 128 = 1)
    | 1 => (v / 2 + (v % 2) * 128, v % 2 = 1)
    | 2 => ((v * 2) % 256 + cy, v / 128 = 1)
    | 3 => (v / 2 + cy * 128, v % 2 = 1)
    | 4 => ((v * 2) % 256, v / 128 = 1)
    | 5 => (v / 2 + (v / 128) * 128, v % 2 = 1)
    | 6 => ((v % 16) * 16 + v / 16, false)
    | _ => (v / 2, v % 2 = 1)
  (res.1, mkF (res.1 = 0) false false res.2)

/-- DAA: decimal adjust after addition/subtraction -/
def daa (a f : Nat) : Nat × Nat :=
  let n := flagN f; let h := flagH f; let c := flagC f
  if !n then
    let adj := (if h || a % 16 > 9 then 0x06 else 0) + (if c || a > 0x99 then 0x60 else 0)
    let c' := c || a > 0x99
    let r := (a + adj) % 256
    (r, mkF (r = 0) false false c')
  else
    let adj := (if h then 0x06 else 0) + (if c then 0x60 else 0)
    let r := (a + 256 - adj) % 256
    (r, mkF (r = 0) true false c)

/-- SP + signed e8: result and flags (Z=N=0, H and C from the unsigned low-byte addition) -/
def spPlus (sp e : Nat) : Nat × Nat :=
  let se := if e < 128 then e else e + 65280      -- sign extension to 16 bits
  ((sp + se) % 65536, mkF false false (sp % 16 + e % 16 ≥ 16) (sp % 256 + e ≥ 256))

section
variable {β : Type} (M : Mem β)

def push16 (s : Cpu) (m : β) (v : Nat) : Except Bus.Panic (Cpu × β) := do
  let m ← M.write m ((s.sp + 65535) % 65536) (v / 256 % 256)
  let m ← M.write m ((s.sp + 65534) % 65536) (v % 256)
  pure ({ s with sp := (s.sp + 65534) % 65536 }, m)

def pop16 (s : Cpu) (m : β) : Except Bus.Panic (Nat × Cpu) := do
  let lo ← M.read m s.sp
  let hi ← M.read m ((s.sp + 1) % 65536)
  pure (hi * 256 + lo, { s with sp := (s.sp + 2) % 65536 })

/-- operand `r[z]` read, going to memory for z = 6 -/
def readR (s : Cpu) (m : β) (z : Nat) : Except Bus.Panic Nat :=
  if z = 6 then M.read m (hl s) else pure (getR s z)
def writeR (s : Cpu) (m : β) (z v : Nat) : Except Bus.Panic (Cpu × β) :=
  if z = 6 then do let m ← M.write m (hl s) v; pure (s, m) else pure (setR s z v, m)

def next (s : Cpu) (n : Nat) : Cpu := { s with pc := (s.pc + n) % 65536 }

/-- CB-prefixed instruction with second byte `op` -/
def stepCB (s : Cpu) (m : β) (op : Nat) : Except Bus.Panic (Cpu × β × Nat × Outcome) := do
  let x := op / 64; let y := op / 8 % 8; let z := op % 8
  let v ← readR M s m z
  let cyc := if z = 6 then (if x = 1 then 3 else 4) else 2
  let s := next s 2
  match x with
  | 0 =>
    let (r, f) := rot s.f y v
    let (s, m) ← writeR M s m z r
    pure ({ s with f := f }, m, cyc, .normal)
  | 1 => pure ({ s with f := mkF (v / 2 ^ y % 2 = 0) false true (flagC s.f) }, m, cyc, .normal)
  | 2 => let (s, m) ← writeR M s m z (v - (v / 2 ^ y % 2) * 2 ^ y); pure (s, m, cyc, .normal)
  | _ => let (s, m) ← writeR M s m z (v + (1 - v / 2 ^ y % 2) * 2 ^ y); pure (s, m, cyc, .normal)

/-- one instruction: opcode `op`, operand bytes `n1 n2`; returns state, memory, machine cycles, outcome -/
def step (s : Cpu) (m : β) (op n1 n2 : Nat) : Except Bus.Panic (Cpu × β × Nat × Outcome) := do
  let x := op / 64; let y := op / 8 % 8; let z := op % 8; let p := y / 2; let q := y % 2
  let nn := n2 * 256 + n1
  let ok (s : Cpu) (m : β) (len cyc : Nat) : Except Bus.Panic (Cpu × β × Nat × Outcome) := pure (next s len, m, cyc, .normal)
  if op = 0xCB then stepCB M s m n1
  else if op ∈ [0xD3, 0xDB, 0xDD, 0xE3, 0xE4, 0xEB, 0xEC, 0xED, 0xF4, 0xFC, 0xFD] then pure (s, m, 0, .undefined)
  else match x with
  | 0 =>
    match z with
    | 0 =>
      if y = 0 then ok s m 1 1
      else if y = 1 then do                       -- LD (nn),SP
        let m ← M.write m nn (s.sp % 256)
        let m ← M.write m ((nn + 1) % 65536) (s.sp / 256)
        ok s m 3 5
      else if y = 2 then pure (next s 2, m, 1, .stop)
      else
        let taken := y = 3 || cond s (y - 4)
        let rel := if n1 < 128 then n1 else n1 + 65280
        if taken then pure ({ s with pc := (s.pc + 2 + rel) % 65536 }, m, 3, .normal) else ok s m 2 2
    | 1 =>
      if q = 0 then ok (setRP s p nn) m 3 3
      else
        let a := hl s; let b := getRP s p
        ok { setHL s ((a + b) % 65536) with f := mkF (flagZ s.f) false (a % 4096 + b % 4096 ≥ 4096) (a + b ≥ 65536) } m 1 2
    | 2 =>
      let addr := match p with | 0 => bc s | 1 => de s | _ => hl s
      let s' := if p = 2 then setHL s ((hl s + 1) % 65536) else if p = 3 then setHL s ((hl s + 65535) % 65536) else s
      if q = 0 then do let m ← M.write m addr s.a; ok s' m 1 2
      else do let v ← M.read m addr; ok { s' with a := v } m 1 2
    | 3 => ok (setRP s p ((getRP s p + (if q = 0 then 1 else 65535)) % 65536)) m 1 2
    | 4 => do
      let v ← readR M s m y
      let r := (v + 1) % 256
      let (s, m) ← writeR M s m y r
      ok { s with f := mkF (r = 0) false (v % 16 = 15) (flagC s.f) } m 1 (if y = 6 then 3 else 1)
    | 5 => do
      let v ← readR M s m y
      let r := (v + 255) % 256
      let (s, m) ← writeR M s m y r
      ok { s with f := mkF (r = 0) true (v % 16 = 0) (flagC s.f) } m 1 (if y = 6 then 3 else 1)
    | 6 => do let (s, m) ← writeR M s m y n1; ok s m 2 (if y = 6 then 3 else 2)
    | _ =>
      match y with
      | 0 => ok { s with a := (s.a * 2) % 256 + s.a / 128, f := mkF false false false (s.a / 128 = 1) } m 1 1      -- RLCA
      | 1 => ok { s with a := s.a / 2 + (s.a % 2) * 128, f := mkF false false false (s.a % 2 = 1) } m 1 1          -- RRCA
      | 2 => ok { s with a := (s.a * 2) % 256 + (if flagC s.f then 1 else 0), f := mkF false false false (s.a / 128 = 1) } m 1 1  -- RLA
      | 3 => ok { s with a := s.a / 2 + (if flagC s.f then 128 else 0), f := mkF false false false (s.a % 2 = 1) } m 1 1          -- RRA
      | 4 => let (r, f) := daa s.a s.f; ok { s with a := r, f := f } m 1 1
      | 5 => ok { s with a := 255 - s.a, f := mkF (flagZ s.f) true true (flagC s.f) } m 1 1                          -- CPL
      | 6 => ok { s with f := mkF (flagZ s.f) false false true } m 1 1                                              -- SCF
      | _ => ok { s with f := mkF (flagZ s.f) false false (!flagC s.f) } m 1 1                                      -- CCF
  | 1 =>
    if op = 0x76 then pure (next s 1, m, 1, .halt)
    else do
      let v ← readR M s m z
      let (s, m) ← writeR M s m y v
      ok s m 1 (if y = 6 || z = 6 then 2 else 1)
  | 2 => do let v ← readR M s m z; ok (alu s y v) m 1 (if z = 6 then 2 else 1)
  | _ =>
    match z with
    | 0 =>
      if y < 4 then
        if cond s y then do let (a, s) ← pop16 M s m; pure ({ s with pc := a }, m, 5, .normal) else ok s m 1 2
      else if y = 4 then do let m ← M.write m (0xff00 + n1) s.a; ok s m 2 3
      else if y = 5 then let (r, f) := spPlus s.sp n1; ok { s with sp := r, f := f } m 2 4
      else if y = 6 then do let v ← M.read m (0xff00 + n1); ok { s with a := v } m 2 3
      else let (r, f) := spPlus s.sp n1; ok { setHL s r with f := f } m 2 3
    | 1 =>
      if q = 0 then do
        let (v, s) ← pop16 M s m
        let s := match p with
          | 0 => { s with b := v / 256, c := v % 256 } | 1 => { s with d := v / 256, e := v % 256 }
          | 2 => { s with h := v / 256, l := v % 256 } | _ => { s with a := v / 256, f := v % 256 / 16 * 16 }
        ok s m 1 3
      else if p = 0 then do let (a, s) ← pop16 M s m; pure ({ s with pc := a }, m, 4, .normal)
      else if p = 1 then do let (a, s) ← pop16 M s m; pure ({ s with pc := a }, m, 4, .reti)
      else if p = 2 then pure ({ s with pc := hl s }, m, 1, .normal)
      else ok { s with sp := hl s } m 1 2
    | 2 =>
      if y < 4 then (if cond s y then pure ({ s with pc := nn }, m, 4, .normal) else ok s m 3 3)
      else if y = 4 then do let m ← M.write m (0xff00 + s.c) s.a; ok s m 1 2
      else if y = 5 then do let m ← M.write m nn s.a; ok s m 3 4
      else if y = 6 then do let v ← M.read m (0xff00 + s.c); ok { s with a := v } m 1 2
      else do let v ← M.read m nn; ok { s with a := v } m 3 4
    | 3 =>
      if y = 0 then pure ({ s with pc := nn }, m, 4, .normal)
      else if y = 6 then pure (next s 1, m, 1, .di)
      else pure (next s 1, m, 1, .ei)
    | 4 =>
      if cond s y then do
        let (s, m) ← push16 M s m ((s.pc + 3) % 65536)
        pure ({ s with pc := nn }, m, 6, .normal)
      else ok s m 3 3
    | 5 =>
      if q = 0 then
        let v := match p with | 0 => bc s | 1 => de s | 2 => hl s | _ => s.a * 256 + s.f
        do let (s, m) ← push16 M s m v; ok s m 1 4
      else do
        let (s, m) ← push16 M s m ((s.pc + 3) % 65536)
        pure ({ s with pc := nn }, m, 6, .normal)
    | 6 => ok (alu s y n1) m 2 2
    | _ => do
      let (s, m) ← push16 M s m ((s.pc + 1) % 65536)
      pure ({ s with pc := y * 8 }, m, 4, .normal)

end

end GbVerif.SM83

namespace GbVerif.SM83

/-- instructions that redirect control or change the halt / interrupt-enable state (block terminators) -/
def terminates (op : Nat) : Bool :=
  let x := op / 64; let y := op / 8 % 8; let z := op % 8
  if x = 0 then z = 0 && y ≥ 2                                   -- STOP, JR, JR cc
  else if x = 1 then op = 0x76                                    -- HALT
  else if x = 2 then false
  else (z = 0 && y < 4)                                           -- RET cc
    || (z = 1 && y % 2 = 1 && y / 2 ≤ 2)                          -- RET, RETI, JP HL
    || (z = 2 && y < 4)                                           -- JP cc
    || (z = 3 && (y = 0 || y = 6 || y = 7))                       -- JP, DI, EI
    || (z = 4 && y < 4)                                           -- CALL cc
    || op = 0xCD                                                  -- CALL
    || z = 7                                                      -- RST

def isUndefined (op : Nat) : Bool := op ∈ [0xD3, 0xDB, 0xDD, 0xE3, 0xE4, 0xEB, 0xEC, 0xED, 0xF4, 0xFC, 0xFD]

/-- encoded length in bytes -/
def length (op : Nat) : Nat :=
  let x := op / 64; let y := op / 8 % 8; let z := op % 8
  if op = 0xCB then 2
  else if x = 0 then
    if z = 0 then (if y = 0 then 1 else if y = 1 then 3 else 2)
    else if z = 1 then (if y % 2 = 0 then 3 else 1)
    else if z = 6 then 2 else 1
  else if x = 1 ∨ x = 2 then 1
  else
    if z = 0 then (if y < 4 then 1 else 2)
    else if z = 2 then (if y < 4 then 3 else if y % 2 = 0 then 1 else 3)
    else if z = 3 then (if y = 0 then 3 else 1)
    else if z = 4 then 3
    else if z = 5 then (if op = 0xCD then 3 else 1)
    else if z = 6 then 2 else 1

end GbVerif.SM83
