import GbVerif.Spec.Bits
/-
Reference composition of a DMG frame, written from the Game Boy definition (Pan Docs: "LCD
Control", "Tile Data", "Tile Maps", "OAM", "Palettes", "Scrolling") and the text of property
C15 — not from the emulator's code.  It is a *per-pixel* function: nothing here knows about
shift registers, 4-dot steps, line caches or sweeps.

Memories are functions from an offset to a byte: `vram a` is the byte at 0x8000 + a
(a < 0x2000), `oam a` the byte at 0xFE00 + a (a < 0xA0).  All registers are bytes.

Window line: the window row shown on screen line `ly` is `ly − WY`.  (Hardware keeps an internal
window line counter that only advances on lines where the window is actually shown; for register
contents held constant over the frame — which is what C15 quantifies over — the window is
shown on every line from WY on or on none, so the counter equals `ly − WY`.  The WX=0/WX=166
hardware glitches are outside this reference.)
-/
namespace GbVerif.FrameSpec

structure Regs where
  lcdc : Nat
  scx : Nat
  scy : Nat
  wx : Nat
  wy : Nat
  bgp : Nat
  obp0 : Nat
  obp1 : Nat
deriving Repr, DecidableEq

abbrev Mem := Nat → Nat

def lcdcBit (r : Regs) (k : Nat) : Bool := r.lcdc.testBit k

/-- 2bpp tile data: colour index of the pixel in column `col` (0 = leftmost) of the tile row
whose two bytes are at `a` (low bit plane) and `a + 1` (high bit plane); bit 7 is the leftmost pixel -/
def tileRowColour (vram : Mem) (a col : Nat) : Nat :=
  bit (vram a) (7 - col) + 2 * bit (vram (a + 1)) (7 - col)

/-- BG/window tile data: LCDC.4 = 1 → unsigned from 0x8000; LCDC.4 = 0 → signed from 0x9000 -/
def bgTileData (r : Regs) (idx : Nat) : Nat :=
  if lcdcBit r 4 then idx * 16
  else if idx < 128 then 0x1000 + idx * 16
  else 0x1000 - (256 - idx) * 16

/-- tile map at 0x9800 or 0x9C00 -/
def mapBase (high : Bool) : Nat := if high then 0x1c00 else 0x1800

/-- colour index of map pixel (`px`, `py`) of the 256×256 (32×32 tiles) map at `base` -/
def mapColour (r : Regs) (vram : Mem) (base px py : Nat) : Nat :=
  let idx := vram (base + (py / 8) * 32 + px / 8)
  tileRowColour vram (bgTileData r idx + 2 * (py % 8)) (px % 8)

/-- background: scrolled by (SCX, SCY) with wrap-around, map chosen by LCDC.3 -/
def bgColour (r : Regs) (vram : Mem) (x ly : Nat) : Nat :=
  mapColour r vram (mapBase (lcdcBit r 3)) ((x + r.scx) % 256) ((ly + r.scy) % 256)

/-- the window covers (x, ly): LCDC.5, ly ≥ WY, x + 7 ≥ WX -/
def windowAt (r : Regs) (x ly : Nat) : Bool :=
  lcdcBit r 5 && decide (r.wy ≤ ly) && decide (r.wx ≤ x + 7)

/-- window: not scrolled, top-left corner at (WX − 7, WY), map chosen by LCDC.6 -/
def windowColour (r : Regs) (vram : Mem) (x ly : Nat) : Nat :=
  mapColour r vram (mapBase (lcdcBit r 6)) (x + 7 - r.wx) (ly - r.wy)

def bgWinColour (r : Regs) (vram : Mem) (x ly : Nat) : Nat :=
  if windowAt r x ly then windowColour r vram x ly else bgColour r vram x ly

/-! ### objects -/

def objHeight (r : Regs) : Nat := if lcdcBit r 2 then 16 else 8

def objY (oam : Mem) (i : Nat) : Nat := oam (4 * i)
def objX (oam : Mem) (i : Nat) : Nat := oam (4 * i + 1)
def objTile (oam : Mem) (i : Nat) : Nat := oam (4 * i + 2)
def objAttr (oam : Mem) (i : Nat) : Nat := oam (4 * i + 3)

/-- object `i` covers line `ly`: its top line is Y − 16 -/
def objOnLine (r : Regs) (oam : Mem) (ly i : Nat) : Bool :=
  decide (objY oam i ≤ ly + 16) && decide (ly + 16 < objY oam i + objHeight r)

/-- at most ten objects per line, chosen in OAM order (regardless of their X) -/
def selected (r : Regs) (oam : Mem) (ly : Nat) : List Nat :=
  ((List.range 40).filter (objOnLine r oam ly)).take 10

/-- colour index (0 = transparent / not covering) that object `i`, assumed to cover line `ly`,
shows at screen column `x`: left edge at X − 8; X flip (attr.5), Y flip (attr.6); an 8×16
object ignores bit 0 of its tile index: top half = index & 0xFE, bottom half = index | 1 -/
def objColour (r : Regs) (vram oam : Mem) (i x ly : Nat) : Nat :=
  let ox := objX oam i
  if ox ≤ x + 8 ∧ x + 8 < ox + 8 then
    let h := objHeight r
    let col := x + 8 - ox
    let row := ly + 16 - objY oam i
    let col := if (objAttr oam i).testBit 5 then 7 - col else col
    let row := if (objAttr oam i).testBit 6 then h - 1 - row else row
    let tile := if h = 16 then (if row < 8 then objTile oam i &&& 0xfe else objTile oam i ||| 1)
                else objTile oam i
    tileRowColour vram (tile * 16 + 2 * (row % 8)) col
  else 0

/-- object `i` beats object `j` at a pixel both cover with an opaque colour: lower X, or equal X
and lower (or the same) OAM index -/
def beats (oam : Mem) (i j : Nat) : Bool :=
  decide (objX oam i < objX oam j) || (decide (objX oam i = objX oam j) && decide (i ≤ j))

/-- the object shown at (x, ly): the candidate with an opaque pixel there that beats every other
candidate with an opaque pixel there (lowest X first, then lowest OAM index) -/
def winnerOf (r : Regs) (vram oam : Mem) (sel : List Nat) (x ly : Nat) : Option Nat :=
  sel.find? fun i =>
    objColour r vram oam i x ly != 0 &&
    sel.all fun j => objColour r vram oam j x ly == 0 || beats oam i j

/-- DMG shades as the emulator's frame buffer encodes them: 0 → 255 (white) … 3 → 0 (black) -/
def shadeOf (s : Nat) : Nat :=
  if s = 0 then 255 else if s = 1 then 170 else if s = 2 then 85 else 0

/-- palette register `pal` applied to colour index `c` -/
def paletteShade (pal c : Nat) : Nat := shadeOf ((pal >>> (2 * c)) % 4)

/-- the pixel at (x, ly) given the objects selected for the line -/
def pixelOf (r : Regs) (vram oam : Mem) (sel : List Nat) (x ly : Nat) : Nat :=
  let bg := bgWinColour r vram x ly
  match (if lcdcBit r 1 then winnerOf r vram oam sel x ly else none) with
  | none => paletteShade r.bgp bg
  | some i =>
    let attr := objAttr oam i
    if attr.testBit 7 && bg != 0 then paletteShade r.bgp bg      -- BG colours 1–3 over the object
    else paletteShade (if attr.testBit 4 then r.obp1 else r.obp0) (objColour r vram oam i x ly)

/-- the reference pixel (LCD and BG enabled) -/
def pixel (r : Regs) (vram oam : Mem) (x ly : Nat) : Nat :=
  pixelOf r vram oam (selected r oam ly) x ly

/-- the reference frame, row-major 160 × 144 -/
def frame (r : Regs) (vram oam : Mem) : Array Nat :=
  Array.ofFn (n := 23040) fun k => pixel r vram oam (k.val % 160) (k.val / 160)

end GbVerif.FrameSpec
