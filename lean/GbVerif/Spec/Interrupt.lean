import GbVerif.Model.Core
/-
Spec for C07, from the property text: wake-up, master enable, priority order, vectors, push order,
cancellation, five machine cycles.  IF and IE are read *through the bus* (0xFF0F, 0xFFFF) and the return address
is pushed *through the bus*, so that pushes landing on IE / IF / ROM / region boundaries are covered by the bus semantics.
-/
namespace GbVerif.InterruptSpec
open GbVerif.Core

/-- sources in priority order: (IF/IE bit, vector) — VBlank, STAT, Timer, Serial, Joypad -/
def sources : List (Nat × Nat) := [(1, 0x40), (2, 0x48), (4, 0x50), (8, 0x58), (16, 0x60)]

/-- requested ∧ enabled sources, as the guest sees them -/
def pending (b : Bus.State) : Except Bus.Panic Nat := do
  let f ← Bus.read b 0xff0f
  let e ← Bus.read b 0xffff
  pure (f % 32 &&& e % 32)

def dispatch (c : State) : Except Bus.Panic State := do
  let p ← pending c.bus
  if p = 0 then pure c                                            -- nothing requested and enabled: no effect at all
  else
    let c := { c with run := .Run }                               -- a halted / stopped CPU resumes
    if c.ime ≠ .Enabled then pure c                               -- master enable off (or pending EI): nothing else changes
    else do
      let pc := c.regs.ip % 65536
      let sp := c.regs.sp % 65536
      let b ← Bus.write c.bus ((sp + 65535) % 65536) (pc / 256)   -- high byte first, at SP-1
      let p' ← pending b                                          -- the push may have cancelled the request
      let b ← Bus.write b ((sp + 65534) % 65536) (pc % 256)       -- low byte at SP-2
      let (b, target) ← match sources.find? (fun s => p' &&& s.1 ≠ 0) with
        | some (bit, vector) => do
          let f ← Bus.read b 0xff0f
          let b ← Bus.write b 0xff0f (f % 32 - (f % 32 / bit % 2) * bit)   -- only that IF bit is cleared (if still set)
          pure (b, vector)
        | none => pure (b, 0)                                     -- cancelled: PC = 0x0000, no IF bit cleared
      pure { c with ime := .Disabled, bus := b,
                    regs := { c.regs with sp := (sp + 65534) % 65536, ip := target, cycles := c.regs.cycles + 5 },
                    charged := c.charged + 5 }

end GbVerif.InterruptSpec
