/-
Spec for C13, written from the property text / the hardware description (not from the code):

* a divider counts every clock; DIV shows bits 8..15 of the clocks elapsed since DIV was last written
  (power-on counts as a write);
* TAC bits 0..1 select one divider bit (period 1024, 16, 64, 256 clocks = bit 9, 3, 5, 7), TAC bit 2 enables;
  TIMA is clocked by the falling edge of `selected bit ∧ enable`, whether the edge comes from the divider
  counting or from a TAC write;
* a TIMA tick at 0xFF reloads TMA and requests the timer interrupt.

Deliberately absent (not part of the property): the falling edge a DIV write can produce.
The machine advances one clock at a time; there is no notion of a batch here.
-/
namespace GbVerif.TimerSpec

structure Hw where
  elapsed : Nat   -- clocks since the last DIV write (unbounded)
  tima : Nat
  tma : Nat
  tac : Nat
deriving DecidableEq, Repr

/-- power-on -/
def init : Hw := ⟨0, 0, 0, 0⟩

/-- DIV = bits 8..15 of the elapsed clocks -/
def div (h : Hw) : Nat := (h.elapsed / 256) % 256

/-- divider bit watched for a given TAC -/
def selBit (tac : Nat) : Nat :=
  match tac % 4 with
  | 0 => 9
  | 1 => 3
  | 2 => 5
  | _ => 7

/-- the selected period in clocks: 1024, 16, 64, 256 -/
def period (tac : Nat) : Nat := 2 ^ (selBit tac + 1)

def enabled (tac : Nat) : Bool := tac.testBit 2

/-- the signal whose falling edge clocks TIMA -/
def signal (h : Hw) : Bool := h.elapsed.testBit (selBit h.tac) && enabled h.tac

/-- TIMA is clocked once -/
def tickTima (h : Hw) : Hw × Bool :=
  if h.tima = 255 then ({ h with tima := h.tma }, true) else ({ h with tima := h.tima + 1 }, false)

/-- falling-edge detector between two consecutive values of the signal -/
def edge (before after : Bool) (h : Hw) : Hw × Bool :=
  if before && !after then tickTima h else (h, false)

/-- one clock -/
def clock (h : Hw) : Hw × Bool :=
  let h' := { h with elapsed := h.elapsed + 1 }
  edge (signal h) (signal h') h'

/-- `n` clocks; the interrupt request is the OR of the per-clock requests -/
def clocks : Nat → Hw → Hw × Bool
  | 0, h => (h, false)
  | n + 1, h => let r := clock h; let q := clocks n r.1; (q.1, r.2 || q.2)

/-- tail-recursive form used by the replay driver (same function, see `clocksAcc_eq` in Proofs/Timer) -/
def clocksAcc : Nat → Hw → Bool → Hw × Bool
  | 0, h, f => (h, f)
  | n + 1, h, f => let r := clock h; clocksAcc n r.1 (f || r.2)

/-- TIMA clocked `m` times in a row (requests OR-ed) -/
def tickTimaN : Nat → Hw → Hw × Bool
  | 0, h => (h, false)
  | m + 1, h => let r := tickTima h; let q := tickTimaN m r.1; (q.1, r.2 || q.2)

/-- `n` clocks without stepping through them: while disabled only the elapsed count moves; while enabled
TIMA is clocked `⌊(e+n)/P⌋ − ⌊e/P⌋` times.  Proved equal to `clocks` (`GbVerif.C13.clocksFast_eq`); the replay
driver uses it for long batches only. -/
def clocksFast (n : Nat) (h : Hw) : Hw × Bool :=
  if enabled h.tac then
    let r := tickTimaN ((h.elapsed + n) / period h.tac - h.elapsed / period h.tac) h
    ({ r.1 with elapsed := h.elapsed + n }, r.2)
  else ({ h with elapsed := h.elapsed + n }, false)

def writeDiv (h : Hw) : Hw := { h with elapsed := 0 }
def writeTima (h : Hw) (v : Nat) : Hw := { h with tima := v % 256 }
def writeTma (h : Hw) (v : Nat) : Hw := { h with tma := v % 256 }

/-- a TAC write changes the selection/enable instantly; the edge detector sees the change -/
def writeTac (h : Hw) (v : Nat) : Hw × Bool :=
  let h' := { h with tac := v % 256 }
  edge (signal h) (signal h') h'

/-- events at the level of the property text -/
inductive Ev where
  | div | tima (v : Nat) | tma (v : Nat) | tac (v : Nat) | time (n : Nat)
deriving DecidableEq, Repr

def apply (h : Hw) : Ev → Hw × Bool
  | .div => (writeDiv h, false)
  | .tima v => (writeTima h v, false)
  | .tma v => (writeTma h v, false)
  | .tac v => writeTac h v
  | .time n => clocks n h

def exec : List Ev → Hw → Hw × List Bool
  | [], h => (h, [])
  | e :: es, h => let r := apply h e; let q := exec es r.1; (q.1, r.2 :: q.2)

/-- clocks elapsed since the last DIV write in a history (since power-on if there is none):
read left to right, a DIV write restarts the count, time adds to it, nothing else touches it -/
def sinceDivWrite (es : List Ev) : Nat :=
  es.foldl (fun acc e => match e with
    | .div => 0
    | .time n => acc + n
    | _ => acc) 0

end GbVerif.TimerSpec
