/-
Spec for C14, written from the property text / the DMG LCD timing (not from the code):
a frame is 154 lines of 456 clocks (70224 clocks); lines 0..143 are mode 2 for 80 clocks, mode 3
for 188, mode 0 for 188; lines 144..153 are mode 1.  Time `t` counts clocks since power-on,
and power-on is the first clock of line 144 (start of VBlank).
-/
namespace GbVerif.LcdSpec

def lineClocks : Nat := 456
def frameLines : Nat := 154
def frameClocks : Nat := 70224      -- = 154 * 456
def vblankClocks : Nat := 4560      -- = 10 * 456

/-- where the LCD is at a given clock: LY, STAT mode, and clocks spent so far in the current mode
(in VBlank: in the current line) -/
structure Pos where
  line : Nat
  mode : Nat
  dots : Nat
deriving DecidableEq, Repr

/-- closed-form schedule -/
def sched (t : Nat) : Pos :=
  let u := t % 70224
  if u < 4560 then ⟨144 + u / 456, 1, u % 456⟩
  else
    let v := u - 4560
    let d := v % 456
    if d < 80 then ⟨v / 456, 2, d⟩
    else if d < 268 then ⟨v / 456, 3, d - 80⟩
    else ⟨v / 456, 0, d - 268⟩

/-- the same schedule said a second way, straight from the property sentence: LY advances every
456 clocks through 0..153 (starting at 144); the mode is 1 on lines ≥ 144, otherwise decided by
the clock within the line (80 / 188 / 188). -/
def lyAt (t : Nat) : Nat := (144 + t / 456) % 154

def modeAt (t : Nat) : Nat :=
  if lyAt t ≥ 144 then 1
  else
    let d := t % 456
    if d < 80 then 2 else if d < 268 then 3 else 0

/-- the four STAT interrupt enables (bits 6, 5, 4, 3 of FF41) -/
structure Enables where
  lyc : Bool
  m2 : Bool
  m1 : Bool
  m0 : Bool
deriving DecidableEq, Repr

def Enables.ofByte (v : Nat) : Enables :=
  ⟨v.testBit 6, v.testBit 5, v.testBit 4, v.testBit 3⟩

/-- the enable bit of a mode; mode 3 has none -/
def Enables.forMode (e : Enables) : Nat → Bool
  | 0 => e.m0
  | 1 => e.m1
  | 2 => e.m2
  | _ => false

/-! Events, first as predicates on two consecutive sampled positions `p` (before) and `q` (after),
then between two sample times `a < b` with no schedule boundary skipped in between
(the checks use `b = a + 4`; `Props/C14.lean` proves that every boundary of `sched` lies on a
multiple of 4, so sampling every 4 clocks loses nothing). -/

/-- LY becomes 144: the VBlank interrupt must be requested -/
def vblankEvP (p q : Pos) : Bool := p.line != 144 && q.line == 144

/-- a mode is entered -/
def modeEnteredP (p q : Pos) : Bool := p.mode != q.mode

/-- LY changes -/
def lyChangedP (p q : Pos) : Bool := p.line != q.line

/-- a STAT interrupt must be requested: entry to a mode whose enable bit is set, or LY becoming
equal to LYC with the coincidence enable set -/
def statEvP (e : Enables) (lyc : Nat) (p q : Pos) : Bool :=
  (modeEnteredP p q && e.forMode q.mode) || (lyChangedP p q && q.line == lyc && e.lyc)

def vblankEv (a b : Nat) : Bool := vblankEvP (sched a) (sched b)
def modeEntered (a b : Nat) : Bool := modeEnteredP (sched a) (sched b)
def lyChanged (a b : Nat) : Bool := lyChangedP (sched a) (sched b)
def statEv (e : Enables) (lyc : Nat) (a b : Nat) : Bool := statEvP e lyc (sched a) (sched b)

/-- some 4-clock step in `(4*k, 4*(k+n)]` carries the event -/
def anyTick (ev : Nat → Nat → Bool) : (k n : Nat) → Bool
  | _, 0 => false
  | k, n+1 => ev (4 * k) (4 * k + 4) || anyTick ev (k + 1) n

/-- both event kinds over the ticks `(4*k, 4*(k+n)]` in one pass, evaluating the schedule once per
tick (`p` is the position at clock `4*k`); equal to `anyTick vblankEv`, `anyTick (statEv e lyc)`
(`LcdProofs.evScan_eq`).  Returns the final position too. -/
def evScan (e : Enables) (lyc : Nat) : (p : Pos) → (k n : Nat) → (vb st : Bool) → Pos × Bool × Bool
  | p, _, 0, vb, st => (p, vb, st)
  | p, k, n+1, vb, st =>
    let q := sched (4 * k + 4)
    evScan e lyc q (k + 1) n (vb || vblankEvP p q) (st || statEvP e lyc p q)

/-- bits 0..2 of STAT at time `t` with the given LYC -/
def statLow (lyc t : Nat) : Nat :=
  (sched t).mode + (if (sched t).line == lyc then 4 else 0)

end GbVerif.LcdSpec
