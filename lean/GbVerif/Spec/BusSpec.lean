import GbVerif.Spec.Cart
/-
Spec for C10 (and the memory side of C12/C16), written from the Game Boy memory map and the property text:
a banked byte store.  ROM is immutable; VRAM, cartridge RAM, WRAM, OAM, HRAM and IE are independent cells;
echo RAM, 0xFEA0–0xFEFF read as constants and ignore writes.  I/O (0xFF00–0xFF7F) is specified separately by
per-register read-back masks (`ioMask`).
-/
namespace GbVerif.BusSpec
open GbVerif.CartSpec

structure Mem where
  ctl : Ctl
  romBanks : Nat
  ramBytes : Nat
  rom : Nat → Nat                 -- ROM image by global index
  regs : Regs := {}               -- controller registers (protocol level)
  cells : Nat → Option Nat := fun _ => none   -- RAM cells by canonical key; `none` = never written (reads 0)

/-- canonical cell key of a bus address, `none` when the address is not backed by a writable cell -/
def cellKey (m : Mem) (addr : Nat) : Option Nat :=
  if addr < 0x8000 then none
  else if addr < 0xa000 then some (0x10000 + (addr - 0x8000))                     -- VRAM
  else if addr < 0xc000 then
    let i := ramBank m.ctl (m.ramBytes / 0x2000) m.regs * 0x2000 + (addr - 0xa000)
    if i < m.ramBytes then some (0x20000 + i) else none      -- beyond the cartridge's RAM: unmapped
  else if addr < 0xe000 then some (0x200000 + (addr - 0xc000))                    -- WRAM
  else if addr < 0xfe00 then none                                                 -- echo
  else if addr < 0xfea0 then some (0x300000 + (addr - 0xfe00))                    -- OAM
  else if addr < 0xff80 then none                                                 -- unused + I/O
  else some (0x400000 + (addr - 0xff80))                                          -- HRAM and IE

/-- byte read at a non-I/O address -/
def read (m : Mem) (addr : Nat) : Nat :=
  if addr < 0x4000 then m.rom addr
  else if addr < 0x8000 then m.rom (romBank m.ctl m.romBanks m.regs * 0x4000 + (addr - 0x4000))
  else match cellKey m addr with
    | some k => (m.cells k).getD 0
    | none => if 0xa000 ≤ addr ∧ addr < 0xc000 then 0xff else 0   -- absent cartridge RAM floats high; echo/unused read 0

def write (m : Mem) (addr value : Nat) : Mem :=
  if addr < 0x8000 then { m with regs := applyWrite m.ctl m.regs addr value }
  else match cellKey m addr with
    | some k => { m with cells := fun j => if j = k then some value else m.cells j }
    | none => m

/-- defined read-back bits of the I/O registers the property lists (low byte of the address) -/
def ioMask (low : Nat) : Nat :=
  match low with
  | 0x00 => 0x30      -- P1: the two select bits
  | 0x05 => 0xff      -- TIMA
  | 0x06 => 0xff      -- TMA
  | 0x07 => 0x07      -- TAC
  | 0x0f => 0x1f      -- IF
  | 0x40 => 0xff      -- LCDC
  | 0x41 => 0x78      -- STAT enable bits
  | 0x42 => 0xff | 0x43 => 0xff   -- SCY SCX
  | 0x45 => 0xff      -- LYC
  | 0x47 => 0xff | 0x48 => 0xff | 0x49 => 0xff   -- BGP OBP0 OBP1
  | 0x4a => 0xff | 0x4b => 0xff   -- WY WX
  | _ => 0

/-- I/O addresses with no register behind them in this emulator: read 0xff, ignore writes
(0x01/0x02 serial, 0x04 DIV, 0x44 LY, 0x46 DMA are assigned; 0x03 and everything else listed here is not) -/
def ioUnassigned (low : Nat) : Bool :=
  !(low ≤ 0x02 || (0x04 ≤ low && low ≤ 0x07) || low == 0x0f || (0x40 ≤ low && low ≤ 0x4b))

end GbVerif.BusSpec
