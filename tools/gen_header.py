#!/usr/bin/env python3
"""Translator: /repo/src/cart.rs (+ the header seek offset in /repo/src/system/mod.rs)
   -> /verif/lean/GbVerif/Gen/HeaderTables.lean

Pattern-directed and fail-closed: every line of the functions it reads must be recognised, otherwise the
translator exits non-zero (the runner reports a broken tie).  The output is import-free Lean:

  romBanks  : Nat -> Nat            arms of `Header::get_rom_bank_count`   (on the `rom_size` byte)
  ramBytes  : Nat -> Nat            arms of `Header::get_ram_size_bytes`   (on the `ram_size` byte)
  cartKind  : Nat -> Option Nat     arms of `Header::create_cart_state`    (on the `cart_type` byte)
                                    some 0 = NullCartState, some 1 = MBC1CartState, some 3 = MBC3CartState,
                                    none = the `panic!` arm (unsupported type)
  mbcType   : Nat -> Nat            arms of `Header::get_cart_type` (0 None, 1 MBC1, 2 MBC2, 3 MBC3, 5 MBC5, 255 Unknown)
  romBankBytes                      the factor in `get_rom_size_bytes` (bank count * 16 * 1024)
  checksumLo / checksumHi           the `for i in lo..hi` range of `valid_checksum` (buffer indices, hi exclusive)
  headerSize, offCartType, offRomSize, offRamSize, offChecksum
                                    layout of `#[repr(C, packed)] struct Header` (all fields u8 / [u8; N])
  headerFileOffset                  `SeekFrom::Start(..)` in `system::read_header`

The file is only rewritten when its content changes (lake then rebuilds nothing).
"""
import os, re, sys

REPO = os.environ.get("GB_REPO", "/repo")          # GB_REPO / GB_HEADER_OUT: for testing the translator only
VERIF = os.path.dirname(os.path.dirname(os.path.abspath(__file__)))
OUT = os.environ.get("GB_HEADER_OUT", os.path.join(VERIF, "lean", "GbVerif", "Gen", "HeaderTables.lean"))


class Unparsable(Exception):
    pass


def fail(msg):
    raise Unparsable(msg)


def strip_comments(src):
    src = re.sub(r"/\*.*?\*/", "", src, flags=re.S)
    return re.sub(r"//[^\n]*", "", src)


def body_of(src, header_re, what):
    """text between the braces following the (unique) match of header_re"""
    ms = list(re.finditer(header_re, src))
    if len(ms) != 1:
        fail("%s: expected exactly one match of /%s/, found %d" % (what, header_re, len(ms)))
    i = src.index("{", ms[0].end() - 1)
    depth, j = 0, i
    while j < len(src):
        if src[j] == "{":
            depth += 1
        elif src[j] == "}":
            depth -= 1
            if depth == 0:
                return src[i + 1:j]
        j += 1
    fail("%s: unbalanced braces" % what)


def const_expr(s, what):
    """a product of integer literals: `2 * 1024`, `0x52`, `64`"""
    s = s.strip()
    if not re.fullmatch(r"(0x[0-9a-fA-F_]+|[0-9_]+)(\s*\*\s*(0x[0-9a-fA-F_]+|[0-9_]+))*", s):
        fail("%s: not a constant product: %r" % (what, s))
    v = 1
    for f in s.split("*"):
        v *= int(f.strip().replace("_", ""), 0)
    return v


def pattern_values(p, what):
    """`0x01 | 0x02 | 0x03` -> [1,2,3];  `0x00..=0x03` -> [0,1,2,3];  `_` -> None"""
    p = p.strip()
    if p == "_":
        return None
    vals = []
    for alt in p.split("|"):
        alt = alt.strip()
        m = re.fullmatch(r"(0x[0-9a-fA-F]+|[0-9]+)\s*\.\.=\s*(0x[0-9a-fA-F]+|[0-9]+)", alt)
        if m:
            lo, hi = int(m.group(1), 0), int(m.group(2), 0)
            if hi < lo:
                fail("%s: empty range pattern %r" % (what, alt))
            vals += list(range(lo, hi + 1))
        elif re.fullmatch(r"0x[0-9a-fA-F]+|[0-9]+", alt):
            vals.append(int(alt, 0))
        else:
            fail("%s: unrecognised pattern %r" % (what, alt))
    for v in vals:
        if not 0 <= v <= 255:
            fail("%s: pattern value %d is not a u8" % (what, v))
    return vals


def split_top(src, what):
    """split at commas that are not inside (), [] or {}"""
    parts, depth, cur = [], 0, []
    for ch in src:
        if ch in "([{":
            depth += 1
        elif ch in ")]}":
            depth -= 1
            if depth < 0:
                fail("%s: unbalanced brackets in match arms" % what)
        if ch == "," and depth == 0:
            parts.append("".join(cur))
            cur = []
        else:
            cur.append(ch)
    if depth != 0:
        fail("%s: unbalanced brackets in match arms" % what)
    parts.append("".join(cur))
    return parts


def match_arms(fn_body, field, what):
    """the single `match self.<field> { pat => rhs, ... }` that is the whole function body.
    returns ([(value, rhs)], default_rhs) with first-match-wins semantics resolved"""
    m = re.fullmatch(r"\s*(?:let\s+\w+\s*=\s*)?match\s+self\.(\w+)\s*\{(.*)\}\s*(;.*)?", fn_body, flags=re.S)
    if not m:
        fail("%s: body is not a single `match self.<field> {..}`" % what)
    if m.group(1) != field:
        fail("%s: matches on self.%s, expected self.%s" % (what, m.group(1), field))
    arms_src, tail = m.group(2), (m.group(3) or "")
    arms, default, seen = [], None, set()
    for raw in split_top(arms_src, what):
        if not raw.strip():
            continue
        if "=>" not in raw:
            fail("%s: arm without `=>`: %r" % (what, raw.strip()))
        if default is not None:
            fail("%s: arm after the wildcard arm: %r" % (what, raw.strip()))
        pat, rhs = raw.split("=>", 1)
        vals = pattern_values(pat, what)
        rhs = rhs.strip()
        if vals is None:
            default = rhs
        else:
            for v in vals:
                if v in seen:
                    fail("%s: value 0x%02x matched twice" % (what, v))
                seen.add(v)
                arms.append((v, rhs))
    if default is None:
        if len(seen) != 256:
            fail("%s: no wildcard arm and not all 256 values covered" % what)
    return arms, default, tail


CART_STATES = {"NullCartState": 0, "MBC1CartState": 1, "MBC3CartState": 3}
MBC_TYPES = {"None": 0, "MBC1": 1, "MBC2": 2, "MBC3": 3, "MBC5": 5, "Unknown": 255}


# constructor argument lists the models know: none, or (ROM banks of the header, RAM banks = RAM bytes / 0x2000)
CART_STATE_ARGS = {"", "self.get_rom_bank_count(),self.get_ram_size_bytes()/0x2000"}


def cart_state_rhs(rhs, what):
    m = re.fullmatch(r"Box::new\(\s*(\w+)::new\((.*)\)\s*\)", rhs, flags=re.S)
    if m:
        if m.group(1) not in CART_STATES:
            fail("%s: unknown cartridge state type %s (extend CART_STATES and the Lean models)" % (what, m.group(1)))
        args = re.sub(r"\s+", "", m.group(2)).rstrip(",")
        if args not in CART_STATE_ARGS:
            fail("%s: unrecognised constructor arguments %r for %s" % (what, m.group(2).strip(), m.group(1)))
        return CART_STATES[m.group(1)]
    if re.fullmatch(r'panic!\(\s*"[^"]*"\s*\)', rhs):
        return None
    fail("%s: unrecognised arm body %r" % (what, rhs))


def mbc_type_rhs(rhs, what):
    m = re.fullmatch(r"MBCType::(\w+)", rhs)
    if not m or m.group(1) not in MBC_TYPES:
        fail("%s: unrecognised arm body %r" % (what, rhs))
    return MBC_TYPES[m.group(1)]


def struct_layout(src):
    body = body_of(src, r"#\[repr\(C,\s*packed\)\]\s*pub\s+struct\s+Header\s*\{", "struct Header")
    off, fields = 0, {}
    for raw in body.split(","):
        raw = raw.strip()
        if not raw:
            continue
        m = re.fullmatch(r"(?:pub\s+)?(\w+)\s*:\s*(u8|\[\s*u8\s*;\s*(\d+)\s*\])", raw)
        if not m:
            fail("struct Header: unrecognised field %r (only u8 and [u8; N] are understood)" % raw)
        size = int(m.group(3)) if m.group(3) else 1
        if m.group(1) in fields:
            fail("struct Header: duplicate field " + m.group(1))
        fields[m.group(1)] = (off, size)
        off += size
    for need in ("cart_type", "rom_size", "ram_size", "header_checksum"):
        if need not in fields or fields[need][1] != 1:
            fail("struct Header: u8 field %s not found" % need)
    return off, fields


def lean_fn(name, doc, arms, default, opt=False):
    def val(v):
        if opt:
            return "none" if v is None else "some %d" % v
        return str(v)
    lines = ["/-- %s -/" % doc, "def %s (code : Nat) : %s :=" % (name, "Option Nat" if opt else "Nat")]
    parts = ["if code = 0x%02x then %s" % (k, val(v)) for k, v in arms]
    body = "\n  else ".join(parts + [val(default)]) if parts else val(default)
    lines.append("  " + body)
    return "\n".join(lines)


def generate():
    cart = strip_comments(open(os.path.join(REPO, "src", "cart.rs")).read())
    system = strip_comments(open(os.path.join(REPO, "src", "system", "mod.rs")).read())

    size, fields = struct_layout(cart)

    # get_rom_bank_count
    arms, default, tail = match_arms(body_of(cart, r"pub\s+fn\s+get_rom_bank_count\s*\(\s*&self\s*\)\s*->\s*usize\s*\{",
                                             "get_rom_bank_count"), "rom_size", "get_rom_bank_count")
    if tail.strip():
        fail("get_rom_bank_count: code after the match")
    rom_arms = [(k, const_expr(r, "get_rom_bank_count")) for k, r in arms]
    rom_default = const_expr(default, "get_rom_bank_count") if default is not None else 0

    # get_rom_size_bytes = self.get_rom_bank_count() * <const>
    b = body_of(cart, r"pub\s+fn\s+get_rom_size_bytes\s*\(\s*&self\s*\)\s*->\s*usize\s*\{", "get_rom_size_bytes")
    m = re.fullmatch(r"\s*self\.get_rom_bank_count\(\)\s*\*\s*(.+?)\s*", b, flags=re.S)
    if not m:
        fail("get_rom_size_bytes: body is not `self.get_rom_bank_count() * <const>`")
    bank_bytes = const_expr(m.group(1), "get_rom_size_bytes")

    # get_ram_size_bytes
    arms, default, tail = match_arms(body_of(cart, r"pub\s+fn\s+get_ram_size_bytes\s*\(\s*&self\s*\)\s*->\s*usize\s*\{",
                                             "get_ram_size_bytes"), "ram_size", "get_ram_size_bytes")
    if tail.strip():
        fail("get_ram_size_bytes: code after the match")
    ram_arms = [(k, const_expr(r, "get_ram_size_bytes")) for k, r in arms]
    ram_default = const_expr(default, "get_ram_size_bytes") if default is not None else 0

    # create_cart_state
    arms, default, tail = match_arms(body_of(cart, r"pub\s+fn\s+create_cart_state\s*\(\s*&self\s*\)\s*->\s*Box<dyn\s+CartState>\s*\{",
                                             "create_cart_state"), "cart_type", "create_cart_state")
    if tail.strip():
        fail("create_cart_state: code after the match")
    kind_arms = [(k, cart_state_rhs(r, "create_cart_state")) for k, r in arms]
    kind_default = cart_state_rhs(default, "create_cart_state") if default is not None else None

    # get_cart_type
    arms, default, tail = match_arms(body_of(cart, r"pub\s+fn\s+get_cart_type\s*\(\s*&self\s*\)\s*->\s*MBCType\s*\{",
                                             "get_cart_type"), "cart_type", "get_cart_type")
    if tail.strip():
        fail("get_cart_type: code after the match")
    type_arms = [(k, mbc_type_rhs(r, "get_cart_type")) for k, r in arms]
    type_default = mbc_type_rhs(default, "get_cart_type") if default is not None else 255

    # valid_checksum: exact shape of the loop and of the comparison
    b = body_of(cart, r"pub\s+fn\s+valid_checksum\s*\(\s*&self\s*\)\s*->\s*bool\s*\{", "valid_checksum")
    norm = re.sub(r"\s+", " ", b).strip()
    m = re.fullmatch(
        r"let buffer = self\.as_buffer\(\); let mut check: u8 = 0; "
        r"for i in (0x[0-9a-fA-F]+|\d+)\.\.(0x[0-9a-fA-F]+|\d+) \{ "
        r"check = check\.wrapping_sub\(buffer\[i\]\); check = check\.wrapping_sub\(1\); \} "
        r"check == self\.header_checksum", norm)
    if not m:
        fail("valid_checksum: body no longer has the shape the model mirrors: %r" % norm)
    lo, hi = int(m.group(1), 0), int(m.group(2), 0)
    if not (lo <= hi <= size):
        fail("valid_checksum: range %d..%d not inside the %d-byte header" % (lo, hi, size))

    # as_buffer covers exactly the struct
    b = re.sub(r"\s+", " ", body_of(cart, r"fn\s+as_buffer\s*\(\s*&self\s*\)\s*->\s*&\[u8\]\s*\{", "as_buffer")).strip()
    if not re.fullmatch(r"unsafe \{ std::slice::from_raw_parts\( self as \*const Self as \*const u8, "
                        r"std::mem::size_of::<Self>\(\),? \) \}", b):
        fail("as_buffer: body no longer `from_raw_parts(self as *const u8, size_of::<Self>())`: %r" % b)

    # read_header: seek offset
    b = body_of(system, r"pub\s+fn\s+read_header\s*\(", "read_header")
    ms = re.findall(r"SeekFrom::Start\(\s*(0x[0-9a-fA-F]+|\d+)\s*\)", b)
    if len(ms) != 1:
        fail("read_header: expected exactly one SeekFrom::Start(<const>)")
    file_off = int(ms[0], 0)
    if "mem::size_of::<Header>()" not in b or "read_exact(buffer)" not in b:
        fail("read_header: no longer reads exactly size_of::<Header>() bytes with read_exact")

    out = []
    out.append("/-! GENERATED by tools/gen_header.py from /repo/src/cart.rs and /repo/src/system/mod.rs — do not edit.")
    out.append("Cartridge-header tables exactly as the code has them (first matching arm wins; last value = wildcard arm). -/")
    out.append("namespace GbVerif.Gen.HeaderTables")
    out.append("")
    out.append(lean_fn("romBanks", "`Header::get_rom_bank_count` on the `rom_size` byte", rom_arms, rom_default))
    out.append("")
    out.append("/-- the factor in `Header::get_rom_size_bytes` -/")
    out.append("def romBankBytes : Nat := %d" % bank_bytes)
    out.append("")
    out.append(lean_fn("ramBytes", "`Header::get_ram_size_bytes` on the `ram_size` byte", ram_arms, ram_default))
    out.append("")
    out.append(lean_fn("cartKind", "`Header::create_cart_state` on the `cart_type` byte: some 0 = NullCartState, "
                                   "some 1 = MBC1CartState, some 3 = MBC3CartState, none = `panic!` (unsupported)",
                       kind_arms, kind_default, opt=True))
    out.append("")
    out.append(lean_fn("mbcType", "`Header::get_cart_type`: 0 None, 1 MBC1, 2 MBC2, 3 MBC3, 5 MBC5, 255 Unknown",
                       type_arms, type_default))
    out.append("")
    out.append("/-- `for i in checksumLo..checksumHi` in `Header::valid_checksum` (indices into the header buffer) -/")
    out.append("def checksumLo : Nat := 0x%02x" % lo)
    out.append("def checksumHi : Nat := 0x%02x" % hi)
    out.append("")
    out.append("/-- layout of `#[repr(C, packed)] struct Header` -/")
    out.append("def headerSize : Nat := %d" % size)
    out.append("def offCartType : Nat := 0x%02x" % fields["cart_type"][0])
    out.append("def offRomSize : Nat := 0x%02x" % fields["rom_size"][0])
    out.append("def offRamSize : Nat := 0x%02x" % fields["ram_size"][0])
    out.append("def offChecksum : Nat := 0x%02x" % fields["header_checksum"][0])
    out.append("")
    out.append("/-- `SeekFrom::Start(headerFileOffset)` in `system::read_header` -/")
    out.append("def headerFileOffset : Nat := 0x%x" % file_off)
    out.append("")
    out.append("end GbVerif.Gen.HeaderTables")
    return "\n".join(out) + "\n"


def main():
    try:
        text = generate()
    except Unparsable as e:
        print("gen_header.py: UNPARSABLE: %s" % e, file=sys.stderr)
        return 1
    os.makedirs(os.path.dirname(OUT), exist_ok=True)
    old = open(OUT).read() if os.path.exists(OUT) else None
    if old != text:
        tmp = OUT + ".tmp.%d" % os.getpid()
        with open(tmp, "w") as f:
            f.write(text)
        os.replace(tmp, OUT)
        print("gen_header.py: wrote " + OUT)
    return 0


if __name__ == "__main__":
    sys.exit(main())
