#!/usr/bin/env python3
"""prints the prompt given to an independent mutation sub-agent for property <id> (only the property text, nothing from /verif)"""
import json, sys
pid = sys.argv[1]
rnd = sys.argv[2] if len(sys.argv) > 2 else ''   # round tag: scratch directories /tmp/mut<rnd>-<id>
for l in open('/verif/properties.jsonl'):
    p = json.loads(l)
    if p['id'] == pid:
        break
print(f"""You are testing how well a verification effort can detect subtle regressions in the Rust repository andrewimm/gb-dynarec (a Game Boy / SM83 emulator with an interpreter and an x86-64 JIT recompiler; sources in /repo, ~11k lines, `cargo test --offline` runs 98 tests in ~1 s; the optional cargo feature `jit` enables the recompiler in Core::run_code_block / Core::update and the same tests pass with `--features jit`).

Your job: produce UP TO TWO different, realistic code changes ("mutations") to the repository that each BREAK the following semantic property while the crate still COMPILES and the existing test suite still PASSES (both `cargo test --offline` and `cargo test --offline --features jit`), together with a demonstration that fails with the change and passes without it.

PROPERTY {p['id']} — {p['title']}
Statement: {p['statement']}
Quantified over: {p['quantifier']['text']}
Code it is anchored in: {', '.join(p['anchors']['files'])}

Rules:
* Do NOT look at or use anything under /verif (it does not concern you). Do NOT modify /repo itself. Work ONLY in your own scratch git worktree: `git -C /repo worktree add --detach /tmp/mut{rnd}-{p['id']} HEAD` and edit/build/test there (`cd /tmp/mut{rnd}-{p['id']} && cargo test --offline`). When you are done, remove its build output (`rm -rf /tmp/mut{rnd}-{p['id']}/target`) but leave the worktree for inspection.
* Other agents work in sibling worktrees of the same repository at the same time: do NOT use `git stash` (the stash is shared between worktrees), do not touch other worktrees, and do not run `git worktree prune`. To compare with the unchanged code use `git diff` / `git apply -R` / `git checkout -- <file>` inside your own worktree only.
* Prefer changes that need something SPECIFIC to manifest — a particular multi-step sequence of operations, an unusual input or boundary value, a particular batching/interleaving, or two cooperating sites that each look fine alone — NOT ones that ordinary use or the existing tests would expose at once. They should look like plausible refactorings, optimisations or "fixes" a maintainer might commit (no comments announcing the bug).
* Avoid the single most obvious idea (one changed constant in the most central function). Look in second-order places: helper functions, rarely taken branches, initialisation/reset paths, value ranges near wrap-around, interactions between two modules.
* Each mutation must violate the property as stated (observable behaviour), not merely change internals.
* Demonstration: a small Rust test (e.g. a `#[test]` added in a NEW file or appended test module inside the worktree, or a tiny program using the crate's modules) that passes on the unchanged code and fails with the mutation applied. Say exactly how to run it.
* Deliver, for mutation k = 1, 2: `/tmp/mut{rnd}-{p['id']}-out/m<k>/patch.diff` (output of `git diff` for the mutation only, applicable with `git apply` on /repo's HEAD, NOT including the demonstration), `/tmp/mut{rnd}-{p['id']}-out/m<k>/demo.diff` (the demonstration as a separate patch on top of HEAD), and `/tmp/mut{rnd}-{p['id']}-out/m<k>/README.md` (what the change is, which clause of the property it breaks, what is needed for it to manifest, the exact commands you ran and their results: tests pass with the patch in both feature configurations, demo fails with the patch and passes without).
* Verify everything yourself before reporting. Report back a short summary of each mutation (one paragraph each).""")
