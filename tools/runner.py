#!/usr/bin/env python3
"""Runner for the gb-dynarec verification checks:  ./check Cxx [quick|thorough] [--replay path]

Verdict logic (DESIGN.md §2.3):
  regenerate Gen/*  -> build harness from /repo's working tree -> lake build Props.Cxx (+driver)
  -> axiom audit -> correspondence streams (harness | gbdriver)
  IMPL≠SPEC          => VIOLATION with the failing case as replay
  broken obligation / MODEL≠IMPL => witness search (thorough streams); VIOLATION with the witness,
                        or VIOLATION ... no-failing-input-found naming what no longer checks
"""
import fcntl, hashlib, json, os, re, subprocess, sys, time

VERIF = os.path.dirname(os.path.dirname(os.path.abspath(__file__)))
LEAN = os.path.join(VERIF, "lean")
HARNESS = os.path.join(VERIF, "harness")
WORK = os.path.join(VERIF, ".work")
REPO = "/repo"
GUARD = "gb_dynarec_verif"
ALLOWED_AXIOMS = {"propext", "Classical.choice", "Quot.sound"}
FORBIDDEN = re.compile(r"\b(sorry|admit|native_decide|implemented_by|unsafe)\b|^\s*axiom\s|maxHeartbeats 0")

sys.path.insert(0, os.path.join(VERIF, "tools"))
from props import PROPS  # noqa: E402


def sh(cmd, cwd=None, env=None, timeout=None, stdin=None):
    e = dict(os.environ)
    e.update({"CARGO_NET_OFFLINE": "true"})
    if env:
        e.update(env)
    p = subprocess.run(cmd, cwd=cwd, env=e, stdout=subprocess.PIPE, stderr=subprocess.STDOUT,
                       timeout=timeout, input=stdin, text=True, shell=isinstance(cmd, str))
    return p.returncode, p.stdout


class Lock:
    def __init__(self, name):
        os.makedirs(WORK, exist_ok=True)
        self.f = open(os.path.join(WORK, name), "w")

    def __enter__(self):
        fcntl.flock(self.f, fcntl.LOCK_EX)

    def __exit__(self, *a):
        fcntl.flock(self.f, fcntl.LOCK_UN)


def harness_bin(jit, profile="release"):
    return os.path.join(WORK, "target", "jit" if jit else "nojit", profile, "gbh")


def build_harness(jit):
    """cargo build of the harness; it compiles /repo/src/*.rs by #[path], i.e. the current tree."""
    tdir = os.path.join(WORK, "target", "jit" if jit else "nojit")
    cmd = ["cargo", "build", "--release", "--offline", "--target-dir", tdir]
    if jit:
        cmd += ["--features", "jit"]
    with Lock("cargo.lock"):
        rc, out = sh(cmd, cwd=HARNESS, env={"RUSTFLAGS": "--cfg " + GUARD})
    return rc, out


def build_repo_bin():
    """the real gb-dynarec binary, built from /repo's working tree into .work (never /repo/target)"""
    tdir = os.path.join(WORK, "target", "bin")
    with Lock("cargo.lock"):
        rc, out = sh(["cargo", "build", "--release", "--offline", "--target-dir", tdir], cwd=REPO)
    return rc, out, os.path.join(tdir, "release", "gb-dynarec")


def run_gen(gens):
    msgs = []
    for g in gens:
        rc, out = sh([sys.executable, os.path.join(VERIF, "tools", g)], cwd=VERIF)
        if rc != 0:
            msgs.append("%s failed:\n%s" % (g, out[-3000:]))
    return msgs


def lake_build(targets):
    with Lock("lake.lock"):
        rc, out = sh(["lake", "build"] + targets, cwd=LEAN)
    return rc, out


def theorem_names(pid):
    """all theorems declared in Props/Cxx.lean, fully qualified"""
    path = os.path.join(LEAN, "GbVerif", "Props", pid + ".lean")
    src = open(path).read()
    ns = re.search(r"^namespace\s+(\S+)", src, re.M)
    prefix = ns.group(1) + "." if ns else ""
    return [prefix + m for m in re.findall(r"^theorem\s+([A-Za-z0-9_'.]+)", src, re.M)]


def grep_forbidden(pid, extra_modules):
    """sorry/admit/axiom/native_decide/... outside comments in the files this property depends on"""
    hits = []
    files = [os.path.join(LEAN, "GbVerif", "Props", pid + ".lean")]
    for m in extra_modules:
        files.append(os.path.join(LEAN, *m.split(".")) + ".lean")
    for f in files:
        if not os.path.exists(f):
            continue
        src = open(f).read()
        src = re.sub(r"/-.*?-/", "", src, flags=re.S)
        for i, line in enumerate(src.split("\n")):
            line = line.split("--")[0]
            if FORBIDDEN.search(line):
                hits.append("%s: %s" % (os.path.relpath(f, VERIF), line.strip()))
    return hits


def scan_stdout_writers(allowed):
    """files under /repo/src (other than main.rs, shell/, debug/) that write to stdout outside `#[cfg(feature = "dump_disassembly")]` blocks"""
    msgs = []
    for root, _, files in os.walk(os.path.join(REPO, "src")):
        for fn in files:
            if not fn.endswith(".rs"):
                continue
            path = os.path.join(root, fn)
            rel = os.path.relpath(path, REPO)
            if rel == "src/main.rs" or rel.startswith(("src/shell/", "src/debug/")):
                continue
            src = open(path).read()
            src = re.sub(r'#\[cfg\(feature = "dump_disassembly"\)\]\s*\{.*?\n    \}', "", src, flags=re.S)
            src = re.sub(r"#\[cfg\(test\)\]\s*mod tests \{.*", "", src, flags=re.S)
            for i, line in enumerate(src.split("\n")):
                code = line.split("//")[0]
                if re.search(r"(?<![e_])print(ln)?!|stdout\(\)", code) and rel not in allowed:
                    msgs.append("%s writes to stdout: %s" % (rel, code.strip()[:100]))
    return msgs


def audit(pid):
    """#print axioms for every theorem of Props/Cxx.lean; returns (obligations, discharged, detail, problems)"""
    names = theorem_names(pid)
    os.makedirs(os.path.join(WORK, "audit"), exist_ok=True)
    f = os.path.join(WORK, "audit", pid + ".lean")
    with open(f, "w") as fh:
        fh.write("import GbVerif.Props.%s\n" % pid)
        for n in names:
            fh.write("#print axioms %s\n" % n)
    rc, out = sh(["lake", "env", "lean", f], cwd=LEAN)
    detail, problems = {}, []
    # output: "'name' depends on axioms: [a, b]" or "'name' does not depend on any axioms"
    for m in re.finditer(r"'([^']+)' (does not depend on any axioms|depends on axioms: \[([^\]]*)\])", out, re.S):
        axs = [a.strip() for a in (m.group(3) or "").replace("\n", " ").split(",") if a.strip()]
        detail[m.group(1)] = axs
    discharged = 0
    for n in names:
        if n not in detail:
            problems.append("no audit output for " + n)
            continue
        bad = [a for a in detail[n] if a not in ALLOWED_AXIOMS and not re.match(r".*\._native\.bv_decide\.ax_", a)]
        if bad:
            problems.append("%s depends on %s" % (n, bad))
        else:
            discharged += 1
    if rc != 0:
        problems.append("audit file failed to elaborate:\n" + out[-2000:])
    return len(names), discharged, detail, problems


def run_stream(spec, tier, seed, replay_line=None):
    """spec: dict(name, args(tier)->list, jit=False, shards=1). Returns dict with counts and diff lines."""
    jit = spec.get("jit", False)
    hb = harness_bin(jit)
    driver = os.path.join(LEAN, ".lake", "build", "bin", "gbdriver")
    shards = spec.get("shards", {}).get(tier, 1) if isinstance(spec.get("shards"), dict) else spec.get("shards", 1)
    procs = []
    for i in range(0 if spec.get("join") else shards):
        args = [hb, spec["name"], "--tier", tier, "--seed", str(seed)] + list(spec.get("args", {}).get(tier, []))
        if shards > 1:
            args += ["--shard", "%d/%d" % (i, shards)]
        if replay_line is not None:
            args += ["--replay-line", replay_line]
        os.makedirs(os.path.join(WORK, "logs"), exist_ok=True)
        errpath = os.path.join(WORK, "logs", "%s.%d.%d.stderr" % (spec["name"], os.getpid(), i))
        errf = open(errpath, "wb")
        h = subprocess.Popen(args, stdout=subprocess.PIPE, stderr=errf)
        d = subprocess.Popen([driver], stdin=h.stdout, stdout=subprocess.PIPE, text=True)
        h.stdout.close()
        procs.append((h, d, errpath, errf))
    res = {"total": 0, "ok": 0, "nontrivial": 0, "modeldiff": 0, "specdiff": 0, "bad": 0,
           "diffs": [], "samples": [], "harness_errors": []}
    if spec.get("join"):
        return run_joined(spec, tier, seed, shards, replay_line, res)
    for h, d, errpath, errf in procs:
        out, _ = d.communicate()
        hrc = h.wait()
        errf.close()
        try:
            with open(errpath, "rb") as ef:
                ef.seek(max(0, os.path.getsize(errpath) - 3000))
                herr = ef.read().decode(errors="replace")
            os.remove(errpath)
        except OSError:
            herr = ""
        if hrc != 0:
            res["harness_errors"].append("harness %s exit %d: %s" % (spec["name"], hrc, herr[-1500:]))
        got_summary = False
        for line in out.split("\n"):
            if line.startswith("SUMMARY"):
                got_summary = True
                for k, v in re.findall(r"(\w+)=(\d+)", line):
                    if k in res:
                        res[k] += int(v)
            elif line.startswith("SAMPLE "):
                if len(res["samples"]) < 6:
                    res["samples"].append(line[7:])
            elif line.startswith(("MODEL≠IMPL", "IMPL≠SPEC", "BAD", "INFO")):
                res["diffs"].append(line)
        if not got_summary:
            res["harness_errors"].append("driver produced no SUMMARY for stream " + spec["name"])
    return res


def parse_driver_output(out, res, name):
    got_summary = False
    for line in out.split("\n"):
        if line.startswith("SUMMARY"):
            got_summary = True
            for k, v in re.findall(r"(\w+)=(\d+)", line):
                if k in res:
                    res[k] += int(v)
        elif line.startswith("SAMPLE "):
            if len(res["samples"]) < 6:
                res["samples"].append(line[7:])
        elif line.startswith(("MODEL≠IMPL", "IMPL≠SPEC", "BAD", "INFO")):
            res["diffs"].append(line)
    if not got_summary:
        res["harness_errors"].append("driver produced no SUMMARY for stream " + name)


def run_joined(spec, tier, seed, shards, replay_line, res):
    """the same generated cases through the jit and the non-jit harness build; their lines are merged
    (`<inputs> | <jit outputs> n_<k>=<non-jit outputs>`) and fed to the driver"""
    driver = os.path.join(LEAN, ".lake", "build", "bin", "gbdriver")
    os.makedirs(os.path.join(WORK, "logs"), exist_ok=True)
    jobs = []
    for i in range(shards):
        files = {}
        for build in ("jit", "nojit"):
            args = [harness_bin(build == "jit"), spec["name"], "--tier", tier, "--seed", str(seed)] + list(spec.get("args", {}).get(tier, []))
            if shards > 1:
                args += ["--shard", "%d/%d" % (i, shards)]
            if replay_line is not None:
                args += ["--replay-line", replay_line]
            path = os.path.join(WORK, "logs", "%s.%d.%d.%s.out" % (spec["name"], os.getpid(), i, build))
            f = open(path, "wb")
            p = subprocess.Popen(args, stdout=f, stderr=subprocess.DEVNULL)
            files[build] = (p, f, path)
        jobs.append(files)
    for files in jobs:
        for build in files:
            p, f, path = files[build]
            rc = p.wait()
            f.close()
            if rc != 0:
                res["harness_errors"].append("harness %s (%s build) exit %d" % (spec["name"], build, rc))
        merged = os.path.join(WORK, "logs", os.path.basename(files["jit"][2]) + ".merged")
        with open(files["jit"][2], errors="replace") as fj, open(files["nojit"][2], errors="replace") as fn, open(merged, "w") as fm:
            lj, ln = fj.read().split("\n"), fn.read().split("\n")
            if len(lj) != len(ln):
                res["harness_errors"].append("joined stream %s: %d jit lines vs %d non-jit lines" % (spec["name"], len(lj), len(ln)))
            for a, b in zip(lj, ln):
                if not a or " | " not in a or " | " not in b:
                    continue
                ia, oa = a.split(" | ", 1)
                ib, ob = b.split(" | ", 1)
                if ia != ib:
                    res["harness_errors"].append("joined stream %s: case mismatch between builds" % spec["name"])
                    break
                nb = " ".join("n_" + t for t in ob.split(" ") if t)
                fm.write("%s | %s %s\n" % (ia, oa, nb))
        with open(merged) as fm:
            out = subprocess.run([driver], stdin=fm, stdout=subprocess.PIPE, text=True).stdout
        parse_driver_output(out, res, spec["name"])
        for build in files:
            try:
                os.remove(files[build][2])
            except OSError:
                pass
        try:
            os.remove(merged)
        except OSError:
            pass
    return res


def load_known():
    path = os.path.join(VERIF, "known_findings.txt")
    known = []
    if os.path.exists(path):
        for line in open(path):
            line = line.strip()
            m = re.match(r"known:\s+property=(\S+)\s+match=(\S+)\s+(.*)", line)
            if m:
                known.append({"property": m.group(1), "match": m.group(2), "what": m.group(3)})
    return known


def write_replay(pid, obj):
    os.makedirs(os.path.join(VERIF, "replays"), exist_ok=True)
    h = hashlib.sha1(json.dumps(obj, sort_keys=True).encode()).hexdigest()[:10]
    path = os.path.join(VERIF, "replays", "%s-%s.json" % (pid, h))
    with open(path, "w") as f:
        json.dump(obj, f, indent=1)
    return path


def case_of(diffline):
    return diffline.split(" :: ", 1)[1] if " :: " in diffline else diffline


def main():
    if len(sys.argv) < 2 or sys.argv[1] not in PROPS:
        print("usage: check <%s> [quick|thorough] [--replay path]" % "|".join(sorted(PROPS)))
        return 2
    pid = sys.argv[1]
    tier = "quick"
    replay = None
    rest = sys.argv[2:]
    i = 0
    while i < len(rest):
        if rest[i] in ("quick", "thorough"):
            tier = rest[i]
        elif rest[i] == "--replay":
            replay = rest[i + 1]
            i += 1
        i += 1
    if not any(a in ("quick", "thorough") for a in rest):
        tier = os.environ.get("VERIF_TIER", "quick")
        if tier not in ("quick", "thorough"):
            tier = "quick"
    seed = int(os.environ.get("VERIF_SEED", "1"))
    P = PROPS[pid]
    t0 = time.time()
    broken = []          # broken obligations / ties (strings)
    info = []

    # 1. harness from the current tree (gen_emit.py runs the real emitter through it)
    need_jit = any(s.get("jit") or s.get("join") for s in P["streams"])
    need_nojit = any((not s.get("jit")) or s.get("join") for s in P["streams"]) or "gen_emit.py" in P.get("gen", [])
    for jit in ([False] if need_nojit else []) + ([True] if need_jit else []):
        rc, out = build_harness(jit)
        if rc != 0:
            print(out[-4000:])
            print("harness build failed (jit=%s) — /repo does not compile with the hooks on" % jit)
            broken.append("harness build failed (jit=%s)" % jit)
    if P.get("repo_bin"):
        rc, out, _ = build_repo_bin()
        if rc != 0:
            broken.append("gb-dynarec binary build failed")

    # 2. translators
    broken += ["translator: " + m for m in run_gen(P.get("gen", []))]

    # 3. proofs
    rc, out = lake_build(["GbVerif.Props." + pid, "gbdriver"])
    lake_err = ""
    if rc != 0:
        errs = [l for l in out.split("\n") if "error" in l.lower()]
        lake_err = "\n".join(errs[:20])
        broken.append("lake build GbVerif.Props.%s failed: %s" % (pid, lake_err[:1500]))
    obligations = discharged = 0
    detail = {}
    if rc == 0:
        obligations, discharged, detail, problems = audit(pid)
        broken += ["audit: " + p for p in problems]
    # source scan (C18): every print!/println!/stdout() in /repo/src outside main.rs, shell/ and cfg(dump_disassembly) code
    if "stdout_writers_allowed" in P:
        broken += ["source scan: " + m for m in scan_stdout_writers(P["stdout_writers_allowed"])]
    forb = grep_forbidden(pid, P.get("modules", []))
    broken += ["forbidden token: " + h for h in forb]
    if tier == "thorough" and rc == 0 and P.get("leanchecker", True):
        with Lock("lake.lock"):
            rc2, out2 = sh(["lake", "env", "leanchecker", "GbVerif.Props." + pid], cwd=LEAN, timeout=3000)
        if rc2 != 0:
            broken.append("leanchecker GbVerif.Props.%s failed: %s" % (pid, out2[-800:]))
        else:
            info.append("leanchecker ok")

    # 4. correspondence streams
    driver_ok = os.path.exists(os.path.join(LEAN, ".lake", "build", "bin", "gbdriver"))
    results = []
    replay_line = None
    if replay:
        robj = json.load(open(replay))
        replay_line = robj.get("case")
    if driver_ok and not any(b.startswith("harness build failed") for b in broken):
        for s in P["streams"]:
            if replay and robj.get("stream") not in (None, s["name"]):
                continue
            r = run_stream(s, tier, seed, replay_line)
            r["stream"] = s["name"]
            results.append(r)
            for e in r["harness_errors"]:
                broken.append(e)
    else:
        broken.append("correspondence not run (driver or harness missing)")

    spec_diffs = [(r["stream"], d) for r in results for d in r["diffs"] if d.startswith("IMPL≠SPEC")]
    model_diffs = [(r["stream"], d) for r in results for d in r["diffs"] if d.startswith(("MODEL≠IMPL", "BAD"))]
    if model_diffs:
        broken.append("correspondence: %d MODEL≠IMPL lines, first: %s" % (
            sum(r["modeldiff"] + r["bad"] for r in results), model_diffs[0][1][:600]))

    # 5. witness search when something is broken and no witness yet: run the thorough streams
    if broken and not spec_diffs and tier == "quick" and driver_ok and \
            not any(b.startswith("harness build failed") for b in broken):
        for s in P["streams"]:
            r = run_stream(s, "thorough", seed)
            r["stream"] = s["name"] + "(search)"
            results.append(r)
            spec_diffs += [(r["stream"], d) for d in r["diffs"] if d.startswith("IMPL≠SPEC")]
            if spec_diffs:
                break

    # 6. known findings
    known = [k for k in load_known() if k["property"] == pid]
    kf_printed = []
    new_spec = []
    for st, d in spec_diffs:
        hit = None
        for k in known:
            if re.search(k["match"], d):
                hit = k
                break
        if hit:
            if hit["what"] not in kf_printed:
                kf_printed.append(hit["what"])
        else:
            new_spec.append((st, d))
    # a MODEL≠IMPL-only break caused solely by a known finding does not exist by construction:
    # models follow the code, known findings are IMPL≠SPEC cases.

    violations = 0
    lines = []
    for w in kf_printed:
        lines.append("KNOWN-FINDING: property=%s %s" % (pid, w))
    if new_spec:
        st, d = new_spec[0]
        path = write_replay(pid, {"property": pid, "kind": "impl_vs_spec", "stream": st.replace("(search)", ""),
                                  "seed": seed, "case": case_of(d), "detail": d,
                                  "count": len(new_spec), "broken": broken})
        lines.append("VIOLATION property=%s replay=%s" % (pid, path))
        violations = len(new_spec)
    elif broken:
        path = write_replay(pid, {"property": pid, "kind": "obligation", "seed": seed,
                                  "no_longer_checks": broken,
                                  "model_vs_impl": [d for _, d in model_diffs[:5]]})
        lines.append("VIOLATION property=%s replay=%s no-failing-input-found" % (pid, path))
        violations = 1

    # 7. evidence
    wall = time.time() - t0
    evaluations = sum(r["total"] for r in results)
    nontrivial = sum(r["nontrivial"] for r in results)
    samples = []
    for r in results:
        samples += r["samples"][:3]
    names = theorem_names(pid) if os.path.exists(os.path.join(LEAN, "GbVerif", "Props", pid + ".lean")) else []
    samples = samples[:8] + [{"obligation": n, "axioms": detail.get(n)} for n in names[:6]]
    tb = ["Lean 4.33.0 kernel", "axioms: " + ", ".join(sorted({a for v in detail.values() for a in v}) or ["none"]),
          "translators tools/gen_*.py (cross-checked against the running code by the correspondence streams)",
          "correspondence harness /verif/harness (compiles /repo/src by #[path]) and gbdriver",
          "rustc/LLVM, host CPU"] + P.get("trusted", [])
    ev = {
        "property_id": pid, "tier": tier, "seed": seed, "level": P.get("level", "proof"),
        "coverage": {
            "obligations": obligations, "discharged": discharged,
            "checker_cmd": "cd /verif/lean && lake build GbVerif.Props.%s && lake env lean <#print axioms of every theorem>%s" % (
                pid, " && lake env leanchecker GbVerif.Props.%s" % pid if tier == "thorough" else ""),
            "trusted_base": tb,
            "evaluations": evaluations, "distinct_nontrivial": nontrivial,
            "rule": (P.get("rule_extra", "") + " " + P.get("rule", "")).strip(),
            "samples": samples,
            "exhaustive": bool(P.get("exhaustive", {}).get(tier, False)) if isinstance(P.get("exhaustive"), dict) else bool(P.get("exhaustive", False)),
            "traces_validated_against_impl": sum(r["ok"] for r in results),
            "streams": [{k: r[k] for k in ("stream", "total", "ok", "nontrivial", "modeldiff", "specdiff", "bad")} for r in results],
            "axioms_per_theorem": detail,
            "broken": broken, "known_findings_printed": kf_printed, "info": info,
        },
        "assumptions": P.get("assumptions", []),
        "wall_s": round(wall, 2), "violations": violations,
    }
    os.makedirs(os.path.join(VERIF, "evidence"), exist_ok=True)
    with open(os.path.join(VERIF, "evidence", pid + ".json"), "w") as f:
        json.dump(ev, f, indent=1)

    for r in results:
        print("stream %-14s total=%d ok=%d nontrivial=%d modeldiff=%d specdiff=%d bad=%d" % (
            r["stream"], r["total"], r["ok"], r["nontrivial"], r["modeldiff"], r["specdiff"], r["bad"]))
    print("proof: %d/%d theorems of Props/%s.lean discharged; broken=%d" % (discharged, obligations, pid, len(broken)))
    for b in broken[:10]:
        print("BROKEN: " + b[:1200])
    for st, d in (new_spec[:5]):
        print(d[:600])
    for l in lines:
        print(l)
    if violations == 0:
        print("PASS property=%s tier=%s wall=%.1fs" % (pid, tier, wall))
        return 0
    return 1


if __name__ == "__main__":
    sys.exit(main())
