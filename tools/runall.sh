#!/bin/sh
# runs every claimed check of MANIFEST.json in the given tier; prints one line per property
cd "$(dirname "$0")/.."
tier=${1:-quick}
for id in $(python3 -c "import json; print(' '.join(c['property_id'] for c in json.load(open('MANIFEST.json'))['checks']))"); do
  start=$(date +%s)
  out=$(./check $id $tier 2>&1); rc=$?
  end=$(date +%s)
  echo "$id rc=$rc $((end-start))s $(echo "$out" | grep -E '^(PASS|VIOLATION|KNOWN-FINDING)' | cut -c1-110 | tr '\n' ' ')"
done
