#!/usr/bin/env python3
"""seedrecheck.py <seed-id> <prop-id> [more prop ids]
Re-runs ./check <prop> quick against /repo with /verif/seeded/<seed-id>/patch.diff applied (and removed again) and
records the outcome in that seed's meta.json (check_results / detected_by are merged, confirmation is kept)."""
import json, os, subprocess, sys, time

def sh(cmd, cwd=None, timeout=3600):
    p = subprocess.run(cmd, cwd=cwd, shell=True, stdout=subprocess.PIPE, stderr=subprocess.STDOUT, text=True, timeout=timeout)
    return p.returncode, p.stdout

sid, props = sys.argv[1], sys.argv[2:]
d = "/verif/seeded/%s" % sid
meta = json.load(open(os.path.join(d, "meta.json")))
assert sh("git -C /repo status --porcelain")[1].strip() == "", "/repo is dirty"
rc, out = sh("git -C /repo apply %s/patch.diff" % d)
assert rc == 0, out
results = meta.get("check_results", {})
try:
    for pid in props:
        t0 = time.time()
        rc, out = sh("./check %s quick" % pid, cwd="/verif", timeout=3000)
        lines = [l for l in out.split("\n") if l.startswith(("VIOLATION", "PASS", "KNOWN-FINDING", "BROKEN", "IMPL≠SPEC", "MODEL≠IMPL"))]
        results[pid] = {"exit": rc, "wall_s": round(time.time() - t0, 1), "lines": [l[:400] for l in lines[:8]]}
        print(sid, pid, "exit", rc, *[l[:240] for l in lines[:4]], sep="\n  ")
finally:
    sh("git -C /repo checkout -- .")
    assert sh("git -C /repo status --porcelain")[1].strip() == ""
meta["check_results"] = results
meta["checked_with"] = sorted(set(meta.get("checked_with", []) + props))
meta["detected_by"] = [p for p, r in results.items() if r["exit"] != 0 and any(l.startswith("VIOLATION") for l in r["lines"])]
meta["rechecked"] = time.strftime("%Y-%m-%dT%H:%M:%SZ", time.gmtime())
json.dump(meta, open(os.path.join(d, "meta.json"), "w"), indent=1)
print(sid, "detected by:", meta["detected_by"])
