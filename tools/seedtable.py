#!/usr/bin/env python3
"""prints the markdown table of seeded mutations from /verif/seeded/*/meta.json"""
import glob, json, os, re
rows = []
for f in sorted(glob.glob('/verif/seeded/*/meta.json')):
    m = json.load(open(f))
    d = os.path.dirname(f)
    what = ''
    rd = os.path.join(d, 'README.md')
    if os.path.exists(rd):
        txt = open(rd).read()
        first = [l.strip() for l in txt.split('\n') if l.strip() and not l.startswith('#')]
        what = first[0][:150] if first else ''
    det = ', '.join(m.get('detected_by', [])) or 'MISSED'
    rows.append('| %s | %s | %s | %s | %s |' % (m['seed'], m['breaks'], 'yes' if m.get('confirmed') else 'NO', det, (m.get('history', '') or '')[:90]))
print('| seed | property | confirmed | detected by (quick) | note |\n|---|---|---|---|---|')
print('\n'.join(rows))
