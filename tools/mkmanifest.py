#!/usr/bin/env python3
"""Writes MANIFEST.json from tools/props.py (claimed properties) and properties.jsonl (ids)."""
import json, os, sys
V = os.path.dirname(os.path.dirname(os.path.abspath(__file__)))
sys.path.insert(0, os.path.join(V, "tools"))
from props import PROPS, NOT_APPLICABLE
ids = [json.loads(l)["id"] for l in open(os.path.join(V, "properties.jsonl"))]
checks = []
for pid in ids:
    if pid not in PROPS:
        continue
    P = PROPS[pid]
    checks.append({
        "property_id": pid,
        "quick_cmd": "./check %s quick" % pid,
        "thorough_cmd": "./check %s thorough" % pid,
        "evidence_file": "/verif/evidence/%s.json" % pid,
        "replay_cmd_template": "./check %s --replay {path}" % pid,
        "engine": "lean4+correspondence",
        "level_claimed": {"category": P.get("level", "proof"), "text": P["claim"], "design_ref": "DESIGN.md §5 " + pid},
        "level_note": P["note"],
        "technique": P.get("technique", "Lean 4 theorems over a hand-written model + correspondence check against the real code"),
    })
na = [{"property_id": i, "reason": NOT_APPLICABLE.get(i, "no check built yet (work in progress; see DESIGN.md §8 build order)")}
      for i in ids if i not in PROPS]
m = {
    "version": 1,
    "setup_cmd": "./setup.sh",
    "hooks": {
        "guard": "gb_dynarec_verif",
        "enable": "RUSTFLAGS=\"--cfg gb_dynarec_verif\" (the harness in /verif/harness compiles /repo/src/*.rs by #[path] with this cfg)",
        "baseline_off_cmd": "cd /repo && cargo test --offline",
        "source_commits": json.load(open(os.path.join(V, "tools", "hook_commits.json"))),
        "add_only": True,
    },
    "engines": [{"name": "lean4+correspondence", "path": "/verif/lean, /verif/harness, /verif/tools/runner.py",
                 "serves_properties": [c["property_id"] for c in checks],
                 "kind_free_text": "Lean 4 models/specs/theorems (kernel-checked, axiom-audited) tied to /repo by regenerated tables and a differential correspondence harness that compiles the current source"}],
    "checks": checks,
    "not_applicable": na,
    "notes": "See DESIGN.md. known_findings.txt lists recorded findings and fix: commits.",
}
json.dump(m, open(os.path.join(V, "MANIFEST.json"), "w"), indent=1)
print("claimed", len(checks), "not claimed", len(na))
