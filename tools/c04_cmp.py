n=open('/verif/.work/c04_n.txt').read().split('\n'); j=open('/verif/.work/c04_j.txt').read().split('\n')
bad=0
for a,b in zip(n,j):
    if not a: continue
    if a!=b:
        bad+=1
        if bad<=3:
            fa=dict(t.split('=',1) for t in a.split(' | ')[1].split(' ')); fb=dict(t.split('=',1) for t in b.split(' | ')[1].split(' '))
            sa=fa['s'].split(';'); sb=fb['s'].split(';')
            for k,(x,y) in enumerate(zip(sa,sb)):
                if x!=y: print(a.split(' | ')[0],'step',k,'interp',x,'jit',y, 'prev', sa[k-1] if k else ''); break
            else: print('other field differs', [k for k in fa if fa[k]!=fb.get(k)])
print('bad',bad,'of',len(n)-1)
