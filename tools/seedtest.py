#!/usr/bin/env python3
"""seedtest.py <out-dir of a mutation agent, e.g. /tmp/mut-C12-out/m1> <seed-id> <prop-id> [more prop ids]
1. confirms the mutation in a scratch worktree: patch applies, cargo test passes with it (both feature sets),
   demo passes without the patch and fails with it;
2. applies the patch to /repo, runs ./check <prop> quick for each listed property, reverts /repo;
3. stores /verif/seeded/<seed-id>/{patch.diff,demo.diff,README.md,meta.json}."""
import json, os, shutil, subprocess, sys, time

def sh(cmd, cwd=None, timeout=3600):
    p = subprocess.run(cmd, cwd=cwd, shell=True, stdout=subprocess.PIPE, stderr=subprocess.STDOUT, text=True, timeout=timeout)
    return p.returncode, p.stdout

src, sid, props = sys.argv[1], sys.argv[2], sys.argv[3:]
wt = "/tmp/seedwt-%s" % sid
meta = {"seed": sid, "breaks": props[0], "checked_with": props, "source_dir": src}
sh("git -C /repo worktree remove --force %s" % wt)
rc, out = sh("git -C /repo worktree add --detach %s HEAD" % wt)
assert rc == 0, out
try:
    def tests(feat=""):
        rc, out = sh("cargo test --offline %s 2>&1 | grep -a -E 'test result|^error' | head -3" % feat, cwd=wt)
        return out.strip()
    # demo without patch
    rc, out = sh("git apply %s/demo.diff" % src, cwd=wt); assert rc == 0, "demo does not apply: " + out
    demo_feat = os.environ.get("DEMO_FEATURES", "")
    clean = tests(demo_feat)
    rc, out = sh("git apply %s/patch.diff" % src, cwd=wt); assert rc == 0, "patch does not apply: " + out
    mutated = tests(demo_feat)
    sh("git checkout -- . && git clean -fdq -e target", cwd=wt)
    rc, out = sh("git apply %s/patch.diff" % src, cwd=wt)
    suite = tests(); suite_jit = tests("--features jit")
    meta["confirm"] = {"demo_on_clean_tree": clean, "demo_with_patch": mutated, "suite_with_patch": suite, "suite_with_patch_jit": suite_jit}
    ok = ("failed" in mutated and " 0 failed" not in mutated) and " 0 failed" in clean and " 0 failed" in suite and " 0 failed" in suite_jit and "98 passed" in suite
    meta["confirmed"] = bool(ok)
finally:
    sh("git -C /repo worktree remove --force %s" % wt)
    shutil.rmtree(wt, ignore_errors=True)
print("confirmation:", json.dumps(meta["confirm"]), "confirmed=", meta["confirmed"])
if os.environ.get("SEED_CONFIRM_ONLY"):
    # phase 1 only (runs in parallel for several seeds): store the seed; tools/seedrecheck.py runs the checks later
    d = "/verif/seeded/%s" % sid
    os.makedirs(d, exist_ok=True)
    for f in ("patch.diff", "demo.diff", "README.md"):
        if os.path.exists(os.path.join(src, f)):
            shutil.copy(os.path.join(src, f), os.path.join(d, f))
    meta["check_results"] = {}; meta["detected_by"] = []
    json.dump(meta, open(os.path.join(d, "meta.json"), "w"), indent=1)
    sys.exit(0)
# run the checks against the mutated /repo
assert sh("git -C /repo status --porcelain")[1].strip() == "", "/repo is dirty"
results = {}
rc, out = sh("git -C /repo apply %s/patch.diff" % src)
assert rc == 0, out
try:
    for pid in props:
        t0 = time.time()
        rc, out = sh("./check %s quick" % pid, cwd="/verif", timeout=3000)
        lines = [l for l in out.split("\n") if l.startswith(("VIOLATION", "PASS", "KNOWN-FINDING", "BROKEN", "IMPL≠SPEC", "MODEL≠IMPL"))]
        results[pid] = {"exit": rc, "wall_s": round(time.time() - t0, 1), "lines": [l[:400] for l in lines[:8]]}
        print(pid, "exit", rc, *[l[:300] for l in lines[:6]], sep="\n  ")
finally:
    sh("git -C /repo checkout -- .")
    assert sh("git -C /repo status --porcelain")[1].strip() == ""
meta["check_results"] = results
meta["detected_by"] = [p for p, r in results.items() if r["exit"] != 0 and any(l.startswith("VIOLATION") for l in r["lines"])]
d = "/verif/seeded/%s" % sid
os.makedirs(d, exist_ok=True)
for f in ("patch.diff", "demo.diff", "README.md"):
    if os.path.exists(os.path.join(src, f)):
        shutil.copy(os.path.join(src, f), os.path.join(d, f))
json.dump(meta, open(os.path.join(d, "meta.json"), "w"), indent=1)
print("detected by:", meta["detected_by"])
