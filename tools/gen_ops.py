#!/usr/bin/env python3
"""Translator: /repo/src/decoder/mod.rs + ops.rs -> /verif/lean/GbVerif/Gen/DecoderOps.lean

Emits, from the same parsed match arms as gen_decoder.py (fail closed):
    GbVerif.Gen.decOp : Nat -> Nat -> Nat -> Op      first byte, operand bytes b1 b2 -> the Op the arm builds
    GbVerif.Gen.cbOp  : Nat -> Op                    byte after the 0xCB prefix
    GbVerif.Gen.decode : b0 b1 b2 -> Op x len x clocks   (prefix resolved)
    GbVerif.Gen.isBlockEnd : Op -> Bool              arms of `Op::is_block_end`
and checks that the Rust enums Op/Register8/Register16/IndirectLocation/JumpCondition have exactly the
variants that lean/GbVerif/Model/Op.lean mirrors.
"""
import os, re, sys
sys.path.insert(0, os.path.dirname(os.path.abspath(__file__)))
import gen_decoder as G

VERIF = os.path.dirname(os.path.dirname(os.path.abspath(__file__)))
OPS_RS = "/repo/src/decoder/ops.rs"
OUT = os.path.join(VERIF, "lean", "GbVerif", "Gen", "DecoderOps.lean")
OP_LEAN = os.path.join(VERIF, "lean", "GbVerif", "Model", "Op.lean")

ENUM_MAP = {"Register8": "Reg8", "Register16": "Reg16", "IndirectLocation": "Indirect", "JumpCondition": "Cond"}


def strip_rs(src):
    """comments and string literals out (ops.rs has format strings and `'_` lifetimes, no char literals)"""
    src = re.sub(r'"(?:[^"\\\n]|\\.)*"', '""', src)
    src = re.sub(r"/\*.*?\*/", " ", src, flags=re.S)
    return re.sub(r"//[^\n]*", "", src)


def rust_enum(src, name):
    m = re.search(r"pub enum %s\s*\{" % name, src)
    if not m:
        raise G.TranslateError("enum %s not found in ops.rs" % name)
    start = m.end() - 1
    body = src[start + 1:G.matching(src, start, "{", "}")]
    out = []
    for v in G.split_top(body, ","):
        v = G.norm(v)
        if not v:
            continue
        mm = re.fullmatch(r"([A-Za-z0-9]+)(?:\((.*)\))?", v)
        if not mm:
            raise G.TranslateError("enum %s: variant not understood: %r" % (name, v))
        args = [a.strip() for a in mm.group(2).split(",")] if mm.group(2) else []
        out.append((mm.group(1), args))
    return out


def lean_enum(src, name):
    m = re.search(r"inductive %s where(.*?)\nderiving" % name, src, re.S)
    if not m:
        raise G.TranslateError("inductive %s not found in Op.lean" % name)
    out = []
    for v in m.group(1).split("|"):
        v = v.strip()
        if not v:
            continue
        mm = re.match(r"([A-Za-z0-9]+)(.*)", v, re.S)
        binders = re.findall(r"\(([^:()]+):\s*([A-Za-z0-9]+)\)", mm.group(2))
        args = []
        for names, ty in binders:
            args += [ty] * len(names.split())
        out.append((mm.group(1), args))
    return out


RUST_TO_LEAN_TY = {"u8": "Nat", "i8": "Nat", "u16": "Nat", "bool": "Bool", "Register8": "Reg8", "Register16": "Reg16",
                   "IndirectLocation": "Indirect", "JumpCondition": "Cond"}


def check_enums():
    rs_all = strip_rs(open(OPS_RS).read())
    rs = rs_all.split("impl Op")[0]
    ln = open(OP_LEAN).read()
    for rname, lname in list(ENUM_MAP.items()) + [("Op", "Op")]:
        src = rs if rname == "Op" else rs_all
        r = [(n, [RUST_TO_LEAN_TY.get(a, "?" + a) for a in args]) for n, args in rust_enum(src, rname)]
        l = lean_enum(ln, lname)
        if r != l:
            diff = [x for x in r if x not in l] + [x for x in l if x not in r]
            raise G.TranslateError("enum %s differs between ops.rs and Model/Op.lean: %r" % (rname, diff[:6]))


def lean_arg(tok, env, where):
    t = tok.strip()
    m = re.fullmatch(r"(Register8|Register16|IndirectLocation|JumpCondition)::([A-Za-z0-9]+)", t)
    if m:
        return "%s.%s" % (ENUM_MAP[m.group(1)], m.group(2))
    if t in ("true", "false"):
        return t
    if re.fullmatch(r"0[xX][0-9a-fA-F]+|[0-9]+", t):
        return str(G.parse_int(t, where))
    if t in env:
        kind, rhs = env[t]
        if kind in ("u8", "i8"):
            return "b1"
        if kind == "u16le":
            return "(b1 + 256 * b2)"
        if kind == "highmem":
            return "(65280 + b1)"     # 0xff00 | low byte
    m = re.fullmatch(r"instructions\[0\]", t)
    if m:
        return "b0"
    raise G.TranslateError("%s: cannot translate Op argument %r" % (where, t))


def lean_op(arm, where):
    env = {n: (k, r) for n, k, r in arm.lets}
    m = re.fullmatch(r"Op::([A-Za-z0-9]+)(?:\((.*)\))?", arm.op_src)
    if not m:
        raise G.TranslateError("%s: op expression %r" % (where, arm.op_src))
    args = [lean_arg(a, env, where) for a in G.split_top(m.group(2), ",")] if m.group(2) else []
    return "Op.%s%s" % (m.group(1), "".join(" " + a for a in args))


def tree(xs, lo, hi, ind, var):
    if hi - lo == 1:
        return xs[lo]
    mid = (lo + hi) // 2
    pad = " " * ind
    return "if %s < %d then %s\n%selse %s" % (var, mid, tree(xs, lo, mid, ind + 2, var), pad, tree(xs, mid, hi, ind + 2, var))


def block_end_arms():
    src = strip_rs(open(OPS_RS).read())
    m = re.search(r"pub fn is_block_end\(&self\) -> bool \{", src)
    if not m:
        raise G.TranslateError("is_block_end not found")
    start = m.end() - 1
    body = src[start + 1:G.matching(src, start, "{", "}")]
    mm = re.search(r"match self \{", body)
    ms = mm.end() - 1
    arms = body[ms + 1:G.matching(body, ms, "{", "}")]
    out, default = [], None
    for a in G.split_top(arms, ","):
        a = G.norm(a)
        if not a:
            continue
        am = re.fullmatch(r"Op::([A-Za-z0-9]+)(\((?:_(?:, )?)*\))? => (true|false)", a)
        if am:
            n = am.group(2).count("_") if am.group(2) else 0
            out.append((am.group(1), n, am.group(3)))
            continue
        am = re.fullmatch(r"_ => (true|false)", a)
        if am:
            default = am.group(1)
            continue
        raise G.TranslateError("is_block_end: arm not understood: %r" % a)
    if default is None:
        raise G.TranslateError("is_block_end: no wildcard arm")
    return out, default


def main():
    try:
        check_enums()
        src = G.strip_comments(open(G.REPO_DECODER).read())
        G.check_read_u16(src)
        dec, dwild = G.parse_function(src, "decode")
        cb, cwild = G.parse_function(src, "decode_cb")
        prefix = [b for b, a in dec.items() if a.delegates]
        if len(prefix) != 1 or dec[prefix[0]].delegates != "decode_cb":
            raise G.TranslateError("expected exactly one arm delegating to decode_cb")
        ops, lens, clks = [], [], []
        for b in range(256):
            a = dec.get(b, dwild)
            if a is None:
                raise G.TranslateError("decode: byte %#x unmatched" % b)
            if a.delegates:
                ops.append("Op.Invalid 0"); lens.append("0"); clks.append("0")
            else:
                ops.append(lean_op(a, "decode %#04x" % b)); lens.append(str(a.length)); clks.append(str(a.clocks))
        cops, clens, cclks = [], [], []
        for b in range(256):
            a = cb.get(b, cwild)
            if a is None or a.lets or a.delegates:
                raise G.TranslateError("decode_cb: byte %#x has an unexpected arm shape" % b)
            cops.append(lean_op(a, "decode_cb %#04x" % b)); clens.append(str(a.length)); cclks.append(str(a.clocks))
        be, default = block_end_arms()
    except G.TranslateError as e:
        sys.stderr.write("gen_ops.py: %s\n" % e)
        return 1
    out = ["import GbVerif.Model.Op",
           "/-!\nGENERATED by tools/gen_ops.py from /repo/src/decoder/mod.rs and ops.rs — do not edit.\n-/",
           "namespace GbVerif.Gen", "open GbVerif", ""]
    out.append("/-- the Op built by the arm of `decode` for first byte `b0` (operand bytes `b1`, `b2`); slot of the prefix byte unused -/")
    out.append("def decOp (b0 b1 b2 : Nat) : Op :=\n  " + tree(ops, 0, 256, 2, "b0") + "\n")
    out.append("/-- the Op built by `decode_cb` for the byte after the prefix -/")
    out.append("def cbOp (b1 : Nat) : Op :=\n  " + tree(cops, 0, 256, 2, "b1") + "\n")
    out.append("def opLen (b0 : Nat) : Nat :=\n  " + tree(lens, 0, 256, 2, "b0") + "\n")
    out.append("def opClocks (b0 : Nat) : Nat :=\n  " + tree(clks, 0, 256, 2, "b0") + "\n")
    out.append("def cbOpLen (b1 : Nat) : Nat :=\n  " + tree(clens, 0, 256, 2, "b1") + "\n")
    out.append("def cbOpClocks (b1 : Nat) : Nat :=\n  " + tree(cclks, 0, 256, 2, "b1") + "\n")
    out.append("def prefixByteOps : Nat := %d\n" % prefix[0])
    out.append("/-- `decode(&[b0, b1, b2])` for bytes < 256: (op, length, clocks) -/")
    out.append("def decode (b0 b1 b2 : Nat) : Op × Nat × Nat :=\n  if b0 = prefixByteOps then (cbOp b1, cbOpLen b1, cbOpClocks b1) else (decOp b0 b1 b2, opLen b0, opClocks b0)\n")
    out.append("/-- `Op::is_block_end` -/")
    lines = ["def isBlockEnd : Op → Bool"]
    for name, n, val in be:
        lines.append("  | .%s%s => %s" % (name, " _" * n, val))
    lines.append("  | _ => %s" % default)
    out.append("\n".join(lines) + "\n")
    out.append("end GbVerif.Gen")
    text = "\n".join(out) + "\n"
    old = open(OUT).read() if os.path.exists(OUT) else None
    if old != text:
        with open(OUT, "w") as f:
            f.write(text)
    return 0


if __name__ == "__main__":
    sys.exit(main())
