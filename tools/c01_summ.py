import re,collections,sys
def cls(st):
    st=int(st); return {1:'stop',2:'halt',3:'di',4:'ei',5:'ei'}.get(st,'normal')
n=0;bad=collections.Counter();ex={}
for l in open(sys.argv[1], errors='replace'):
    m=re.search(r'code=(\w+) at=(\d+) .*\| i=(\S*) j=(\S*) jd=(\S+)',l)
    if not m: continue
    n+=1
    code,at,i,j,jd=m.groups()
    fi=i.split(';');fj=j.split(';')
    if len(fi)==6 and len(fj)==6:
        fi[1]=cls(fi[1]); fj[1]=cls(fj[1])
        if int(at)>=0x4000 and any(int(w.split(':')[0])<0x8000 for w in fi[2].split('+') if w): continue
    if fi!=fj:
        k=code[:2] if code[:2]!='cb' else code[:4]
        what=[x for x,(a,b) in zip(['regs','st','writes','small','probes','rb'],zip(fi,fj)) if a!=b] if len(fi)==len(fj) else ['died:'+jd]
        key=(k if len(code)<=8 else 'block',tuple(what))
        bad[key]+=1
        ex.setdefault(key,l.strip()[:600])
print(n,sum(bad.values()))
for k,v in sorted(bad.items(),key=lambda x:-x[1])[:40]: print(v,k); 
for k in list(ex)[:int(sys.argv[2]) if len(sys.argv)>2 else 0]: print(ex[k])
