#!/usr/bin/env python3
"""Translator: /repo/src/decoder/mod.rs  ->  /verif/lean/GbVerif/Gen/DecoderTable.lean

Reads the match arms of `decode` and `decode_cb` and writes an import-free Lean module with, per first
byte (and per second byte after the 0xCB prefix), what the arm returns:

    GbVerif.Gen.decLen / decClocks / decReads : Nat -> Nat     (unprefixed table, index = first byte)
    GbVerif.Gen.cbLen  / cbClocks  / cbReads  : Nat -> Nat     (decode_cb table, index = byte after 0xCB)
    GbVerif.Gen.isInvalid : Nat -> Bool                        (bytes that fall into the `_ =>` arm of `decode`)
    GbVerif.Gen.prefixByte : Nat                               (the arm that delegates to decode_cb)
    GbVerif.Gen.instrLen / instrClocks : Nat -> Nat -> Nat     (first byte, second byte) -> value, prefix resolved

`decReads` is the number of bytes *after* the first one that the arm indexes (`instructions[1]` = 1,
`read_u16(&instructions[1..])` = 2); the slot of the prefix byte in the unprefixed tables holds 0 and is never
used through `instrLen`/`instrClocks`.  Each table is emitted as a balanced if-then-else tree over the byte
(the flat 16x16 table is repeated in its doc comment): the Lean kernel evaluates a tree lookup in microseconds,
whereas `Array.getD`/`List.getD`/a 256-arm `match` on a literal table cost it about 10 ms or more per lookup (measured).

FAIL CLOSED: every arm must be understood completely (pattern, every `let`, the returned tuple).  Anything else
-> message on stderr and exit status 1; nothing is written.  The output is deterministic and the file is only
rewritten when its content changes (so `lake` does not rebuild needlessly).

Structure (for extension with op templates): `parse_function` returns `(byte -> Arm, wildcard Arm or None)`; an `Arm`
keeps the full right-hand side (`lets`, `op_src`), not just the numbers; `build_tables` turns the arms into columns and
`emit_lean` is the only place that decides what is written.  `--src`/`--out` exist for testing the fail-closed paths.
"""
import os
import re
import sys

REPO_DECODER = "/repo/src/decoder/mod.rs"
VERIF = os.path.dirname(os.path.dirname(os.path.abspath(__file__)))
OUT = os.path.join(VERIF, "lean", "GbVerif", "Gen", "DecoderTable.lean")


class TranslateError(Exception):
    pass


class Arm:
    """One match arm.  `bytes` = the u8 values of the pattern (empty for the wildcard)."""

    def __init__(self, pattern_src, body_src):
        self.pattern_src = pattern_src
        self.body_src = body_src
        self.bytes = []          # values matched by the pattern
        self.wildcard = False    # `_ =>`
        self.delegates = None    # name of the function the arm tail-calls (decode_cb), else None
        self.lets = []           # [(name, kind, rhs_src)] kind in {u8, i8, u16le, highmem, op}
        self.op_src = None       # source text of the Op expression that is returned
        self.length = None
        self.clocks = None
        self.reads = 0           # operand bytes indexed by the arm

    def __repr__(self):
        return "Arm(%s => %s)" % (self.pattern_src, self.body_src[:60])


# ----------------------------------------------------------------------------------------------- lexical helpers

def strip_comments(src):
    """remove // line comments and /* */ block comments (there are no string/char literals with slashes here;
    a quote character anywhere in the decoder is reported instead of guessed at)"""
    src = re.sub(r"/\*.*?\*/", " ", src, flags=re.S)
    src = re.sub(r"//[^\n]*", "", src)
    if '"' in src or "'" in src:
        raise TranslateError("decoder source contains a string/char literal; the comment stripper does not handle it")
    return src


def matching(src, i, open_c, close_c):
    """index of the bracket closing the one at src[i]"""
    assert src[i] == open_c
    depth = 0
    for j in range(i, len(src)):
        if src[j] == open_c:
            depth += 1
        elif src[j] == close_c:
            depth -= 1
            if depth == 0:
                return j
    raise TranslateError("unbalanced %s at offset %d" % (open_c, i))


def split_top(src, sep):
    """split at separators that are outside every bracket"""
    parts, depth, cur = [], 0, []
    for ch in src:
        if ch in "([{":
            depth += 1
        elif ch in ")]}":
            depth -= 1
        if ch == sep and depth == 0:
            parts.append("".join(cur))
            cur = []
        else:
            cur.append(ch)
    parts.append("".join(cur))
    return parts


def norm(s):
    return re.sub(r"\s+", " ", s).strip()


# ----------------------------------------------------------------------------------------------- parsing

def function_body(src, name):
    m = re.search(r"\bfn\s+%s\s*\(\s*instructions\s*:\s*&\[u8\]\s*\)\s*->\s*\(\s*Op\s*,\s*usize\s*,\s*usize\s*\)\s*\{" % name, src)
    if not m:
        raise TranslateError("fn %s(instructions: &[u8]) -> (Op, usize, usize) not found" % name)
    start = m.end() - 1
    end = matching(src, start, "{", "}")
    return src[start + 1:end]


def match_arms_src(body, fname):
    """the function body must be exactly one `match instructions[0] { ... }`"""
    b = body.strip()
    m = re.match(r"match\s+instructions\s*\[\s*0\s*\]\s*\{", b)
    if not m:
        raise TranslateError("%s: body does not start with `match instructions[0] {`" % fname)
    start = m.end() - 1
    end = matching(b, start, "{", "}")
    if b[end + 1:].strip() != "":
        raise TranslateError("%s: code after the match: %r" % (fname, b[end + 1:].strip()[:80]))
    return b[start + 1:end]


def split_arms(arms_src, fname):
    """-> [(pattern_src, body_src)]"""
    out, i, n = [], 0, len(arms_src)
    while True:
        while i < n and arms_src[i] in " \t\r\n,":
            i += 1
        if i >= n:
            break
        j = arms_src.find("=>", i)
        if j < 0:
            raise TranslateError("%s: trailing text without `=>`: %r" % (fname, arms_src[i:i + 80]))
        pat = arms_src[i:j].strip()
        k = j + 2
        while k < n and arms_src[k] in " \t\r\n":
            k += 1
        if k >= n:
            raise TranslateError("%s: arm %s has no body" % (fname, pat))
        if arms_src[k] == "{":
            e = matching(arms_src, k, "{", "}")
            body = arms_src[k:e + 1]
            i = e + 1
        else:
            depth, e = 0, k
            while e < n:
                ch = arms_src[e]
                if ch in "([{":
                    depth += 1
                elif ch in ")]}":
                    depth -= 1
                elif ch == "," and depth == 0:
                    break
                e += 1
            body = arms_src[k:e]
            i = e
        out.append((pat, body.strip()))
    return out


def parse_int(tok, what):
    t = tok.strip().replace("_", "")
    if re.fullmatch(r"0[xX][0-9a-fA-F]+", t):
        return int(t, 16)
    if re.fullmatch(r"[0-9]+", t):
        return int(t)
    raise TranslateError("%s: not an integer literal: %r" % (what, tok))


LET_FORMS = [
    # (regex on the normalised right-hand side, kind, operand bytes read)
    (re.compile(r"^read_u16\(&instructions\[1\.\.\]\)$"), "u16le", 2),
    (re.compile(r"^instructions\[1\]$"), "u8", 1),
    (re.compile(r"^instructions\[1\] as i8$"), "i8", 1),
    (re.compile(r"^instructions\[1\] as u16$"), "u8", 1),
    (re.compile(r"^0xff00 \| [a-z_]+$"), "highmem", 0),
    (re.compile(r"^Op::[A-Za-z0-9]+(\(.*\))?$"), "op", 0),
]


def parse_tuple(arm, src, env, where):
    s = src.strip()
    if not (s.startswith("(") and matching(s, 0, "(", ")") == len(s) - 1):
        raise TranslateError("%s: arm does not end in a tuple: %r" % (where, s[:80]))
    parts = [p.strip() for p in split_top(s[1:-1], ",")]
    if parts and parts[-1] == "":
        parts.pop()          # trailing comma
    if len(parts) != 3:
        raise TranslateError("%s: returned tuple has %d elements, expected (op, length, clocks)" % (where, len(parts)))
    op = norm(parts[0])
    if op in env:
        if env[op][0] != "op":
            raise TranslateError("%s: first tuple element %r is not an Op binding" % (where, op))
        arm.op_src = env[op][1]
    elif re.fullmatch(r"Op::[A-Za-z0-9]+(\(.*\))?", op):
        arm.op_src = op
    else:
        raise TranslateError("%s: cannot read the Op expression %r" % (where, op))
    # an inline `instructions[k]` inside the Op expression is a read as well (the `_` arm reads byte 0 only)
    for m in re.finditer(r"instructions\s*\[\s*([^\]]+)\]", arm.op_src):
        idx = m.group(1).strip()
        if not re.fullmatch(r"[0-9]+", idx):
            raise TranslateError("%s: cannot bound the index in %r" % (where, m.group(0)))
        arm.reads = max(arm.reads, int(idx))
    if "read_u16" in arm.op_src:
        raise TranslateError("%s: inline read_u16 in the Op expression is not supported" % where)
    arm.length = parse_int(parts[1], where + " length")
    arm.clocks = parse_int(parts[2], where + " clocks")


def parse_arm(pat, body, fname):
    arm = Arm(pat, body)
    where = "%s arm `%s`" % (fname, pat)
    # pattern
    if pat == "_":
        arm.wildcard = True
    else:
        for alt in pat.split("|"):
            v = parse_int(alt, where + " pattern")
            if not 0 <= v <= 255:
                raise TranslateError("%s: pattern value out of u8 range" % where)
            arm.bytes.append(v)
    # body
    b = body.strip()
    m = re.fullmatch(r"([a-z_][a-z0-9_]*)\s*\(\s*&instructions\s*\[\s*1\s*\.\.\s*\]\s*\)", b)
    if m:
        arm.delegates = m.group(1)
        return arm
    if b.startswith("{"):
        inner = b[1:-1]
        stmts = [s for s in split_top(inner, ";")]
        tail = stmts.pop().strip()
        env = {}
        for st in stmts:
            st = norm(st)
            lm = re.fullmatch(r"let ([a-z_][a-z0-9_]*) = (.*)", st)
            if not lm:
                raise TranslateError("%s: statement not understood: %r" % (where, st))
            name, rhs = lm.group(1), lm.group(2)
            for rx, kind, reads in LET_FORMS:
                if rx.match(rhs):
                    break
            else:
                raise TranslateError("%s: right-hand side of `let %s` not understood: %r" % (where, name, rhs))
            if kind == "highmem":
                dep = rhs.split("|")[1].strip()
                if dep not in env or env[dep][0] != "u8":
                    raise TranslateError("%s: `%s` uses unknown binding %r" % (where, rhs, dep))
            if kind == "op":
                for ident in re.findall(r"\b[a-z_][a-z0-9_]*\b", re.sub(r"[A-Za-z0-9_]+::", "", rhs)):
                    if ident not in env and ident not in ("true", "false"):
                        raise TranslateError("%s: Op expression uses unknown name %r" % (where, ident))
            env[name] = (kind, rhs)
            arm.lets.append((name, kind, rhs))
            arm.reads = max(arm.reads, reads)
        parse_tuple(arm, tail, env, where)
    else:
        parse_tuple(arm, b, {}, where)
    return arm


def parse_function(src, fname):
    arms = [parse_arm(p, b, fname) for p, b in split_arms(match_arms_src(function_body(src, fname), fname), fname)]
    seen = {}
    for k, a in enumerate(arms):
        if a.wildcard and k != len(arms) - 1:
            raise TranslateError("%s: wildcard arm is not the last arm" % fname)
        for v in a.bytes:
            if v in seen:
                raise TranslateError("%s: byte %#04x matched by two arms" % (fname, v))
            seen[v] = a
    wild = arms[-1] if arms and arms[-1].wildcard else None
    if wild is None and len(seen) != 256:
        missing = [hex(v) for v in range(256) if v not in seen]
        raise TranslateError("%s: no wildcard arm and bytes %s are not matched" % (fname, ", ".join(missing[:8])))
    return seen, wild


# ----------------------------------------------------------------------------------------------- tables

READ_U16 = "let low = instructions[0] as u16; let high = instructions[1] as u16; (high << 8) | low"


def check_read_u16(src):
    """`read_u16(&instructions[1..])` is counted as touching indices 1 and 2 (little endian); that is only right for
    the helper as it is written today, so its text is pinned"""
    m = re.search(r"\bfn\s+read_u16\s*\(\s*instructions\s*:\s*&\[u8\]\s*\)\s*->\s*u16\s*\{", src)
    if not m:
        raise TranslateError("fn read_u16(instructions: &[u8]) -> u16 not found")
    start = m.end() - 1
    body = norm(src[start + 1:matching(src, start, "{", "}")])
    if body != READ_U16:
        raise TranslateError("read_u16 is no longer the pinned little-endian two-byte read: %r" % body)


def build_tables(src):
    check_read_u16(src)
    main, main_wild = parse_function(src, "decode")
    cb, cb_wild = parse_function(src, "decode_cb")
    prefixes = [v for v, a in main.items() if a.delegates]
    for v in prefixes:
        if main[v].delegates != "decode_cb":
            raise TranslateError("decode arm %#04x delegates to unknown function %s" % (v, main[v].delegates))
    if len(prefixes) != 1:
        raise TranslateError("expected exactly one arm delegating to decode_cb, found %d" % len(prefixes))
    if main_wild is not None and main_wild.delegates:
        raise TranslateError("decode: wildcard arm delegates")
    for tab, wild, nm in ((cb, cb_wild, "decode_cb"),):
        for a in list(tab.values()) + ([wild] if wild else []):
            if a.delegates:
                raise TranslateError("%s: nested delegation" % nm)
    if main_wild is not None and not re.fullmatch(r"Op::Invalid\(instructions\[0\]\)", main_wild.op_src):
        raise TranslateError("decode: wildcard arm is not Op::Invalid(instructions[0]): %r" % main_wild.op_src)

    def column(tab, wild, f, prefix_default=0):
        col = []
        for v in range(256):
            a = tab.get(v, wild)
            col.append(prefix_default if a.delegates else f(a))
        return col

    t = {
        "prefix": prefixes[0],
        "decLen": column(main, main_wild, lambda a: a.length),
        "decClocks": column(main, main_wild, lambda a: a.clocks),
        "decReads": column(main, main_wild, lambda a: a.reads),
        "invalid": [0 if v in main else 1 for v in range(256)],
        "cbLen": column(cb, cb_wild, lambda a: a.length),
        "cbClocks": column(cb, cb_wild, lambda a: a.clocks),
        "cbReads": column(cb, cb_wild, lambda a: a.reads),
        "arms": (main, main_wild, cb, cb_wild),
    }
    # sanity that must hold for the Rust to type-check / not be trivially broken; reported, never repaired
    for nm in ("decLen", "cbLen"):
        for v, x in enumerate(t[nm]):
            if nm == "decLen" and v == t["prefix"]:
                continue
            if not 1 <= x <= 4:
                raise TranslateError("%s[%#04x] = %d is outside 1..4 (Instruction.bytes is [u8; 4])" % (nm, v, x))
    return t


def lean_rows(xs):
    return ",\n".join("    " + ", ".join("%d" % x for x in xs[r:r + 16]) for r in range(0, 256, 16))


def lean_tree(xs, lo, hi, indent):
    """balanced decision tree over [lo, hi): 8 comparisons per lookup, which the Lean kernel evaluates in
    microseconds (a 256-element `Array.getD`/`List.getD`/`match` costs it about 10 ms or more per lookup, measured)."""
    if all(x == xs[lo] for x in xs[lo:hi]):
        return "%d" % xs[lo]
    mid = (lo + hi) // 2
    pad = " " * indent
    return "if b < %d then %s\n%selse %s" % (mid, lean_tree(xs, lo, mid, indent + 2), pad, lean_tree(xs, mid, hi, indent + 2))


def lean_table(name, xs, doc):
    """`def name (b : Nat) : Nat`: xs[b] for b < 256, 0 otherwise; the flat table is repeated in the doc comment"""
    return ("/-- %s.  Row r, column c = entry 16*r + c:\n```\n%s\n```\n-/\ndef %s (b : Nat) : Nat :=\n  if b < 256 then %s\n  else 0\n"
            % (doc, lean_rows(xs), name, lean_tree(xs, 0, 256, 4)))


def emit_lean(t):
    out = []
    out.append("/-!\nGENERATED by tools/gen_decoder.py from /repo/src/decoder/mod.rs — do not edit.\n"
               "Per first byte what the arm of `decode` returns (length, clocks, operand bytes indexed), the same for\n"
               "`decode_cb` per byte following the prefix, and which bytes fall into the `_ =>` (Op::Invalid) arm.\n"
               "The slot of the prefix byte in the unprefixed tables is 0 and is never read through `instrLen`/`instrClocks`.\n"
               "Tables are balanced decision trees (fast in the kernel and at run time); arguments ≥ 256 give 0.\n-/\n"
               "namespace GbVerif.Gen\n")
    out.append("/-- the first byte whose arm is `decode_cb(&instructions[1..])` -/\ndef prefixByte : Nat := %d\n" % t["prefix"])
    out.append(lean_table("decLen", t["decLen"], "`decode`: returned length per first byte"))
    out.append(lean_table("decClocks", t["decClocks"], "`decode`: returned clocks per first byte"))
    out.append(lean_table("decReads", t["decReads"], "`decode`: number of bytes after the first that the arm indexes"))
    out.append(lean_table("invalidFlag", t["invalid"], "`decode`: 1 where the byte is matched only by the `_ =>` arm (Op::Invalid)"))
    out.append(lean_table("cbLen", t["cbLen"], "`decode_cb`: returned length (prefix included) per second byte"))
    out.append(lean_table("cbClocks", t["cbClocks"], "`decode_cb`: returned clocks per second byte"))
    out.append(lean_table("cbReads", t["cbReads"], "`decode_cb`: bytes after its own first byte that the arm indexes"))
    out.append(
        "/-- the byte falls into the `_ =>` arm of `decode` -/\n"
        "def isInvalid (b : Nat) : Bool := invalidFlag b == 1\n\n"
        "/-- length `decode` returns for an instruction starting with `b0 b1` (the tuple of `decode_cb` is returned unchanged) -/\n"
        "def instrLen (b0 b1 : Nat) : Nat := if b0 = prefixByte then cbLen b1 else decLen b0\n"
        "/-- clocks `decode` returns for an instruction starting with `b0 b1` -/\n"
        "def instrClocks (b0 b1 : Nat) : Nat := if b0 = prefixByte then cbClocks b1 else decClocks b0\n"
        "/-- highest index of its argument slice that `decode` touches for an instruction starting with `b0 b1` -/\n"
        "def instrReads (b0 b1 : Nat) : Nat := if b0 = prefixByte then 1 + cbReads b1 else decReads b0\n\n"
        "end GbVerif.Gen\n")
    return "\n".join(out)


def main():
    # test hooks: --src <decoder.rs> --out <file.lean> (the registered command uses neither)
    global OUT
    args = sys.argv[1:]
    src_path = REPO_DECODER
    while args:
        if args[0] == "--src" and len(args) > 1:
            src_path, args = args[1], args[2:]
        elif args[0] == "--out" and len(args) > 1:
            OUT, args = args[1], args[2:]
        else:
            sys.stderr.write("usage: gen_decoder.py [--src decoder.rs] [--out file.lean]\n")
            return 2
    try:
        src = strip_comments(open(src_path).read())
        text = emit_lean(build_tables(src))
    except (TranslateError, OSError) as e:
        sys.stderr.write("gen_decoder: FAILED (nothing written): %s\n" % e)
        return 1
    os.makedirs(os.path.dirname(os.path.abspath(OUT)), exist_ok=True)
    old = open(OUT).read() if os.path.exists(OUT) else None
    if old != text:
        tmp = OUT + ".tmp"
        with open(tmp, "w") as f:
            f.write(text)
        os.replace(tmp, OUT)
        print("gen_decoder: wrote %s" % os.path.relpath(OUT, VERIF))
    else:
        print("gen_decoder: %s up to date" % os.path.relpath(OUT, VERIF))
    return 0


if __name__ == "__main__":
    sys.exit(main())
