PROP = {
    "claim": "Proof: Core::run_code_block is modelled with the execution engine as a parameter and everything else shared; engines that agree "
             "on every block (up to the class of the status byte) give the same machine after every number of steps, for every device "
             "behaviour (engine_indep, step_status_class). The premise is C01/C02/C03. Tie/witness search: generated structured programs "
             "(counted loops, CALL/RET incl. conditional, VBlank/STAT/timer/serial/joypad handlers, HALT, OAM DMA through an HRAM wait "
             "loop, code copied to work RAM, bank switches from bank 0, serial output) advanced block by block through the real "
             "Core::run_code_block of the jit build and of the non-jit build; after EVERY step registers, IME/run state, IF/IE, "
             "DIV/TIMA (clocks delivered), LY/STAT, DMA progress, bank must agree, and all RAM every 64 steps, the frame buffer and "
             "the captured serial output at the end. Third leg: the same programs (their ROM patches travel in the line) are replayed on the "
             "whole-machine Lean model - Core.runCodeBlockInterp / Core.update over Sys.dev (OAM DMA, timer, LCD, joypad) with the MBC1 "
             "model - and ip, af, sp, the timer's cycle counter and the digest of BC DE HL IF IE TIMA LY STAT DMA-progress bank "
             "run-state IME must agree after EVERY block, the RAM digest after 64 blocks and at the end, and the serial output.",
    "note": "Trusted: Lean kernel, harness, runner join across builds, hooks (Timer/DMAState verif_state). Programs never switch banks from "
            "code in the switchable bank (recorded known finding of C03) and never reach undefined opcodes.",
    "technique": "Lean 4 congruence proof by induction over steps + three-way per-step differential of generated programs (recompiler build, interpreter build, whole-machine Lean model)",
    "level": "proof",
    "streams": [{"name": "c04", "join": True, "shards": {"quick": 2, "thorough": 16}}],
    "modules": ["GbVerif.Model.Core", "GbVerif.Model.Sys", "GbVerif.Model.Cpu", "GbVerif.Model.Bus", "GbVerif.Model.Cart"],
    "rule": "one main-loop fragment in fifteen calls a routine in the FIXED bank that reads a byte of the switchable bank (LD A,(0x4001) ; RET at 0x3A00) under two different banks and adds the results; one straight-line block of 300 / 1030 / 2100 instructions per program (block length must not depend on the engine); bank switches include bank 8 of 8 (= bank 0 mapped in the window) paired with bank 1 at the same address; subroutines contain LD HL,SP+e / ADD SP,e with offsets that make the low byte of the sum 1..5; 120 (thorough 4000) programs x 2500 (6000) block steps; program = init (TMA/TAC/STAT/LYC/LCDC/IE random from small sets) + 6..15 fragments "
            "in a loop; non-trivial = more than 10 distinct block entry points were visited",
    "assumptions": ["the frame buffer is compared between the two builds only (the pixel pipeline is modelled separately, C15, not inside Sys)"],
}
