PROP = {
    "claim": "Proof: over a Lean model of load_rom/read_header/valid_checksum/with_rom_file and the cartridge tables "
             "regenerated from cart.rs, (checksum_spec, checksum_file_spec) the checksum test is the cartridge-header "
             "standard's for every header content (fold lemma, unbounded), (sizes_spec, accepted_tables) ROM size, RAM "
             "size and controller of accepted files are the standard's for all 256 codes, (reject_spec) every file that is "
             "too short, has a wrong checksum, an unsupported type or is smaller than its declared ROM size is not "
             "accepted, (accepted_safe) for accepted files every ROM index the bus forms for a declared bank is inside "
             "the mapping and the mapping inside the file. The model is tied to the code by the regenerated tables, an "
             "in-process correspondence over Header built from arbitrary 80 bytes, and runs of the real gb-dynarec "
             "binary on generated files (lengths around 0x100/0x150/declared size, every checksum byte, every type "
             "byte, every ROM-size code) with a probe ROM that reads the last declared byte.",
    "note": "Partial where the truth lives in the OS/runtime: mmap/SIGBUS, lseek/read_exact semantics and process "
            "exit status are observed on the real binary, not proved (modelled as stated assumptions). get_title's "
            "from_utf8_unchecked on non-UTF-8 titles is UB outside any model (the file stream uses ASCII titles). "
            "Rejecting a well-formed file (e.g. MBC3+TIMER 0x0F/0x10, unsupported by the emulator) is allowed by the "
            "property; unsupported types end in panic!(\"Unsupported cart type\") = exit code 101, counted as controlled "
            "termination. ROM/RAM size codes outside the standard get the smallest cartridge (2 banks / no RAM).",
    "technique": "Lean 4 proof (induction over the checksum fold, kernel enumeration of the 256-entry tables regenerated "
                 "from cart.rs, case analysis of the load decision) + exhaustive/generated correspondence in-process and "
                 "through the real binary",
    "repo_bin": True,
    "gen": ["gen_header.py"],
    "streams": [
        {"name": "c19.hdr"},
        {"name": "c19.file"},
    ],
    "modules": ["GbVerif.Model.Header", "GbVerif.Spec.Header", "GbVerif.Proofs.Header", "GbVerif.Proofs.Enum",
                "GbVerif.Gen.HeaderTables"],
    "exhaustive": False,
    "rule": "c19.hdr: Header transmuted from 80 bytes; every checksum byte and every value of a checksummed byte x "
            "6 (thorough 64) header fillings, every type byte with a valid and an invalid checksum, every ROM and RAM "
            "size code (thorough: all 65 536 code pairs); non-trivial = checksum valid, or a cartridge state built, or a "
            "code of the standard. c19.file: the real binary on sparse files under .work/c19: a missing path, 23 "
            "lengths around 0x100/0x150/declared size for several cartridges, all 256 checksum bytes, all 256 type "
            "bytes, ROM-size codes (thorough: all 256) x lengths declared, -1, -4 KiB, -16 KiB, 32 KiB, random headers; "
            "every case is non-trivial (a load decision of the real binary)",
    "assumptions": [
        "lseek(fd, 0x100, SEEK_SET) on a regular file returns 0x100 even beyond EOF (the 'File too short' branch is dead)",
        "read_exact(80 bytes at 0x100) succeeds iff file length >= 0x150",
        "mmap(NULL, rom_size, PROT_READ|PROT_WRITE, MAP_PRIVATE, fd, 0) succeeds for a regular file; pages wholly beyond EOF raise SIGBUS",
        "the file is not truncated by someone else between the length check and later accesses",
        "header bytes are < 256 (accepted_tables, checksum_spec on byte 0x14D)",
    ],
    "trusted": ["Linux process/exit-status semantics as observed by the harness (signal vs exit code vs still running)",
                "the probe ROM runs on the emulator's interpreter (LD A,n; LD (a16),A; LD A,(a16); LDH (a8),A; JP) and the serial port prints to stdout"],
}
