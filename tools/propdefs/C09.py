PROP = {
    "claim": "(machine_ok_update, machine_ok_updateBlock, machine_ok_reachable, machine_ok_facts) ONE invariant for every reachable state of the whole machine - buffer sizes, timer/DMA bookkeeping in range, the LCD on the schedule of the delivered clocks with its frame count, time conservation, at most five cycles pending - holds at power-on and is kept by every successful step of Core.update Sys.dev, instruction- or block-stepped in any order; at every such state the passage of any amount of time cannot panic, catch-up batches can be split or merged freely, and run_frame returns after at most 17556 steps. Proof: over the Lean model of Core::update / run_interp / run_code_block / handle_interrupt with ghost counters "
             "`delivered` (clocks handed to MemoryAreas::run_clock_cycles) and `charged` (machine cycles charged to the CPU) and "
             "for ANY device function (the passage of device time is a parameter of the model) and any core state: "
             "(time_inv, time_inv_blocks, time_inv_update / _run_interp / _run_code_block, time_inv_init) delivered + 4 x pending "
             "dispatch cycles = 4 x charged is an invariant of every step, hence of every run of any length, instruction-stepped "
             "or block-stepped - it needs and uses that the cycle counter only grows inside run_op for all 90 Op variants and "
             "inside the block loop; (step_accounting) per step the clocks delivered are 4 x the machine cycles consumed since the "
             "previous catch-up; (dispatch_five) a dispatch charges exactly five, nothing else in handle_interrupt charges; "
             "(halted_step) a suspended step delivers exactly 4 clocks and charges one cycle; (catchup_before_sample, _block) the "
             "state handed to handle_interrupt carries the bus returned by the device catch-up of the same step; (op_clocks_ge_4, "
             "progress, progress_blocks) every decoder clock entry is >= 4 and every step advances device time by >= 4 clocks; "
             "(step_at_most_56) an instruction-stepped step delivers at most 56 clocks; (sys_inv_update, sys_inv_updateBlock, "
             "sys_inv_reachable, sys_lcd_observables) for the WHOLE-MACHINE device function Sys.dev (MemoryAreas::run_clock_cycles "
             "composed from the models of OAM DMA with its per-byte catch-up, the timer of C13, the LCD line/mode machine of C14 with "
             "frames_completed, the joypad request of C17) the LCD sits at the closed-form schedule position of the delivered clock "
             "total and has counted delivered / 70224 frames after every step of every run from power-on, whatever the program does "
             "(frame lemma over all 90 Op variants: the bus changes only through writes, and no write touches the LCD's timing "
             "state); (crosses_frame, run_frame_terminates, run_frame_terminates_blockstep, run_frame_steps_le: at most 17556 steps per call) hence Core::run_frame (which, since "
             "/repo c28667b, waits for the LCD's count of completed frames to change) returns within one frame period plus one step "
             "under instruction stepping AND block stepping with NO bound on the block length and NO assumption left about the "
             "devices; (run_frame_terminates_partial, _update, _blocks) the same for any device function whose frame counter is "
             "the number of whole 70224-clock periods. "
             "The model is tied to emulator.rs by three "
             "streams of generated programs on the real Core::update: c09 (instruction-stepped) checks from the implementation's "
             "outputs alone that each step's clocks (timer hook) are 4 x (SM83 cycle count of the instruction at the observed PC "
             "under the observed flags + 5 after a dispatch, 1 when suspended), >= 4, that LY follows the LCD schedule of the same "
             "clock total, then replays the program on Core.update Sys.dev and compares registers, IME, run state, all five IF "
             "bits, DIV, LY, STAT, frames_completed, OAM-DMA progress and an OAM digest after every step (programs program TMA/TIMA/TAC, STAT enables, LYC and IE "
             "incl. the VBlank/STAT bits, start OAM DMAs, select joypad lines and get key presses / releases injected between steps (joypad interrupt, HALT / STOP wake-up), HALT on timer or STAT wake-ups, one tail in six provokes a CANCELLED "
             "dispatch with SP = 0 - every dispatch recognisable in the outputs must leave exactly five cycles pending); c09.blocks (jit build) "
             "checks clocks = 4 x last_block_cycle_length per block and the block model; c09.frame (jit build) runs the REAL "
             "Core::run_frame twice in a child process under an alarm on NOP-sled blocks of parametrised length (incl. 1463- and "
             "2926-cycle blocks that divide the frame period): each call must return after at most two completed frames, and the "
             "same two calls on the whole-machine model must agree on frames completed, LY and mode at return.",
    "note": "Trusted: Lean kernel, harness/driver, hand-written models (Core, Cpu/Interp of C05/C06, Bus of C10, Timer of C13) "
            "and the composition Sys.dev validated by differential runs only. The ghost counters exist only in the model: they are tied by comparing "
            "`delivered mod 65536` with the timer's cycle_count hook after every step (programs never write DIV). The jit-build "
            "model uses the interpreter as block engine (engine independence is C04). Wall-clock pacing is absent from the code "
            "and not covered. The former non-termination of run_frame under block stepping was repaired (fixed: c28667b).",
    "technique": "Lean 4 proofs (invariant by induction over step lists for an arbitrary device function; case analysis over all Op "
                 "variants for cycle monotonicity; arithmetic over the C14 closed-form schedule for the polling loops) + generated "
                 "differential runs of whole programs in both builds",
    "streams": [{"name": "c09", "shards": {"quick": 2, "thorough": 16}},
                {"name": "c09.blocks", "jit": True, "shards": {"quick": 2, "thorough": 16}},
                {"name": "c09.frame", "jit": True, "shards": {"quick": 1, "thorough": 4}}],
    "modules": ["GbVerif.Model.Core", "GbVerif.Model.Cpu", "GbVerif.Model.Interp", "GbVerif.Spec.Lcd", "GbVerif.Proofs.CoreIrq",
                "GbVerif.Proofs.CoreCycles", "GbVerif.Proofs.CoreStep", "GbVerif.Proofs.CoreFrame", "GbVerif.Props.C06",
                "GbVerif.Model.Sys", "GbVerif.Model.Timer", "GbVerif.Model.Lcd", "GbVerif.Proofs.InterpFrame", "GbVerif.Proofs.SysFrame", "GbVerif.Proofs.SysTotal", "GbVerif.Proofs.SysBatch", "GbVerif.Proofs.Machine", "GbVerif.Proofs.Timer", "GbVerif.Proofs.Lcd", "GbVerif.Proofs.BusIo", "GbVerif.Proofs.BusWf"],
    "exhaustive": False,
    "rule": "one program block kind in fifteen switches the display off and on again (LCDC bit 7 clear, 0-3 NOPs, set): the LCD's clock does not care; c09.frame also runs the real run_frame on polling loops in the last two bytes of a ROM region (0x3FFE, 0x7FFE; property-only lines); quick 200 / thorough 6000 generated programs (1-3 subroutines, prologue programming TMA/TIMA/TAC/STAT/LYC/IE, 3-16 blocks out of "
            "13 kinds, HALT/STOP/NOP tail loop) x 1000 / 1500 steps, per build; c09.frame: 7 fixed + 12 / 60 random (first block, "
            "loop block) lengths. Non-trivial = some step was suspended or ended in a dispatch (frame: a block longer than a line).",
    "assumptions": ["pixel work of the LCD (line buffers, sprite search, swap_buffers) is not in Sys.dev: it writes none of the state the CPU, "
                    "the interrupt logic or run_frame can observe",
                    "registers.cycles is a u32 that does not overflow within a step (a block would need 2^32 cycles)"],
}
