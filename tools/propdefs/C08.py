PROP = {
    "claim": "Proof: over the Lean model of Core::update / run_interp / handle_interrupt (instruction-stepped build), for ANY "
             "device function and from ANY core state - hence at every step of any instruction sequence: "
             "(no_dispatch_when_ime_off, no_dispatch_in_step, no_dispatch_in_halted_step, dispatch_only_when_enabled) when the "
             "master enable is not Enabled at the interrupt check, the step changes neither PC/SP/registers nor IF/IE/memory, "
             "whatever is pending, and a dispatch implies IME = Enabled and a pending request after the catch-up; "
             "(ei_no_dispatch_this_step, ei_effective_after_next, ei_takes_effect_after_next) EI from Disabled only schedules the "
             "enable (EnableNext) and the EI step dispatches nothing; when the following instruction completes IME is Enabled unless "
             "that instruction is DI, and a request pending then is dispatched at the end of that step (two-step theorem); "
             "(di_immediate) after a DI step IME is Disabled and nothing was dispatched, even if an EI was pending; "
             "(reti_immediate) RETI enables before the interrupt check of its own step; (halt_enters, halt_suspends, "
             "halt_suspends_n) HALT/STOP enter the suspended state; a suspended step with nothing pending after the catch-up "
             "executes no instruction: all registers, IME and run state unchanged, 4 clocks, 1 cycle - and so for any number of "
             "steps; (halt_resumes, halt_pc) a pending enabled request wakes the CPU: with IME off all registers are unchanged and "
             "the next step is run_interp at the unchanged PC, the address after HALT; with IME on the step ends in a dispatch; "
             "(update_refines_spec_partial) GIVEN the instruction-level refinement InstrRefines as an explicit hypothesis, a model "
             "step with time-only devices is a step of the step spec CoreSpec.step (SM83.step + IME rule + C07 dispatch spec) under "
             "the abstraction absS, and well-formedness is kept. The model is tied to emulator.rs by the c08 stream: all sequences "
             "up to length 3 (thorough 5) over the 8-instruction alphabet x 9 IME/run states x 4 pending patterns and random longer "
             "ones, replayed step by step on the model and on the step spec.",
    "note": "Trusted: Lean kernel, harness/driver, hand-written models validated by differential runs only. Spec = SM83.step + the "
            "EI/DI/RETI/HALT rules of the property text + C07 dispatch. HALT executed while an enabled interrupt is already "
            "pending is excluded as the property says (halt_enters assumes nothing pending after the catch-up). InstrRefines is "
            "the composition of C05.step_refines_impl (proved) with the fetch-view lemma of C10 and byte-valuedness / "
            "well-formedness preservation of the bus model across an instruction's writes (not composed).",
    "technique": "Lean 4 proofs: the step skeleton taken apart (execute / status / catch-up / interrupt check) for an arbitrary "
                 "device function, 3x6 IME-status table by computation, refinement to the step spec through C07's dispatch_spec; "
                 "bounded-exhaustive differential of instruction sequences",
    "streams": [{"name": "c08", "shards": {"quick": 2, "thorough": 16}}],
    "modules": ["GbVerif.Model.Core", "GbVerif.Spec.CoreSpec", "GbVerif.Spec.Interrupt", "GbVerif.Proofs.CoreIrq",
                "GbVerif.Proofs.CoreCycles", "GbVerif.Proofs.CoreStep", "GbVerif.Proofs.CoreRefine"],
    "rule": "values written to IF / IE include 0xE0, 0xE4, 0xFF (unconnected upper bits); all 8^<=3 (thorough 8^<=5) sequences x 3 IME x 3 run x 4 IF/IE patterns + 500 (20000) random sequences of length 4..12; "
            "non-trivial = a dispatch happened or the CPU was suspended at some step",
    "assumptions": ["update_refines_spec_partial: InstrRefines (instruction-level refinement incl. fetch view = bus read and "
                    "preservation of bus well-formedness) is a hypothesis of the theorem",
                    "the block-stepped (jit) build has no EI delay (run_code_block enables at once): C08 is stated for the "
                    "instruction-stepped build, as the property is (\"executed one instruction at a time\")"],
}
