PROP = {
    "claim": "Proof (partial, see assumptions): invariants of the control skeleton of Core::update/run_interp/handle_interrupt over arbitrary "
             "event lists (no dispatch while IME is off or pending, EI delay, DI/RETI immediacy, HALT/STOP suspension) + all sequences up "
             "to length 3 (thorough 5) over the 8-instruction alphabet x 9 IME/run states x 4 pending patterns and random longer ones, "
             "replayed step by step on the model and on the step spec (SM83 + IME rule + dispatch spec).",
    "note": "Trusted: Lean kernel, harness/driver. Spec = SM83.step + the EI/DI/RETI/HALT rules of the property text + C07 dispatch. "
            "HALT executed while an enabled interrupt is already pending is excluded as the property says.",
    "technique": "Lean 4 invariants by induction over event lists + bounded-exhaustive differential of instruction sequences",
    "streams": [{"name": "c08", "shards": {"quick": 2, "thorough": 16}}],
    "modules": ["GbVerif.Model.Core", "GbVerif.Spec.CoreSpec", "GbVerif.Spec.Interrupt"],
    "rule": "all 8^<=3 (thorough 8^<=5) sequences x 3 IME x 3 run x 4 IF/IE patterns + 500 (20000) random sequences of length 4..12; "
            "non-trivial = a dispatch happened or the CPU was suspended at some step",
    "assumptions": ["sequence-level theorems pending (proof agent)"],
}
