PROP = {
    "claim": "Proof: decoder lengths, the undefined-opcode set and the block-terminator predicate are equal to the SM83 tables for all 512 "
             "encodings and every operand byte (kernel-checked against the decoder table regenerated from the source on every run); control "
             "instructions are compared three ways (implementation / model / SM83 spec) at every region boundary PC, wrap-around SP and "
             "all 256 displacements, including instructions that straddle region ends.",
    "note": "Trusted: Lean kernel, gen_decoder.py / gen_ops.py translators (cross-checked against the running decode()), harness/driver. "
            "Whole-instruction refinement of the control ops is in Props/C05+C06 as it lands; until then the 3-way correspondence carries them.",
    "technique": "Lean 4 kernel-checked table equalities over the regenerated decoder + three-way differential on boundary PCs/SPs",
    "gen": ["gen_decoder.py", "gen_ops.py"],
    "streams": [{"name": "c06", "shards": {"quick": 2, "thorough": 16}}],
    "modules": ["GbVerif.Model.Interp", "GbVerif.Model.Cpu", "GbVerif.Spec.SM83", "GbVerif.Proofs.Enum"],
    "rule": "all 256 first bytes (incl. the 11 undefined) x 22 boundary PCs (region edges, 0x0000, 0xFFFE, straddling 0x3FFF/0x7FFF/0xCFFF) x "
            "boundary SPs; 33 control opcodes x all 256 displacement/target bytes x both placements",
    "assumptions": [],
}
