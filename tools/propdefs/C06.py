PROP = {
    "claim": "Proof: decoder lengths, the undefined-opcode set and the block-terminator predicate are equal to the SM83 tables for all 512 "
             "encodings and every operand byte (kernel-checked against the decoder table regenerated from the source on every run); and the "
             "whole-instruction refinement (Props/C06.lean control_refines, from Proofs/Sm83Main.lean) gives for every defined encoding, "
             "operand, register/flag value and bus behaviour: the new PC (PC+length or the JP/JR/CALL/RET/RETI/RST/JP HL target), SP, the "
             "bytes written/read at the stack addresses (push_bytes / pop_bytes: high byte at SP-1 then low byte at SP-2; low at SP, high at "
             "SP+1; all mod 65536), the status for HALT/STOP/DI/EI/RETI and the SM83 machine-cycle count of the taken and of the not-taken "
             "path (cycles_match). interp_len: every non-terminating instruction advances PC by the SM83 encoded length mod 65536. "
             "undefined_invalid / invalid_exact: exactly the eleven undefined opcodes decode to Op::Invalid and make run_op panic. Control "
             "instructions are also compared three ways (implementation / model / SM83 spec) at every region boundary PC, wrap-around SP and "
             "all 256 displacements, including instructions that straddle region ends.",
    "note": "Trusted: Lean kernel, gen_decoder.py / gen_ops.py translators (cross-checked against the running decode()), harness/driver.",
    "technique": "Lean 4 kernel-checked table equalities over the regenerated decoder + per-opcode refinement proofs + three-way "
                 "differential on boundary PCs/SPs",
    "gen": ["gen_decoder.py", "gen_ops.py"],
    "streams": [{"name": "c06", "shards": {"quick": 2, "thorough": 16}},
                {"name": "c06.block", "shards": {"quick": 2, "thorough": 8}}],
    "modules": ["GbVerif.Model.Interp", "GbVerif.Model.Cpu", "GbVerif.Model.Op", "GbVerif.Spec.SM83", "GbVerif.Proofs.Enum", "GbVerif.Proofs.Sm83Bits", "GbVerif.Proofs.Sm83Abs", "GbVerif.Proofs.Sm83Alu", "GbVerif.Proofs.Sm83Rot", "GbVerif.Proofs.Sm83Misc", "GbVerif.Proofs.Sm83Rel", "GbVerif.Proofs.Sm83Cls1", "GbVerif.Proofs.Sm83Cls2", "GbVerif.Proofs.Sm83Cls3", "GbVerif.Proofs.Sm83Leaf", "GbVerif.Proofs.Sm83Main0", "GbVerif.Proofs.Sm83Main1", "GbVerif.Proofs.Sm83Main2", "GbVerif.Proofs.Sm83Main3", "GbVerif.Proofs.Sm83Main4", "GbVerif.Proofs.Sm83Main5", "GbVerif.Proofs.Sm83Main6", "GbVerif.Proofs.Sm83Main7", "GbVerif.Proofs.Sm83MainCB0", "GbVerif.Proofs.Sm83MainCB1", "GbVerif.Proofs.Sm83MainCB2", "GbVerif.Proofs.Sm83MainCB3", "GbVerif.Proofs.Sm83MainCB4", "GbVerif.Proofs.Sm83MainCB5", "GbVerif.Proofs.Sm83MainCB6", "GbVerif.Proofs.Sm83MainCB7", "GbVerif.Proofs.Sm83Main", "GbVerif.Proofs.InterpLen"],
    "rule": "c06.block also starts blocks at 0xCFF0 / 0xCFFF / 0xDFF8 so that they cross the 4 KiB lines of work RAM and run on into the echo (code there is written through the work-RAM cell it mirrors); c06.block: whole blocks through interpreter::run_code_block - 0..3000 one-byte one-cycle instructions + HALT / EI / DI in ROM bank 0, the switchable bank, work RAM and high RAM must end at the terminator and nowhere else (PC, cycles, status; model of the block loop); every first byte at the six addresses around 0x3FFF/0x7FFF again with ROM banks 2 and 3 mapped (the part of the instruction above 0x4000 must come from the mapped bank); all 256 first bytes (incl. the 11 undefined) x 22 boundary PCs (region edges, 0x0000, 0xFFFE, straddling 0x3FFF/0x7FFF/0xCFFF) x "
            "boundary SPs; 33 control opcodes x all 256 displacement/target bytes x both placements",
    "assumptions": ["theorem hypotheses WF r (pairs < 65536, F low nibble zero; preserved by every instruction, C05.regs_wf) and ByteBus "
                    "(bus reads return bytes)",
                    "the theorems are about the Lean model of run_op / run_next_op minus the fetch; the fetch (get_executable_memory_slice) "
                    "and the tie to the Rust code are covered by the three-way correspondence stream"],
}
