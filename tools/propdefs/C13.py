PROP = {
    "claim": "Proof: for the Lean model of src/devices/timer.rs (batched run_cycles with the disabled fast path and the deferred "
             "`&= 0xffff`), for ALL histories of DIV/TIMA/TMA/TAC writes and batches of any size from power-on: the model state refines a "
             "per-clock hardware spec (unbounded elapsed-clock count; TIMA clocked by the falling edge of `selected divider bit AND enable`, "
             "from counting or from a TAC write; overflow reloads TMA and requests the interrupt) with equal interrupt requests "
             "(exec_eq_spec, run_eq_spec, tac_write_eq_spec, tac_glitch); DIV = bits 8..15 of the clocks since the last DIV write (div_spec); "
             "one batch of a+b clocks = batch a then batch b, any partition of the same total gives the same state and OR of flags "
             "(run_add, partition_independent, runCycles_add); n clocks tick TIMA exactly floor((e+n)/P)-floor(e/P) times, exactly once per "
             "period window from every phase (ticks_closed_form, one_tick_per_period); an overflow reloads TMA and raises the request in "
             "exactly one clock of the window (overflow_reload_once, irq_iff_overflow_tick); the representation invariant is preserved "
             "(wf_reachable). The model is tied to the code on every run by differential replay of generated interleavings through the "
             "real Timer API (with the private state via the verif_state hook) and through IO::set_byte/get_byte/run_clock_cycles, "
             "an exhaustive TAC-old x phase x TAC-new glitch sweep, and an implementation-vs-itself partition stream.",
    "note": "Trusted: Lean kernel (axioms propext, Quot.sound, Classical.choice only; no bv_decide), the harness/driver comparison, rustc. "
            "The model is hand-written; what is verified about the code is theorem AND agreement of model and code on the generated "
            "streams (random except the exhaustive `phase` sweep). Domain: batches of at most 0xffff0000 clocks (runCycles_eq_run); beyond "
            "that `ClockCycles::as_u32` truncates and the overflow-checked build panics exactly as runCycles_panic_iff says "
            "(stream c13.big ties that, it is outside the property: callers pass one block's cycles). Not covered because not in the "
            "statement: the TIMA tick a DIV write causes on hardware when the selected bit is high (model and spec reset without an edge). "
            "Through IO the batches are multiples of 4 clocks (the LCD steps 4 at a time); odd sizes go through the Timer API.",
    "technique": "Lean 4 proofs (induction on the clock count, refinement to a per-clock spec, omega on c % 2^(k+1)) + "
                 "differential correspondence of model, spec and code on generated and exhaustive streams",
    "streams": [
        {"name": "c13.phase", "shards": {"quick": 4, "thorough": 4}},
        {"name": "c13.api", "shards": {"quick": 2, "thorough": 8}},
        {"name": "c13.part", "shards": {"quick": 1, "thorough": 8}},
        {"name": "c13.io", "shards": {"quick": 1, "thorough": 4}},
        {"name": "c13.big"},
    ],
    "modules": ["GbVerif.Model.Timer", "GbVerif.Spec.Timer", "GbVerif.Proofs.Timer", "GbVerif.Proofs.TimerBits",
                "GbVerif.Proofs.TimerRefine", "GbVerif.Proofs.TimerCount", "GbVerif.Proofs.NatBits"],
    "exhaustive": False,
    "rule": "c13.api: 10^4 (quick) / 10^6 (thorough) random interleavings x 50 ops (DIV/TIMA/TMA/TAC writes with all TAC values 0..255, "
            "batches 0,1,3,4,15,16,17,63..65,255..257,1023..1025, k*P-1..k*P+1, 4095..4097, 65535..65537, 2^17, 2^20+-1, random) through the "
            "Timer API, all observables + private state compared after every op; c13.io: the same through IO bus addresses 0xFF04..07 / IF bit 2 / "
            "run_clock_cycles (batches multiple of 4); c13.part: each history run twice with every batch split differently (incl. empty "
            "batches), implementation results must be equal; c13.phase: exhaustive 8 old TAC x 1024 divider phases x 12 new TAC x TIMA {00,FF}, "
            "then one period; c13.big: u32 truncation / overflow panic. non-trivial = an interrupt flag was returned (or a panic, c13.big)",
    "assumptions": [
        "a single run_cycles batch is at most 0xffff0000 clocks (about 17 minutes of emulated time; callers pass the cycles of one block/instruction)",
        "u8 arguments are bytes (the model stores v % 256)",
        "the DIV-write falling edge is not part of the property; model and spec follow the code (no tick)",
    ],
    "trusted": ["hook Timer::verif_state (cfg gb_dynarec_verif, /repo commit a8b8e68) only reads fields"],
}
