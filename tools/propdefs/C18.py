PROP = {
    "claim": "(serial_log_grows, serial_log_grows_blockstep, time_is_silent) for the WHOLE machine (Core.update Sys.dev: every instruction, interrupt dispatch, OAM DMA, timer, LCD, joypad) the bytes already emitted are never retracted or reordered, in either stepping mode - the log after a step extends the log before it - and the passage of time alone emits nothing. Proof: in the I/O model the output log after any sequence of writes to 0xFF01/0xFF02 equals the spec (the data byte held at "
             "each control write with bit 7 set, in order), and no other register write appends to it (serial_log, core_silent_io). Tie: "
             "generated guest programs (LD A,v / LDH (n),A ... HALT, split over several blocks, in bank 0 and in the switchable bank) run "
             "through the real Core::run_code_block of both builds with fd 1 captured; the bytes that reached fd 1 must equal the spec "
             "in both; a cache-fill probe (jit build) checks that nothing else reaches fd 1; a source scan pins the set of stdout writers "
             "reachable from Core::update to devices/serial.rs.",
    "note": "Trusted: Lean kernel, harness fd-1 capture (dup2 onto a scratch file), runner join, the source scan (textual). stdout "
            "buffering/flush order between processes is outside the model.",
    "technique": "Lean 4 induction over write sequences on the I/O model + fd-1 capture differential in both builds + source scan",
    "streams": [{"name": "c18", "join": True, "shards": {"quick": 1, "thorough": 8}},
                {"name": "c18.fill", "join": True}],
    "modules": ["GbVerif.Proofs.SerialMono", "GbVerif.Proofs.Machine", "GbVerif.Proofs.SysFrame", "GbVerif.Proofs.SysBatch", "GbVerif.Proofs.SysTotal", "GbVerif.Proofs.InterpFrame", "GbVerif.Model.Sys", "GbVerif.Model.Bus", "GbVerif.Spec.Serial", "GbVerif.Proofs.NatBits", "GbVerif.Proofs.Enum"],
    "stdout_writers_allowed": ["src/devices/serial.rs"],
    "rule": "one write in eight goes to another device (an OAM DMA start, BGP, TMA, SCY): the serial port must not care; 300 (thorough 20000) programs of 1..24 serial register writes with values biased to bit-7 edges; non-trivial = at least one byte was due on stdout",
    "assumptions": ["messages printed by main.rs before a ROM runs (load diagnostics) are outside 'while a ROM is running'"],
}
