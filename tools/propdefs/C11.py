PROP = {
    "claim": "(no_crash_sys, sys_reachable, sysStep_total, sysOk_write) the passage of time through the WHOLE device composition Sys.dev - OAM DMA from any source page byte by byte, the timer's checked u32 addition, the LCD loop's cycles_remaining -= 4, the joypad - never panics either, for any whole number of machine cycles below 2^32 - 2^16 clocks, in every state reachable by bus accesses and time from any loadable cartridge; the invariant is buffer sizes + the timer counter in its 16 bits. Proof: over a Lean model of memory_read_byte / memory_write_byte / memory_read_word / memory_write_word and the "
             "OAM-DMA loop of run_clock_cycles in which every Rust panic (slice index out of range, addr+1 overflow) is an "
             "explicit error result, (no_crash) for every cartridge type the loader accepts, every ROM-size and RAM-size code of "
             "the header tables regenerated from cart.rs (header_rom_banks: every code gives >= 2 banks), every ROM content and "
             "every history of byte and word reads and writes at any 16-bit address with any value, interleaved with DMA catch-up "
             "batches of any length, no access returns an error; (wf_reachable, wf_write) the buffer-size invariant holds in every "
             "reachable state and (rom_bank_in_range) the bank register always selects an existing bank; (read_total, write_total, "
             "readWord_total, writeWord_total incl. 0xFFFF, dma_total) each access kind separately. The model is tied to the code "
             "by re-exec'd child processes that build the real MemoryAreas::with_rom_file for every header configuration, apply a "
             "banking-register prefix and sweep the address space with each access kind: process death is the observation "
             "(IMPL!=SPEC with the first dying access, found by bisection), and surviving sweeps must match the model's result "
             "digest and the full 64 KiB read image afterwards.",
    "note": "Only the index arithmetic is modelled: memory safety of the unsafe blocks (from_raw_parts over mmap, raw pointer "
            "dereference in the extern \"sysv64\" helpers) and SIGBUS on a truncated mapping (C19) are outside the model and seen "
            "only as death of the child process. Panics are observed in the harness's release build with the repository's own "
            "sources (bounds checks are on in every profile; the addr+1 overflow was profile dependent and is gone since 404a7c5). "
            "The instruction-fetch view get_executable_memory_slice panics by design outside ROM/WRAM/HRAM (jumping into VRAM, "
            "cartridge RAM, OAM or I/O); that is a CPU-side access, not a bus read/write, and is not covered here. Joypad, timer "
            "and LCD time-advance are not bus accesses (C13, C14, C17).",
    "technique": "Lean 4 invariant proof (case analysis over the 13 regions of the address ladders, omega on the index "
                 "arithmetic, induction over access histories) + crash-observing differential correspondence in child processes",
    "gen": ["gen_header.py"],
    "streams": [{"name": "c11", "shards": {"quick": 4, "thorough": 16}}],
    "modules": ["GbVerif.Model.Sys", "GbVerif.Model.Timer", "GbVerif.Model.Lcd", "GbVerif.Proofs.SysTotal", "GbVerif.Proofs.BusIo", "GbVerif.Model.Bus", "GbVerif.Model.Cart", "GbVerif.Model.Joypad", "GbVerif.Proofs.BusBasic",
                "GbVerif.Proofs.BusWf", "GbVerif.Gen.HeaderTables"],
    "exhaustive": {"quick": False, "thorough": False},
    "rule": "the 12 banking prefixes are followed by 9 device-state prefixes that need elapsed time or other registers (pseudo-writes 65536/65537 = run_clock_cycles): timer enabled with each clock select, TIMA = 0xFF and the selected divider bit high; LCD on inside a line with all STAT sources; an OAM DMA under way; TIMA one tick before overflow; the Color-only registers 0xFF70 / 0xFF4F / 0xFF4D / 0xFF56 / 0xFF6C / 0xFF51 / 0xFF55 written - 21 prefixes in all; one case = (cartridge type, ROM code, RAM code) x one of 12 banking-register prefixes (incl. bank numbers beyond "
            "the ROM, RAM bank 3 on small RAM, mode 1) x access kind (rd, wr, rdw, wrw) x address set, run in a child process on a "
            "fresh MemoryAreas. quick: 150 configurations x boundary set (44 region boundaries incl. 0xFFFF + 256 seeded random "
            "addresses). thorough: all 504 configurations (7 types x 12 ROM codes x 6 RAM codes) on the boundary set and 38 of "
            "them (every 13th: every type, every ROM code, every RAM code) on all 65 536 addresses. Every case is non-trivial "
            "(a complete sweep on the real bus).",
    "assumptions": ["addresses are u16 and values u8/u16 (the Rust types guarantee it); the guest reaches the bus only through "
                    "the four helpers and run_clock_cycles",
                    "ROM-size codes outside the standard fall back to 2 banks and the file is at least the declared size (C19)"],
    "trusted": ["Linux process exit status / signal as observed by the harness for child processes"],
}
