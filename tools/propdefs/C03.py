PROP = {
    "claim": "Proof: in the cache model (translations abstracted to the guest bytes they were made from) every history of block fetches and "
             "bank switches hands the CPU the translation of the bytes currently mapped (warm_eq_cold, by induction with the coherence "
             "invariant; bank-0 blocks never depend on the switchable bank: low_independent, which needed the region-end rule); INSIDE a "
             "block (block_bank_stable_partial): a block whose stores all go to 0x8000 and above runs on the real bus exactly as on a bus "
             "that forbids stores below 0x8000 (runOp_guard, all 90 Op variants), and the cartridge state in front of every one of its "
             "instruction fetches is the one at block entry - so the translation made at entry is of the bytes mapped at every program "
             "counter of the block; partial: blocks in the switchable bank that DO store below 0x8000 are the recorded finding, the two "
             "kernel-evaluated examples show the boundary is sharp; (interp_walk_is_translation_partial) for such a block at a translatable "
             "ROM address the interpreter's run_code_block gives the result of the guarded walk and the guest bytes it decodes, "
             "instruction by instruction, ARE the bytes translate_code_block consumes under the bank mapped at entry - same "
             "instruction boundaries, same block end (fetch3 = ROM bytes under the mapped bank, run_op advances PC by the decoded "
             "length for every non-terminating Op, the region-end rule is shared). Tie: the "
             "real Core::run_code_block of the jit build with a persistent cache, with a cache emptied before every block, and of the "
             "non-jit build run the same generated histories on multi-bank MBC1/MBC3 ROMs whose banks differ at equal addresses; "
             "registers/bank after every block must agree three ways and hit/miss/bytes_translated follow the model's key discipline.",
    "note": "Trusted: Lean kernel, harness/driver/runner join, hooks CodeCache::verif_block. That equal guest bytes give equal machine code "
            "behaviour is C01's concern. Known finding: a bank switch executed by code located in the switchable bank takes effect only at "
            "the next block boundary under the recompiler.",
    "technique": "Lean 4 invariant proof over fetch histories of a cache model + three-way differential (warm / cold / interpreter) across builds",
    "gen": ["gen_decoder.py", "gen_ops.py"],
    "streams": [{"name": "c03", "join": True, "shards": {"quick": 2, "thorough": 16}}],
    "modules": ["GbVerif.Model.Cache", "GbVerif.Model.Cpu", "GbVerif.Proofs.Enum", "GbVerif.Proofs.InterpMono", "GbVerif.Proofs.InterpFrame", "GbVerif.Proofs.CartFrame", "GbVerif.Proofs.BlockWalk", "GbVerif.Proofs.InterpLen", "GbVerif.Proofs.BusWf"],
    "rule": "polling loops (blocks that end where they began) sit at the same address in every bank and are run before and after a bank switch made from outside the block; 6 cartridges (MBC1 64 banks, MBC3 32, MBC1 4, MBC3 128, MBC1 2, MBC3 2) x 50 (thorough 1700) histories of 10..130 (410) operations: jump to an "
            "entry (bank-0 blocks, bank-switching trampolines in bank 0, blocks at equal addresses in every bank, a block running up to "
            "0x3FFF, and in one history of five trampolines inside the switchable bank), run a block, write a bank register; "
            "non-trivial = more than two distinct (bank, address) blocks were translated",
    "assumptions": ["executable-memory exhaustion (no eviction, 8 MiB) is not modelled"],
}
