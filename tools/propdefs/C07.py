PROP = {
    "claim": "Proof (partial, see assumptions): theorems about the model of Core::handle_interrupt (identity when nothing is pending, wake-only "
             "when the master enable is off, equality with the dispatch spec as it lands) + EXHAUSTIVE three-way correspondence "
             "(implementation / model / spec) over all 32x32 IF/IE values x 3 master-enable states x 3 run states x 40 boundary stack "
             "pointers (pushes landing on IE, IF, ROM/MBC registers, every region boundary, SP wrap).",
    "note": "Trusted: Lean kernel, harness/driver, the Bus model of C10 behind the pushes. Spec reads IF/IE and pushes through the bus.",
    "technique": "Lean 4 theorems over a hand-written model of handle_interrupt + exhaustive differential against the dispatch spec",
    "streams": [{"name": "c07", "shards": {"quick": 4, "thorough": 16}}],
    "modules": ["GbVerif.Model.Core", "GbVerif.Spec.Interrupt"],
    "exhaustive": True,
    "rule": "all 1024 IF/IE pairs x 3 IME x 3 run states x 40 stack pointers (thorough 400) x 4 PC values; non-trivial = a dispatch or a wake-up happened",
    "assumptions": ["full `handleInterrupt = InterruptSpec.dispatch` theorem pending (proof agent); until then carried by the exhaustive correspondence"],
}
