PROP = {
    "claim": "Proof: over the Lean model of Core::handle_interrupt (two byte pushes through the bus model, IF&IE re-sampled after "
             "the high byte) and for every well-formed core state (IF, IE five-bit - an invariant of every bus write, "
             "write_keeps_wf; SP, PC 16-bit; bus buffers as with_rom_file sizes them; any cartridge, any register/memory "
             "contents): (dispatch_spec) the model EQUALS the dispatch spec written from the property text (IF/IE read at "
             "0xFF0F/0xFFFF and the return address pushed through the bus); and, stated outright about the model: (total) no "
             "panic, well-formedness kept; (wake_iff) the run state becomes Run iff it was Run or IF&IE != 0, whatever the master "
             "enable; (dispatch_iff_ime) with a request pending a dispatch (IME cleared, SP-2, +5 cycles) happens iff "
             "IME = Enabled, otherwise registers, bus, IME are untouched; (high_byte_first) the bus sees PC/256 at SP-1 first, "
             "then PC%256 at SP-2; (priority_order) the vector is 0x40 + 8i for the lowest set bit i of IF&IE sampled after the "
             "high-byte push; (only_that_bit_cleared) the final bus is the bus after the two pushes with exactly bit i removed from "
             "IF; (five_cycles) +5 machine cycles iff dispatch, else 0; (cancellation) if the high-byte push leaves nothing "
             "pending, PC = 0x0000 and the bus is exactly what the pushes left (no IF bit cleared); (sp_mod) SP' = (SP-2) mod "
             "65536; (otherwise_unchanged) without pending-and-enabled nothing but the run state changes. Concrete evaluated "
             "cases: SP=0x0000 (push lands on IE, cancels), SP=0xFF10 (lands on IF, cancels), SP=0xFF11 (low byte overwrites IF "
             "before the clear). The model is tied to emulator.rs by the EXHAUSTIVE three-way c07 stream (implementation / model "
             "/ spec): all 32x32 IF/IE values x 3 master-enable states x 3 run states x 40 boundary stack pointers x 4 PCs.",
    "note": "Trusted: Lean kernel, harness/driver, hand-written models (Core.handleInterrupt, Bus of C10) validated by the "
            "differential stream only. The spec reads IF/IE and pushes through the same bus model (Bus.read/Bus.write): what a "
            "push does when it lands on IE, IF, a cartridge register or a region boundary is C10/C11/C12's subject, here it is "
            "whatever the bus does, identically on both sides.",
    "technique": "Lean 4 proofs (model = spec by case analysis on the three outcomes, bus lemmas of C10, kernel enumeration of the "
                 "5-bit facts) + exhaustive differential against the dispatch spec on the real Core::handle_interrupt",
    "streams": [{"name": "c07", "shards": {"quick": 4, "thorough": 16}}],
    "modules": ["GbVerif.Model.Core", "GbVerif.Spec.Interrupt", "GbVerif.Proofs.CoreIrq", "GbVerif.Proofs.BusBasic",
                "GbVerif.Proofs.BusWf", "GbVerif.Proofs.BusFrame", "GbVerif.Proofs.BusIo"],
    "exhaustive": True,
    "rule_extra": "each (IF, IE) grid runs under three device states (LYC != LY; LYC = LY with and without the STAT LYC enable) and PC values whose bytes are 0x90 / 0x40, so that a push landing on STAT / LYC / TAC has its side effect on IF; SPs include 0xFF08, 0xFF42, 0xFF43, 0xFF46",
    "rule": "all 1024 IF/IE pairs x 3 IME x 3 run states x 40 stack pointers (thorough 400) x 4 PC values; non-trivial = a dispatch or a wake-up happened",
    "assumptions": ["IF and IE hold five bits, SP and PC 16 bits, buffer sizes as MemoryAreas::with_rom_file makes them (WFc; "
                    "preserved by every bus write and by handle_interrupt itself)",
                    "registers.ip/sp are u32 fields holding 16-bit values (kept by the interpreter, C06; repo d5e7cc8 for SP here)"],
}
