PROP = {
    "claim": "Proof: the complete transition relation of the joypad model (every reachable state x every action) is "
             "enumerated by the Lean kernel against an abstract button-matrix spec (P1 bits, IRQ iff a line falls, reported once); "
             "the model is tied to the code by an exhaustive correspondence over the same finite space through the public API.",
    "note": "Trusted: Lean kernel (axioms propext/Quot.sound at most), the harness/driver comparison, rustc. The model is hand-written; "
            "what is verified about the code is theorem AND exhaustive agreement of model and code on all 24 576 transitions.",
    "technique": "Lean 4 proof by kernel enumeration (decide +kernel) + exhaustive model/code correspondence",
    "streams": [{"name": "c17"}, {"name": "c17.seq"}],
    "modules": ["GbVerif.Model.Joypad", "GbVerif.Spec.Joypad", "GbVerif.Proofs.NatBits", "GbVerif.Proofs.Enum"],
    "exhaustive": True,
    "rule": "all 16x16 button nibbles x 4 selections x (8 presses + 8 releases + 8 select bytes) through the public "
            "Joypad API; non-trivial = P1 changed or the interrupt was raised; c17.seq: all 1024 reachable states x all 20x20 PAIRS of actions with the interrupt collected once after both (a pending request must survive a later action)",
    "assumptions": ["action_state/direction_state only ever hold their low nibble (invariant proved: inv_reachable)"],
}
