PROP = {
    "claim": "Proof (in progress, see assumptions): the interpreter model (Model/Interp.lean, a line-by-line mirror of run_op) refines an "
             "independent SM83 specification (Spec/SM83.lean, written from the opcode bit patterns) — theorems in Props/C05.lean; the model AND "
             "the spec are both compared with the real interpreter::run_next_op on the real bus for every defined encoding on generated "
             "register/memory states (registers, flags, PC, SP, cycles, status, touched memory, I/O image).",
    "note": "Trusted: Lean kernel, gen_ops.py (decoder arms -> Lean Op terms; cross-checked by running decode()), harness/driver, rustc. "
            "The bus behind the CPU is the validated Bus model of C10.",
    "technique": "Lean 4 refinement theorems (kernel enumeration + symbolic) over a hand-written interpreter model and regenerated decoder table; "
                 "three-way differential (implementation / model / SM83 spec)",
    "gen": ["gen_decoder.py", "gen_ops.py"],
    "streams": [{"name": "c05", "shards": {"quick": 4, "thorough": 16}}],
    "modules": ["GbVerif.Model.Interp", "GbVerif.Model.Cpu", "GbVerif.Model.Op", "GbVerif.Spec.SM83", "GbVerif.Proofs.Enum"],
    "rule": "per defined encoding (245 + 256 CB) 120 (thorough 4000) generated states: A/operand bytes biased to nibble/byte carries and BCD edges, "
            "all flag nibbles, pointer registers on every region boundary and inside I/O, code placed in ROM bank 0, the switchable bank, WRAM "
            "or HRAM; every case is distinct by construction of the PRNG stream; non-trivial = the instruction executed",
    "assumptions": ["F low nibble is zero in generated states (invariant of the interpreter: proved WF preservation pending)"],
}
