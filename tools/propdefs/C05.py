PROP = {
    "claim": "Proof: the interpreter model (Model/Interp.lean, a line-by-line mirror of run_op; decode table regenerated from the source on "
             "every run) refines an independent SM83 specification (Spec/SM83.lean, written from the opcode bit patterns) for ALL 501 defined "
             "encodings (245 unprefixed + 256 CB), all operand bytes, all register/flag values and every bus behaviour: theorems "
             "step_refines_spec / step_refines_impl in Props/C05.lean give A, F (Z/N/H/C), B..L, SP, PC, memory, status and cycles equal to "
             "the SM83 result under the abstraction abs, and regs_wf gives that every pair stays in 0..65535 with F's low nibble zero. Leaf "
             "theorems: alu_spec (ADD ADC SUB SBC AND XOR OR CP), rot_spec (RLC RRC RL RR SLA SRA SWAP SRL), daa_spec, add16_spec, "
             "sp_offset_spec, pop_af_masks_f. The model AND the spec are both compared with the real interpreter::run_next_op on the real "
             "bus for every defined encoding on generated register/memory states (registers, flags, PC, SP, cycles, status, touched memory, "
             "I/O image).",
    "note": "Trusted: Lean kernel, gen_ops.py (decoder arms -> Lean Op terms; cross-checked by running decode()), harness/driver, rustc. "
            "The bus behind the CPU is the validated Bus model of C10. The proofs are generic in the bus (any read/write functions).",
    "technique": "Lean 4 refinement theorems (per-opcode symbolic proof over the regenerated decoder table, kernel enumeration for DAA / "
                 "rotates / bit operations, omega for carries) over a hand-written interpreter model; three-way differential "
                 "(implementation / model / SM83 spec)",
    "gen": ["gen_decoder.py", "gen_ops.py"],
    "streams": [{"name": "c05", "shards": {"quick": 4, "thorough": 16}},
                {"name": "c05.grid", "shards": {"quick": 8, "thorough": 16}}],
    "modules": ["GbVerif.Model.Interp", "GbVerif.Model.Cpu", "GbVerif.Model.Op", "GbVerif.Spec.SM83", "GbVerif.Proofs.Enum", "GbVerif.Proofs.Sm83Bits", "GbVerif.Proofs.Sm83Abs", "GbVerif.Proofs.Sm83Alu", "GbVerif.Proofs.Sm83Rot", "GbVerif.Proofs.Sm83Misc", "GbVerif.Proofs.Sm83Rel", "GbVerif.Proofs.Sm83Cls1", "GbVerif.Proofs.Sm83Cls2", "GbVerif.Proofs.Sm83Cls3", "GbVerif.Proofs.Sm83Leaf", "GbVerif.Proofs.Sm83Main0", "GbVerif.Proofs.Sm83Main1", "GbVerif.Proofs.Sm83Main2", "GbVerif.Proofs.Sm83Main3", "GbVerif.Proofs.Sm83Main4", "GbVerif.Proofs.Sm83Main5", "GbVerif.Proofs.Sm83Main6", "GbVerif.Proofs.Sm83Main7", "GbVerif.Proofs.Sm83MainCB0", "GbVerif.Proofs.Sm83MainCB1", "GbVerif.Proofs.Sm83MainCB2", "GbVerif.Proofs.Sm83MainCB3", "GbVerif.Proofs.Sm83MainCB4", "GbVerif.Proofs.Sm83MainCB5", "GbVerif.Proofs.Sm83MainCB6", "GbVerif.Proofs.Sm83MainCB7", "GbVerif.Proofs.Sm83Main"],
    "rule": "c05.grid enumerates small operand domains completely: ADD SP,e and LD HL,SP+e for every offset byte x 14 edge stack pointers, JR / JR cc for every displacement x 5 program counters x every flag nibble; every A x every flag nibble for DAA, CPL, SCF, CCF, the accumulator rotates, INC/DEC A, CB rotates/shifts/BIT/RES/SET on A, POP AF and PUSH AF; every A x 24 edge operands (thorough: all 256) x carry-in for the 8 ALU operations in register, immediate and (HL) form. c05: per defined encoding (245 + 256 CB) 120 (thorough 4000) generated states: A/operand bytes biased to nibble/byte carries and BCD edges, "
            "all flag nibbles, pointer registers on every region boundary and inside I/O, code placed in ROM bank 0, the switchable bank, WRAM "
            "or HRAM; every case is distinct by construction of the PRNG stream; non-trivial = the instruction executed",
    "assumptions": ["theorem hypothesis WF r: the register file entering the instruction has every pair < 65536 and F's low nibble zero "
                    "(established by regs_wf for every state reached from a WF state; the reset state is WF)",
                    "theorem hypothesis ByteBus: bus reads return values < 256 (the Rust bus returns u8)",
                    "the theorems are about the Lean model of run_op; its tie to the Rust code is the three-way correspondence stream"],
}
