PROP = {
    "claim": "Proof (staged) + correspondence: Lean theorems over a line-by-line model of the pixel pipeline of "
             "src/devices/video (interleave/flip multiply tricks, tile addressing, object selection and the object line cache, "
             "the 4-dot mode-3 step with its shift register, window switch, buffer swap) against a per-pixel reference "
             "composition written from the Game Boy definition; the model is tied to the code by full frames rendered by the "
             "real VideoState::run_clock_cycles in random batch sizes and compared pixel by pixel with model and reference.",
    "note": "Trusted: Lean kernel (propext/Quot.sound/Classical.choice at most), the harness/driver comparison, rustc. The model "
            "is hand-written; what is verified about the code is theorem AND agreement of code, model and reference on every "
            "generated frame (three-way). Window line = LY - WY (equal to the hardware's window line counter for registers held "
            "constant over the frame, which is what C15 quantifies over); WX=0/166 hardware glitches are outside the reference.",
    "technique": "Lean 4 proofs (kernel enumeration for bit tricks, loop invariants for sweep and pixel pipeline) + "
                 "three-way differential correspondence on full frames",
    "streams": [{"name": "c15", "shards": {"quick": 4, "thorough": 16}},
                {"name": "c15.seq", "shards": {"quick": 4, "thorough": 16}}],
    "modules": ["GbVerif.Model.Tile", "GbVerif.Model.Ppu", "GbVerif.Spec.Bits", "GbVerif.Spec.Frame", "GbVerif.Proofs.Enum", "GbVerif.Proofs.PpuInterleave",
                "GbVerif.Proofs.PpuBits", "GbVerif.Proofs.PpuObj", "GbVerif.Proofs.PpuSel", "GbVerif.Proofs.PpuLine", "GbVerif.Proofs.PpuFrame", "GbVerif.Proofs.NatBits"],
    "exhaustive": False,
    "rule": "quick 300 / thorough 30000 full frames (23040 pixels each) from power-on through VideoState's public API in random "
            "batch sizes; VRAM/OAM/LCDC bits 1-6/SCX/SCY/WX/WY/BGP/OBP0/OBP1 random + adversarial (11..40 objects on a line, equal X, "
            "X in {0,1,7,8,160..169,255}, Y in {0,8,15,16,144..161}, 8x16 with odd / 0xff tile index, flips, priority bit, WX/WY/SCX/SCY "
            "edge sets and full sweeps); non-trivial = more than one shade on screen",
    "assumptions": ["proof stages complete: (i) interleave/flip/tile addressing, (ii) object_cache_spec, (iii)-(v) per-pixel "
                    "invariant (bg_window_colour_spec, mixing_spec, pixel_step_spec) and the 40 drawing ticks (line_spec_partial); "
                    "NOT proved, covered by the three-way frame correspondence only: (a) the mode 2->3 set-up enterMode3 establishes "
                    "the invariant at pixel 0 (window first tile for WX<=7, BG first tile with SCX fine-scroll shift), (b) composition "
                    "over the 114 ticks of a line and the 144 lines of the frame up to the buffer swap (frame_swap_partial proves the swap tick)",
                    "theorem hypotheses: registers are bytes, VRAM is 8192 and OAM 160 bytes",
                    "LCDC bits 7 and 0 set (LCD and BG enabled), as the property states",
                    "VRAM, OAM and all registers constant over the frame; clock batches are multiples of 4 (C14/C09 own the rest)"],
    "trusted": ["window line counter modelled as LY-WY in the reference (see Spec/Frame.lean header)"],
}
