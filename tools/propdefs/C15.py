PROP = {
    "claim": "Proof + correspondence: frame_spec / frame_spec_next prove, for ALL VRAM/OAM/register bytes, that the frame the model "
             "presents at VBlank (after power-on, and for every later frame on the same machine after the setters were called again "
             "during VBlank) equals a per-pixel reference composition written from the Game Boy definition, with no panic; stages: "
             "interleave/flip multiply tricks and tile addressing (kernel enumeration), object selection + line cache = lowest-X-then-index "
             "winner, shift-register loop invariant per pixel (BG scroll wrap, window for every WX/WY, object mixing, palettes), mode 2->3 "
             "set-up, 114 ticks per line, 144 lines, buffer swap. The model is a line-by-line mirror of src/devices/video tied to the code "
             "by full frames and multi-frame sequences rendered by the real VideoState::run_clock_cycles in random batch sizes and compared "
             "pixel by pixel with model and reference.",
    "note": "Trusted: Lean kernel (propext/Quot.sound/Classical.choice at most), the harness/driver comparison, rustc. The model "
            "is hand-written; what is verified about the code is theorem AND agreement of code, model and reference on every "
            "generated frame (three-way). Window line = LY - WY (equal to the hardware's window line counter for registers held "
            "constant over the frame, which is what C15 quantifies over); WX=0/166 hardware glitches are outside the reference.",
    "technique": "Lean 4 proofs (kernel enumeration for bit tricks, loop invariants for sweep and pixel pipeline) + "
                 "three-way differential correspondence on full frames",
    "streams": [{"name": "c15", "shards": {"quick": 4, "thorough": 16}},
                {"name": "c15.seq", "shards": {"quick": 4, "thorough": 16}}],
    "modules": ["GbVerif.Model.Tile", "GbVerif.Model.Ppu", "GbVerif.Spec.Bits", "GbVerif.Spec.Frame", "GbVerif.Proofs.Enum", "GbVerif.Proofs.PpuInterleave",
                "GbVerif.Proofs.PpuBits", "GbVerif.Proofs.PpuObj", "GbVerif.Proofs.PpuSel", "GbVerif.Proofs.PpuLine", "GbVerif.Proofs.PpuFrame", "GbVerif.Proofs.PpuCompose", "GbVerif.Proofs.NatBits"],
    "exhaustive": False,
    "rule": "c15.seq: quick 150 / thorough 6000 sequences of 2-3 frames on one VideoState with LCDC bits 1-6, palettes, scroll, window, OAM and VRAM "
            "changed during VBlank (objects on->off->on with opaque objects on line 143, 8x16<->8x8); c15: quick 300 / thorough 30000 full frames (23040 pixels each) from power-on through VideoState's public API in random "
            "batch sizes; VRAM/OAM/LCDC bits 1-6/SCX/SCY/WX/WY/BGP/OBP0/OBP1 random + adversarial (11..40 objects on a line, equal X, "
            "X in {0,1,7,8,160..169,255}, Y in {0,8,15,16,144..161}, 8x16 with odd / 0xff tile index, flips, priority bit, WX/WY/SCX/SCY "
            "edge sets and full sweeps); non-trivial = more than one shade on screen",
    "assumptions": ["theorem hypotheses (Contents): all eight registers are bytes, VRAM is 8192 and OAM 160 bytes, contents constant from the "
                    "register write in VBlank to the next VBlank entry; frame_spec_next additionally: the machine is at a VBlank entry "
                    "(mode 1, LY 144, dot 0) with a configuration produced by the setters; clock batches are multiples of 4 (C14/C09 own the rest)",
                    "LCDC bits 7 and 0 set (LCD and BG enabled), as the property states (the code ignores both bits when drawing)",
                    "mid-frame register/VRAM/OAM writes are outside the property and outside the theorems"],
    "trusted": ["window line counter modelled as LY-WY in the reference (see Spec/Frame.lean header)"],
}
