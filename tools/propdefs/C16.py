PROP = {
    "claim": "(dev_touches_only_oam_io) the real catch-up changes nothing but OAM (only while a transfer runs), the I/O block and the DMA bookkeeping: cartridge registers, ROM, VRAM, cartridge RAM, work RAM, high RAM are exactly as before, for any amount of time; (dev_batch_add, dev_partition_invariant, sys_ok_create / _write / _time) WHOLE-MACHINE batch independence: for the device function Sys.dev = MemoryAreas::run_clock_cycles as the code composes it (one DMA byte, then timer + LCD + joypad catch up with that machine cycle, ...), a + b clocks in one call leave exactly the state that a clocks then b clocks leave - OAM, all other memory, DIV/TIMA, LCD position, frame counter, joypad request, IF, DMA progress - for every source page INCLUDING the I/O page whose registers change during the copy, every progress, every reachable state; hence any partition into batches of whole machine cycles. Built from the timer's and the LCD's batch additivity (C13, C14), OR-accumulation of IF, a zero-clock catch-up being the identity right after a catch-up, and split / frame lemmas for the copy loop. Proof: over the Lean model of the 0xFF46 write and of the copy loop in MemoryAreas::run_clock_cycles, for every "
             "well-formed bus state, every source page 0..255 and every progress, (dma_batch) a catch-up batch of c clocks copies "
             "exactly the bytes off..min(off+c/4,160)-1 in ascending order, each OAM byte afterwards reading what its source address "
             "XX00+i read through the whole memory map (banked ROM, cartridge RAM, echo, I/O, OAM itself) before the batch, every "
             "other address of the 64 KiB space reading as before; (dma_frame) no state component other than OAM and the progress "
             "changes; (dma_progress) after k machine cycles exactly min(off+k,160) bytes are done and the transfer is over iff that "
             "is 160; (dma_copies_160) 0xFF46 write + >= 640 clocks gives all 160 bytes; (dma_run_add, dma_split_invariant, "
             "dma_partition_invariant) runDma a ; runDma b = runDma (a+b) for a multiple of 4 and hence every split of a stretch "
             "of time into whole-machine-cycle batches gives the same result, panics included; (dma_restart, dma_survives_write, "
             "dma_idle, dmaok_*) a 0xFF46 write restarts at offset 0 from any progress, any other write leaves the transfer alone "
             "(so later batches read the modified source), a finished transfer does nothing. The model is tied to mem.rs by scenario "
             "streams on the real MemoryAreas (with_rom_file on pattern ROMs, pre-filled RAM): 0xFF46 writes, real "
             "run_clock_cycles batches from generated partitions, source/bank/destination writes and restarts in between; after "
             "every batch OAM, progress (hook DMAState::verif_state), the source page as read just before the batch and a digest of "
             "all other RAM are checked against the spec from the implementation's own outputs and against the model replay; c16.inv "
             "runs each scenario under three partitions (4-clock batches, one batch per gap, random split) and requires equal results.",
    "note": "The bus model has no passage of time: when the source is page 0xFF the registers that advance by themselves (DIV, TIMA, "
            "IF, STAT, LY) are compared exactly only for the first byte of a batch and through the partition-invariance stream, not "
            "against the model; since fix 451a8b9 the devices catch up after every copied byte, so these too are read at the byte's "
            "own machine cycle. Batches are whole machine cycles (multiples of 4 clocks), as both CPU engines produce them; the "
            "model's clocks/4 floor is not exercised on other lengths (the video device underflows on them). CPU access "
            "restrictions during DMA (only HRAM on hardware) are not emulated and not part of the property. Hand-written model "
            "validated by differential runs only.",
    "technique": "Lean 4 proof (induction over the copy loop with a frame lemma for OAM writes, monadic batch-additivity lemma, "
                 "induction over partitions) + generated differential correspondence on the real MemoryAreas::run_clock_cycles",
    "streams": [{"name": "c16", "shards": {"quick": 2, "thorough": 16}},
                {"name": "c16.inv", "shards": {"quick": 1, "thorough": 4}}],
    "modules": ["GbVerif.Model.Sys", "GbVerif.Model.Timer", "GbVerif.Model.Lcd", "GbVerif.Proofs.SysTotal", "GbVerif.Proofs.SysBatch", "GbVerif.Proofs.Timer", "GbVerif.Proofs.Lcd", "GbVerif.Proofs.BusIo", "GbVerif.Model.Bus", "GbVerif.Model.Cart", "GbVerif.Proofs.BusBasic", "GbVerif.Proofs.BusWf", "GbVerif.Proofs.BusDma"],
    "exhaustive": False,
    "rule": "one scenario in three runs with the LCD on (LCDC bit 7 set, up to 72 000 clocks of lead-in): a transfer is longer than a line, so it overlaps modes 2 and 3 outside VBlank; c16: one scenario = cartridge (6 configurations: ROM only, MBC1/MBC3 with 0/2K/32K/128K RAM) x source page (quick: 40 "
            "pages incl. 0x00 0x3F 0x40 0x7F 0x80 0x9F 0xA0 0xBF 0xC0 0xDF 0xE0 0xFD 0xFE 0xFF; thorough: all 256) x partition style "
            "(one batch; 160+ batches of 4 clocks; random sizes from {4..1000}; fixed size 8/12/16/28/156/320/636), total 640..1000 "
            "clocks, optional idle time first, bank-register setup for banked sources, and with probability 1/3 (1/12 for the "
            "4-clock style) between batches a write to a pending source byte, an already copied one, unrelated RAM, a bank "
            "register, OAM itself, or a restart with a new page. Non-trivial = at least one byte copied. c16.inv: page x random "
            "start phase (0..4800 clocks after power-on) x up to 3 (gap, write) segments x three partitions.",
    "assumptions": ["batch lengths are multiples of 4 clocks (MachineCycles::to_clock_cycles is the only producer)",
                    "time-varying I/O registers as DMA source (page 0xFF offsets 0x04 0x05 0x0F 0x41 0x44) are outside the model; "
                    "they are checked on the implementation by c16.inv and on the first byte of every batch"],
    "trusted": ["hook DMAState::verif_state (cfg gb_dynarec_verif, add-only) reports source and current_offset"],
}
