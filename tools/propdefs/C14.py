PROP = {
    "claim": "Proof: for the Lean model of the LCD mode machine of src/devices/video/mod.rs (run_clock_cycles without the pixel work, "
             "check_current_line, check_mode_interrupt, get/set_lcd_status, set_ly_compare, power-on = VideoState::new()), for ALL tick "
             "counts, ALL partitions of the elapsed time into batches that are multiples of 4 clocks, ALL STAT enable masks and ALL LYC "
             "values, written at any time: (LY, mode, dots) after t clocks = the closed-form schedule sched t (lcd_closed_form, "
             "lcd_closed_form_ticks, lcd_closed_form_ops; step lemma checked by the kernel on all 17 556 four-clock ticks of a frame and "
             "lifted by periodicity); one batch of a+b ticks = batch a then batch b with the flags OR-ed, any two partitions of the same "
             "total agree (run_add, batch_independent, partitions_agree, clock_batches); LY advances every 456 clocks through 0..153 and "
             "each value occupies one 456-clock slot per frame, the state has period exactly 70224 clocks and LY no shorter one "
             "(ly_every_456, ly_slot, frame_70224); lines 0..143 are mode 2/3/0 for 80/188/188 clocks and lines 144..153 mode 1 "
             "(line_modes, line_modes_explicit); a tick returns the VBlank flag iff LY goes 143->144 in it, i.e. on exactly one tick per "
             "frame, and a batch returns it iff it contains that tick (vblank_once_at_144, vblank_once_per_frame, vblank_batch, "
             "write_no_vblank); the STAT flag of a tick = (a mode with its enable bit set is entered) or (LY changes to LYC with the "
             "coincidence enable), symbolic in the four enables and LYC (stat_flag, stat_iff, stat_on_mode_entry, stat_on_lyc, stat_batch); "
             "STAT bits 0..1 = scheduled mode, bit 2 = (LY = LYC), bits 3..6 = the stored enables (stat_bits, stat_bits_sched, "
             "setStat_enables). The model is tied to the code on every run by replaying generated call sequences through the real "
             "VideoState / IO API and comparing LY, STAT and the returned interrupt flags after every batch with the model and with the "
             "closed-form spec.",
    "note": "Trusted: Lean kernel (axioms propext, Quot.sound, Classical.choice only), the harness/driver comparison, rustc. The model is "
            "hand-written; what is verified about the code is theorem AND agreement of model, spec and code on the streams (c14.step "
            "visits every tick of the frame period for every enable mask; the rest is random). Batches that are not a multiple of 4 "
            "clocks are outside the property: `cycles_remaining -= 4` underflows (runClocks_not_mul4 models it as failure; callers "
            "pass 4 x machine cycles). Not claimed: mode-3 length depending on sprites (the code fixes 188/188), STAT bit 7, the "
            "LCD-off state (LCDC.7 does not stop the schedule in this code), flags returned by the STAT/LYC writes themselves "
            "(checked model-vs-code only).",
    "technique": "Lean 4 proofs (kernel enumeration of one frame period + induction on ticks, omega) + differential correspondence of "
                 "model, closed-form spec and code on exhaustive-per-tick and random batch streams",
    "streams": [
        {"name": "c14.edge"},
        {"name": "c14.step", "shards": {"quick": 2, "thorough": 8}},
        {"name": "c14.run", "shards": {"quick": 4, "thorough": 8}},
        {"name": "c14.part", "shards": {"quick": 1, "thorough": 8}},
        {"name": "c14.io", "shards": {"quick": 1, "thorough": 4}},
    ],
    "modules": ["GbVerif.Model.Lcd", "GbVerif.Spec.Lcd", "GbVerif.Proofs.Lcd", "GbVerif.Proofs.LcdEnum", "GbVerif.Proofs.LcdSched",
                "GbVerif.Proofs.Enum", "GbVerif.Proofs.NatBits"],
    "exhaustive": False,
    "rule": "two thirds of all cases run on a picture (field sc=: pattern tiles, forty objects, fourteen of them on one band of lines, LCDC 0x93 / 0x97) - the schedule does not look at the picture; c14.edge: jump to 8 clocks before each of 17 schedule boundaries (LY 144->145, ->153, ->0, mode 2->3->0 on lines 0, 1, 142, "
            "143, LY ->1, ->2, ->143, ->144 (VBlank), second and third frame), then four single ticks, 16 masks x LYC set (quick) / all 256 "
            "(thorough); c14.step: every single 4-clock tick from power-on over 1 frame + 2 lines (quick) / 3 frames (thorough), 16 enable masks x "
            "LYC in {0,1,2,143,144,145,153,154,255} (quick) / all 256 LYC (thorough); c14.run: 1600 (quick) / 160000 (thorough) random "
            "partitions of 3..4 frames into multiples of 4 clocks in 8 styles (instruction-sized 4..24, 4..64, up to 2000, whole lines "
            "+-4, up to two frames, boundary values 4/80/188/268/456/4560/65664/70220/70224 +-4, whole frames +-4, mixtures), all 16 "
            "masks (random junk in the unstored STAT bits) x LYC set + random; c14.io: the same through IO::set_byte/get_byte/"
            "run_clock_cycles (FF41, FF44, FF45, IF); c14.part: 320 / 32000 totals each run under two partitions (one of them a single "
            "call in 1/4 of the cases), results must be equal and equal to the spec. After every batch: LY, STAT, returned flags. "
            "non-trivial = a VBlank or STAT request was returned",
    "assumptions": [
        "every run_clock_cycles batch is a multiple of 4 clocks (emulator::Core passes 4 x machine cycles)",
        "time starts at VideoState::new(): first clock of line 144, registers zero",
        "bytes written to STAT / LYC are < 256",
    ],
    "trusted": [],
}
