PROP = {
    "claim": "Proof: over the Lean model of memory_read_byte / memory_write_byte / IO::get_byte / IO::set_byte / "
             "get_executable_memory_slice, for every well-formed bus state (any cartridge kind, ROM >= 2 banks, any RAM size, any "
             "banking-register state) and every byte value: (store_load, store_frame) a byte written to VRAM, mapped cartridge RAM, "
             "WRAM, OAM, HRAM or IE is returned by the next read of that address and changes what is read at no other of the 65 536 "
             "addresses, ROM windows and I/O registers included; (rom_immutable, rom_const, rom_write_only_remaps) no write changes "
             "the ROM image, writes >= 0x8000 change nothing read below 0x8000, writes < 0x8000 change no RAM array and no read "
             "outside the two banked windows; (unmapped_const, io_unassigned) echo RAM, 0xFEA0-0xFEFF read 0, unassigned I/O reads "
             "0xFF, and writes there leave the state unchanged; (io_readback, io_mask_support, div_ly, iook_*) P1, TIMA, TMA, TAC, IF, "
             "LCDC, STAT, SCY, SCX, LYC, BGP, OBP0, OBP1, WY, WX read back the written byte on their defined bits, a DIV write "
             "resets it, LY ignores writes; (fetch_eq_read) the instruction-fetch view equals the data read throughout ROM, WRAM "
             "and HRAM; (refines_spec) from every power-on state and along every history of byte writes, every read outside the "
             "I/O window equals the read of the banked byte-store spec (BusSpec, with the C12 register protocol) after the same "
             "history, by induction with an abstraction relation. The model is tied to mem.rs/io.rs by the c10 stream: after a "
             "generated write history on the real MemoryAreas all 65 536 addresses are read and compared per region with spec and "
             "model, the I/O window byte by byte, the fetch view over ROM/WRAM/HRAM and over the echo aliases by digest.",
    "note": "Hand-written model validated by differential runs only. The I/O window is specified per register (masks in "
            "BusSpec.ioMask), not by the byte-store spec; serial SB/SC read 0xFF in this emulator (not in the property's list). "
            "Registers that change with time (DIV, TIMA, LY, STAT mode, IF) are modelled on the register side only; their "
            "evolution is C13/C14. P1 read-back assumes the button state is a nibble (kept by the joypad model, C17). "
            "Cartridge RAM ignores the RAM-enable latch (as the emulator does; allowed by C12's statement). The fetch view of the "
            "echo area executes work RAM while data reads return 0 - outside the property (ROM/WRAM/HRAM only), tied but not claimed.",
    "technique": "Lean 4 proofs: per-region rewriting lemmas for the two address ladders, frame lemmas per RAM region, kernel "
                 "enumeration of byte-level bit facts, refinement by induction over write histories; exhaustive-address "
                 "differential correspondence on the real MemoryAreas",
    "rule_extra": "one history operation in six lets time pass (run_clock_cycles(64 v), up to 16320 clocks: through VBlank into all LCD modes); the spec ignores time, the model runs Sys.dev and the whole I/O block is compared; the fetch digests fold the up-to-three bytes (and their number) the slice hands to the decoder at every sampled address and at all region ends",
    "streams": [{"name": "c10", "shards": {"quick": 2, "thorough": 16}}],
    "modules": ["GbVerif.Model.Bus", "GbVerif.Model.Fetch", "GbVerif.Model.Cart", "GbVerif.Model.Joypad", "GbVerif.Spec.BusSpec",
                "GbVerif.Spec.Cart", "GbVerif.Proofs.BusBasic", "GbVerif.Proofs.BusWf", "GbVerif.Proofs.BusDma",
                "GbVerif.Proofs.BusFrame", "GbVerif.Proofs.BusIo", "GbVerif.Proofs.BusRefine", "GbVerif.Props.C12",
                "GbVerif.Proofs.NatBits"],
    "exhaustive": False,
    "rule": "one case in three sets the header bytes the memory map must NOT depend on (Color flag 0x80/0xC0, SGB flag, licensee, destination, version; field hx=), half of them start with an odd write to the Color-only VRAM bank register 0xFF4F followed by VRAM writes; one history in eight switches the display on, lets 4608..5560 clocks pass (out of VBlank, into any mode of a drawn line) and writes LCDC with bit 7 clear; one case = cartridge configuration (14: ROM only / MBC1 / MBC3, 2..512 and 72/80/96 banks, RAM 0/2K/8K/32K/64K/128K) x "
            "write history of 1..12 writes (addresses: region boundaries 30%, bank registers, each RAM region, OAM/unused/I/O/HRAM, "
            "uniform; values: boundary bytes 25%, uniform), quick 40 and thorough 1500 histories per configuration; after the "
            "history all 65 536 addresses are read (exhaustive in the address), 12 region digests + 128 I/O bytes + fetch digests. "
            "Non-trivial = the history contains a write at or above 0x2000.",
    "assumptions": ["addresses are u16, values u8 (Rust types)", "vram_bank = 0 and wram_bank = 1 (DMG; never changed by the code)"],
}
