PROP = {
    "claim": "Proof: Lean theorems over a line-by-line model of parse_command / parse_address / disassemble, for every Unicode "
             "input line and every environment of Unicode tables that is right on ASCII: the parser is total and every answer is "
             "one the spec allows (parse_total); command words are recognised in any ASCII letter case with any surrounding "
             "whitespace (cmd_case_ws_*); parse_address equals the spec's 16-bit numeral value of the trimmed token for every token "
             "(addr_spec), all 65536 addresses round-trip in decimal and 0x-hex with any leading zeros / letter case, out-of-range, "
             "'-', empty and non-digit tokens are rejected; disassembling any concatenation of complete instructions yields exactly "
             "the layout with the generated decoder table's lengths and addresses mod 2^16 (disasm_tiles, disasm_exact). "
             "The model is tied to the code by correspondence streams through the real functions.",
    "note": "Trusted: Lean kernel (axioms propext / Classical.choice / Quot.sound only), tools/gen_decoder.py (fail-closed; its table is "
            "compared with the running decode() on all 65536 (byte0, byte1) pairs incl. panics on short slices by c20.dec), the "
            "hand-written model (compared with the real functions on all 65536 addresses in 6+ spellings, generated ASCII/Unicode "
            "lines, random instruction sequences), Rust std's Unicode tables (the model's view of is_whitespace/to_lowercase is "
            "compared with std for all 1 112 064 scalar values by c20.uni), rustc. Fixed interpretation (DESIGN C20): one leading '+' "
            "is part of Rust's integer grammar and accepted; U+212A KELVIN SIGN lowercases to 'k', so words spelled with it are "
            "recognised (allowed by the spec, not required). Instruction.text (mnemonics) is not modelled.",
    "technique": "Lean 4 proofs (induction on digit strings / token lists / instruction lists; kernel enumeration of the 2x256-entry "
                 "generated decoder table) + differential correspondence of model, spec and code",
    "streams": [
        {"name": "c20.addr"},
        {"name": "c20.cmd", "shards": {"quick": 1, "thorough": 8}},
        {"name": "c20.disasm", "shards": {"quick": 1, "thorough": 8}},
        {"name": "c20.dec"},
        {"name": "c20.uni"},
    ],
    "gen": ["gen_decoder.py"],
    "modules": ["GbVerif.Model.Debug", "GbVerif.Spec.Debug", "GbVerif.Gen.DecoderTable", "GbVerif.Proofs.DebugAddr",
                "GbVerif.Proofs.DebugCmd", "GbVerif.Proofs.DebugDisasm"],
    "exhaustive": False,
    "rule": "c20.addr: all 65536 values x {decimal, 0x lower, 0x upper, leading zeros, mixed-case hex with zeros, #06X; in thorough "
            "also +n, 0x+n, padded, -n, 0X} + 65536..70000 (200000) + 2^k boundaries + 90 malformed/Unicode tokens + 1e5 (2e6) random "
            "tokens, exhaustive over the 16-bit values; c20.cmd: 1e5 (1e7) generated lines (every command word in random case with "
            "random ASCII/Unicode whitespace, look-alike letters, non-whitespace separators, near misses, garbage incl. astral "
            "chars, long lines), non-trivial = a command was returned; c20.disasm: every first byte and CB second byte alone + 1e4 "
            "(1e6) random instruction lists (up to 200 instructions, wrapping start addresses, 1/12 cut short), non-trivial = 2+ "
            "instructions; c20.dec: all 65536 (byte0, byte1) pairs exhaustive; c20.uni: all 1112064 Unicode scalar values exhaustive",
    "assumptions": [
        "Env.AsciiOk: char::is_whitespace and char::to_lowercase behave as documented on the 128 ASCII chars (checked against std "
        "by c20.uni and proved for the replayed instance: rust_ascii_ok); nothing is assumed about non-ASCII chars",
        "str::to_lowercase is the concatenation of char::to_lowercase except for the final-sigma rule, which only chooses between "
        "two non-ASCII results",
        "disasm_tiles: the byte sequence is a concatenation of complete instructions (the property's premise); on a sequence cut "
        "inside an instruction the real code panics (index out of range) and the model says so (disasm_total)",
    ],
    "trusted": ["Rust std Unicode tables (is_whitespace, to_lowercase) as compiled into the harness"],
}
