PROP = {
    "claim": "Proof: for every controller kind, every ROM/RAM bank count and every sequence of writes to 0x0000-0x7FFF the banks the "
             "cartridge model exposes equal the register-protocol spec (mbc_refines, by induction over the write list); the model is tied "
             "to cart.rs/mem.rs by a correspondence over all 7 supported types x 12 ROM codes x 6 RAM codes with generated write "
             "sequences, observing the bank getters and the bytes the guest reads at 0x0000/0x4000/0xA000 on bank-tagged cartridges.",
    "note": "Trusted: Lean kernel (propext, Quot.sound, Classical.choice at most), harness/driver, rustc. Spec = classic two-mode MBC1 "
            "description (bank 0 always at 0x0000-0x3FFF), MBC3 without RTC; hand-written model validated by differential runs only.",
    "technique": "Lean 4 refinement proof by induction over write histories + differential correspondence on real MemoryAreas",
    "streams": [{"name": "c12"}],
    "modules": ["GbVerif.Model.Cart", "GbVerif.Spec.Cart", "GbVerif.Proofs.NatBits"],
    "rule": "after every write the line also carries the first byte of the INSTRUCTION-FETCH slice at 0x0000 and 0x4000 (f0=, f4=): the bank that is visible is the bank that is executed; per header configuration (type, ROM code, RAM code) random write sequences of length 1..24 (thorough 1..40, 400 per "
            "configuration) biased to region edges and register ranges; non-trivial = some write left a bank other than ROM 1 / RAM 0",
    "assumptions": ["RTC registers of MBC3 and the RAM-enable latch are outside the statement (the emulator ignores RAM enable)"],
}
