import re
n=open('/verif/.work/c03_n.txt').read().split('\n'); j=open('/verif/.work/c03_j.txt').read().split('\n')
bad=0
for a,b in zip(n,j):
    if not a: continue
    ia,oa=a.split(' | '); ib,ob=b.split(' | ')
    assert ia==ib
    o=re.search(r'o=(\S*)',oa).group(1); m=re.search(r'o=(\S*) c=(\S*)',ob); w,c=m.groups()
    if not (o==w==c):
        bad+=1
        if bad<4:
            ol,wl,cl=o.split(';'),w.split(';'),c.split(';')
            for k,(x,y,z) in enumerate(zip(ol,wl,cl)):
                if not (x==y==z): print('first diff at run',k,'interp',x,'warm',y,'cold',z); break
print('bad',bad,'of',len(n)-1)
