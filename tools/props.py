"""Per-property configuration: one file tools/propdefs/Cxx.py per claimed property, each defining PROP = {...}.
Optional NOT_APPLICABLE reasons live in tools/propdefs/not_applicable.py."""
import glob, importlib.util, os

_D = os.path.join(os.path.dirname(os.path.abspath(__file__)), "propdefs")
PROPS = {}
for _f in sorted(glob.glob(os.path.join(_D, "C*.py"))):
    _pid = os.path.basename(_f)[:-3]
    _spec = importlib.util.spec_from_file_location("propdef_" + _pid, _f)
    _m = importlib.util.module_from_spec(_spec)
    _spec.loader.exec_module(_m)
    PROPS[_pid] = _m.PROP
NOT_APPLICABLE = {}
_na = os.path.join(_D, "not_applicable.py")
if os.path.exists(_na):
    _spec = importlib.util.spec_from_file_location("propdef_na", _na)
    _m = importlib.util.module_from_spec(_spec)
    _spec.loader.exec_module(_m)
    NOT_APPLICABLE = _m.NOT_APPLICABLE
