#!/bin/sh
# Build the framework from files on disk only (offline): Lean project (all proofs + driver) and the harness.
set -e
cd "$(dirname "$0")"
export CARGO_NET_OFFLINE=true
mkdir -p .work evidence replays
(cd harness && RUSTFLAGS="--cfg gb_dynarec_verif" cargo build --release --offline --target-dir ../.work/target/nojit)
for g in tools/gen_*.py; do [ -f "$g" ] && python3 "$g"; done
(cd lean && lake build GbVerif gbdriver)
(cd harness && RUSTFLAGS="--cfg gb_dynarec_verif" cargo build --release --offline --features jit --target-dir ../.work/target/jit)
echo setup done
